(* PROOFS: the crashed media of FsFat.make_dir, at the level of the FAT and the blocks (the level
   of PrGlobalMkdirR.make_dir_run): EVERY outcome, EVERY prefix of the writes.
     make_dir_crash : every crashed medium of a run of make_dir is the final medium, or
       mkc_keep   the directory blocks and every chain of the heads hs are as before the call, the
                  FAT is well-formed for hs and LOST chains (the one-cluster chain of the new
                  directory, the one-cluster chain of the cluster the parent is about to get);
       mkc_grown  as before but for the chain of the parent, which has ONE more cluster, every
                  block of which is zero (alloc_cluster with zero = true: zeroed before linked);
                  the new entry is not yet written.
   The write order (PrBounds.C04_make_dir): FAT sector(s) of the new cluster c; the blocks of c
   (dot entries, zeros); [the parent grows: FAT sector(s) of c', the blocks of c', FAT sector(s)
   of the last cluster of the parent]; LAST the block of the parent that receives the entry.
   When the parent cannot take the entry (mk_full1) c is released by free_cluster_chain: at every
   prefix c is a lost one-cluster chain or free again.
   PrCrashMkdir2 lifts this to the directory tree (step_crash_Mkdir, step_keeps_Mkdir).
   The proofs of sections 3-5 replay PrGlobalMkdirR.mkdir_prefix / mkdir_slot / mkdir_release /
   mkdir_noslot with the intermediate states exposed. *)
From Coq Require Import NArith ZArith List Bool Lia Arith ZifyClasses ZifyInst Zify FMapPositive Permutation.
From SdFs Require Import FsTypes FsBase FsFat FsMgr FsLemmas PrBase PrFat PrAlloc PrDir PrSeek PrAllocEffect
  PrRw PrWrite PrFileSeq PrMulti PrEntry PrChain PrCount PrWf PrOpenClose PrGlobalDef PrGlobalMkdirR.
From SdFs Require PrModes PrHandles PrBounds PrOrder.
From SdFs Require Import PrCrash PrCrashDef PrCrashDef2 PrCrashDef3 PrCrashDef4 PrCrashDelete.
Import ListNotations.
Open Scope N_scope.
Local Arguments N.mul : simpl never.
Local Arguments N.add : simpl never.
Local Arguments N.sub : simpl never.
Local Arguments N.div : simpl never.
Local Arguments N.modulo : simpl never.
Local Arguments N.land : simpl never.
Local Arguments N.lor : simpl never.
Local Ltac Zify.zify_post_hook ::= Z.to_euclidean_division_equations.

(* ================================================================== 0. the shapes *)
(* blocks outside the FAT copies and outside every cluster that was free on D are as on D *)
Definition free_frame (fsz : N) (v : vol) (D d' : disk) : Prop :=
  forall j, ~ PrBounds.in_fat v fsz j ->
    (forall c0, 2 <= c0 -> c0 < v_clusters v + 2 -> fat_get D v 0 c0 = 0 -> ~ In j (cluster_blocks v c0)) ->
    disk_get d' j = disk_get D j.

Definition keep_med (fsz : N) (v : vol) (hs : list N) (D d' : disk) : Prop :=
  exists lost, fat_wf d' v (hs ++ lost) /\
    (forall h ch, In h hs -> chain_at D v h ch -> chain_at d' v h ch) /\ free_frame fsz v D d'.

Inductive mk_crash (fsz : N) (v : vol) (hs : list N) (parent : N) (pbl : list N) (D : disk) : disk -> Prop :=
| mkc_keep d' : keep_med fsz v hs D d' -> mk_crash fsz v hs parent pbl D d'
| mkc_grown d' c' pc pch lost :
    negb (v_fat32 v) && (parent =? CL_ROOT) = false -> pc = dir_first_cluster v parent ->
    In pc hs -> chain_at D v pc pch -> pbl = flat_map (cluster_blocks v) pch ->
    2 <= c' -> c' < v_clusters v + 2 -> fat_get D v 0 c' = 0 ->
    (forall j, In j (cluster_blocks v c') -> disk_get d' j = zero_block) ->
    fat_wf d' v (hs ++ lost) -> chain_at d' v pc (pch ++ [c']) ->
    (forall h ch, In h hs -> h <> pc -> chain_at D v h ch -> chain_at d' v h ch) ->
    free_frame fsz v D d' ->
    mk_crash fsz v hs parent pbl D d'.

Lemma keep_med_refl fsz v hs D : fat_wf D v hs -> keep_med fsz v hs D D.
Proof.
  intros W. exists []. rewrite app_nil_r. split; [exact W|]. split; [intros h ch _ H; exact H|intros j _ _; reflexivity].
Qed.

Lemma free_frame_geo fsz v w D d' : geo_eq v w -> free_frame fsz w D d' -> free_frame fsz v D d'.
Proof. intros (a & b & ->) H. exact H. Qed.

Lemma keep_med_geo fsz v w hs D d' : geo_eq v w -> keep_med fsz w hs D d' -> keep_med fsz v hs D d'.
Proof.
  intros G (lost & A & B & C). exists lost. split; [exact (fat_wf_geo _ w v _ (geo_eq_sym _ _ G) A)|]. split.
  - intros h ch Hh Hc. apply (chain_at_geo d' v w h ch G). apply (B h ch Hh). apply (chain_at_geo D v w h ch G). exact Hc.
  - exact (free_frame_geo fsz v w D d' G C).
Qed.

(* ================================================================== 1. media of the primitives *)
(* EVERY prefix of the writes of a successful alloc_cluster of the free cluster c (behind the last
   cluster p of a chain of hs0, or as a new chain), on a FAT that is well-formed for hs0: the
   chains of hs0 are kept and c is free or a lost one-cluster chain, or (last stage, prev = Some p)
   the chain of p ends in c, and - zeroing - every block of c is zero.  Blocks outside the FAT and
   outside c are unchanged. *)
Theorem alloc_media fsz w hs0 D0 prev zero c k h pre :
  fat_layout w fsz -> link_ok w -> PrCrash.fat_len_ok w fsz D0 -> fat_wf D0 w hs0 ->
  2 <= c -> c < v_clusters w + 2 -> fat_get D0 w 0 c = 0 ->
  (forall p, prev = Some p -> In h hs0 /\ chain_at D0 w h (pre ++ [p])) ->
  let Dk := prefix_disk (alloc_writes w D0 prev zero c) k D0 in
  (forall j, PrCrash.non_fat w fsz j -> ~ In j (cluster_blocks w c) -> disk_get Dk j = disk_get D0 j) /\
  ((exists lost, fat_wf Dk w (hs0 ++ lost) /\ forall h2 ch, In h2 hs0 -> chain_at D0 w h2 ch -> chain_at Dk w h2 ch) \/
   (exists p, prev = Some p /\
      fat_wf Dk w hs0 /\ chain_at Dk w h (pre ++ [p; c]) /\
      (forall h2 ch2, In h2 hs0 -> h2 <> h -> chain_at D0 w h2 ch2 -> chain_at Dk w h2 ch2) /\
      (zero = true -> forall b, In b (cluster_blocks w c) -> disk_get Dk b = zero_block))).
Proof.
  intros L Hl Hlen W C1 C2 Cf Hprev Dk.
  assert (HinF : forall x, x < v_clusters w + 2 -> PrCrash.in_fat w fsz x) by (intros x Hx; exact (layout_sector w fsz x L Hx)).
  assert (Hqp : forall p, prev = Some p -> PrCrash.in_fat w fsz p).
  { intros p Ep. destruct (Hprev p Ep) as (_ & Hc).
    apply HinF. exact (proj1 (proj2 (chain_at_mem _ _ _ _ p Hc ltac:(apply in_or_app; right; left; reflexivity)))). }
  destruct (PrCrash.alloc_prefix_fat w fsz D0 prev zero c k L Hlen C1 (HinF c C2) Hqp)
    as (n0 & n1 & _ & O2 & O3 & G0 & _ & Gz & Gf & _ & _).
  fold Dk in G0, Gz, Gf. split; [exact Gf|].
  destruct n0 as [|[|n0]].
  - (* nothing on the first copy yet *)
    left. exists []. rewrite app_nil_r.
    destruct (crd_wf_same D0 Dk w hs0) as (A & B); [|exact W|split; [exact A|intros h2 ch _; exact (B h2 ch)]].
    intros x _ X2. rewrite (G0 x (HinF x X2)). reflexivity.
  - (* c is marked end-of-chain *)
    left. exists [c].
    destruct (crd_wf_new D0 Dk w hs0 c W C1 C2 Cf) as (A & _ & B); [| |split; [exact A|exact B]].
    + rewrite (G0 c (HinF c C2)). cbn [PrCrash.alloc_stage]. rewrite N.eqb_refl. reflexivity.
    + intros x _ X2 Hne. rewrite (G0 x (HinF x X2)). cbn [PrCrash.alloc_stage].
      apply N.eqb_neq in Hne. rewrite Hne. reflexivity.
  - (* the link is on the medium *)
    assert (E2 : n0 = 0%nat) by lia. subst n0.
    destruct prev as [p|]; [|specialize (O3 eq_refl); lia].
    destruct (Hprev p eq_refl) as (Hh & Hc). right. exists p. split; [reflexivity|].
    destruct (chain_at_mem _ _ _ _ p Hc ltac:(apply in_or_app; right; left; reflexivity)) as (P1 & P2 & P3 & _).
    assert (Hpc : p <> c) by (intros ->; contradiction).
    destruct (wf_extend D0 Dk w hs0 h pre p c Hl W Hh Hc C1 C2 Cf) as (A & B & Coth).
    + rewrite (G0 c (HinF c C2)). cbn [PrCrash.alloc_stage].
      replace (c =? p) with false by (symmetry; apply N.eqb_neq; congruence). rewrite N.eqb_refl. reflexivity.
    + rewrite (G0 p (HinF p P2)). cbn [PrCrash.alloc_stage]. rewrite N.eqb_refl. exact (enc_link w c Hl C2).
    + intros x _ X2 N1 N2. rewrite (G0 x (HinF x X2)). cbn [PrCrash.alloc_stage].
      apply N.eqb_neq in N1. apply N.eqb_neq in N2. rewrite N1, N2. reflexivity.
    + split; [exact A|]. split; [exact B|]. split; [exact Coth|]. intros Hz. exact (Gz eq_refl Hz).
Qed.

(* a FAT sector is no block of a data cluster *)
Lemma fat_not_cluster v fsz j c : fat_layout v fsz -> 2 <= c -> PrBounds.in_fat v fsz j -> ~ In j (cluster_blocks v c).
Proof.
  intros L C1 Hj Hin. destruct (PrBounds.in_fat_is_copy_sector v fsz j Hj) as (copy & k & Hk & ->).
  apply in_cluster_blocks_iff in Hin. unfold in_cluster in Hin.
  pose proof (PrBounds.fat_sector_outside_cluster v fsz copy k c L Hk C1) as H. lia.
Qed.

(* writes into the blocks of a cluster that was free on D *)
Lemma keep_med_data fsz v hs D d1 d' c : fat_layout v fsz ->
  2 <= c -> c < v_clusters v + 2 -> fat_get D v 0 c = 0 ->
  keep_med fsz v hs D d1 -> (forall j, ~ In j (cluster_blocks v c) -> disk_get d' j = disk_get d1 j) ->
  keep_med fsz v hs D d'.
Proof.
  intros L C1 C2 Cf (lost & A & B & F) Hd.
  assert (Hfs : fat_same v fsz d1 d') by (intros j Hj; apply Hd; exact (fat_not_cluster v fsz j c L C1 Hj)).
  exists lost. split; [exact (fat_same_wf v fsz _ _ _ L Hfs A)|]. split.
  - intros h ch Hh Hc. exact (fat_same_chain v fsz _ _ _ _ L Hfs (B h ch Hh Hc)).
  - intros j J1 J2. rewrite (Hd j (J2 c C1 C2 Cf)). exact (F j J1 J2).
Qed.

(* EVERY prefix of the writes of free_cluster_chain on the lost one-cluster chain [c]: c is still
   that chain, or free; nothing else changes *)
Theorem free_media vi w fsz t c hs0 : fat_layout w fsz -> st_ok vi w fsz t ->
  fat_wf (s_disk t) w (hs0 ++ [c]) -> chain_at (s_disk t) w c [c] ->
  exists s', free_cluster_chain vi c t = (Ok tt, s') /\ traced t s' /\
    forall d', crash_disks t s' d' ->
      (forall j, PrCrash.non_fat w fsz j -> disk_get d' j = disk_get (s_disk t) j) /\
      exists lost, fat_wf d' w (hs0 ++ lost) /\
        forall h ch, In h hs0 -> chain_at (s_disk t) w h ch -> chain_at d' w h ch.
Proof.
  intros L Hst W Hch.
  destruct (PrCrash.C10_free_prefix_chains vi w fsz t c [] (walk_fuel w) L Hst Hch) as (s' & Hrun & Tr & Hk).
  exists s'. split; [exact Hrun|]. split; [exact (tr_ext_traced _ _ _ Tr)|].
  intros d' Hd. apply (crash_disks_tr_ext t s' _ d' Tr) in Hd. destruct Hd as (k & _ & ->).
  destruct (Hk k) as (j0 & j1 & _ & _ & _ & Hout & _ & Hthis & Hnf). split; [exact Hnf|].
  apply (crd_free_stage (s_disk t) _ w hs0 c [] W Hch).
  - intros x _ X2 Hni. exact (Hout x (layout_sector w fsz x L X2) Hni).
  - destruct Hthis as [A|[(B1 & B2 & m & Bm & Bz & Bk)|(C1 & C2)]].
    + left. exact A.
    + right. left. split; [exact (chain_at_any _ _ _ _ _ B1)|]. exists m. split; [exact Bm|]. split; assumption.
    + right. right. split; assumption.
Qed.

(* ================================================================== 2. the common prefix of make_dir, with its run *)
Lemma tm_zero_body : forall i, tm (blank_mut i ;;; write_back ;;; ret (@None unit)).
Proof. intros i. tm_go. Qed.

Lemma mkc_prefix fsz total vi v hs parent sfn s c s1 r s' :
  alloc_pre s vi v fsz -> PrBounds.part_layout v total fsz -> blocks_wf (s_disk s) ->
  fat_wf (s_disk s) v hs ->
  alloc_cluster vi None false s = (Ok c, s1) ->
  make_dir vi parent sfn A_DIRECTORY s = (r, s') ->
  exists s6 v1,
    mkdir_rest vi parent sfn c s6 = (r, s') /\ traced s1 s6 /\
    map fst (step_writes s1 s6) = cluster_blocks v c /\
    prefix_ok fsz vi v hs (if parent =? CL_ROOT then CL_EMPTY else parent) s c s6 v1.
Proof.
  intros Hpre L Hbw W Hal Hmk.
  pose proof Hpre as ((Hnf & Hc & Hvi & Hlen) & FL & Hh). pose proof (fl_vol v fsz FL) as Hv.
  pose proof (PrBounds.pl_spc v total fsz L) as Hspc.
  assert (Hprev0 : forall p, @None N = Some p -> p < v_clusters v + 2) by (intros p Ep; discriminate Ep).
  pose proof (alloc_cluster_effect vi v fsz None false s c s1 Hpre Hprev0 Hal) as Heff.
  destruct (ae_range _ _ _ _ _ _ _ _ Heff) as (C1 & C2 & C3).
  destruct (ae_vol _ _ _ _ _ _ _ _ Heff) as (nf & Evols & _).
  destruct (ae_tables _ _ _ _ _ _ _ _ Heff) as (A1 & A2 & A3 & A4 & A5 & A6 & A7 & A8 & A9).
  set (v1 := set_v_free (set_v_next_free v nf) (dec_free (v_free v))) in *.
  assert (G1 : geo_eq v v1) by (exists nf, (dec_free (v_free v)); reflexivity).
  assert (Hv1 : nth_error (s_vols s1) vi = Some v1) by (rewrite Evols; exact (ls_nth_same _ _ _ _ Hvi)).
  destruct (alloc_cluster_keeps_pre vi v fsz None false s c s1 Hpre Hprev0 Hal) as (w & Hw & Hpre1 & _).
  rewrite Hv1 in Hw. inversion Hw; subst w. clear Hw.
  pose proof Hpre1 as ((Hnf1 & Hc1 & _ & Hlen1) & FL1 & Hh1). pose proof (fl_vol v1 fsz FL1) as Hvok1.
  set (start := cluster_first_block v c).
  destruct (cluster_block_ok v1 c s1 Hvok1 C1 C2) as (Hcb & Hfit).
  change (cluster_first_block v1 c) with start in Hcb, Hfit. change (v_spc v1) with (v_spc v) in Hfit.
  set (now := clock_ts (s_clock s)).
  set (pcl := if parent =? CL_ROOT then CL_EMPTY else parent).
  set (dot := ser_bytes (v_fat32 v) (mk_dirent THIS_DIR_NAME now now A_DIRECTORY c 0 start 0)).
  set (dotdot := ser_bytes (v_fat32 v) (mk_dirent PARENT_DIR_NAME now now A_DIRECTORY pcl 0 start 32)).
  set (s2 := set_s_clock s1 (s_clock s1 + 1)).
  set (s3 := set_s_cache (set_s_tag s2 (Some start)) zero_block).
  set (s4 := set_s_cache s3 (set_bytes (set_bytes zero_block 0 dot) 32 dotdot)).
  assert (T4 : s_tag s4 = Some start) by reflexivity.
  assert (N4 : no_faults s4) by (apply (no_faults_step s1); [reflexivity|cbn; lia|exact Hnf1]).
  pose proof (write_back_ok start s4 T4 N4) as Hwb.
  match type of Hwb with _ = (_, ?st) => set (s5 := st) in * end.
  destruct (PrOrder.write_back_steps start s4 _ _ T4 N4 Hwb) as (_ & [S5 G5] & M5 & _).
  destruct (zero_loop (N.to_nat (v_spc v) - 1) (start + 1) s5 (proj1 G5) (proj2 G5))
    as (s6 & Hrun & Hnf6 & Hc6 & M6 & Hz6 & Hfr6 & Tr6).
  assert (Hts : ts_ok now) by apply ts_cal_ok, clock_ts_cal.
  assert (E2 : get_timestamp s1 = (Ok now, s2)) by (unfold now; rewrite <- A4; reflexivity).
  assert (E3 : blank_mut start s2 = (Ok tt, s3)) by reflexivity.
  assert (E4 : cache_modify (fun b => set_bytes (set_bytes b 0 dot) 32 dotdot) s3 = (Ok tt, s4)) by reflexivity.
  assert (Emk : make_dir vi parent sfn A_DIRECTORY s = mkdir_rest vi parent sfn c s6).
  { unfold make_dir. rewrite (bind_ok _ _ _ _ _ Hal).
    rewrite (bind_ok _ _ _ _ _ (get_vol_some vi v1 s1 Hv1)).
    rewrite (bind_ok _ _ _ _ _ Hcb).
    rewrite (bind_ok _ _ _ _ _ E2).
    rewrite (bind_ok _ _ _ _ _ E3).
    change (v_fat32 v1) with (v_fat32 v). change (v_spc v1) with (v_spc v).
    rewrite (bind_ok _ _ _ _ _ (serialize_ok (v_fat32 v) (mk_dirent THIS_DIR_NAME now now A_DIRECTORY c 0 start 0) s3 Hts Hts)).
    fold pcl.
    rewrite (bind_ok _ _ _ _ _ (serialize_ok (v_fat32 v) (mk_dirent PARENT_DIR_NAME now now A_DIRECTORY pcl 0 start 32) s3 Hts Hts)).
    fold dot dotdot.
    rewrite (bind_ok _ _ _ _ _ E4).
    rewrite (bind_ok _ _ _ _ _ Hwb).
    rewrite (bind_ok _ _ _ _ _ (add32_ok _ _ s5 Hfit)).
    rewrite (bind_ok _ _ _ _ _ Hrun). reflexivity. }
  exists s6, v1. split; [rewrite <- Emk; exact Hmk|].
  assert (T5 : PrOrder.tsteps s1 s5 [start]).
  { apply (PrOrder.tsteps_trans _ s4 _ [] _); [apply PrOrder.tsteps_same_trace; reflexivity|exact S5]. }
  assert (T6 : PrOrder.tsteps s5 s6 (PrOrder.blocks_from (N.to_nat (v_spc v) - 1) (start + 1))).
  { pose proof (tr_ext_tsteps _ _ _ Tr6) as T. rewrite map_map in T. cbn [fst] in T. rewrite map_id in T. exact T. }
  split.
  { apply (traced_trans _ s2); [exact (tm_get_timestamp _ _ _ E2)|].
    apply (traced_trans _ s3); [exact (tm_blank_mut start _ _ _ E3)|].
    apply (traced_trans _ s4); [exact (tm_cache_modify _ _ _ _ E4)|].
    apply (traced_trans _ s5); [exact (tm_write_back _ _ _ Hwb)|].
    exact (tm_for_blocks_from _ tm_zero_body _ _ _ _ _ Hrun). }
  split.
  { rewrite (PrBounds.cluster_blocks_cons v c Hspc). fold start.
    exact (tsteps_step_writes _ _ _ (PrOrder.tsteps_trans _ _ _ _ _ T5 T6)). }
  (* the device after the prefix *)
  assert (D5 : s_disk s5 = disk_set (s_disk s1) start (set_bytes (set_bytes zero_block 0 dot) 32 dotdot)) by reflexivity.
  assert (Elen : N.of_nat (N.to_nat (v_spc v) - 1) = v_spc v - 1) by lia.
  rewrite Elen in Hz6, Hfr6.
  assert (Hstart6 : disk_get (s_disk s6) start = set_bytes (set_bytes zero_block 0 dot) 32 dotdot).
  { rewrite Hfr6 by lia. rewrite D5. apply disk_get_set_same. }
  assert (Hout6 : forall j, j < start \/ start + v_spc v <= j -> disk_get (s_disk s6) j = disk_get (s_disk s1) j).
  { intros j Hj. rewrite Hfr6 by lia. rewrite D5. apply disk_get_set_other. lia. }
  assert (Hfs16 : fat_same v fsz (s_disk s1) (s_disk s6)).
  { intros j Hj. apply Hout6. destruct (PrBounds.in_fat_is_copy_sector v fsz j Hj) as (copy & k & Hk & ->).
    exact (PrBounds.fat_sector_outside_cluster v fsz copy k c FL Hk C1). }
  assert (Hnew6 : fat_get (s_disk s6) v 0 c = enc v CL_EOF).
  { rewrite (fat_same_get v fsz _ _ c FL C2 Hfs16). apply (ae_new _ _ _ _ _ _ _ _ Heff). discriminate. }
  assert (Hoth6 : forall x, x < v_clusters v + 2 -> x <> c -> fat_get (s_disk s6) v 0 x = fat_get (s_disk s) v 0 x).
  { intros x Hx Hne. rewrite (fat_same_get v fsz _ _ x FL Hx Hfs16).
    apply (ae_other _ _ _ _ _ _ _ _ Heff); [exact (layout_sector v fsz x FL Hx)|exact Hne|discriminate]. }
  destruct (wf_new_head (s_disk s) (s_disk s6) v hs c W C1 C2 C3 Hnew6 (fun x _ X2 Hne => Hoth6 x X2 Hne))
    as (W6 & Hch6 & Hfresh & Hkeep).
  assert (Hvols6 : s_vols s6 = s_vols s1) by (rewrite (proj1 M6); reflexivity).
  constructor.
  - rewrite Hvols6. exact Evols.
  - exact G1.
  - apply (alloc_pre_frame v fsz vi v1 s1 s6 Hpre1 G1 Hnf6 Hc6); [rewrite Hvols6; exact Hv1|exact Hfs16].
  - apply (tabs8_trans _ s5); [|exact (tabs8_mgr _ _ M6)]. unfold tabs8. cbn. repeat split; assumption.
  - destruct M6 as (_ & _ & _ & _ & E & _). rewrite E. cbn. rewrite A4. reflexivity.
  - assert (Hbw1 : blocks_wf (s_disk s1)) by exact (alloc_blocks_wf _ _ _ _ _ _ _ _ Hbw Heff).
    assert (Hdl : length dot = 32%nat) by (apply ser_bytes_length; reflexivity).
    assert (Hddl : length dotdot = 32%nat) by (apply ser_bytes_length; reflexivity).
    assert (Hzl : length zero_block = 512%nat) by apply repeat_length.
    assert (Hbw5 : blocks_wf (s_disk s5)).
    { rewrite D5. apply blocks_wf_set; [exact Hbw1|].
      rewrite set_bytes_length; rewrite set_bytes_length; rewrite ?Hzl, ?Hdl, ?Hddl; cbn; lia. }
    intros i. destruct (N.le_gt_cases (start + 1) i) as [Hi1|Hi1]; [destruct (N.lt_ge_cases i (start + v_spc v)) as [Hi2|Hi2]|].
    + rewrite Hz6 by lia. exact Hzl.
    + rewrite Hfr6 by lia. apply Hbw5.
    + rewrite Hfr6 by lia. apply Hbw5.
  - constructor.
    + repeat split; assumption.
    + exact Hstart6.
    + intros k K1 K2. apply Hz6; lia.
  - exact W6.
  - exact Hch6.
  - exact Hfresh.
  - exact Hkeep.
  - intros j Hj Hnc. rewrite Hout6.
    + apply (alloc_frame_blocks vi v fsz None false s c s1 Hpre Hprev0 Heff j Hj). intros E. discriminate E.
    + rewrite in_cluster_blocks_iff in Hnc. unfold in_cluster in Hnc. fold start in Hnc. lia.
  - exact Hoth6.
  - assert (T1 : PrOrder.tsteps s s1 (fat_writes v c)).
    { pose proof (tr_ext_tsteps _ _ _ (ae_trace _ _ _ _ _ _ _ _ Heff)) as T. rewrite dwrites_alloc in T.
      cbn [app] in T. rewrite app_nil_r in T. exact T. }
    rewrite (PrBounds.cluster_blocks_cons v c Hspc). fold start.
    exact (PrOrder.tsteps_trans _ _ _ _ _ T1 (PrOrder.tsteps_trans _ _ _ _ _ T5 T6)).
Qed.

(* ================================================================== 3. helpers for the continuations *)
Lemma tm_mkdir_rest vi parent sfn c : tm (mkdir_rest vi parent sfn c).
Proof. unfold mkdir_rest. tm_go. Qed.

Lemma reads_no_dwr l : Forall PrModes.is_read_call l -> dwr l = [].
Proof. induction 1 as [|x l Hx _ IH]; [reflexivity|]. destruct x; try destruct Hx; exact IH. Qed.

(* a part of the run that only reads *)
Lemma rd_traced a b : rd_step a b -> traced a b /\ step_writes a b = [].
Proof.
  intros H. pose proof (rd_tsteps a b H) as T. destruct H as ((Hd & _) & _).
  split; [exact (tsteps_nil_traced a b T Hd)|exact (tsteps_nil_writes a b T)].
Qed.

(* one block write behind reads (the shape of PrEntry.create_post) *)
Lemma tr_ext_write_reads a b i x l : s_disk b = disk_set (s_disk a) i x ->
  s_trace b = DWrite i x :: l ++ s_trace a -> Forall PrModes.is_read_call l -> tr_ext a b [(i, x)].
Proof.
  intros Hd Ht Hl. exists (DWrite i x :: l). split; [exact Ht|].
  cbn [dwr]. rewrite (reads_no_dwr l Hl). split; [reflexivity|exact Hd].
Qed.

(* the medium after the common prefix: the new directory's cluster is a lost chain *)
Lemma px_keep_med fsz vi v hs pcl s c s6 v1 : fat_layout v fsz ->
  prefix_ok fsz vi v hs pcl s c s6 v1 -> keep_med fsz v hs (s_disk s) (s_disk s6).
Proof.
  intros L PX. destruct (mk_range _ _ _ _ _ _ (px_cluster _ _ _ _ _ _ _ _ _ PX)) as (C1 & C2 & C3).
  exists [c]. split; [|split].
  - apply (fat_wf_perm _ v (c :: hs)); [apply Permutation_cons_append|exact (px_wf _ _ _ _ _ _ _ _ _ PX)].
  - exact (px_chains _ _ _ _ _ _ _ _ _ PX).
  - intros j J1 J2. exact (px_frame _ _ _ _ _ _ _ _ _ PX j J1 (J2 c C1 C2 C3)).
Qed.

(* ================================================================== 4. the parent has a free slot *)
Lemma mkc_slot fsz total vi v hs parent sfn pbl s c s6 v1 blk off sl0 :
  PrBounds.part_layout v total fsz -> dir_blocks (s_disk s) v parent = Some pbl ->
  (negb (v_fat32 v) && (parent =? CL_ROOT) = false -> In (dir_first_cluster v parent) hs) ->
  length sfn = 11%nat ->
  prefix_ok fsz vi v hs (if parent =? CL_ROOT then CL_EMPTY else parent) s c s6 v1 ->
  find nv (slots_of (s_disk s) pbl) = Some (blk, off, sl0) ->
  exists s', mkdir_rest vi parent sfn c s6 = (Ok tt, s') /\
    forall d', crash_disks s6 s' d' -> d' = s_disk s' \/ d' = s_disk s6.
Proof.
  intros L Hbl Hhead Hname PX Hfind.
  destruct (prefix_parent fsz total vi v hs _ parent pbl s c s6 v1 L Hbl Hhead PX) as (Hf & Hsame & Hslots & Hbl6).
  destruct PX as [Evols G Hpre6 Htabs Hclk Hbw6 Hcl W6 Hnew6 Hfresh Hkeep Hframe Hfat Hsteps].
  pose proof Hpre6 as ((Hnf6 & Hc6 & Hvi6 & _) & FL1 & _).
  pose proof (find_some _ _ Hfind) as [Hin _].
  apply In_slots_of in Hin. destruct Hin as (b & i & Hb & Hi & Et). injection Et as Eb Eo Es. subst b.
  destruct (Hf blk Hb) as (Nfat & Ncl & Hdir).
  assert (Hfind6 : find nv (slots_of (s_disk s6) pbl) = Some (blk, off, sl0)) by (rewrite Hslots; exact Hfind).
  pose proof (write_new_directory_entry_spec vi v1 parent sfn A_DIRECTORY c s6 pbl blk off sl0
                Hvi6 (fl_vol v1 fsz FL1) Hnf6 Hc6 Hbl6 Hfind6 Hname (Hbw6 blk)) as Spec.
  cbv zeta in Spec. destruct Spec as (s' & Erun & Hd' & _ & _ & _ & Hc' & Hnf' & Hclk' & Htab' & l & Htr & Hl).
  exists s'. split.
  { unfold mkdir_rest. rewrite (bind_ok _ _ _ _ _ (try_ok _ _ _ _ Erun)). reflexivity. }
  assert (X : tr_ext s6 s' [(blk, disk_get (s_disk s') blk)]).
  { apply (tr_ext_write_reads s6 s' blk _ l); [|exact Htr|exact Hl].
    rewrite Hd' at 1. f_equal. rewrite Hd'. symmetry. apply disk_get_set_same. }
  intros d' Hd. destruct (crash_disks_one s6 s' _ _ d' X Hd) as [-> | ->]; [right|left]; reflexivity.
Qed.

(* ================================================================== 5. no room: the cluster is released *)
Lemma mkc_release fsz total vi v hs pcl s c s6 v1 t :
  PrBounds.part_layout v total fsz -> prefix_ok fsz vi v hs pcl s c s6 v1 ->
  s_disk t = s_disk s6 -> alloc_pre t vi v1 fsz ->
  exists s', free_cluster_chain vi c t = (Ok tt, s') /\ traced t s' /\
    forall d', crash_disks t s' d' -> keep_med fsz v hs (s_disk s) d'.
Proof.
  intros L PX Hd Hpret.
  destruct PX as [Evols G Hpre6 Htabs Hclk Hbw6 Hcl W6 Hnew6 Hfresh Hkeep Hframe Hfat Hsteps].
  destruct (mk_range _ _ _ _ _ _ Hcl) as (C1 & C2 & C3).
  pose proof Hpret as (Hstt & FL1 & Hh1).
  destruct (geo_facts v v1 G) as (_ & _ & _ & _ & _ & _ & _ & _ & _ & _ & Gfw & Gfat & _).
  assert (Hcht : chain_at (s_disk t) v1 c [c]) by (rewrite Hd; apply (chain_at_geo _ v v1 c [c] G); exact Hnew6).
  assert (Wt : fat_wf (s_disk t) v1 (hs ++ [c])).
  { rewrite Hd. apply (fat_wf_geo _ v v1 _ G). apply (fat_wf_perm _ v (c :: hs)); [apply Permutation_cons_append|exact W6]. }
  destruct (free_media vi v1 fsz t c hs FL1 Hstt Wt Hcht) as (s' & Erun & Tt & Hall).
  exists s'. split; [exact Erun|]. split; [exact Tt|].
  intros d' Hd'. destruct (Hall d' Hd') as (Hnf & lost & Wd & Hcd).
  exists lost. split; [exact (fat_wf_geo _ v1 v _ (geo_eq_sym _ _ G) Wd)|]. split.
  - intros h ch Hh Hch. apply (chain_at_geo _ v v1 h ch G). apply (Hcd h ch Hh).
    rewrite Hd. apply (chain_at_geo _ v v1 h ch G). exact (Hkeep h ch Hh Hch).
  - intros j J1 J2. rewrite (Hnf j).
    + rewrite Hd. exact (Hframe j J1 (J2 c C1 C2 C3)).
    + exact (not_fat_not_sector v1 fsz j (fun Hi => J1 (proj1 (Gfat fsz j) Hi))).
Qed.

Lemma mkc_fail_release fsz total vi v hs parent sfn s c s6 v1 t :
  PrBounds.part_layout v total fsz ->
  prefix_ok fsz vi v hs (if parent =? CL_ROOT then CL_EMPTY else parent) s c s6 v1 ->
  write_new_directory_entry vi parent sfn A_DIRECTORY c s6 = (Err NotEnoughSpace, t) ->
  s_disk t = s_disk s6 -> alloc_pre t vi v1 fsz -> PrOrder.tsteps s6 t [] ->
  exists s', mkdir_rest vi parent sfn c s6 = (Err NotEnoughSpace, s') /\
    forall d', crash_disks s6 s' d' -> keep_med fsz v hs (s_disk s) d'.
Proof.
  intros L PX Ewn Hd Hpret Tt.
  destruct (mkc_release fsz total vi v hs _ s c s6 v1 t L PX Hd Hpret) as (s' & Efree & Tts' & Hall).
  exists s'. split.
  { unfold mkdir_rest. rewrite (bind_ok _ _ _ _ _ (try_err _ _ _ _ Ewn)).
    rewrite (bind_ok _ _ _ _ _ Efree). reflexivity. }
  pose proof (tm_write_new_directory_entry vi parent sfn A_DIRECTORY c s6 _ _ Ewn) as T6t.
  intros d' Hd'. apply Hall. exact (crash_disks_after_reads s6 t s' d' T6t Tts' (tsteps_nil_writes _ _ Tt) Hd').
Qed.

(* ================================================================== 6. every slot of the parent is in use *)
Lemma mkc_noslot fsz total vi v hs parent sfn pbl s c s6 v1 :
  PrBounds.part_layout v total fsz -> clusters_fit v ->
  dir_blocks (s_disk s) v parent = Some pbl ->
  (negb (v_fat32 v) && (parent =? CL_ROOT) = false -> In (dir_first_cluster v parent) hs) ->
  length sfn = 11%nat ->
  prefix_ok fsz vi v hs (if parent =? CL_ROOT then CL_EMPTY else parent) s c s6 v1 ->
  find nv (slots_of (s_disk s) pbl) = None ->
  exists r s', mkdir_rest vi parent sfn c s6 = (r, s') /\
    forall d', crash_disks s6 s' d' -> d' = s_disk s' \/ mk_crash fsz v hs parent pbl (s_disk s) d'.
Proof.
  intros L Hfit Hbl Hhead Hname PX Hfind.
  destruct (prefix_parent fsz total vi v hs _ parent pbl s c s6 v1 L Hbl Hhead PX) as (Hf & Hsame & Hslots & Hbl6).
  pose proof PX as [Evols G Hpre6 Htabs Hclk Hbw6 Hcl W6 Hnew6 Hfresh Hkeep Hframe Hfat Hsteps].
  pose proof Hpre6 as ((Hnf6 & Hc6 & Hvi6 & _) & FL1 & Hh1). pose proof (fl_vol v1 fsz FL1) as Hvok1.
  assert (FL : fat_layout v fsz) by exact (geo_layout v1 v fsz (geo_eq_sym _ _ G) FL1).
  destruct (mk_range _ _ _ _ _ _ Hcl) as (C1 & C2 & C3).
  destruct (geo_facts v v1 G) as (Gspc & G32 & Gcl & Gwf & Gcfb & Gcb & Gfg & Genc & Gdfc & Groot & Gfw & Gfat & Gdata).
  assert (Hstop6 : stop_at N free_in (s_disk s6) pbl = None) by (rewrite stop_at_free, Hslots, Hfind; reflexivity).
  set (body := create_body (v_fat32 v1) sfn A_DIRECTORY c).
  set (post := create_post (v_fat32 v1) sfn A_DIRECTORY c).
  pose proof (create_body_none (v_fat32 v1) sfn A_DIRECTORY c) as Bn. fold body in Bn.
  assert (Bs : forall blk t x, no_faults t -> cache_ok t -> free_in (s_disk t) blk = Some x ->
                 exists r t', body blk t = (Ok (Some r), t') /\ post blk x t r t')
    by (intros blk0 t0 x; exact (create_body_some (v_fat32 v1) sfn A_DIRECTORY c blk0 t0 x)).
  pose proof (px_keep_med fsz vi v hs _ s c s6 v1 FL PX) as K6.
  unfold dir_blocks in Hbl. destruct (negb (v_fat32 v) && (parent =? CL_ROOT)) eqn:Eroot.
  - (* the fixed root directory of a FAT16 volume is full *)
    apply andb_true_iff in Eroot. destruct Eroot as [H16 Hdc]. apply negb_true_iff in H16.
    apply N.eqb_eq in Hdc. subst parent. inversion Hbl; subst pbl. clear Hbl.
    assert (H16' : v_fat32 v1 = false) by (rewrite G32; exact H16).
    pose proof (walk_dir_root16_stop dirent N free_in body post Bn Bs vi v1 true Hvok1 H16'
                  (N.to_nat (v_clusters v1) + 3) s6 Hvi6 Hnf6 Hc6) as Hw.
    rewrite Groot, Hstop6 in Hw. destruct Hw as (s7 & Ewalk & Hrd7).
    assert (Ewn : write_new_directory_entry vi CL_ROOT sfn A_DIRECTORY c s6 = (Err NotEnoughSpace, s7)).
    { rewrite write_new_is. rewrite (bind_ok _ _ _ _ _ (get_vol_some vi v1 s6 Hvi6)).
      fold body. unfold dir_first_cluster, walk_fuel. rewrite H16'. cbn [andb].
      replace (N.to_nat (v_clusters v1) + 4)%nat with (S (N.to_nat (v_clusters v1) + 3)) by lia.
      rewrite (bind_ok _ _ _ _ _ Ewalk). reflexivity. }
    pose proof Hrd7 as ((Hd7 & Hc7 & Hnf7 & Hm7) & _).
    destruct (mkc_fail_release fsz total vi v hs CL_ROOT sfn s c s6 v1 s7 L PX Ewn Hd7
                (alloc_pre_ro vi v1 fsz s6 s7 Hpre6 (proj1 Hrd7)) (rd_tsteps _ _ Hrd7)) as (s' & E & Hall).
    exists (Err NotEnoughSpace), s'. split; [exact E|]. intros d' Hd. right. apply mkc_keep. exact (Hall d' Hd).
  - (* the parent is a cluster chain: it has to grow *)
    destruct (chain_of (s_disk s) v (dir_first_cluster v parent) (walk_fuel v)) as [pch|] eqn:Hch; [|discriminate].
    inversion Hbl; subst pbl. clear Hbl.
    set (pc := dir_first_cluster v parent) in *.
    assert (Hpc : In pc hs) by exact (Hhead eq_refl).
    assert (Hch6 : chain_at (s_disk s6) v pc pch) by exact (Hkeep pc pch Hpc Hch).
    assert (Hch61 : chain_of (s_disk s6) v1 pc (walk_fuel v1) = Some pch)
      by (apply (chain_at_geo _ v v1 pc pch G); exact Hch6).
    assert (Hstop61 : stop_at N free_in (s_disk s6) (flat_map (cluster_blocks v1) pch) = None).
    { replace (flat_map (cluster_blocks v1) pch) with (flat_map (cluster_blocks v) pch); [exact Hstop6|].
      apply flat_map_ext. intros x. symmetry. apply Gcb. }
    destruct (walk_dir_chain_grow dirent N free_in body post Bn Bs vi v1 Hvok1 (walk_fuel v1) pc s6 pch
                Hvi6 Hnf6 Hc6 Hch61 Hstop61) as (s7 & Hrd7 & Ewalk).
    pose proof Hrd7 as ((Hd7 & Hc7 & Hnf7 & Hm7) & _).
    pose proof (alloc_pre_ro vi v1 fsz s6 s7 Hpre6 (proj1 Hrd7)) as Hpre7.
    (* the last cluster p of the parent's chain *)
    destruct (chain_of_head _ _ _ _ _ Hch) as (_ & _ & l' & El).
    assert (Hne : pch <> []) by (rewrite El; discriminate).
    destruct (exists_last Hne) as (pre & p & Esplit).
    assert (Elast : last pch pc = p) by (rewrite Esplit; apply last_last).
    rewrite Elast in Ewalk.
    assert (Hpin : In p pch) by (rewrite Esplit; apply in_or_app; right; left; reflexivity).
    pose proof (chain_of_range _ _ _ _ _ Hch) as Rg. rewrite Forall_forall in Rg. destruct (Rg p Hpin) as (P1 & P2).
    assert (Hprev : forall q, Some p = Some q -> q < v_clusters v1 + 2)
      by (intros q E; inversion E; subst q; rewrite Gcl; exact P2).
    destruct (alloc_cluster_total vi v1 fsz (Some p) true s7 Hpre7 Hprev)
      as (o & s8 & Hal & [(-> & Hnone & Hd8 & Hm8 & T8 & Hst8)|(c' & -> & Heff)]).
    + (* no free cluster is left *)
      assert (Ewn : write_new_directory_entry vi parent sfn A_DIRECTORY c s6 = (Err NotEnoughSpace, s8)).
      { rewrite write_new_is. rewrite (bind_ok _ _ _ _ _ (get_vol_some vi v1 s6 Hvi6)).
        rewrite Gdfc. fold pc body.
        assert (E : walk_dir (walk_fuel v1) vi pc true body s6 = (Err NotEnoughSpace, s8))
          by (rewrite Ewalk; exact (bind_err _ _ _ _ _ Hal)).
        exact (bind_err _ _ _ _ _ E). }
      destruct (mkc_fail_release fsz total vi v hs parent sfn s c s6 v1 s8 L PX Ewn) as (s' & E & Hall).
      * rewrite Hd8. exact Hd7.
      * split; [exact Hst8|split; assumption].
      * exact (PrOrder.tsteps_trans _ _ _ [] [] (rd_tsteps _ _ Hrd7) (tr_ext_tsteps _ _ _ T8)).
      * exists (Err NotEnoughSpace), s'. split; [exact E|]. intros d' Hd. right. apply mkc_keep. exact (Hall d' Hd).
    + (* the parent grows by the zeroed cluster c' *)
      destruct (ae_range _ _ _ _ _ _ _ _ Heff) as (R1 & R2 & R3). pose proof R2 as R2'. pose proof R3 as R3'.
      rewrite Gcl in R2. rewrite Gfg in R3.
      assert (Hpnz : fat_get (s_disk s7) v 0 p <> 0).
      { rewrite Hd7. destruct (chain_at_mem _ _ _ _ p Hch6 Hpin) as (_ & _ & Z & _). exact Z. }
      assert (Hpc' : p <> c') by (intros ->; apply Hpnz; exact R3).
      assert (Hcc' : c' <> c).
      { intros ->. destruct (chain_at_mem _ _ _ _ c Hnew6 (or_introl eq_refl)) as (_ & _ & Z & _).
        apply Z. rewrite <- Hd7. exact R3. }
      assert (R3s : fat_get (s_disk s) v 0 c' = 0) by (rewrite <- (Hfat c' R2 Hcc'), <- Hd7; exact R3).
      assert (W7 : fat_wf (s_disk s7) v1 (c :: hs)) by (rewrite Hd7; exact (fat_wf_geo _ v v1 _ G W6)).
      assert (Hch7 : chain_at (s_disk s7) v1 pc (pre ++ [p]))
        by (rewrite <- Esplit, Hd7; apply (chain_at_geo _ v v1 pc pch G); exact Hch6).
      destruct (alloc_vol_explicit vi v1 fsz (Some p) true s7 c' s8 Hpre7 Heff) as (v2 & Evols8 & G12 & Hpre8).
      pose proof (geo_eq_trans _ _ _ G G12) as G2.
      destruct (geo_facts v v2 G2) as (Gspc2 & G322 & Gcl2 & Gwf2 & Gcfb2 & Gcb2 & Gfg2 & Genc2 & _ & _ & _ & Gfat2 & _).
      pose proof Hpre8 as ((Hnf8 & Hc8 & Hvi8 & _) & FL2 & Hh2). pose proof (fl_vol v2 fsz FL2) as Hvok2.
      pose proof (chain_length _ _ _ _ _ Hch) as Hlen.
      assert (Hk : exists k', (walk_fuel v1 - length pch)%nat = S k').
      { exists (walk_fuel v1 - length pch - 1)%nat. rewrite Gwf. unfold walk_fuel. lia. }
      destruct Hk as (k' & Ek). rewrite Ek in Ewalk.
      (* the walk over the new cluster stops at its first slot *)
      pose proof (PrBounds.pl_spc v total fsz L) as Hspc.
      set (nb := cluster_first_block v c').
      assert (Hz8 : forall k, k < v_spc v -> disk_get (s_disk s8) (nb + k) = zero_block).
      { intros k Hk. unfold nb. rewrite <- Gcfb. apply (ae_zero _ _ _ _ _ _ _ _ Heff eq_refl). rewrite Gspc. exact Hk. }
      assert (Hnb8 : disk_get (s_disk s8) nb = zero_block) by (rewrite <- (N.add_0_r nb); apply Hz8; lia).
      assert (Hnew8 : fat_get (s_disk s8) v1 0 c' = enc v1 CL_EOF)
        by (apply (ae_new _ _ _ _ _ _ _ _ Heff); congruence).
      assert (Hcs2 : chain_of (s_disk s8) v2 c' (S k') = Some [c']).
      { rewrite (chain_of_geo _ v1 v2 G12). apply (PrWrite.chain_single _ _ _ k'); [exact R1|rewrite Gcl; exact R2|].
        rewrite fat_entry_get. exact Hnew8. }
      assert (Est : stop_at N free_in (s_disk s8) (flat_map (cluster_blocks v2) [c']) = Some (nb, 0)).
      { cbn [flat_map]. rewrite app_nil_r, Gcb2, (PrBounds.cluster_blocks_cons v c' Hspc). fold nb.
        unfold stop_at. cbn [first_some]. unfold free_in at 1. rewrite Hnb8.
        replace (free_slot 16 zero_block 0) with (Some 0) by (vm_compute; reflexivity). reflexivity. }
      pose proof (walk_dir_chain_stop dirent N free_in body post Bn Bs vi v2 true Hvok2 (S k') c' s8 [c']
                    Hvi8 Hnf8 Hc8 Hcs2) as Hw.
      rewrite Est in Hw. destruct Hw as (s0 & r & s' & Erun & Hrd0 & HQ).
      pose proof Hrd0 as ((Hd0 & Hc0 & Hnf0 & Hm0) & _).
      unfold post, create_post in HQ. cbv zeta in HQ.
      destruct HQ as (Er & Hd' & Hc' & Hnf' & Hclk' & Htab' & l & Htr & Hl).
      assert (Ewn : write_new_directory_entry vi parent sfn A_DIRECTORY c s6 = (Ok r, s')).
      { rewrite write_new_is. rewrite (bind_ok _ _ _ _ _ (get_vol_some vi v1 s6 Hvi6)). rewrite Gdfc. fold pc body.
        assert (E : walk_dir (walk_fuel v1) vi pc true body s6 = (Ok (Some r), s'))
          by (rewrite Ewalk, (bind_ok _ _ _ _ _ Hal); exact Erun).
        rewrite (bind_ok _ _ _ _ _ E). reflexivity. }
      exists (Ok tt), s'. split.
      { unfold mkdir_rest. rewrite (bind_ok _ _ _ _ _ (try_ok _ _ _ _ Ewn)). reflexivity. }
      (* the segments of the run: reads, the allocation, reads, the entry *)
      destruct (rd_traced s6 s7 Hrd7) as (T67 & Q67).
      pose proof (ae_trace _ _ _ _ _ _ _ _ Heff) as X78. pose proof (tr_ext_traced _ _ _ X78) as T78.
      destruct (rd_traced s8 s0 Hrd0) as (T80 & Q80).
      pose proof (tr_ext_write_reads s0 s' nb _ l Hd' Htr Hl) as X0'. pose proof (tr_ext_traced _ _ _ X0') as T0'.
      set (P := fun d' : disk => d' = s_disk s' \/ mk_crash fsz v hs parent (flat_map (cluster_blocks v) pch) (s_disk s) d').
      assert (P6 : P (s_disk s6)) by (right; apply mkc_keep; exact K6).
      assert (Hfrk : forall d', (forall j, PrCrash.non_fat v1 fsz j -> ~ In j (cluster_blocks v1 c') ->
                                   disk_get d' j = disk_get (s_disk s7) j) -> free_frame fsz v (s_disk s) d').
      { intros d' Gf j J1 J2. rewrite (Gf j).
        - rewrite Hd7. exact (Hframe j J1 (J2 c C1 C2 C3)).
        - exact (not_fat_not_sector v1 fsz j (fun Hi => J1 (proj1 (Gfat fsz j) Hi))).
        - rewrite Gcb. exact (J2 c' R1 R2 R3s). }
      assert (A78 : forall d', crash_disks s7 s8 d' -> P d').
      { intros d' Hd. apply (crash_disks_tr_ext s7 s8 _ d' X78) in Hd. destruct Hd as (k & _ & ->).
        destruct (alloc_media fsz v1 (hs ++ [c]) (s_disk s7) (Some p) true c' k pc pre FL1 (link_ok_geo v v1 G Hfit)
                    (PrCrash.st_ok_len vi v1 fsz s7 (proj1 Hpre7))) as (Gf & [(lost & Wk & Hck)|(p0 & Ep & Wk & Hnewc & Hothk & Hzk)]).
        - apply (fat_wf_perm _ v1 (c :: hs)); [apply Permutation_cons_append|exact W7].
        - exact R1.
        - exact R2'.
        - exact R3'.
        - intros p0 Ep. injection Ep as <-. split; [apply in_or_app; left; exact Hpc|exact Hch7].
        - right. apply mkc_keep. exists ([c] ++ lost). split; [|split].
          + rewrite app_assoc. exact (fat_wf_geo _ v1 v _ (geo_eq_sym _ _ G) Wk).
          + intros h ch Hh Hc. apply (chain_at_geo _ v v1 h ch G). apply (Hck h ch (in_or_app _ _ _ (or_introl Hh))).
            rewrite Hd7. apply (chain_at_geo _ v v1 h ch G). exact (Hkeep h ch Hh Hc).
          + exact (Hfrk _ Gf).
        - injection Ep as <-. right.
          apply (mkc_grown fsz v hs parent _ (s_disk s) _ c' pc pch [c]).
          + exact Eroot.
          + reflexivity.
          + exact Hpc.
          + exact Hch.
          + reflexivity.
          + exact R1.
          + exact R2.
          + exact R3s.
          + intros j Hj. apply (Hzk eq_refl). rewrite Gcb. exact Hj.
          + exact (fat_wf_geo _ v1 v _ (geo_eq_sym _ _ G) Wk).
          + rewrite Esplit, <- app_assoc. cbn [app]. apply (chain_at_geo _ v v1 _ _ G). exact Hnewc.
          + intros h ch Hh Hn Hc. apply (chain_at_geo _ v v1 h ch G). apply (Hothk h ch (in_or_app _ _ _ (or_introl Hh)) Hn).
            rewrite Hd7. apply (chain_at_geo _ v v1 h ch G). exact (Hkeep h ch Hh Hc).
          + exact (Hfrk _ Gf). }
      assert (P8 : P (s_disk s8)) by exact (A78 _ (crash_disks_new s7 s8 T78)).
      assert (P0 : P (s_disk s0)) by (rewrite Hd0; exact P8).
      apply (crash_all_trans P s6 s7 s' T67 (traced_trans _ _ _ T78 (traced_trans _ _ _ T80 T0'))).
      * exact (crash_all_quiet P s6 s7 Q67 P6).
      * apply (crash_all_trans P s7 s8 s' T78 (traced_trans _ _ _ T80 T0') A78).
        apply (crash_all_trans P s8 s0 s' T80 T0').
        -- exact (crash_all_quiet P s8 s0 Q80 P8).
        -- exact (crash_all_one P s0 s' nb _ X0' P0 (or_introl eq_refl)).
Qed.

(* ================================================================== 7. make_dir: every outcome, every crashed medium *)
Theorem make_dir_crash fsz total vi v hs parent sfn pbl s r s' :
  alloc_pre s vi v fsz -> PrBounds.part_layout v total fsz -> clusters_fit v -> blocks_wf (s_disk s) ->
  fat_wf (s_disk s) v hs ->
  dir_blocks (s_disk s) v parent = Some pbl ->
  (negb (v_fat32 v) && (parent =? CL_ROOT) = false -> In (dir_first_cluster v parent) hs) ->
  length sfn = 11%nat ->
  make_dir vi parent sfn A_DIRECTORY s = (r, s') ->
  forall d', crash_disks s s' d' -> d' = s_disk s' \/ mk_crash fsz v hs parent pbl (s_disk s) d'.
Proof.
  intros Hpre L Hfit Hbw W Hbl Hhead Hname Hmk d' Hd.
  assert (Hprev0 : forall p, @None N = Some p -> p < v_clusters v + 2) by (intros p Ep; discriminate Ep).
  pose proof Hpre as (Hst & FL & _).
  destruct (alloc_cluster_total vi v fsz None false s Hpre Hprev0)
    as (o & s1 & Hal & [(-> & Hnone & Hd1 & Hm1 & T1 & Hst1)|(c & -> & Heff)]).
  - (* no free cluster: nothing is written *)
    assert (E : make_dir vi parent sfn A_DIRECTORY s = (Err NotEnoughSpace, s1)) by (unfold make_dir; exact (bind_err _ _ _ _ _ Hal)).
    rewrite E in Hmk. injection Hmk as <- <-. left.
    rewrite (crash_disks_quiet s s1 d' (tr_ext_step_writes _ _ _ T1) Hd). symmetry. exact Hd1.
  - destruct (ae_range _ _ _ _ _ _ _ _ Heff) as (C1 & C2 & C3).
    destruct (mkc_prefix fsz total vi v hs parent sfn s c s1 r s' Hpre L Hbw W Hal Hmk) as (s6 & v1 & Hrest & T16 & Ew16 & PX).
    pose proof (ae_trace _ _ _ _ _ _ _ _ Heff) as X01. pose proof (tr_ext_traced _ _ _ X01) as T01.
    pose proof (tm_mkdir_rest vi parent sfn c s6 _ _ Hrest) as T6'.
    (* the allocation of c *)
    assert (KA : forall d0, crash_disks s s1 d0 -> keep_med fsz v hs (s_disk s) d0).
    { intros d0 H0. apply (crash_disks_tr_ext s s1 _ d0 X01) in H0. destruct H0 as (k & _ & ->).
      destruct (alloc_media fsz v hs (s_disk s) None false c k 0 [] FL Hfit (PrCrash.st_ok_len vi v fsz s Hst) W C1 C2 C3)
        as (Gf & [(lost & Wk & Hck)|(p0 & Ep & _)]); [intros p0 Ep; discriminate Ep| |discriminate Ep].
      exists lost. split; [exact Wk|]. split; [exact Hck|].
      intros j J1 J2. exact (Gf j (not_fat_not_sector v fsz j J1) (J2 c C1 C2 C3)). }
    destruct (crash_disks_trans s s1 s' d' T01 (traced_trans _ _ _ T16 T6') Hd) as [X|X].
    { right. apply mkc_keep. exact (KA d' X). }
    destruct (crash_disks_trans s1 s6 s' d' T16 T6' X) as [Y|Y].
    { (* the blocks of c are written *)
      right. apply mkc_keep.
      apply (keep_med_data fsz v hs (s_disk s) (s_disk s1) d' c FL C1 C2 C3 (KA _ (crash_disks_new s s1 T01))).
      intros j Hj. apply (crash_disks_untouched s1 s6 d' j Y). rewrite Ew16. exact Hj. }
    (* the entry in the parent *)
    destruct (find nv (slots_of (s_disk s) pbl)) as [[[blk off] sl0]|] eqn:Hfind.
    + destruct (mkc_slot fsz total vi v hs parent sfn pbl s c s6 v1 blk off sl0 L Hbl Hhead Hname PX Hfind) as (s'0 & E & Hall).
      rewrite E in Hrest. injection Hrest as <- <-.
      destruct (Hall d' Y) as [->| ->]; [left; reflexivity|right].
      apply mkc_keep. exact (px_keep_med fsz vi v hs _ s c s6 v1 FL PX).
    + destruct (mkc_noslot fsz total vi v hs parent sfn pbl s c s6 v1 L Hfit Hbl Hhead Hname PX Hfind) as (r0 & s'0 & E & Hall).
      rewrite E in Hrest. injection Hrest as <- <-. exact (Hall d' Y).
Qed.

Print Assumptions alloc_media.
Print Assumptions make_dir_crash.
