(* PROOFS for property C08 (handles, limits, the re-entrancy lock) about the layer-B model
   of the volume manager.  Everything is for ALL states and inputs.  The model files are
   untouched; this file only adds lemmas. *)
From Coq Require Import NArith ZArith List Bool Lia Arith FMapPositive.
From SdFs Require Import FsTypes FsBase FsFat FsMgr FsLemmas PrBase.
Import ListNotations.
Open Scope N_scope.

(* ================================================================== 1. the lock *)

Lemma locked_held {A} (m : M A) s : s_lock s = true -> locked m s = (Err LockError, s).
Proof. intros H. unfold locked, bind, get. rewrite H. reflexivity. Qed.

Lemma locked_free {A} (m : M A) s : s_lock s = false -> locked m s = m s.
Proof. intros H. unfold locked, bind, get. rewrite H. reflexivity. Qed.

Lemma lift_err {A} (f : A -> res) (m : M A) s e s' : m s = (Err e, s') -> lift f m s = (Err e, s').
Proof. intros H. unfold lift. apply bind_err. exact H. Qed.

Lemma lift_ok {A} (f : A -> res) (m : M A) s a s' : m s = (Ok a, s') -> lift f m s = (Ok (f a), s').
Proof. intros H. unfold lift. rewrite (bind_ok _ _ _ _ _ H). reflexivity. Qed.

(* the embedded-io seek adapter converts the offset BEFORE it reaches the volume manager *)
Definition io_seek_in_range (w : whence) (x : Z) : bool :=
  match w with
  | FromStart => negb ((x <? 0)%Z || (4294967295 <? x)%Z)
  | FromEnd => negb (x =? -9223372036854775808)%Z && negb ((- x <? 0)%Z || (4294967295 <? - x)%Z)
  | FromCurrent => negb ((x <? -2147483648)%Z || (2147483647 <? x)%Z)
  end.

(* the calls that reach a try_borrow of the manager's data.  Excluded, exactly: the
   bool-returning open-handle query; the embedded-io read/write adapters with an empty
   buffer (they return Ok(0) without calling the manager); the seek adapter when the
   offset conversion fails (InvalidOffset, before the manager is called); and the
   harness-only Remount. *)
Definition result_returning (o : op) : bool :=
  match o with
  | HasOpen | Remount _ => false
  | IoRead _ n => negb (n =? 0)
  | IoWrite _ d => match d with [] => false | _ :: _ => true end
  | IoSeek _ w x => io_seek_in_range w x
  | _ => true
  end.

Lemma close_file_locked f s : s_lock s = true -> close_file f s = (Err LockError, s).
Proof.
  intros H. unfold close_file.
  assert (E : try (flush_file f) s = (Ok (inr LockError), s)).
  { unfold try, flush_file. rewrite (locked_held _ s H). reflexivity. }
  rewrite (bind_ok _ _ _ _ _ E). apply locked_held. exact H.
Qed.

Lemma io_seek_locked f w x s : s_lock s = true -> io_seek_in_range w x = true ->
  io_seek f w x s = (Err LockError, s).
Proof.
  intros H Hr. unfold io_seek. apply bind_err.
  destruct w; cbn [io_seek_in_range] in Hr.
  - apply negb_true_iff in Hr. rewrite Hr. apply locked_held. exact H.
  - apply andb_true_iff in Hr. destruct Hr as [H1 H2].
    apply negb_true_iff in H1. apply negb_true_iff in H2. rewrite H1, H2.
    apply locked_held. exact H.
  - apply negb_true_iff in Hr. rewrite Hr. apply locked_held. exact H.
Qed.

(* C08, last sentence: every result-returning call made while the lock is held (that is,
   from inside a directory-iteration callback) fails with LockError and the WHOLE state
   is unchanged - tables, counter, cache, medium, device-call log. *)
Theorem C08_reentrant : forall o s,
  s_lock s = true -> result_returning o = true -> step o s = (Err LockError, s).
Proof.
  intros o s H Hr.
  destruct o; cbn [result_returning] in Hr; try discriminate; cbn [step];
    try (apply lift_err; apply locked_held; exact H).
  - (* CloseFile *) apply lift_err. apply close_file_locked. exact H.
  - (* IoSeek *) apply lift_err. apply io_seek_locked; assumption.
  - (* IoRead *) apply lift_err. unfold io_read. apply negb_true_iff in Hr. rewrite Hr.
    apply locked_held. exact H.
  - (* IoWrite *) apply lift_err. unfold io_write. destruct data; [discriminate|].
    apply bind_err. apply locked_held. exact H.
Qed.

(* the excluded calls: what they do under the lock.  None of them changes the state,
   except the harness-only Remount. *)
Theorem C08_reentrant_excluded : forall s, s_lock s = true ->
  (forall f w x, io_seek_in_range w x = false -> step (IoSeek f w x) s = (Err InvalidOffset, s)) /\
  (forall f, step (IoRead f 0) s = (Ok (RBytes []), s)) /\
  (forall f, step (IoWrite f []) s = (Ok (RNum 0), s)) /\
  (exists b, step HasOpen s = (Ok (RBool b), s)).
Proof.
  intros s H. repeat split.
  - intros f w x Hr. cbn [step]. apply lift_err. unfold io_seek. apply bind_err.
    destruct w; cbn [io_seek_in_range] in Hr.
    + apply negb_false_iff in Hr. rewrite Hr. reflexivity.
    + destruct (x =? -9223372036854775808)%Z; [reflexivity|]. cbn [negb andb] in Hr.
      apply negb_false_iff in Hr. rewrite Hr. reflexivity.
    + apply negb_false_iff in Hr. rewrite Hr. reflexivity.
  - eexists. reflexivity.
Qed.

(* so: whatever public call of the crate is made under the lock, the state is unchanged *)
Theorem C08_reentrant_no_effect : forall o s,
  s_lock s = true -> (forall id, o <> Remount id) -> snd (step o s) = s.
Proof.
  intros o s H Hn.
  destruct (result_returning o) eqn:Hr.
  - rewrite (C08_reentrant o s H Hr). reflexivity.
  - destruct (C08_reentrant_excluded s H) as (A & B & C & [b D]).
    destruct o; cbn [result_returning] in Hr; try discriminate.
    + rewrite D. reflexivity.
    + rewrite (A f w x Hr). reflexivity.
    + apply negb_false_iff in Hr. apply N.eqb_eq in Hr. subst n. rewrite B. reflexivity.
    + destruct data; [|discriminate]. rewrite C. reflexivity.
    + exfalso. eapply Hn. reflexivity.
Qed.

(* ================================================================== 3. the open-handle query *)
Definition is_empty {A} (l : list A) : bool := match l with [] => true | _ :: _ => false end.

Theorem C08_query_truthful : forall s,
  has_open_handles s = (Ok (negb (is_empty (s_dirs s) && is_empty (s_files s))), s).
Proof.
  intros s. unfold has_open_handles, bind, get, ret.
  destruct (s_dirs s), (s_files s); reflexivity.
Qed.

(* in words: false exactly when no directory and no file is open (volumes do not count) *)
Corollary C08_query_false_iff : forall s,
  fst (has_open_handles s) = Ok false <-> (s_dirs s = [] /\ s_files s = []).
Proof.
  intros s. rewrite C08_query_truthful. cbn [fst].
  destruct (s_dirs s), (s_files s); cbn; split; intros H; try discriminate; auto;
    destruct H; discriminate.
Qed.

(* ================================================================== 1b. iterate_dir holds the lock *)
(* the listing part of iterate_dir: resolve the handle, walk the directory, hide LFN entries *)
Definition iter_listing (d : N) : M (list dirent) :=
  di <- get_dir_by_id d ;;
  dd <- get_dir di ;;
  vi <- get_volume_by_id (d_vol dd) ;;
  all <- iterate_dir_all vi (d_cluster dd) ;;
  ret (filter (fun e => negb (is_lfn (e_attr e))) all).

(* what the callback sees and what happens after it: the callback `inner` runs in the state
   left by the listing WITH THE LOCK SET, and when it returns (Ok or Err) the lock is
   released; nothing else is done to the state *)
Definition iterate_outcome {R} (inner : M R) (r : outcome (list dirent) * st)
  : outcome (list dirent * option (R + err)) * st :=
  match r with
  | (Ok [], s1) => (Ok ([], None), s1)
  | (Ok shown, s1) =>
      match inner (set_s_lock s1 true) with
      | (Ok a, s2) => (Ok (shown, Some (inl a)), set_s_lock s2 false)
      | (Err e, s2) => (Ok (shown, Some (inr e)), set_s_lock s2 false)
      | (Panic, s2) => (Panic, s2)
      | (OutOfFuel, s2) => (OutOfFuel, s2)
      end
  | (Err e, s1) => (Err e, s1)
  | (Panic, s1) => (Panic, s1)
  | (OutOfFuel, s1) => (OutOfFuel, s1)
  end.

Theorem C08_iterate_holds_lock : forall R d (inner : M R) s,
  s_lock s = false ->
  mgr_iterate d inner s = iterate_outcome inner (iter_listing d s) /\
  (forall s1, s_lock (set_s_lock s1 true) = true /\ forall s2, s_lock (set_s_lock s2 false) = false).
Proof.
  intros R d inner s H. split; [|intros s1; split; reflexivity].
  unfold mgr_iterate, iter_listing. rewrite (locked_free _ s H).
  unfold iterate_outcome, bind.
  destruct (get_dir_by_id d s) as [[di| | |] s1]; try reflexivity.
  destruct (get_dir di s1) as [[dd| | |] s2]; try reflexivity.
  destruct (get_volume_by_id (d_vol dd) s2) as [[vi| | |] s3]; try reflexivity.
  destruct (iterate_dir_all vi (d_cluster dd) s3) as [[all| | |] s4]; try reflexivity.
  unfold ret.
  destruct (filter (fun e => negb (is_lfn (e_attr e))) all) as [|e0 shown]; [reflexivity|].
  unfold modify, try.
  destruct (inner (set_s_lock s4 true)) as [[a| | |] s5]; reflexivity.
Qed.

(* C08, last sentence, end to end: a result-returning call made from the callback of an
   iteration over a non-empty listing reports LockError, and the state after the whole
   iteration is the state after the listing alone (with the lock released) *)
Theorem C08_reentrant_in_callback : forall d o' s,
  s_lock s = false -> result_returning o' = true ->
  step (Iter d (Some o')) s =
  match iter_listing d s with
  | (Ok [], s1) => (Ok (RIter [] None), s1)
  | (Ok shown, s1) => (Ok (RIter shown (Some (inr LockError))), set_s_lock s1 false)
  | (Err e, s1) => (Err e, s1)
  | (Panic, s1) => (Panic, s1)
  | (OutOfFuel, s1) => (OutOfFuel, s1)
  end.
Proof.
  intros d o' s H Hr. cbn [step]. unfold bind at 1.
  rewrite (proj1 (C08_iterate_holds_lock _ d (step o') s H)).
  unfold iterate_outcome.
  destruct (iter_listing d s) as [[[|e0 shown]| | |] s1]; try reflexivity.
  rewrite (C08_reentrant o' (set_s_lock s1 true) eq_refl Hr). reflexivity.
Qed.

(* ================================================================== 2. stale handles *)
Lemma bind_get {A} (k : st -> M A) s : bind get k s = k s s.
Proof. reflexivity. Qed.

Lemma find_idx_none {A} (p : A -> bool) l : (forall x, In x l -> p x = false) ->
  forall i, find_idx p l i = None.
Proof.
  induction l as [|h t IH]; intros Hp i; [reflexivity|].
  cbn [find_idx]. rewrite (Hp h (or_introl eq_refl)). apply IH.
  intros x Hx. apply Hp. right. exact Hx.
Qed.

Lemma find_idx_some {A} (p : A -> bool) l : forall i j, find_idx p l i = Some j ->
  (i <= j)%nat /\ (j - i < length l)%nat /\ exists x, nth_error l (j - i) = Some x /\ p x = true.
Proof.
  induction l as [|h t IH]; intros i j H; [discriminate|].
  cbn [find_idx] in H. destruct (p h) eqn:Hp.
  - injection H as <-. rewrite Nat.sub_diag. cbn. repeat split; try lia. exists h. auto.
  - apply IH in H. destruct H as (H1 & H2 & x & H3 & H4).
    replace (j - i)%nat with (S (j - S i)) by lia. cbn. repeat split; try lia. exists x. auto.
Qed.

Definition no_vol (h : N) (s : st) : Prop := forall v, In v (s_vols s) -> v_id v <> h.
Definition no_dir (h : N) (s : st) : Prop := forall d, In d (s_dirs s) -> d_id d <> h.
Definition no_file (h : N) (s : st) : Prop := forall f, In f (s_files s) -> f_id f <> h.

Lemma get_file_by_id_stale h s : no_file h s -> get_file_by_id h s = (Err BadHandle, s).
Proof.
  intros H. unfold get_file_by_id. rewrite bind_get.
  rewrite find_idx_none; [reflexivity|]. intros f Hf. apply N.eqb_neq. apply H. exact Hf.
Qed.
Lemma get_dir_by_id_stale h s : no_dir h s -> get_dir_by_id h s = (Err BadHandle, s).
Proof.
  intros H. unfold get_dir_by_id. rewrite bind_get.
  rewrite find_idx_none; [reflexivity|]. intros f Hf. apply N.eqb_neq. apply H. exact Hf.
Qed.
Lemma get_volume_by_id_stale h s : no_vol h s -> get_volume_by_id h s = (Err BadHandle, s).
Proof.
  intros H. unfold get_volume_by_id. rewrite bind_get.
  rewrite find_idx_none; [reflexivity|]. intros f Hf. apply N.eqb_neq. apply H. exact Hf.
Qed.

Lemma with_file_stale {A} h (k : nat -> fileinfo -> M A) s :
  s_lock s = false -> no_file h s -> with_file h k s = (Err BadHandle, s).
Proof.
  intros Hl H. unfold with_file. rewrite (locked_free _ s Hl).
  apply bind_err. apply get_file_by_id_stale. exact H.
Qed.

Lemma flush_file_stale h s : s_lock s = false -> no_file h s -> flush_file h s = (Err BadHandle, s).
Proof.
  intros Hl H. unfold flush_file. rewrite (locked_free _ s Hl).
  apply bind_err. apply get_file_by_id_stale. exact H.
Qed.

(* a file handle that is not (or no longer) in the table is rejected by every call that
   takes one, and the state - including the device-call log - is unchanged *)
Theorem C08_stale_file_handle : forall h s, s_lock s = false -> no_file h s ->
  (forall n, step (Read h n) s = (Err BadHandle, s)) /\
  (forall data, step (Write h data) s = (Err BadHandle, s)) /\
  step (Flush h) s = (Err BadHandle, s) /\
  step (CloseFile h) s = (Err BadHandle, s) /\
  (forall x, step (SeekStart h x) s = (Err BadHandle, s)) /\
  (forall x, step (SeekCur h x) s = (Err BadHandle, s)) /\
  (forall x, step (SeekEnd h x) s = (Err BadHandle, s)) /\
  step (Length h) s = (Err BadHandle, s) /\
  step (Offset h) s = (Err BadHandle, s) /\
  step (Eof h) s = (Err BadHandle, s).
Proof.
  intros h s Hl H.
  assert (E : try (flush_file h) s = (Ok (inr BadHandle), s)).
  { unfold try. rewrite (flush_file_stale h s Hl H). reflexivity. }
  repeat split; intros; cbn [step]; apply lift_err.
  - unfold mgr_read. rewrite (locked_free _ s Hl). apply bind_err. apply get_file_by_id_stale. exact H.
  - unfold mgr_write. rewrite (locked_free _ s Hl). apply bind_err. apply get_file_by_id_stale. exact H.
  - apply flush_file_stale; assumption.
  - unfold close_file.
    rewrite (bind_ok _ _ _ _ _ E). rewrite (locked_free _ s Hl).
    apply bind_err. apply get_file_by_id_stale. exact H.
  - apply with_file_stale; assumption.
  - apply with_file_stale; assumption.
  - apply with_file_stale; assumption.
  - apply with_file_stale; assumption.
  - apply with_file_stale; assumption.
  - apply with_file_stale; assumption.
Qed.

(* the embedded-io adapters on a stale handle: same, when they reach the manager *)
Theorem C08_stale_file_handle_io : forall h s, s_lock s = false -> no_file h s ->
  (forall n, n <> 0 -> step (IoRead h n) s = (Err BadHandle, s)) /\
  (forall data, data <> [] -> step (IoWrite h data) s = (Err BadHandle, s)) /\
  (forall w x, io_seek_in_range w x = true -> step (IoSeek h w x) s = (Err BadHandle, s)).
Proof.
  intros h s Hl H. repeat split; intros; cbn [step]; apply lift_err.
  - unfold io_read. apply N.eqb_neq in H0. rewrite H0.
    unfold mgr_read. rewrite (locked_free _ s Hl). apply bind_err. apply get_file_by_id_stale. exact H.
  - unfold io_write. destruct data; [contradiction|]. apply bind_err.
    unfold mgr_write. rewrite (locked_free _ s Hl). apply bind_err. apply get_file_by_id_stale. exact H.
  - unfold io_seek. apply bind_err.
    destruct w; cbn [io_seek_in_range] in H0.
    + apply negb_true_iff in H0. rewrite H0. apply with_file_stale; assumption.
    + apply andb_true_iff in H0. destruct H0 as [H1 H2].
      apply negb_true_iff in H1. apply negb_true_iff in H2. rewrite H1, H2.
      apply with_file_stale; assumption.
    + apply negb_true_iff in H0. rewrite H0. apply with_file_stale; assumption.
Qed.

(* directory handles.  The three calls that need a free slot check the limit first. *)
Theorem C08_stale_dir_handle : forall h s, s_lock s = false -> no_dir h s ->
  step (CloseDir h) s = (Err BadHandle, s) /\
  (forall name, step (Find h name) s = (Err BadHandle, s)) /\
  (forall inner, step (Iter h inner) s = (Err BadHandle, s)) /\
  (forall name, step (Delete h name) s = (Err BadHandle, s)) /\
  (forall name, step (OpenDir h name) s =
     (Err (if is_full (s_dirs s) (s_maxd s) then TooManyOpenDirs else BadHandle), s)) /\
  (forall name, step (Mkdir h name) s =
     (Err (if is_full (s_dirs s) (s_maxd s) then TooManyOpenDirs else BadHandle), s)) /\
  (forall name m, step (OpenFile h name m) s =
     (Err (if is_full (s_files s) (s_maxf s) then TooManyOpenFiles else BadHandle), s)).
Proof.
  intros h s Hl H.
  repeat split; intros; cbn [step]; apply lift_err.
  - unfold close_dir. rewrite (locked_free _ s Hl). apply bind_err. apply get_dir_by_id_stale. exact H.
  - unfold mgr_find. rewrite (locked_free _ s Hl). apply bind_err. apply get_dir_by_id_stale. exact H.
  - unfold mgr_iterate. rewrite (locked_free _ s Hl). apply bind_err. apply get_dir_by_id_stale. exact H.
  - unfold delete_file_in_dir. rewrite (locked_free _ s Hl). apply bind_err. apply get_dir_by_id_stale. exact H.
  - unfold open_dir. rewrite (locked_free _ s Hl). rewrite bind_get.
    destruct (is_full (s_dirs s) (s_maxd s)); [reflexivity|].
    apply bind_err. apply get_dir_by_id_stale. exact H.
  - unfold make_dir_in_dir. rewrite (locked_free _ s Hl). rewrite bind_get.
    destruct (is_full (s_dirs s) (s_maxd s)); [reflexivity|].
    apply bind_err. apply get_dir_by_id_stale. exact H.
  - unfold open_file_in_dir. rewrite (locked_free _ s Hl). rewrite bind_get.
    destruct (is_full (s_files s) (s_maxf s)); [reflexivity|].
    apply bind_err. apply get_dir_by_id_stale. exact H.
Qed.

(* volume handles: close_volume looks for users of the id first, then for the volume *)
Theorem C08_stale_vol_handle : forall h s, s_lock s = false -> no_vol h s ->
  step (CloseVol h) s =
    (Err (if existsb (fun f => f_vol f =? h) (s_files s) || existsb (fun d => d_vol d =? h) (s_dirs s)
          then VolumeStillInUse else BadHandle), s) /\
  step (Label h) s = (Err BadHandle, s).
Proof.
  intros h s Hl H. split; cbn [step]; apply lift_err.
  - unfold close_volume. rewrite (locked_free _ s Hl). rewrite bind_get.
    destruct (existsb (fun f => f_vol f =? h) (s_files s)); [reflexivity|].
    destruct (existsb (fun d => d_vol d =? h) (s_dirs s)); [reflexivity|].
    apply bind_err. apply get_volume_by_id_stale. exact H.
  - unfold get_root_volume_label. rewrite (locked_free _ s Hl).
    apply bind_err. apply get_volume_by_id_stale. exact H.
Qed.

(* KNOWN FINDING (recorded): open_root_dir does not look the volume handle up.  Concretely:
   a fresh manager with no volume open at all hands out a directory on "volume 77". *)
Theorem C08_root_stale_refuted : exists s h h' s',
  s_lock s = false /\ no_vol h s /\ step (OpenRoot h) s = (Ok (RHandle h'), s') /\
  s_dirs s' = [mk_dirinfo h' h CL_ROOT].
Proof.
  exists (init_state (PositiveMap.empty block) 5000 4 4 4 []), 77.
  eexists. eexists. split; [reflexivity|]. split; [intros v []|].
  split; reflexivity.
Qed.

(* ================================================================== 4a. the frame: which code cannot touch the tables *)
Definition vids (s : st) : list N := map v_id (s_vols s).
Definition dids (s : st) : list N := map d_id (s_dirs s).
Definition fids (s : st) : list N := map f_id (s_files s).

(* the handle tables keep their ids (hence their lengths), and the handle counter, the lock
   and the limits are equal.  Volume records may change in other fields (free-cluster
   hints), file records too (offsets, entry); the medium, cache, clock and log are free. *)
Definition same_tables_shape (s s' : st) : Prop :=
  vids s' = vids s /\ dids s' = dids s /\ fids s' = fids s /\
  s_next_id s' = s_next_id s /\ s_lock s' = s_lock s /\
  s_maxv s' = s_maxv s /\ s_maxd s' = s_maxd s /\ s_maxf s' = s_maxf s.

Lemma shape_refl s : same_tables_shape s s.
Proof. unfold same_tables_shape. repeat split; reflexivity. Qed.
Lemma shape_trans a b c : same_tables_shape a b -> same_tables_shape b c -> same_tables_shape a c.
Proof.
  unfold same_tables_shape.
  intros (A1 & A2 & A3 & A4 & A5 & A6 & A7 & A8) (B1 & B2 & B3 & B4 & B5 & B6 & B7 & B8).
  repeat split; congruence.
Qed.

(* `keeps s0 m`: run from any state with the shape of s0, m ends - whatever the outcome - in
   a state with the shape of s0.  Anchoring at s0 lets the rules for get_vol/put_vol and
   get_file/put_file carry the fact "this record has the id stored at that index". *)
Definition keeps (s0 : st) {A} (m : M A) : Prop :=
  forall s o s', same_tables_shape s0 s -> m s = (o, s') -> same_tables_shape s0 s'.

Lemma keeps_frame {A} (m : M A) : (forall s0, keeps s0 m) ->
  forall s o s', m s = (o, s') -> same_tables_shape s s'.
Proof. intros H s o s' E. exact (H s s o s' (shape_refl s) E). Qed.

Lemma keeps_ret s0 {A} (a : A) : keeps s0 (ret a).
Proof. intros s o s' H E. inversion E; subst. exact H. Qed.
Lemma keeps_fail s0 {A} e : keeps s0 (@fail A e).
Proof. intros s o s' H E. inversion E; subst. exact H. Qed.
Lemma keeps_panic s0 {A} : keeps s0 (@panic A).
Proof. intros s o s' H E. inversion E; subst. exact H. Qed.
Lemma keeps_oof s0 {A} : keeps s0 (@out_of_fuel A).
Proof. intros s o s' H E. inversion E; subst. exact H. Qed.
Lemma keeps_get s0 : keeps s0 get.
Proof. intros s o s' H E. inversion E; subst. exact H. Qed.

Lemma keeps_bind s0 {A B} (m : M A) (k : A -> M B) :
  keeps s0 m -> (forall a, keeps s0 (k a)) -> keeps s0 (bind m k).
Proof.
  intros Hm Hk s o s' H E. unfold bind in E.
  destruct (m s) as [[a|e| |] s1] eqn:Em; pose proof (Hm _ _ _ H Em) as H1.
  - exact (Hk a _ _ _ H1 E).
  - inversion E; subst; exact H1.
  - inversion E; subst; exact H1.
  - inversion E; subst; exact H1.
Qed.

Lemma keeps_bind_get s0 {B} (k : st -> M B) : (forall s1, keeps s0 (k s1)) -> keeps s0 (bind get k).
Proof. intros Hk. apply keeps_bind; [apply keeps_get | exact Hk]. Qed.

Lemma keeps_try s0 {A} (m : M A) : keeps s0 m -> keeps s0 (try m).
Proof.
  intros Hm s o s' H E. unfold try in E.
  destruct (m s) as [[a|e| |] s1] eqn:Em; pose proof (Hm _ _ _ H Em) as H1;
    inversion E; subst; exact H1.
Qed.

Lemma keeps_modify s0 (f : st -> st) : (forall s, same_tables_shape s (f s)) -> keeps s0 (modify f).
Proof. intros Hf s o s' H E. inversion E; subst. eapply shape_trans; [exact H | apply Hf]. Qed.

Lemma keeps_locked s0 {A} (m : M A) : keeps s0 m -> keeps s0 (locked m).
Proof.
  intros Hm. unfold locked. apply keeps_bind_get. intros s1.
  destruct (s_lock s1); [apply keeps_fail | exact Hm].
Qed.

Lemma keeps_lift s0 {A} (f : A -> res) (m : M A) : keeps s0 m -> keeps s0 (lift f m).
Proof. intros Hm. unfold lift. apply keeps_bind; [exact Hm | intros a; apply keeps_ret]. Qed.

(* ---- table access ---- *)
Lemma map_list_set_same {A} (g : A -> N) (l : list A) : forall i x,
  nth_error (map g l) i = Some (g x) -> map g (list_set l i x) = map g l.
Proof.
  induction l as [|h t IH]; intros [|i] x H; cbn in *; try reflexivity.
  - injection H as H. rewrite H. reflexivity.
  - rewrite IH by exact H. reflexivity.
Qed.

Lemma get_vol_eq vi s :
  get_vol vi s = match nth_error (s_vols s) vi with Some v => (Ok v, s) | None => (Panic, s) end.
Proof. unfold get_vol. rewrite bind_get. destruct (nth_error (s_vols s) vi); reflexivity. Qed.
Lemma get_file_eq fi s :
  get_file fi s = match nth_error (s_files s) fi with Some f => (Ok f, s) | None => (Panic, s) end.
Proof. unfold get_file. rewrite bind_get. destruct (nth_error (s_files s) fi); reflexivity. Qed.
Lemma get_dir_eq i s :
  get_dir i s = match nth_error (s_dirs s) i with Some f => (Ok f, s) | None => (Panic, s) end.
Proof. unfold get_dir. rewrite bind_get. destruct (nth_error (s_dirs s) i); reflexivity. Qed.

Lemma keeps_bind_get_vol s0 {B} vi (k : vol -> M B) :
  (forall v, nth_error (vids s0) vi = Some (v_id v) -> keeps s0 (k v)) -> keeps s0 (bind (get_vol vi) k).
Proof.
  intros Hk s o s' H E. unfold bind in E. rewrite get_vol_eq in E.
  destruct (nth_error (s_vols s) vi) as [v|] eqn:En.
  - refine (Hk v _ _ _ _ H E).
    destruct H as (H1 & _). unfold vids in *. rewrite <- H1. apply map_nth_error. exact En.
  - inversion E; subst. exact H.
Qed.
Lemma keeps_get_vol s0 vi : keeps s0 (get_vol vi).
Proof.
  intros s o s' H E. rewrite get_vol_eq in E.
  destruct (nth_error (s_vols s) vi); inversion E; subst; exact H.
Qed.
Lemma keeps_put_vol s0 vi v : nth_error (vids s0) vi = Some (v_id v) -> keeps s0 (put_vol vi v).
Proof.
  intros Hv s o s' H E. unfold put_vol, modify in E. inversion E; subst. clear E.
  destruct H as (H1 & H2 & H3 & H4 & H5 & H6 & H7 & H8).
  unfold same_tables_shape, vids, dids, fids in *. cbn. repeat split; try assumption.
  rewrite map_list_set_same; [exact H1|]. rewrite H1. exact Hv.
Qed.

Lemma keeps_bind_get_file s0 {B} fi (k : fileinfo -> M B) :
  (forall f, nth_error (fids s0) fi = Some (f_id f) -> keeps s0 (k f)) -> keeps s0 (bind (get_file fi) k).
Proof.
  intros Hk s o s' H E. unfold bind in E. rewrite get_file_eq in E.
  destruct (nth_error (s_files s) fi) as [f|] eqn:En.
  - refine (Hk f _ _ _ _ H E).
    destruct H as (_ & _ & H1 & _). unfold fids in *. rewrite <- H1. apply map_nth_error. exact En.
  - inversion E; subst. exact H.
Qed.
Lemma keeps_get_file s0 fi : keeps s0 (get_file fi).
Proof.
  intros s o s' H E. rewrite get_file_eq in E.
  destruct (nth_error (s_files s) fi); inversion E; subst; exact H.
Qed.
Lemma keeps_put_file s0 fi f : nth_error (fids s0) fi = Some (f_id f) -> keeps s0 (put_file fi f).
Proof.
  intros Hv s o s' H E. unfold put_file, modify in E. inversion E; subst. clear E.
  destruct H as (H1 & H2 & H3 & H4 & H5 & H6 & H7 & H8).
  unfold same_tables_shape, vids, dids, fids in *. cbn. repeat split; try assumption.
  rewrite map_list_set_same; [exact H3|]. rewrite H3. exact Hv.
Qed.
Lemma keeps_get_dir s0 i : keeps s0 (get_dir i).
Proof.
  intros s o s' H E. rewrite get_dir_eq in E.
  destruct (nth_error (s_dirs s) i); inversion E; subst; exact H.
Qed.
Lemma keeps_get_volume_by_id s0 h : keeps s0 (get_volume_by_id h).
Proof.
  intros s o s' H E. unfold get_volume_by_id in E. rewrite bind_get in E.
  destruct (find_idx _ _ _); inversion E; subst; exact H.
Qed.
Lemma keeps_get_dir_by_id s0 h : keeps s0 (get_dir_by_id h).
Proof.
  intros s o s' H E. unfold get_dir_by_id in E. rewrite bind_get in E.
  destruct (find_idx _ _ _); inversion E; subst; exact H.
Qed.
Lemma keeps_get_file_by_id s0 h : keeps s0 (get_file_by_id h).
Proof.
  intros s o s' H E. unfold get_file_by_id in E. rewrite bind_get in E.
  destruct (find_idx _ _ _); inversion E; subst; exact H.
Qed.

(* ---- device ---- *)
Ltac shape_of_setters := intros ?; unfold same_tables_shape; repeat split; reflexivity.

Lemma keeps_dev_read s0 i : keeps s0 (dev_read i).
Proof.
  intros s o s' H E. unfold dev_read in E.
  destruct (faulty s); inversion E; subst; (eapply shape_trans; [exact H|]);
    unfold same_tables_shape; repeat split; reflexivity.
Qed.
Lemma keeps_dev_write s0 i b : keeps s0 (dev_write i b).
Proof.
  intros s o s' H E. unfold dev_write in E.
  destruct (faulty s); inversion E; subst; (eapply shape_trans; [exact H|]);
    unfold same_tables_shape; repeat split; reflexivity.
Qed.

Create HintDb keeps.
#[export] Hint Resolve keeps_ret keeps_fail keeps_panic keeps_oof keeps_get keeps_get_vol keeps_get_file
  keeps_get_dir keeps_get_volume_by_id keeps_get_dir_by_id keeps_get_file_by_id keeps_dev_read
  keeps_dev_write : keeps.

(* structural decomposition of a monadic term *)
Ltac keeps_step :=
  first
    [ solve [auto 2 with keeps]
    | apply keeps_bind_get_vol; intros ? ?
    | apply keeps_bind_get_file; intros ? ?
    | apply keeps_bind_get; intros ?
    | apply keeps_bind; [|intros ?]
    | apply keeps_try
    | apply keeps_locked
    | apply keeps_put_vol; assumption
    | apply keeps_put_file; assumption
    | apply keeps_modify; shape_of_setters
    | match goal with
      | |- keeps _ (if ?b then _ else _) => destruct b
      | |- keeps _ (match ?x with _ => _ end) => destruct x
      end ].
Ltac keeps_go := repeat keeps_step.

Lemma keeps_add32 s0 a b : keeps s0 (add32 a b). Proof. unfold add32. keeps_go. Qed.
Lemma keeps_sub32 s0 a b : keeps s0 (sub32 a b). Proof. unfold sub32. keeps_go. Qed.
Lemma keeps_mul32 s0 a b : keeps s0 (mul32 a b). Proof. unfold mul32. keeps_go. Qed.
#[export] Hint Resolve keeps_add32 keeps_sub32 keeps_mul32 : keeps.

Lemma keeps_cache_read s0 i : keeps s0 (cache_read i). Proof. unfold cache_read. keeps_go. Qed.
Lemma keeps_cache_modify s0 f : keeps s0 (cache_modify f). Proof. unfold cache_modify. keeps_go. Qed.
Lemma keeps_write_back s0 : keeps s0 write_back. Proof. unfold write_back. keeps_go. Qed.
Lemma keeps_write_back_dup s0 d : keeps s0 (write_back_with_duplicate d).
Proof. unfold write_back_with_duplicate. keeps_go. Qed.
Lemma keeps_blank_mut s0 i : keeps s0 (blank_mut i). Proof. unfold blank_mut. keeps_go. Qed.
#[export] Hint Resolve keeps_cache_read keeps_cache_modify keeps_write_back keeps_write_back_dup keeps_blank_mut : keeps.

Lemma keeps_for_blocks_from s0 {R} (body : N -> M (option R)) :
  (forall i, keeps s0 (body i)) -> forall n i, keeps s0 (for_blocks_from n i body).
Proof.
  intros Hb. induction n as [|n IH]; intros i; cbn [for_blocks_from]; [apply keeps_ret|].
  apply keeps_bind; [apply Hb|]. intros [x|]; [apply keeps_ret | apply IH].
Qed.
Lemma keeps_for_blocks s0 {R} (body : N -> M (option R)) first size :
  (forall i, keeps s0 (body i)) -> keeps s0 (for_blocks first size body).
Proof.
  intros Hb. unfold for_blocks. apply keeps_bind; [apply keeps_add32|].
  intros _. apply keeps_for_blocks_from. exact Hb.
Qed.
