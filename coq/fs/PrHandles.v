(* PROOFS for property C08 (handles, limits, the re-entrancy lock) about the layer-B model
   of the volume manager.  Everything is for ALL states and inputs.  The model files are
   untouched; this file only adds lemmas. *)
From Coq Require Import NArith ZArith List Bool Lia Arith FMapPositive.
From SdFs Require Import FsTypes FsBase FsFat FsMgr FsLemmas PrBase.
Import ListNotations.
Open Scope N_scope.

(* ================================================================== 1. the lock *)

Lemma locked_held {A} (m : M A) s : s_lock s = true -> locked m s = (Err LockError, s).
Proof. intros H. unfold locked, bind, get. rewrite H. reflexivity. Qed.

Lemma locked_free {A} (m : M A) s : s_lock s = false -> locked m s = m s.
Proof. intros H. unfold locked, bind, get. rewrite H. reflexivity. Qed.

Lemma lift_err {A} (f : A -> res) (m : M A) s e s' : m s = (Err e, s') -> lift f m s = (Err e, s').
Proof. intros H. unfold lift. apply bind_err. exact H. Qed.

Lemma lift_ok {A} (f : A -> res) (m : M A) s a s' : m s = (Ok a, s') -> lift f m s = (Ok (f a), s').
Proof. intros H. unfold lift. rewrite (bind_ok _ _ _ _ _ H). reflexivity. Qed.

(* the embedded-io seek adapter converts the offset BEFORE it reaches the volume manager *)
Definition io_seek_in_range (w : whence) (x : Z) : bool :=
  match w with
  | FromStart => negb ((x <? 0)%Z || (4294967295 <? x)%Z)
  | FromEnd => negb (x =? -9223372036854775808)%Z && negb ((- x <? 0)%Z || (4294967295 <? - x)%Z)
  | FromCurrent => negb ((x <? -2147483648)%Z || (2147483647 <? x)%Z)
  end.

(* the calls that reach a try_borrow of the manager's data.  Excluded, exactly: the
   bool-returning open-handle query; the embedded-io read/write adapters with an empty
   buffer (they return Ok(0) without calling the manager); the seek adapter when the
   offset conversion fails (InvalidOffset, before the manager is called); and the
   harness-only Remount. *)
Definition result_returning (o : op) : bool :=
  match o with
  | HasOpen | Remount _ => false
  | IoRead _ n => negb (n =? 0)
  | IoWrite _ d => match d with [] => false | _ :: _ => true end
  | IoSeek _ w x => io_seek_in_range w x
  | _ => true
  end.

Lemma close_file_locked f s : s_lock s = true -> close_file f s = (Err LockError, s).
Proof.
  intros H. unfold close_file.
  assert (E : try (flush_file f) s = (Ok (inr LockError), s)).
  { unfold try, flush_file. rewrite (locked_held _ s H). reflexivity. }
  rewrite (bind_ok _ _ _ _ _ E). apply locked_held. exact H.
Qed.

Lemma io_seek_locked f w x s : s_lock s = true -> io_seek_in_range w x = true ->
  io_seek f w x s = (Err LockError, s).
Proof.
  intros H Hr. unfold io_seek. apply bind_err.
  destruct w; cbn [io_seek_in_range] in Hr.
  - apply negb_true_iff in Hr. rewrite Hr. apply locked_held. exact H.
  - apply andb_true_iff in Hr. destruct Hr as [H1 H2].
    apply negb_true_iff in H1. apply negb_true_iff in H2. rewrite H1, H2.
    apply locked_held. exact H.
  - apply negb_true_iff in Hr. rewrite Hr. apply locked_held. exact H.
Qed.

(* C08, last sentence: every result-returning call made while the lock is held (that is,
   from inside a directory-iteration callback) fails with LockError and the WHOLE state
   is unchanged - tables, counter, cache, medium, device-call log. *)
Theorem C08_reentrant : forall o s,
  s_lock s = true -> result_returning o = true -> step o s = (Err LockError, s).
Proof.
  intros o s H Hr.
  destruct o; cbn [result_returning] in Hr; try discriminate; cbn [step];
    try (apply lift_err; apply locked_held; exact H).
  - (* CloseFile *) apply lift_err. apply close_file_locked. exact H.
  - (* IoSeek *) apply lift_err. apply io_seek_locked; assumption.
  - (* IoRead *) apply lift_err. unfold io_read. apply negb_true_iff in Hr. rewrite Hr.
    apply locked_held. exact H.
  - (* IoWrite *) apply lift_err. unfold io_write. destruct data; [discriminate|].
    apply bind_err. apply locked_held. exact H.
Qed.

(* the excluded calls: what they do under the lock.  None of them changes the state,
   except the harness-only Remount. *)
Theorem C08_reentrant_excluded : forall s, s_lock s = true ->
  (forall f w x, io_seek_in_range w x = false -> step (IoSeek f w x) s = (Err InvalidOffset, s)) /\
  (forall f, step (IoRead f 0) s = (Ok (RBytes []), s)) /\
  (forall f, step (IoWrite f []) s = (Ok (RNum 0), s)) /\
  (exists b, step HasOpen s = (Ok (RBool b), s)).
Proof.
  intros s H. repeat split.
  - intros f w x Hr. cbn [step]. apply lift_err. unfold io_seek. apply bind_err.
    destruct w; cbn [io_seek_in_range] in Hr.
    + apply negb_false_iff in Hr. rewrite Hr. reflexivity.
    + destruct (x =? -9223372036854775808)%Z; [reflexivity|]. cbn [negb andb] in Hr.
      apply negb_false_iff in Hr. rewrite Hr. reflexivity.
    + apply negb_false_iff in Hr. rewrite Hr. reflexivity.
  - eexists. reflexivity.
Qed.

(* so: whatever public call of the crate is made under the lock, the state is unchanged *)
Theorem C08_reentrant_no_effect : forall o s,
  s_lock s = true -> (forall id, o <> Remount id) -> snd (step o s) = s.
Proof.
  intros o s H Hn.
  destruct (result_returning o) eqn:Hr.
  - rewrite (C08_reentrant o s H Hr). reflexivity.
  - destruct (C08_reentrant_excluded s H) as (A & B & C & [b D]).
    destruct o; cbn [result_returning] in Hr; try discriminate.
    + rewrite D. reflexivity.
    + rewrite (A f w x Hr). reflexivity.
    + apply negb_false_iff in Hr. apply N.eqb_eq in Hr. subst n. rewrite B. reflexivity.
    + destruct data; [|discriminate]. rewrite C. reflexivity.
    + exfalso. eapply Hn. reflexivity.
Qed.

(* ================================================================== 3. the open-handle query *)
Definition is_empty {A} (l : list A) : bool := match l with [] => true | _ :: _ => false end.

Theorem C08_query_truthful : forall s,
  has_open_handles s = (Ok (negb (is_empty (s_dirs s) && is_empty (s_files s))), s).
Proof.
  intros s. unfold has_open_handles, bind, get, ret.
  destruct (s_dirs s), (s_files s); reflexivity.
Qed.

(* in words: false exactly when no directory and no file is open (volumes do not count) *)
Corollary C08_query_false_iff : forall s,
  fst (has_open_handles s) = Ok false <-> (s_dirs s = [] /\ s_files s = []).
Proof.
  intros s. rewrite C08_query_truthful. cbn [fst].
  destruct (s_dirs s), (s_files s); cbn; split; intros H; try discriminate; auto;
    destruct H; discriminate.
Qed.

(* ================================================================== 1b. iterate_dir holds the lock *)
(* the listing part of iterate_dir: resolve the handle, walk the directory, hide LFN entries *)
Definition iter_listing (d : N) : M (list dirent) :=
  di <- get_dir_by_id d ;;
  dd <- get_dir di ;;
  vi <- get_volume_by_id (d_vol dd) ;;
  all <- iterate_dir_all vi (d_cluster dd) ;;
  ret (filter (fun e => negb (is_lfn (e_attr e))) all).

(* what the callback sees and what happens after it: the callback `inner` runs in the state
   left by the listing WITH THE LOCK SET, and when it returns (Ok or Err) the lock is
   released; nothing else is done to the state *)
Definition iterate_outcome {R} (inner : M R) (r : outcome (list dirent) * st)
  : outcome (list dirent * option (R + err)) * st :=
  match r with
  | (Ok [], s1) => (Ok ([], None), s1)
  | (Ok shown, s1) =>
      match inner (set_s_lock s1 true) with
      | (Ok a, s2) => (Ok (shown, Some (inl a)), set_s_lock s2 false)
      | (Err e, s2) => (Ok (shown, Some (inr e)), set_s_lock s2 false)
      | (Panic, s2) => (Panic, s2)
      | (OutOfFuel, s2) => (OutOfFuel, s2)
      end
  | (Err e, s1) => (Err e, s1)
  | (Panic, s1) => (Panic, s1)
  | (OutOfFuel, s1) => (OutOfFuel, s1)
  end.

Theorem C08_iterate_holds_lock : forall R d (inner : M R) s,
  s_lock s = false ->
  mgr_iterate d inner s = iterate_outcome inner (iter_listing d s) /\
  (forall s1, s_lock (set_s_lock s1 true) = true /\ forall s2, s_lock (set_s_lock s2 false) = false).
Proof.
  intros R d inner s H. split; [|intros s1; split; reflexivity].
  unfold mgr_iterate, iter_listing. rewrite (locked_free _ s H).
  unfold iterate_outcome, bind.
  destruct (get_dir_by_id d s) as [[di| | |] s1]; try reflexivity.
  destruct (get_dir di s1) as [[dd| | |] s2]; try reflexivity.
  destruct (get_volume_by_id (d_vol dd) s2) as [[vi| | |] s3]; try reflexivity.
  destruct (iterate_dir_all vi (d_cluster dd) s3) as [[all| | |] s4]; try reflexivity.
  unfold ret.
  destruct (filter (fun e => negb (is_lfn (e_attr e))) all) as [|e0 shown]; [reflexivity|].
  unfold modify, try.
  destruct (inner (set_s_lock s4 true)) as [[a| | |] s5]; reflexivity.
Qed.

(* C08, last sentence, end to end: a result-returning call made from the callback of an
   iteration over a non-empty listing reports LockError, and the state after the whole
   iteration is the state after the listing alone (with the lock released) *)
Theorem C08_reentrant_in_callback : forall d o' s,
  s_lock s = false -> result_returning o' = true ->
  step (Iter d (Some o')) s =
  match iter_listing d s with
  | (Ok [], s1) => (Ok (RIter [] None), s1)
  | (Ok shown, s1) => (Ok (RIter shown (Some (inr LockError))), set_s_lock s1 false)
  | (Err e, s1) => (Err e, s1)
  | (Panic, s1) => (Panic, s1)
  | (OutOfFuel, s1) => (OutOfFuel, s1)
  end.
Proof.
  intros d o' s H Hr. cbn [step]. unfold bind at 1.
  rewrite (proj1 (C08_iterate_holds_lock _ d (step o') s H)).
  unfold iterate_outcome.
  destruct (iter_listing d s) as [[[|e0 shown]| | |] s1]; try reflexivity.
  rewrite (C08_reentrant o' (set_s_lock s1 true) eq_refl Hr). reflexivity.
Qed.

(* ================================================================== 2. stale handles *)
Lemma bind_get {A} (k : st -> M A) s : bind get k s = k s s.
Proof. reflexivity. Qed.

Lemma find_idx_none {A} (p : A -> bool) l : (forall x, In x l -> p x = false) ->
  forall i, find_idx p l i = None.
Proof.
  induction l as [|h t IH]; intros Hp i; [reflexivity|].
  cbn [find_idx]. rewrite (Hp h (or_introl eq_refl)). apply IH.
  intros x Hx. apply Hp. right. exact Hx.
Qed.

Lemma find_idx_some {A} (p : A -> bool) l : forall i j, find_idx p l i = Some j ->
  (i <= j)%nat /\ (j - i < length l)%nat /\ exists x, nth_error l (j - i) = Some x /\ p x = true.
Proof.
  induction l as [|h t IH]; intros i j H; [discriminate|].
  cbn [find_idx] in H. destruct (p h) eqn:Hp.
  - injection H as <-. rewrite Nat.sub_diag. cbn. repeat split; try lia. exists h. auto.
  - apply IH in H. destruct H as (H1 & H2 & x & H3 & H4).
    replace (j - i)%nat with (S (j - S i)) by lia. cbn. repeat split; try lia. exists x. auto.
Qed.

Definition no_vol (h : N) (s : st) : Prop := forall v, In v (s_vols s) -> v_id v <> h.
Definition no_dir (h : N) (s : st) : Prop := forall d, In d (s_dirs s) -> d_id d <> h.
Definition no_file (h : N) (s : st) : Prop := forall f, In f (s_files s) -> f_id f <> h.

Lemma get_file_by_id_stale h s : no_file h s -> get_file_by_id h s = (Err BadHandle, s).
Proof.
  intros H. unfold get_file_by_id. rewrite bind_get.
  rewrite find_idx_none; [reflexivity|]. intros f Hf. apply N.eqb_neq. apply H. exact Hf.
Qed.
Lemma get_dir_by_id_stale h s : no_dir h s -> get_dir_by_id h s = (Err BadHandle, s).
Proof.
  intros H. unfold get_dir_by_id. rewrite bind_get.
  rewrite find_idx_none; [reflexivity|]. intros f Hf. apply N.eqb_neq. apply H. exact Hf.
Qed.
Lemma get_volume_by_id_stale h s : no_vol h s -> get_volume_by_id h s = (Err BadHandle, s).
Proof.
  intros H. unfold get_volume_by_id. rewrite bind_get.
  rewrite find_idx_none; [reflexivity|]. intros f Hf. apply N.eqb_neq. apply H. exact Hf.
Qed.

Lemma with_file_stale {A} h (k : nat -> fileinfo -> M A) s :
  s_lock s = false -> no_file h s -> with_file h k s = (Err BadHandle, s).
Proof.
  intros Hl H. unfold with_file. rewrite (locked_free _ s Hl).
  apply bind_err. apply get_file_by_id_stale. exact H.
Qed.

Lemma flush_file_stale h s : s_lock s = false -> no_file h s -> flush_file h s = (Err BadHandle, s).
Proof.
  intros Hl H. unfold flush_file. rewrite (locked_free _ s Hl).
  apply bind_err. apply get_file_by_id_stale. exact H.
Qed.

(* a file handle that is not (or no longer) in the table is rejected by every call that
   takes one, and the state - including the device-call log - is unchanged *)
Theorem C08_stale_file_handle : forall h s, s_lock s = false -> no_file h s ->
  (forall n, step (Read h n) s = (Err BadHandle, s)) /\
  (forall data, step (Write h data) s = (Err BadHandle, s)) /\
  step (Flush h) s = (Err BadHandle, s) /\
  step (CloseFile h) s = (Err BadHandle, s) /\
  (forall x, step (SeekStart h x) s = (Err BadHandle, s)) /\
  (forall x, step (SeekCur h x) s = (Err BadHandle, s)) /\
  (forall x, step (SeekEnd h x) s = (Err BadHandle, s)) /\
  step (Length h) s = (Err BadHandle, s) /\
  step (Offset h) s = (Err BadHandle, s) /\
  step (Eof h) s = (Err BadHandle, s).
Proof.
  intros h s Hl H.
  assert (E : try (flush_file h) s = (Ok (inr BadHandle), s)).
  { unfold try. rewrite (flush_file_stale h s Hl H). reflexivity. }
  repeat split; intros; cbn [step]; apply lift_err.
  - unfold mgr_read. rewrite (locked_free _ s Hl). apply bind_err. apply get_file_by_id_stale. exact H.
  - unfold mgr_write. rewrite (locked_free _ s Hl). apply bind_err. apply get_file_by_id_stale. exact H.
  - apply flush_file_stale; assumption.
  - unfold close_file.
    rewrite (bind_ok _ _ _ _ _ E). rewrite (locked_free _ s Hl).
    apply bind_err. apply get_file_by_id_stale. exact H.
  - apply with_file_stale; assumption.
  - apply with_file_stale; assumption.
  - apply with_file_stale; assumption.
  - apply with_file_stale; assumption.
  - apply with_file_stale; assumption.
  - apply with_file_stale; assumption.
Qed.

(* the embedded-io adapters on a stale handle: same, when they reach the manager *)
Theorem C08_stale_file_handle_io : forall h s, s_lock s = false -> no_file h s ->
  (forall n, n <> 0 -> step (IoRead h n) s = (Err BadHandle, s)) /\
  (forall data, data <> [] -> step (IoWrite h data) s = (Err BadHandle, s)) /\
  (forall w x, io_seek_in_range w x = true -> step (IoSeek h w x) s = (Err BadHandle, s)).
Proof.
  intros h s Hl H. repeat split; intros; cbn [step]; apply lift_err.
  - unfold io_read. apply N.eqb_neq in H0. rewrite H0.
    unfold mgr_read. rewrite (locked_free _ s Hl). apply bind_err. apply get_file_by_id_stale. exact H.
  - unfold io_write. destruct data; [contradiction|]. apply bind_err.
    unfold mgr_write. rewrite (locked_free _ s Hl). apply bind_err. apply get_file_by_id_stale. exact H.
  - unfold io_seek. apply bind_err.
    destruct w; cbn [io_seek_in_range] in H0.
    + apply negb_true_iff in H0. rewrite H0. apply with_file_stale; assumption.
    + apply andb_true_iff in H0. destruct H0 as [H1 H2].
      apply negb_true_iff in H1. apply negb_true_iff in H2. rewrite H1, H2.
      apply with_file_stale; assumption.
    + apply negb_true_iff in H0. rewrite H0. apply with_file_stale; assumption.
Qed.

(* directory handles.  The three calls that need a free slot check the limit first. *)
Theorem C08_stale_dir_handle : forall h s, s_lock s = false -> no_dir h s ->
  step (CloseDir h) s = (Err BadHandle, s) /\
  (forall name, step (Find h name) s = (Err BadHandle, s)) /\
  (forall inner, step (Iter h inner) s = (Err BadHandle, s)) /\
  (forall name, step (Delete h name) s = (Err BadHandle, s)) /\
  (forall name, step (OpenDir h name) s =
     (Err (if is_full (s_dirs s) (s_maxd s) then TooManyOpenDirs else BadHandle), s)) /\
  (forall name, step (Mkdir h name) s =
     (Err (if is_full (s_dirs s) (s_maxd s) then TooManyOpenDirs else BadHandle), s)) /\
  (forall name m, step (OpenFile h name m) s =
     (Err (if is_full (s_files s) (s_maxf s) then TooManyOpenFiles else BadHandle), s)).
Proof.
  intros h s Hl H.
  repeat split; intros; cbn [step]; apply lift_err.
  - unfold close_dir. rewrite (locked_free _ s Hl). apply bind_err. apply get_dir_by_id_stale. exact H.
  - unfold mgr_find. rewrite (locked_free _ s Hl). apply bind_err. apply get_dir_by_id_stale. exact H.
  - unfold mgr_iterate. rewrite (locked_free _ s Hl). apply bind_err. apply get_dir_by_id_stale. exact H.
  - unfold delete_file_in_dir. rewrite (locked_free _ s Hl). apply bind_err. apply get_dir_by_id_stale. exact H.
  - unfold open_dir. rewrite (locked_free _ s Hl). rewrite bind_get.
    destruct (is_full (s_dirs s) (s_maxd s)); [reflexivity|].
    apply bind_err. apply get_dir_by_id_stale. exact H.
  - unfold make_dir_in_dir. rewrite (locked_free _ s Hl). rewrite bind_get.
    destruct (is_full (s_dirs s) (s_maxd s)); [reflexivity|].
    apply bind_err. apply get_dir_by_id_stale. exact H.
  - unfold open_file_in_dir. rewrite (locked_free _ s Hl). rewrite bind_get.
    destruct (is_full (s_files s) (s_maxf s)); [reflexivity|].
    apply bind_err. apply get_dir_by_id_stale. exact H.
Qed.

(* volume handles: close_volume looks for users of the id first, then for the volume *)
Theorem C08_stale_vol_handle : forall h s, s_lock s = false -> no_vol h s ->
  step (CloseVol h) s =
    (Err (if existsb (fun f => f_vol f =? h) (s_files s) || existsb (fun d => d_vol d =? h) (s_dirs s)
          then VolumeStillInUse else BadHandle), s) /\
  step (Label h) s = (Err BadHandle, s).
Proof.
  intros h s Hl H. split; cbn [step]; apply lift_err.
  - unfold close_volume. rewrite (locked_free _ s Hl). rewrite bind_get.
    destruct (existsb (fun f => f_vol f =? h) (s_files s)); [reflexivity|].
    destruct (existsb (fun d => d_vol d =? h) (s_dirs s)); [reflexivity|].
    apply bind_err. apply get_volume_by_id_stale. exact H.
  - unfold get_root_volume_label. rewrite (locked_free _ s Hl).
    apply bind_err. apply get_volume_by_id_stale. exact H.
Qed.

(* KNOWN FINDING (recorded): open_root_dir does not look the volume handle up.  Concretely:
   a fresh manager with no volume open at all hands out a directory on "volume 77". *)
Theorem C08_root_stale_refuted : exists s h h' s',
  s_lock s = false /\ no_vol h s /\ step (OpenRoot h) s = (Ok (RHandle h'), s') /\
  s_dirs s' = [mk_dirinfo h' h CL_ROOT].
Proof.
  exists (init_state (PositiveMap.empty block) 5000 4 4 4 []), 77.
  eexists. eexists. split; [reflexivity|]. split; [intros v []|].
  split; reflexivity.
Qed.

(* ================================================================== 4a. the frame: which code cannot touch the tables *)
Definition vids (s : st) : list N := map v_id (s_vols s).
Definition dids (s : st) : list N := map d_id (s_dirs s).
Definition fids (s : st) : list N := map f_id (s_files s).

(* the handle tables keep their ids (hence their lengths), and the handle counter, the lock
   and the limits are equal.  Volume records may change in other fields (free-cluster
   hints), file records too (offsets, entry); the medium, cache, clock and log are free. *)
Definition same_tables_shape (s s' : st) : Prop :=
  vids s' = vids s /\ dids s' = dids s /\ fids s' = fids s /\
  s_next_id s' = s_next_id s /\ s_lock s' = s_lock s /\
  s_maxv s' = s_maxv s /\ s_maxd s' = s_maxd s /\ s_maxf s' = s_maxf s.

Lemma shape_refl s : same_tables_shape s s.
Proof. unfold same_tables_shape. repeat split; reflexivity. Qed.
Lemma shape_trans a b c : same_tables_shape a b -> same_tables_shape b c -> same_tables_shape a c.
Proof.
  unfold same_tables_shape.
  intros (A1 & A2 & A3 & A4 & A5 & A6 & A7 & A8) (B1 & B2 & B3 & B4 & B5 & B6 & B7 & B8).
  repeat split; congruence.
Qed.

(* `keeps s0 m`: run from any state with the shape of s0, m ends - whatever the outcome - in
   a state with the shape of s0.  Anchoring at s0 lets the rules for get_vol/put_vol and
   get_file/put_file carry the fact "this record has the id stored at that index". *)
Definition keeps (s0 : st) {A} (m : M A) : Prop :=
  forall s o s', same_tables_shape s0 s -> m s = (o, s') -> same_tables_shape s0 s'.

Lemma keeps_frame {A} (m : M A) : (forall s0, keeps s0 m) ->
  forall s o s', m s = (o, s') -> same_tables_shape s s'.
Proof. intros H s o s' E. exact (H s s o s' (shape_refl s) E). Qed.

Lemma keeps_ret s0 {A} (a : A) : keeps s0 (ret a).
Proof. intros s o s' H E. inversion E; subst. exact H. Qed.
Lemma keeps_fail s0 {A} e : keeps s0 (@fail A e).
Proof. intros s o s' H E. inversion E; subst. exact H. Qed.
Lemma keeps_panic s0 {A} : keeps s0 (@panic A).
Proof. intros s o s' H E. inversion E; subst. exact H. Qed.
Lemma keeps_oof s0 {A} : keeps s0 (@out_of_fuel A).
Proof. intros s o s' H E. inversion E; subst. exact H. Qed.
Lemma keeps_get s0 : keeps s0 get.
Proof. intros s o s' H E. inversion E; subst. exact H. Qed.

Lemma keeps_bind s0 {A B} (m : M A) (k : A -> M B) :
  keeps s0 m -> (forall a, keeps s0 (k a)) -> keeps s0 (bind m k).
Proof.
  intros Hm Hk s o s' H E. unfold bind in E.
  destruct (m s) as [[a|e| |] s1] eqn:Em; pose proof (Hm _ _ _ H Em) as H1.
  - exact (Hk a _ _ _ H1 E).
  - inversion E; subst; exact H1.
  - inversion E; subst; exact H1.
  - inversion E; subst; exact H1.
Qed.

Lemma keeps_bind_get s0 {B} (k : st -> M B) : (forall s1, keeps s0 (k s1)) -> keeps s0 (bind get k).
Proof. intros Hk. apply keeps_bind; [apply keeps_get | exact Hk]. Qed.

Lemma keeps_try s0 {A} (m : M A) : keeps s0 m -> keeps s0 (try m).
Proof.
  intros Hm s o s' H E. unfold try in E.
  destruct (m s) as [[a|e| |] s1] eqn:Em; pose proof (Hm _ _ _ H Em) as H1;
    inversion E; subst; exact H1.
Qed.

Lemma keeps_modify s0 (f : st -> st) : (forall s, same_tables_shape s (f s)) -> keeps s0 (modify f).
Proof. intros Hf s o s' H E. inversion E; subst. eapply shape_trans; [exact H | apply Hf]. Qed.

Lemma keeps_locked s0 {A} (m : M A) : keeps s0 m -> keeps s0 (locked m).
Proof.
  intros Hm. unfold locked. apply keeps_bind_get. intros s1.
  destruct (s_lock s1); [apply keeps_fail | exact Hm].
Qed.

Lemma keeps_lift s0 {A} (f : A -> res) (m : M A) : keeps s0 m -> keeps s0 (lift f m).
Proof. intros Hm. unfold lift. apply keeps_bind; [exact Hm | intros a; apply keeps_ret]. Qed.

(* ---- table access ---- *)
Lemma map_list_set_same {A} (g : A -> N) (l : list A) : forall i x,
  nth_error (map g l) i = Some (g x) -> map g (list_set l i x) = map g l.
Proof.
  induction l as [|h t IH]; intros [|i] x H; cbn in *; try reflexivity.
  - injection H as H. rewrite H. reflexivity.
  - rewrite IH by exact H. reflexivity.
Qed.

Lemma get_vol_eq vi s :
  get_vol vi s = match nth_error (s_vols s) vi with Some v => (Ok v, s) | None => (Panic, s) end.
Proof. unfold get_vol. rewrite bind_get. destruct (nth_error (s_vols s) vi); reflexivity. Qed.
Lemma get_file_eq fi s :
  get_file fi s = match nth_error (s_files s) fi with Some f => (Ok f, s) | None => (Panic, s) end.
Proof. unfold get_file. rewrite bind_get. destruct (nth_error (s_files s) fi); reflexivity. Qed.
Lemma get_dir_eq i s :
  get_dir i s = match nth_error (s_dirs s) i with Some f => (Ok f, s) | None => (Panic, s) end.
Proof. unfold get_dir. rewrite bind_get. destruct (nth_error (s_dirs s) i); reflexivity. Qed.

Lemma keeps_bind_get_vol s0 {B} vi (k : vol -> M B) :
  (forall v, nth_error (vids s0) vi = Some (v_id v) -> keeps s0 (k v)) -> keeps s0 (bind (get_vol vi) k).
Proof.
  intros Hk s o s' H E. unfold bind in E. rewrite get_vol_eq in E.
  destruct (nth_error (s_vols s) vi) as [v|] eqn:En.
  - refine (Hk v _ _ _ _ H E).
    destruct H as (H1 & _). unfold vids in *. rewrite <- H1. apply map_nth_error. exact En.
  - inversion E; subst. exact H.
Qed.
Lemma keeps_get_vol s0 vi : keeps s0 (get_vol vi).
Proof.
  intros s o s' H E. rewrite get_vol_eq in E.
  destruct (nth_error (s_vols s) vi); inversion E; subst; exact H.
Qed.
Lemma keeps_put_vol s0 vi v : nth_error (vids s0) vi = Some (v_id v) -> keeps s0 (put_vol vi v).
Proof.
  intros Hv s o s' H E. unfold put_vol, modify in E. inversion E; subst. clear E.
  destruct H as (H1 & H2 & H3 & H4 & H5 & H6 & H7 & H8).
  unfold same_tables_shape, vids, dids, fids in *. cbn. repeat split; try assumption.
  rewrite map_list_set_same; [exact H1|]. rewrite H1. exact Hv.
Qed.

Lemma keeps_bind_get_file s0 {B} fi (k : fileinfo -> M B) :
  (forall f, nth_error (fids s0) fi = Some (f_id f) -> keeps s0 (k f)) -> keeps s0 (bind (get_file fi) k).
Proof.
  intros Hk s o s' H E. unfold bind in E. rewrite get_file_eq in E.
  destruct (nth_error (s_files s) fi) as [f|] eqn:En.
  - refine (Hk f _ _ _ _ H E).
    destruct H as (_ & _ & H1 & _). unfold fids in *. rewrite <- H1. apply map_nth_error. exact En.
  - inversion E; subst. exact H.
Qed.
Lemma keeps_get_file s0 fi : keeps s0 (get_file fi).
Proof.
  intros s o s' H E. rewrite get_file_eq in E.
  destruct (nth_error (s_files s) fi); inversion E; subst; exact H.
Qed.
Lemma keeps_put_file s0 fi f : nth_error (fids s0) fi = Some (f_id f) -> keeps s0 (put_file fi f).
Proof.
  intros Hv s o s' H E. unfold put_file, modify in E. inversion E; subst. clear E.
  destruct H as (H1 & H2 & H3 & H4 & H5 & H6 & H7 & H8).
  unfold same_tables_shape, vids, dids, fids in *. cbn. repeat split; try assumption.
  rewrite map_list_set_same; [exact H3|]. rewrite H3. exact Hv.
Qed.
Lemma keeps_get_dir s0 i : keeps s0 (get_dir i).
Proof.
  intros s o s' H E. rewrite get_dir_eq in E.
  destruct (nth_error (s_dirs s) i); inversion E; subst; exact H.
Qed.
Lemma keeps_get_volume_by_id s0 h : keeps s0 (get_volume_by_id h).
Proof.
  intros s o s' H E. unfold get_volume_by_id in E. rewrite bind_get in E.
  destruct (find_idx _ _ _); inversion E; subst; exact H.
Qed.
Lemma keeps_get_dir_by_id s0 h : keeps s0 (get_dir_by_id h).
Proof.
  intros s o s' H E. unfold get_dir_by_id in E. rewrite bind_get in E.
  destruct (find_idx _ _ _); inversion E; subst; exact H.
Qed.
Lemma keeps_get_file_by_id s0 h : keeps s0 (get_file_by_id h).
Proof.
  intros s o s' H E. unfold get_file_by_id in E. rewrite bind_get in E.
  destruct (find_idx _ _ _); inversion E; subst; exact H.
Qed.

(* ---- device ---- *)
Ltac shape_of_setters := intros ?; unfold same_tables_shape; repeat split; reflexivity.

Lemma keeps_dev_read s0 i : keeps s0 (dev_read i).
Proof.
  intros s o s' H E. unfold dev_read in E.
  destruct (faulty s); inversion E; subst; (eapply shape_trans; [exact H|]);
    unfold same_tables_shape; repeat split; reflexivity.
Qed.
Lemma keeps_dev_write s0 i b : keeps s0 (dev_write i b).
Proof.
  intros s o s' H E. unfold dev_write in E.
  destruct (faulty s); inversion E; subst; (eapply shape_trans; [exact H|]);
    unfold same_tables_shape; repeat split; reflexivity.
Qed.

Create HintDb keeps.
#[export] Hint Resolve keeps_ret keeps_fail keeps_panic keeps_oof keeps_get keeps_get_vol keeps_get_file
  keeps_get_dir keeps_get_volume_by_id keeps_get_dir_by_id keeps_get_file_by_id keeps_dev_read
  keeps_dev_write : keeps.

(* structural decomposition of a monadic term *)
Ltac keeps_step :=
  match goal with
  | |- keeps _ (bind (get_vol _) _) => apply keeps_bind_get_vol; intros ? ?
  | |- keeps _ (bind (get_file _) _) => apply keeps_bind_get_file; intros ? ?
  | |- keeps _ (bind _ _) => apply keeps_bind; [|intros ?]
  | |- keeps _ (try _) => apply keeps_try
  | |- keeps _ (locked _) => apply keeps_locked
  | |- keeps _ (put_vol _ _) => apply keeps_put_vol; assumption
  | |- keeps _ (put_file _ _) => apply keeps_put_file; assumption
  | |- keeps _ (modify _) => apply keeps_modify; shape_of_setters
  | |- keeps _ (if ?b then _ else _) => destruct b
  | |- keeps _ (match ?x with _ => _ end) => destruct x
  | |- keeps _ (let _ := _ in _) => cbv zeta
  | |- keeps _ _ => solve [auto 2 with keeps]
  end.
Ltac keeps_go := repeat keeps_step.

Lemma keeps_add32 s0 a b : keeps s0 (add32 a b). Proof. unfold add32. keeps_go. Qed.
Lemma keeps_sub32 s0 a b : keeps s0 (sub32 a b). Proof. unfold sub32. keeps_go. Qed.
Lemma keeps_mul32 s0 a b : keeps s0 (mul32 a b). Proof. unfold mul32. keeps_go. Qed.
#[export] Hint Resolve keeps_add32 keeps_sub32 keeps_mul32 : keeps.

Lemma keeps_cache_read s0 i : keeps s0 (cache_read i). Proof. unfold cache_read. keeps_go. Qed.
Lemma keeps_cache_modify s0 f : keeps s0 (cache_modify f). Proof. unfold cache_modify. keeps_go. Qed.
Lemma keeps_write_back s0 : keeps s0 write_back. Proof. unfold write_back. keeps_go. Qed.
Lemma keeps_write_back_dup s0 d : keeps s0 (write_back_with_duplicate d).
Proof. unfold write_back_with_duplicate. keeps_go. Qed.
Lemma keeps_blank_mut s0 i : keeps s0 (blank_mut i). Proof. unfold blank_mut. keeps_go. Qed.
#[export] Hint Resolve keeps_cache_read keeps_cache_modify keeps_write_back keeps_write_back_dup keeps_blank_mut : keeps.

Lemma keeps_for_blocks_from s0 {R} (body : N -> M (option R)) :
  (forall i, keeps s0 (body i)) -> forall n i, keeps s0 (for_blocks_from n i body).
Proof.
  intros Hb. induction n as [|n IH]; intros i; cbn [for_blocks_from]; [apply keeps_ret|].
  apply keeps_bind; [apply Hb|]. intros [x|]; [apply keeps_ret | apply IH].
Qed.
Lemma keeps_for_blocks s0 {R} (body : N -> M (option R)) first size :
  (forall i, keeps s0 (body i)) -> keeps s0 (for_blocks first size body).
Proof.
  intros Hb. unfold for_blocks. apply keeps_bind; [apply keeps_add32|].
  intros _. apply keeps_for_blocks_from. exact Hb.
Qed.
#[export] Hint Resolve keeps_for_blocks_from keeps_for_blocks : keeps.

(* ---- FsFat.v ---- *)
Lemma keeps_ts_to_fat s0 t : keeps s0 (ts_to_fat t). Proof. unfold ts_to_fat. keeps_go. Qed.
Lemma keeps_get_timestamp s0 : keeps s0 get_timestamp. Proof. unfold get_timestamp. keeps_go. Qed.
#[export] Hint Resolve keeps_ts_to_fat keeps_get_timestamp : keeps.
Lemma keeps_serialize s0 b e : keeps s0 (serialize b e). Proof. unfold serialize. keeps_go. Qed.
Lemma keeps_fat_block s0 v a b : keeps s0 (fat_block v a b). Proof. unfold fat_block. keeps_go. Qed.
Lemma keeps_cluster_to_block s0 v c : keeps s0 (cluster_to_block v c).
Proof. unfold cluster_to_block. keeps_go. Qed.
#[export] Hint Resolve keeps_serialize keeps_fat_block keeps_cluster_to_block : keeps.
Lemma keeps_update_fat s0 vi c n : keeps s0 (update_fat vi c n). Proof. unfold update_fat. keeps_go. Qed.
Lemma keeps_next_cluster s0 v c : keeps s0 (next_cluster v c). Proof. unfold next_cluster. keeps_go. Qed.
#[export] Hint Resolve keeps_update_fat keeps_next_cluster : keeps.
Lemma keeps_find_next_free_loop s0 v endc : forall fuel cur, keeps s0 (find_next_free_loop fuel v cur endc).
Proof. induction fuel as [|fuel IH]; intros cur; cbn [find_next_free_loop]; keeps_go. Qed.
Lemma keeps_find_next_free_cluster s0 v a b : keeps s0 (find_next_free_cluster v a b).
Proof. unfold find_next_free_cluster. apply keeps_find_next_free_loop. Qed.
#[export] Hint Resolve keeps_find_next_free_cluster : keeps.
Lemma keeps_zero_cluster s0 v c : keeps s0 (zero_cluster v c).
Proof. unfold zero_cluster. keeps_go. apply keeps_for_blocks. intros i. keeps_go. Qed.
#[export] Hint Resolve keeps_zero_cluster : keeps.
Lemma keeps_alloc_cluster s0 vi p z : keeps s0 (alloc_cluster vi p z).
Proof. unfold alloc_cluster. keeps_go. Qed.
Lemma keeps_bump_free s0 vi : keeps s0 (bump_free vi). Proof. unfold bump_free. keeps_go. Qed.
#[export] Hint Resolve keeps_alloc_cluster keeps_bump_free : keeps.
Lemma keeps_truncate_loop s0 vi : forall fuel next, keeps s0 (truncate_loop fuel vi next).
Proof. induction fuel as [|fuel IH]; intros next; cbn [truncate_loop]; keeps_go. Qed.
#[export] Hint Resolve keeps_truncate_loop : keeps.
Lemma keeps_truncate_cluster_chain s0 vi c : keeps s0 (truncate_cluster_chain vi c).
Proof. unfold truncate_cluster_chain. keeps_go. Qed.
#[export] Hint Resolve keeps_truncate_cluster_chain : keeps.
Lemma keeps_free_cluster_chain s0 vi c : keeps s0 (free_cluster_chain vi c).
Proof. unfold free_cluster_chain. keeps_go. Qed.
Lemma keeps_write_entry_to_disk s0 v e : keeps s0 (write_entry_to_disk v e).
Proof. unfold write_entry_to_disk. keeps_go. Qed.
Lemma keeps_update_info_sector s0 vi : keeps s0 (update_info_sector vi).
Proof. unfold update_info_sector. keeps_go. Qed.
#[export] Hint Resolve keeps_free_cluster_chain keeps_write_entry_to_disk keeps_update_info_sector : keeps.

Lemma keeps_walk_dir s0 {R} vi grow (body : N -> M (option R)) :
  (forall blk, keeps s0 (body blk)) -> forall fuel cluster, keeps s0 (walk_dir fuel vi cluster grow body).
Proof.
  intros Hb. induction fuel as [|fuel IH]; intros cluster; cbn [walk_dir]; keeps_go.
Qed.

Lemma keeps_find_directory_entry s0 vi c name : keeps s0 (find_directory_entry vi c name).
Proof. unfold find_directory_entry. keeps_go. apply keeps_walk_dir. intros blk. keeps_go. Qed.
Lemma keeps_iter_blocks s0 fat32 : forall n i acc, keeps s0 (iter_blocks n fat32 i acc).
Proof. induction n as [|n IH]; intros i acc; cbn [iter_blocks]; keeps_go. Qed.
#[export] Hint Resolve keeps_find_directory_entry keeps_iter_blocks : keeps.
Lemma keeps_iter_walk s0 vi : forall fuel c acc, keeps s0 (iter_walk fuel vi c acc).
Proof. induction fuel as [|fuel IH]; intros c acc; cbn [iter_walk]; keeps_go. Qed.
#[export] Hint Resolve keeps_iter_walk : keeps.
Lemma keeps_iterate_dir_all s0 vi c : keeps s0 (iterate_dir_all vi c).
Proof. unfold iterate_dir_all. keeps_go. Qed.
Lemma keeps_delete_directory_entry s0 vi c name : keeps s0 (delete_directory_entry vi c name).
Proof. unfold delete_directory_entry. keeps_go. apply keeps_walk_dir. intros blk. keeps_go. Qed.
Lemma keeps_write_new_directory_entry s0 vi c name a fc : keeps s0 (write_new_directory_entry vi c name a fc).
Proof. unfold write_new_directory_entry. keeps_go. apply keeps_walk_dir. intros blk. keeps_go. Qed.
#[export] Hint Resolve keeps_iterate_dir_all keeps_delete_directory_entry keeps_write_new_directory_entry : keeps.
Lemma keeps_make_dir s0 vi p sfn att : keeps s0 (make_dir vi p sfn att).
Proof. unfold make_dir. keeps_go. apply keeps_for_blocks_from. intros i. keeps_go. Qed.
#[export] Hint Resolve keeps_make_dir : keeps.

(* ---- FsMgr.v: everything that neither opens nor closes ---- *)
Lemma keeps_file_is_open s0 v e : keeps s0 (file_is_open v e). Proof. unfold file_is_open. keeps_go. Qed.
Lemma keeps_bpb_create s0 b : keeps s0 (bpb_create b). Proof. unfold bpb_create. keeps_go. Qed.
#[export] Hint Resolve keeps_file_is_open keeps_bpb_create : keeps.
Lemma keeps_parse_volume s0 a b c d : keeps s0 (parse_volume a b c d). Proof. unfold parse_volume. keeps_go. Qed.
#[export] Hint Resolve keeps_parse_volume : keeps.
Lemma keeps_mgr_find s0 d name : keeps s0 (mgr_find d name). Proof. unfold mgr_find. keeps_go. Qed.
Lemma keeps_delete_file_in_dir s0 d name : keeps s0 (delete_file_in_dir d name).
Proof. unfold delete_file_in_dir. keeps_go. Qed.
Lemma keeps_make_dir_in_dir s0 d name : keeps s0 (make_dir_in_dir d name).
Proof. unfold make_dir_in_dir. keeps_go. Qed.
Lemma keeps_fdod_walk s0 v : forall n so sc, keeps s0 (fdod_walk n v so sc).
Proof. induction n as [|n IH]; intros so sc; cbn [fdod_walk]; keeps_go. Qed.
#[export] Hint Resolve keeps_fdod_walk : keeps.
Lemma keeps_find_data_on_disk s0 vi st fs d : keeps s0 (find_data_on_disk vi st fs d).
Proof. unfold find_data_on_disk. keeps_go. Qed.
#[export] Hint Resolve keeps_find_data_on_disk : keeps.
Lemma keeps_f_left s0 f : keeps s0 (f_left f). Proof. unfold f_left. keeps_go. Qed.
#[export] Hint Resolve keeps_f_left : keeps.
Lemma keeps_read_loop s0 fi vi : forall fuel space acc, keeps s0 (read_loop fuel fi vi space acc).
Proof. induction fuel as [|fuel IH]; intros space acc; cbn [read_loop]; keeps_go. Qed.
#[export] Hint Resolve keeps_read_loop : keeps.
Lemma keeps_mgr_read s0 f n : keeps s0 (mgr_read f n). Proof. unfold mgr_read. keeps_go. Qed.
Lemma keeps_write_loop s0 fi vi : forall fuel data, keeps s0 (write_loop fuel fi vi data).
Proof. induction fuel as [|fuel IH]; intros data; cbn [write_loop]; keeps_go. Qed.
#[export] Hint Resolve keeps_write_loop : keeps.
Lemma keeps_mgr_write s0 f data : keeps s0 (mgr_write f data). Proof. unfold mgr_write. keeps_go. Qed.
Lemma keeps_flush_file s0 f : keeps s0 (flush_file f). Proof. unfold flush_file. keeps_go. Qed.
Lemma keeps_has_open_handles s0 : keeps s0 has_open_handles. Proof. unfold has_open_handles. keeps_go. Qed.
Lemma keeps_file_eof s0 f : keeps s0 (file_eof f). Proof. unfold file_eof, with_file. keeps_go. Qed.
Lemma keeps_file_length s0 f : keeps s0 (file_length f). Proof. unfold file_length, with_file. keeps_go. Qed.
Lemma keeps_file_offset s0 f : keeps s0 (file_offset f). Proof. unfold file_offset, with_file. keeps_go. Qed.
Lemma keeps_seek_start s0 f x : keeps s0 (file_seek_from_start f x).
Proof. unfold file_seek_from_start, with_file. keeps_go. Qed.
Lemma keeps_seek_end s0 f x : keeps s0 (file_seek_from_end f x).
Proof. unfold file_seek_from_end, with_file. keeps_go. Qed.
Lemma keeps_seek_cur s0 f x : keeps s0 (file_seek_from_current f x).
Proof. unfold file_seek_from_current, with_file. keeps_go. Qed.
#[export] Hint Resolve keeps_mgr_find keeps_delete_file_in_dir keeps_make_dir_in_dir keeps_mgr_read keeps_mgr_write
  keeps_flush_file keeps_has_open_handles keeps_file_eof keeps_file_length keeps_file_offset keeps_seek_start
  keeps_seek_end keeps_seek_cur : keeps.
Lemma keeps_io_seek s0 f w x : keeps s0 (io_seek f w x). Proof. unfold io_seek. keeps_go. Qed.
Lemma keeps_io_read s0 f n : keeps s0 (io_read f n). Proof. unfold io_read. keeps_go. Qed.
Lemma keeps_io_write s0 f d : keeps s0 (io_write f d). Proof. unfold io_write. keeps_go. Qed.
#[export] Hint Resolve keeps_io_seek keeps_io_read keeps_io_write : keeps.

(* the listing part of iterate_dir keeps the shape, so the lock is still free after it:
   the state after an iteration whose callback made a refused call is exactly the state
   after the listing *)
Lemma keeps_iter_listing s0 d : keeps s0 (iter_listing d). Proof. unfold iter_listing. keeps_go. Qed.

Lemma set_s_lock_id s b : s_lock s = b -> set_s_lock s b = s.
Proof. destruct s; cbn; intros <-; reflexivity. Qed.

Theorem C08_reentrant_in_callback_state : forall d o' s,
  s_lock s = false -> result_returning o' = true ->
  snd (step (Iter d (Some o')) s) = snd (iter_listing d s) /\
  same_tables_shape s (snd (step (Iter d (Some o')) s)).
Proof.
  intros d o' s H Hr. rewrite (C08_reentrant_in_callback d o' s H Hr).
  destruct (iter_listing d s) as [o1 s1] eqn:E.
  pose proof (keeps_frame _ (fun s0 => keeps_iter_listing s0 d) _ _ _ E) as Hs.
  assert (Hl : s_lock s1 = false) by (destruct Hs as (_ & _ & _ & _ & Hl & _); congruence).
  destruct o1 as [[|e0 shown]| | |]; cbn [snd]; try (split; [reflexivity | exact Hs]).
  rewrite (set_s_lock_id s1 false Hl). split; [reflexivity | exact Hs].
Qed.

(* ================================================================== 4b/5a. the calls that open *)
Inductive kind := KV | KD | KF.

(* ids, lock, limits as in s0; the counter advanced by one: an id was generated and dropped *)
Definition burned (s0 s : st) : Prop :=
  vids s = vids s0 /\ dids s = dids s0 /\ fids s = fids s0 /\
  s_next_id s = (s_next_id s0 + 1) mod U32 /\ s_lock s = s_lock s0 /\
  s_maxv s = s_maxv s0 /\ s_maxd s = s_maxd s0 /\ s_maxf s = s_maxf s0.

(* exactly one id - the old counter value - was appended to the table of kind K, which had room *)
Definition pushed (K : kind) (s0 s : st) : Prop :=
  s_next_id s = (s_next_id s0 + 1) mod U32 /\ s_lock s = s_lock s0 /\
  s_maxv s = s_maxv s0 /\ s_maxd s = s_maxd s0 /\ s_maxf s = s_maxf s0 /\
  match K with
  | KV => is_full (s_vols s0) (s_maxv s0) = false /\
          vids s = vids s0 ++ [s_next_id s0] /\ dids s = dids s0 /\ fids s = fids s0
  | KD => is_full (s_dirs s0) (s_maxd s0) = false /\
          vids s = vids s0 /\ dids s = dids s0 ++ [s_next_id s0] /\ fids s = fids s0
  | KF => is_full (s_files s0) (s_maxf s0) = false /\
          vids s = vids s0 /\ dids s = dids s0 /\ fids s = fids s0 ++ [s_next_id s0]
  end.

(* the three ways an opening call can end *)
Definition Fin (K : kind) (s0 : st) (o : outcome N) (s : st) : Prop :=
  ((forall h, o <> Ok h) /\ (same_tables_shape s0 s \/ burned s0 s)) \/
  (o = Ok (s_next_id s0) /\ pushed K s0 s).

Definition J0 (K : kind) (s0 : st) (m : M N) : Prop :=
  forall s o s', same_tables_shape s0 s -> m s = (o, s') -> Fin K s0 o s'.
Definition J1 (K : kind) (s0 : st) (m : M N) : Prop :=
  forall s o s', burned s0 s -> m s = (o, s') -> Fin K s0 o s'.

Lemma burned_shape s0 s s1 : burned s0 s -> same_tables_shape s s1 -> burned s0 s1.
Proof.
  unfold burned, same_tables_shape.
  intros (A1 & A2 & A3 & A4 & A5 & A6 & A7 & A8) (B1 & B2 & B3 & B4 & B5 & B6 & B7 & B8).
  repeat split; congruence.
Qed.

Ltac st_cbn := cbn [s_disk s_cache s_tag s_vols s_dirs s_files s_next_id s_clock s_ncalls s_faults s_trace
  s_lock s_maxv s_maxd s_maxf set_s_disk set_s_cache set_s_tag set_s_vols set_s_dirs set_s_files
  set_s_next_id set_s_clock set_s_ncalls set_s_faults set_s_trace set_s_lock set_s_maxv set_s_maxd set_s_maxf].

Lemma J0_fail K s0 e : J0 K s0 (fail e).
Proof. intros s o s' H E. inversion E; subst. left. split; [intros h; discriminate | left; exact H]. Qed.
Lemma J0_panic K s0 : J0 K s0 panic.
Proof. intros s o s' H E. inversion E; subst. left. split; [intros h; discriminate | left; exact H]. Qed.
Lemma J1_fail K s0 e : J1 K s0 (fail e).
Proof. intros s o s' H E. inversion E; subst. left. split; [intros h; discriminate | right; exact H]. Qed.
Lemma J1_panic K s0 : J1 K s0 panic.
Proof. intros s o s' H E. inversion E; subst. left. split; [intros h; discriminate | right; exact H]. Qed.

Lemma J0_bind K s0 {A} (m : M A) (k : A -> M N) :
  keeps s0 m -> (forall a, J0 K s0 (k a)) -> J0 K s0 (bind m k).
Proof.
  intros Hm Hk s o s' H E. unfold bind in E.
  destruct (m s) as [[a|e| |] s1] eqn:Em; pose proof (Hm _ _ _ H Em) as H1.
  - exact (Hk a _ _ _ H1 E).
  - inversion E; subst. left. split; [intros h; discriminate | left; exact H1].
  - inversion E; subst. left. split; [intros h; discriminate | left; exact H1].
  - inversion E; subst. left. split; [intros h; discriminate | left; exact H1].
Qed.

Lemma J1_bind K s0 {A} (m : M A) (k : A -> M N) :
  (forall s1, keeps s1 m) -> (forall a, J1 K s0 (k a)) -> J1 K s0 (bind m k).
Proof.
  intros Hm Hk s o s' H E. unfold bind in E.
  destruct (m s) as [[a|e| |] s1] eqn:Em;
    pose proof (burned_shape _ _ _ H (Hm s _ _ _ (shape_refl s) Em)) as H1.
  - exact (Hk a _ _ _ H1 E).
  - inversion E; subst. left. split; [intros h; discriminate | right; exact H1].
  - inversion E; subst. left. split; [intros h; discriminate | right; exact H1].
  - inversion E; subst. left. split; [intros h; discriminate | right; exact H1].
Qed.

Lemma J0_generate K s0 (k : N -> M N) : J1 K s0 (k (s_next_id s0)) -> J0 K s0 (bind generate k).
Proof.
  intros Hk s o s' H E. rewrite (bind_ok _ _ _ _ _ (generate_spec s)) in E.
  destruct H as (H1 & H2 & H3 & H4 & H5 & H6 & H7 & H8).
  rewrite H4 in E. refine (Hk _ _ _ _ E).
  unfold burned, vids, dids, fids in *. st_cbn. repeat split; assumption.
Qed.

Lemma is_full_map {A} (g : A -> N) (l l0 : list A) cap cap0 :
  map g l = map g l0 -> cap = cap0 -> is_full l cap = is_full l0 cap0.
Proof.
  intros H ->. unfold is_full. apply (f_equal (@length N)) in H. rewrite !map_length in H.
  rewrite H. reflexivity.
Qed.

(* leaves: the push that follows the generated id *)
Lemma J1_push_file s0 f :
  is_full (s_files s0) (s_maxf s0) = false -> f_id f = s_next_id s0 ->
  J1 KF s0 (push_file f ;;; ret (s_next_id s0)).
Proof.
  intros Hf Hid s o s' H E. unfold bind, push_file, modify, ret in E. inversion E; subst. clear E.
  right. split; [reflexivity|].
  destruct H as (H1 & H2 & H3 & H4 & H5 & H6 & H7 & H8).
  unfold pushed, vids, dids, fids in *. st_cbn. repeat split; try assumption.
  rewrite map_app, H3. cbn. rewrite Hid. reflexivity.
Qed.

Lemma J1_push_dir s0 d :
  d_id d = s_next_id s0 -> J1 KD s0 (push_dir d ;;; ret (s_next_id s0)).
Proof.
  intros Hid s o s' H E. unfold push_dir in E. unfold bind at 1 in E. rewrite bind_get in E.
  destruct H as (H1 & H2 & H3 & H4 & H5 & H6 & H7 & H8).
  assert (Hfull : is_full (s_dirs s) (s_maxd s) = is_full (s_dirs s0) (s_maxd s0))
    by (apply (is_full_map d_id); assumption).
  rewrite Hfull in E.
  destruct (is_full (s_dirs s0) (s_maxd s0)) eqn:Hf.
  - inversion E; subst. left. split; [intros h; discriminate|]. right.
    unfold burned. repeat split; assumption.
  - unfold modify, ret in E. inversion E; subst. clear E. right. split; [reflexivity|].
    unfold pushed, vids, dids, fids in *. st_cbn. repeat split; try assumption.
    rewrite map_app, H2. cbn. rewrite Hid. reflexivity.
Qed.

Lemma J1_push_vol s0 v :
  is_full (s_vols s0) (s_maxv s0) = false -> v_id v = s_next_id s0 ->
  J1 KV s0 (modify (fun s => set_s_vols s (s_vols s ++ [v])) ;;; ret (s_next_id s0)).
Proof.
  intros Hf Hid s o s' H E. unfold bind, modify, ret in E. inversion E; subst. clear E.
  right. split; [reflexivity|].
  destruct H as (H1 & H2 & H3 & H4 & H5 & H6 & H7 & H8).
  unfold pushed, vids, dids, fids in *. st_cbn. repeat split; try assumption.
  rewrite map_app, H1. cbn. rewrite Hid. reflexivity.
Qed.

Ltac J_step :=
  match goal with
  | |- J0 _ _ (fail _) => apply J0_fail
  | |- J0 _ _ panic => apply J0_panic
  | |- J1 _ _ (fail _) => apply J1_fail
  | |- J1 _ _ panic => apply J1_panic
  | |- J0 _ _ (bind generate _) => apply J0_generate
  | |- J0 _ _ (bind _ _) => apply J0_bind; [solve [keeps_go] | intros ?]
  | |- J1 _ _ (push_file _ ;;; ret _) => apply J1_push_file; [assumption | reflexivity]
  | |- J1 _ _ (push_dir _ ;;; ret _) => apply J1_push_dir; reflexivity
  | |- J1 _ _ (modify _ ;;; ret _) => apply J1_push_vol; [assumption | reflexivity]
  | |- J1 _ _ (bind _ _) => apply J1_bind; [intros ?; solve [keeps_go] | intros ?]
  | |- _ (if ?b then _ else _) => destruct b
  | |- _ (match ?x with _ => _ end) => destruct x
  end.
Ltac J_go := repeat J_step.

Lemma Fin_err K s e : Fin K s (@Err N e) s.
Proof. left. split; [intros h; discriminate | left; apply shape_refl]. Qed.

Lemma J0_bind_get K s0 (k : st -> M N) :
  (forall s1, same_tables_shape s0 s1 -> J0 K s0 (k s1)) -> J0 K s0 (bind get k).
Proof. intros Hk s o s' H E. rewrite bind_get in E. exact (Hk s H _ _ _ H E). Qed.

Lemma J0_locked K s0 m : J0 K s0 m -> J0 K s0 (locked m).
Proof.
  intros Hm. unfold locked. apply J0_bind_get. intros s1 _.
  destruct (s_lock s1); [apply J0_fail | exact Hm].
Qed.

Lemma full_vols s0 s1 : same_tables_shape s0 s1 ->
  is_full (s_vols s1) (s_maxv s1) = is_full (s_vols s0) (s_maxv s0).
Proof. intros (H1 & H2 & H3 & H4 & H5 & H6 & H7 & H8). apply (is_full_map v_id); assumption. Qed.
Lemma full_dirs s0 s1 : same_tables_shape s0 s1 ->
  is_full (s_dirs s1) (s_maxd s1) = is_full (s_dirs s0) (s_maxd s0).
Proof. intros (H1 & H2 & H3 & H4 & H5 & H6 & H7 & H8). apply (is_full_map d_id); assumption. Qed.
Lemma full_files s0 s1 : same_tables_shape s0 s1 ->
  is_full (s_files s1) (s_maxf s1) = is_full (s_files s0) (s_maxf s0).
Proof. intros (H1 & H2 & H3 & H4 & H5 & H6 & H7 & H8). apply (is_full_map f_id); assumption. Qed.

Theorem open_raw_volume_fin idx s o s' : open_raw_volume idx s = (o, s') -> Fin KV s o s'.
Proof.
  intros E. refine ((_ : J0 KV s (open_raw_volume idx)) s o s' (shape_refl s) E). clear.
  unfold open_raw_volume. apply J0_locked. apply J0_bind_get. intros s1 Hs1.
  rewrite (full_vols _ _ Hs1).
  destruct (is_full (s_vols s) (s_maxv s)) eqn:Hf; [apply J0_fail|].
  cbv zeta. J_go.
Qed.

Theorem open_root_dir_fin v s o s' : open_root_dir v s = (o, s') -> Fin KD s o s'.
Proof.
  intros E. refine ((_ : J0 KD s (open_root_dir v)) s o s' (shape_refl s) E). clear.
  unfold open_root_dir. apply J0_locked. J_go.
Qed.

Theorem open_dir_fin d name s o s' : open_dir d name s = (o, s') -> Fin KD s o s'.
Proof.
  intros E. refine ((_ : J0 KD s (open_dir d name)) s o s' (shape_refl s) E). clear.
  unfold open_dir. apply J0_locked. apply J0_bind_get. intros s1 Hs1.
  rewrite (full_dirs _ _ Hs1).
  destruct (is_full (s_dirs s) (s_maxd s)) eqn:Hf; [apply J0_fail|].
  J_go.
Qed.

Theorem open_file_in_dir_fin d name md s o s' : open_file_in_dir d name md s = (o, s') -> Fin KF s o s'.
Proof.
  intros E. refine ((_ : J0 KF s (open_file_in_dir d name md)) s o s' (shape_refl s) E). clear.
  unfold open_file_in_dir. apply J0_locked. apply J0_bind_get. intros s1 Hs1.
  rewrite (full_files _ _ Hs1).
  destruct (is_full (s_files s) (s_maxf s)) eqn:Hf; [apply J0_fail|].
  cbv zeta. J_go.
Qed.

(* ================================================================== 4c. the calls that close, and the summary of every call *)
Definition all_ids (s : st) : list N := vids s ++ dids s ++ fids s.
Definition limits_eq (s s' : st) : Prop :=
  s_maxv s' = s_maxv s /\ s_maxd s' = s_maxd s /\ s_maxf s' = s_maxf s.
Definition within_limits (s : st) : Prop :=
  N.of_nat (length (s_vols s)) <= s_maxv s /\ N.of_nat (length (s_dirs s)) <= s_maxd s /\
  N.of_nat (length (s_files s)) <= s_maxf s.

(* ---- swap_remove, pointwise; it keeps a duplicate-free list duplicate-free ---- *)
Lemma nth_error_firstn_lt {A} (l : list A) : forall k j, (j < k)%nat -> nth_error (firstn k l) j = nth_error l j.
Proof.
  induction l as [|h t IH]; intros [|k] [|j] H; cbn [firstn nth_error]; try lia; try reflexivity.
  apply IH. lia.
Qed.
Lemma nth_error_list_set {A} (l : list A) : forall i x j,
  nth_error (list_set l i x) j = if Nat.eqb j i then (if Nat.ltb i (length l) then Some x else None) else nth_error l j.
Proof.
  induction l as [|h t IH]; intros [|i] x [|j]; cbn [list_set nth_error length Nat.eqb]; try reflexivity.
  - destruct (Nat.eqb j i); reflexivity.
  - rewrite IH. destruct (Nat.eqb j i); [|reflexivity].
    change (S i <? S (length t))%nat with (i <? length t)%nat. reflexivity.
Qed.
Lemma rev_cons_last {A} (l : list A) last r : rev l = last :: r ->
  nth_error l (length l - 1) = Some last.
Proof.
  intros H. assert (E : l = rev r ++ [last]) by (rewrite <- (rev_involutive l), H; reflexivity).
  rewrite E, app_length, rev_length. cbn [length].
  rewrite nth_error_app2 by (rewrite rev_length; lia). rewrite rev_length.
  replace (length r + 1 - 1 - length r)%nat with 0%nat by lia. reflexivity.
Qed.

(* swap_remove, pointwise: position i gets the last element, the others stay, the list is one shorter *)
Lemma swap_remove_nth {A} (l : list A) i j : (i < length l)%nat -> (j < length l - 1)%nat ->
  nth_error (swap_remove l i) j = nth_error l (if Nat.eqb j i then (length l - 1)%nat else j).
Proof.
  intros Hi Hj. unfold swap_remove. destruct (rev l) as [|last r] eqn:Hr.
  { apply (f_equal (@length A)) in Hr. rewrite rev_length in Hr. cbn in Hr. lia. }
  pose proof (rev_cons_last l last r Hr) as Hlast.
  destruct (Nat.eqb i (length l - 1)) eqn:Ei.
  - apply Nat.eqb_eq in Ei. rewrite nth_error_firstn_lt by lia.
    destruct (Nat.eqb j i) eqn:Ej; [apply Nat.eqb_eq in Ej; lia | reflexivity].
  - rewrite nth_error_firstn_lt by lia. rewrite nth_error_list_set.
    destruct (Nat.eqb j i); [|reflexivity].
    destruct (Nat.ltb_spec i (length l)); [|lia]. symmetry. exact Hlast.
Qed.

Lemma swap_remove_NoDup {A} (l : list A) i : NoDup l -> NoDup (swap_remove l i).
Proof.
  intros Hnd.
  destruct (Nat.ltb_spec i (length l)) as [Hi|Hi].
  - apply NoDup_nth_error. intros j1 j2 Hj1 E.
    rewrite swap_remove_length in Hj1 by exact Hi.
    assert (Hj2 : (j2 < length l - 1)%nat).
    { rewrite <- (swap_remove_length l i Hi). apply nth_error_Some. rewrite <- E.
      apply nth_error_Some. rewrite swap_remove_length by exact Hi. exact Hj1. }
    rewrite !swap_remove_nth in E by assumption.
    rewrite NoDup_nth_error in Hnd.
    assert (Hlt : ((if Nat.eqb j1 i then (length l - 1)%nat else j1) < length l)%nat)
      by (destruct (Nat.eqb j1 i); lia).
    specialize (Hnd _ _ Hlt E).
    destruct (Nat.eqb_spec j1 i), (Nat.eqb_spec j2 i); lia.
  - (* index out of range: the model still drops the last element *)
    unfold swap_remove. destruct (rev l) as [|last r] eqn:Hr; [exact Hnd|].
    assert (Hls : forall (l0 : list A) k x, (length l0 <= k)%nat -> list_set l0 k x = l0).
    { induction l0 as [|h t IH]; intros [|k] x Hk; cbn in *; try reflexivity; try lia.
      rewrite IH by lia. reflexivity. }
    rewrite Hls by exact Hi.
    assert (Hf : forall k, NoDup (firstn k l)).
    { clear - Hnd. induction Hnd as [|h t Hh Ht IH]; intros [|k]; cbn [firstn]; try constructor.
      - intros Hin. apply Hh. eapply In_firstn. exact Hin.
      - apply IH. }
    destruct (Nat.eqb i (length l - 1)); apply Hf.
Qed.

Lemma map_swap_remove {A B} (g : A -> B) (l : list A) i : map g (swap_remove l i) = swap_remove (map g l) i.
Proof.
  unfold swap_remove. rewrite <- map_rev, map_length.
  destruct (rev l) as [|last r]; [reflexivity|]. cbn [map].
  assert (Hls : forall (l0 : list A) k x, map g (list_set l0 k x) = list_set (map g l0) k (g x)).
  { induction l0 as [|h t IH]; intros [|k] x; cbn; try reflexivity. rewrite IH. reflexivity. }
  destruct (Nat.eqb i (length l - 1)); rewrite <- firstn_map; [reflexivity | rewrite Hls; reflexivity].
Qed.

(* after removing index i from a list without duplicates (under g), g (l[i]) is gone *)
Lemma swap_remove_gone {A B} (g : A -> B) (l : list A) i x :
  NoDup (map g l) -> nth_error l i = Some x -> ~ In (g x) (map g (swap_remove l i)).
Proof.
  intros Hnd Hx Hin. rewrite map_swap_remove in Hin.
  assert (Hi : (i < length (map g l))%nat) by (rewrite map_length; apply nth_error_Some; congruence).
  apply In_nth_error in Hin. destruct Hin as [j Hj].
  assert (Hjl : (j < length (map g l) - 1)%nat).
  { rewrite <- (swap_remove_length _ i Hi). apply nth_error_Some. congruence. }
  rewrite swap_remove_nth in Hj by assumption.
  rewrite NoDup_nth_error in Hnd.
  assert (Ex : nth_error (map g l) i = Some (g x)) by (apply map_nth_error; exact Hx).
  assert (Hlt : ((if Nat.eqb j i then (length (map g l) - 1)%nat else j) < length (map g l))%nat)
    by (destruct (Nat.eqb j i); lia).
  specialize (Hnd _ i Hlt ltac:(congruence)).
  destruct (Nat.eqb_spec j i); lia.
Qed.

Lemma swap_remove_NoDup_map {A} (g : A -> N) (l : list A) i : NoDup (map g l) -> NoDup (map g (swap_remove l i)).
Proof. intros H. rewrite map_swap_remove. apply swap_remove_NoDup. exact H. Qed.

(* the tables only lose entries; counter and limits equal (the lock is not constrained) *)
Definition shrunk (s s' : st) : Prop :=
  limits_eq s s' /\ s_next_id s' = s_next_id s /\
  (length (s_vols s') <= length (s_vols s))%nat /\ (length (s_dirs s') <= length (s_dirs s))%nat /\
  (length (s_files s') <= length (s_files s))%nat /\
  incl (vids s') (vids s) /\ incl (dids s') (dids s) /\ incl (fids s') (fids s) /\
  (NoDup (vids s) -> NoDup (vids s')) /\ (NoDup (dids s) -> NoDup (dids s')) /\ (NoDup (fids s) -> NoDup (fids s')).

Lemma shrunk_refl s : shrunk s s.
Proof. unfold shrunk, limits_eq. repeat split; auto using incl_refl. Qed.
Lemma shrunk_trans a b c : shrunk a b -> shrunk b c -> shrunk a c.
Proof.
  unfold shrunk, limits_eq.
  intros ((A1 & A2 & A3) & A4 & A5 & A6 & A7 & A8 & A9 & A10 & A11 & A12 & A13)
         ((B1 & B2 & B3) & B4 & B5 & B6 & B7 & B8 & B9 & B10 & B11 & B12 & B13).
  repeat split; try congruence; try lia; try (eapply incl_tran; eassumption); auto.
Qed.
Lemma map_eq_length {A} (g : A -> N) l l' : map g l' = map g l -> length l' = length l.
Proof. intros H. apply (f_equal (@length N)) in H. rewrite !map_length in H. exact H. Qed.
Lemma shape_shrunk s s' : same_tables_shape s s' -> shrunk s s'.
Proof.
  intros (H1 & H2 & H3 & H4 & H5 & H6 & H7 & H8). unfold shrunk, limits_eq, vids, dids, fids in *.
  rewrite H1, H2, H3, (map_eq_length _ _ _ H1), (map_eq_length _ _ _ H2), (map_eq_length _ _ _ H3).
  repeat split; auto using incl_refl.
Qed.
Lemma shrunk_lock s b : shrunk s (set_s_lock s b).
Proof. unfold shrunk, limits_eq. repeat split; auto using incl_refl. Qed.

Lemma swap_remove_length_le {A} (l : list A) i : (length (swap_remove l i) <= length l)%nat.
Proof.
  unfold swap_remove. destruct (rev l); [lia|].
  destruct (Nat.eqb i (length l - 1)); rewrite firstn_length; try rewrite list_set_length; lia.
Qed.
Lemma swap_remove_incl_map {A} (g : A -> N) (l : list A) i : incl (map g (swap_remove l i)) (map g l).
Proof.
  intros x Hx. apply in_map_iff in Hx. destruct Hx as (y & <- & Hy).
  apply in_map. eapply swap_remove_subset. exact Hy.
Qed.

Lemma shrunk_remove_vol s i : shrunk s (set_s_vols s (swap_remove (s_vols s) i)).
Proof.
  unfold shrunk, limits_eq, vids, dids, fids. st_cbn.
  repeat split; auto using incl_refl, swap_remove_length_le, swap_remove_incl_map, swap_remove_NoDup_map.
Qed.
Lemma shrunk_remove_dir s i : shrunk s (set_s_dirs s (swap_remove (s_dirs s) i)).
Proof.
  unfold shrunk, limits_eq, vids, dids, fids. st_cbn.
  repeat split; auto using incl_refl, swap_remove_length_le, swap_remove_incl_map, swap_remove_NoDup_map.
Qed.
Lemma shrunk_remove_file s i : shrunk s (set_s_files s (swap_remove (s_files s) i)).
Proof.
  unfold shrunk, limits_eq, vids, dids, fids. st_cbn.
  repeat split; auto using incl_refl, swap_remove_length_le, swap_remove_incl_map, swap_remove_NoDup_map.
Qed.

Lemma get_dir_by_id_eq h s : get_dir_by_id h s =
  match find_idx (fun d => d_id d =? h) (s_dirs s) 0 with Some i => (Ok i, s) | None => (Err BadHandle, s) end.
Proof. unfold get_dir_by_id. rewrite bind_get. destruct (find_idx _ _ _); reflexivity. Qed.
Lemma get_file_by_id_eq h s : get_file_by_id h s =
  match find_idx (fun f => f_id f =? h) (s_files s) 0 with Some i => (Ok i, s) | None => (Err BadHandle, s) end.
Proof. unfold get_file_by_id. rewrite bind_get. destruct (find_idx _ _ _); reflexivity. Qed.
Lemma get_volume_by_id_eq h s : get_volume_by_id h s =
  match find_idx (fun v => v_id v =? h) (s_vols s) 0 with Some i => (Ok i, s) | None => (Err BadHandle, s) end.
Proof. unfold get_volume_by_id. rewrite bind_get. destruct (find_idx _ _ _); reflexivity. Qed.

Theorem close_dir_shrunk d s o s' : close_dir d s = (o, s') -> shrunk s s'.
Proof.
  intros E. unfold close_dir in E. destruct (s_lock s) eqn:Hl.
  { rewrite (locked_held _ s Hl) in E. inversion E; subst. apply shrunk_refl. }
  rewrite (locked_free _ s Hl) in E. unfold bind in E. rewrite get_dir_by_id_eq in E.
  destruct (find_idx _ _ _) as [i|]; inversion E; subst; [apply shrunk_remove_dir | apply shrunk_refl].
Qed.

Theorem close_volume_shrunk v s o s' : close_volume v s = (o, s') -> shrunk s s'.
Proof.
  intros E. unfold close_volume in E. destruct (s_lock s) eqn:Hl.
  { rewrite (locked_held _ s Hl) in E. inversion E; subst. apply shrunk_refl. }
  rewrite (locked_free _ s Hl), bind_get in E.
  destruct (existsb _ (s_files s)); [inversion E; subst; apply shrunk_refl|].
  destruct (existsb _ (s_dirs s)); [inversion E; subst; apply shrunk_refl|].
  unfold bind at 1 in E. rewrite get_volume_by_id_eq in E.
  destruct (find_idx _ _ _) as [vi|]; [|inversion E; subst; apply shrunk_refl].
  unfold bind in E.
  destruct (update_info_sector vi s) as [o1 s1] eqn:E1.
  pose proof (shape_shrunk _ _ (keeps_frame _ (fun s0 => keeps_update_info_sector s0 vi) _ _ _ E1)) as H1.
  destruct o1; inversion E; subst; try exact H1.
  eapply shrunk_trans; [exact H1 | apply shrunk_remove_vol].
Qed.

Theorem close_file_shrunk f s o s' : close_file f s = (o, s') -> shrunk s s'.
Proof.
  intros E. unfold close_file in E. unfold bind at 1 in E. unfold try in E.
  destruct (flush_file f s) as [o1 s1] eqn:E1.
  pose proof (shape_shrunk _ _ (keeps_frame _ (fun s0 => keeps_flush_file s0 f) _ _ _ E1)) as H1.
  assert (Htail : forall r : unit + err, locked (fi <- get_file_by_id f ;;
            modify (fun s => set_s_files s (swap_remove (s_files s) fi)) ;;;
            match r with inl _ => ret tt | inr e => fail e end) s1 = (o, s') -> shrunk s s').
  { intros r E2. eapply shrunk_trans; [exact H1|]. destruct (s_lock s1) eqn:Hl.
    { rewrite (locked_held _ s1 Hl) in E2. inversion E2; subst. apply shrunk_refl. }
    rewrite (locked_free _ s1 Hl) in E2. unfold bind at 1 in E2. rewrite get_file_by_id_eq in E2.
    destruct (find_idx _ _ _) as [i|]; [|inversion E2; subst; apply shrunk_refl].
    unfold bind, modify in E2.
    destruct r; inversion E2; subst; apply shrunk_remove_file. }
  destruct o1 as [a|e| |]; try (inversion E; subst; exact H1).
  - exact (Htail (inl a) E).
  - exact (Htail (inr e) E).
Qed.

(* ---- the summary of a call: limits equal, limits respected if they were, and the ids
   in the tables are old ones, or old ones plus the old counter value (then the counter
   advanced by one), or gone altogether (the harness-only Remount; W says its offset is a u32) *)
(* a table without duplicate ids that does not contain the counter value stays without duplicates *)
Definition nodup_pres (s s' : st) : Prop :=
  (NoDup (vids s) -> ~ In (s_next_id s) (vids s) -> NoDup (vids s')) /\
  (NoDup (dids s) -> ~ In (s_next_id s) (dids s) -> NoDup (dids s')) /\
  (NoDup (fids s) -> ~ In (s_next_id s) (fids s) -> NoDup (fids s')).

Definition op_effect (W : Prop) (s s' : st) : Prop :=
  limits_eq s s' /\ (within_limits s -> within_limits s') /\
  ((s_next_id s' = s_next_id s /\ incl (all_ids s') (all_ids s)) \/
   (s_next_id s' = (s_next_id s + 1) mod U32 /\ incl (all_ids s') (all_ids s ++ [s_next_id s])) \/
   (all_ids s' = [] /\ (W -> s_next_id s' < U32))) /\
  nodup_pres s s'.

Lemma shrunk_within s s' : shrunk s s' -> within_limits s -> within_limits s'.
Proof.
  unfold shrunk, limits_eq, within_limits.
  intros ((A1 & A2 & A3) & A4 & A5 & A6 & A7 & A8 & A9 & A10) (B1 & B2 & B3).
  rewrite A1, A2, A3. repeat split; lia.
Qed.
Lemma shrunk_incl s s' : shrunk s s' -> incl (all_ids s') (all_ids s).
Proof.
  intros (_ & _ & _ & _ & _ & A8 & A9 & A10 & _). unfold all_ids.
  apply incl_app; [apply incl_appl; exact A8|]. apply incl_appr.
  apply incl_app; [apply incl_appl; exact A9 | apply incl_appr; exact A10].
Qed.
Lemma shrunk_effect W s s' : shrunk s s' -> op_effect W s s'.
Proof.
  intros H. split; [exact (proj1 H)|]. split; [apply shrunk_within; exact H|]. split.
  - left. split; [exact (proj1 (proj2 H)) | apply shrunk_incl; exact H].
  - destruct H as (_ & _ & _ & _ & _ & _ & _ & _ & N1 & N2 & N3). unfold nodup_pres. auto.
Qed.
Lemma incl_nil_eq {A} (l : list A) : incl l [] -> l = [].
Proof. destruct l as [|x t]; [reflexivity|]. intros H. destruct (H x (or_introl eq_refl)). Qed.

Lemma effect_shrunk_r W a b c : op_effect W a b -> shrunk b c -> op_effect W a c.
Proof.
  intros ((L1 & L2 & L3) & Hw & Hi & (D1 & D2 & D3)) Hs.
  pose proof Hs as ((M1 & M2 & M3) & Hn & _ & _ & _ & _ & _ & _ & N1 & N2 & N3).
  split; [unfold limits_eq; repeat split; congruence|].
  split; [intros H; apply (shrunk_within _ _ Hs); apply Hw; exact H|].
  pose proof (shrunk_incl _ _ Hs) as Hinc.
  split; [|unfold nodup_pres; auto].
  destruct Hi as [[H1 H2]|[[H1 H2]|[H1 H2]]].
  - left. split; [congruence | eapply incl_tran; eassumption].
  - right. left. split; [congruence | eapply incl_tran; eassumption].
  - right. right. split; [apply incl_nil_eq; rewrite <- H1; exact Hinc | rewrite Hn; exact H2].
Qed.
Lemma effect_shrunk_l W a b c : shrunk a b -> op_effect W b c -> op_effect W a c.
Proof.
  intros Hs ((L1 & L2 & L3) & Hw & Hi & (D1 & D2 & D3)).
  pose proof Hs as ((M1 & M2 & M3) & Hn & _ & _ & _ & I1 & I2 & I3 & N1 & N2 & N3).
  split; [unfold limits_eq; repeat split; congruence|].
  split; [intros H; apply Hw; apply (shrunk_within _ _ Hs); exact H|].
  pose proof (shrunk_incl _ _ Hs) as Hinc.
  split; [|unfold nodup_pres; rewrite Hn in D1, D2, D3; repeat split; intros Hd Hni;
           [apply D1 | apply D2 | apply D3]; auto].
  destruct Hi as [[H1 H2]|[[H1 H2]|[H1 H2]]].
  - left. split; [congruence | eapply incl_tran; eassumption].
  - right. left. split; [congruence|]. rewrite Hn in H2.
    eapply incl_tran; [exact H2|]. apply incl_app; [apply incl_appl; exact Hinc | apply incl_appr, incl_refl].
  - right. right. split; assumption.
Qed.

Lemma burned_effect W s s' : burned s s' -> op_effect W s s'.
Proof.
  intros (H1 & H2 & H3 & H4 & H5 & H6 & H7 & H8).
  split; [unfold limits_eq; auto|]. split.
  - unfold within_limits. intros (B1 & B2 & B3). unfold vids, dids, fids in *.
    rewrite (map_eq_length _ _ _ H1), (map_eq_length _ _ _ H2), (map_eq_length _ _ _ H3), H6, H7, H8. auto.
  - split.
    + right. left. split; [exact H4|]. unfold all_ids. rewrite H1, H2, H3. apply incl_appl, incl_refl.
    + unfold nodup_pres. rewrite H1, H2, H3. auto.
Qed.

Lemma pushed_effect W K s s' : pushed K s s' -> op_effect W s s'.
Proof.
  intros (Hn & Hl & L1 & L2 & L3 & HK).
  split; [unfold limits_eq; auto|].
  assert (Hlen : forall (A B : Type) (g : A -> N) (g' : B -> N) l' l x cap, map g' l' = map g l ++ [x] ->
            is_full l cap = false -> N.of_nat (length l') <= cap).
  { intros A B g g' l' l x cap Hm Hf. apply (f_equal (@length N)) in Hm.
    rewrite app_length, !map_length in Hm. cbn in Hm. unfold is_full in Hf. apply N.leb_gt in Hf. lia. }
  assert (Hsnoc : forall (l : list N) x, NoDup l -> ~ In x l -> NoDup (l ++ [x])).
  { intros l x Hl0 Hx. induction Hl0 as [|h t Hh Ht IH]; cbn [app].
    - constructor; [intros [] | constructor].
    - constructor; [|apply IH; intros Hi; apply Hx; right; exact Hi].
      intros Hi. apply in_app_iff in Hi. destruct Hi as [Hi|[Hi|[]]]; [exact (Hh Hi)|].
      apply Hx. left. symmetry. exact Hi. }
  unfold within_limits, nodup_pres, all_ids, vids, dids, fids in *.
  destruct K; destruct HK as (Hf & V & D & F).
  - split; [|split].
    + intros (B1 & B2 & B3). rewrite L1, L2, L3, (map_eq_length _ _ _ D), (map_eq_length _ _ _ F).
      repeat split; try assumption. eapply Hlen; eassumption.
    + right. left. split; [exact Hn|]. rewrite V, D, F. intros x Hx.
      rewrite !in_app_iff in *. cbn in *. tauto.
    + rewrite V, D, F. auto.
  - split; [|split].
    + intros (B1 & B2 & B3). rewrite L1, L2, L3, (map_eq_length _ _ _ V), (map_eq_length _ _ _ F).
      repeat split; try assumption. eapply Hlen; eassumption.
    + right. left. split; [exact Hn|]. rewrite V, D, F. intros x Hx.
      rewrite !in_app_iff in *. cbn in *. tauto.
    + rewrite V, D, F. auto.
  - split; [|split].
    + intros (B1 & B2 & B3). rewrite L1, L2, L3, (map_eq_length _ _ _ V), (map_eq_length _ _ _ D).
      repeat split; try assumption. eapply Hlen; eassumption.
    + right. left. split; [exact Hn|]. rewrite V, D, F. intros x Hx.
      rewrite !in_app_iff in *. cbn in *. tauto.
    + rewrite V, D, F. auto.
Qed.

Lemma Fin_effect W K s o s' : Fin K s o s' -> op_effect W s s'.
Proof.
  intros [[_ [H|H]]|[_ H]].
  - apply shrunk_effect, shape_shrunk, H.
  - apply burned_effect, H.
  - eapply pushed_effect, H.
Qed.

(* iterate_dir with an arbitrary callback: the listing keeps the shape, the callback does
   whatever it does (P), and the lock flips do not touch the tables *)
Lemma mgr_iterate_rel (P : st -> st -> Prop) {R} d (inner : M R) :
  (forall a, P a a) ->
  (forall a b c, shrunk a b -> P b c -> P a c) -> (forall a b c, P a b -> shrunk b c -> P a c) ->
  (forall s1 o1 s2, inner s1 = (o1, s2) -> P s1 s2) ->
  forall s o s', mgr_iterate d inner s = (o, s') -> P s s'.
Proof.
  intros Prefl Pl Pr Hin s o s' E.
  destruct (s_lock s) eqn:Hl.
  { unfold mgr_iterate in E. rewrite (locked_held _ s Hl) in E. inversion E; subst. apply Prefl. }
  rewrite (proj1 (C08_iterate_holds_lock R d inner s Hl)) in E.
  destruct (iter_listing d s) as [o1 s1] eqn:E1.
  pose proof (shape_shrunk _ _ (keeps_frame _ (fun s0 => keeps_iter_listing s0 d) _ _ _ E1)) as H1.
  assert (Hs1 : P s s1) by (eapply Pr; [apply Prefl | exact H1]).
  unfold iterate_outcome in E.
  destruct o1 as [[|e0 shown]|e| |]; try (inversion E; subst; exact Hs1).
  destruct (inner (set_s_lock s1 true)) as [o2 s2] eqn:E2.
  assert (Hs2 : P s s2).
  { eapply Pl; [exact H1|]. eapply Pl; [apply (shrunk_lock s1 true)|]. exact (Hin _ _ _ E2). }
  destruct o2; inversion E; subst; try exact Hs2; (eapply Pr; [exact Hs2 | apply shrunk_lock]).
Qed.

Lemma mgr_iterate_ret_shrunk d s o s' : mgr_iterate d (ret tt) s = (o, s') -> shrunk s s'.
Proof.
  apply (mgr_iterate_rel shrunk).
  - apply shrunk_refl.
  - intros a b c; apply shrunk_trans.
  - intros a b c; apply shrunk_trans.
  - intros s1 o1 s2 E. inversion E; subst. apply shrunk_refl.
Qed.

Lemma effect_refl W s : op_effect W s s.
Proof. apply shrunk_effect, shrunk_refl. Qed.

Theorem label_effect W v s o s' : get_root_volume_label v s = (o, s') -> op_effect W s s'.
Proof.
  intros E. unfold get_root_volume_label in E. destruct (s_lock s) eqn:Hl.
  { rewrite (locked_held _ s Hl) in E. inversion E; subst. apply effect_refl. }
  rewrite (locked_free _ s Hl) in E. unfold bind at 1 in E. rewrite get_volume_by_id_eq in E.
  destruct (find_idx _ _ _) as [vi|]; [|inversion E; subst; apply effect_refl].
  unfold bind at 1 in E. rewrite get_vol_eq in E.
  destruct (nth_error (s_vols s) vi) as [vv|]; [|inversion E; subst; apply effect_refl].
  destruct (trim_rev (rev (v_name vv))); [|inversion E; subst; apply effect_refl].
  unfold bind at 1 in E.
  destruct (open_root_dir v s) as [o1 s1] eqn:E1.
  pose proof (open_root_dir_fin _ _ _ _ E1) as HF.
  pose proof (Fin_effect W _ _ _ _ HF) as H1.
  destruct o1 as [rd|e| |]; try (inversion E; subst; exact H1).
  unfold bind at 1 in E. unfold try at 1 in E.
  destruct (mgr_iterate rd (ret tt) s1) as [o2 s2] eqn:E2.
  pose proof (effect_shrunk_r _ _ _ _ H1 (mgr_iterate_ret_shrunk _ _ _ _ E2)) as H2.
  assert (Htail : forall r : (list dirent * option (unit + err)) + err,
     (_ <- try (close_dir rd) ;;
      match r with
      | inr e => fail e
      | inl (es, _) => match filter (fun e => e_attr e =? A_VOLUME) es with
                       | e :: _ => ret (Some (e_name e)) | [] => ret None end
      end) s2 = (o, s') -> op_effect W s s').
  { intros r E3. unfold bind, try in E3.
    destruct (close_dir rd s2) as [o3 s3] eqn:E4.
    pose proof (effect_shrunk_r _ _ _ _ H2 (close_dir_shrunk _ _ _ _ E4)) as H3.
    destruct o3; try (inversion E3; subst; exact H3).
    - destruct r as [[es x]|e]; [destruct (filter _ es)|]; inversion E3; subst; exact H3.
    - destruct r as [[es x]|e0]; [destruct (filter _ es)|]; inversion E3; subst; exact H3. }
  destruct o2 as [a|e| |]; try (inversion E; subst; exact H2).
  - exact (Htail (inl a) E).
  - exact (Htail (inr e) E).
Qed.

Lemma lift_state {A} (f : A -> res) (m : M A) s out s' : lift f m s = (out, s') -> exists o1, m s = (o1, s').
Proof.
  unfold lift, bind, ret. destruct (m s) as [[a|e| |] s1]; intros E; inversion E; subst; eexists; reflexivity.
Qed.
Lemma lift_ok_inv {A} (f : A -> res) (m : M A) s r s' : lift f m s = (Ok r, s') ->
  exists a, m s = (Ok a, s') /\ r = f a.
Proof.
  unfold lift, bind, ret. destruct (m s) as [[a|e| |] s1]; intros E; inversion E; subst.
  exists a. split; reflexivity.
Qed.

(* the offsets of the harness-only Remount ops inside o are u32 values *)
Fixpoint remount_ok (o : op) : Prop :=
  match o with
  | Remount id => id < U32
  | Iter _ (Some o') => remount_ok o'
  | _ => True
  end.

(* EVERY op, every outcome *)
Theorem step_effect : forall o s out s', step o s = (out, s') -> op_effect (remount_ok o) s s'.
Proof.
  fix IH 1. intros o s out s' E.
  destruct o as [idx|v|v|d name|d|d name|d inner|d name m|f|f|f n|f data|f x|f x|f x|f|f|f|d name|d name|v| |f w x|f n|f data|id];
    cbn [step] in E;
    try (apply lift_state in E; destruct E as [o1 E]).
  - eapply Fin_effect, open_raw_volume_fin, E.
  - eapply shrunk_effect, close_volume_shrunk, E.
  - eapply Fin_effect, open_root_dir_fin, E.
  - eapply Fin_effect, open_dir_fin, E.
  - eapply shrunk_effect, close_dir_shrunk, E.
  - eapply shrunk_effect, shape_shrunk, (keeps_frame _ (fun s0 => keeps_mgr_find s0 d name)), E.
  - (* Iter *)
    revert s o1 s' E.
    apply (mgr_iterate_rel (op_effect (remount_ok (Iter d inner)))).
    + apply effect_refl.
    + intros a b c; apply effect_shrunk_l.
    + intros a b c; apply effect_shrunk_r.
    + destruct inner as [o'|].
      * intros s1 o1 s2 E. exact (IH o' _ _ _ E).
      * intros s1 o1 s2 E. inversion E; subst. apply effect_refl.
  - eapply Fin_effect, open_file_in_dir_fin, E.
  - eapply shrunk_effect, close_file_shrunk, E.
  - eapply shrunk_effect, shape_shrunk, (keeps_frame _ (fun s0 => keeps_flush_file s0 f)), E.
  - eapply shrunk_effect, shape_shrunk, (keeps_frame _ (fun s0 => keeps_mgr_read s0 f n)), E.
  - eapply shrunk_effect, shape_shrunk, (keeps_frame _ (fun s0 => keeps_mgr_write s0 f data)), E.
  - eapply shrunk_effect, shape_shrunk, (keeps_frame _ (fun s0 => keeps_seek_start s0 f x)), E.
  - eapply shrunk_effect, shape_shrunk, (keeps_frame _ (fun s0 => keeps_seek_cur s0 f x)), E.
  - eapply shrunk_effect, shape_shrunk, (keeps_frame _ (fun s0 => keeps_seek_end s0 f x)), E.
  - eapply shrunk_effect, shape_shrunk, (keeps_frame _ (fun s0 => keeps_file_length s0 f)), E.
  - eapply shrunk_effect, shape_shrunk, (keeps_frame _ (fun s0 => keeps_file_offset s0 f)), E.
  - eapply shrunk_effect, shape_shrunk, (keeps_frame _ (fun s0 => keeps_file_eof s0 f)), E.
  - eapply shrunk_effect, shape_shrunk, (keeps_frame _ (fun s0 => keeps_delete_file_in_dir s0 d name)), E.
  - eapply shrunk_effect, shape_shrunk, (keeps_frame _ (fun s0 => keeps_make_dir_in_dir s0 d name)), E.
  - eapply label_effect, E.
  - eapply shrunk_effect, shape_shrunk, (keeps_frame _ (fun s0 => keeps_has_open_handles s0)), E.
  - eapply shrunk_effect, shape_shrunk, (keeps_frame _ (fun s0 => keeps_io_seek s0 f w x)), E.
  - eapply shrunk_effect, shape_shrunk, (keeps_frame _ (fun s0 => keeps_io_read s0 f n)), E.
  - eapply shrunk_effect, shape_shrunk, (keeps_frame _ (fun s0 => keeps_io_write s0 f data)), E.
  - (* Remount *)
    unfold remount, modify in E. inversion E; subst. clear E.
    split; [unfold limits_eq; repeat split; reflexivity|].
    split; [intros (B1 & B2 & B3); unfold within_limits; st_cbn; cbn [length]; repeat split; lia|].
    split; [right; right; split; [reflexivity|]; intros Hw; exact Hw|].
    unfold nodup_pres, vids, dids, fids. st_cbn. cbn [map]. repeat split; intros; constructor.
Qed.

(* C08, limits: no call - whatever its outcome, including Panic - leaves more open objects
   than configured, and no call changes the configuration *)
Theorem C08_limits : forall o s, within_limits s -> within_limits (snd (step o s)).
Proof.
  intros o s H. destruct (step o s) as [out s'] eqn:E.
  exact (proj1 (proj2 (step_effect o s out s' E)) H).
Qed.
Theorem C08_limits_constant : forall o s, limits_eq s (snd (step o s)).
Proof.
  intros o s. destruct (step o s) as [out s'] eqn:E. exact (proj1 (step_effect o s out s' E)).
Qed.

(* the call that would exceed a limit fails with the matching error.  Nothing changes,
   except that open_root_dir has already drawn (and wasted) an id *)
Theorem C08_limit_errors : forall s, s_lock s = false ->
  (is_full (s_vols s) (s_maxv s) = true -> forall idx, step (OpenVol idx) s = (Err TooManyOpenVolumes, s)) /\
  (is_full (s_dirs s) (s_maxd s) = true ->
     (forall d name, step (OpenDir d name) s = (Err TooManyOpenDirs, s)) /\
     (forall d name, step (Mkdir d name) s = (Err TooManyOpenDirs, s)) /\
     (forall v, step (OpenRoot v) s = (Err TooManyOpenDirs, set_s_next_id s ((s_next_id s + 1) mod U32)))) /\
  (is_full (s_files s) (s_maxf s) = true -> forall d name m, step (OpenFile d name m) s = (Err TooManyOpenFiles, s)).
Proof.
  intros s Hl. repeat split; intros; cbn [step]; apply lift_err.
  - unfold open_raw_volume. rewrite (locked_free _ s Hl), bind_get, H. reflexivity.
  - unfold open_dir. rewrite (locked_free _ s Hl), bind_get, H. reflexivity.
  - unfold make_dir_in_dir. rewrite (locked_free _ s Hl), bind_get, H. reflexivity.
  - unfold open_root_dir. rewrite (locked_free _ s Hl).
    rewrite (bind_ok _ _ _ _ _ (generate_spec s)). apply bind_err.
    unfold push_dir. rewrite bind_get. st_cbn. rewrite H. reflexivity.
  - unfold open_file_in_dir. rewrite (locked_free _ s Hl), bind_get, H. reflexivity.
Qed.

(* a volume cannot be closed while anything on it is open, nor opened twice (when there is room) *)
Theorem C08_volume_rules : forall s, s_lock s = false ->
  (forall v, existsb (fun f => f_vol f =? v) (s_files s) || existsb (fun d => d_vol d =? v) (s_dirs s) = true ->
     step (CloseVol v) s = (Err VolumeStillInUse, s)) /\
  (forall idx, is_full (s_vols s) (s_maxv s) = false -> existsb (fun v => v_idx v =? idx) (s_vols s) = true ->
     step (OpenVol idx) s = (Err VolumeAlreadyOpen, s)).
Proof.
  intros s Hl. split; intros; cbn [step]; apply lift_err.
  - unfold close_volume. rewrite (locked_free _ s Hl), bind_get.
    destruct (existsb _ (s_files s)); [reflexivity|]. cbn [orb] in H. rewrite H. reflexivity.
  - unfold open_raw_volume. rewrite (locked_free _ s Hl), bind_get, H, H0. reflexivity.
Qed.

(* closing frees the slot: a directory handle that is in the table closes, and the table
   is one shorter; nothing else changes *)
Lemma find_idx_exists {A} (p : A -> bool) l : (exists x, In x l /\ p x = true) ->
  forall i, exists j, find_idx p l i = Some j /\ (j - i < length l)%nat /\ (i <= j)%nat.
Proof.
  induction l as [|h t IH]; intros (x & Hin & Hp) i; [destruct Hin|].
  cbn [find_idx]. destruct (p h) eqn:Hh.
  - exists i. cbn. repeat split; lia.
  - destruct Hin as [->|Hin]; [congruence|].
    destruct (IH (ex_intro _ x (conj Hin Hp)) (S i)) as (j & Hj & Hlt & Hle).
    exists j. cbn. repeat split; try assumption; lia.
Qed.

Theorem C08_close_dir_frees : forall h s, s_lock s = false ->
  (exists d, In d (s_dirs s) /\ d_id d = h) ->
  exists i, (i < length (s_dirs s))%nat /\
    step (CloseDir h) s = (Ok RUnit, set_s_dirs s (swap_remove (s_dirs s) i)) /\
    length (swap_remove (s_dirs s) i) = (length (s_dirs s) - 1)%nat.
Proof.
  intros h s Hl (d & Hin & Hid).
  destruct (find_idx_exists (fun d => d_id d =? h) (s_dirs s)
              (ex_intro _ d (conj Hin (proj2 (N.eqb_eq _ _) Hid))) 0) as (i & Hi & Hlt & _).
  exists i. rewrite Nat.sub_0_r in Hlt. split; [exact Hlt|]. split; [|apply swap_remove_length; exact Hlt].
  cbn [step]. apply (lift_ok (fun _ : unit => RUnit) (close_dir h) s tt).
  unfold close_dir. rewrite (locked_free _ s Hl).
  unfold bind. rewrite get_dir_by_id_eq, Hi. reflexivity.
Qed.

(* ================================================================== 5. freshness of handles *)
(* every id in the three tables was drawn from the ONE counter between 1 and age_max
   generations ago: id = (next - k) mod 2^32, written additively *)
Definition fresh_inv (age_max : N) (s : st) : Prop :=
  s_next_id s < U32 /\
  forall x, In x (all_ids s) -> x < U32 /\ exists k, 1 <= k /\ k <= age_max /\ (x + k) mod U32 = s_next_id s.

Lemma fresh_inv_distinct age_max s : age_max < U32 -> fresh_inv age_max s ->
  forall x, In x (all_ids s) -> x <> s_next_id s.
Proof.
  intros Ha (Hn & H) x Hx. destruct (H x Hx) as (Hx32 & k & H1 & H2 & H3).
  apply (window_fresh (s_next_id s) k x); try assumption; lia.
Qed.

Lemma fresh_inv_effect (W : Prop) age_max s s' : W -> op_effect W s s' -> fresh_inv age_max s -> fresh_inv (age_max + 1) s'.
Proof.
  intros HW (_ & _ & Hi & _) (Hn & H).
  destruct Hi as [[H1 H2]|[[H1 H2]|[H1 H2]]].
  - split; [congruence|]. intros x Hx. destruct (H x (H2 x Hx)) as (Hx32 & k & K1 & K2 & K3).
    split; [exact Hx32|]. exists k. rewrite H1. repeat split; try assumption; lia.
  - assert (Hu : 0 < U32) by (unfold U32; lia).
    split; [rewrite H1; apply N.mod_lt; unfold U32; lia|].
    intros x Hx. apply H2 in Hx. apply in_app_iff in Hx. destruct Hx as [Hx|[<-|[]]].
    + destruct (H x Hx) as (Hx32 & k & K1 & K2 & K3). split; [exact Hx32|].
      exists (k + 1). rewrite H1, <- K3. repeat split; try lia.
      rewrite N.add_assoc. rewrite N.add_mod_idemp_l by (unfold U32; lia). reflexivity.
    + split; [exact Hn|]. exists 1. rewrite H1. repeat split; try lia.
  - split; [exact (H2 HW)|]. rewrite H1. intros x [].
Qed.

(* which table the new handle goes to *)
Definition handle_kind (o : op) : option kind :=
  match o with
  | OpenVol _ => Some KV | OpenRoot _ | OpenDir _ _ => Some KD | OpenFile _ _ _ => Some KF | _ => None
  end.

(* a call that returns a handle returns the counter value, is one of the four opening calls,
   and appended exactly that id to the table of its kind (which had room) *)
Theorem step_handle : forall o s h s', step o s = (Ok (RHandle h), s') ->
  exists K, handle_kind o = Some K /\ h = s_next_id s /\ pushed K s s'.
Proof.
  intros o s h s' E.
  destruct o; cbn [step] in E;
    try (apply lift_ok_inv in E; destruct E as (a & E & Hr); try discriminate; injection Hr as ->).
  - exists KV. split; [reflexivity|]. apply open_raw_volume_fin in E.
    destruct E as [[Hno _]|[Ho Hp]]; [exfalso; exact (Hno _ eq_refl) | injection Ho as ->; auto].
  - exists KD. split; [reflexivity|]. apply open_root_dir_fin in E.
    destruct E as [[Hno _]|[Ho Hp]]; [exfalso; exact (Hno _ eq_refl) | injection Ho as ->; auto].
  - exists KD. split; [reflexivity|]. apply open_dir_fin in E.
    destruct E as [[Hno _]|[Ho Hp]]; [exfalso; exact (Hno _ eq_refl) | injection Ho as ->; auto].
  - exists KF. split; [reflexivity|]. apply open_file_in_dir_fin in E.
    destruct E as [[Hno _]|[Ho Hp]]; [exfalso; exact (Hno _ eq_refl) | injection Ho as ->; auto].
Qed.

(* C08, first sentence.  All three kinds of handle come from the one counter; within the
   window the returned handle differs from every id in every table; and the invariant
   carries over with the window one wider.  The second part holds for EVERY op and outcome. *)
Theorem C08_fresh : forall age_max o s, age_max < U32 - 1 -> fresh_inv age_max s -> remount_ok o ->
  (forall h s', step o s = (Ok (RHandle h), s') ->
     h = s_next_id s /\ (forall x, In x (all_ids s) -> x <> h) /\ In h (all_ids s') /\
     exists K, handle_kind o = Some K /\ pushed K s s') /\
  fresh_inv (age_max + 1) (snd (step o s)).
Proof.
  intros age_max o s Ha Hinv Hw. split.
  - intros h s' E. destruct (step_handle o s h s' E) as (K & HK & -> & Hp).
    split; [reflexivity|]. split; [apply (fresh_inv_distinct age_max); [lia | exact Hinv]|].
    split; [|exists K; auto].
    destruct Hp as (_ & _ & _ & _ & _ & Hp). unfold all_ids.
    destruct K; destruct Hp as (_ & V & D & F); rewrite V, D, F, !in_app_iff; cbn; tauto.
  - destruct (step o s) as [out s'] eqn:E. cbn [snd].
    exact (fresh_inv_effect _ _ _ _ Hw (step_effect o s out s' E) Hinv).
Qed.

(* the hypotheses are satisfiable: a fresh manager, and a manager with one directory open *)
Example fresh_inv_init : forall d id maxv maxd maxf faults, id < U32 ->
  fresh_inv 0 (init_state d id maxv maxd maxf faults) /\
  (maxv <> 0 -> within_limits (init_state d id maxv maxd maxf faults)).
Proof.
  intros. split; [split; [exact H | intros x []]|]. intros _. unfold within_limits. cbn. repeat split; lia.
Qed.
Example fresh_inv_nontrivial :
  let s := snd (step (OpenRoot 0) (init_state (PositiveMap.empty block) 4294967295 1 2 1 [])) in
  fresh_inv 1 s /\ all_ids s = [4294967295] /\ s_next_id s = 0 /\ within_limits s.
Proof.
  cbv zeta. split; [|split; [reflexivity|split; [reflexivity|]]].
  - split; [reflexivity|]. intros x [<-|[]]. split; [reflexivity|]. exists 1. repeat split; discriminate.
  - unfold within_limits. cbn. repeat split; discriminate.
Qed.

(* ---- beyond the window the first sentence of C08 is FALSE: the counter wraps.  A directory
   is opened (handle 0) and kept; then 2^32 - 1 times a second directory is opened and
   closed again (every one of these calls succeeds); the next open returns handle 0 again
   while the first directory with handle 0 is still open. ---- *)
Definition wrap_state (k : N) : st :=
  mk_st (PositiveMap.empty block) zero_block None [] [mk_dirinfo 0 7 CL_ROOT] [] k 0 0 [] [] false 1 2 1.
Definition open_close_cycle (s : st) : st :=
  snd (step (CloseDir (s_next_id s)) (snd (step (OpenRoot 7) s))).

Lemma cycle_ok k : k <> 0 ->
  step (OpenRoot 7) (wrap_state k) =
    (Ok (RHandle k), set_s_dirs (wrap_state ((k + 1) mod U32)) [mk_dirinfo 0 7 CL_ROOT; mk_dirinfo k 7 CL_ROOT]) /\
  step (CloseDir k) (set_s_dirs (wrap_state ((k + 1) mod U32)) [mk_dirinfo 0 7 CL_ROOT; mk_dirinfo k 7 CL_ROOT]) =
    (Ok RUnit, wrap_state ((k + 1) mod U32)).
Proof.
  intros Hk. split; [reflexivity|].
  cbn [step]. apply (lift_ok (fun _ : unit => RUnit) _ _ tt).
  unfold close_dir. rewrite locked_free by reflexivity. unfold bind. rewrite get_dir_by_id_eq.
  unfold wrap_state. st_cbn. cbn [find_idx d_id].
  assert (E0 : (0 =? k) = false) by (apply N.eqb_neq; lia). rewrite E0, N.eqb_refl. reflexivity.
Qed.

Lemma cycle_wrap k : k <> 0 -> open_close_cycle (wrap_state k) = wrap_state ((k + 1) mod U32).
Proof.
  intros Hk. destruct (cycle_ok k Hk) as [H1 H2]. unfold open_close_cycle.
  rewrite H1. cbn [snd]. change (s_next_id (wrap_state k)) with k. rewrite H2. reflexivity.
Qed.

Lemma iter_cycle : forall n, n <= U32 - 1 ->
  N.iter n open_close_cycle (wrap_state 1) = wrap_state ((1 + n) mod U32).
Proof.
  induction n as [|n IH] using N.peano_ind; intros Hn; [reflexivity|].
  rewrite N.iter_succ, IH by lia.
  assert (Hs : (1 + n) mod U32 = 1 + n) by (apply N.mod_small; unfold U32 in *; lia).
  rewrite Hs, cycle_wrap by lia. f_equal. f_equal. lia.
Qed.

Theorem C08_wrap_refuted_state :
  let s0 := init_state (PositiveMap.empty block) 0 1 2 1 [] in
  exists s1 s3,
    step (OpenRoot 7) s0 = (Ok (RHandle 0), s1) /\ dids s1 = [0] /\
    (* every call of every cycle succeeds *)
    (forall n, n < U32 - 1 -> exists h sa sb,
        step (OpenRoot 7) (N.iter n open_close_cycle s1) = (Ok (RHandle h), sa) /\
        step (CloseDir h) sa = (Ok RUnit, sb) /\ sb = N.iter (n + 1) open_close_cycle s1) /\
    let s2 := N.iter (U32 - 1) open_close_cycle s1 in
    dids s2 = [0] /\ within_limits s2 /\
    step (OpenRoot 7) s2 = (Ok (RHandle 0), s3) /\ dids s3 = [0; 0].
Proof.
  cbv zeta. exists (wrap_state 1). eexists.
  split; [reflexivity|]. split; [reflexivity|]. split.
  - intros n Hn. rewrite iter_cycle by lia.
    assert (Hs : (1 + n) mod U32 = 1 + n) by (apply N.mod_small; unfold U32 in *; lia).
    rewrite Hs. destruct (cycle_ok (1 + n) ltac:(lia)) as [H1 H2].
    eexists. eexists. eexists. split; [exact H1|]. split; [exact H2|].
    rewrite iter_cycle by lia. f_equal. f_equal. lia.
  - rewrite iter_cycle by lia. change ((1 + (U32 - 1)) mod U32) with 0.
    split; [reflexivity|]. split; [unfold within_limits; cbn; repeat split; discriminate|].
    split; reflexivity.
Qed.

(* ================================================================== 5b. no duplicate ids; closed handles are stale *)
(* the invariant of a manager used within the window: the freshness invariant, and no id
   occurs twice in a table *)
Definition handles_ok (age_max : N) (s : st) : Prop :=
  fresh_inv age_max s /\ NoDup (vids s) /\ NoDup (dids s) /\ NoDup (fids s).

Theorem C08_handles_ok_step : forall age_max o s, age_max < U32 - 1 -> remount_ok o ->
  handles_ok age_max s -> handles_ok (age_max + 1) (snd (step o s)).
Proof.
  intros age_max o s Ha Hw (Hf & Nv & Nd & Nf).
  split; [exact (proj2 (C08_fresh age_max o s Ha Hf Hw))|].
  destruct (step o s) as [out s'] eqn:E. cbn [snd].
  destruct (step_effect o s out s' E) as (_ & _ & _ & D1 & D2 & D3).
  assert (Hni : forall x, In x (all_ids s) -> x <> s_next_id s)
    by (apply (fresh_inv_distinct age_max); [lia | exact Hf]).
  unfold all_ids in Hni.
  repeat split; [apply D1 | apply D2 | apply D3]; try assumption;
    intros Hin; apply (Hni (s_next_id s)); try reflexivity; rewrite !in_app_iff; auto.
Qed.

Example handles_ok_init : forall d id maxv maxd maxf faults, id < U32 ->
  handles_ok 0 (init_state d id maxv maxd maxf faults).
Proof.
  intros. split; [exact (proj1 (fresh_inv_init d id maxv maxd maxf faults H))|].
  repeat split; constructor.
Qed.

(* a successfully closed handle is no longer in its table (given no duplicates), so by the
   stale-handle theorems every later call that takes it is refused with BadHandle *)
Theorem C08_closed_dir_handle_stale : forall h s out s',
  NoDup (dids s) -> step (CloseDir h) s = (Ok out, s') -> no_dir h s'.
Proof.
  intros h s out s' Hnd E. cbn [step] in E. apply lift_ok_inv in E. destruct E as (a & E & _).
  unfold close_dir in E. destruct (s_lock s) eqn:Hl.
  { rewrite (locked_held _ s Hl) in E. discriminate. }
  rewrite (locked_free _ s Hl) in E. unfold bind in E. rewrite get_dir_by_id_eq in E.
  destruct (find_idx _ _ _) as [i|] eqn:Ef; [|discriminate].
  unfold modify in E. injection E as _ <-.
  apply find_idx_some in Ef. destruct Ef as (_ & _ & x & Hx & Hp). rewrite Nat.sub_0_r in Hx.
  apply N.eqb_eq in Hp. intros d Hd Hid. cbn [s_dirs set_s_dirs] in Hd.
  apply (swap_remove_gone d_id (s_dirs s) i x Hnd Hx). rewrite Hp, <- Hid. apply in_map. exact Hd.
Qed.

(* what close_file does: flush (tables keep their shape), then remove the entry *)
Definition close_file_post (h : N) (s : st) (out : outcome unit) (s' : st) : Prop :=
  out = Panic \/ out = OutOfFuel \/
  exists s1, same_tables_shape s s1 /\
    ((out = Err BadHandle /\ s' = s1 /\ find_idx (fun f => f_id f =? h) (s_files s1) 0 = None) \/
     (exists i, find_idx (fun f => f_id f =? h) (s_files s1) 0 = Some i /\
                s' = set_s_files s1 (swap_remove (s_files s1) i))).

Lemma close_file_run h s out s' : s_lock s = false -> close_file h s = (out, s') ->
  close_file_post h s out s'.
Proof.
  intros Hl E. unfold close_file in E. unfold bind at 1 in E. unfold try in E.
  destruct (flush_file h s) as [o1 s1] eqn:E1.
  pose proof (keeps_frame _ (fun s0 => keeps_flush_file s0 h) _ _ _ E1) as H1.
  assert (Hl1 : s_lock s1 = false) by (destruct H1 as (_ & _ & _ & _ & Hl1 & _); congruence).
  assert (Htail : forall r : unit + err, locked (fi <- get_file_by_id h ;;
            modify (fun s => set_s_files s (swap_remove (s_files s) fi)) ;;;
            match r with inl _ => ret tt | inr e => fail e end) s1 = (out, s') ->
     close_file_post h s out s').
  { intros r E2. right. right. exists s1. split; [exact H1|].
    rewrite (locked_free _ s1 Hl1) in E2. unfold bind at 1 in E2. rewrite get_file_by_id_eq in E2.
    destruct (find_idx _ _ _) as [i|] eqn:Ef.
    - right. exists i. split; [reflexivity|]. unfold bind, modify in E2.
      destruct r; inversion E2; reflexivity.
    - left. inversion E2. auto. }
  destruct o1 as [a|e| |].
  - exact (Htail (inl a) E).
  - exact (Htail (inr e) E).
  - inversion E. left. reflexivity.
  - inversion E. right. left. reflexivity.
Qed.

Theorem C08_closed_file_handle_stale : forall h s out s',
  NoDup (fids s) -> step (CloseFile h) s = (Ok out, s') -> no_file h s'.
Proof.
  intros h s out s' Hnd E. cbn [step] in E. apply lift_ok_inv in E. destruct E as (a & E & _).
  destruct (s_lock s) eqn:Hl.
  { rewrite (close_file_locked h s Hl) in E. discriminate. }
  destruct (close_file_run h s _ _ Hl E) as [H|[H|(s1 & Hs & [(H & _)|(i & Ef & ->)])]]; try discriminate.
  assert (Hnd1 : NoDup (fids s1)) by (destruct Hs as (_ & _ & F & _); rewrite F; exact Hnd).
  apply find_idx_some in Ef. destruct Ef as (_ & _ & x & Hx & Hp). rewrite Nat.sub_0_r in Hx.
  apply N.eqb_eq in Hp. intros f Hf Hid. cbn [s_files set_s_files] in Hf.
  apply (swap_remove_gone f_id (s_files s1) i x Hnd1 Hx). rewrite Hp, <- Hid. apply in_map. exact Hf.
Qed.

(* closing a file frees its slot, whether or not the flush inside succeeded (unless it
   panicked): the file table is one shorter, the other tables keep their ids *)
Theorem C08_close_file_frees : forall h s out s', s_lock s = false ->
  (exists f, In f (s_files s) /\ f_id f = h) ->
  close_file h s = (out, s') -> out <> Panic -> out <> OutOfFuel ->
  length (s_files s') = (length (s_files s) - 1)%nat /\ vids s' = vids s /\ dids s' = dids s.
Proof.
  intros h s out s' Hl (f & Hin & Hid) E Hp Ho.
  destruct (close_file_run h s _ _ Hl E) as [H|[H|(s1 & Hs & Hcase)]]; try contradiction.
  destruct Hs as (V & D & F & _).
  assert (Hex : exists x, In x (s_files s1) /\ (f_id x =? h) = true).
  { assert (Hi : In h (fids s1)) by (rewrite F; unfold fids; rewrite <- Hid; apply in_map; exact Hin).
    unfold fids in Hi. apply in_map_iff in Hi. destruct Hi as (x & Hx1 & Hx2).
    exists x. split; [exact Hx2 | apply N.eqb_eq; exact Hx1]. }
  destruct (find_idx_exists _ _ Hex 0) as (j & Hj & Hlt & _). rewrite Nat.sub_0_r in Hlt.
  destruct Hcase as [(_ & _ & Hnone)|(i & Ef & ->)]; [congruence|].
  rewrite Hj in Ef. injection Ef as <-.
  unfold vids, dids in *. st_cbn. rewrite swap_remove_length by exact Hlt.
  unfold fids in F. rewrite (map_eq_length _ _ _ F). auto.
Qed.

(* ================================================================== assumptions *)
Print Assumptions C08_reentrant.
Print Assumptions C08_reentrant_excluded.
Print Assumptions C08_reentrant_no_effect.
Print Assumptions C08_iterate_holds_lock.
Print Assumptions C08_reentrant_in_callback.
Print Assumptions C08_reentrant_in_callback_state.
Print Assumptions C08_query_truthful.
Print Assumptions C08_stale_file_handle.
Print Assumptions C08_stale_file_handle_io.
Print Assumptions C08_stale_dir_handle.
Print Assumptions C08_stale_vol_handle.
Print Assumptions C08_root_stale_refuted.
Print Assumptions step_effect.
Print Assumptions C08_limits.
Print Assumptions C08_limits_constant.
Print Assumptions C08_limit_errors.
Print Assumptions C08_volume_rules.
Print Assumptions C08_close_dir_frees.
Print Assumptions step_handle.
Print Assumptions C08_fresh.
Print Assumptions C08_wrap_refuted_state.
Print Assumptions C08_handles_ok_step.
Print Assumptions C08_closed_dir_handle_stale.
Print Assumptions C08_closed_file_handle_stale.
Print Assumptions C08_close_file_frees.

(* ================================================================== addendum: closing a volume frees its slot *)
(* a projection of the state that a computation leaves alone *)
Definition fixes {X A} (f : st -> X) (m : M A) : Prop := forall s o s', m s = (o, s') -> f s' = f s.

Lemma fixes_bind {X A B} (f : st -> X) (m : M A) (k : A -> M B) :
  fixes f m -> (forall a, fixes f (k a)) -> fixes f (bind m k).
Proof.
  intros Hm Hk s o s' E. unfold bind in E.
  destruct (m s) as [[a|e| |] s1] eqn:Em; pose proof (Hm _ _ _ Em) as H1.
  - rewrite (Hk a _ _ _ E). exact H1.
  - inversion E; subst; exact H1.
  - inversion E; subst; exact H1.
  - inversion E; subst; exact H1.
Qed.
Lemma fixes_try {X A} (f : st -> X) (m : M A) : fixes f m -> fixes f (try m).
Proof.
  intros Hm s o s' E. unfold try in E.
  destruct (m s) as [[a|e| |] s1] eqn:Em; pose proof (Hm _ _ _ Em) as H1; inversion E; subst; exact H1.
Qed.
Lemma fixes_pure {X A} (f : st -> X) (m : M A) : (forall s, snd (m s) = s) -> fixes f m.
Proof. intros H s o s' E. pose proof (H s) as H1. rewrite E in H1. cbn in H1. subst. reflexivity. Qed.
Lemma fixes_modify {X} (f : st -> X) g : (forall s, f (g s) = f s) -> fixes f (modify g).
Proof. intros H s o s' E. inversion E; subst. apply H. Qed.

Definition the_tables (s : st) := (s_vols s, s_dirs s, s_files s).

Ltac fixes_step :=
  match goal with
  | |- fixes _ (bind _ _) => apply fixes_bind; [|intros ?]
  | |- fixes _ (try _) => apply fixes_try
  | |- fixes _ (modify _) => apply fixes_modify; intros ?; reflexivity
  | |- fixes _ (ret _) => apply fixes_pure; intros ?; reflexivity
  | |- fixes _ (fail _) => apply fixes_pure; intros ?; reflexivity
  | |- fixes _ panic => apply fixes_pure; intros ?; reflexivity
  | |- fixes _ get => apply fixes_pure; intros ?; reflexivity
  | |- fixes _ (if ?b then _ else _) => destruct b
  | |- fixes _ (match ?x with _ => _ end) => destruct x
  | |- fixes _ _ => solve [auto 2]
  end.

Lemma fixes_dev_read i : fixes the_tables (dev_read i).
Proof. intros s o s' E. unfold dev_read in E. destruct (faulty s); inversion E; subst; reflexivity. Qed.
Lemma fixes_dev_write i b : fixes the_tables (dev_write i b).
Proof. intros s o s' E. unfold dev_write in E. destruct (faulty s); inversion E; subst; reflexivity. Qed.
Lemma fixes_cache_read i : fixes the_tables (cache_read i).
Proof. pose proof fixes_dev_read. unfold cache_read. repeat fixes_step. Qed.
Lemma fixes_write_back : fixes the_tables write_back.
Proof. pose proof fixes_dev_write. unfold write_back. repeat fixes_step. Qed.
Lemma fixes_get_vol vi : fixes the_tables (get_vol vi).
Proof. intros s o s' E. rewrite get_vol_eq in E. destruct (nth_error _ _); inversion E; subst; reflexivity. Qed.

(* update_info_sector writes to the medium but leaves the three tables exactly as they are *)
Lemma fixes_update_info_sector vi : fixes the_tables (update_info_sector vi).
Proof.
  pose proof fixes_cache_read. pose proof fixes_write_back. pose proof fixes_get_vol.
  unfold update_info_sector, cache_modify. repeat fixes_step.
Qed.

(* C08: a successful CloseVol leaves the volume table exactly one shorter - the entry with
   that id is removed (the last entry takes its place) and, ids being distinct, the id is
   gone - and the directory and file tables are untouched *)
Theorem C08_close_vol_frees : forall h s out s',
  step (CloseVol h) s = (Ok out, s') ->
  (exists i x, nth_error (s_vols s) i = Some x /\ v_id x = h /\ s_vols s' = swap_remove (s_vols s) i) /\
  length (s_vols s') = (length (s_vols s) - 1)%nat /\
  s_dirs s' = s_dirs s /\ s_files s' = s_files s /\
  (NoDup (vids s) -> no_vol h s').
Proof.
  intros h s out s' E. cbn [step] in E. apply lift_ok_inv in E. destruct E as (a & E & _).
  unfold close_volume in E. destruct (s_lock s) eqn:Hl.
  { rewrite (locked_held _ s Hl) in E. discriminate. }
  rewrite (locked_free _ s Hl), bind_get in E.
  destruct (existsb _ (s_files s)); [discriminate|].
  destruct (existsb _ (s_dirs s)); [discriminate|].
  unfold bind at 1 in E. rewrite get_volume_by_id_eq in E.
  destruct (find_idx _ _ _) as [vi|] eqn:Ef; [|discriminate].
  unfold bind in E. destruct (update_info_sector vi s) as [o1 s1] eqn:E1.
  pose proof (fixes_update_info_sector vi _ _ _ E1) as Ht. unfold the_tables in Ht.
  injection Ht as Hv Hd Hf.
  destruct o1; try discriminate. unfold modify in E. injection E as _ <-.
  apply find_idx_some in Ef. destruct Ef as (_ & Hlt & x & Hx & Hp). rewrite Nat.sub_0_r in Hx, Hlt.
  apply N.eqb_eq in Hp. cbn [s_vols s_dirs s_files set_s_vols]. rewrite Hv.
  split; [exists vi, x; auto|]. split; [apply swap_remove_length; exact Hlt|].
  split; [exact Hd|]. split; [exact Hf|].
  intros Hnd v Hin Hid.
  apply (swap_remove_gone v_id (s_vols s) vi x Hnd Hx). rewrite Hp, <- Hid. apply in_map. exact Hin.
Qed.

Print Assumptions C08_close_vol_frees.
