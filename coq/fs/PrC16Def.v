(* C16 over whole histories - definitions and the assembly lemma (per-operation proofs in PrC16*.v).
   "Whenever an API call has returned, every FAT copy on a multi-FAT volume is byte-identical to the
   first.  On FAT32, after a flush or volume close the stored free-cluster count has changed by exactly
   the change in the number of free FAT entries since mount (so a count that was correct stays correct
   and one marked unknown stays unknown), and the next-free hint is unknown or a cluster inside the
   volume.  A wrong or out-of-range record found at mount never makes an operation fail or panic."
   The last sentence is part of C03_history already (no call panics, whatever v_free / v_next_free hold:
   fs_inv does not constrain them beyond hint_ok). *)
From Coq Require Import NArith ZArith List Bool Lia.
From SdFs Require Import FsTypes FsBase FsFat FsMgr FsLemmas PrBase PrFat PrAlloc PrDir PrSeek PrAllocEffect
  PrRw PrWrite PrFileSeq PrMulti PrEntry PrChain PrCount PrWf PrOpenClose PrGlobalDef.
From SdFs Require PrHandles PrOrder PrBounds PrGlobal.
Import ListNotations.
Open Scope N_scope.

(* every FAT copy identical to the first *)
Definition mirror_inv (fsz : N) (s : st) : Prop :=
  forall v, In v (s_vols s) -> fat_mirrored (s_disk s) v fsz.
(* the in-memory free count is the number of free FAT entries *)
Definition truthful_inv (s : st) : Prop := forall v, In v (s_vols s) -> truthful (s_disk s) v.
(* ... or is marked unknown *)
Definition unknown_inv (s : st) : Prop := forall v, In v (s_vols s) -> v_free v = None.
(* the next-free hint is unknown or a cluster number of the volume (one past the last cluster is what
   the allocator leaves after handing out the last cluster; state precisely what the code guarantees) *)
Definition hint_in (v : vol) : Prop := forall c, v_next_free v = Some c -> 2 <= c <= v_clusters v + 2.
Definition hint_inv (s : st) : Prop := forall v, In v (s_vols s) -> hint_in v.
(* what flush / close leave in the FAT32 information sector: exactly the in-memory record *)
Definition info_matches (s : st) : Prop :=
  forall v, In v (s_vols s) -> v_fat32 v = true ->
    (forall k, v_free v = Some k -> le32 (disk_get (s_disk s) (v_info v)) 488 = k) /\
    (forall c, v_next_free v = Some c -> le32 (disk_get (s_disk s) (v_info v)) 492 = c).

(* the per-operation obligation *)
Definition step_c16 (fsz vid : N) (o : op) : Prop :=
  forall s r s', fs_inv fsz vid s -> id_fresh s -> op_known_ok o -> step o s = (r, s') ->
    (mirror_inv fsz s -> mirror_inv fsz s') /\
    (truthful_inv s -> truthful_inv s') /\
    (unknown_inv s -> unknown_inv s') /\
    (hint_inv s -> hint_inv s').

(* ... and for the two calls that store the record: after a successful Flush / CloseFile of a dirty file
   the FAT32 information sector holds the in-memory record *)
Definition stores_record (fsz vid h : N) : Prop :=
  forall o s r s', (o = Flush h \/ o = CloseFile h) -> fs_inv fsz vid s -> id_fresh s ->
    step o s = (Ok r, s') ->
    (exists f, In f (s_files s) /\ f_id f = h /\ f_dirty f = true) -> info_matches s'.
