(* Property C11 - a block-device error is always reported
   This file contains only property theorems (each closed by `exact`), `Check` pins and
   `Print Assumptions`.  FULL STATEMENT (DESIGN.md 4 C11) is not yet proved for the whole
   layer-B model; what is proved here are the named mechanisms, for all inputs.  The gap is
   covered - visibly - by the correspondence check and the spec oracle (see evidence). *)
From Coq Require Import NArith ZArith List Bool.
From SdFs Require Import FsTypes FsBase FsFat FsMgr FsLemmas.
Import ListNotations.
Open Scope N_scope.


Theorem C11_bind_propagates_partial : forall (A B : Type) (m : M A) (k : A -> M B) s e s', m s = (Err e, s') -> bind m k s = (Err e, s').
Proof. exact @bind_err. Qed.

Print Assumptions C11_bind_propagates_partial.
