(* MODEL, layer B, second part of the public API (no proofs here):

   * VolumeManager::iterate_dir_lfn (src/volume_mgr.rs) over FatVolume::iterate_dir_lfn
     (src/fat/volume.rs): the same walk as iterate_dir (iterate_fat16 / iterate_fat32), but the callback
     sees the raw 32-byte slot next to the decoded entry and drives the SeqState machine and the LfnBuffer.
     The state machine, the buffer and the closure are NOT transcribed a second time: they are the ones of
     the lfn group (SdLfn.LfnModel.closure, tied to the crate by the C17 check); this file supplies the
     walk that feeds them and the manager-level prologue (lock, handle look-ups).
   * the RAII wrappers Volume / Directory / File (src/lib.rs, src/filesystem/directory.rs,
     src/filesystem/files.rs): every method forwards to the raw call of the same name (so it IS the base
     operation: [XOp]), except
       - Drop for File / Directory / Volume  = close_* with the result discarded,
       - Directory::change_dir               = open_dir, then close_dir(..).unwrap() of the old handle,
       - File::is_eof / length / offset      = file_eof / file_length / file_offset + expect("Corrupt file ID").

   [xop] extends the operation alphabet of FsMgr.op with these; [xstep] interprets it. *)
From Coq Require Import NArith ZArith List Bool.
From SdFs Require Import FsTypes FsBase FsFat FsMgr.
From SdLfn Require LfnModel.
Import ListNotations.
Open Scope N_scope.

(* ---- the walk of iterate_fat16 / iterate_fat32 with the raw slot kept next to the entry ---- *)
Definition rawent : Type := (dirent * list N)%type.

Fixpoint iter_slots_raw (n : nat) (fat32 : bool) (b : block) (blk i : N) (acc : list rawent) : bool * list rawent :=
  match n with
  | O => (false, acc)
  | S n' =>
      let sl := slot b i in
      if is_end sl then (true, acc)
      else if is_valid sl then iter_slots_raw n' fat32 b blk (i + 1) ((get_entry fat32 sl blk (i * 32), sl) :: acc)
      else iter_slots_raw n' fat32 b blk (i + 1) acc
  end.
Fixpoint iter_blocks_raw (n : nat) (fat32 : bool) (i : N) (acc : list rawent) : M (bool * list rawent) :=
  match n with
  | O => ret (false, acc)
  | S n' => b <- cache_read i ;;
            match iter_slots_raw 16 fat32 b i 0 acc with
            | (true, acc') => ret (true, acc')
            | (false, acc') => iter_blocks_raw n' fat32 (i + 1) acc'
            end
  end.
Fixpoint iter_walk_raw (fuel : nat) (vi : nat) (cluster : N) (acc : list rawent) : M (list rawent) :=
  match fuel with
  | O => out_of_fuel
  | S f =>
      v <- get_vol vi ;;
      first <- cluster_to_block v cluster ;;
      let fixed_root := negb (v_fat32 v) && (cluster =? CL_ROOT) in
      let size := if fixed_root then from_bytes (v_root_entries v * 32) else v_spc v in
      _ <- add32 first size ;;
      r <- iter_blocks_raw (N.to_nat size) (v_fat32 v) first acc ;;
      let '(stop, acc') := r in
      if stop then ret acc' else
      if fixed_root then ret acc' else
      nc <- try (next_cluster v cluster) ;;
      match nc with
      | inl n => iter_walk_raw f vi n acc'
      | inr DeviceError => fail DeviceError
      | inr _ => ret acc'
      end
  end.
Definition iterate_dir_raw (vi : nat) (dir_cluster : N) : M (list rawent) :=
  v <- get_vol vi ;;
  r <- iter_walk_raw (walk_fuel v) vi (dir_first_cluster v dir_cluster) [] ;;
  ret (rev r).

(* ---- the closure of FatVolume::iterate_dir_lfn, run over the slots the walk delivers ---- *)
Definition lfn_report : Type := (dirent * option (list N))%type.

Fixpoint lfn_fold (raw : list rawent) (ss : LfnModel.seqstate) (st : LfnModel.lfn) : option (list lfn_report) :=
  match raw with
  | [] => Some []
  | (e, sl) :: r =>
      match LfnModel.closure ss st sl with
      | LfnModel.Panic => None
      | LfnModel.Ok (ss', st', out) =>
          match lfn_fold r ss' st' with
          | None => None
          | Some outs => Some (map (fun rp : LfnModel.report => (e, snd rp)) out ++ outs)
          end
      end
  end.

(* VolumeManager::iterate_dir_lfn with an LfnBuffer over [nbytes] bytes of storage *)
Definition mgr_iterate_lfn (d : N) (nbytes : N) : M (list lfn_report) := locked (
  di <- get_dir_by_id d ;;
  dd <- get_dir di ;;
  vi <- get_volume_by_id (d_vol dd) ;;
  raw <- iterate_dir_raw vi (d_cluster dd) ;;
  match lfn_fold raw LfnModel.Waiting (LfnModel.lfn_new (repeat 0 (N.to_nat nbytes))) with
  | None => panic
  | Some l => ret l
  end).

(* ---- the RAII wrappers ---- *)
(* impl Drop for File / Directory / Volume: `_ = self.volume_mgr.close_xxx(self.raw_xxx)` *)
Definition drop_file (f : N) : M unit := _ <- try (close_file f) ;; ret tt.
Definition drop_dir (d : N) : M unit := _ <- try (close_dir d) ;; ret tt.
Definition drop_volume (v : N) : M unit := _ <- try (close_volume v) ;; ret tt.

(* Directory::change_dir: returns the handle the wrapper holds afterwards *)
Definition change_dir (d : N) (name : list N) : M N :=
  d' <- open_dir d name ;;
  r <- try (close_dir d) ;;
  match r with
  | inl _ => ret d'
  | inr _ => panic                       (* .unwrap() *)
  end.

(* File::is_eof / length / offset: .expect("Corrupt file ID") *)
Definition expect {A} (m : M A) : M A :=
  r <- try m ;; match r with inl a => ret a | inr _ => panic end.
Definition w_is_eof (f : N) : M bool := expect (file_eof f).
Definition w_length (f : N) : M N := expect (file_length f).
Definition w_offset (f : N) : M N := expect (file_offset f).

(* ---- the extended operation alphabet ---- *)
Inductive xres :=
  | XR (r : res)
  | XRLfn (l : list lfn_report).

Inductive xop :=
  | XOp (o : op)
  | XIterLfn (d : N) (nbytes : N)
  | XDropFile (f : N) | XDropDir (d : N) | XDropVol (v : N)
  | XChangeDir (d : N) (name : list N)
  | XWEof (f : N) | XWLength (f : N) | XWOffset (f : N).

Definition xlift {A} (f : A -> xres) (m : M A) : M xres := a <- m ;; ret (f a).

Definition xstep (o : xop) : M xres :=
  match o with
  | XOp o' => xlift XR (step o')
  | XIterLfn d n => xlift XRLfn (mgr_iterate_lfn d n)
  | XDropFile f => xlift (fun _ => XR RUnit) (drop_file f)
  | XDropDir d => xlift (fun _ => XR RUnit) (drop_dir d)
  | XDropVol v => xlift (fun _ => XR RUnit) (drop_volume v)
  | XChangeDir d name => xlift (fun h => XR (RHandle h)) (change_dir d name)
  | XWEof f => xlift (fun b => XR (RBool b)) (w_is_eof f)
  | XWLength f => xlift (fun n => XR (RNum n)) (w_length f)
  | XWOffset f => xlift (fun n => XR (RNum n)) (w_offset f)
  end.

Fixpoint xrun_ops (ops : list xop) (s : st) : list (outcome xres) * st :=
  match ops with
  | [] => ([], s)
  | o :: rest => let '(r, s1) := xstep o s in
                 let '(rs, s') := xrun_ops rest s1 in (r :: rs, s')
  end.
