(* PROOFS: C10 / C09 for Write and IoWrite, part 2: the runs.
   1  one iteration of write_loop as a RUN with its device writes (PrWrite / PrGlobalWrite state
      the iterations as equations between computations; here the intermediate states are
      explicit and carry the log): in place - one data-block write into a cluster of the chain
      (wl_run_in_place); at the end of the chain - a lookup that only reads, alloc_cluster behind
      the last cluster, a second lookup, one data-block write into the new cluster
      (wl_run_at_end); or DiskFull, nothing written.  The facts about the state after the
      iteration are those of PrGlobalWrite.gw_step_in_place / gw_step_at_end (the state is
      identified by running the equation with fuel 0).
   2  write_loop, any fuel, any outcome: every crashed medium is wr_rel-related to the medium at
      the start of the loop (wl_crash)
   3  mgr_write on a writable handle, every outcome (mw_crash) *)
From Coq Require Import NArith ZArith List Bool Lia Arith ZifyClasses ZifyInst Zify FMapPositive Permutation.
From SdFs Require Import FsTypes FsBase FsFat FsMgr FsLemmas PrBase PrFat PrAlloc PrDir PrSeek PrAllocEffect
  PrRw PrWrite PrFileSeq PrMulti PrEntry PrChain PrCount PrWf PrOpenClose PrGlobalDef PrGlobalWrite.
From SdFs Require PrModes PrHandles PrBounds PrOrder PrGlobalOpen.
From SdFs Require Import PrCrash PrCrashDef PrCrashDef2 PrCrashDef3 PrCrashDef4 PrCrashWrite.
Import ListNotations.
Open Scope N_scope.
Local Arguments N.mul : simpl never.
Local Arguments N.add : simpl never.
Local Arguments N.sub : simpl never.
Local Arguments N.div : simpl never.
Local Arguments N.modulo : simpl never.
Local Arguments N.min : simpl never.
Local Arguments N.max : simpl never.
Local Ltac Zify.zify_post_hook ::= Z.to_euclidean_division_equations.

(* ================================================================== 0. runs and their writes *)
Lemma quiet_tr_ext {A} (m : M A) s r s' : quiet m -> m s = (r, s') -> tr_ext s s' [].
Proof.
  intros Q E. destruct (Q s r s' E) as (Hd & new & Et & W). exists new. split; [exact Et|].
  rewrite (writes_of_nil_dwr new W). split; [reflexivity|exact Hd].
Qed.

Lemma same_tr_ext s s' : s_trace s' = s_trace s -> s_disk s' = s_disk s -> tr_ext s s' [].
Proof. intros Et Ed. exists []. split; [exact Et|]. split; [reflexivity|exact Ed]. Qed.

(* a run that logs one write to block i and whose medium is the old one with block i set *)
Lemma one_write_tr_ext a b i nb : traced a b -> PrOrder.tsteps a b [i] ->
  s_disk b = disk_set (s_disk a) i nb -> tr_ext a b [(i, nb)].
Proof.
  intros T S D. pose proof (traced_tr_ext a b T) as X. pose proof (tsteps_step_writes a b [i] S) as M.
  destruct (step_writes a b) as [|[i0 b0] [|w ws]]; cbn [map fst] in M; try discriminate M.
  injection M as ->.
  pose proof (tr_ext_disk _ _ _ X) as D'. cbn in D'. rewrite D in D'.
  assert (E : b0 = nb).
  { pose proof (f_equal (fun d => disk_get d i) D') as G. cbn beta in G.
    rewrite !disk_get_set_same in G. symmetry. exact G. }
  subst b0. exact X.
Qed.

Lemma tm_chunk blk boff (guard : bool) (chunk : list N) :
  tm ((if guard then blank_mut blk else (_ <- cache_read blk ;; ret tt)) ;;;
      cache_modify (fun b => set_bytes b boff chunk) ;;; write_back).
Proof.
  apply tm_bind; [destruct guard; [apply tm_blank_mut|apply tm_bind; [apply tm_cache_read|intros; apply tm_ret]]|].
  intros _. apply tm_bind; [apply tm_cache_modify|]. intros _. apply tm_write_back.
Qed.

Lemma write_loop_0 fi vi data s : write_loop 0 fi vi data s = (OutOfFuel, s).
Proof. reflexivity. Qed.

(* ================================================================== 1. one iteration as a run *)
Section WlRun.
  Variable fsz : N.
  Variable vi fi : nat.
  Variable first : N.

  Lemma wl_run_in_place v ch f data s :
    wl_inv fsz vi fi first v ch f s -> data <> [] -> f_offset f < U32 ->
    f_offset f < N.of_nat (length ch) * bytes_per_cluster v ->
    let tc := wr_to_copy (f_offset f) data in
    exists f' s' cj blk nb,
      (forall fu, write_loop (S fu) fi vi data s = write_loop fu fi vi (skipn (N.to_nat tc) data) s') /\
      wl_inv fsz vi fi first v ch f' s' /\ f_offset f' = f_offset f + tc /\
      In cj ch /\ In blk (cluster_blocks v cj) /\ tr_ext s s' [(blk, nb)].
  Proof.
    intros Hinv Hdata H32 Hin tc.
    pose proof Hinv as [Hpre Hfit Hspc Hwf (fuel0 & Hch) Hfi Hfirst Hcur Hoff Hsize].
    pose proof Hpre as ((Hnf & Hc & Hvi & Hlen) & L & Hh).
    pose proof (fl_vol v fsz L) as Hv.
    set (B := bytes_per_cluster v) in *.
    assert (HB : B = v_spc v * 512) by reflexivity.
    destruct (find_data_on_disk_spec v (s_disk s) first fuel0 ch Hv Hspc Hch vi (f_cur_off f, f_cur_cluster f)
                (f_offset f) s Hvi eq_refl Hnf Hc (or_introl Hcur) Hin H32) as (cj & s1 & Hn & Hrun & Hro).
    destruct Hro as (Hd1 & Hc1 & Hnf1 & Hm1).
    fold B in Hn, Hrun.
    set (off := f_offset f) in *.
    set (blk := cluster_first_block v cj + (off mod B) / 512) in *.
    destruct (write_block_step blk (off mod 512) data s1 Hnf1 Hc1
                ltac:(rewrite Hd1; apply Hwf) ltac:(lia))
      as (s2 & Hw & Hd2 & _ & Hc2 & Hnf2 & Hm2).
    cbv zeta in Hw, Hd2. fold (wr_to_copy off data) in Hw, Hd2. fold tc in Hw, Hd2.
    set (f' := wr_file f (off / B * B, cj) tc).
    set (s' := upd_file s2 fi f').
    assert (Hfiles2 : s_files s2 = s_files s)
      by (rewrite (same_mgr_files _ _ Hm2), (same_mgr_files _ _ Hm1); reflexivity).
    assert (Eq : forall fu, write_loop (S fu) fi vi data s = write_loop fu fi vi (skipn (N.to_nat tc) data) s').
    { intros fu. rewrite (write_loop_unfold fu fi vi data s Hdata).
      rewrite (bind_ok _ _ _ _ _ (get_file_some fi f s Hfi)). cbv zeta. rewrite Hfirst. fold off.
      rewrite (bind_ok _ _ _ _ _ Hrun). cbv beta iota. rewrite PrRw.bind_ret.
      unfold wl_tail. cbv beta iota zeta. fold (wr_to_copy off data). fold tc.
      rewrite seq_assoc3. rewrite (bind_ok _ _ _ _ _ Hw).
      rewrite (bind_ok _ _ _ _ _ (get_file_some fi f s2 ltac:(rewrite Hfiles2; exact Hfi))).
      fold off. rewrite put_file_ok'. reflexivity. }
    destruct (gw_step_in_place fsz vi fi first 0 v ch f data s Hinv Hdata H32 Hin) as (f0 & s0 & E0 & Hinv0 & Hoff0 & _).
    fold off tc in E0, Hoff0. rewrite (Eq 0%nat), !write_loop_0 in E0. injection E0 as <-.
    destruct (chain_of_links _ _ _ _ _ Hch _ cj Hn) as (R1 & R2 & _).
    assert (Hq : (off mod B) / 512 < v_spc v) by (apply div512_lt; rewrite HB; apply N.mod_lt; lia).
    exists f0, s', cj, blk. eexists. split; [exact Eq|]. split; [exact Hinv0|]. split; [exact Hoff0|].
    split; [exact (nth_error_In _ _ Hn)|]. split; [apply In_cluster_blocks_intro; exact Hq|].
    (* the log *)
    pose proof (quiet_tr_ext _ s _ s1 (quiet_find_data_on_disk _ _ _ _) Hrun) as T1.
    destruct (PrBounds.chunk_ws blk _ _ _ s1 _ s2 (conj Hnf1 Hc1) Hw) as (_ & (S2 & _) & _ & _).
    pose proof (one_write_tr_ext s1 s2 blk _ (tm_chunk _ _ _ _ s1 _ s2 Hw) S2 Hd2) as T2.
    assert (T3 : tr_ext s2 s' []) by (apply same_tr_ext; reflexivity).
    rewrite Hd1 in T2.
    exact (tr_ext_nil_trans _ _ _ _ T1 (tr_ext_trans_nil _ _ _ _ T2 T3)).
  Qed.

  Lemma wl_run_at_end v ch f data s :
    wl_inv fsz vi fi first v ch f s -> data <> [] -> f_offset f < U32 ->
    f_offset f = N.of_nat (length ch) * bytes_per_cluster v ->
    let tc := wr_to_copy (f_offset f) data in
    (exists v' c f' s1 s2 s' pre cl nb,
       (forall fu, write_loop (S fu) fi vi data s = write_loop fu fi vi (skipn (N.to_nat tc) data) s') /\
       wl_inv fsz vi fi first v' (ch ++ [c]) f' s' /\ f_offset f' = f_offset f + tc /\
       (exists nf fc, v' = vol_rebook v nf fc) /\
       (forall hs, fat_wf (s_disk s) v hs -> In first hs -> fat_wf (s_disk s') v hs) /\
       tr_ext s s1 [] /\ alloc_pre s1 vi v fsz /\ ch = pre ++ [cl] /\
       alloc_cluster vi (Some cl) false s1 = (Ok c, s2) /\
       tr_ext s2 s' [(cluster_first_block v c, nb)])
    \/ (exists s', (forall fu, write_loop (S fu) fi vi data s = (Err DiskFull, s')) /\
                   tr_ext s s' [] /\ s_files s' = s_files s).
  Proof.
    intros Hinv Hdata H32 Hend tc.
    pose proof Hinv as [Hpre Hfit Hspc Hwf (fuel0 & Hch) Hfi Hfirst Hcur Hoff Hsize].
    pose proof Hpre as ((Hnf & Hc & Hvi & Hlen) & L & Hh).
    pose proof (fl_vol v fsz L) as Hv.
    set (B := bytes_per_cluster v) in *.
    assert (HB : B = v_spc v * 512) by reflexivity.
    assert (HB0 : 0 < B) by (rewrite HB; lia).
    destruct (chain_last _ _ _ _ _ Hch) as (cl & Hcl & Hlen0).
    destruct (chain_last_entry _ _ _ _ _ _ Hch Hcl) as (Hclnz & Q1 & Q2).
    destruct (find_data_on_disk_eof v (s_disk s) first fuel0 ch Hv Hspc Hch vi (f_cur_off f, f_cur_cluster f)
                (f_offset f) s Hvi eq_refl Hnf Hc (or_introl Hcur) Hend H32)
      as (cl' & s1 & Hn1 & Hrun1 & Hro1).
    rewrite Hcl in Hn1. inversion Hn1; subst cl'. clear Hn1.
    pose proof (alloc_pre_ro vi v fsz s s1 Hpre Hro1) as Hpre1.
    pose proof (quiet_tr_ext _ s _ s1 (quiet_find_data_on_disk _ _ _ _) Hrun1) as T1.
    assert (Hprev : forall p, Some cl = Some p -> p < v_clusters v + 2)
      by (intros p E; inversion E; subst p; exact Q2).
    destruct (alloc_cluster_total vi v fsz (Some cl) false s1 Hpre1 Hprev) as (o & s2 & Ha & Hres).
    destruct Hres as [(-> & Hnone & Hd2 & Hm2 & T2 & Hst2)|(c & -> & Heff0)].
    { right. exists s2. split; [|split].
      - intros fu. rewrite (write_loop_unfold fu fi vi data s Hdata).
        rewrite (bind_ok _ _ _ _ _ (get_file_some fi f s Hfi)). cbv zeta. rewrite Hfirst.
        rewrite (bind_ok _ _ _ _ _ Hrun1). cbv beta iota. cbn [snd].
        rewrite bind_bind. rewrite (bind_ok _ _ _ _ _ (PrAlloc.try_err _ _ _ _ Ha)). reflexivity.
      - exact (tr_ext_nil_trans _ _ _ _ T1 T2).
      - rewrite (same_mgr_files _ _ Hm2). exact (same_mgr_files _ _ (proj2 (proj2 (proj2 Hro1)))). }
    left. clear Heff0.
    destruct (ext_eff_of_alloc vi v fsz first fuel0 ch cl s1 c s2 Hpre1 Hfit
                ltac:(rewrite (proj1 Hro1); exact Hwf) ltac:(rewrite (proj1 Hro1); exact Hch) Hcl Ha)
      as (Heff & AF & Hchain2).
    destruct Heff as [(nf & fc & Hvols2) (fuel2 & Hch2) Hnf2 Hc2 Hwf2 Hfiles2 Hdata2 Htab2].
    set (v' := vol_rebook v nf fc).
    assert (Hvi1 : nth_error (s_vols s1) vi = Some v)
      by (apply (same_mgr_vol s s1); [apply Hro1|exact Hvi]).
    assert (Hvi2 : nth_error (s_vols s2) vi = Some v')
      by (rewrite Hvols2; eapply nth_error_list_set_same; exact Hvi1).
    assert (Hch2' : chain_of (s_disk s2) v' first fuel2 = Some (ch ++ [c]))
      by (unfold v'; rewrite chain_of_rebook; exact Hch2).
    assert (Hcur2 : cursor_ok v' (ch ++ [c]) (N.of_nat (length ch - 1) * B, cl)).
    { exists (length ch - 1)%nat. split; [reflexivity|]. cbn [snd].
      rewrite nth_error_app1 by lia. exact Hcl. }
    assert (Hin2 : f_offset f < N.of_nat (length (ch ++ [c])) * bytes_per_cluster v').
    { change (bytes_per_cluster v') with B. rewrite app_length. cbn [length].
      replace (length ch + 1)%nat with (S (length ch)) by lia. rewrite of_nat_succ_mul. lia. }
    destruct (find_data_on_disk_spec v' (s_disk s2) first fuel2 (ch ++ [c]) (vol_ok_rebook v nf fc Hv)
                Hspc Hch2' vi (N.of_nat (length ch - 1) * B, cl) (f_offset f) s2 Hvi2 eq_refl Hnf2 Hc2
                (or_introl Hcur2) Hin2 H32) as (cj & s3 & Hn3 & Hrun3 & Hro3).
    change (bytes_per_cluster v') with B in Hn3, Hrun3.
    change (cluster_first_block v' cj) with (cluster_first_block v cj) in Hrun3.
    assert (E1 : f_offset f / B = N.of_nat (length ch)) by (rewrite Hend; apply N.div_mul; lia).
    assert (E2 : f_offset f mod B = 0) by (rewrite Hend; apply N.mod_mul; lia).
    assert (E3 : f_offset f mod 512 = 0) by (rewrite Hend, HB; apply mul_bpc_mod512).
    rewrite E1, Nat2N.id in Hn3. rewrite nth_error_app2, Nat.sub_diag in Hn3 by lia.
    cbn [nth_error] in Hn3. inversion Hn3; subst cj. clear Hn3.
    rewrite E1, E2, E3, <- Hend in Hrun3.
    change (0 / 512) with 0 in Hrun3. change (512 - 0) with 512 in Hrun3. rewrite N.add_0_r in Hrun3.
    destruct Hro3 as (Hd3 & Hc3 & Hnf3 & Hm3).
    assert (Hfiles3 : s_files s3 = s_files s).
    { rewrite (same_mgr_files _ _ Hm3), Hfiles2. apply same_mgr_files. apply Hro1. }
    set (blk := cluster_first_block v c).
    destruct (write_block_step blk 0 data s3 Hnf3 Hc3 ltac:(rewrite Hd3; apply Hwf2) ltac:(lia))
      as (s4 & Hw & Hd4 & _ & Hc4 & Hnf4 & Hm4).
    cbv zeta in Hw, Hd4. change (512 - 0) with 512 in Hw, Hd4.
    assert (Etc : N.min 512 (N.of_nat (length data)) = tc)
      by (symmetry; apply wr_to_copy_aligned; exact E3).
    rewrite Etc in Hw, Hd4.
    set (f' := wr_file f (f_offset f, c) tc).
    set (s' := upd_file s4 fi f').
    assert (Hfiles4 : s_files s4 = s_files s) by (rewrite (same_mgr_files _ _ Hm4); exact Hfiles3).
    assert (Eq : forall fu, write_loop (S fu) fi vi data s = write_loop fu fi vi (skipn (N.to_nat tc) data) s').
    { intros fu. rewrite (write_loop_unfold fu fi vi data s Hdata).
      rewrite (bind_ok _ _ _ _ _ (get_file_some fi f s Hfi)). cbv zeta. rewrite Hfirst.
      rewrite (bind_ok _ _ _ _ _ Hrun1). cbv beta iota. cbn [snd].
      rewrite bind_bind. rewrite (bind_ok _ _ _ _ _ (PrAlloc.try_ok _ _ _ _ Ha)). cbv beta iota.
      fold B. rewrite bind_bind. rewrite (bind_ok _ _ _ _ _ Hrun3). cbv beta iota. rewrite PrRw.bind_ret.
      unfold wl_tail. cbv beta iota zeta. change (512 - 0) with 512. rewrite Etc.
      rewrite seq_assoc3. rewrite (bind_ok _ _ _ _ _ Hw).
      rewrite (bind_ok _ _ _ _ _ (get_file_some fi f s4 ltac:(rewrite Hfiles4; exact Hfi))).
      rewrite put_file_ok'. reflexivity. }
    destruct (gw_step_at_end fsz vi fi first 0 v ch f data s Hinv Hdata H32 Hend)
      as [(v0 & c0 & f0 & s0 & E0 & Hinv0 & Hoff0 & (nf0 & fc0 & Ev0) & Hfat0)|(s0 & E0 & _)].
    2:{ rewrite (Eq 0%nat), write_loop_0 in E0. discriminate E0. }
    fold tc in E0, Hoff0. rewrite (Eq 0%nat), !write_loop_0 in E0. injection E0 as <-.
    (* the new cluster named by gw_step_at_end is c *)
    destruct (af_range _ _ _ _ _ _ _ AF) as (R1 & R2 & R3).
    assert (Ec : c0 = c).
    { destruct (wi_chain _ _ _ _ _ _ _ _ Hinv0) as (fu0 & Hc0). rewrite Ev0, chain_of_rebook in Hc0.
      assert (Hd' : s_disk s' = disk_set (s_disk s2) (cluster_first_block v c + 0)
                                  (set_bytes (disk_get (s_disk s3) blk) 0 (firstn (N.to_nat tc) data))).
      { unfold s'. cbn [upd_file s_disk set_s_files]. rewrite Hd4, Hd3. unfold blk. rewrite N.add_0_r. reflexivity. }
      rewrite Hd' in Hc0. rewrite (chain_of_data_write _ v c 0 _ (layout_below_data v fsz L) R1) in Hc0.
      pose proof (chain_at_det _ _ _ _ _ (chain_at_any _ _ _ _ _ Hc0) (chain_at_any _ _ _ _ _ Hchain2)) as X.
      apply app_inv_head in X. injection X as ->. reflexivity. }
    subst c0.
    destruct (gw_last_split ch cl Hcl) as (pre & Epre).
    exists v0, c, f0, s1, s2, s', pre, cl. eexists.
    split; [exact Eq|]. split; [exact Hinv0|]. split; [exact Hoff0|]. split; [exists nf0, fc0; exact Ev0|].
    split; [exact Hfat0|]. split; [exact T1|]. split; [exact Hpre1|]. split; [exact Epre|]. split; [exact Ha|].
    pose proof (quiet_tr_ext _ s2 _ s3 (quiet_find_data_on_disk _ _ _ _) Hrun3) as T3.
    destruct (PrBounds.chunk_ws blk _ _ _ s3 _ s4 (conj Hnf3 Hc3) Hw) as (_ & (S4 & _) & _ & _).
    pose proof (one_write_tr_ext s3 s4 blk _ (tm_chunk _ _ _ _ s3 _ s4 Hw) S4 Hd4) as T4.
    assert (T5 : tr_ext s4 s' []) by (apply same_tr_ext; reflexivity).
    exact (tr_ext_nil_trans _ _ _ _ T3 (tr_ext_trans_nil _ _ _ _ T4 T5)).
  Qed.

  (* ================================================================== 2. the loop *)
  Theorem wl_crash : forall fuel data v ch f s,
    wl_inv fsz vi fi first v ch f s -> f_offset f + N.of_nat (length data) < U32 ->
    forall hs o sf, fat_wf (s_disk s) v hs -> In first hs ->
      write_loop fuel fi vi data s = (o, sf) ->
      crash_all (wr_rel v fsz hs first (s_disk s)) s sf.
  Proof.
    induction fuel as [|fu IH]; intros data v ch f s Hinv H32 hs o sf W Hin Hrun.
    { injection Hrun as _ <-. apply crash_all_quiet; [apply step_writes_same; reflexivity|exact (wr_rel_refl _ _ _ _ _ W)]. }
    destruct data as [|x t] eqn:Edata.
    { injection Hrun as _ <-. apply crash_all_quiet; [apply step_writes_same; reflexivity|exact (wr_rel_refl _ _ _ _ _ W)]. }
    rewrite <- Edata in *. assert (Hdata : data <> []) by (rewrite Edata; discriminate).
    clear x t Edata.
    pose proof Hinv as [Hpre Hfit Hspc Hwf (fuel0 & Hch) Hfi Hfirst Hcur Hoff Hsize].
    pose proof Hpre as (_ & L & _).
    set (off := f_offset f) in *. set (tc := wr_to_copy off data).
    assert (Htc : tc <= N.of_nat (length data)) by apply wr_to_copy_le.
    assert (Hrest_len : N.of_nat (length (skipn (N.to_nat tc) data)) = N.of_nat (length data) - tc)
      by (rewrite skipn_length; lia).
    pose proof (chain_at_any _ _ _ _ _ Hch) as Hcat.
    destruct (N.lt_ge_cases off (N.of_nat (length ch) * bytes_per_cluster v)) as [Hlt|Hge].
    - destruct (wl_run_in_place v ch f data s Hinv Hdata ltac:(fold off; clear - H32; lia) Hlt)
        as (f1 & s1 & cj & blk & nb & Eq & Hinv1 & Hoff1 & Hcj & Hblk & T).
      fold off tc in Eq, Hoff1. rewrite (Eq fu) in Hrun.
      pose proof (tr_ext_disk _ _ _ T) as Hd1. cbn in Hd1.
      pose proof (wr_rel_data_write v fsz hs first (s_disk s) ch cj blk nb L W Hin Hcat Hcj Hblk) as R1.
      rewrite <- Hd1 in R1.
      assert (W1 : fat_wf (s_disk s1) v hs).
      { destruct (In_cluster_blocks _ _ _ Hblk) as (q & _ & Eq').
        destruct (chain_at_mem _ v first ch cj Hcat Hcj) as (C1 & _).
        apply (fat_wf_ext (s_disk s)); [|exact W]. intros j Hj. rewrite Hd1, Eq'.
        apply gw_fat_area_data_write; [exact (layout_below_data v fsz L)|exact C1|exact Hj]. }
      apply (wr_rel_chain v fsz hs first s s1 sf (tr_ext_traced _ _ _ T) (tm_write_loop _ _ _ _ _ _ _ Hrun)).
      + exact (crash_all_one _ s s1 _ _ T (wr_rel_refl _ _ _ _ _ W) R1).
      + exact (IH _ v ch f1 s1 Hinv1 ltac:(rewrite Hoff1, Hrest_len; clear - H32 Htc; lia) hs o sf W1 Hin Hrun).
    - assert (Hend : off = N.of_nat (length ch) * bytes_per_cluster v) by (clear - Hge Hoff Hsize; lia).
      destruct (wl_run_at_end v ch f data s Hinv Hdata ltac:(fold off; clear - H32; lia) Hend)
        as [(v1 & c & f1 & s1 & s2 & s3 & pre & cl & nb & Eq & Hinv1 & Hoff1 & (nf & fc & Ev1) & Hfat1 &
             T1 & Hpre1 & Epre & Ha & T3)|(s1 & Eq & T1 & _)].
      + fold off tc in Eq, Hoff1. rewrite (Eq fu) in Hrun.
        assert (G : geo_eq v v1) by (exists nf, fc; exact Ev1).
        pose proof (tr_ext_disk _ _ _ T1) as Hd1. cbn in Hd1.
        assert (W1 : fat_wf (s_disk s1) v hs) by (rewrite Hd1; exact W).
        assert (Hcat1 : chain_at (s_disk s1) v first (pre ++ [cl])) by (rewrite Hd1, <- Epre; exact Hcat).
        destruct (C03_alloc_extends_wf vi v fsz false s1 hs first pre cl c s2 Hpre1 Hfit W1 Hin Hcat1 Ha)
          as (W2 & Hcat2 & _ & (C1 & C2 & _) & _).
        pose proof (tr_ext_disk _ _ _ T3) as Hd3. cbn in Hd3.
        assert (Hblk : In (cluster_first_block v c) (cluster_blocks v c)).
        { rewrite <- (N.add_0_r (cluster_first_block v c)). apply In_cluster_blocks_intro. exact Hspc. }
        pose proof (wr_rel_data_write v fsz hs first (s_disk s2) _ c _ nb L W2 Hin Hcat2
                      ltac:(apply in_or_app; right; right; left; reflexivity) Hblk) as R3.
        rewrite <- Hd3 in R3.
        pose proof (Hfat1 hs W Hin) as W3.
        pose proof (tm_alloc_cluster _ _ _ _ _ _ Ha) as Ta.
        pose proof (tm_write_loop _ _ _ _ _ _ _ Hrun) as Tl.
        apply (wr_rel_chain v fsz hs first s s1 sf (tr_ext_traced _ _ _ T1)
                 (traced_trans _ _ _ Ta (traced_trans _ _ _ (tr_ext_traced _ _ _ T3) Tl))).
        { apply crash_all_quiet; [exact (tr_ext_step_writes _ _ _ T1)|exact (wr_rel_refl _ _ _ _ _ W)]. }
        apply (wr_rel_chain v fsz hs first s1 s2 sf Ta (traced_trans _ _ _ (tr_ext_traced _ _ _ T3) Tl)).
        { exact (wr_rel_alloc_append vi v fsz hs first pre cl s1 c s2 Hpre1 Hfit W1 Hin Hcat1 Ha). }
        apply (wr_rel_chain v fsz hs first s2 s3 sf (tr_ext_traced _ _ _ T3) Tl).
        { exact (crash_all_one _ s2 s3 _ _ T3 (wr_rel_refl _ _ _ _ _ W2) R3). }
        intros d' Hd'. apply (wr_rel_geo v1 v fsz hs first _ d' (geo_eq_sym _ _ G)).
        exact (IH _ v1 (ch ++ [c]) f1 s3 Hinv1 ltac:(rewrite Hoff1, Hrest_len; clear - H32 Htc; lia) hs o sf
                 (fat_wf_geo _ v v1 _ G W3) Hin Hrun d' Hd').
      + rewrite (Eq fu) in Hrun. injection Hrun as _ <-.
        apply crash_all_quiet; [exact (tr_ext_step_writes _ _ _ T1)|exact (wr_rel_refl _ _ _ _ _ W)].
  Qed.
End WlRun.

(* ================================================================== 3. mgr_write *)
(* the loop and the final stamp (which touches neither the medium nor the log) *)
Lemma loop_tail_crash fsz vi fi first fuel data v ch f s hs o s' :
  wl_inv fsz vi fi first v ch f s -> f_offset f + N.of_nat (length data) < U32 ->
  fat_wf (s_disk s) v hs -> In first hs ->
  (write_loop fuel fi vi data ;;; mw_tail fi) s = (o, s') ->
  crash_all (wr_rel v fsz hs first (s_disk s)) s s'.
Proof.
  intros Hinv H32 W Hin Hrun. unfold bind in Hrun.
  destruct (write_loop fuel fi vi data s) as [o1 s1] eqn:Eloop.
  pose proof (wl_crash fsz vi fi first fuel data v ch f s Hinv H32 hs o1 s1 W Hin Eloop) as H.
  destruct o1 as [u|e| |]; try (injection Hrun as _ <-; exact H).
  intros d' Hd. apply (H d'). apply (crash_disks_same_r s s1 s' d' (PrBounds.mw_tail_trace _ _ _ _ Hrun)). exact Hd.
Qed.

(* the parameter `first` of wr_rel only restricts which chains are kept *)
Lemma wr_rel_first_irrel v fsz hs c x d d' : ~ In c hs -> wr_rel v fsz hs c d d' -> wr_rel v fsz hs x d d'.
Proof.
  intros Hni (A1 & A2 & A3). split; [exact A1|]. split; [|exact A3].
  intros h2 ch2 H2 _ Hch. apply (A2 h2 ch2 H2); [|exact Hch]. intros ->. contradiction.
Qed.

(* mgr_write on a writable handle, EVERY outcome (Ok, DiskFull after a stored prefix,
   NotEnoughSpace): every crashed medium is related to the medium before the call: FAT
   well-formed for the heads hs plus lost one-cluster chains, every chain of hs other than the
   file's own untouched, nothing outside FAT and data clusters touched *)
Theorem mw_crash fsz h data s fi f vi v ch hs o s' :
  mw_pre fsz h s fi f vi v ch -> mode_eqb (f_mode f) ReadOnly = false ->
  fat_wf (s_disk s) v hs -> (2 <= e_cluster (f_entry f) -> In (e_cluster (f_entry f)) hs) ->
  mgr_write h data s = (o, s') ->
  crash_all (wr_rel v fsz hs (e_cluster (f_entry f)) (s_disk s)) s s'.
Proof.
  intros Hmw Hmode W Hhs Hrun.
  pose proof Hmw as [Hl Hh Hfi Hvol Hpre Hfit Hspc Hwf Hchain Hoff Hsize H32].
  rewrite (mgr_write_unfold h data s fi f vi Hl Hh Hfi Hvol), Hmode in Hrun.
  set (tw := N.min (N.of_nat (length data)) (MAX_FILE_SIZE - f_offset f)) in *.
  assert (Hclip : N.of_nat (length (firstn (N.to_nat tw) data)) = tw) by (rewrite firstn_length; unfold tw; lia).
  assert (HtwM : f_offset f + tw < U32) by (unfold tw, MAX_FILE_SIZE, U32 in *; clear - Hoff H32; lia).
  set (fA := set_f_dirty f true) in *. set (sA := PrRw.upd_file s fi fA) in *.
  assert (HfiA : nth_error (s_files sA) fi = Some fA)
    by (cbn; eapply PrRw.nth_error_list_set_same; exact Hfi).
  assert (HpreA : alloc_pre sA vi v fsz) by exact Hpre.
  pose proof Hpre as ((Hnf & Hc & Hvi & Hlen) & L & Hh0).
  (* the run starts in sA: same medium, same log *)
  assert (HA : crash_all (wr_rel v fsz hs (e_cluster (f_entry f)) (s_disk s)) sA s' ->
               crash_all (wr_rel v fsz hs (e_cluster (f_entry f)) (s_disk s)) s s').
  { intros H d' Hd. apply (H d'). apply (crash_disks_same_l s sA s' d'); [reflexivity|reflexivity|exact Hd]. }
  apply HA. clear HA.
  destruct Hchain as [(A1 & (fuel0 & A2) & A3)|(A1 & -> & A3)].
  - (* the file has clusters *)
    assert (E : (e_cluster (f_entry f) <? RESERVED_ENTRIES) = false) by (apply N.ltb_ge; exact A1).
    destruct (reset_cursor_fields fA) as (G1 & G2 & G3 & G4 & G5 & G6).
    unfold mw_first in Hrun. rewrite E, PrRw.bind_ret in Hrun.
    rewrite (mw_rest_run fi data sA fA vi HfiA Hvol) in Hrun. cbv zeta in Hrun. rewrite G2 in Hrun.
    change (f_offset fA) with (f_offset f) in Hrun. fold tw in Hrun.
    set (fD := reset_cursor fA) in *. set (sD := PrRw.upd_file sA fi fD) in *.
    assert (Pinv : wl_inv fsz vi fi (e_cluster (f_entry f)) v ch fD sD).
    { constructor; try assumption.
      - exists fuel0. exact A2.
      - cbn. rewrite list_set_twice. eapply PrRw.nth_error_list_set_same. exact Hfi.
      - rewrite G1. reflexivity.
      - apply reset_cursor_ok; [exact (cursor_ok_first v _ _ _ _ A2)|intros _; exact A3].
      - rewrite G1, G2. exact Hoff.
      - rewrite G1. exact Hsize. }
    intros d' Hd. apply (crash_disks_same_l sA sD s' d') in Hd; [|reflexivity|reflexivity].
    exact (loop_tail_crash fsz vi fi _ _ _ v ch fD sD hs o s' Pinv
             ltac:(rewrite G2; change (f_offset fA) with (f_offset f); rewrite Hclip; exact HtwM)
             W (Hhs A1) Hrun d' Hd).
  - (* the file has no cluster yet: one is allocated *)
    assert (E : (e_cluster (f_entry f) <? RESERVED_ENTRIES) = true) by (apply N.ltb_lt; exact A1).
    assert (HprevN : forall p, @None N = Some p -> p < v_clusters v + 2) by (intros p Ep; discriminate Ep).
    destruct (alloc_cluster_total vi v fsz None false sA HpreA HprevN) as (oa & s2 & Ha & Hres).
    destruct Hres as [(-> & Hnone & Hd2 & Hm2 & T2 & Hst2)|(c & -> & _)].
    + unfold mw_first in Hrun. rewrite E in Hrun. rewrite bind_bind in Hrun.
      rewrite (bind_err _ _ _ _ _ Ha) in Hrun. injection Hrun as _ <-.
      apply crash_all_quiet; [exact (tr_ext_step_writes _ _ _ T2)|exact (wr_rel_refl _ _ _ _ _ W)].
    + destruct (C03_alloc_new_head_wf vi v fsz false sA hs c s2 HpreA W Ha) as (W2 & _ & Hni & _).
      pose proof (alloc_files_of_effect vi v fsz None sA c s2 HpreA Hwf
                    ltac:(intros p Ep; discriminate Ep) Ha) as AF.
      destruct (af_range _ _ _ _ _ _ _ AF) as (R1 & R2 & R3).
      destruct (af_vol _ _ _ _ _ _ _ AF) as (nf & fc & Evols & Hpre2).
      set (v' := vol_rebook v nf fc) in *.
      set (fB := set_f_entry fA (set_e_cluster (f_entry fA) c)).
      set (sC := PrRw.upd_file s2 fi fB).
      assert (Hfi2 : nth_error (s_files s2) fi = Some fA) by (rewrite (af_files _ _ _ _ _ _ _ AF); exact HfiA).
      assert (HfiC : nth_error (s_files sC) fi = Some fB) by (cbn; eapply PrRw.nth_error_list_set_same; exact Hfi2).
      assert (HvolC : find_idx (fun w => v_id w =? f_vol fB) (s_vols sC) 0 = Some vi).
      { cbn [sC PrRw.upd_file s_vols set_s_files]. rewrite Evols. apply (find_vol_set _ _ _ v); [exact Hvol|exact Hvi|reflexivity]. }
      assert (Hreset : reset_cursor fB = set_f_cur_cluster (set_f_cur_off fB 0) c).
      { unfold reset_cursor. change (f_cur_cluster fB) with (f_cur_cluster f).
        change (e_cluster (f_entry fB)) with c.
        replace (f_cur_cluster f <? c) with true by (symmetry; apply N.ltb_lt; clear - A3 R1; lia).
        reflexivity. }
      set (fD := set_f_cur_cluster (set_f_cur_off fB 0) c) in *.
      set (sD := PrRw.upd_file sC fi fD).
      cbn [length] in Hsize.
      assert (E0 : e_size (f_entry f) = 0) by (clear - Hsize; lia).
      assert (Pinv : wl_inv fsz vi fi c v' [c] fD sD).
      { constructor.
        - exact Hpre2.
        - exact Hfit.
        - exact Hspc.
        - exact (af_wf _ _ _ _ _ _ _ AF).
        - exists 1%nat. unfold v'. rewrite chain_of_rebook.
          exact (PrWrite.chain_single _ _ _ _ R1 R2 (af_new _ _ _ _ _ _ _ AF)).
        - cbn. rewrite list_set_twice. eapply PrRw.nth_error_list_set_same. exact Hfi2.
        - reflexivity.
        - exists 0%nat. split; reflexivity.
        - exact Hoff.
        - change (e_size (f_entry fD)) with (e_size (f_entry f)). rewrite E0. clear. lia. }
      unfold mw_first in Hrun. rewrite E in Hrun. rewrite bind_bind in Hrun. rewrite (bind_ok _ _ _ _ _ Ha) in Hrun.
      rewrite bind_bind in Hrun. rewrite (bind_ok _ _ _ _ _ (get_file_some fi fA s2 Hfi2)) in Hrun.
      rewrite put_file_ok' in Hrun. fold fB in Hrun. fold sC in Hrun.
      rewrite (mw_rest_run fi data sC fB vi HfiC HvolC) in Hrun. cbv zeta in Hrun. rewrite Hreset in Hrun.
      change (f_offset fD) with (f_offset f) in Hrun. fold tw in Hrun. fold sD in Hrun.
      assert (G : geo_eq v v') by (exists nf, fc; reflexivity).
      pose proof (loop_tail_crash fsz vi fi c _ _ v' [c] fD sD (c :: hs) o s' Pinv
                    ltac:(change (f_offset fD) with (f_offset f); rewrite Hclip; exact HtwM)
                    (fat_wf_geo _ v v' _ G W2) (or_introl eq_refl) Hrun) as Hloop.
      pose proof (tm_alloc_cluster _ _ _ _ _ _ Ha) as Ta.
      assert (Tl : traced s2 s').
      { assert (X : traced sD s').
        { unfold bind in Hrun. destruct (write_loop _ fi vi _ sD) as [o1 s1] eqn:El.
          pose proof (tm_write_loop _ _ _ _ _ _ _ El) as X1. destruct o1; try (injection Hrun as _ <-; exact X1).
          apply (traced_trans _ _ _ X1). apply traced_same; [exact (PrBounds.mw_tail_trace _ _ _ _ Hrun)|].
          destruct (nth_error (s_files s1) fi) as [f1|] eqn:Ef1.
          - exact (proj1 (gw_mw_tail fi s1 _ s' f1 Ef1 Hrun)).
          - unfold mw_tail, get_file, bind, get in Hrun. rewrite Ef1 in Hrun. injection Hrun as _ <-. reflexivity. }
        apply (traced_trans _ sD); [apply traced_same; reflexivity|exact X]. }
      intros d' Hd.
      apply (wr_rel_first_irrel v fsz hs c _ _ d' Hni).
      revert d' Hd. change (crash_all (wr_rel v fsz hs c (s_disk sA)) sA s').
      apply (wr_rel_chain v fsz hs c sA s2 s' Ta Tl).
      * exact (wr_rel_alloc_first vi v fsz hs c sA c s2 HpreA Hfit W Ha).
      * intros d' Hd. apply wr_rel_drop_first. apply (wr_rel_geo v' v fsz _ c _ d' (geo_eq_sym _ _ G)).
        apply (Hloop d'). apply (crash_disks_same_l s2 sD s' d'); [reflexivity|reflexivity|exact Hd].
Qed.

Print Assumptions wl_crash.
Print Assumptions mw_crash.
