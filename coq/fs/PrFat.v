(* PROOFS about the FAT-entry codec and the FAT mirror: `update_fat`, `next_cluster` and
   `update_info_sector` of FsFat.v (src/fat/volume.rs), for ALL inputs.
   Sections: 1 byte-level round trips; 2 spec side (`fat_get` ...); 3 monad plumbing;
   4 update_fat; 5 the mirror step (C16); 6 next_cluster; 7 update_info_sector; 8 examples. *)
From Coq Require Import NArith ZArith List Bool Lia Arith FMapPositive ZifyClasses ZifyInst Zify.
From SdFs Require Import FsTypes FsBase FsFat FsMgr FsLemmas PrBase.
Import ListNotations.
Open Scope N_scope.
Local Arguments N.mul : simpl never.
Local Arguments N.add : simpl never.
Local Arguments N.sub : simpl never.
Local Arguments N.div : simpl never.
Local Arguments N.modulo : simpl never.
Local Arguments N.land : simpl never.
Local Arguments N.lor : simpl never.
Local Arguments N.shiftl : simpl never.
Local Arguments N.shiftr : simpl never.
Local Ltac Zify.zify_post_hook ::= Z.to_euclidean_division_equations.

(* ================================================================== 1. bytes *)
Lemma bytes16_lt v : Forall (fun x => x < 256) (bytes16 v).
Proof. unfold bytes16. repeat constructor; apply N.mod_lt; lia. Qed.

Lemma bytes32_lt v : Forall (fun x => x < 256) (bytes32 v).
Proof. unfold bytes32. repeat constructor; apply N.mod_lt; lia. Qed.

Lemma bytes16_value v : v mod 256 + 256 * ((v / 256) mod 256) = v mod 65536.
Proof. lia. Qed.

Lemma bytes32_value v :
  v mod 256 + 256 * ((v / 256) mod 256) + 65536 * ((v / 65536) mod 256)
  + 16777216 * ((v / 16777216) mod 256) = v mod 4294967296.
Proof. lia. Qed.

(* writing a 16-bit value and reading it back *)
Theorem le16_set_bytes16 b off v : (N.to_nat off + 2 <= length b)%nat ->
  le16 (set_bytes b off (bytes16 v)) off = v mod 65536.
Proof.
  intros H. unfold le16.
  pose proof (get8_set_bytes_inside b off (bytes16 v) 0 H ltac:(cbn; lia)) as H0.
  pose proof (get8_set_bytes_inside b off (bytes16 v) 1 H ltac:(cbn; lia)) as H1.
  change (N.of_nat 0) with 0 in H0. rewrite N.add_0_r in H0.
  change (N.of_nat 1) with 1 in H1.
  rewrite H0, H1. cbn [bytes16 nth]. apply bytes16_value.
Qed.

Theorem le32_set_bytes32 b off v : (N.to_nat off + 4 <= length b)%nat ->
  le32 (set_bytes b off (bytes32 v)) off = v mod 4294967296.
Proof.
  intros H. unfold le32.
  pose proof (get8_set_bytes_inside b off (bytes32 v) 0 H ltac:(cbn; lia)) as H0.
  pose proof (get8_set_bytes_inside b off (bytes32 v) 1 H ltac:(cbn; lia)) as H1.
  pose proof (get8_set_bytes_inside b off (bytes32 v) 2 H ltac:(cbn; lia)) as H2.
  pose proof (get8_set_bytes_inside b off (bytes32 v) 3 H ltac:(cbn; lia)) as H3.
  change (N.of_nat 0) with 0 in H0. rewrite N.add_0_r in H0.
  change (N.of_nat 1) with 1 in H1. change (N.of_nat 2) with 2 in H2. change (N.of_nat 3) with 3 in H3.
  rewrite H0, H1, H2, H3. cbn [bytes32 nth]. apply bytes32_value.
Qed.

(* reading somewhere else is unaffected *)
Theorem le16_set_bytes_other b off l o : (N.to_nat off + length l <= length b)%nat ->
  (o + 2 <= off \/ off + N.of_nat (length l) <= o) ->
  le16 (set_bytes b off l) o = le16 b o.
Proof.
  intros H Ho. unfold le16.
  rewrite (get8_set_bytes_outside b off l o H) by lia.
  rewrite (get8_set_bytes_outside b off l (o + 1) H) by lia. reflexivity.
Qed.

Theorem le32_set_bytes_other b off l o : (N.to_nat off + length l <= length b)%nat ->
  (o + 4 <= off \/ off + N.of_nat (length l) <= o) ->
  le32 (set_bytes b off l) o = le32 b o.
Proof.
  intros H Ho. unfold le32.
  rewrite (get8_set_bytes_outside b off l o H) by lia.
  rewrite (get8_set_bytes_outside b off l (o + 1) H) by lia.
  rewrite (get8_set_bytes_outside b off l (o + 2) H) by lia.
  rewrite (get8_set_bytes_outside b off l (o + 3) H) by lia. reflexivity.
Qed.

(* set_bytes keeps a block a block *)
Theorem set_bytes_is_block b off l :
  is_block b -> (N.to_nat off + length l <= 512)%nat -> Forall (fun x => x < 256) l ->
  is_block (set_bytes b off l).
Proof.
  intros [Hlen Hall] Hfit Hl. split.
  - rewrite set_bytes_length by lia. exact Hlen.
  - unfold set_bytes. rewrite !Forall_app. repeat split.
    + rewrite <- (firstn_skipn (N.to_nat off) b) in Hall. apply Forall_app in Hall. tauto.
    + exact Hl.
    + rewrite <- (firstn_skipn (N.to_nat off + length l) b) in Hall. apply Forall_app in Hall. tauto.
Qed.

(* a well-formed block reads 16/32-bit values in range *)
Lemma get8_lt b i : Forall (fun x => x < 256) b -> get8 b i < 256.
Proof.
  intros H. unfold get8. destruct (Nat.lt_ge_cases (N.to_nat i) (length b)) as [Hl|Hl].
  - rewrite Forall_forall in H. apply H. apply nth_In. exact Hl.
  - rewrite nth_overflow by exact Hl. lia.
Qed.

Lemma le16_lt b o : Forall (fun x => x < 256) b -> le16 b o < 65536.
Proof.
  intros H. unfold le16. pose proof (get8_lt b o H). pose proof (get8_lt b (o + 1) H). lia.
Qed.

Lemma le32_lt b o : Forall (fun x => x < 256) b -> le32 b o < 4294967296.
Proof.
  intros H. unfold le32. pose proof (get8_lt b o H). pose proof (get8_lt b (o + 1) H).
  pose proof (get8_lt b (o + 2) H). pose proof (get8_lt b (o + 3) H). lia.
Qed.

(* ================================================================== 2. spec side *)
(* From the FAT specification: entry c of a FAT occupies `w` bytes (2 for FAT16, 4 for FAT32)
   at byte c*w of the FAT region; the region of copy k starts at block lba + start_k. *)
Definition fat_width (v : vol) : N := if v_fat32 v then 4 else 2.
Definition fat_copy_start (v : vol) (copy : N) : N :=
  if copy =? 0 then v_fat_start v
  else match v_second_fat v with Some sf => sf | None => v_fat_start v end.
(* absolute block number of sector k of FAT copy `copy` *)
Definition fat_copy_sector (v : vol) (copy k : N) : N := v_lba v + (fat_copy_start v copy + k).
Definition fat_sector (v : vol) (copy c : N) : N :=
  fat_copy_sector v copy ((c * fat_width v) / 512).
Definition fat_off (v : vol) (c : N) : N := (c * fat_width v) mod 512.

(* the entry of cluster c as stored in a FAT sector b that contains it *)
Definition fat_entry (v : vol) (b : block) (c : N) : N :=
  if v_fat32 v then N.land (le32 b (fat_off v c)) 268435455 else le16 b (fat_off v c).
(* FAT32 only: the whole 32-bit word (the top 4 bits are reserved and must be preserved) *)
Definition fat_word32 (v : vol) (b : block) (c : N) : N := le32 b (fat_off v c).

Definition fat_get (d : disk) (v : vol) (copy c : N) : N :=
  fat_entry v (disk_get d (fat_sector v copy c)) c.
Definition fat_get_word32 (d : disk) (v : vol) (copy c : N) : N :=
  fat_word32 v (disk_get d (fat_sector v copy c)) c.

(* what update_fat stores for a requested value x: the named ClusterId constants are
   mapped to their on-disk sentinels, everything else is truncated *)
Definition enc16 (x : N) : N :=
  if x =? CL_INVALID then 65526 else if x =? CL_BAD then 65527
  else if x =? CL_EMPTY then 0 else if x =? CL_EOF then 65535 else x mod 65536.
Definition entry32 (x : N) : N :=
  if x =? CL_INVALID then 268435446 else if x =? CL_BAD then 268435447
  else if x =? CL_EMPTY then 0 else x.
Definition enc32 (x : N) : N := N.land (entry32 x) 268435455.
Definition enc (v : vol) (x : N) : N := if v_fat32 v then enc32 x else enc16 x.

(* the sentinel mapping is nothing but truncation: low 16 bits / low 28 bits of x *)
Lemma enc16_mod x : enc16 x = x mod 65536.
Proof.
  unfold enc16.
  destruct (N.eqb_spec x CL_INVALID) as [->|_]; [reflexivity|].
  destruct (N.eqb_spec x CL_BAD) as [->|_]; [reflexivity|].
  destruct (N.eqb_spec x CL_EMPTY) as [->|_]; [reflexivity|].
  destruct (N.eqb_spec x CL_EOF) as [->|_]; reflexivity.
Qed.

Lemma enc32_mod x : enc32 x = x mod 268435456.
Proof.
  unfold enc32, entry32.
  destruct (N.eqb_spec x CL_INVALID) as [->|_]; [reflexivity|].
  destruct (N.eqb_spec x CL_BAD) as [->|_]; [reflexivity|].
  destruct (N.eqb_spec x CL_EMPTY) as [->|_]; [reflexivity|].
  change 268435455 with (N.ones 28). rewrite N.land_ones. reflexivity.
Qed.

Lemma enc_mod v x : enc v x = x mod (if v_fat32 v then 268435456 else 65536).
Proof. unfold enc. destruct (v_fat32 v); [apply enc32_mod | apply enc16_mod]. Qed.

(* the sector image update_fat produces from the old sector image b *)
Definition fat_put_block (v : vol) (b : block) (c x : N) : block :=
  if v_fat32 v then
    set_bytes b (fat_off v c)
      (bytes32 (N.lor (N.land (le32 b (fat_off v c)) 4026531840) (N.land (entry32 x) 268435455)))
  else set_bytes b (fat_off v c) (bytes16 (enc16 x)).

(* ---- offsets inside a sector ---- *)
Lemma fat_width_cases v : fat_width v = 2 \/ fat_width v = 4.
Proof. unfold fat_width. destruct (v_fat32 v); auto. Qed.

Lemma off_fit w c : w = 2 \/ w = 4 -> (c * w) mod 512 + w <= 512.
Proof. intros [->| ->]; lia. Qed.

Lemma off_disjoint w c c' : w = 2 \/ w = 4 -> c' <> c -> (c' * w) / 512 = (c * w) / 512 ->
  (c' * w) mod 512 + w <= (c * w) mod 512 \/ (c * w) mod 512 + w <= (c' * w) mod 512.
Proof. intros [->| ->] Hne Hq; lia. Qed.

Lemma fat_off_fit v c : fat_off v c + fat_width v <= 512.
Proof. unfold fat_off. apply off_fit. apply fat_width_cases. Qed.

(* ---- the 28/4 bit split of a FAT32 word ---- *)
Lemma merge_low a e :
  N.land (N.lor (N.land a 4026531840) (N.land e 268435455)) 268435455 = N.land e 268435455.
Proof.
  rewrite N.land_lor_distr_l, <- !N.land_assoc.
  change (N.land 4026531840 268435455) with 0. change (N.land 268435455 268435455) with 268435455.
  rewrite N.land_0_r, N.lor_0_l. reflexivity.
Qed.

Lemma merge_high a e :
  N.land (N.lor (N.land a 4026531840) (N.land e 268435455)) 4026531840 = N.land a 4026531840.
Proof.
  rewrite N.land_lor_distr_l, <- !N.land_assoc.
  change (N.land 268435455 4026531840) with 0. change (N.land 4026531840 4026531840) with 4026531840.
  rewrite N.land_0_r, N.lor_0_r. reflexivity.
Qed.

Lemma merge_fits a e :
  (N.lor (N.land a 4026531840) (N.land e 268435455)) mod 4294967296
  = N.lor (N.land a 4026531840) (N.land e 268435455).
Proof.
  change 4294967296 with (2 ^ 32). rewrite <- N.land_ones.
  rewrite N.land_lor_distr_l, <- !N.land_assoc.
  change (N.land 4026531840 (N.ones 32)) with 4026531840.
  change (N.land 268435455 (N.ones 32)) with 268435455. reflexivity.
Qed.

(* ---- fat_put_block, read back ---- *)
Lemma fat_put_block_length v b c x : length b = 512%nat -> length (fat_put_block v b c x) = 512%nat.
Proof.
  intros Hl. pose proof (fat_off_fit v c) as Hf. unfold fat_put_block.
  unfold fat_width in Hf. destruct (v_fat32 v); rewrite set_bytes_length; cbn [length bytes16 bytes32]; lia.
Qed.

Lemma fat_put_block_is_block v b c x : is_block b -> is_block (fat_put_block v b c x).
Proof.
  intros Hb. pose proof (fat_off_fit v c) as Hf. unfold fat_put_block.
  unfold fat_width in Hf. destruct (v_fat32 v); apply set_bytes_is_block; try exact Hb;
    try apply bytes32_lt; try apply bytes16_lt; cbn [length bytes16 bytes32]; lia.
Qed.

(* the written entry reads back as enc x *)
Lemma fat_put_block_same v b c x : length b = 512%nat ->
  fat_entry v (fat_put_block v b c x) c = enc v x.
Proof.
  intros Hl. pose proof (fat_off_fit v c) as Hf. unfold fat_entry, fat_put_block, enc.
  unfold fat_width in Hf. destruct (v_fat32 v).
  - rewrite le32_set_bytes32 by lia. rewrite merge_fits, merge_low. reflexivity.
  - rewrite le16_set_bytes16 by lia. rewrite enc16_mod. apply N.mod_mod. lia.
Qed.

(* FAT32: the reserved top four bits of the word are kept *)
Lemma fat_put_block_high v b c x : length b = 512%nat -> v_fat32 v = true ->
  N.land (fat_word32 v (fat_put_block v b c x) c) 4026531840 = N.land (fat_word32 v b c) 4026531840.
Proof.
  intros Hl H32. pose proof (fat_off_fit v c) as Hf. unfold fat_word32, fat_put_block.
  unfold fat_width in Hf. rewrite H32 in *.
  rewrite le32_set_bytes32 by lia. rewrite merge_fits, merge_high. reflexivity.
Qed.

(* every other entry of the same sector is untouched *)
Lemma fat_put_block_other v b c x c' : length b = 512%nat -> c' <> c ->
  (c' * fat_width v) / 512 = (c * fat_width v) / 512 ->
  fat_entry v (fat_put_block v b c x) c' = fat_entry v b c'.
Proof.
  intros Hl Hne Hq. pose proof (fat_off_fit v c) as Hf.
  pose proof (off_disjoint (fat_width v) c c' (fat_width_cases v) Hne Hq) as Hd.
  unfold fat_entry, fat_put_block, fat_off in *.
  unfold fat_width in *. destruct (v_fat32 v).
  - rewrite le32_set_bytes_other; [reflexivity| cbn [length bytes32]; lia | cbn [length bytes32]; lia].
  - rewrite le16_set_bytes_other; [reflexivity| cbn [length bytes16]; lia | cbn [length bytes16]; lia].
Qed.

Lemma fat_put_block_other_word v b c x c' : length b = 512%nat -> v_fat32 v = true -> c' <> c ->
  (c' * fat_width v) / 512 = (c * fat_width v) / 512 ->
  fat_word32 v (fat_put_block v b c x) c' = fat_word32 v b c'.
Proof.
  intros Hl H32 Hne Hq. pose proof (fat_off_fit v c) as Hf.
  pose proof (off_disjoint (fat_width v) c c' (fat_width_cases v) Hne Hq) as Hd.
  unfold fat_word32, fat_put_block, fat_off in *.
  unfold fat_width in *. rewrite H32 in *.
  rewrite le32_set_bytes_other; [reflexivity| cbn [length bytes32]; lia | cbn [length bytes32]; lia].
Qed.

(* ================================================================== 3. monad plumbing *)
Lemma get_vol_ok vi v s : nth_error (s_vols s) vi = Some v -> get_vol vi s = (Ok v, s).
Proof. intros H. unfold get_vol, bind, get. rewrite H. reflexivity. Qed.

Lemma fat_block_ok v fs fo s : v_lba v + (fs + fo / 512) < U32 ->
  fat_block v fs fo s = (Ok (v_lba v + (fs + fo / 512)), s).
Proof.
  intros H. unfold fat_block.
  assert (H1 : fs + fo / 512 < U32) by (remember (fo / 512) as q; unfold U32 in *; lia).
  rewrite (bind_ok _ _ _ _ _ (add32_ok fs (fo / 512) s H1)).
  apply add32_ok. exact H.
Qed.

Lemma try_ok {A} (m : M A) s a s' : m s = (Ok a, s') -> try m s = (Ok (inl a), s').
Proof. intros H. unfold try. rewrite H. reflexivity. Qed.

Lemma try_err {A} (m : M A) s e s' : m s = (Err e, s') -> try m s = (Ok (inr e), s').
Proof. intros H. unfold try. rewrite H. reflexivity. Qed.

(* a failed primary write: the error is reported, the cache tag is dropped, the disk is as before *)
Lemma write_back_fault i s : s_tag s = Some i -> faulty s = true ->
  exists s', write_back s = (Err DeviceError, s') /\ s_tag s' = None /\ s_disk s' = s_disk s.
Proof.
  intros Ht Hf. unfold write_back.
  rewrite (bind_ok _ _ _ _ _ (eq_refl : get s = (Ok s, s))). cbv beta. rewrite Ht.
  rewrite (bind_ok _ _ _ _ _ (try_err _ _ _ _ (dev_write_fault i (s_cache s) s Hf))). cbv beta iota.
  eexists. split; [reflexivity|]. split; reflexivity.
Qed.

Lemma write_back_dup_fault i d s : s_tag s = Some i -> faulty s = true ->
  exists s', write_back_with_duplicate d s = (Err DeviceError, s') /\ s_tag s' = None /\ s_disk s' = s_disk s.
Proof.
  intros Ht Hf. unfold write_back_with_duplicate.
  rewrite (bind_ok _ _ _ _ _ (eq_refl : get s = (Ok s, s))). cbv beta. rewrite Ht.
  rewrite (bind_ok _ _ _ _ _ (try_err _ _ _ _ (dev_write_fault i (s_cache s) s Hf))). cbv beta iota.
  eexists. split; [reflexivity|]. split; reflexivity.
Qed.

(* read block i, change it with f, write it to i and then to d (write_back_with_duplicate) *)
Theorem rmw_dup_spec i d f s : no_faults s -> cache_ok s ->
  exists s',
    (_ <- cache_read i ;; cache_modify f ;;; write_back_with_duplicate d) s = (Ok tt, s') /\
    s_disk s' = disk_set (disk_set (s_disk s) i (f (disk_get (s_disk s) i))) d (f (disk_get (s_disk s) i)) /\
    s_tag s' = Some i /\ s_cache s' = f (disk_get (s_disk s) i) /\
    cache_ok s' /\ no_faults s' /\ same_mgr s s' /\
    exists pre, s_trace s' = DWrite d (f (disk_get (s_disk s) i)) :: DWrite i (f (disk_get (s_disk s) i)) :: pre /\
                (pre = s_trace s \/ pre = DRead i :: s_trace s).
Proof.
  intros Hnf Hc.
  destruct (cache_read_spec i s Hnf Hc) as (s1 & Hr & Hd & Ht & Hcc & Hc1 & Hnf1 & Hm & Htr).
  rewrite (bind_ok _ _ _ _ _ Hr).
  set (s2 := set_s_cache s1 (f (s_cache s1))).
  assert (Hmod : cache_modify f s1 = (Ok tt, s2)) by reflexivity.
  rewrite (bind_ok _ _ _ _ _ Hmod).
  assert (Ht2 : s_tag s2 = Some i) by (cbn; exact Ht).
  assert (Hnf2 : no_faults s2) by (apply (no_faults_step s1); [reflexivity| cbn; lia | exact Hnf1]).
  unfold write_back_with_duplicate.
  rewrite (bind_ok _ _ _ _ _ (eq_refl : get s2 = (Ok s2, s2))). cbv beta. rewrite Ht2.
  rewrite (bind_ok _ _ _ _ _ (try_ok _ _ _ _ (dev_write_ok i (s_cache s2) s2 Hnf2))). cbv beta iota.
  set (s3 := set_s_trace _ _).
  assert (Hnf3 : no_faults s3) by (apply (no_faults_step s2); [reflexivity | cbn; lia | exact Hnf2]).
  rewrite (dev_write_ok d (s_cache s2) s3 Hnf3).
  eexists. split; [reflexivity|].
  subst s3 s2. cbn. rewrite Hd, Hcc.
  split; [reflexivity|]. split; [exact Ht|]. split; [reflexivity|].
  split.
  { intros j Hj. cbn in Hj. rewrite Ht in Hj. inversion Hj; subst j. cbn.
    destruct (N.eq_dec d i) as [->|Hne].
    - rewrite disk_get_set_same. reflexivity.
    - rewrite disk_get_set_other by exact Hne. rewrite disk_get_set_same. reflexivity. }
  split.
  { intros n Hin. cbn in Hin. specialize (Hnf1 n Hin). cbn. lia. }
  split.
  { destruct Hm as (A1 & A2 & A3 & A4 & A5 & A6 & A7 & A8 & A9 & A10). unfold same_mgr. cbn.
    repeat split; assumption. }
  eexists. split; [reflexivity|]. exact Htr.
Qed.

(* ================================================================== 4. update_fat *)
(* the u32 computations of update_fat succeed *)
Definition fat_addr_ok (v : vol) (c : N) : Prop :=
  c * fat_width v < U32 /\ fat_sector v 0 c < U32 /\ fat_sector v 1 c < U32.

(* Execution lemma: what update_fat does to the state, exactly. *)
Lemma update_fat_exec vi c x s v :
  no_faults s -> cache_ok s -> nth_error (s_vols s) vi = Some v -> fat_addr_ok v c ->
  let this := fat_sector v 0 c in
  let dup := fat_sector v 1 c in
  let nb := fat_put_block v (disk_get (s_disk s) this) c x in
  exists s', update_fat vi c x s = (Ok tt, s') /\
    s_disk s' = (match v_second_fat v with
                 | Some _ => disk_set (disk_set (s_disk s) this nb) dup nb
                 | None => disk_set (s_disk s) this nb end) /\
    s_tag s' = Some this /\ s_cache s' = nb /\
    cache_ok s' /\ no_faults s' /\ same_mgr s s' /\
    exists pre, (pre = s_trace s \/ pre = DRead this :: s_trace s) /\
      s_trace s' = (match v_second_fat v with
                    | Some _ => DWrite dup nb :: DWrite this nb :: pre
                    | None => DWrite this nb :: pre end).
Proof.
  intros Hnf Hc Hv (Hmul & H0 & H1). intros this dup nb.
  unfold update_fat. rewrite (bind_ok _ _ _ _ _ (get_vol_ok vi v s Hv)).
  subst this dup nb. unfold fat_put_block, fat_sector, fat_copy_sector, fat_off, fat_copy_start, fat_width in *.
  change (0 =? 0) with true in *. change (1 =? 0) with false in *. cbv iota in *.
  destruct (v_fat32 v).
  - rewrite (bind_ok _ _ _ _ _ (mul32_ok c 4 s Hmul)).
    rewrite (bind_ok _ _ _ _ _ (fat_block_ok v (v_fat_start v) (c * 4) s H0)).
    destruct (v_second_fat v) as [sf|].
    + assert (Hsec : (x0 <- fat_block v sf (c * 4) ;; ret (Some x0)) s
                     = (Ok (Some (v_lba v + (sf + c * 4 / 512))), s)).
      { rewrite (bind_ok _ _ _ _ _ (fat_block_ok v sf (c * 4) s H1)). reflexivity. }
      rewrite (bind_ok _ _ _ _ _ Hsec). cbv beta zeta.
      destruct (rmw_dup_spec (v_lba v + (v_fat_start v + c * 4 / 512)) (v_lba v + (sf + c * 4 / 512))
                  (fun b => set_bytes b ((c * 4) mod 512)
                     (bytes32 (N.lor (N.land (le32 b ((c * 4) mod 512)) 4026531840)
                                     (N.land (entry32 x) 268435455)))) s Hnf Hc)
        as (s' & Hrun & Hd & Ht & Hcc & Hc' & Hnf' & Hm & pre & Htr & Hpre).
      exists s'. split; [exact Hrun|]. repeat (split; [assumption|]).
      exists pre. split; assumption.
    + rewrite (bind_ok _ _ _ _ _ (eq_refl : ret (@None N) s = (Ok None, s))). cbv beta zeta.
      destruct (rmw_spec (v_lba v + (v_fat_start v + c * 4 / 512))
                  (fun b => set_bytes b ((c * 4) mod 512)
                     (bytes32 (N.lor (N.land (le32 b ((c * 4) mod 512)) 4026531840)
                                     (N.land (entry32 x) 268435455)))) s Hnf Hc)
        as (s' & Hrun & Hd & Ht & Hcc & Hc' & Hnf' & Hm & pre & Htr & Hpre).
      exists s'. split; [exact Hrun|]. repeat (split; [assumption|]).
      exists pre. split; assumption.
  - rewrite (bind_ok _ _ _ _ _ (mul32_ok c 2 s Hmul)).
    rewrite (bind_ok _ _ _ _ _ (fat_block_ok v (v_fat_start v) (c * 2) s H0)).
    destruct (v_second_fat v) as [sf|].
    + assert (Hsec : (x0 <- fat_block v sf (c * 2) ;; ret (Some x0)) s
                     = (Ok (Some (v_lba v + (sf + c * 2 / 512))), s)).
      { rewrite (bind_ok _ _ _ _ _ (fat_block_ok v sf (c * 2) s H1)). reflexivity. }
      rewrite (bind_ok _ _ _ _ _ Hsec). cbv beta zeta.
      destruct (rmw_dup_spec (v_lba v + (v_fat_start v + c * 2 / 512)) (v_lba v + (sf + c * 2 / 512))
                  (fun b => set_bytes b ((c * 2) mod 512) (bytes16 (enc16 x))) s Hnf Hc)
        as (s' & Hrun & Hd & Ht & Hcc & Hc' & Hnf' & Hm & pre & Htr & Hpre).
      exists s'. split; [exact Hrun|]. repeat (split; [assumption|]).
      exists pre. split; assumption.
    + rewrite (bind_ok _ _ _ _ _ (eq_refl : ret (@None N) s = (Ok None, s))). cbv beta zeta.
      destruct (rmw_spec (v_lba v + (v_fat_start v + c * 2 / 512))
                  (fun b => set_bytes b ((c * 2) mod 512) (bytes16 (enc16 x))) s Hnf Hc)
        as (s' & Hrun & Hd & Ht & Hcc & Hc' & Hnf' & Hm & pre & Htr & Hpre).
      exists s'. split; [exact Hrun|]. repeat (split; [assumption|]).
      exists pre. split; assumption.
Qed.

(* ---- the disk after update_fat ---- *)
Definition fat_disk_after (o : option N) (D : disk) (this dup : N) (nb : block) : disk :=
  match o with
  | Some _ => disk_set (disk_set D this nb) dup nb
  | None => disk_set D this nb
  end.

Lemma fat_disk_after_this o D this dup nb : disk_get (fat_disk_after o D this dup nb) this = nb.
Proof.
  unfold fat_disk_after. destruct o.
  - destruct (N.eq_dec dup this) as [->|Hne].
    + apply disk_get_set_same.
    + rewrite disk_get_set_other by exact Hne. apply disk_get_set_same.
  - apply disk_get_set_same.
Qed.

Lemma fat_disk_after_dup sf D this dup nb : disk_get (fat_disk_after (Some sf) D this dup nb) dup = nb.
Proof. apply disk_get_set_same. Qed.

Lemma fat_disk_after_other o D this dup nb j : j <> this -> j <> dup ->
  disk_get (fat_disk_after o D this dup nb) j = disk_get D j.
Proof.
  intros H1 H2. unfold fat_disk_after. destruct o.
  - rewrite !disk_get_set_other by congruence. reflexivity.
  - rewrite disk_get_set_other by congruence. reflexivity.
Qed.

Lemma fat_sector_1_none v c : v_second_fat v = None -> fat_sector v 1 c = fat_sector v 0 c.
Proof. intros H. unfold fat_sector, fat_copy_sector, fat_copy_start. rewrite H. reflexivity. Qed.

Lemma fat_sector_quot v copy c c' :
  fat_sector v copy c' = fat_sector v copy c <-> (c' * fat_width v) / 512 = (c * fat_width v) / 512.
Proof.
  unfold fat_sector, fat_copy_sector.
  remember ((c' * fat_width v) / 512) as q'. remember ((c * fat_width v) / 512) as q. lia.
Qed.

(* MAIN THEOREM for update_fat (FAT16 and FAT32 at once; `enc`, `fat_width` select the type). *)
Theorem update_fat_spec vi c x s v :
  no_faults s -> cache_ok s -> nth_error (s_vols s) vi = Some v -> fat_addr_ok v c ->
  length (disk_get (s_disk s) (fat_sector v 0 c)) = 512%nat ->
  let this := fat_sector v 0 c in
  let dup := fat_sector v 1 c in
  exists s', update_fat vi c x s = (Ok tt, s') /\
    (* (a) entry c of the primary FAT now reads enc x, every other entry reads as before;
           c' ranges over the entries whose sector is not clobbered by the duplicate write,
           i.e. all entries inside the primary FAT when the copies do not overlap
           (see update_fat_get_geom) *)
    (forall c', fat_sector v 0 c' = this \/ fat_sector v 0 c' <> dup ->
       fat_get (s_disk s') v 0 c' = if c' =? c then enc v x else fat_get (s_disk s) v 0 c') /\
    (* (b) FAT32: the reserved top 4 bits of the 32-bit word are preserved *)
    (v_fat32 v = true ->
       N.land (fat_get_word32 (s_disk s') v 0 c) 4026531840
       = N.land (fat_get_word32 (s_disk s) v 0 c) 4026531840) /\
    (* (c) frame: only the addressed sector of each copy changes *)
    (forall j, j <> this -> j <> dup -> disk_get (s_disk s') j = disk_get (s_disk s) j) /\
    (* (d) device trace (newest first): optional read, write primary, write duplicate iff
           there is a second FAT; the same block image goes to both copies *)
    (exists nb pre,
       nb = fat_put_block v (disk_get (s_disk s) this) c x /\
       (pre = s_trace s \/ pre = DRead this :: s_trace s) /\
       s_trace s' = (match v_second_fat v with
                     | Some _ => DWrite dup nb :: DWrite this nb :: pre
                     | None => DWrite this nb :: pre end) /\
       disk_get (s_disk s') this = nb /\ disk_get (s_disk s') dup = nb) /\
    (* (e) invariants *)
    cache_ok s' /\ no_faults s' /\ same_mgr s s' /\
    (* (f) well-formed blocks stay well-formed *)
    ((forall j, is_block (disk_get (s_disk s) j)) -> forall j, is_block (disk_get (s_disk s') j)).
Proof.
  intros Hnf Hc Hv Hok Hlen this dup.
  destruct (update_fat_exec vi c x s v Hnf Hc Hv Hok)
    as (s' & Hrun & Hd & Ht & Hcc & Hc' & Hnf' & Hm & pre & Hpre & Htr).
  fold this dup in Hd, Ht, Hcc, Htr, Hpre.
  set (old := disk_get (s_disk s) this) in *.
  set (nb := fat_put_block v old c x) in *.
  fold (fat_disk_after (v_second_fat v) (s_disk s) this dup nb) in Hd.
  assert (Hthis : disk_get (s_disk s') this = nb) by (rewrite Hd; apply fat_disk_after_this).
  assert (Hdup : disk_get (s_disk s') dup = nb).
  { rewrite Hd. destruct (v_second_fat v) as [sf|] eqn:Esf.
    - apply fat_disk_after_dup.
    - subst dup. rewrite (fat_sector_1_none v c Esf). apply fat_disk_after_this. }
  assert (Hother : forall j, j <> this -> j <> dup -> disk_get (s_disk s') j = disk_get (s_disk s) j).
  { intros j H1 H2. rewrite Hd. apply fat_disk_after_other; assumption. }
  exists s'. split; [exact Hrun|]. split; [|split; [|split; [exact Hother|split]]].
  - (* a *)
    intros c' Hsec. unfold fat_get.
    destruct (N.eq_dec (fat_sector v 0 c') this) as [Es|Es].
    + rewrite Es, Hthis. destruct (N.eqb_spec c' c) as [->|Hne].
      * apply fat_put_block_same. exact Hlen.
      * apply fat_put_block_other; [exact Hlen | exact Hne |]. apply (fat_sector_quot v 0). exact Es.
    + assert (Hnd : fat_sector v 0 c' <> dup) by tauto.
      rewrite (Hother _ Es Hnd).
      destruct (N.eqb_spec c' c) as [->|Hne]; [contradiction Es; reflexivity | reflexivity].
  - (* b *)
    intros H32. unfold fat_get_word32. fold this. rewrite Hthis. apply fat_put_block_high; assumption.
  - (* d *)
    exists nb, pre. repeat split; assumption.
  - (* e, f *)
    repeat (split; [assumption|]).
    intros Hall j.
    destruct (N.eq_dec j this) as [->|H1]; [rewrite Hthis; apply fat_put_block_is_block, Hall|].
    destruct (N.eq_dec j dup) as [->|H2]; [rewrite Hdup; apply fat_put_block_is_block, Hall|].
    rewrite (Hother j H1 H2). apply Hall.
Qed.

(* FAT-type-specific readings of (a): the value read back *)
Corollary update_fat_spec_fat16 vi c x s v :
  no_faults s -> cache_ok s -> nth_error (s_vols s) vi = Some v -> fat_addr_ok v c ->
  length (disk_get (s_disk s) (fat_sector v 0 c)) = 512%nat -> v_fat32 v = false ->
  exists s', update_fat vi c x s = (Ok tt, s') /\
    fat_get (s_disk s') v 0 c = x mod 65536 /\
    le16 (disk_get (s_disk s') (fat_sector v 0 c)) ((c * 2) mod 512) = x mod 65536.
Proof.
  intros Hnf Hc Hv Hok Hlen H16.
  destruct (update_fat_spec vi c x s v Hnf Hc Hv Hok Hlen) as (s' & Hrun & Ha & _).
  exists s'. split; [exact Hrun|].
  specialize (Ha c (or_introl eq_refl)). rewrite N.eqb_refl in Ha.
  rewrite enc_mod, H16 in Ha. split; [exact Ha|].
  unfold fat_get, fat_entry, fat_off, fat_width in Ha. rewrite H16 in Ha. exact Ha.
Qed.

Corollary update_fat_spec_fat32 vi c x s v :
  no_faults s -> cache_ok s -> nth_error (s_vols s) vi = Some v -> fat_addr_ok v c ->
  length (disk_get (s_disk s) (fat_sector v 0 c)) = 512%nat -> v_fat32 v = true ->
  exists s', update_fat vi c x s = (Ok tt, s') /\
    fat_get (s_disk s') v 0 c = x mod 268435456 /\
    N.land (le32 (disk_get (s_disk s') (fat_sector v 0 c)) ((c * 4) mod 512)) 268435455 = x mod 268435456 /\
    N.land (le32 (disk_get (s_disk s') (fat_sector v 0 c)) ((c * 4) mod 512)) 4026531840
    = N.land (le32 (disk_get (s_disk s) (fat_sector v 0 c)) ((c * 4) mod 512)) 4026531840.
Proof.
  intros Hnf Hc Hv Hok Hlen H32.
  destruct (update_fat_spec vi c x s v Hnf Hc Hv Hok Hlen) as (s' & Hrun & Ha & Hb & _).
  exists s'. split; [exact Hrun|].
  specialize (Ha c (or_introl eq_refl)). rewrite N.eqb_refl in Ha.
  rewrite enc_mod, H32 in Ha. split; [exact Ha|]. specialize (Hb H32).
  unfold fat_get, fat_get_word32, fat_entry, fat_word32, fat_off, fat_width in Ha, Hb.
  rewrite H32 in Ha, Hb. split; [exact Ha | exact Hb].
Qed.

(* ---- geometry: the copies do not overlap ---- *)
(* fsz = sectors per FAT; the second copy (if any) starts at or after the end of the first *)
Definition fat_geom_ok (v : vol) (fsz : N) : Prop :=
  forall sf, v_second_fat v = Some sf -> v_fat_start v + fsz <= sf.

Lemma geom_no_clobber v fsz c c' : fat_geom_ok v fsz ->
  (c * fat_width v) / 512 < fsz -> (c' * fat_width v) / 512 < fsz ->
  fat_sector v 0 c' = fat_sector v 0 c \/ fat_sector v 0 c' <> fat_sector v 1 c.
Proof.
  intros Hg Hk Hk'. unfold fat_sector, fat_copy_sector, fat_copy_start.
  change (0 =? 0) with true. change (1 =? 0) with false. cbv iota.
  remember ((c' * fat_width v) / 512) as q'. remember ((c * fat_width v) / 512) as q.
  destruct (v_second_fat v) as [sf|] eqn:E.
  - specialize (Hg sf E). right. lia.
  - destruct (N.eq_dec q' q); [left|right]; lia.
Qed.

(* (a) for every entry inside the primary FAT *)
Theorem update_fat_get_geom vi c x s v fsz :
  no_faults s -> cache_ok s -> nth_error (s_vols s) vi = Some v -> fat_addr_ok v c ->
  length (disk_get (s_disk s) (fat_sector v 0 c)) = 512%nat ->
  fat_geom_ok v fsz -> (c * fat_width v) / 512 < fsz ->
  exists s', update_fat vi c x s = (Ok tt, s') /\
    forall c', (c' * fat_width v) / 512 < fsz ->
      fat_get (s_disk s') v 0 c' = if c' =? c then enc v x else fat_get (s_disk s) v 0 c'.
Proof.
  intros Hnf Hc Hv Hok Hlen Hg Hk.
  destruct (update_fat_spec vi c x s v Hnf Hc Hv Hok Hlen) as (s' & Hrun & Ha & _).
  exists s'. split; [exact Hrun|]. intros c' Hk'. apply Ha.
  apply (geom_no_clobber v fsz); assumption.
Qed.

(* ================================================================== 5. the mirror step (C16) *)
Definition fat_mirrored (d : disk) (v : vol) (fsz : N) : Prop :=
  forall k, k < fsz -> disk_get d (fat_copy_sector v 1 k) = disk_get d (fat_copy_sector v 0 k).

(* mirrored copies give the same entries *)
Lemma fat_mirrored_get d v fsz c : fat_mirrored d v fsz -> (c * fat_width v) / 512 < fsz ->
  fat_get d v 1 c = fat_get d v 0 c /\ fat_get_word32 d v 1 c = fat_get_word32 d v 0 c.
Proof.
  intros Hm Hk. unfold fat_get, fat_get_word32, fat_sector. rewrite (Hm _ Hk). split; reflexivity.
Qed.

Theorem C16_mirror_step vi c x s v fsz :
  no_faults s -> cache_ok s -> nth_error (s_vols s) vi = Some v -> fat_addr_ok v c ->
  fat_geom_ok v fsz -> (c * fat_width v) / 512 < fsz ->
  exists s', update_fat vi c x s = (Ok tt, s') /\
    (* the addressed sector is the same in both copies afterwards, whatever it was before *)
    disk_get (s_disk s') (fat_sector v 1 c) = disk_get (s_disk s') (fat_sector v 0 c) /\
    (* every other sector of both copies is unchanged *)
    (forall k, k < fsz -> k <> (c * fat_width v) / 512 ->
       disk_get (s_disk s') (fat_copy_sector v 0 k) = disk_get (s_disk s) (fat_copy_sector v 0 k) /\
       disk_get (s_disk s') (fat_copy_sector v 1 k) = disk_get (s_disk s) (fat_copy_sector v 1 k)) /\
    (* hence sector-wise equality of the two copies is an invariant of update_fat *)
    (fat_mirrored (s_disk s) v fsz -> fat_mirrored (s_disk s') v fsz).
Proof.
  intros Hnf Hc Hv Hok Hg Hk.
  destruct (update_fat_exec vi c x s v Hnf Hc Hv Hok)
    as (s' & Hrun & Hd & _).
  set (this := fat_sector v 0 c) in *. set (dup := fat_sector v 1 c) in *.
  set (nb := fat_put_block v (disk_get (s_disk s) this) c x) in *.
  fold (fat_disk_after (v_second_fat v) (s_disk s) this dup nb) in Hd.
  assert (Hthis : disk_get (s_disk s') this = nb) by (rewrite Hd; apply fat_disk_after_this).
  assert (Hdup : disk_get (s_disk s') dup = nb).
  { rewrite Hd. destruct (v_second_fat v) as [sf|] eqn:Esf.
    - apply fat_disk_after_dup.
    - subst dup. rewrite (fat_sector_1_none v c Esf). apply fat_disk_after_this. }
  assert (Hoth : forall k, k < fsz -> k <> (c * fat_width v) / 512 ->
       disk_get (s_disk s') (fat_copy_sector v 0 k) = disk_get (s_disk s) (fat_copy_sector v 0 k) /\
       disk_get (s_disk s') (fat_copy_sector v 1 k) = disk_get (s_disk s) (fat_copy_sector v 1 k)).
  { intros k Hkf Hne. rewrite Hd.
    assert (G : fat_copy_sector v 0 k <> this /\ fat_copy_sector v 0 k <> dup /\
                fat_copy_sector v 1 k <> this /\ fat_copy_sector v 1 k <> dup).
    { subst this dup. unfold fat_sector, fat_copy_sector, fat_copy_start.
      change (0 =? 0) with true. change (1 =? 0) with false. cbv iota.
      remember ((c * fat_width v) / 512) as q.
      destruct (v_second_fat v) as [sf|] eqn:E; [specialize (Hg sf E)|]; lia. }
    destruct G as (G1 & G2 & G3 & G4).
    split; apply fat_disk_after_other; assumption. }
  exists s'. split; [exact Hrun|]. split; [rewrite Hthis, Hdup; reflexivity|].
  split; [exact Hoth|].
  intros Hmir k Hkf.
  destruct (N.eq_dec k ((c * fat_width v) / 512)) as [->|Hne].
  - change (disk_get (s_disk s') dup = disk_get (s_disk s') this). rewrite Hthis, Hdup. reflexivity.
  - destruct (Hoth k Hkf Hne) as [E0 E1]. rewrite E0, E1. apply Hmir. exact Hkf.
Qed.

(* ================================================================== 6. next_cluster *)
(* the documented classification of a FAT entry *)
Definition classify16 (e : N) : outcome N :=
  if e =? 65527 then Err BadCluster                    (* 0xFFF7 *)
  else if 65528 <=? e then Err EndOfFile               (* 0xFFF8.. *)
  else Ok e.
Definition classify32 (e : N) : outcome N :=
  if e =? 0 then Err UnterminatedFatChain
  else if e =? 268435447 then Err BadCluster           (* 0x0FFFFFF7 *)
  else if (e =? 1) || (268435448 <=? e) then Err EndOfFile   (* 1, 0x0FFFFFF8.. *)
  else Ok e.
Definition classify (v : vol) (e : N) : outcome N :=
  if v_fat32 v then classify32 e else classify16 e.

Lemma classify16_spec e :
  (e = 65527 -> classify16 e = Err BadCluster) /\
  (65528 <= e -> classify16 e = Err EndOfFile) /\
  (e < 65527 -> classify16 e = Ok e).
Proof.
  unfold classify16. repeat split; intros H.
  - subst e. reflexivity.
  - destruct (N.eqb_spec e 65527); [lia|]. destruct (N.leb_spec 65528 e); [reflexivity|lia].
  - destruct (N.eqb_spec e 65527); [lia|]. destruct (N.leb_spec 65528 e); [lia|reflexivity].
Qed.

Lemma classify32_spec e :
  (e = 0 -> classify32 e = Err UnterminatedFatChain) /\
  (e = 268435447 -> classify32 e = Err BadCluster) /\
  (e = 1 \/ 268435448 <= e -> classify32 e = Err EndOfFile) /\
  (2 <= e -> e < 268435447 -> classify32 e = Ok e).
Proof.
  unfold classify32. repeat split.
  - intros ->. reflexivity.
  - intros ->. reflexivity.
  - intros H. destruct (N.eqb_spec e 0); [lia|]. destruct (N.eqb_spec e 268435447); [lia|].
    destruct (N.eqb_spec e 1); [reflexivity|]. destruct (N.leb_spec 268435448 e); [reflexivity|lia].
  - intros H1 H2. destruct (N.eqb_spec e 0); [lia|]. destruct (N.eqb_spec e 268435447); [lia|].
    destruct (N.eqb_spec e 1); [lia|]. destruct (N.leb_spec 268435448 e); [lia|reflexivity].
Qed.

Theorem next_cluster_spec v c s :
  no_faults s -> cache_ok s -> c <= 1073741823 -> fat_sector v 0 c < U32 ->
  exists s', next_cluster v c s = (classify v (fat_get (s_disk s) v 0 c), s') /\
    s_disk s' = s_disk s /\ cache_ok s' /\ no_faults s' /\ same_mgr s s' /\
    s_tag s' = Some (fat_sector v 0 c) /\
    (s_trace s' = s_trace s \/ s_trace s' = DRead (fat_sector v 0 c) :: s_trace s).
Proof.
  intros Hnf Hc Hle Hsec. unfold next_cluster.
  assert (Hg : (1073741823 <? c) = false) by (apply N.ltb_ge; exact Hle). rewrite Hg.
  unfold classify, fat_get, fat_entry, fat_sector, fat_copy_sector, fat_off, fat_copy_start, fat_width in *.
  change (0 =? 0) with true in *. cbv iota in *.
  destruct (v_fat32 v).
  - rewrite (bind_ok _ _ _ _ _ (fat_block_ok v (v_fat_start v) (c * 4) s Hsec)).
    destruct (cache_read_spec (v_lba v + (v_fat_start v + c * 4 / 512)) s Hnf Hc)
      as (s1 & Hr & Hd & Ht & Hcc & Hc1 & Hnf1 & Hm & Htr).
    rewrite (bind_ok _ _ _ _ _ Hr). cbv zeta.
    exists s1. split; [|repeat (split; [assumption|]); exact Htr].
    unfold classify32.
    set (e := N.land (le32 (disk_get (s_disk s) (v_lba v + (v_fat_start v + c * 4 / 512))) ((c * 4) mod 512)) 268435455).
    destruct (e =? 0); [reflexivity|]. destruct (e =? 268435447); [reflexivity|].
    destruct ((e =? 1) || (268435448 <=? e)); reflexivity.
  - rewrite (bind_ok _ _ _ _ _ (fat_block_ok v (v_fat_start v) (c * 2) s Hsec)).
    destruct (cache_read_spec (v_lba v + (v_fat_start v + c * 2 / 512)) s Hnf Hc)
      as (s1 & Hr & Hd & Ht & Hcc & Hc1 & Hnf1 & Hm & Htr).
    rewrite (bind_ok _ _ _ _ _ Hr). cbv zeta.
    exists s1. split; [|repeat (split; [assumption|]); exact Htr].
    unfold classify16.
    set (e := le16 (disk_get (s_disk s) (v_lba v + (v_fat_start v + c * 2 / 512))) ((c * 2) mod 512)).
    destruct (e =? 65527); [reflexivity|]. destruct (65528 <=? e); reflexivity.
Qed.

(* the guard: a cluster number above u32::MAX / 4 is a panic (and nothing else happens) *)
Theorem next_cluster_guard v c s : 1073741823 < c -> next_cluster v c s = (Panic, s).
Proof. intros H. unfold next_cluster. apply N.ltb_lt in H. rewrite H. reflexivity. Qed.

(* reading after writing: next_cluster sees what update_fat stored *)
Corollary next_after_update vi c x s v :
  no_faults s -> cache_ok s -> nth_error (s_vols s) vi = Some v -> fat_addr_ok v c ->
  length (disk_get (s_disk s) (fat_sector v 0 c)) = 512%nat -> c <= 1073741823 ->
  exists s' s'', update_fat vi c x s = (Ok tt, s') /\
    next_cluster v c s' = (classify v (enc v x), s'') /\ s_disk s'' = s_disk s' /\
    s_trace s'' = s_trace s'.
Proof.
  intros Hnf Hc Hv Hok Hlen Hle.
  destruct (update_fat_exec vi c x s v Hnf Hc Hv Hok)
    as (s' & Hrun & Hd & Ht & Hcc & Hc' & Hnf' & Hm & _).
  destruct (update_fat_spec vi c x s v Hnf Hc Hv Hok Hlen) as (s2 & Hrun2 & Ha & _).
  rewrite Hrun in Hrun2. inversion Hrun2; subst s2. clear Hrun2.
  specialize (Ha c (or_introl eq_refl)). rewrite N.eqb_refl in Ha.
  destruct Hok as (_ & H0 & _).
  exists s', s'. split; [exact Hrun|]. unfold next_cluster.
  assert (Hg : (1073741823 <? c) = false) by (apply N.ltb_ge; exact Hle). rewrite Hg.
  (* the sector is cached: no device call at all *)
  assert (Hcr : cache_read (fat_sector v 0 c) s' = (Ok (s_cache s'), s')).
  { unfold cache_read. rewrite (bind_ok _ _ _ _ _ (eq_refl : get s' = (Ok s', s'))). cbv beta.
    rewrite Ht. unfold opt_eqb. rewrite N.eqb_refl. reflexivity. }
  assert (Ecache : s_cache s' = disk_get (s_disk s') (fat_sector v 0 c)) by (apply Hc'; exact Ht).
  unfold classify, enc, fat_get, fat_entry, fat_sector, fat_copy_sector, fat_off, fat_copy_start, fat_width in *.
  change (0 =? 0) with true in *. cbv iota in *.
  destruct (v_fat32 v).
  - rewrite (bind_ok _ _ _ _ _ (fat_block_ok v (v_fat_start v) (c * 4) s' H0)).
    rewrite (bind_ok _ _ _ _ _ Hcr). cbv zeta. rewrite Ecache, Ha.
    split; [|split; reflexivity].
    unfold classify32. set (e := enc32 x).
    destruct (e =? 0); [reflexivity|]. destruct (e =? 268435447); [reflexivity|].
    destruct ((e =? 1) || (268435448 <=? e)); reflexivity.
  - rewrite (bind_ok _ _ _ _ _ (fat_block_ok v (v_fat_start v) (c * 2) s' H0)).
    rewrite (bind_ok _ _ _ _ _ Hcr). cbv zeta. rewrite Ecache, Ha.
    split; [|split; reflexivity].
    unfold classify16. set (e := enc16 x).
    destruct (e =? 65527); [reflexivity|]. destruct (65528 <=? e); reflexivity.
Qed.

(* ================================================================== 7. update_info_sector *)
(* read block i, then any program k that amounts to "change the cached block with f and
   write it back" *)
Lemma rmw_k i (k : M unit) f s : no_faults s -> cache_ok s ->
  (forall s0, k s0 = (cache_modify f ;;; write_back) s0) ->
  exists s',
    (_ <- cache_read i ;; k) s = (Ok tt, s') /\
    s_disk s' = disk_set (s_disk s) i (f (disk_get (s_disk s) i)) /\
    s_tag s' = Some i /\ s_cache s' = f (disk_get (s_disk s) i) /\
    cache_ok s' /\ no_faults s' /\ same_mgr s s' /\
    exists pre, s_trace s' = DWrite i (f (disk_get (s_disk s) i)) :: pre /\
                (pre = s_trace s \/ pre = DRead i :: s_trace s).
Proof.
  intros Hnf Hc Hk.
  assert (E : (_ <- cache_read i ;; k) s = (_ <- cache_read i ;; cache_modify f ;;; write_back) s).
  { unfold bind at 1 2. destruct (cache_read i s) as [[a|e| |] s1]; try reflexivity. apply Hk. }
  rewrite E. apply rmw_spec; assumption.
Qed.

(* the new FS-information sector: free count at 488, next-free hint at 492, little-endian *)
Definition info_put (v : vol) (b : block) : block :=
  let b1 := match v_free v with Some c => set_bytes b 488 (bytes32 c) | None => b end in
  match v_next_free v with Some c => set_bytes b1 492 (bytes32 c) | None => b1 end.

Lemma info_put_length v b : length b = 512%nat -> length (info_put v b) = 512%nat.
Proof.
  intros Hl. unfold info_put.
  destruct (v_free v), (v_next_free v); rewrite ?set_bytes_length; try exact Hl;
    rewrite ?set_bytes_length; cbn [length bytes32]; lia.
Qed.

Lemma info_put_is_block v b : is_block b -> is_block (info_put v b).
Proof.
  intros Hb. unfold info_put.
  destruct (v_free v), (v_next_free v); try exact Hb;
    repeat (apply set_bytes_is_block; [|cbn [length bytes32]; lia|apply bytes32_lt]); exact Hb.
Qed.

(* only bytes 488..495 can differ *)
Lemma info_put_outside v b i : length b = 512%nat -> i < 488 \/ 496 <= i ->
  get8 (info_put v b) i = get8 b i.
Proof.
  intros Hl Hi. unfold info_put.
  destruct (v_free v), (v_next_free v); try reflexivity.
  - rewrite get8_set_bytes_outside; [|rewrite set_bytes_length; cbn [length bytes32]; lia|cbn [length bytes32]; lia].
    rewrite get8_set_bytes_outside; [reflexivity|cbn [length bytes32]; lia|cbn [length bytes32]; lia].
  - rewrite get8_set_bytes_outside; [reflexivity|cbn [length bytes32]; lia|cbn [length bytes32]; lia].
  - rewrite get8_set_bytes_outside; [reflexivity|cbn [length bytes32]; lia|cbn [length bytes32]; lia].
Qed.

Lemma info_put_count v b : length b = 512%nat ->
  le32 (info_put v b) 488 = match v_free v with Some c => c mod 4294967296 | None => le32 b 488 end.
Proof.
  intros Hl. unfold info_put.
  destruct (v_free v), (v_next_free v); try reflexivity.
  - rewrite le32_set_bytes_other; [|rewrite set_bytes_length; cbn [length bytes32]; lia|lia].
    apply le32_set_bytes32. lia.
  - apply le32_set_bytes32. lia.
  - rewrite le32_set_bytes_other; [reflexivity|cbn [length bytes32]; lia|lia].
Qed.

Lemma info_put_hint v b : length b = 512%nat ->
  le32 (info_put v b) 492 = match v_next_free v with Some c => c mod 4294967296 | None => le32 b 492 end.
Proof.
  intros Hl. unfold info_put.
  destruct (v_free v), (v_next_free v); try reflexivity.
  - apply le32_set_bytes32. rewrite set_bytes_length; cbn [length bytes32]; lia.
  - rewrite le32_set_bytes_other; [reflexivity|cbn [length bytes32]; lia|cbn [length bytes32]; lia].
  - apply le32_set_bytes32. lia.
Qed.

(* FAT16: nothing happens at all *)
Theorem update_info_sector_fat16 vi s v :
  nth_error (s_vols s) vi = Some v -> v_fat32 v = false -> update_info_sector vi s = (Ok tt, s).
Proof.
  intros Hv H16. unfold update_info_sector. rewrite (bind_ok _ _ _ _ _ (get_vol_ok vi v s Hv)).
  rewrite H16. reflexivity.
Qed.

(* FAT32 with neither field known: nothing happens at all *)
Theorem update_info_sector_none vi s v :
  nth_error (s_vols s) vi = Some v -> v_free v = None -> v_next_free v = None ->
  update_info_sector vi s = (Ok tt, s).
Proof.
  intros Hv Hf Hn. unfold update_info_sector. rewrite (bind_ok _ _ _ _ _ (get_vol_ok vi v s Hv)).
  rewrite Hf, Hn. destruct (negb (v_fat32 v)); reflexivity.
Qed.

(* FAT32 with at least one field known: exactly one block, v_info, is rewritten *)
Theorem update_info_sector_spec vi s v :
  no_faults s -> cache_ok s -> nth_error (s_vols s) vi = Some v -> v_fat32 v = true ->
  v_free v <> None \/ v_next_free v <> None ->
  length (disk_get (s_disk s) (v_info v)) = 512%nat ->
  let old := disk_get (s_disk s) (v_info v) in
  exists s' nb, update_info_sector vi s = (Ok tt, s') /\
    s_disk s' = disk_set (s_disk s) (v_info v) nb /\
    disk_get (s_disk s') (v_info v) = nb /\
    (forall j, j <> v_info v -> disk_get (s_disk s') j = disk_get (s_disk s) j) /\
    length nb = 512%nat /\
    (forall i, i < 488 \/ 496 <= i -> get8 nb i = get8 old i) /\
    le32 nb 488 = match v_free v with Some c => c mod 4294967296 | None => le32 old 488 end /\
    le32 nb 492 = match v_next_free v with Some c => c mod 4294967296 | None => le32 old 492 end /\
    (is_block old -> is_block nb) /\
    cache_ok s' /\ no_faults s' /\ same_mgr s s' /\
    exists pre, s_trace s' = DWrite (v_info v) nb :: pre /\
                (pre = s_trace s \/ pre = DRead (v_info v) :: s_trace s).
Proof.
  intros Hnf Hc Hv H32 Hsome Hlen old.
  assert (Hrun : exists s',
    update_info_sector vi s = (Ok tt, s') /\
    s_disk s' = disk_set (s_disk s) (v_info v) (info_put v old) /\
    s_tag s' = Some (v_info v) /\ s_cache s' = info_put v old /\
    cache_ok s' /\ no_faults s' /\ same_mgr s s' /\
    exists pre, s_trace s' = DWrite (v_info v) (info_put v old) :: pre /\
                (pre = s_trace s \/ pre = DRead (v_info v) :: s_trace s)).
  { unfold update_info_sector. rewrite (bind_ok _ _ _ _ _ (get_vol_ok vi v s Hv)).
    rewrite H32. cbn [negb]. subst old. unfold info_put.
    destruct (v_free v) as [fc|], (v_next_free v) as [nf|].
    - apply (rmw_k (v_info v) _
               (fun b => set_bytes (set_bytes b 488 (bytes32 fc)) 492 (bytes32 nf)) s Hnf Hc).
      intros s0. reflexivity.
    - apply (rmw_k (v_info v) _ (fun b => set_bytes b 488 (bytes32 fc)) s Hnf Hc).
      intros s0. reflexivity.
    - apply (rmw_k (v_info v) _ (fun b => set_bytes b 492 (bytes32 nf)) s Hnf Hc).
      intros s0. reflexivity.
    - exfalso. destruct Hsome as [H|H]; apply H; reflexivity. }
  destruct Hrun as (s' & Hrun & Hd & Ht & Hcc & Hc' & Hnf' & Hm & Htr).
  exists s', (info_put v old). split; [exact Hrun|]. split; [exact Hd|].
  split; [rewrite Hd; apply disk_get_set_same|].
  split; [intros j Hj; rewrite Hd; apply disk_get_set_other; congruence|].
  split; [apply info_put_length; exact Hlen|].
  split; [intros i Hi; apply info_put_outside; assumption|].
  split; [apply info_put_count; exact Hlen|].
  split; [apply info_put_hint; exact Hlen|].
  split; [apply info_put_is_block|].
  repeat (split; [assumption|]). exact Htr.
Qed.

(* ================================================================== 8. examples *)
(* the hypotheses are satisfiable: a FAT16 and a FAT32 volume on an empty (all-zero) device *)
Definition ex_vol16 : vol :=
  mk_vol 0 0 2048 250000 [] 4 600 4 (Some 260) (Some 10) (Some 5) 60000 false 512 520 0 0.
Definition ex_vol32 : vol :=
  mk_vol 0 0 2048 1100000 [] 8 2100 32 (Some 1056) (Some 10) (Some 5) 130000 true 0 0 2049 2.
Definition ex_state (v : vol) : st :=
  mk_st (PositiveMap.empty block) zero_block None [v] [] [] 0 0 0 [] [] false 4 4 4.

Lemma ex_hyps v c fsz :
  (c * fat_width v <? U32) && (fat_sector v 0 c <? U32) && (fat_sector v 1 c <? U32) = true ->
  match v_second_fat v with Some sf => v_fat_start v + fsz <=? sf | None => true end = true ->
  no_faults (ex_state v) /\ cache_ok (ex_state v) /\ nth_error (s_vols (ex_state v)) 0 = Some v /\
  fat_addr_ok v c /\ length (disk_get (s_disk (ex_state v)) (fat_sector v 0 c)) = 512%nat /\
  fat_geom_ok v fsz /\ fat_mirrored (s_disk (ex_state v)) v fsz /\
  (forall j, is_block (disk_get (s_disk (ex_state v)) j)).
Proof.
  intros Ha Hg.
  apply andb_true_iff in Ha. destruct Ha as [Ha A3]. apply andb_true_iff in Ha. destruct Ha as [A1 A2].
  apply N.ltb_lt in A1, A2, A3.
  assert (Hz : forall j, disk_get (s_disk (ex_state v)) j = zero_block).
  { intros j. unfold disk_get. cbn [s_disk ex_state]. rewrite PositiveMap.gempty. reflexivity. }
  split; [intros n []|]. split; [intros i H; discriminate|]. split; [reflexivity|].
  split; [repeat split; assumption|]. split; [rewrite Hz; reflexivity|].
  split.
  { intros sf E. rewrite E in Hg. apply N.leb_le. exact Hg. }
  split; [intros k _; rewrite !Hz; reflexivity|].
  intros j. rewrite Hz. apply zero_block_is_block.
Qed.

Example ex_hyps16 :
  no_faults (ex_state ex_vol16) /\ cache_ok (ex_state ex_vol16) /\
  nth_error (s_vols (ex_state ex_vol16)) 0 = Some ex_vol16 /\
  fat_addr_ok ex_vol16 300 /\
  length (disk_get (s_disk (ex_state ex_vol16)) (fat_sector ex_vol16 0 300)) = 512%nat /\
  fat_geom_ok ex_vol16 256 /\ fat_mirrored (s_disk (ex_state ex_vol16)) ex_vol16 256 /\
  (forall j, is_block (disk_get (s_disk (ex_state ex_vol16)) j)).
Proof. apply ex_hyps; reflexivity. Qed.

Example ex_hyps32 :
  no_faults (ex_state ex_vol32) /\ cache_ok (ex_state ex_vol32) /\
  nth_error (s_vols (ex_state ex_vol32)) 0 = Some ex_vol32 /\
  fat_addr_ok ex_vol32 70000 /\
  length (disk_get (s_disk (ex_state ex_vol32)) (fat_sector ex_vol32 0 70000)) = 512%nat /\
  fat_geom_ok ex_vol32 1024 /\ fat_mirrored (s_disk (ex_state ex_vol32)) ex_vol32 1024 /\
  (forall j, is_block (disk_get (s_disk (ex_state ex_vol32)) j)).
Proof. apply ex_hyps; reflexivity. Qed.

(* and the model really runs there: END_OF_FILE stored for a cluster, both copies, three
   device calls (read, write, write) *)
Example ex_run16 :
  match update_fat 0 300 CL_EOF (ex_state ex_vol16) with
  | (Ok tt, s') => fat_get (s_disk s') ex_vol16 0 300 = 65535 /\ fat_get (s_disk s') ex_vol16 1 300 = 65535 /\
                   fat_get (s_disk s') ex_vol16 0 301 = 0 /\ length (s_trace s') = 3%nat /\
                   fst (next_cluster ex_vol16 300 s') = Err EndOfFile
  | _ => False
  end.
Proof. vm_compute. repeat split; reflexivity. Qed.

Example ex_run32 :
  match update_fat 0 70000 CL_EOF (ex_state ex_vol32) with
  | (Ok tt, s') => fat_get (s_disk s') ex_vol32 0 70000 = 268435455 /\
                   fat_get (s_disk s') ex_vol32 1 70000 = 268435455 /\
                   fat_get (s_disk s') ex_vol32 0 70001 = 0 /\ length (s_trace s') = 3%nat /\
                   fst (next_cluster ex_vol32 70000 s') = Err EndOfFile /\
                   fst (next_cluster ex_vol32 70001 s') = Err UnterminatedFatChain
  | _ => False
  end.
Proof. vm_compute. repeat split; reflexivity. Qed.

Example ex_info32 :
  match update_info_sector 0 (ex_state ex_vol32) with
  | (Ok tt, s') => le32 (disk_get (s_disk s') 2049) 488 = 10 /\ le32 (disk_get (s_disk s') 2049) 492 = 5 /\
                   length (s_trace s') = 2%nat
  | _ => False
  end.
Proof. vm_compute. repeat split; reflexivity. Qed.

(* ================================================================== assumptions *)
Print Assumptions le16_set_bytes16.
Print Assumptions le32_set_bytes32.
Print Assumptions le16_set_bytes_other.
Print Assumptions le32_set_bytes_other.
Print Assumptions set_bytes_is_block.
Print Assumptions write_back_fault.
Print Assumptions write_back_dup_fault.
Print Assumptions rmw_dup_spec.
Print Assumptions update_fat_spec.
Print Assumptions update_fat_spec_fat16.
Print Assumptions update_fat_spec_fat32.
Print Assumptions update_fat_get_geom.
Print Assumptions C16_mirror_step.
Print Assumptions next_cluster_spec.
Print Assumptions next_cluster_guard.
Print Assumptions next_after_update.
Print Assumptions update_info_sector_fat16.
Print Assumptions update_info_sector_none.
Print Assumptions update_info_sector_spec.
