(* MODEL, layer B: src/volume_mgr.rs (VolumeManager), the mount path (open_raw_volume,
   parse_volume, Bpb, InfoSector), src/filesystem/files.rs (FileInfo, embedded-io
   adapters).  One Gallina function per Rust method; `step` interprets script ops.
   No proofs here. *)
From Coq Require Import NArith ZArith List Bool.
From SdFs Require Import FsTypes FsBase FsFat.
Import ListNotations.
Open Scope N_scope.

Definition MAX_FILE_SIZE : N := 4294967295.

(* every Result-returning method starts with try_borrow(_mut) -> LockError *)
Definition locked {A} (m : M A) : M A :=
  s <- get ;; if s_lock s then fail LockError else m.

Definition generate : M N :=
  s <- get ;; modify (fun s => set_s_next_id s ((s_next_id s + 1) mod U32)) ;;; ret (s_next_id s).

Fixpoint find_idx {A} (p : A -> bool) (l : list A) (i : nat) : option nat :=
  match l with
  | [] => None
  | x :: t => if p x then Some i else find_idx p t (S i)
  end.
Definition get_volume_by_id (id : N) : M nat :=
  s <- get ;; match find_idx (fun v => v_id v =? id) (s_vols s) 0 with Some i => ret i | None => fail BadHandle end.
Definition get_dir_by_id (id : N) : M nat :=
  s <- get ;; match find_idx (fun d => d_id d =? id) (s_dirs s) 0 with Some i => ret i | None => fail BadHandle end.
Definition get_file_by_id (id : N) : M nat :=
  s <- get ;; match find_idx (fun f => f_id f =? id) (s_files s) 0 with Some i => ret i | None => fail BadHandle end.
Definition get_dir (i : nat) : M dirinfo :=
  s <- get ;; match nth_error (s_dirs s) i with Some d => ret d | None => panic end.
Definition get_file (i : nat) : M fileinfo :=
  s <- get ;; match nth_error (s_files s) i with Some f => ret f | None => panic end.
Definition put_file (i : nat) (f : fileinfo) : M unit :=
  modify (fun s => set_s_files s (list_set (s_files s) i f)).

(* heapless::Vec::swap_remove *)
Definition swap_remove {A} (l : list A) (i : nat) : list A :=
  match rev l with
  | [] => l
  | last :: _ =>
      let n := length l in
      if Nat.eqb i (n - 1) then firstn (n - 1) l
      else firstn (n - 1) (list_set l i last)
  end.

Definition is_full {A} (l : list A) (cap : N) : bool := cap <=? N.of_nat (length l).

Definition file_is_open (vol_id : N) (e : dirent) : M bool :=
  s <- get ;;
  ret (existsb (fun f => (f_vol f =? vol_id) && (e_block (f_entry f) =? e_block e)
                         && (e_offset (f_entry f) =? e_offset e)) (s_files s)).

(* ---- mount: open_raw_volume + parse_volume + Bpb::create_from_bytes + InfoSector ---- *)
Definition partition_type_ok (t : N) : bool := existsb (N.eqb t) [11; 12; 14; 6; 4].

Definition bpb_fat_size (b : block) : N := if le16 b 22 =? 0 then le32 b 36 else le16 b 22.
Definition bpb_total_blocks (b : block) : N := if le16 b 19 =? 0 then le32 b 32 else le16 b 19.

(* returns (cluster_count, fat32) *)
Definition bpb_create (b : block) : M (N * bool) :=
  if negb (le16 b 510 =? 43605) then fail FormatError else
  let root_dir_blocks := from_bytes (le16 b 17 * 32) in
  let nd1 := get8 b 16 * bpb_fat_size b in
  if U32 <=? nd1 then fail FormatError else
  let nd2 := nd1 + le16 b 14 in
  if U32 <=? nd2 then fail FormatError else
  let non_data := nd2 + root_dir_blocks in
  if U32 <=? non_data then fail FormatError else
  if bpb_total_blocks b <? non_data then fail FormatError else
  let data_blocks := bpb_total_blocks b - non_data in
  if get8 b 13 =? 0 then fail FormatError else
  let cc := data_blocks / get8 b 13 in
  if cc <? 4085 then fail FormatError
  else if cc <? 65525 then ret (cc, false)
  else if le16 b 42 =? 0 then ret (cc, true) else fail FormatError.

Definition parse_volume (id idx lba_start num_blocks : N) : M vol :=
  b <- cache_read lba_start ;;
  '(cc, fat32) <- bpb_create b ;;
  if U32 <=? lba_start + bpb_total_blocks b then fail FormatError else
  if (le16 b 14 =? 0) || (get8 b 16 =? 0) then fail FormatError else
  (* u64 arithmetic in the code: no overflow *)
  if bpb_fat_size b * 512 <? (cc + 2) * (if fat32 then 4 else 2) then fail FormatError else
  let fat_start := le16 b 14 in
  second <- (if get8 b 16 =? 2 then x <- add32 fat_start (bpb_fat_size b) ;; ret (Some x) else ret None) ;;
  if fat32 then
    nf <- mul32 (get8 b 16) (bpb_fat_size b) ;;
    first_data <- add32 fat_start nf ;;
    if 268435445 <? cc then fail FormatError else
    let info_location := le16 b 48 in
    if (info_location =? 0) || (fat_start <=? info_location) then fail FormatError else
    info_abs <- add32 lba_start info_location ;;
    let v := mk_vol id idx lba_start num_blocks (slice b 71 11) (get8 b 13) first_data fat_start second
                    None None cc true 0 0 info_abs (le32 b 44) in
    ib <- cache_read info_abs ;;
    if negb (le32 ib 0 =? 1096897106) then fail FormatError else
    if negb (le32 ib 484 =? 1631679090) then fail FormatError else
    if negb (le32 ib 508 =? 2857697280) then fail FormatError else
    let fc := le32 ib 488 in
    let nx := le32 ib 492 in
    ret (set_v_next_free (set_v_free v (if fc =? 4294967295 then None else Some fc))
           (if (nx =? 4294967295) || (nx =? 0) || (nx =? 1) || (cc + 2 <=? nx) then None else Some nx))
  else
    if negb (le16 b 11 =? 512) then fail BadBlockSize else
    let root_dir_blocks := (le16 b 17 * 32 + 511) / 512 in
    nf <- mul32 (get8 b 16) (bpb_fat_size b) ;;
    first_root <- add32 fat_start nf ;;
    first_data <- add32 first_root root_dir_blocks ;;
    ret (mk_vol id idx lba_start num_blocks (slice b 43 11) (get8 b 13) first_data fat_start second
                None None cc false (le16 b 17) first_root 0 0).

Definition open_raw_volume (idx : N) : M N := locked (
  s <- get ;;
  if is_full (s_vols s) (s_maxv s) then fail TooManyOpenVolumes else
  if existsb (fun v => v_idx v =? idx) (s_vols s) then fail VolumeAlreadyOpen else
  b <- cache_read 0 ;;
  if negb (le16 b 510 =? 43605) then fail FormatError else
  if 4 <=? idx then fail NoSuchVolume else
  let p := 446 + 16 * idx in
  if negb (N.land (get8 b p) 127 =? 0) then fail FormatError else
  let lba_start := le32 b (p + 8) in
  let num_blocks := le32 b (p + 12) in
  if negb (partition_type_ok (get8 b (p + 4))) then fail FormatError else
  (* the id is generated after a successful parse *)
  v <- parse_volume 0 idx lba_start num_blocks ;;
  id <- generate ;;
  modify (fun s => set_s_vols s (s_vols s ++ [set_v_id v id])) ;;;
  ret id).

Definition push_dir (d : dirinfo) : M unit :=
  s <- get ;;
  if is_full (s_dirs s) (s_maxd s) then fail TooManyOpenDirs
  else modify (fun s => set_s_dirs s (s_dirs s ++ [d])).

(* NB: the volume handle is not looked up (the crate's own test suite relies on it) *)
Definition open_root_dir (volume : N) : M N := locked (
  id <- generate ;;
  push_dir (mk_dirinfo id volume CL_ROOT) ;;;
  ret id).

Definition open_dir (parent : N) (name : list N) : M N := locked (
  s <- get ;;
  if is_full (s_dirs s) (s_maxd s) then fail TooManyOpenDirs else
  pi <- get_dir_by_id parent ;;
  pd <- get_dir pi ;;
  vi <- get_volume_by_id (d_vol pd) ;;
  v <- get_vol vi ;;
  match sfn_of_str name with
  | None => fail FilenameError
  | Some sfn =>
      if list_eqb sfn THIS_DIR_NAME then
        id <- generate ;; push_dir (mk_dirinfo id (v_id v) (d_cluster pd)) ;;; ret id
      else
        e <- find_directory_entry vi (d_cluster pd) sfn ;;
        if negb (is_directory (e_attr e)) then fail OpenedFileAsDir else
        id <- generate ;; push_dir (mk_dirinfo id (v_id v) (e_cluster e)) ;;; ret id
  end).

Definition close_dir (d : N) : M unit := locked (
  i <- get_dir_by_id d ;;
  modify (fun s => set_s_dirs s (swap_remove (s_dirs s) i))).

Definition close_volume (volume : N) : M unit := locked (
  s <- get ;;
  if existsb (fun f => f_vol f =? volume) (s_files s) then fail VolumeStillInUse else
  if existsb (fun d => d_vol d =? volume) (s_dirs s) then fail VolumeStillInUse else
  vi <- get_volume_by_id volume ;;
  update_info_sector vi ;;;
  modify (fun s => set_s_vols s (swap_remove (s_vols s) vi))).

Definition mgr_find (d : N) (name : list N) : M dirent := locked (
  di <- get_dir_by_id d ;;
  dd <- get_dir di ;;
  vi <- get_volume_by_id (d_vol dd) ;;
  match sfn_of_str name with
  | None => fail FilenameError
  | Some sfn => find_directory_entry vi (d_cluster dd) sfn
  end).

(* iterate_dir: LFN entries hidden; the lock is held during the callbacks.
   `inner` is run from inside the first callback (re-entrancy probe) *)
Definition mgr_iterate {R} (d : N) (inner : M R) : M (list dirent * option (R + err)) := locked (
  di <- get_dir_by_id d ;;
  dd <- get_dir di ;;
  vi <- get_volume_by_id (d_vol dd) ;;
  all <- iterate_dir_all vi (d_cluster dd) ;;
  let shown := filter (fun e => negb (is_lfn (e_attr e))) all in
  match shown with
  | [] => ret (shown, None)
  | _ =>
      modify (fun s => set_s_lock s true) ;;;
      r <- try inner ;;
      modify (fun s => set_s_lock s false) ;;;
      ret (shown, Some r)
  end).

Definition solve_mode_variant (m : mode) (is_some : bool) : mode :=
  match m with
  | ReadWriteCreateOrAppend => if is_some then ReadWriteAppend else ReadWriteCreate
  | ReadWriteCreateOrTruncate => if is_some then ReadWriteTruncate else ReadWriteCreate
  | _ => m
  end.
Definition mode_eqb (a b : mode) : bool :=
  match a, b with
  | ReadOnly, ReadOnly | ReadWriteAppend, ReadWriteAppend | ReadWriteTruncate, ReadWriteTruncate
  | ReadWriteCreate, ReadWriteCreate | ReadWriteCreateOrTruncate, ReadWriteCreateOrTruncate
  | ReadWriteCreateOrAppend, ReadWriteCreateOrAppend => true
  | _, _ => false
  end.
Definition creating (m : mode) : bool :=
  match m with ReadWriteCreate | ReadWriteCreateOrTruncate | ReadWriteCreateOrAppend => true | _ => false end.

Definition push_file (f : fileinfo) : M unit :=     (* push_unchecked *)
  modify (fun s => set_s_files s (s_files s ++ [f])).

Definition open_file_in_dir (d : N) (name : list N) (md : mode) : M N := locked (
  s <- get ;;
  if is_full (s_files s) (s_maxf s) then fail TooManyOpenFiles else
  di <- get_dir_by_id d ;;
  dd <- get_dir di ;;
  let volume_id := d_vol dd in
  vi <- get_volume_by_id volume_id ;;
  v <- get_vol vi ;;
  match sfn_of_str name with
  | None => fail FilenameError
  | Some sfn =>
      if list_eqb sfn THIS_DIR_NAME || list_eqb sfn PARENT_DIR_NAME then fail OpenedDirAsFile else
      r <- try (find_directory_entry vi (d_cluster dd) sfn) ;;
      oe <- match r with
            | inl e => ret (Some e)
            | inr NotFound => if creating md then ret None else fail NotFound
            | inr e => fail e
            end ;;
      op <- match oe with Some e => file_is_open (v_id v) e | None => ret false end ;;
      if op then fail FileAlreadyOpen else
      let md1 := solve_mode_variant md (match oe with Some _ => true | None => false end) in
      match md1 with
      | ReadWriteCreate =>
          match oe with
          | Some _ => fail FileAlreadyExists
          | None =>
              vi2 <- get_volume_by_id volume_id ;;
              entry <- write_new_directory_entry vi2 (d_cluster dd) sfn 0 CL_EMPTY ;;
              id <- generate ;;
              push_file (mk_fileinfo id volume_id 0 (e_cluster entry) 0 md1 entry false) ;;;
              ret id
          end
      | _ =>
          match oe with
          | None => panic
          | Some e =>
              if is_read_only (e_attr e) && negb (mode_eqb md1 ReadOnly) then fail ReadOnlyErr else
              if is_directory (e_attr e) then fail OpenedDirAsFile else
              op2 <- file_is_open volume_id e ;;
              if op2 then fail FileAlreadyOpen else
              id <- generate ;;
              let f0 := mk_fileinfo id volume_id 0 (e_cluster e) 0 md1 e false in
              match md1 with
              | ReadOnly => push_file f0 ;;; ret id
              | ReadWriteAppend => push_file (set_f_offset f0 (e_size e)) ;;; ret id
              | ReadWriteTruncate =>
                  truncate_cluster_chain vi (e_cluster e) ;;;
                  now <- get_timestamp ;;
                  let e' := set_e_mtime (set_e_size e 0) now in
                  v' <- get_vol vi ;;
                  write_entry_to_disk v' e' ;;;
                  push_file (set_f_entry f0 e') ;;; ret id
              | _ => fail Unsupported
              end
          end
      end
  end).

Definition delete_file_in_dir (d : N) (name : list N) : M unit := locked (
  di <- get_dir_by_id d ;;
  dd <- get_dir di ;;
  vi <- get_volume_by_id (d_vol dd) ;;
  match sfn_of_str name with
  | None => fail FilenameError
  | Some sfn =>
      e <- find_directory_entry vi (d_cluster dd) sfn ;;
      if is_directory (e_attr e) then fail DeleteDirAsFile else
      op <- file_is_open (d_vol dd) e ;;
      if op then fail FileAlreadyOpen else
      vi2 <- get_volume_by_id (d_vol dd) ;;
      delete_directory_entry vi2 (d_cluster dd) sfn ;;;
      free_cluster_chain vi2 (e_cluster e)
  end).

(* VolumeName::name(): trailing ASCII whitespace trimmed *)
Definition is_ascii_ws (c : N) : bool := existsb (N.eqb c) [32; 9; 10; 12; 13].
Fixpoint trim_rev (l : list N) : list N :=
  match l with x :: t => if is_ascii_ws x then trim_rev t else l | [] => [] end.

Definition get_root_volume_label (volume : N) : M (option (list N)) := locked (
  vi <- get_volume_by_id volume ;;
  v <- get_vol vi ;;
  match trim_rev (rev (v_name v)) with
  | _ :: _ => ret (Some (v_name v))
  | [] =>
      rd <- open_root_dir volume ;;
      r <- try (mgr_iterate rd (ret tt)) ;;
      _ <- try (close_dir rd) ;;                    (* Directory dropped *)
      match r with
      | inr e => fail e
      | inl (es, _) =>
          match filter (fun e => e_attr e =? A_VOLUME) es with
          | e :: _ => ret (Some (e_name e))
          | [] => ret None
          end
      end
  end).

(* ---- files ---- *)
Definition f_eof (f : fileinfo) : bool := f_offset f =? e_size (f_entry f).
Definition f_left (f : fileinfo) : M N := sub32 (e_size (f_entry f)) (f_offset f).

(* find_data_on_disk: `start` is updated in place even when the walk fails part-way,
   so the new start is always returned, next to the triple or the error *)
Fixpoint fdod_walk (n : nat) (v : vol) (so sc : N) : M ((N * N) * option err) :=
  match n with
  | O => ret ((so, sc), None)
  | S n' =>
      r <- try (next_cluster v sc) ;;
      match r with
      | inl c => so' <- add32 so (bytes_per_cluster v) ;; fdod_walk n' v so' c
      | inr e => ret ((so, sc), Some e)
      end
  end.
Definition find_data_on_disk (vi : nat) (start : N * N) (file_start desired : N)
  : M ((N * N) * ((N * N * N) + err)) :=
  v <- get_vol vi ;;
  let bpc := bytes_per_cluster v in
  let '(so, sc) := if desired <? fst start then (0, file_start) else start in
  if bpc =? 0 then panic else
  '(st', oe) <- fdod_walk (N.to_nat ((desired - so) / bpc)) v so sc ;;
  match oe with
  | Some e => ret (st', inr e)
  | None =>
      let '(so', sc') := st' in
      ofc <- sub32 desired so' ;;
      if negb (ofc <? bpc) then panic else
      cb <- cluster_to_block v sc' ;;
      blk <- add32 cb (ofc / 512) ;;
      ret (st', inl (blk, desired mod 512, 512 - desired mod 512))
  end.

Fixpoint read_loop (fuel : nat) (fi vi : nat) (space : N) (acc : list N) : M (list N) :=
  match fuel with
  | O => out_of_fuel
  | S fu =>
      f <- get_file fi ;;
      if (0 <? space) && negb (f_eof f) then
        '(cur, r) <- find_data_on_disk vi (f_cur_off f, f_cur_cluster f) (e_cluster (f_entry f)) (f_offset f) ;;
        match r with
        | inr e => fail e
        | inl (blk, boff, bavail) =>
            put_file fi (set_f_cur_cluster (set_f_cur_off f (fst cur)) (snd cur)) ;;;
            b <- cache_read blk ;;
            left <- f_left f ;;
            let to_copy := N.min (N.min bavail space) left in
            if to_copy =? 0 then panic else
            f1 <- get_file fi ;;
            put_file fi (set_f_offset f1 (f_offset f1 + to_copy)) ;;;
            read_loop fu fi vi (space - to_copy) (acc ++ slice b boff to_copy)
        end
      else ret acc
  end.
Definition mgr_read (file n : N) : M (list N) := locked (
  fi <- get_file_by_id file ;;
  f <- get_file fi ;;
  vi <- get_volume_by_id (f_vol f) ;;
  read_loop (N.to_nat (n / 512) + 3) fi vi n []).

Fixpoint write_loop (fuel : nat) (fi vi : nat) (data : list N) : M unit :=
  match fuel with
  | O => out_of_fuel
  | S fu =>
      match data with
      | [] => ret tt
      | _ =>
          f <- get_file fi ;;
          let fstart := e_cluster (f_entry f) in
          '(cur, r) <- find_data_on_disk vi (f_cur_off f, f_cur_cluster f) fstart (f_offset f) ;;
          x <- match r with
               | inl vars => ret (cur, vars)
               | inr EndOfFile =>
                   a <- try (alloc_cluster vi (Some (snd cur)) false) ;;
                   match a with
                   | inr _ => fail DiskFull
                   | inl _ =>
                       '(cur2, r2) <- find_data_on_disk vi cur fstart (f_offset f) ;;
                       match r2 with
                       | inl vars => ret (cur2, vars)
                       | inr _ => fail AllocationError
                       end
                   end
               | inr e => fail e
               end ;;
          let '(cur', (blk, boff, bavail)) := x in
          let to_copy := N.min bavail (N.of_nat (length data)) in
          (if (boff =? 0) && (to_copy =? bavail) then blank_mut blk
           else _ <- cache_read blk ;; ret tt) ;;;
          cache_modify (fun b => set_bytes b boff (firstn (N.to_nat to_copy) data)) ;;;
          write_back ;;;
          f1 <- get_file fi ;;
          let new_offset := f_offset f1 + to_copy in
          let e1 := if e_size (f_entry f1) <? new_offset then set_e_size (f_entry f1) new_offset else f_entry f1 in
          put_file fi (set_f_offset (set_f_entry (set_f_cur_cluster (set_f_cur_off f1 (fst cur')) (snd cur')) e1) new_offset) ;;;
          write_loop fu fi vi (skipn (N.to_nat to_copy) data)
      end
  end.

Definition mgr_write (file : N) (data : list N) : M unit := locked (
  fi <- get_file_by_id file ;;
  f <- get_file fi ;;
  vi <- get_volume_by_id (f_vol f) ;;
  if mode_eqb (f_mode f) ReadOnly then fail ReadOnlyErr else
  put_file fi (set_f_dirty f true) ;;;
  (if e_cluster (f_entry f) <? RESERVED_ENTRIES then
     c <- alloc_cluster vi None false ;;
     f1 <- get_file fi ;;
     put_file fi (set_f_entry f1 (set_e_cluster (f_entry f1) c))
   else ret tt) ;;;
  f2 <- get_file fi ;;
  vi2 <- get_volume_by_id (f_vol f2) ;;
  (if f_cur_cluster f2 <? e_cluster (f_entry f2)
   then put_file fi (set_f_cur_cluster (set_f_cur_off f2 0) (e_cluster (f_entry f2)))
   else ret tt) ;;;
  f3 <- get_file fi ;;
  let to_write := N.min (N.of_nat (length data)) (MAX_FILE_SIZE - f_offset f3) in
  write_loop (N.to_nat (to_write / 512) + 3) fi vi2 (firstn (N.to_nat to_write) data) ;;;
  f4 <- get_file fi ;;
  now <- get_timestamp ;;
  let e := f_entry f4 in
  put_file fi (set_f_entry f4 (set_e_mtime (set_e_attr e (N.lor (e_attr e) A_ARCHIVE)) now))).

Definition flush_file (file : N) : M unit := locked (
  fi <- get_file_by_id file ;;
  f <- get_file fi ;;
  if f_dirty f then
    vi <- get_volume_by_id (f_vol f) ;;
    update_info_sector vi ;;;
    if negb (e_size (f_entry f) =? 0) && (e_cluster (f_entry f) =? 0) then panic else
    v <- get_vol vi ;;
    write_entry_to_disk v (f_entry f)
  else ret tt).

Definition close_file (file : N) : M unit :=
  r <- try (flush_file file) ;;
  locked (
    fi <- get_file_by_id file ;;
    modify (fun s => set_s_files s (swap_remove (s_files s) fi)) ;;;
    match r with inl _ => ret tt | inr e => fail e end).

Definition has_open_handles : M bool :=
  s <- get ;; ret (negb (match s_dirs s, s_files s with [], [] => true | _, _ => false end)).

Definition with_file {A} (file : N) (k : nat -> fileinfo -> M A) : M A := locked (
  fi <- get_file_by_id file ;; f <- get_file fi ;; k fi f).

Definition file_eof (file : N) : M bool := with_file file (fun _ f => ret (f_eof f)).
Definition file_length (file : N) : M N := with_file file (fun _ f => ret (e_size (f_entry f))).
Definition file_offset (file : N) : M N := with_file file (fun _ f => ret (f_offset f)).
Definition file_seek_from_start (file off : N) : M unit := with_file file (fun fi f =>
  if e_size (f_entry f) <? off then fail InvalidOffset else put_file fi (set_f_offset f off)).
Definition file_seek_from_end (file off : N) : M unit := with_file file (fun fi f =>
  if e_size (f_entry f) <? off then fail InvalidOffset else put_file fi (set_f_offset f (e_size (f_entry f) - off))).
Definition file_seek_from_current (file : N) (off : Z) : M unit := with_file file (fun fi f =>
  let n := (Z.of_N (f_offset f) + off)%Z in
  if (n <? 0)%Z || (Z.of_N (e_size (f_entry f)) <? n)%Z then fail InvalidOffset
  else put_file fi (set_f_offset f (Z.to_N n))).

Definition make_dir_in_dir (d : N) (name : list N) : M unit := locked (
  s <- get ;;
  if is_full (s_dirs s) (s_maxd s) then fail TooManyOpenDirs else
  di <- get_dir_by_id d ;;
  dd <- get_dir di ;;
  vi <- get_volume_by_id (d_vol dd) ;;
  match sfn_of_str name with
  | None => fail FilenameError
  | Some sfn =>
      if list_eqb sfn THIS_DIR_NAME || list_eqb sfn PARENT_DIR_NAME then fail DirAlreadyExists else
      r <- try (find_directory_entry vi (d_cluster dd) sfn) ;;
      match r with
      | inl e => if is_directory (e_attr e) then fail DirAlreadyExists else fail FileAlreadyExists
      | inr NotFound => make_dir vi (d_cluster dd) sfn A_DIRECTORY
      | inr e => fail e
      end
  end).

(* ---- embedded-io adapters (src/filesystem/files.rs) ---- *)
Inductive whence := FromStart | FromEnd | FromCurrent.
Definition io_seek (file : N) (w : whence) (x : Z) : M N :=
  (match w with
   | FromStart => if (x <? 0)%Z || (4294967295 <? x)%Z then fail InvalidOffset
                  else file_seek_from_start file (Z.to_N x)
   | FromEnd =>
       if (x =? -9223372036854775808)%Z then fail InvalidOffset else
       let y := (- x)%Z in
       if (y <? 0)%Z || (4294967295 <? y)%Z then fail InvalidOffset
       else file_seek_from_end file (Z.to_N y)
   | FromCurrent =>
       if (x <? -2147483648)%Z || (2147483647 <? x)%Z then fail InvalidOffset
       else file_seek_from_current file x
   end) ;;;
  r <- try (file_offset file) ;;
  match r with inl o => ret o | inr _ => panic end.     (* .expect("Corrupt file ID") *)
Definition io_read (file n : N) : M (list N) := if n =? 0 then ret [] else mgr_read file n.
Definition io_write (file : N) (data : list N) : M N :=
  match data with [] => ret 0 | _ => mgr_write file data ;;; ret (N.of_nat (length data)) end.

(* ---- script ops ---- *)
Inductive res :=
  | RUnit | RHandle (h : N) | RNum (n : N) | RBool (b : bool) | RBytes (l : list N)
  | REntry (e : dirent) | RIter (l : list dirent) (inner : option (res + err)) | RLabel (o : option (list N)).

Inductive op :=
  | OpenVol (idx : N) | CloseVol (v : N) | OpenRoot (v : N) | OpenDir (d : N) (name : list N)
  | CloseDir (d : N) | Find (d : N) (name : list N) | Iter (d : N) (inner : option op)
  | OpenFile (d : N) (name : list N) (m : mode) | CloseFile (f : N) | Flush (f : N)
  | Read (f n : N) | Write (f : N) (data : list N)
  | SeekStart (f x : N) | SeekCur (f : N) (x : Z) | SeekEnd (f x : N)
  | Length (f : N) | Offset (f : N) | Eof (f : N)
  | Delete (d : N) (name : list N) | Mkdir (d : N) (name : list N) | Label (v : N) | HasOpen
  | IoSeek (f : N) (w : whence) (x : Z) | IoRead (f n : N) | IoWrite (f : N) (data : list N)
  | Remount (id_offset : N).

Definition lift {A} (f : A -> res) (m : M A) : M res := a <- m ;; ret (f a).

Definition remount (id_offset : N) : M unit :=
  modify (fun s => set_s_next_id (set_s_lock (set_s_files (set_s_dirs (set_s_vols (set_s_tag (set_s_cache s zero_block) None) []) []) []) false) id_offset).

Fixpoint step (o : op) : M res :=
  match o with
  | OpenVol idx => lift RHandle (open_raw_volume idx)
  | CloseVol v => lift (fun _ => RUnit) (close_volume v)
  | OpenRoot v => lift RHandle (open_root_dir v)
  | OpenDir d name => lift RHandle (open_dir d name)
  | CloseDir d => lift (fun _ => RUnit) (close_dir d)
  | Find d name => lift REntry (mgr_find d name)
  | Iter d inner =>
      r <- mgr_iterate d (match inner with Some o' => step o' | None => ret RUnit end) ;;
      ret (RIter (fst r) (match inner with Some _ => snd r | None => None end))
  | OpenFile d name m => lift RHandle (open_file_in_dir d name m)
  | CloseFile f => lift (fun _ => RUnit) (close_file f)
  | Flush f => lift (fun _ => RUnit) (flush_file f)
  | Read f n => lift RBytes (mgr_read f n)
  | Write f data => lift (fun _ => RUnit) (mgr_write f data)
  | SeekStart f x => lift (fun _ => RUnit) (file_seek_from_start f x)
  | SeekCur f x => lift (fun _ => RUnit) (file_seek_from_current f x)
  | SeekEnd f x => lift (fun _ => RUnit) (file_seek_from_end f x)
  | Length f => lift RNum (file_length f)
  | Offset f => lift RNum (file_offset f)
  | Eof f => lift RBool (file_eof f)
  | Delete d name => lift (fun _ => RUnit) (delete_file_in_dir d name)
  | Mkdir d name => lift (fun _ => RUnit) (make_dir_in_dir d name)
  | Label v => lift RLabel (get_root_volume_label v)
  | HasOpen => lift RBool has_open_handles
  | IoSeek f w x => lift RNum (io_seek f w x)
  | IoRead f n => lift RBytes (io_read f n)
  | IoWrite f data => lift RNum (io_write f data)
  | Remount id => lift (fun _ => RUnit) (remount id)
  end.

Definition init_state (d : disk) (id_offset maxv maxd maxf : N) (faults : list N) : st :=
  mk_st d zero_block None [] [] [] id_offset 0 0 faults [] false maxv maxd maxf.

Definition run_op (o : op) (s : st) : outcome res * st := step o s.
