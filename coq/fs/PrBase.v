(* PROOFS, shared base for the proof files about the layer-B model: state predicates
   (no pending faults, cache coherence), specifications of the device and cache
   primitives, and the "only these fields changed" frame relation. *)
From Coq Require Import NArith ZArith List Bool Lia Arith FMapPositive.
From SdFs Require Import FsTypes FsBase FsFat FsMgr FsLemmas.
Import ListNotations.
Open Scope N_scope.

(* ---- disk facts ---- *)
Lemma succ_pos_inj a b : N.succ_pos a = N.succ_pos b -> a = b.
Proof.
  intros H. apply (f_equal Npos) in H. rewrite !N.succ_pos_spec in H. lia.
Qed.

Lemma disk_get_set_same d i b : disk_get (disk_set d i b) i = b.
Proof. unfold disk_get, disk_set. rewrite PositiveMap.gss. reflexivity. Qed.

Lemma disk_get_set_other d i j b : i <> j -> disk_get (disk_set d i b) j = disk_get d j.
Proof.
  intros H. unfold disk_get, disk_set. rewrite PositiveMap.gso; [reflexivity|].
  intros E. apply H. symmetry. apply succ_pos_inj. exact E.
Qed.

(* ---- state predicates ---- *)
(* no fault is scheduled at or after the current device-call index: the device works *)
Definition no_faults (s : st) : Prop := forall n, In n (s_faults s) -> n < s_ncalls s.

Lemma no_faults_not_faulty s : no_faults s -> faulty s = false.
Proof.
  intros H. unfold faulty.
  destruct (existsb (N.eqb (s_ncalls s)) (s_faults s)) eqn:E; [|reflexivity].
  apply existsb_exists in E. destruct E as [n [Hin Heq]]. apply N.eqb_eq in Heq. subst n.
  specialize (H _ Hin). lia.
Qed.

(* the cached block, if tagged, is what the device holds at that index *)
Definition cache_ok (s : st) : Prop :=
  forall i, s_tag s = Some i -> s_cache s = disk_get (s_disk s) i.

(* everything but the device-side fields (disk, cache, tag, call counter, trace) is equal:
   tables, handle counter, clock, lock, limits, fault schedule *)
Definition same_mgr (s s' : st) : Prop :=
  s_vols s' = s_vols s /\ s_dirs s' = s_dirs s /\ s_files s' = s_files s /\
  s_next_id s' = s_next_id s /\ s_clock s' = s_clock s /\ s_lock s' = s_lock s /\
  s_maxv s' = s_maxv s /\ s_maxd s' = s_maxd s /\ s_maxf s' = s_maxf s /\
  s_faults s' = s_faults s.

Lemma same_mgr_refl s : same_mgr s s.
Proof. unfold same_mgr. repeat split; reflexivity. Qed.
Lemma same_mgr_trans a b c : same_mgr a b -> same_mgr b c -> same_mgr a c.
Proof.
  unfold same_mgr. intros H1 H2.
  destruct H1 as (A1 & A2 & A3 & A4 & A5 & A6 & A7 & A8 & A9 & A10).
  destruct H2 as (B1 & B2 & B3 & B4 & B5 & B6 & B7 & B8 & B9 & B10).
  repeat split; congruence.
Qed.

(* ---- device primitives, when the device works ---- *)
Lemma dev_read_ok i s : no_faults s ->
  dev_read i s = (Ok (disk_get (s_disk s) i),
                  set_s_trace (set_s_ncalls s (s_ncalls s + 1)) (DRead i :: s_trace s)).
Proof. intros H. unfold dev_read. rewrite (no_faults_not_faulty s H). reflexivity. Qed.

Lemma dev_write_ok i b s : no_faults s ->
  dev_write i b s = (Ok tt,
    set_s_trace (set_s_disk (set_s_ncalls s (s_ncalls s + 1)) (disk_set (s_disk s) i b))
                (DWrite i b :: s_trace s)).
Proof. intros H. unfold dev_write. rewrite (no_faults_not_faulty s H). reflexivity. Qed.

Lemma dev_read_fault i s : faulty s = true ->
  dev_read i s = (Err DeviceError,
                  set_s_trace (set_s_ncalls s (s_ncalls s + 1)) (DReadFail i :: s_trace s)).
Proof. intros H. unfold dev_read. rewrite H. reflexivity. Qed.

Lemma dev_write_fault i b s : faulty s = true ->
  dev_write i b s = (Err DeviceError,
                     set_s_trace (set_s_ncalls s (s_ncalls s + 1)) (DWriteFail i :: s_trace s)).
Proof. intros H. unfold dev_write. rewrite H. reflexivity. Qed.

Lemma no_faults_step s s' :
  s_faults s' = s_faults s -> s_ncalls s <= s_ncalls s' -> no_faults s -> no_faults s'.
Proof. unfold no_faults. intros Hf Hn H n Hin. rewrite Hf in Hin. specialize (H _ Hin). lia. Qed.

(* ---- cache_read: returns the device contents, leaves the disk alone, keeps coherence ---- *)
Theorem cache_read_spec i s : no_faults s -> cache_ok s ->
  exists s', cache_read i s = (Ok (disk_get (s_disk s) i), s') /\
    s_disk s' = s_disk s /\ s_tag s' = Some i /\ s_cache s' = disk_get (s_disk s) i /\
    cache_ok s' /\ no_faults s' /\ same_mgr s s' /\
    (s_trace s' = s_trace s \/ s_trace s' = DRead i :: s_trace s).
Proof.
  intros Hnf Hc. unfold cache_read, bind, get.
  destruct (opt_eqb (s_tag s) i) eqn:Ht.
  - exists s. unfold opt_eqb in Ht. destruct (s_tag s) as [j|] eqn:Etag; [|discriminate].
    apply N.eqb_eq in Ht. subst j. rewrite (Hc i Etag).
    unfold ret. repeat split; auto using same_mgr_refl.
  - unfold modify, try.
    set (s1 := set_s_tag s None).
    assert (Hnf1 : no_faults s1) by (apply (no_faults_step s); [reflexivity| cbn; lia | exact Hnf]).
    rewrite (dev_read_ok i s1 Hnf1). cbn [s_disk set_s_tag s1].
    eexists. split; [reflexivity|].
    cbn. repeat split; auto.
    + intros j Hj. inversion Hj; subst. reflexivity.
    + intros n Hin. specialize (Hnf n Hin). cbn. lia.
Qed.

(* ---- write_back ---- *)
Lemma write_back_ok i s : s_tag s = Some i -> no_faults s ->
  write_back s = (Ok tt,
    set_s_trace (set_s_disk (set_s_ncalls s (s_ncalls s + 1)) (disk_set (s_disk s) i (s_cache s)))
                (DWrite i (s_cache s) :: s_trace s)).
Proof.
  intros Ht Hnf. unfold write_back, bind, get, try. rewrite Ht.
  rewrite (dev_write_ok i (s_cache s) s Hnf). reflexivity.
Qed.

(* ---- the read-modify-write pattern: read block i, change it with f, write it back ---- *)
Theorem rmw_spec i f s : no_faults s -> cache_ok s ->
  exists s',
    (_ <- cache_read i ;; cache_modify f ;;; write_back) s = (Ok tt, s') /\
    s_disk s' = disk_set (s_disk s) i (f (disk_get (s_disk s) i)) /\
    s_tag s' = Some i /\ s_cache s' = f (disk_get (s_disk s) i) /\
    cache_ok s' /\ no_faults s' /\ same_mgr s s' /\
    exists pre, s_trace s' = DWrite i (f (disk_get (s_disk s) i)) :: pre /\
                (pre = s_trace s \/ pre = DRead i :: s_trace s).
Proof.
  intros Hnf Hc.
  destruct (cache_read_spec i s Hnf Hc) as (s1 & Hr & Hd & Ht & Hcc & Hc1 & Hnf1 & Hm & Htr).
  rewrite (bind_ok _ _ _ _ _ Hr).
  set (s2 := set_s_cache s1 (f (s_cache s1))).
  assert (Hmod : cache_modify f s1 = (Ok tt, s2)) by reflexivity.
  rewrite (bind_ok _ _ _ _ _ Hmod).
  assert (Ht2 : s_tag s2 = Some i) by (cbn; exact Ht).
  assert (Hnf2 : no_faults s2) by (apply (no_faults_step s1); [reflexivity| cbn; lia | exact Hnf1]).
  rewrite (write_back_ok i s2 Ht2 Hnf2).
  eexists. split; [reflexivity|].
  subst s2. cbn. rewrite Hd, Hcc.
  split; [reflexivity|]. split; [exact Ht|]. split; [reflexivity|].
  split.
  { intros j Hj. cbn in Hj. rewrite Ht in Hj. inversion Hj; subst. cbn.
    rewrite disk_get_set_same. reflexivity. }
  split.
  { intros n Hin. cbn in Hin. specialize (Hnf1 n Hin). cbn. lia. }
  split.
  { destruct Hm as (A1 & A2 & A3 & A4 & A5 & A6 & A7 & A8 & A9 & A10). unfold same_mgr. cbn.
    repeat split; assumption. }
  eexists. split; [reflexivity|]. exact Htr.
Qed.

(* every block other than i is untouched by the read-modify-write *)
Corollary rmw_frame i f s j : no_faults s -> cache_ok s -> i <> j ->
  forall s', (_ <- cache_read i ;; cache_modify f ;;; write_back) s = (Ok tt, s') ->
  disk_get (s_disk s') j = disk_get (s_disk s) j.
Proof.
  intros Hnf Hc Hij s' H.
  destruct (rmw_spec i f s Hnf Hc) as (s'' & H' & Hd & _). rewrite H in H'. inversion H'; subst s''.
  rewrite Hd. apply disk_get_set_other. exact Hij.
Qed.

(* blank_mut + write_back: the block becomes all zeros, nothing is read *)
Theorem blank_write_spec i s : no_faults s ->
  exists s', (blank_mut i ;;; write_back) s = (Ok tt, s') /\
    s_disk s' = disk_set (s_disk s) i zero_block /\ s_tag s' = Some i /\ s_cache s' = zero_block /\
    cache_ok s' /\ no_faults s' /\ same_mgr s s' /\ s_trace s' = DWrite i zero_block :: s_trace s.
Proof.
  intros Hnf.
  set (s1 := set_s_cache (set_s_tag s (Some i)) zero_block).
  assert (Hb : blank_mut i s = (Ok tt, s1)) by reflexivity.
  rewrite (bind_ok _ _ _ _ _ Hb).
  assert (Ht1 : s_tag s1 = Some i) by reflexivity.
  assert (Hnf1 : no_faults s1) by (apply (no_faults_step s); [reflexivity| cbn; lia | exact Hnf]).
  rewrite (write_back_ok i s1 Ht1 Hnf1).
  eexists. split; [reflexivity|]. subst s1. cbn.
  split; [reflexivity|]. split; [reflexivity|]. split; [reflexivity|].
  split.
  { intros j Hj. cbn in Hj. inversion Hj; subst. cbn. rewrite disk_get_set_same. reflexivity. }
  split.
  { intros n Hin. cbn in Hin. specialize (Hnf n Hin). cbn. lia. }
  split; [|reflexivity].
  unfold same_mgr. cbn. repeat split; reflexivity.
Qed.

(* ---- byte-list codecs ---- *)
Definition is_block (b : block) : Prop := length b = 512%nat /\ Forall (fun x => x < 256) b.

Lemma zero_block_is_block : is_block zero_block.
Proof.
  split; [apply repeat_length|]. apply Forall_forall. intros x Hx.
  apply repeat_spec in Hx. subst. lia.
Qed.

Lemma set_bytes_length b off l :
  (N.to_nat off + length l <= length b)%nat -> length (set_bytes b off l) = length b.
Proof.
  intros H. unfold set_bytes. rewrite !app_length, firstn_length, skipn_length. lia.
Qed.

Lemma nth_firstn_lt {A} (l : list A) n i d : (i < n)%nat -> nth i (firstn n l) d = nth i l d.
Proof.
  revert n i; induction l as [|h t IH]; intros [|n] [|i] H; cbn; try lia; try reflexivity.
  apply IH. lia.
Qed.

Lemma nth_skipn_add {A} (l : list A) n i d : nth i (skipn n l) d = nth (n + i) l d.
Proof.
  revert l; induction n as [|n IH]; intros [|h t]; cbn; try reflexivity.
  - destruct i; reflexivity.
  - apply IH.
Qed.

Lemma get8_set_bytes_outside b off l i :
  (N.to_nat off + length l <= length b)%nat ->
  (i < off \/ off + N.of_nat (length l) <= i) ->
  get8 (set_bytes b off l) i = get8 b i.
Proof.
  intros Hlen Hi. unfold get8, set_bytes.
  destruct Hi as [Hi|Hi].
  - rewrite app_nth1 by (rewrite firstn_length; lia).
    rewrite nth_firstn_lt by lia. reflexivity.
  - rewrite app_nth2 by (rewrite firstn_length; lia).
    rewrite firstn_length. rewrite Nat.min_l by lia.
    rewrite app_nth2 by lia. rewrite nth_skipn_add. f_equal. lia.
Qed.

Lemma get8_set_bytes_inside b off l k :
  (N.to_nat off + length l <= length b)%nat -> (k < length l)%nat ->
  get8 (set_bytes b off l) (off + N.of_nat k) = nth k l 0.
Proof.
  intros Hlen Hk. unfold get8, set_bytes.
  rewrite app_nth2 by (rewrite firstn_length; lia).
  rewrite firstn_length, Nat.min_l by lia.
  rewrite app_nth1 by lia. f_equal. lia.
Qed.
