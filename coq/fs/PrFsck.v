(* The decider of the global invariant in a form that extracts to efficient OCaml: the list of all
   chain clusters is computed once (a `let`), not once per cluster of the volume.  Convertible to
   PrGlobalDef.fs_inv_b (proofs by reflexivity), so fs_inv_b_sound applies to it. *)
From Coq Require Import NArith ZArith List Bool.
From SdFs Require Import FsTypes FsBase FsFat FsMgr FsLemmas PrBase PrFat PrAlloc PrDir PrSeek PrAllocEffect PrRw PrWrite PrFileSeq PrMulti PrEntry PrChain PrCount PrWf PrOpenClose PrGlobalDef.
From SdFs Require PrBounds.
Import ListNotations.
Open Scope N_scope.

Definition fat_wf_fast (d : disk) (v : vol) (hs : list N) : bool :=
  let ac := all_chains d v hs in
  forallb (fun h => match chain_of d v h (walk_fuel v) with Some _ => true | None => false end) hs
  && nodup_b ac
  && range_all (N.to_nat (v_clusters v)) 2
       (fun c => Bool.eqb (negb (fat_get d v 0 c =? 0)) (existsb (N.eqb c) ac)).

Lemma fat_wf_fast_eq d v hs : fat_wf_fast d v hs = fat_wf_b d v hs.
Proof. reflexivity. Qed.

Definition disk_inv_fast (depth : nat) (d : disk) (v : vol) (pend : list N) : bool :=
  match root_of d v with
  | None => false
  | Some (bl, rch) =>
      match tree_of depth d v bl with
      | None => false
      | Some T =>
          dir_ok_b d v CL_ROOT CL_ROOT bl && forallb (node_ok_b d v CL_ROOT) T &&
          fat_wf_fast d v (heads v T ++ pend) && nodup_pb (map node_pos (all_nodes T))
      end
  end.

Definition fs_inv_fast (depth : nat) (fsz : N) (d : disk) (v : vol) (pend : list N) : bool :=
  vol_inv_b v fsz && disk_inv_fast depth d v pend.

Lemma fs_inv_fast_eq depth fsz d v pend : fs_inv_fast depth fsz d v pend = fs_inv_b depth fsz d v pend.
Proof. reflexivity. Qed.

(* hence sound for the disk-level part of the global invariant *)
Theorem fs_inv_fast_sound depth fsz d v pend : fs_inv_fast depth fsz d v pend = true ->
  (PrBounds.part_layout v (v_nblocks v) fsz /\ v_lba v + v_nblocks v < U32 /\
   fat_layout v fsz /\ clusters_fit v /\ 0 < v_spc v /\ info_ok v) /\
  exists bl rch T, disk_inv d v bl rch T pend.
Proof. rewrite fs_inv_fast_eq. apply fs_inv_b_sound. Qed.

Print Assumptions fs_inv_fast_sound.
