(* PROOFS: C11 for `Mkdir d name`, part 3 - the assembly:  step_fault fsz vid (Mkdir d name).
   Mkdir is the one operation that WRITES after a device error: a failed write_new_directory_entry
   (fault in the walk of the parent, in the allocation of the parent's growth cluster, or in the
   write of the slot) is followed by free_cluster_chain on the new directory's cluster.
     head_run      : the fault-free first part (handles, name, lookup) under fs_inv;
     DI_of_prefix  : after the common prefix the FAT is closed, nothing links to c, c reads
                     end-of-chain (PrFault2.DI) - so PrFault2.T_write_new_directory_entry applies and
                     the state after the FAILED entry write still has a coherent cache;
     mk_hard_media : fault inside write_new_directory_entry => the release succeeds and the final
                     medium is PrCrashMkdir.mk_crash (tree as before / parent one zeroed cluster
                     longer; c free again; at most one more lost cluster) => med_ok;
     step_fault_Mkdir. *)
From Coq Require Import NArith ZArith List Bool Lia Arith ZifyClasses ZifyInst Zify FMapPositive Permutation.
From SdFs Require Import FsTypes FsBase FsFat FsMgr FsLemmas PrBase PrFat PrAlloc PrDir PrSeek PrAllocEffect
  PrRw PrWrite PrFileSeq PrMulti PrEntry PrChain PrCount PrWf PrOpenClose PrGlobalDef PrGlobalWrite
  PrGlobalMkdirT PrGlobalMkdirS PrGlobalMkdirR PrGlobalMkdir.
From SdFs Require PrModes PrHandles PrBounds PrOrder PrCrashAll.
From SdFs Require Import PrCrash PrCrashDef PrCrashDef2 PrCrashDef3 PrCrashDef4 PrCrashDelete PrCrashMkdir PrCrashMkdir2.
From SdFs Require Import PrFault PrFault2 PrFaultDef PrFaultDef2 PrFaultDef3 PrFaultDef4 PrFaultMkdir PrFaultMkdir2.
Import ListNotations.
Open Scope N_scope.
Local Arguments N.mul : simpl never.
Local Arguments N.add : simpl never.
Local Arguments N.sub : simpl never.
Local Arguments N.div : simpl never.
Local Arguments N.modulo : simpl never.
Local Arguments N.land : simpl never.
Local Arguments N.lor : simpl never.
Local Ltac Zify.zify_post_hook ::= Z.to_euclidean_division_equations.

(* ================================================================== 1. the fault-free first part *)
Lemma head_run fsz vid S vi v bl rch T d name vi' parent sfn S1 :
  fs_inv_at fsz vid S vi v bl rch T ->
  mkdir_head d name S = (Ok (vi', parent, sfn), S1) ->
  vi' = 0%nat /\ fs_inv_at fsz vid S1 0 v bl rch T /\ s_disk S1 = s_disk S /\
  mkd_is_dir T parent /\ length sfn = 11%nat.
Proof.
  intros Hat E.
  assert (Hinv : fs_inv fsz vid S) by (exists vi, v, bl, rch, T; exact Hat).
  pose proof (fs_inv_lock fsz vid S Hinv) as Hl.
  destruct (mkd_facts _ _ _ _ _ _ _ _ Hat) as (_ & Hnf & Hc & Ev & Evi & Hv0 & Hv & _ & _ & _ & _ & _).
  subst vi.
  unfold mkdir_head in E. rewrite (PrHandles.locked_free _ S Hl), PrHandles.bind_get in E.
  destruct (is_full (s_dirs S) (s_maxd S)); [discriminate E|].
  unfold bind at 1 in E. rewrite PrHandles.get_dir_by_id_eq in E.
  destruct (find_idx (fun x => d_id x =? d) (s_dirs S) 0) as [di|] eqn:Efind; [|discriminate E].
  unfold bind at 1 in E. rewrite PrHandles.get_dir_eq in E.
  destruct (nth_error (s_dirs S) di) as [dd|] eqn:Hdd; [|discriminate E].
  unfold bind at 1 in E. rewrite PrHandles.get_volume_by_id_eq, Ev in E. cbn [find_idx] in E.
  destruct (N.eqb_spec (v_id v) (d_vol dd)) as [Evol|Nvol]; [|discriminate E].
  assert (Hdir : mkd_is_dir T (d_cluster dd)).
  { pose proof (fi_dirs _ _ _ _ _ _ _ _ Hat) as Hdd'. rewrite Forall_forall in Hdd'.
    exact (Hdd' dd (nth_error_In _ _ Hdd) (eq_sym Evol)). }
  destruct (sfn_of_str name) as [sfn0|] eqn:Hsfn; [|discriminate E].
  destruct (list_eqb sfn0 THIS_DIR_NAME || list_eqb sfn0 PARENT_DIR_NAME); [discriminate E|].
  destruct (mkd_ctx _ _ _ _ _ _ _ _ (d_cluster dd) Hat Hdir) as (pbl & pp & Hbl & _).
  destruct (C06_find 0 v (d_cluster dd) sfn0 S pbl Hv0 Hv Hnf Hc Hbl) as (s1 & Hfind & Hro).
  unfold bind at 1 in E. unfold try in E. rewrite Hfind in E.
  destruct (find (t_matches sfn0) (live_in_blocks (s_disk S) pbl)) as [t|].
  { destruct (is_directory (e_attr (t_entry (v_fat32 v) t))); discriminate E. }
  injection E as <- <- <- <-.
  split; [reflexivity|]. split; [exact (mkd_ro _ _ _ _ _ _ _ _ _ Hat Hro)|]. split; [exact (proj1 Hro)|].
  split; [exact Hdir|]. exact (proj1 (mkd_sfn_of_str_wf name sfn0 Hsfn)).
Qed.

(* ================================================================== 2. the FAT after the common prefix *)
Lemma lnk_eoc v e : (fat_eoc_min v <=? e) = true -> lnk v e = inr EndOfFile.
Proof.
  intros H. apply N.leb_le in H. unfold lnk, next_result, fat_eoc_min in *. destruct (v_fat32 v).
  - replace (e =? 0) with false by (symmetry; apply N.eqb_neq; lia).
    replace (e =? 268435447) with false by (symmetry; apply N.eqb_neq; lia).
    replace (268435448 <=? e) with true by (symmetry; apply N.leb_le; lia). rewrite orb_true_r. reflexivity.
  - replace (e =? 65527) with false by (symmetry; apply N.eqb_neq; lia).
    replace (65528 <=? e) with true by (symmetry; apply N.leb_le; lia). reflexivity.
Qed.

Lemma lnk_inl' v e n : lnk v e = inl n -> n = e.
Proof.
  unfold lnk, next_result. destruct (v_fat32 v);
    repeat match goal with |- context [if ?b then _ else _] => destruct b end;
    intros H; inversion H; reflexivity.
Qed.

Lemma chain_single_eoc d v c : chain_at d v c [c] -> (fat_eoc_min v <=? fat_get d v 0 c) = true.
Proof.
  intros H. destruct (chain_at_inv _ _ _ _ H) as (_ & _ & _ & [(He & _)|(_ & l0 & Hn & El)]); [exact He|exfalso].
  injection El as <-. destruct (chain_at_head _ _ _ _ Hn) as (r & Er). discriminate Er.
Qed.

(* a well-formed FAT in which c is a head with the chain [c] satisfies PrFault2.DI *)
Lemma DI_of_wf fsz v hs c d : link_ok v -> PrCrash.fat_len_ok v fsz d ->
  fat_wf d v hs -> In c hs -> chain_at d v c [c] -> DI v fsz c d.
Proof.
  intros Hl Hlen W Hc Hcc. constructor.
  - exact Hlen.
  - apply lnk_eoc. exact (chain_single_eoc d v c Hcc).
  - intros j n (J1 & J2) Hz Hn. unfold ent in *.
    destruct (proj1 (wf_l_used d v hs j W J1 J2) Hz) as (h & Hh & Hj).
    destruct (chain_split d v _ _ _ (wf_l_def _ _ _ _ W Hh) j Hj) as (pj & lj & _ & Hlj).
    destruct (chain_at_inv _ _ _ _ Hlj) as (_ & _ & _ & [(He & _)|(_ & l0 & Hn0 & _)]).
    { rewrite (lnk_eoc v _ He) in Hn. discriminate Hn. }
    pose proof (lnk_inl' v _ _ Hn) as ->.
    destruct (chain_at_mem _ _ _ _ _ Hn0 (chain_at_head_in _ _ _ _ Hn0)) as (N1 & N2 & N3 & _).
    split; [split; assumption|]. split; [|exact N3].
    intros E. exact (wf_head_no_pred d v hs c j W Hl Hc J1 J2 E).
Qed.

Lemma root16_of_layout v total fsz : PrBounds.part_layout v total fsz ->
  v_fat32 v = false -> v_fat_start v + fsz <= v_root_block v.
Proof.
  intros L H32. pose proof (PrBounds.pl_root v total fsz L) as R. rewrite H32 in R. destruct R as (R & _).
  unfold PrBounds.fats_end, PrBounds.fat1_start in R.
  destruct (v_second_fat v) as [sf|] eqn:E; [pose proof (PrBounds.pl_fat1 v total fsz L sf E)|]; lia.
Qed.

(* the hypotheses of PrFault2.T_write_new_directory_entry in the state after the common prefix *)
Lemma MI_of_prefix fsz total vi v hs parent s c s6 v1 :
  PrBounds.part_layout v total fsz -> clusters_fit v ->
  (negb (v_fat32 v) && (parent =? CL_ROOT) = false -> In (dir_first_cluster v parent) hs) ->
  prefix_ok fsz vi v hs (if parent =? CL_ROOT then CL_EMPTY else parent) s c s6 v1 ->
  MI vi v fsz c s6 /\ start_ok v c parent (s_disk s6).
Proof.
  intros L Hfit Hhead PX.
  pose proof PX as [Evols G Hpre6 Htabs Hclk Hbw6 Hcl W6 Hnew6 Hfresh Hkeep Hframe Hfat Hsteps].
  pose proof Hpre6 as ((Hnf6 & Hc6 & Hvi6 & Hlen6) & FL1 & Hh1).
  split; [split; [|split]|].
  - exists v1. split; [exact Hvi6|]. split; [exact G|exact Hh1].
  - exact Hc6.
  - apply (DI_of_wf fsz v (c :: hs) c (s_disk s6) Hfit); [|exact W6|left; reflexivity|exact Hnew6].
    destruct G as (a & b & ->). exact Hlen6.
  - unfold start_ok. destruct (negb (v_fat32 v) && (parent =? CL_ROOT)) eqn:Eroot.
    + left. apply andb_true_iff in Eroot. destruct Eroot as [H16 Hdc]. apply negb_true_iff in H16.
      apply N.eqb_eq in Hdc. split; [exact H16|]. unfold dir_first_cluster. rewrite H16. exact Hdc.
    + right. specialize (Hhead eq_refl). set (pc := dir_first_cluster v parent) in *.
      destruct (wf_def _ _ _ W6 pc (or_intror Hhead)) as (ch & Hch).
      destruct (chain_at_mem _ _ _ _ pc Hch (chain_at_head_in _ _ _ _ Hch)) as (P1 & P2 & P3 & _).
      split; [split; assumption|]. split; [|exact P3]. intros ->. exact (Hfresh Hhead).
Qed.

(* ================================================================== 3. the fault fired inside the entry write *)
Theorem mk_hard_media fsz vid s vi v bl rch T d name r s' :
  fs_inv_at fsz vid (nf s) vi v bl rch T -> mk_hard d name s r s' ->
  r = Err DeviceError /\ med_ok v (s_disk s) T (fun _ => True) (s_disk s').
Proof.
  intros Hat [vi' parent sfn c s6a s7a rW0 S7 Hpre Hfail Hnf7 Hfree Hcrash Hstrict Hrel].
  (* the fault-free first part *)
  unfold mkdir_pre3 in Hpre. unfold bind at 1 in Hpre.
  destruct (mkdir_head d name (nf s)) as [[p|e| |] S1] eqn:Eh; try discriminate Hpre.
  destruct p as [[vi0 parent0] sfn0]. cbn [fst snd] in Hpre. unfold bind at 1 in Hpre.
  destruct (make_dir_pre vi0 parent0 sfn0 A_DIRECTORY S1) as [[c0|e| |] S6] eqn:Ep; try discriminate Hpre.
  injection Hpre as -> -> -> -> ES6.
  destruct (head_run fsz vid (nf s) vi v bl rch T d name vi' parent sfn S1 Hat Eh) as (-> & Hat1 & Hd1 & Hdir & Hlen).
  destruct (mkd_facts _ _ _ _ _ _ _ _ Hat1) as (_ & _ & _ & _ & _ & _ & _ & FL & Hwf1 & _ & Hpre1 & Hfit1).
  destruct (mkd_ctx _ _ _ _ _ _ _ _ parent Hat1 Hdir) as (pbl & pp & Hbl & Hok & Hnd & Hcls & Hrange & Hhead & Hwhere).
  pose proof (fi_layout _ _ _ _ _ _ _ _ Hat1) as L.
  pose proof (iv_wf _ _ _ _ _ _ _ _ Hat1) as W.
  set (hs := iv_hs S1 v T) in *.
  assert (Hprev0 : forall p, @None N = Some p -> p < v_clusters v + 2) by (intros p Ep0; discriminate Ep0).
  destruct (alloc_cluster_total 0 v fsz None false S1 Hpre1 Hprev0)
    as (o & s1' & Hal & [(-> & _)|(c2 & -> & Heff)]).
  { exfalso. unfold make_dir_pre in Ep. rewrite (bind_err _ _ _ _ _ Hal) in Ep. discriminate Ep. }
  destruct (mkf_prefix fsz (v_nblocks v) 0%nat v hs parent sfn S1 c2 s1' Hpre1 L Hwf1 W Hal) as (s6 & v1 & Epre & _ & _ & PX).
  rewrite Epre in Ep. injection Ep as -> ->. rewrite ES6 in PX. clear Epre ES6.
  destruct (mk_range _ _ _ _ _ _ (px_cluster _ _ _ _ _ _ _ _ _ PX)) as (C1 & C2 & C3).
  (* the armed entry write keeps the cache coherent and the volume record *)
  destruct (MI_of_prefix fsz (v_nblocks v) 0%nat v hs parent S1 c (nf s6a) v1 L Hfit1 Hhead PX) as (HMI & Hst).
  pose proof (T_write_new_directory_entry 0%nat v fsz c FL Hfit1 (root16_of_layout v _ fsz L) (conj C1 C2)
                parent sfn A_DIRECTORY c s6a _ s7a (conj HMI Hst) Hfail) as HM7.
  cbv beta iota in HM7. destruct HM7 as ((w7 & Hw7 & G7 & Hh7) & Hc7 & HD7).
  assert (Hst7 : st_ok 0 w7 fsz s7a).
  { split; [exact Hnf7|]. split; [exact Hc7|]. split; [exact Hw7|].
    pose proof (di_len _ _ _ _ HD7) as Hlen7. destruct G7 as (a & b & ->). exact Hlen7. }
  (* its medium is one of the media before the slot is written *)
  assert (HK : mk_crashc fsz v hs parent pbl c (s_disk S1) (s_disk s7a)).
  { destruct (mkf_W fsz (v_nblocks v) 0%nat v hs parent sfn pbl S1 c (nf s6a) v1 L Hfit1 Hbl Hhead Hlen PX)
      as (rW & s7 & EW & [(-> & Hq)|(e & sp & ib & bb & l & np & -> & Htr & Hl & Enp & Hall)]);
      rewrite Hfree in EW; injection EW as -> ->.
    - rewrite (crash_disks_quiet _ _ _ Hq Hcrash). exact (px_crashc fsz 0%nat v hs _ parent pbl S1 c (nf s6a) v1 FL PX).
    - exact (Hall _ (Hstrict sp ib bb l np Htr Hl Enp)). }
  (* the release *)
  destruct (release_after fsz 0%nat v w7 hs parent pbl c (s_disk S1) s7a (geo_layout v w7 fsz G7 FL) G7 Hst7 HK)
    as (s'' & Efree & _ & Hmk).
  unfold bind in Hrel. rewrite Efree in Hrel. injection Hrel as <- <-.
  split; [reflexivity|].
  change (s_disk s) with (s_disk (nf s)). rewrite <- Hd1.
  destruct Hmk as [d' Hk|d' c' pc pch lost G1 G2 G3 G4 G5 G6 G8 G9 G10 G11 G12 G13 G14].
  - exact (lf_keep fsz vid S1 0%nat v bl rch T Hat1 d' Hk).
  - exact (lf_grown fsz vid S1 0%nat v bl rch T Hat1 parent pbl pp d' c' pc pch lost Hwhere
             G1 G2 G3 G4 G6 G8 G9 G10 G11 G12 G13 G14).
Qed.

(* ================================================================== 4. the obligation *)
Theorem step_fault_Mkdir fsz vid d name : step_fault fsz vid (Mkdir d name).
Proof.
  intros s i r s' v Hinv Hid Hok Hv E Hreach.
  pose proof E as E0. cbn [step] in E. unfold lift, bind in E.
  destruct (make_dir_in_dir d name (arm s i)) as [r1 s1] eqn:E1.
  assert (Es : s1 = s') by (destruct r1; injection E as _ <-; reflexivity). subst s1.
  pose proof (fs_inv_nf _ _ _ Hinv) as Hinv'.
  assert (Hgoal : (exists e, r1 = Err e) /\ crash_inv fsz v (s_disk s') /\
            (forall path e bytes, file_on_medium (s_disk s) v path e bytes -> file_on_medium (s_disk s') v path e bytes)).
  { destruct (mkdir_fault_cases d name s i r1 s' E1 Hreach) as [(He & r0 & s0 & N0 & Hc)|Hhard].
    - split; [exact He|].
      assert (Estep : exists r0', step (Mkdir d name) (nf s) = (r0', s0)).
      { cbn [step]. unfold lift, bind. rewrite N0. destruct r0; eexists; reflexivity. }
      destruct Estep as (r0' & Estep). split.
      + exact (PrCrashAll.all_steps_crash fsz vid (Mkdir d name) (nf s) r0' s0 Hinv' (id_fresh_nf _ Hid) Hok Estep v (s_disk s') Hv Hc).
      + intros path e bytes Hfm.
        refine (PrCrashAll.all_steps_keep fsz vid (Mkdir d name) (nf s) r0' s0 Hinv' (id_fresh_nf _ Hid) Hok Estep
                  v path e bytes Hv Hfm _ (s_disk s') Hc).
        intros H. exact H.
    - destruct Hinv' as (vi & v0 & bl & rch & T & Hat).
      pose proof (fi_single _ _ _ _ _ _ _ _ Hat) as Ev0. change (s_vols (nf s)) with (s_vols s) in Ev0.
      rewrite Hv in Ev0. injection Ev0 as <-.
      destruct (mk_hard_media fsz vid s vi v bl rch T d name r1 s' Hat Hhard) as (-> & Hm).
      split; [eexists; reflexivity|]. split.
      + exact (med_ok_crash_inv fsz v _ T _ _ (fs_inv_crash_vol _ _ _ _ _ _ _ _ Hat) Hm).
      + intros path e bytes Hfm.
        apply (med_ok_keeps v (s_disk s) bl rch T (pend_of (nf s) v) (fun _ => True) (s_disk s') path e bytes
                 (disk_inv_crash_inv_at _ _ _ _ _ _ (fi_disk _ _ _ _ _ _ _ _ Hat)) Hm); [|exact Hfm].
        intros ch _. exact I. }
  destruct Hgoal as ((e & ->) & Hcr & Hkeep). injection E as <-.
  constructor.
  - eexists; reflexivity.
  - exact (fault_tables (Mkdir d name) s i e s' (fs_inv_lock _ _ _ Hinv) Hid I E0).
  - exact Hcr.
  - intros path e0 bytes Hfm _. exact (Hkeep path e0 bytes Hfm).
  - intros H. discriminate H.
  - intros H. discriminate H.
Qed.

Print Assumptions head_run.
Print Assumptions mk_hard_media.
Print Assumptions step_fault_Mkdir.

(* ================================================================== 5. the case that is no prefix run, on the example volume *)
(* PrGlobalDef.gx_state (fs_inv_example).  Mkdir 5 [70] makes 8 device calls; the fault-free run writes
   the FAT sector 11 (cluster 7 := end of chain), the blocks 40 41 of cluster 7, then block 22 (the slot
   in the root directory).  With the 8th call (that write of block 22) failing, the run has written
   11 40 41 and then 11 AGAIN - the release of cluster 7: not a prefix of the fault-free writes; the
   call returns Err DeviceError, cluster 7 is free, and the obligation holds. *)
Example ex_mkdir_release :
  let a := step (Mkdir 5 [70]) (arm gx_state 7) in
  let f := step (Mkdir 5 [70]) (nf gx_state) in
  fst a = Err DeviceError /\ s_ncalls gx_state + 7 < s_ncalls (snd a) /\
  map fst (rev (dwr (s_trace (snd a)))) = [11; 40; 41; 11] /\
  map fst (rev (dwr (s_trace (snd f)))) = [11; 40; 41; 22] /\
  fat_get (s_disk (snd a)) exd_vol 0 7 = 0 /\ fat_get (s_disk (snd f)) exd_vol 0 7 = 65535 /\
  fault_outcome 1 0 (Mkdir 5 [70]) gx_state exd_vol (fst a) (snd a).
Proof.
  cbv zeta.
  split; [vm_compute; reflexivity|]. split; [vm_compute; reflexivity|]. split; [vm_compute; reflexivity|].
  split; [vm_compute; reflexivity|]. split; [vm_compute; reflexivity|]. split; [vm_compute; reflexivity|].
  apply (step_fault_Mkdir 1 0 5 [70] gx_state 7).
  - exact (proj1 fs_inv_example).
  - intros x Hx. vm_compute in Hx. intros ->. repeat (destruct Hx as [Hx|Hx]; [discriminate Hx|]). exact Hx.
  - vm_compute. repeat split; discriminate.
  - reflexivity.
  - apply surjective_pairing.
  - vm_compute. reflexivity.
Qed.
Print Assumptions ex_mkdir_release.
