(* PROOFS: the per-operation obligation PrGlobalDef.step_ok (C03 / C04 / C05 for whole histories) for
   the operations on an OPEN FILE that move data or meta-data:
     Read / IoRead       device reads only; the record gets a new cursor and offset
     Flush               one directory slot rewritten (FAT32: the information sector first); a
                         PENDING chain head becomes the chain of the file's node in the tree
     CloseFile           the flush, then the record leaves the table (swap_remove)
     Write / IoWrite     data blocks of the file's own chain, FAT entries of clusters allocated
                         for it; EVERY outcome: Ok, ReadOnly refusal, DiskFull after a prefix was
                         stored, NotEnoughSpace (nothing written), stale handle
   Main theorems: step_ok_Read, step_ok_IoRead, step_ok_Flush, step_ok_CloseFile, step_ok_Write,
   step_ok_IoWrite - for all arguments, no extra hypothesis.

   0  a syntactic "writes nothing" predicate (quiet) for the read path
   1  what fs_inv says about one open file; moving fs_inv to a state with another file record
   2  Read, IoRead
   3  Write: PrWf.fat_wf carried through write_loop and mgr_write (gw_step_in_place,
      gw_step_at_end, gw_write_loop_wf, gw_mgr_write_wf): every allocation extends the chain of
      the file at its end (PrWf.wf_extend) or creates a new one-cluster head (C03_alloc_new_head_wf)
   4  where directory blocks and the slots of open files are
   5  Flush (gw_flush_dirty, via PrGlobalDef.disk_inv_replace and heads_replace_perm)
   6  CloseFile (gw_drop_file)
   7  the tree when a chain grows: chain_upd, gw_tree_rep_chain, gw_node_ok_chain
   8  the invariant after mgr_write (gw_write_post)
   9  Write, IoWrite
   10 an example: the theorems applied to PrGlobalDef's example state with a pending file *)
From Coq Require Import NArith ZArith List Bool Lia Arith ZifyClasses ZifyInst Zify FMapPositive Permutation.
From SdFs Require Import FsTypes FsBase FsFat FsMgr FsLemmas PrBase PrFat PrAlloc PrDir PrSeek PrAllocEffect
  PrRw PrWrite PrFileSeq PrMulti PrEntry PrChain PrCount PrWf PrOpenClose PrGlobalDef.
From SdFs Require PrModes PrHandles PrCrash PrBounds PrOrder PrFault2.
Import ListNotations.
Open Scope N_scope.
Local Arguments N.mul : simpl never.
Local Arguments N.add : simpl never.
Local Arguments N.sub : simpl never.
Local Arguments N.div : simpl never.
Local Arguments N.modulo : simpl never.
Local Arguments N.land : simpl never.
Local Arguments N.lor : simpl never.
Local Arguments N.min : simpl never.
Local Arguments N.max : simpl never.
Local Ltac Zify.zify_post_hook ::= Z.to_euclidean_division_equations.

(* ================================================================== 0. computations that write nothing *)
(* whatever the outcome: the disk is the same and the device log grew by events none of which
   is a successful write *)
Definition quiet {A} (m : M A) : Prop :=
  forall s r s', m s = (r, s') ->
    s_disk s' = s_disk s /\ exists new, s_trace s' = new ++ s_trace s /\ PrOrder.writes_of new = [].

Lemma quiet_here {A} (r : outcome A) : quiet (fun s => (r, s)).
Proof. intros s r0 s' E. injection E as <- <-. split; [reflexivity|]. exists []. split; reflexivity. Qed.

Lemma quiet_ret {A} (a : A) : quiet (ret a).
Proof. apply quiet_here. Qed.
Lemma quiet_fail {A} e : quiet (@fail A e).
Proof. apply quiet_here. Qed.
Lemma quiet_panic {A} : quiet (@panic A).
Proof. apply quiet_here. Qed.
Lemma quiet_oof {A} : quiet (@out_of_fuel A).
Proof. apply quiet_here. Qed.
Lemma quiet_get : quiet get.
Proof. intros s r s' E. injection E as <- <-. split; [reflexivity|]. exists []. split; reflexivity. Qed.

Lemma quiet_modify g : (forall s, s_disk (g s) = s_disk s /\ s_trace (g s) = s_trace s) -> quiet (modify g).
Proof.
  intros H s r s' E. injection E as <- <-. destruct (H s) as (A & B). split; [exact A|].
  exists []. split; [exact B|reflexivity].
Qed.

Lemma quiet_bind {A B} (m : M A) (k : A -> M B) : quiet m -> (forall a, quiet (k a)) -> quiet (bind m k).
Proof.
  intros Hm Hk s r s' E. unfold bind in E. destruct (m s) as [o s1] eqn:Em.
  destruct (Hm s o s1 Em) as (D1 & n1 & T1 & W1).
  destruct o as [a|e| |].
  - destruct (Hk a s1 r s' E) as (D2 & n2 & T2 & W2). split; [congruence|].
    exists (n2 ++ n1). split; [rewrite T2, T1, app_assoc; reflexivity|].
    rewrite PrOrder.writes_of_app, W1, W2. reflexivity.
  - injection E as <- <-. split; [exact D1|]. exists n1. split; assumption.
  - injection E as <- <-. split; [exact D1|]. exists n1. split; assumption.
  - injection E as <- <-. split; [exact D1|]. exists n1. split; assumption.
Qed.

Lemma quiet_try {A} (m : M A) : quiet m -> quiet (try m).
Proof.
  intros Hm s r s' E. unfold try in E. destruct (m s) as [o s1] eqn:Em.
  destruct (Hm s o s1 Em) as (D1 & n1 & T1 & W1).
  destruct o; injection E as <- <-; (split; [exact D1|]); exists n1; split; assumption.
Qed.

Lemma quiet_dev_read i : quiet (dev_read i).
Proof.
  intros s r s' E. unfold dev_read in E. cbv zeta in E. destruct (faulty s); injection E as <- <-.
  - split; [reflexivity|]. exists [DReadFail i]. split; reflexivity.
  - split; [reflexivity|]. exists [DRead i]. split; reflexivity.
Qed.

Lemma quiet_cache_read i : quiet (cache_read i).
Proof.
  unfold cache_read. apply quiet_bind; [apply quiet_get|]. intros s0.
  destruct (opt_eqb (s_tag s0) i); [apply quiet_ret|].
  apply quiet_bind; [apply quiet_modify; intros s; split; reflexivity|]. intros _.
  apply quiet_bind; [apply quiet_try, quiet_dev_read|]. intros [b|e].
  - apply quiet_bind; [apply quiet_modify; intros s; split; reflexivity|]. intros _. apply quiet_ret.
  - apply quiet_bind; [apply quiet_modify; intros s; split; reflexivity|]. intros _. apply quiet_fail.
Qed.

Lemma quiet_add32 a b : quiet (add32 a b).
Proof. unfold add32. destruct (a + b <? U32); [apply quiet_ret|apply quiet_panic]. Qed.
Lemma quiet_sub32 a b : quiet (sub32 a b).
Proof. unfold sub32. destruct (b <=? a); [apply quiet_ret|apply quiet_panic]. Qed.
Lemma quiet_mul32 a b : quiet (mul32 a b).
Proof. unfold mul32. destruct (a * b <? U32); [apply quiet_ret|apply quiet_panic]. Qed.

Lemma quiet_fat_block v a b : quiet (fat_block v a b).
Proof. unfold fat_block. apply quiet_bind; [apply quiet_add32|]. intros x. apply quiet_add32. Qed.

Lemma quiet_cluster_to_block v c : quiet (cluster_to_block v c).
Proof.
  unfold cluster_to_block. destruct (v_fat32 v).
  - apply quiet_bind; [apply quiet_sub32|]. intros a. apply quiet_bind; [apply quiet_mul32|]. intros b.
    apply quiet_bind; [apply quiet_add32|]. intros x. apply quiet_add32.
  - destruct (c =? CL_ROOT); [apply quiet_add32|].
    apply quiet_bind; [apply quiet_sub32|]. intros a. apply quiet_bind; [apply quiet_mul32|]. intros b.
    apply quiet_bind; [apply quiet_add32|]. intros x. apply quiet_add32.
Qed.

Lemma quiet_next_cluster v c : quiet (next_cluster v c).
Proof.
  unfold next_cluster. destruct (1073741823 <? c); [apply quiet_panic|]. destruct (v_fat32 v).
  - apply quiet_bind; [apply quiet_fat_block|]. intros t. apply quiet_bind; [apply quiet_cache_read|]. intros b.
    cbv zeta. repeat match goal with |- quiet (if ?x then _ else _) => destruct x end;
      first [apply quiet_fail|apply quiet_ret].
  - apply quiet_bind; [apply quiet_fat_block|]. intros t. apply quiet_bind; [apply quiet_cache_read|]. intros b.
    cbv zeta. repeat match goal with |- quiet (if ?x then _ else _) => destruct x end;
      first [apply quiet_fail|apply quiet_ret].
Qed.

Lemma quiet_get_vol vi : quiet (get_vol vi).
Proof.
  unfold get_vol. apply quiet_bind; [apply quiet_get|]. intros s0.
  destruct (nth_error (s_vols s0) vi); [apply quiet_ret|apply quiet_panic].
Qed.

Lemma quiet_get_file fi : quiet (get_file fi).
Proof.
  unfold get_file. apply quiet_bind; [apply quiet_get|]. intros s0.
  destruct (nth_error (s_files s0) fi); [apply quiet_ret|apply quiet_panic].
Qed.

Lemma quiet_put_file fi f : quiet (put_file fi f).
Proof. unfold put_file. apply quiet_modify. intros s. split; reflexivity. Qed.

Lemma quiet_fdod_walk v : forall n so sc, quiet (fdod_walk n v so sc).
Proof.
  induction n as [|n IH]; intros so sc; cbn [fdod_walk]; [apply quiet_ret|].
  apply quiet_bind; [apply quiet_try, quiet_next_cluster|]. intros [c|e]; [|apply quiet_ret].
  apply quiet_bind; [apply quiet_add32|]. intros so'. apply IH.
Qed.

Lemma quiet_find_data_on_disk vi start fs desired : quiet (find_data_on_disk vi start fs desired).
Proof.
  unfold find_data_on_disk. apply quiet_bind; [apply quiet_get_vol|]. intros v. cbv zeta.
  destruct (if desired <? fst start then (0, fs) else start) as [so sc].
  destruct (bytes_per_cluster v =? 0); [apply quiet_panic|].
  apply quiet_bind; [apply quiet_fdod_walk|]. intros [st' [e|]]; [apply quiet_ret|].
  destruct st' as [so' sc']. apply quiet_bind; [apply quiet_sub32|]. intros ofc.
  destruct (negb (ofc <? bytes_per_cluster v)); [apply quiet_panic|].
  apply quiet_bind; [apply quiet_cluster_to_block|]. intros cb.
  apply quiet_bind; [apply quiet_add32|]. intros blk. apply quiet_ret.
Qed.

Lemma quiet_read_loop fi vi : forall fuel space acc, quiet (read_loop fuel fi vi space acc).
Proof.
  induction fuel as [|fu IH]; intros space acc; cbn [read_loop]; [apply quiet_oof|].
  apply quiet_bind; [apply quiet_get_file|]. intros f.
  destruct ((0 <? space) && negb (f_eof f)); [|apply quiet_ret].
  apply quiet_bind; [apply quiet_find_data_on_disk|]. intros [cur [[[blk boff] bavail]|e]]; [|apply quiet_fail].
  apply quiet_bind; [apply quiet_put_file|]. intros _.
  apply quiet_bind; [apply quiet_cache_read|]. intros b.
  apply quiet_bind; [unfold f_left; apply quiet_sub32|]. intros left. cbv zeta.
  destruct (N.min (N.min bavail space) left =? 0); [apply quiet_panic|].
  apply quiet_bind; [apply quiet_get_file|]. intros f1.
  apply quiet_bind; [apply quiet_put_file|]. intros _. apply IH.
Qed.

Lemma quiet_locked {A} (m : M A) : quiet m -> quiet (locked m).
Proof.
  intros H. unfold locked. apply quiet_bind; [apply quiet_get|]. intros s0.
  destruct (s_lock s0); [apply quiet_fail|exact H].
Qed.

Lemma quiet_get_file_by_id h : quiet (get_file_by_id h).
Proof.
  unfold get_file_by_id. apply quiet_bind; [apply quiet_get|]. intros s0.
  destruct (find_idx _ (s_files s0) 0); [apply quiet_ret|apply quiet_fail].
Qed.

Lemma quiet_get_volume_by_id h : quiet (get_volume_by_id h).
Proof.
  unfold get_volume_by_id. apply quiet_bind; [apply quiet_get|]. intros s0.
  destruct (find_idx _ (s_vols s0) 0); [apply quiet_ret|apply quiet_fail].
Qed.

Theorem quiet_mgr_read h n : quiet (mgr_read h n).
Proof.
  unfold mgr_read. apply quiet_locked.
  apply quiet_bind; [apply quiet_get_file_by_id|]. intros fi.
  apply quiet_bind; [apply quiet_get_file|]. intros f.
  apply quiet_bind; [apply quiet_get_volume_by_id|]. intros vi. apply quiet_read_loop.
Qed.

(* ================================================================== 1. fs_inv and one open file *)
(* the facts about the volume that the theorems on reads and writes ask for *)
Lemma gw_vol_facts fsz vid s vi v bl rch T : fs_inv_at fsz vid s vi v bl rch T ->
  s_lock s = false /\ alloc_pre s vi v fsz /\ clusters_fit v /\ 0 < v_spc v /\ blocks_wf (s_disk s) /\
  find_idx (fun w => v_id w =? v_id v) (s_vols s) 0 = Some vi /\
  no_faults s /\ cache_ok s /\ nth_error (s_vols s) vi = Some v /\ fat_layout v fsz /\ vol_ok v.
Proof.
  intros H. destruct (fi_vol _ _ _ _ _ _ _ _ H) as (A1 & A2 & A3 & A4 & A5 & A6).
  pose proof A2 as ((B1 & B2 & B3 & _) & L & _).
  repeat (split; [assumption|]). exact (fl_vol v fsz L).
Qed.

(* an open file of the table, its index and its record *)
Lemma gw_file_facts fsz vid s vi v bl rch T h fi f : fs_inv_at fsz vid s vi v bl rch T ->
  PrSeek.resolves s h fi f ->
  ofile_ok s v T f /\ find_idx (fun w => v_id w =? f_vol f) (s_vols s) 0 = Some vi.
Proof.
  intros H (Hl & Hfind & Hfi).
  pose proof (fi_files _ _ _ _ _ _ _ _ H) as F. rewrite Forall_forall in F.
  pose proof (F f (nth_error_In _ _ Hfi)) as O. split; [exact O|].
  rewrite (of_vol _ _ _ _ O). exact (proj1 (proj2 (proj2 (proj2 (proj2 (proj2 (gw_vol_facts _ _ _ _ _ _ _ _ H))))))).
Qed.

(* the invariant in a state s' that differs from s in device bookkeeping (cache, tag, call
   counter, log) and in the record of ONE file, which keeps its directory entry: a new cursor
   (valid for the chain) and a new offset within the size *)
Theorem gw_new_record fsz vid s s' vi v bl rch T fi f f' :
  fs_inv_at fsz vid s vi v bl rch T -> nth_error (s_files s) fi = Some f ->
  s_disk s' = s_disk s -> s_vols s' = s_vols s -> s_dirs s' = s_dirs s ->
  s_lock s' = false -> no_faults s' -> cache_ok s' ->
  s_files s' = list_set (s_files s) fi f' ->
  f_id f' = f_id f -> f_vol f' = f_vol f -> f_entry f' = f_entry f ->
  chain_ok s v f' (fchain (s_disk s) v f) ->
  f_offset f' <= e_size (f_entry f) -> (f_dirty f = true -> f_dirty f' = true) ->
  fs_inv_at fsz vid s' vi v bl rch T.
Proof.
  intros Hinv Hfi Hd Hv Hdi Hl Hnf Hc Hfiles Eid Evol Eent Hch Hoff Hdirty.
  pose proof Hinv as [A B C D E F G H I J K].
  apply (fs_inv_at_transport fsz vid s s' vi v bl rch T Hinv); try assumption.
  - rewrite Hfiles. rewrite Forall_forall in *. intros g Hg.
    apply In_list_set in Hg. destruct Hg as [->|Hg].
    + pose proof (H f (nth_error_In _ _ Hfi)) as [O1 O2 O3 O4 O5 O6 O7 O8 O9].
      assert (Ech : fchain (s_disk s') v f' = fchain (s_disk s) v f)
        by (unfold fchain; rewrite Eent, Hd; reflexivity).
      constructor; rewrite ?Eent, ?Ech; try assumption.
      * congruence.
      * unfold chain_ok in *. rewrite Hd. exact Hch.
      * intros Hp. apply Hdirty, O9. unfold is_pending in *. rewrite Eent, Hd in Hp. exact Hp.
    + apply (ofile_ok_same_disk s); [exact Hd|exact (H g Hg)].
  - rewrite Hfiles, (map_list_set_same f_id _ _ _ _ Hfi Eid). exact I.
  - rewrite Hfiles, (map_list_set_same slot_key _ _ f' f Hfi); [exact J|]. unfold slot_key. rewrite Eent. reflexivity.
  - unfold pend_of. rewrite Hd, Hfiles.
    apply (map_filter_list_set _ _ _ _ f' f Hfi); [rewrite Eent; reflexivity|].
    unfold is_pending. rewrite Eent. reflexivity.
Qed.

(* the conclusion of step_ok for a call that only read *)
Lemma gw_quiet_conclusion fsz vid s (r : outcome res) s' :
  fs_inv fsz vid s -> r <> Panic -> r <> OutOfFuel -> fs_inv fsz vid s' -> s_vols s' = s_vols s ->
  (exists new, s_trace s' = new ++ s_trace s /\ PrOrder.writes_of new = []) ->
  r <> Panic /\ r <> OutOfFuel /\ fs_inv fsz vid s' /\ same_geo s s' /\
  exists ws, PrOrder.tsteps s s' ws /\ forall v, In v (s_vols s) -> Forall (PrBounds.in_region v fsz) ws.
Proof.
  intros Hinv R1 R2 Hinv' Hv Ht. split; [exact R1|]. split; [exact R2|]. split; [exact Hinv'|].
  destruct (fs_inv_vols fsz vid s Hinv) as (v & Ev & _). split.
  - exists v, v. split; [exact Ev|]. split; [rewrite Hv; exact Ev|apply geo_eq_refl].
  - exists []. split; [exact Ht|]. intros v0 _. constructor.
Qed.

(* ================================================================== 2. Read, IoRead *)
(* mgr_read on a handle that names a record: Ok; the record has a new cursor and offset *)
Lemma gw_mgr_read fsz vid s h n fi f : fs_inv fsz vid s -> PrSeek.resolves s h fi f ->
  exists l s', mgr_read h n s = (Ok l, s') /\ fs_inv fsz vid s' /\ s_vols s' = s_vols s.
Proof.
  intros (vi & v & bl & rch & T & Hinv) Hr.
  destruct (gw_vol_facts _ _ _ _ _ _ _ _ Hinv) as (Hl & Hpre & Hfit & Hspc & Hwf & Hvid & Hnf & Hc & Hvi & L & Hvok).
  destruct (gw_file_facts _ _ _ _ _ _ _ _ h fi f Hinv Hr) as (O & Hfvol).
  pose proof O as [O1 O2 O3 O4 O5 O6 O7 O8 O9].
  pose proof Hr as (_ & Hfind & Hfi).
  destruct O5 as [(A1 & (fuel0 & A2) & A3)|(A1 & A2 & A3)].
  - destruct (mgr_read_spec v (s_disk s) (e_cluster (f_entry f)) fuel0 _ Hvok Hspc A2 h n fi vi f s
                Hl Hfind Hfi Hfvol Hvi eq_refl Hnf Hc Hwf eq_refl A3 O7 O6 O8)
      as (s' & f' & Hrun & Hd' & Hfiles' & Hoff' & (I1 & I2 & I3 & I4 & I5) & Hcur' & Hc' & Hnf' & Hsbf).
    cbv zeta in Hrun, Hoff'.
    destruct Hsbf as (S1 & S2 & S3 & S4 & S5 & _).
    eexists. exists s'. split; [exact Hrun|]. split; [|exact S1].
    exists vi, v, bl, rch, T.
    apply (gw_new_record fsz vid s s' vi v bl rch T fi f f' Hinv Hfi); try assumption; try congruence.
    + left. rewrite I4. split; [exact A1|]. split; [exists fuel0; exact A2|exact Hcur'].
    + rewrite Hoff'. clear - O7. lia.
  - rewrite A2 in O6. cbn [length] in O6.
    assert (E0 : f_offset f = e_size (f_entry f)) by (clear - O6 O7; lia).
    exists [], s. split; [exact (mgr_read_at_eof h s fi f vi n Hr Hfvol E0)|].
    split; [exists vi, v, bl, rch, T; exact Hinv|reflexivity].
Qed.

Theorem step_ok_Read fsz vid h n : step_ok fsz vid (Read h n).
Proof.
  intros s r s' Hinv _ _ Hs. pose proof (fs_inv_lock fsz vid s Hinv) as Hl.
  destruct (file_handle_cases s h Hl) as [(fi & f & Hr)|Hno].
  - cbn [step] in Hs. destruct (gw_mgr_read fsz vid s h n fi f Hinv Hr) as (l & s1 & Hrun & Hinv1 & Hv1).
    destruct (quiet_mgr_read h n s _ _ Hrun) as (_ & Ht).
    rewrite (lift_ok' _ _ _ _ _ Hrun) in Hs. injection Hs as <- <-.
    apply gw_quiet_conclusion; try assumption; discriminate.
  - destruct (PrHandles.C08_stale_file_handle h s Hl Hno) as (E & _).
    rewrite (E n) in Hs. injection Hs as <- <-. apply step_ok_same; [exact Hinv|discriminate|discriminate].
Qed.

Theorem step_ok_IoRead fsz vid h n : step_ok fsz vid (IoRead h n).
Proof.
  intros s r s' Hinv Hid Hk Hs. cbn [step] in Hs. unfold io_read in Hs.
  destruct (n =? 0) eqn:En.
  - unfold lift, bind, ret in Hs. injection Hs as <- <-.
    apply step_ok_same; [exact Hinv|discriminate|discriminate].
  - exact (step_ok_Read fsz vid h n s r s' Hinv Hid (conj (conj I I) I) Hs).
Qed.

(* ================================================================== 3. Write: the FAT invariant through write_loop *)
(* a write to a block of the data area leaves every sector of the first FAT copy alone *)
Lemma gw_fat_area_data_write d v cj q nb : fat_below_data v -> 2 <= cj ->
  forall j, fat_area v j -> disk_get (disk_set d (cluster_first_block v cj + q) nb) j = disk_get d j.
Proof.
  intros Hfb H2 j (c & Hc & ->). apply disk_get_set_other.
  specialize (Hfb c Hc). unfold cluster_first_block.
  remember ((cj - 2) * v_spc v) as X. remember (c * fat_w v / 512) as Y. lia.
Qed.

Lemma gw_last_split {A} (l : list A) x : nth_error l (length l - 1) = Some x -> exists pre, l = pre ++ [x].
Proof.
  intros H. destruct (exists_last (l := l)) as (pre & y & ->).
  - intros ->. discriminate H.
  - exists pre. rewrite app_length in H. cbn [length] in H.
    replace (length pre + 1 - 1)%nat with (length pre) in H by lia.
    rewrite nth_error_app2 in H by lia. rewrite Nat.sub_diag in H. injection H as ->. reflexivity.
Qed.

Section GwLoop.
  Variable fsz : N.
  Variable vi fi : nat.
  Variable first : N.

  (* one iteration in place (PrWrite.wl_step_in_place), with what it does to the FAT: nothing *)
  Lemma gw_step_in_place fu v ch f data s :
    wl_inv fsz vi fi first v ch f s -> data <> [] -> f_offset f < U32 ->
    f_offset f < N.of_nat (length ch) * bytes_per_cluster v ->
    let tc := wr_to_copy (f_offset f) data in
    exists f' s',
      write_loop (S fu) fi vi data s = write_loop fu fi vi (skipn (N.to_nat tc) data) s' /\
      wl_inv fsz vi fi first v ch f' s' /\ f_offset f' = f_offset f + tc /\
      (forall j, fat_area v j -> disk_get (s_disk s') j = disk_get (s_disk s) j).
  Proof.
    intros [Hpre Hfit Hspc Hwf (fuel0 & Hch) Hfi Hfirst Hcur Hoff Hsize] Hdata H32 Hin tc.
    pose proof Hpre as ((Hnf & Hc & Hvi & Hlen) & L & Hh).
    pose proof (fl_vol v fsz L) as Hv.
    set (B := bytes_per_cluster v) in *.
    assert (HB : B = v_spc v * 512) by reflexivity.
    destruct (write_one_chunk_in_place v (s_disk s) first fuel0 ch Hv Hspc Hch fu fi vi f data s
                Hvi Hfi eq_refl Hnf Hc Hwf Hfirst (or_introl Hcur) Hin H32 Hdata)
      as (cj & s' & Hn & Hrun & Hd' & Hfiles' & Hc' & Hnf' & Hsbf).
    fold B in Hn, Hd', Hfiles'. fold tc in Hrun, Hd', Hfiles'.
    set (off := f_offset f) in *.
    set (blk := cluster_first_block v cj + (off mod B) / 512) in *.
    set (chunk := firstn (N.to_nat tc) data) in *.
    set (f' := wr_file f (off / B * B, cj) tc) in *.
    destruct (wr_file_fields f (off / B * B, cj) tc) as (F1 & F2 & F3 & F4 & F5 & F6 & F7 & F8 & F9 & F10).
    fold f' off in F1, F2, F3, F4, F5, F6, F7, F8, F9, F10.
    assert (Htc : tc <= N.of_nat (length data)) by apply wr_to_copy_le.
    assert (Htc512 : off mod 512 + tc <= 512) by (unfold tc, wr_to_copy; lia).
    assert (Hlen_chunk : N.of_nat (length chunk) = tc) by (apply stored_length; exact Htc).
    destruct (chain_of_links _ _ _ _ _ Hch _ cj Hn) as (R1 & R2 & _).
    assert (Hq : (off mod B) / 512 < v_spc v) by (apply div512_lt; rewrite HB; apply N.mod_lt; lia).
    assert (Hnb : length (set_bytes (disk_get (s_disk s) blk) (off mod 512) chunk) = 512%nat).
    { rewrite set_bytes_length; [apply Hwf|]. rewrite Hwf. lia. }
    assert (Hchains : forall x fu0, chain_of (s_disk s') v x fu0 = chain_of (s_disk s) v x fu0).
    { intros x fu0. rewrite Hd'. apply chain_of_data_write; [exact (layout_below_data v fsz L)|exact R1]. }
    exists f', s'. split; [exact Hrun|]. split; [|split; [exact F1|]].
    - constructor.
      + split; [|split; assumption]. split; [exact Hnf'|]. split; [exact Hc'|].
        split; [rewrite (proj1 Hsbf); exact Hvi|].
        intros k Hk. rewrite Hd'. rewrite disk_get_set_other; [apply Hlen; exact Hk|].
        intros E. exact (fat_sector_not_data v fsz 0 k cj _ L Hk R1 (eq_sym E)).
      + exact Hfit.
      + exact Hspc.
      + rewrite Hd'. apply blocks_wf_set; assumption.
      + exists fuel0. rewrite Hchains. exact Hch.
      + rewrite Hfiles'. eapply PrRw.nth_error_list_set_same. exact Hfi.
      + rewrite F4. exact Hfirst.
      + rewrite F5, F6. cbn [fst snd]. exact (proj1 (find_data_cursor v ch Hspc off cj Hn)).
      + rewrite F1, F2. lia.
      + rewrite F2. fold B.
        pose proof (in_place_room (N.of_nat (length ch)) (v_spc v) off data Hin) as Hroom.
        fold tc in Hroom. change (v_spc v * 512) with B in Hroom.
        clear - Hroom Hsize. lia.
    - intros j Hj. rewrite Hd'. unfold blk.
      apply gw_fat_area_data_write; [exact (layout_below_data v fsz L)|exact R1|exact Hj].
  Qed.

  (* one iteration at the end of the chain (PrWrite.wl_step_at_end): the allocation extends the
     chain of `first`, so a well-formed FAT stays well-formed for the same heads *)
  Lemma gw_step_at_end fu v ch f data s :
    wl_inv fsz vi fi first v ch f s -> data <> [] -> f_offset f < U32 ->
    f_offset f = N.of_nat (length ch) * bytes_per_cluster v ->
    let tc := wr_to_copy (f_offset f) data in
    (exists v' c f' s',
       write_loop (S fu) fi vi data s = write_loop fu fi vi (skipn (N.to_nat tc) data) s' /\
       wl_inv fsz vi fi first v' (ch ++ [c]) f' s' /\ f_offset f' = f_offset f + tc /\
       (exists nf fc, v' = vol_rebook v nf fc) /\
       (forall hs, fat_wf (s_disk s) v hs -> In first hs -> fat_wf (s_disk s') v hs))
    \/ (exists s',
       write_loop (S fu) fi vi data s = (Err DiskFull, s') /\ s_disk s' = s_disk s /\ s_files s' = s_files s).
  Proof.
    intros [Hpre Hfit Hspc Hwf (fuel0 & Hch) Hfi Hfirst Hcur Hoff Hsize] Hdata H32 Hend tc.
    pose proof Hpre as ((Hnf & Hc & Hvi & Hlen) & L & Hh).
    pose proof (fl_vol v fsz L) as Hv.
    set (B := bytes_per_cluster v) in *.
    assert (HB : B = v_spc v * 512) by reflexivity.
    destruct (chain_last _ _ _ _ _ Hch) as (cl & Hcl & Hlen0).
    destruct (chain_last_entry _ _ _ _ _ _ Hch Hcl) as (Hclnz & Q1 & Q2).
    destruct (find_data_on_disk_eof v (s_disk s) first fuel0 ch Hv Hspc Hch vi (f_cur_off f, f_cur_cluster f)
                (f_offset f) s Hvi eq_refl Hnf Hc (or_introl Hcur) Hend H32)
      as (cl' & s1 & Hn1 & Hrun1 & Hro1).
    rewrite Hcl in Hn1. inversion Hn1; subst cl'. clear Hn1.
    pose proof (alloc_pre_ro vi v fsz s s1 Hpre Hro1) as Hpre1.
    assert (Hprev : forall p, Some cl = Some p -> p < v_clusters v + 2)
      by (intros p E; inversion E; subst p; exact Q2).
    destruct (alloc_cluster_total vi v fsz (Some cl) false s1 Hpre1 Hprev) as (o & s2 & Ha & Hres).
    destruct Hres as [(-> & Hnone & Hd2 & Hm2 & _ & Hst2)|(c0 & -> & Heff0)].
    { right. exists s2. split.
      { rewrite (write_loop_unfold fu fi vi data s Hdata).
        rewrite (bind_ok _ _ _ _ _ (get_file_some fi f s Hfi)). cbv zeta. rewrite Hfirst.
        rewrite (bind_ok _ _ _ _ _ Hrun1). cbv beta iota. cbn [snd].
        rewrite bind_bind. rewrite (bind_ok _ _ _ _ _ (PrAlloc.try_err _ _ _ _ Ha)). reflexivity. }
      split; [rewrite Hd2; exact (proj1 Hro1)|].
      rewrite (same_mgr_files _ _ Hm2). exact (same_mgr_files _ _ (proj2 (proj2 (proj2 Hro1)))). }
    left.
    destruct (ae_range _ _ _ _ _ _ _ _ Heff0) as (W1 & W2 & W3). rewrite (proj1 Hro1) in W3.
    assert (Halloc : forall s1', ro_step s s1' ->
              exists c s2', alloc_cluster vi (Some cl) false s1' = (Ok c, s2') /\
                            ext_eff vi v first ch s1' c s2').
    { intros s1' Hro'. pose proof (alloc_pre_ro vi v fsz s s1' Hpre Hro') as Hpre'.
      destruct (alloc_cluster_succeeds vi v fsz (Some cl) false s1' c0 Hpre' Hprev W1 W2
                  ltac:(rewrite (proj1 Hro'); exact W3)) as (c & s2' & Ha').
      exists c, s2'. split; [exact Ha'|].
      refine (proj1 (ext_eff_of_alloc vi v fsz first fuel0 ch cl s1' c s2' Hpre' Hfit _ _ Hcl Ha'));
        rewrite (proj1 Hro'); assumption. }
    clear s1 Hrun1 Hro1 Hpre1 s2 Ha Heff0 W1 W2 W3.
    destruct (write_one_chunk_extend v (s_disk s) first fuel0 ch fu fi vi f data s cl Hv Hspc Hch Hvi Hfi
                eq_refl Hnf Hc Hfirst (or_introl Hcur) Hend H32 Hdata Hcl Halloc)
      as (s1 & c & s2 & s' & Hro1 & Ha & _ & Hrun & Hd' & Hfb' & Hfb2 & Hfiles' & Hcur' & Hvols' & Hwf'
          & Hc' & Hnf' & Htab').
    cbv zeta in Hrun, Hd', Hfb', Hfiles'.
    pose proof (alloc_pre_ro vi v fsz s s1 Hpre Hro1) as Hpre1.
    destruct (ext_eff_of_alloc vi v fsz first fuel0 ch cl s1 c s2 Hpre1 Hfit
                ltac:(rewrite (proj1 Hro1); exact Hwf) ltac:(rewrite (proj1 Hro1); exact Hch) Hcl Ha)
      as (_ & AF & Hchain2).
    destruct (af_range _ _ _ _ _ _ _ AF) as (R1 & R2 & R3).
    destruct (af_vol _ _ _ _ _ _ _ AF) as (nf & fc & Evols & Hpre2).
    set (v' := vol_rebook v nf fc) in *.
    assert (E3 : f_offset f mod 512 = 0).
    { rewrite Hend, HB. apply mul_bpc_mod512. }
    assert (Etc : N.min 512 (N.of_nat (length data)) = tc)
      by (symmetry; apply wr_to_copy_aligned; exact E3).
    rewrite Etc in Hrun, Hd', Hfb', Hfiles'.
    set (off := f_offset f) in *.
    set (chunk := firstn (N.to_nat tc) data) in *.
    set (f' := wr_file f (off, c) tc) in *.
    destruct (wr_file_fields f (off, c) tc) as (F1 & F2 & F3 & F4 & F5 & F6 & F7 & F8 & F9 & F10).
    fold f' off in F1, F2, F3, F4, F5, F6, F7, F8, F9, F10.
    assert (Htc : tc <= N.of_nat (length data)) by apply wr_to_copy_le.
    assert (Htc512 : tc <= 512) by (clear - Etc; lia).
    pose proof Hpre2 as ((_ & _ & _ & Hlen2) & L2 & Hh2).
    assert (Hblk0 : cluster_first_block v c = cluster_first_block v c + 0) by (rewrite N.add_0_r; reflexivity).
    assert (Hchains : forall x fu0, chain_of (s_disk s') v x fu0 = chain_of (s_disk s2) v x fu0).
    { intros x fu0. rewrite Hd', Hblk0. apply chain_of_data_write; [exact (layout_below_data v fsz L)|exact R1]. }
    exists v', c, f', s'. split; [exact Hrun|]. split; [|split; [exact F1|split; [exists nf, fc; reflexivity|]]].
    - constructor.
      + split; [|split; assumption]. split; [exact Hnf'|]. split; [exact Hc'|].
        split; [rewrite Hvols', Evols; eapply PrRw.nth_error_list_set_same; exact (proj1 (proj2 (proj2 (proj1 Hpre1))))|].
        intros k Hk. rewrite Hd'. rewrite disk_get_set_other; [apply Hlen2; exact Hk|].
        intros E. rewrite Hblk0 in E.
        exact (fat_sector_not_data v fsz 0 k c 0 L Hk R1 (eq_sym E)).
      + exact Hfit.
      + exact Hspc.
      + exact Hwf'.
      + exists (S fuel0). unfold v'. rewrite chain_of_rebook, Hchains. exact Hchain2.
      + rewrite Hfiles'. eapply PrRw.nth_error_list_set_same. exact Hfi.
      + rewrite F4. exact Hfirst.
      + rewrite F5, F6. exact Hcur'.
      + rewrite F1, F2. clear. lia.
      + rewrite F2. change (bytes_per_cluster v') with B. rewrite app_length. cbn [length].
        replace (length ch + 1)%nat with (S (length ch)) by lia. rewrite of_nat_succ_mul.
        assert (512 <= B) by (rewrite HB; clear - Hspc; lia).
        clear - H Hsize Hend Htc512. fold off in Hend. lia.
    - (* the FAT: cl now links to c, c is the end of the chain, nothing else changed *)
      intros hs W Hin.
      destruct (gw_last_split ch cl Hcl) as (pre & Epre).
      assert (Hat : chain_at (s_disk s) v first (pre ++ [cl])) by (rewrite <- Epre; exact (chain_at_any _ _ _ _ _ Hch)).
      pose proof (proj1 Hro1) as Ed1.
      destruct (wf_extend (s_disk s) (s_disk s2) v hs first pre cl c Hfit W Hin Hat R1 R2) as (W2 & _).
      + rewrite <- fat_entry_get, <- Ed1. exact R3.
      + rewrite <- fat_entry_get. exact (af_new _ _ _ _ _ _ _ AF).
      + rewrite <- fat_entry_get, (af_prev _ _ _ _ _ _ _ AF cl eq_refl). apply fit_enc; assumption.
      + intros x X1 X2 N1 N2. rewrite <- !fat_entry_get, <- Ed1.
        apply (af_other _ _ _ _ _ _ _ AF); [exact X2|exact N1|congruence].
      + apply (fat_wf_ext (s_disk s2)); [|exact W2]. intros j Hj. rewrite Hd', Hblk0.
        apply gw_fat_area_data_write; [exact (layout_below_data v fsz L)|exact R1|exact Hj].
  Qed.

  (* the whole loop, any fuel, any outcome *)
  Theorem gw_write_loop_wf : forall fuel data v ch f s,
    wl_inv fsz vi fi first v ch f s -> f_offset f + N.of_nat (length data) < U32 ->
    forall hs o sf, fat_wf (s_disk s) v hs -> In first hs ->
      write_loop fuel fi vi data s = (o, sf) ->
      fat_wf (s_disk sf) v hs /\
      exists f', nth_error (s_files sf) fi = Some f' /\ e_cluster (f_entry f') = first.
  Proof.
    induction fuel as [|fu IH]; intros data v ch f s Hinv H32 hs o sf W Hin Hrun.
    { injection Hrun as _ <-. split; [exact W|]. exists f.
      split; [exact (wi_file _ _ _ _ _ _ _ _ Hinv)|exact (wi_first _ _ _ _ _ _ _ _ Hinv)]. }
    destruct data as [|x t] eqn:Edata.
    { injection Hrun as _ <-. split; [exact W|]. exists f.
      split; [exact (wi_file _ _ _ _ _ _ _ _ Hinv)|exact (wi_first _ _ _ _ _ _ _ _ Hinv)]. }
    rewrite <- Edata in *. assert (Hdata : data <> []) by (rewrite Edata; discriminate).
    clear x t Edata.
    set (off := f_offset f) in *. set (tc := wr_to_copy off data).
    assert (Htc : tc <= N.of_nat (length data)) by apply wr_to_copy_le.
    assert (Hrest_len : N.of_nat (length (skipn (N.to_nat tc) data)) = N.of_nat (length data) - tc)
      by (rewrite skipn_length; lia).
    pose proof (wi_off _ _ _ _ _ _ _ _ Hinv) as Hoff. pose proof (wi_size _ _ _ _ _ _ _ _ Hinv) as Hsize. fold off in Hoff.
    destruct (N.lt_ge_cases off (N.of_nat (length ch) * bytes_per_cluster v)) as [Hlt|Hge].
    - destruct (gw_step_in_place fu v ch f data s Hinv Hdata ltac:(fold off; clear - H32; lia) Hlt)
        as (f1 & s1 & Hrun1 & Hinv1 & Hoff1 & Hfat1).
      fold off tc in Hrun1, Hoff1. rewrite Hrun1 in Hrun.
      apply (IH _ v ch f1 s1 Hinv1 ltac:(rewrite Hoff1, Hrest_len; clear - H32 Htc; lia) hs o sf); try assumption.
      exact (fat_wf_ext _ _ _ _ Hfat1 W).
    - assert (Hend : off = N.of_nat (length ch) * bytes_per_cluster v) by (clear - Hge Hoff Hsize; lia).
      destruct (gw_step_at_end fu v ch f data s Hinv Hdata ltac:(fold off; clear - H32; lia) Hend)
        as [(v1 & c & f1 & s1 & Hrun1 & Hinv1 & Hoff1 & (nf & fc & Ev1) & Hfat1)|(s1 & Hrun1 & Hd1 & Hf1)].
      + fold off tc in Hrun1, Hoff1. rewrite Hrun1 in Hrun.
        assert (G : geo_eq v v1) by (exists nf, fc; exact Ev1).
        destruct (IH _ v1 (ch ++ [c]) f1 s1 Hinv1 ltac:(rewrite Hoff1, Hrest_len; clear - H32 Htc; lia) hs o sf
                    (fat_wf_geo _ v v1 _ G (Hfat1 hs W Hin)) Hin Hrun) as (Wf & Hf).
        split; [exact (fat_wf_geo _ v1 v _ (geo_eq_sym _ _ G) Wf)|exact Hf].
      + rewrite Hrun1 in Hrun. injection Hrun as _ <-. split; [rewrite Hd1; exact W|].
        exists f. split; [rewrite Hf1; exact (wi_file _ _ _ _ _ _ _ _ Hinv)|exact (wi_first _ _ _ _ _ _ _ _ Hinv)].
  Qed.
End GwLoop.

(* ---- mgr_write as a whole ---- *)
Lemma gw_mw_tail fi s r s' f1 : nth_error (s_files s) fi = Some f1 -> mw_tail fi s = (r, s') ->
  s_disk s' = s_disk s /\
  exists f', nth_error (s_files s') fi = Some f' /\ e_cluster (f_entry f') = e_cluster (f_entry f1).
Proof.
  intros Hfi H. rewrite (mw_tail_run fi s f1 Hfi) in H. injection H as _ <-. split; [reflexivity|].
  eexists. split; [cbn; eapply PrRw.nth_error_list_set_same; exact Hfi|reflexivity].
Qed.

(* the loop and the final stamp, from a state satisfying the loop invariant *)
Lemma gw_loop_tail_wf fsz vi fi first fuel data v ch f s hs o s' :
  wl_inv fsz vi fi first v ch f s -> f_offset f + N.of_nat (length data) < U32 ->
  fat_wf (s_disk s) v hs -> In first hs ->
  (write_loop fuel fi vi data ;;; mw_tail fi) s = (o, s') ->
  fat_wf (s_disk s') v hs /\
  exists f', nth_error (s_files s') fi = Some f' /\ e_cluster (f_entry f') = first.
Proof.
  intros Hinv H32 W Hin Hrun. unfold bind in Hrun.
  destruct (write_loop fuel fi vi data s) as [o1 s1] eqn:Eloop.
  destruct (gw_write_loop_wf fsz vi fi first fuel data v ch f s Hinv H32 hs o1 s1 W Hin Eloop)
    as (W1 & f1 & Hf1 & Ec1).
  destruct o1 as [u|e| |].
  - destruct (gw_mw_tail fi s1 o s' f1 Hf1 Hrun) as (Ed & f' & Hf' & Ec').
    split; [rewrite Ed; exact W1|]. exists f'. split; [exact Hf'|congruence].
  - injection Hrun as _ <-. split; [exact W1|]. exists f1. split; assumption.
  - injection Hrun as _ <-. split; [exact W1|]. exists f1. split; assumption.
  - injection Hrun as _ <-. split; [exact W1|]. exists f1. split; assumption.
Qed.

(* C03 through mgr_write on a writable handle, EVERY outcome: a FAT that is well-formed for the
   heads hs - among them the first cluster of the file, if it has one - is well-formed for the
   same heads afterwards; when the file had no cluster, either nothing was written
   (NotEnoughSpace) or the cluster c now recorded in the file's record is a new head *)
Theorem gw_mgr_write_wf fsz h data s fi f vi v ch hs o s' :
  mw_pre fsz h s fi f vi v ch -> mode_eqb (f_mode f) ReadOnly = false ->
  fat_wf (s_disk s) v hs -> (2 <= e_cluster (f_entry f) -> In (e_cluster (f_entry f)) hs) ->
  mgr_write h data s = (o, s') ->
  (2 <= e_cluster (f_entry f) -> fat_wf (s_disk s') v hs) /\
  (e_cluster (f_entry f) < 2 ->
     o = Err NotEnoughSpace \/
     exists c f', ~ In c hs /\ fat_wf (s_disk s') v (c :: hs) /\
       nth_error (s_files s') fi = Some f' /\ e_cluster (f_entry f') = c).
Proof.
  intros Hmw Hmode W Hhs Hrun.
  pose proof Hmw as [Hl Hh Hfi Hvol Hpre Hfit Hspc Hwf Hchain Hoff Hsize H32].
  rewrite (mgr_write_unfold h data s fi f vi Hl Hh Hfi Hvol), Hmode in Hrun.
  set (tw := N.min (N.of_nat (length data)) (MAX_FILE_SIZE - f_offset f)) in *.
  assert (Hclip : N.of_nat (length (firstn (N.to_nat tw) data)) = tw) by (rewrite firstn_length; unfold tw; lia).
  assert (HtwM : f_offset f + tw < U32) by (unfold tw, MAX_FILE_SIZE, U32 in *; clear - Hoff H32; lia).
  destruct Hchain as [(A1 & (fuel0 & A2) & A3)|(A1 & -> & A3)].
  - (* the file has clusters *)
    split; [intros _|intros X; clear - A1 X; lia].
    destruct (mw_prepare fsz h data s fi f vi v ch Hmw)
      as [(sD & fD & vD & chD & Prep & Hrun')|(s1 & _ & Hc0 & _)]; [|clear - A1 Hc0; lia].
    cbv zeta in Hrun'. fold tw in Hrun'. rewrite Hrun' in Hrun. clear Hrun'.
    destruct Prep as [Pinv (Pf1 & Pf2) Pentry Poff Pid (nf0 & fc0 & EvD) PvolsD PfilesD Pchain Pframe Ptab].
    assert (EdD : s_disk sD = s_disk s).
    { destruct Pchain as [(_ & E)|(E & _)]; [exact E|].
      destruct (chain_of_head _ _ _ _ _ A2) as (_ & _ & l' & El). rewrite E in El. discriminate El. }
    assert (G : geo_eq v vD) by (exists nf0, fc0; exact EvD).
    destruct (gw_loop_tail_wf fsz vi fi (e_cluster (f_entry fD)) _ _ vD chD fD sD hs o s' Pinv
                ltac:(rewrite Poff, Hclip; exact HtwM)
                ltac:(rewrite EdD; exact (fat_wf_geo _ v vD _ G W))
                ltac:(rewrite (Pf2 A1); exact (Hhs A1)) Hrun) as (W' & _).
    exact (fat_wf_geo _ vD v _ (geo_eq_sym _ _ G) W').
  - (* the file has no cluster yet: one is allocated *)
    split; [intros X; clear - A1 X; lia|intros _].
    set (fA := set_f_dirty f true) in *. set (sA := PrRw.upd_file s fi fA) in *.
    assert (HfiA : nth_error (s_files sA) fi = Some fA)
      by (cbn; eapply PrRw.nth_error_list_set_same; exact Hfi).
    assert (HpreA : alloc_pre sA vi v fsz) by exact Hpre.
    pose proof Hpre as ((Hnf & Hc & Hvi & Hlen) & L & Hh0).
    assert (E : (e_cluster (f_entry f) <? RESERVED_ENTRIES) = true) by (apply N.ltb_lt; exact A1).
    assert (HprevN : forall p, @None N = Some p -> p < v_clusters v + 2) by (intros p Ep; discriminate Ep).
    destruct (alloc_cluster_total vi v fsz None false sA HpreA HprevN) as (oa & s2 & Ha & Hres).
    destruct Hres as [(-> & Hnone & Hd2 & Hm2 & _ & Hst2)|(c & -> & _)].
    + left. unfold mw_first in Hrun. rewrite E in Hrun. rewrite bind_bind in Hrun.
      rewrite (bind_err _ _ _ _ _ Ha) in Hrun. injection Hrun as <- _. reflexivity.
    + right.
      destruct (C03_alloc_new_head_wf vi v fsz false sA hs c s2 HpreA W Ha) as (W2 & _ & Hni & _).
      pose proof (alloc_files_of_effect vi v fsz None sA c s2 HpreA Hwf
                    ltac:(intros p Ep; discriminate Ep) Ha) as AF.
      destruct (af_range _ _ _ _ _ _ _ AF) as (R1 & R2 & R3).
      destruct (af_vol _ _ _ _ _ _ _ AF) as (nf & fc & Evols & Hpre2).
      set (v' := vol_rebook v nf fc) in *.
      set (fB := set_f_entry fA (set_e_cluster (f_entry fA) c)).
      set (sC := PrRw.upd_file s2 fi fB).
      assert (Hfi2 : nth_error (s_files s2) fi = Some fA) by (rewrite (af_files _ _ _ _ _ _ _ AF); exact HfiA).
      assert (HfiC : nth_error (s_files sC) fi = Some fB) by (cbn; eapply PrRw.nth_error_list_set_same; exact Hfi2).
      assert (HvolC : find_idx (fun w => v_id w =? f_vol fB) (s_vols sC) 0 = Some vi).
      { cbn [sC PrRw.upd_file s_vols set_s_files]. rewrite Evols. apply (find_vol_set _ _ _ v); [exact Hvol|exact Hvi|reflexivity]. }
      assert (Hreset : reset_cursor fB = set_f_cur_cluster (set_f_cur_off fB 0) c).
      { unfold reset_cursor. change (f_cur_cluster fB) with (f_cur_cluster f).
        change (e_cluster (f_entry fB)) with c.
        replace (f_cur_cluster f <? c) with true by (symmetry; apply N.ltb_lt; clear - A3 R1; lia).
        reflexivity. }
      set (fD := set_f_cur_cluster (set_f_cur_off fB 0) c) in *.
      cbn [length] in Hsize.
      assert (E0 : e_size (f_entry f) = 0) by (clear - Hsize; lia).
      assert (Pinv : wl_inv fsz vi fi c v' [c] fD (PrRw.upd_file sC fi fD)).
      { constructor.
        - exact Hpre2.
        - exact Hfit.
        - exact Hspc.
        - exact (af_wf _ _ _ _ _ _ _ AF).
        - exists 1%nat. unfold v'. rewrite chain_of_rebook.
          exact (PrWrite.chain_single _ _ _ _ R1 R2 (af_new _ _ _ _ _ _ _ AF)).
        - cbn. rewrite list_set_twice. eapply PrRw.nth_error_list_set_same. exact Hfi2.
        - reflexivity.
        - exists 0%nat. split; reflexivity.
        - exact Hoff.
        - change (e_size (f_entry fD)) with (e_size (f_entry f)). rewrite E0. clear. lia. }
      unfold mw_first in Hrun. rewrite E in Hrun. rewrite bind_bind in Hrun. rewrite (bind_ok _ _ _ _ _ Ha) in Hrun.
      rewrite bind_bind in Hrun. rewrite (bind_ok _ _ _ _ _ (get_file_some fi fA s2 Hfi2)) in Hrun.
      rewrite put_file_ok' in Hrun. fold fB in Hrun. fold sC in Hrun.
      rewrite (mw_rest_run fi data sC fB vi HfiC HvolC) in Hrun. cbv zeta in Hrun. rewrite Hreset in Hrun.
      change (f_offset fD) with (f_offset f) in Hrun. fold tw in Hrun.
      assert (G : geo_eq v v') by (exists nf, fc; reflexivity).
      destruct (gw_loop_tail_wf fsz vi fi c _ _ v' [c] fD (PrRw.upd_file sC fi fD) (c :: hs) o s' Pinv
                  ltac:(change (f_offset fD) with (f_offset f); rewrite Hclip; exact HtwM)
                  (fat_wf_geo _ v v' _ G W2) (or_introl eq_refl) Hrun) as (W' & f' & Hf' & Ec').
      exists c, f'. split; [exact Hni|]. split; [exact (fat_wf_geo _ v' v _ (geo_eq_sym _ _ G) W')|].
      split; assumption.
Qed.

(* ================================================================== 4. where directory blocks and file slots are *)
Lemma gw_node_dir_blocks_iff v : forall n j,
  In j (node_dir_blocks v n) <-> exists e ch kids, In (NDir e ch kids) (flatten n) /\ In j (data_blocks v ch).
Proof.
  induction n as [e ch|e ch kids IH] using node_ind'; intros j.
  - cbn [node_dir_blocks flatten]. split; [intros []|].
    intros (e' & ch' & kids' & [H|[]] & _). discriminate H.
  - cbn [node_dir_blocks flatten]. rewrite Forall_forall in IH. split.
    + intros H. apply in_app_or in H. destruct H as [H|H].
      * exists e, ch, kids. split; [left; reflexivity|exact H].
      * apply in_flat_map in H. destruct H as (k & Hk & H).
        destruct (proj1 (IH k Hk j) H) as (e' & ch' & kids' & A & B).
        exists e', ch', kids'. split; [right; apply in_flat_map; exists k; split; assumption|exact B].
    + intros (e' & ch' & kids' & [H|H] & B).
      * injection H as <- <- <-. apply in_or_app. left. exact B.
      * apply in_or_app. right. apply in_flat_map in H. destruct H as (k & Hk & H).
        apply in_flat_map. exists k. split; [exact Hk|]. apply (IH k Hk j). exists e', ch', kids'. split; assumption.
Qed.

Lemma gw_tree_dir_blocks_iff v bl T j :
  In j (tree_dir_blocks v bl T) <->
  In j bl \/ exists e ch kids, In (NDir e ch kids) (all_nodes T) /\ In j (data_blocks v ch).
Proof.
  unfold tree_dir_blocks, all_nodes. rewrite in_app_iff. split; (intros [H|H]; [left; exact H|right]).
  - apply in_flat_map in H. destruct H as (n & Hn & H).
    destruct (proj1 (gw_node_dir_blocks_iff v n j) H) as (e & ch & kids & A & B).
    exists e, ch, kids. split; [apply in_flat_map; exists n; split; assumption|exact B].
  - destruct H as (e & ch & kids & A & B). apply in_flat_map in A. destruct A as (n & Hn & A).
    apply in_flat_map. exists n. split; [exact Hn|]. apply gw_node_dir_blocks_iff. exists e, ch, kids. split; assumption.
Qed.

Section GwInv.
  Variables (fsz vid : N) (s : st) (vi : nat) (v : vol) (bl rch : list N) (T : list node).
  Hypothesis Hinv : fs_inv_at fsz vid s vi v bl rch T.
  Let d := s_disk s.
  Let HD := fi_disk _ _ _ _ _ _ _ _ Hinv.
  Let HT := di_tree _ _ _ _ _ _ HD.

  (* the chain of a directory node *)
  Lemma gw_dir_node_chain e ch kids : In (NDir e ch kids) (all_nodes T) -> chain_at d v (e_cluster e) ch.
  Proof.
    intros Hn. destruct (all_nodes_rep d v bl T HT _ Hn) as (t & bl' & Hr & _).
    apply node_rep_dir in Hr. exact (proj1 (proj2 (proj2 Hr))).
  Qed.

  (* a directory block is a block of the FAT16 root region or of a data cluster *)
  Lemma gw_dir_block_kind j : In j (tree_dir_blocks v bl T) ->
    (v_fat32 v = false /\ In j (root16_blocks v)) \/
    (exists c, 2 <= c /\ c < v_clusters v + 2 /\ In j (cluster_blocks v c)).
  Proof.
    intros Hj. apply gw_tree_dir_blocks_iff in Hj.
    assert (K : forall h ch, chain_at d v h ch -> In j (data_blocks v ch) ->
                exists c, 2 <= c /\ c < v_clusters v + 2 /\ In j (cluster_blocks v c)).
    { intros h ch Hch Hin. unfold data_blocks in Hin. apply in_flat_map in Hin. destruct Hin as (c & Hc & Hin).
      destruct (chain_at_mem d v h ch c Hch Hc) as (A & B & _). exists c. repeat split; assumption. }
    destruct Hj as [Hj|(e & ch & kids & Hn & Hj)].
    - pose proof (di_root _ _ _ _ _ _ HD) as Hroot. unfold root_dir in Hroot.
      destruct (v_fat32 v) eqn:E32.
      + destruct Hroot as (Hch & ->). right. exact (K _ _ Hch Hj).
      + destruct Hroot as (_ & ->). left. split; [reflexivity|exact Hj].
    - right. exact (K _ _ (gw_dir_node_chain e ch kids Hn) Hj).
  Qed.

  Lemma gw_dir_block_in_dir j : In j (tree_dir_blocks v bl T) -> PrBounds.in_dir v j.
  Proof.
    intros Hj. destruct (gw_dir_block_kind j Hj) as [(E & H)|(c & C1 & C2 & H)].
    - right. pose proof (PrBounds.C04_root_block_in_root v E) as F. rewrite Forall_forall in F. exact (F j H).
    - left. pose proof (PrBounds.C04_cluster_block_in_data v c C1 C2) as F. rewrite Forall_forall in F. exact (F j H).
  Qed.

  (* the directory slot of an open file *)
  Lemma gw_file_slot f : In f (s_files s) ->
    exists e0 ch0 i,
      In (NFile e0 ch0) (all_nodes T) /\ node_pos (NFile e0 ch0) = (e_block (f_entry f), e_offset (f_entry f)) /\
      e_name e0 = e_name (f_entry f) /\
      (e_cluster (f_entry f) = e_cluster e0 \/ (e_cluster e0 < 2 /\ 2 <= e_cluster (f_entry f))) /\
      i < 16 /\ e_offset (f_entry f) = i * 32 /\
      In (e_block (f_entry f)) (tree_dir_blocks v bl T) /\
      node_slot (e_block (f_entry f), i * 32, slot (disk_get d (e_block (f_entry f))) i) = true /\
      e0 = t_entry (v_fat32 v) (e_block (f_entry f), i * 32, slot (disk_get d (e_block (f_entry f))) i) /\
      entry_chain d v e0 ch0.
  Proof.
    intros Hf. pose proof (ofile_of fsz vid s vi v bl rch T Hinv f Hf) as O.
    destruct (of_node _ _ _ _ O) as (e0 & ch0 & Hn & Eb & Eo & En & Ec).
    destruct (all_nodes_rep d v bl T HT _ Hn) as (t & bl' & Hr & Ht & Hbl').
    destruct (dir_nodes_in d bl' t Ht) as (_ & Hns & b & i & Hb & Hi & ->).
    pose proof (node_rep_entry d v _ _ Hr) as Ee. cbn [node_entry] in Ee.
    assert (Eb0 : e_block e0 = b) by (rewrite Ee; reflexivity).
    assert (Eo0 : e_offset e0 = i * 32) by (rewrite Ee; reflexivity).
    apply node_rep_file in Hr. destruct Hr as (_ & _ & Hch).
    exists e0, ch0, i. rewrite <- Eb, <- Eo. rewrite Eb0, Eo0.
    split; [exact Hn|]. split; [unfold node_pos; cbn [node_entry]; rewrite Eb0, Eo0; reflexivity|].
    split; [exact En|]. split; [exact Ec|]. split; [exact Hi|]. split; [reflexivity|].
    split; [|split; [exact Hns|split; [exact Ee|exact Hch]]].
    apply gw_tree_dir_blocks_iff. destruct Hbl' as [->|(e & ch & kids & Hnd & -> & _)]; [left; exact Hb|right].
    exists e, ch, kids. split; assumption.
  Qed.
End GwInv.

(* ================================================================== 5. Flush *)
Lemma gw_nodup_map_inj {A B} (k : A -> B) : forall l a b, NoDup (map k l) -> In a l -> In b l -> k a = k b -> a = b.
Proof.
  induction l as [|x l IH]; intros a b Hnd Ha Hb E; [destruct Ha|].
  cbn [map] in Hnd. inversion Hnd as [|? ? Hx Hnd']; subst.
  destruct Ha as [->|Ha]; destruct Hb as [->|Hb]; try reflexivity.
  - exfalso. apply Hx. rewrite E. apply in_map. exact Hb.
  - exfalso. apply Hx. rewrite <- E. apply in_map. exact Ha.
  - exact (IH a b Hnd' Ha Hb E).
Qed.

(* one element leaves a filtered list *)
Lemma gw_perm_filter_one {A} (g : A -> N) (q q' : A -> bool) : forall l x,
  NoDup l -> In x l -> q x = true -> q' x = false -> (forall y, In y l -> y <> x -> q' y = q y) ->
  Permutation (map g (filter q l)) (g x :: map g (filter q' l)).
Proof.
  induction l as [|a l IH]; intros x Hnd Hx Qx Q'x Hoth; [destruct Hx|].
  inversion Hnd as [|? ? Ha Hnd']; subst. cbn [filter]. destruct Hx as [->|Hx].
  - rewrite Qx, Q'x. cbn [map]. apply perm_skip.
    rewrite (filter_ext_in q' q l); [apply Permutation_refl|].
    intros y Hy. apply Hoth; [right; exact Hy|]. intros ->. contradiction.
  - assert (Hax : a <> x) by (intros ->; contradiction).
    rewrite (Hoth a (or_introl eq_refl) Hax).
    specialize (IH x Hnd' Hx Qx Q'x (fun y Hy => Hoth y (or_intror Hy))).
    destruct (q a); cbn [map]; [|exact IH].
    apply (Permutation_trans (perm_skip _ IH)). apply perm_swap.
Qed.

(* the representation of the slot a flush writes, as a tree node *)
Lemma gw_readback_fields (fat32 : bool) (e : dirent) (blk off : N) :
  length (e_name e) = 11%nat -> is_directory (e_attr e) = false -> e_size e < U32 ->
  e_cluster e < (if fat32 then 4294967296 else 65536) ->
  let e' := t_entry fat32 (blk, off, ser_bytes fat32 e) in
  e_name e' = e_name e /\ e_attr e' = e_attr e /\ e_size e' = e_size e /\ e_cluster e' = e_cluster e /\
  e_block e' = blk /\ e_offset e' = off.
Proof.
  intros Hn Hd Hs Hc e'. subst e'. unfold t_entry. cbn [fst snd].
  destruct (C02_codec_roundtrip_fields fat32 e blk off Hn) as (A1 & A2 & A3 & _ & _ & _ & _ & A8 & A9 & A10).
  split; [exact A1|]. split; [exact A2|]. split; [exact (A3 Hs)|].
  split; [|split; assumption]. rewrite (A10 Hc), Hd, andb_false_r. reflexivity.
Qed.

Lemma gw_ts_eq_dec (a b : ts) : {a = b} + {a <> b}.
Proof. decide equality; apply N.eq_dec. Qed.
Lemma gw_dirent_eq_dec (a b : dirent) : {a = b} + {a <> b}.
Proof. decide equality; try apply N.eq_dec; try apply gw_ts_eq_dec. apply (list_eq_dec N.eq_dec). Qed.
Lemma gw_fileinfo_eq_dec (a b : fileinfo) : {a = b} + {a <> b}.
Proof.
  decide equality; try apply N.eq_dec; try apply gw_dirent_eq_dec; try apply Bool.bool_dec.
  decide equality.
Qed.

Section GwFlush.
  Variables (fsz vid : N) (s : st) (vi : nat) (v : vol) (bl rch : list N) (T : list node).
  Hypothesis Hinv : fs_inv_at fsz vid s vi v bl rch T.
  Variables (h : N) (fi : nat) (f : fileinfo).
  Hypothesis Hr : PrSeek.resolves s h fi f.

  Let d := s_disk s.
  Let e := f_entry f.
  Let blk := e_block (f_entry f).

  (* the in-memory first cluster fits the cluster field of a slot *)
  Lemma gw_cluster_fits : e_cluster e < (if v_fat32 v then 4294967296 else 65536).
  Proof.
    destruct (gw_vol_facts _ _ _ _ _ _ _ _ Hinv) as (_ & _ & Hfit & _).
    destruct (gw_file_facts _ _ _ _ _ _ _ _ h fi f Hinv Hr) as (O & _).
    unfold clusters_fit, fat_bad in Hfit.
    destruct (of_chain _ _ _ _ O) as [(_ & (fu & A2) & _)|(A1 & _)].
    - destruct (chain_of_head _ _ _ _ _ A2) as (_ & B & _). fold e in B.
      destruct (v_fat32 v); lia.
    - fold e in A1. destruct (v_fat32 v); lia.
  Qed.

  (* the entry a flush leaves in the slot *)
  Definition gw_new_entry (i : N) : dirent := t_entry (v_fat32 v) (blk, i * 32, ser_bytes (v_fat32 v) (f_entry f)).
  Definition gw_new_node (i : N) : node := NFile (gw_new_entry i) (fchain (s_disk s) v f).

  Theorem gw_flush_dirty : f_dirty f = true ->
    exists s' i, flush_file h s = (Ok tt, s') /\
      fs_inv_at fsz vid s' vi v bl rch (forest_replace (blk, i * 32) (gw_new_node i) T) /\
      same_mgr s s' /\ is_pending (s_disk s') v f = false /\
      exists ws, PrOrder.tsteps s s' ws /\ Forall (PrBounds.in_region v fsz) ws.
  Proof.
    intros Hdirty.
    destruct (gw_vol_facts _ _ _ _ _ _ _ _ Hinv) as (Hl & Hpre & Hfit & Hspc & Hwf & Hvid & Hnf & Hc & Hvi & L & Hvok).
    destruct (gw_file_facts _ _ _ _ _ _ _ _ h fi f Hinv Hr) as (O & Hfvol).
    pose proof Hr as (_ & Hfind & Hfi). pose proof (nth_error_In _ _ Hfi) as Hfin.
    destruct (gw_file_slot _ _ _ _ _ _ _ _ Hinv f Hfin)
      as (e0 & ch0 & i & Hn0 & Hpos0 & En & Ec & Hi & Eo & Hblk & Hns & Ee0 & Hch0).
    fold blk e d in Hpos0, En, Ec, Eo, Hblk, Hns, Ee0, Hch0.
    pose proof (of_slot _ _ _ _ O) as [Sct Smt Sname Soff Snfat]. fold blk e in Sct, Smt, Sname, Soff, Snfat.
    destruct (of_attr _ _ _ _ O) as (Adir & Alfn). fold e in Adir, Alfn.
    pose proof (of_size _ _ _ _ O) as Osize. pose proof (of_u32 _ _ _ _ O) as O32. fold e d in Osize, O32.
    pose proof (fi_disk _ _ _ _ _ _ _ _ Hinv) as HD. fold d in HD.
    set (old := slot (disk_get d blk) i) in *.
    set (new := ser_bytes (v_fat32 v) e).
    set (n0 := NFile e0 ch0) in *.
    (* the run *)
    destruct (info_step_exists s vi v Hnf Hc Hvi Hwf) as (s1 & Hinfo & Hwf1).
    assert (Hnp : e_size e = 0 \/ e_cluster e <> 0).
    { destruct (of_chain _ _ _ _ O) as [(A1 & _)|(A1 & A2 & _)].
      - fold e in A1. right. clear - A1. lia.
      - fold e d in A2. left. rewrite A2 in Osize. cbn [length] in Osize. clear - Osize. lia. }
    destruct (flush_file_spec s h fi f vi v s1 Hr Hdirty (conj Hfvol Hvi) Hinfo Hnp Sct Smt Soff)
      as (s' & Hrun & Hd' & Hnew & Hfr' & Hc' & Hnf' & Hm' & _).
    fold blk e in Hd', Hnew, Hfr'.
    (* the information sector is neither a FAT sector nor a directory block *)
    assert (F1 : (forall j, fat_area v j -> disk_get (s_disk s1) j = disk_get d j) /\
                 (forall j, In j (tree_dir_blocks v bl T) -> disk_get (s_disk s1) j = disk_get d j)).
    { destruct Hinfo as (_ & _ & _ & _ & Hfr1 & Hsame). destruct (v_fat32 v) eqn:E32.
      - destruct (fi_info _ _ _ _ _ _ _ _ Hinv E32) as (I1 & I2). split; intros j Hj; apply Hfr1; intros ->.
        + exact (I1 Hj).
        + destruct (gw_dir_block_kind _ _ _ _ _ _ _ _ Hinv _ Hj) as [(E & _)|(c & C1 & _ & Hin)]; [congruence|exact (I2 c C1 Hin)].
      - rewrite (Hsame (or_introl eq_refl)). split; reflexivity. }
    pose proof (disk_inv_frame d (s_disk s1) v bl rch T (pend_of s v) (proj1 F1) (proj2 F1) HD) as HD1.
    (* the slot write *)
    assert (Eold : disk_get (s_disk s1) blk = disk_get d blk) by (apply (proj2 F1); exact Hblk).
    assert (Hal : e_offset e mod 32 = 0) by (rewrite Eo; apply N.mod_mul; discriminate).
    assert (Ei : e_offset e / 32 = i) by (rewrite Eo; apply N.div_mul; discriminate).
    destruct (put_entry_slots (v_fat32 v) e (disk_get (s_disk s1) blk) (Hwf1 blk) Sname Soff Hal)
      as (Hlen' & Hslot & Hoth & _ & _).
    rewrite Ei in Hslot, Hoth. fold new in Hslot.
    assert (Hsw : slot_write (s_disk s1) (s_disk s') blk i new).
    { split; [exact Hfr'|]. rewrite Hnew. split; [exact Hslot|exact Hoth]. }
    assert (Hfat' : forall j, fat_area v j -> disk_get (s_disk s') j = disk_get d j).
    { intros j Hj. rewrite (slot_write_fat _ _ v blk i new Hsw Snfat j Hj). exact (proj1 F1 j Hj). }
    pose proof (ser_bytes_layout (v_fat32 v) e Sname) as Lay. cbv zeta in Lay. fold new in Lay.
    destruct Lay as (L0 & L11 & _ & _ & _ & _ & _ & _ & _ & Lb).
    assert (Ename0 : e_name e0 = firstn 11 old) by (rewrite Ee0; reflexivity).
    assert (Hb0 : get8 new 0 = get8 old 0).
    { rewrite Lb, <- En, Ename0. apply get8_firstn. }
    assert (Hname : t_name (blk, i * 32, new) = t_name (blk, i * 32, old)).
    { unfold t_name. cbn [snd]. rewrite L0, <- En, Ename0. reflexivity. }
    assert (Hend : is_end new = is_end old) by (unfold is_end; rewrite Hb0; reflexivity).
    assert (Hnsnew : node_slot (blk, i * 32, new) = true).
    { unfold node_slot, short_slot, dot_slot in *. rewrite Hname.
      apply andb_true_iff in Hns. destruct Hns as (Hs1 & Hs2). apply andb_true_iff in Hs1. destruct Hs1 as (Hv1 & _).
      apply andb_true_iff. split; [|exact Hs2]. apply andb_true_iff. split.
      - unfold t_is_valid, is_valid, is_end in *. cbn [snd] in *. rewrite Hb0. exact Hv1.
      - unfold t_attr. cbn [snd]. rewrite L11, Alfn. reflexivity. }
    (* the new node *)
    pose proof (gw_readback_fields (v_fat32 v) e blk (i * 32) Sname Adir O32 gw_cluster_fits) as RB.
    cbv zeta in RB. change (t_entry (v_fat32 v) (blk, i * 32, ser_bytes (v_fat32 v) e)) with (gw_new_entry i) in RB.
    destruct RB as (R1 & R2 & R3 & R4 & R5 & R6).
    set (e' := gw_new_entry i) in *. set (n' := gw_new_node i).
    assert (Hn' : node_rep (s_disk s') v n' (blk, i * 32, new)).
    { apply node_rep_file. fold e'. split; [reflexivity|]. split; [rewrite R2; exact Adir|].
      unfold fchain. fold e d. destruct (N.ltb_spec (e_cluster e) 2) as [Hlt|Hge].
      - right. rewrite R4. split; [exact Hlt|reflexivity].
      - left. rewrite R4. split; [exact Hge|].
        destruct (of_chain _ _ _ _ O) as [(_ & (fu & A2) & _)|(A1 & _)]; [fold e d in A2|fold e in A1; clear - A1 Hge; lia].
        exists fu. rewrite (chain_of_ext d (s_disk s') v Hfat'), A2.
        rewrite (chain_l_at _ _ _ _ (chain_at_any _ _ _ _ _ A2)). reflexivity. }
    assert (Hok' : forall par, node_ok (s_disk s') v par n').
    { intros par. apply node_ok_file. fold e'. rewrite R3. split; [exact Osize|exact O32]. }
    assert (Hp0 : node_pos n0 = (blk, i * 32)) by (rewrite Hpos0, Eo; reflexivity).
    assert (Huniq : forall m, In m (all_nodes T) -> node_pos m = (blk, i * 32) -> m = n0).
    { intros m Hm Em. apply (pos_unique (all_nodes T) m n0 (di_pos _ _ _ _ _ _ HD) Hm Hn0). congruence. }
    assert (Hleaf : forall m, In m (all_nodes T) -> node_pos m = (blk, i * 32) -> node_kids m = []).
    { intros m Hm Em. rewrite (Huniq m Hm Em). reflexivity. }
    assert (Hpos' : node_pos n' = (blk, i * 32)) by (unfold node_pos; cbn [node_entry n' gw_new_node]; fold e'; rewrite R5, R6; reflexivity).
    set (T' := forest_replace (blk, i * 32) n' T).
    (* pending heads: every other file keeps its status, the flushed file is not pending any more *)
    assert (Hfiles' : s_files s' = s_files s) by exact (proj1 (proj2 (proj2 Hm'))).
    assert (Hde' : disk_entry (s_disk s') v e = e').
    { unfold disk_entry, slot_tslot. change (e_block e) with blk. rewrite Ei, Eo, Hnew.
      unfold e', gw_new_entry. change (ser_bytes (v_fat32 v) (f_entry f)) with new. rewrite <- Hslot. reflexivity. }
    assert (Hpf' : is_pending (s_disk s') v f = false).
    { unfold is_pending. fold e. rewrite Hde', R4.
      destruct (N.ltb_spec (e_cluster e) 2) as [Hlt|Hge]; [|reflexivity].
      cbn [andb]. apply N.leb_gt. exact Hlt. }
    assert (Hde : disk_entry d v e = e0).
    { unfold disk_entry, slot_tslot. change (e_block e) with blk. rewrite Ei, Eo. symmetry. exact Ee0. }
    assert (Hpo : forall g, In g (s_files s) -> g <> f -> is_pending (s_disk s') v g = is_pending d v g).
    { intros g Hg Hne. unfold is_pending. f_equal. f_equal. f_equal.
      destruct (gw_file_slot _ _ _ _ _ _ _ _ Hinv g Hg) as (_ & _ & ig & _ & _ & _ & _ & Hig & Eog & Hbg & _).
      unfold disk_entry, slot_tslot. f_equal. f_equal.
      assert (Eig : e_offset (f_entry g) / 32 = ig) by (rewrite Eog; apply N.div_mul; discriminate).
      rewrite Eig. destruct (N.eq_dec (e_block (f_entry g)) blk) as [Eb|Eb].
      - rewrite Eb. assert (Hik : ig <> i).
        { intros ->. apply Hne. apply (gw_nodup_map_inj slot_key (s_files s) g f (fi_fslots _ _ _ _ _ _ _ _ Hinv) Hg Hfin).
          unfold slot_key. fold blk e. rewrite Eb, Eog, Eo. reflexivity. }
        rewrite (proj2 (proj2 Hsw) ig Hik), Eold. reflexivity.
      - rewrite (proj1 Hsw _ Eb). rewrite (proj2 F1 _ Hbg). reflexivity. }
    assert (HNDf : NoDup (s_files s)) by exact (NoDup_map_inv _ _ (fi_fids _ _ _ _ _ _ _ _ Hinv)).
    assert (HP : Permutation (heads v T ++ pend_of s v) (heads v T' ++ pend_of s' v)).
    { pose proof (heads_replace_perm (blk, i * 32) n' eq_refl v T n0 (di_pos _ _ _ _ _ _ HD) Hn0 Hp0 eq_refl Huniq) as P1.
      fold T' in P1. unfold pend_of. rewrite Hfiles'. fold d.
      destruct Ec as [Ec|(Ec0 & Ec1)].
      - (* the slot already had the cluster *)
        assert (Eh : own_head n' = own_head n0).
        { unfold n', n0, gw_new_node. cbn [own_head]. fold e'. rewrite R4, Ec. reflexivity. }
        rewrite Eh in P1. apply Permutation_app_inv_l in P1.
        rewrite (filter_ext_in (is_pending (s_disk s') v) (is_pending d v) (s_files s)).
        + apply Permutation_app_tail. apply Permutation_sym. exact P1.
        + intros g Hg. destruct (gw_fileinfo_eq_dec g f) as [->|Hne]; [|exact (Hpo g Hg Hne)].
          rewrite Hpf'. unfold is_pending. fold e. rewrite Hde, <- Ec.
          destruct (N.ltb_spec (e_cluster e) 2) as [Hlt|Hge]; [|reflexivity].
          cbn [andb]. symmetry. apply N.leb_gt. exact Hlt.
      - (* the pending head becomes the head of the node *)
        assert (Eh0 : own_head n0 = []).
        { unfold n0. cbn [own_head]. replace (2 <=? e_cluster e0) with false; [reflexivity|].
          symmetry. apply N.leb_gt. exact Ec0. }
        assert (Eh' : own_head n' = [e_cluster e]).
        { unfold n', gw_new_node. cbn [own_head]. fold e'. rewrite R4.
          replace (2 <=? e_cluster e) with true; [reflexivity|]. symmetry. apply N.leb_le. exact Ec1. }
        rewrite Eh0, Eh' in P1. cbn [app] in P1.
        assert (Hpf : is_pending d v f = true).
        { unfold is_pending. fold e. rewrite Hde. apply andb_true_iff.
          split; [apply N.ltb_lt; exact Ec0|apply N.leb_le; exact Ec1]. }
        pose proof (gw_perm_filter_one (fun g => e_cluster (f_entry g)) (is_pending d v) (is_pending (s_disk s') v)
                      (s_files s) f HNDf Hfin Hpf Hpf' Hpo) as P2.
        fold e in P2.
        apply (Permutation_trans (Permutation_app_head _ P2)).
        apply (Permutation_trans (Permutation_sym (Permutation_middle _ _ _))).
        apply (Permutation_app_tail _ (Permutation_sym P1)). }
    assert (W' : fat_wf (s_disk s1) v (heads v T' ++ pend_of s' v))
      by exact (fat_wf_perm _ _ _ _ HP (di_wf _ _ _ _ _ _ HD1)).
    assert (HD' : disk_inv (s_disk s') v bl rch T' (pend_of s' v)).
    { apply (disk_inv_replace (s_disk s1) (s_disk s') v bl rch T (pend_of s v) (pend_of s' v) blk i new n' HD1 Hsw Snfat);
        rewrite ?Eold; try assumption. reflexivity. }
    assert (Hwf' : blocks_wf (s_disk s')).
    { intros j. destruct (N.eq_dec j blk) as [->|Hne]; [rewrite Hnew; exact Hlen'|].
      rewrite (Hfr' j Hne). apply Hwf1. }
    (* the open files and directories in the new tree *)
    assert (Hall : forall m, In m (all_nodes T) -> In (node_replace (blk, i * 32) n' m) (all_nodes T'))
      by (intros m Hm; exact (In_all_nodes_replace (blk, i * 32) n' eq_refl T m Hleaf Hm)).
    assert (Hfch : forall g, fchain (s_disk s') v g = fchain d v g).
    { intros g. unfold fchain, chain_l. rewrite (chain_of_ext d (s_disk s') v Hfat'). reflexivity. }
    exists s', i. split; [exact Hrun|]. split; [|split; [exact Hm'|split; [exact Hpf'|]]].
    - destruct Hm' as (M1 & M2 & M3 & M4 & M5 & M6 & M7 & M8 & M9 & M10).
      destruct Hpre as ((_ & _ & _ & _) & _ & Hh0).
      constructor.
      + exact (fi_vid _ _ _ _ _ _ _ _ Hinv).
      + rewrite M1. exact (fi_single _ _ _ _ _ _ _ _ Hinv).
      + split; [congruence|]. split.
        * split; [|split; assumption]. split; [exact Hnf'|]. split; [exact Hc'|].
          split; [rewrite M1; exact Hvi|]. intros k _. apply Hwf'.
        * split; [exact Hfit|]. split; [exact Hspc|]. split; [exact Hwf'|rewrite M1; exact Hvid].
      + exact (fi_layout _ _ _ _ _ _ _ _ Hinv).
      + exact (fi_dev _ _ _ _ _ _ _ _ Hinv).
      + exact (fi_info _ _ _ _ _ _ _ _ Hinv).
      + exact HD'.
      + rewrite M3. apply Forall_forall. intros g Hg.
        pose proof (ofile_of _ _ _ _ _ _ _ _ Hinv g Hg) as Og.
        constructor.
        * exact (of_vol _ _ _ _ Og).
        * exact (of_slot _ _ _ _ Og).
        * destruct (gw_fileinfo_eq_dec g f) as [->|Hne].
          -- exists e', (fchain d v f). fold blk e. split; [|rewrite R5, R6, R1, R4, Eo; repeat split; left; reflexivity].
             change (NFile e' (fchain d v f)) with n'.
             rewrite <- (node_replace_hit (blk, i * 32) n' n0 Hp0). exact (Hall n0 Hn0).
          -- destruct (of_node _ _ _ _ Og) as (eg & chg & Hng & Ebg & Eog & Eng & Ecg).
             exists eg, chg. split; [|repeat split; assumption].
             rewrite <- (node_replace_miss_file (blk, i * 32) n' eg chg); [exact (Hall _ Hng)|].
             intros Ep. apply Hne. apply (gw_nodup_map_inj slot_key (s_files s) g f (fi_fslots _ _ _ _ _ _ _ _ Hinv) Hg Hfin).
             unfold slot_key. fold blk e. unfold node_pos in Ep. cbn [node_entry] in Ep.
             rewrite <- Ebg, <- Eog, Eo. exact Ep.
        * exact (of_attr _ _ _ _ Og).
        * rewrite Hfch. pose proof (of_chain _ _ _ _ Og) as X. unfold chain_ok in *.
          destruct X as [(X1 & (fu & X2) & X3)|X]; [left|right; exact X].
          split; [exact X1|]. split; [exists fu; rewrite (chain_of_ext d (s_disk s') v Hfat'); exact X2|exact X3].
        * rewrite Hfch. exact (of_size _ _ _ _ Og).
        * exact (of_off _ _ _ _ Og).
        * exact (of_u32 _ _ _ _ Og).
        * intros Hp. destruct (gw_fileinfo_eq_dec g f) as [->|Hne]; [congruence|].
          apply (of_dirty _ _ _ _ Og). pose proof (Hpo g Hg Hne) as X. unfold d in X. rewrite <- X. exact Hp.
      + rewrite M3. exact (fi_fids _ _ _ _ _ _ _ _ Hinv).
      + rewrite M3. exact (fi_fslots _ _ _ _ _ _ _ _ Hinv).
      + rewrite M2. pose proof (fi_dirs _ _ _ _ _ _ _ _ Hinv) as Hdirs. rewrite Forall_forall in *.
        intros dd Hdd Evol. destruct (Hdirs dd Hdd Evol) as [Hroot|(ed & chd & kd & Hnd & Ecd)]; [left; exact Hroot|right].
        exists ed, chd, (map (node_replace (blk, i * 32) n') kd). split; [|exact Ecd].
        rewrite <- (node_replace_miss_dir (blk, i * 32) n' ed chd kd); [exact (Hall _ Hnd)|].
        intros Ep. pose proof (Huniq _ Hnd Ep) as X. discriminate X.
    - (* the device writes *)
      destruct (PrBounds.C04_flush_file s h fi f vi v (v_nblocks v) fsz s' (fi_layout _ _ _ _ _ _ _ _ Hinv)
                  (conj Hnf Hc) Hr (conj Hfvol Hvi) (gw_dir_block_in_dir _ _ _ _ _ _ _ _ Hinv _ Hblk) Hrun)
        as (ws & Tr & Fws & _).
      exists ws. split; [exact Tr|]. eapply Forall_impl; [|exact Fws]. intros j [Hj| ->].
      + right. right. right. exact Hj.
      + destruct (gw_dir_block_in_dir _ _ _ _ _ _ _ _ Hinv _ Hblk) as [X|X]; [right; left; exact X|right; right; left; exact X].
  Qed.
End GwFlush.

Theorem step_ok_Flush fsz vid h : step_ok fsz vid (Flush h).
Proof.
  intros s r s' Hinv _ _ Hs. pose proof (fs_inv_lock fsz vid s Hinv) as Hl.
  destruct (file_handle_cases s h Hl) as [(fi & f & Hr)|Hno].
  - cbn [step] in Hs. destruct (f_dirty f) eqn:Hd.
    + destruct Hinv as (vi & v & bl & rch & T & Hat).
      destruct (gw_flush_dirty fsz vid s vi v bl rch T Hat h fi f Hr Hd)
        as (s1 & i & Hrun & Hat1 & Hm & _ & ws & Tr & Fws).
      rewrite (lift_ok' _ _ _ _ _ Hrun) in Hs. injection Hs as <- <-.
      split; [discriminate|]. split; [discriminate|]. split; [exists vi, v, bl, rch; eexists; exact Hat1|].
      pose proof (fi_single _ _ _ _ _ _ _ _ Hat) as Ev. split.
      * exists v, v. split; [exact Ev|]. split; [rewrite (proj1 Hm); exact Ev|apply geo_eq_refl].
      * exists ws. split; [exact Tr|]. intros v0 Hv0. rewrite Ev in Hv0. destruct Hv0 as [<-|[]]. exact Fws.
    + rewrite (lift_ok' _ _ _ _ _ (flush_file_clean s h fi f Hr Hd)) in Hs. injection Hs as <- <-.
      apply step_ok_same; [exact Hinv|discriminate|discriminate].
  - destruct (PrHandles.C08_stale_file_handle h s Hl Hno) as (_ & _ & E & _).
    rewrite E in Hs. injection Hs as <- <-. apply step_ok_same; [exact Hinv|discriminate|discriminate].
Qed.

(* ================================================================== 6. CloseFile *)
Lemma gw_perm_filter {A} (q : A -> bool) l l' : Permutation l l' -> Permutation (filter q l) (filter q l').
Proof.
  induction 1 as [|x l l' _ IH|x y l|l l' l'' _ IH1 _ IH2]; cbn [filter].
  - constructor.
  - destruct (q x); [apply perm_skip|]; exact IH.
  - destruct (q x), (q y); try apply Permutation_refl. apply perm_swap.
  - exact (Permutation_trans IH1 IH2).
Qed.

Lemma gw_swap_remove_perm (l : list fileinfo) i x : NoDup (map f_id l) -> nth_error l i = Some x ->
  Permutation l (x :: swap_remove l i).
Proof.
  intros Hnd Hi. pose proof (NoDup_map_inv _ _ Hnd) as Hndl.
  apply NoDup_Permutation; [exact Hndl| |].
  - constructor; [|apply PrHandles.swap_remove_NoDup; exact Hndl].
    intros Hin. apply (PrHandles.swap_remove_gone f_id l i x Hnd Hi). apply in_map. exact Hin.
  - intros y. split.
    + intros Hy. destruct (gw_fileinfo_eq_dec y x) as [->|Hne]; [left; reflexivity|right].
      exact (PrFault2.swap_remove_keeps_others l i y x Hi Hy Hne).
    + intros [<-|Hy]; [exact (nth_error_In _ _ Hi)|exact (swap_remove_subset _ _ _ Hy)].
Qed.

(* the record of a file that is not pending leaves the table *)
Theorem gw_drop_file fsz vid s vi v bl rch T fi f :
  fs_inv_at fsz vid s vi v bl rch T -> nth_error (s_files s) fi = Some f ->
  is_pending (s_disk s) v f = false ->
  fs_inv_at fsz vid (set_s_files s (swap_remove (s_files s) fi)) vi v bl rch T.
Proof.
  intros Hinv Hfi Hnp. pose proof Hinv as [A B C D E F G H I J K].
  set (s2 := set_s_files s (swap_remove (s_files s) fi)).
  pose proof (gw_swap_remove_perm (s_files s) fi f I Hfi) as P.
  constructor.
  - exact A.
  - exact B.
  - exact C.
  - exact D.
  - exact E.
  - exact F.
  - destruct G as [G1 G2 G3 G4 G5 G6]. constructor; try assumption.
    assert (PP : Permutation (pend_of s v) (pend_of s2 v)); [|exact (fat_wf_perm _ _ _ _ (Permutation_app_head (heads v T) PP) G5)].
    unfold pend_of. cbn [s2 s_files s_disk set_s_files]. apply Permutation_map.
    pose proof (gw_perm_filter (is_pending (s_disk s) v) _ _ P) as P2. cbn [filter] in P2. rewrite Hnp in P2. exact P2.
  - cbn [s2 s_files set_s_files]. rewrite Forall_forall in *. intros g Hg.
    apply (ofile_ok_same_disk s); [reflexivity|]. apply H. exact (swap_remove_subset _ _ _ Hg).
  - cbn [s2 s_files set_s_files]. apply PrHandles.swap_remove_NoDup_map. exact I.
  - cbn [s2 s_files set_s_files]. rewrite PrHandles.map_swap_remove. apply PrHandles.swap_remove_NoDup. exact J.
  - exact K.
Qed.

Theorem step_ok_CloseFile fsz vid h : step_ok fsz vid (CloseFile h).
Proof.
  intros s r s' Hinv _ _ Hs. pose proof (fs_inv_lock fsz vid s Hinv) as Hl.
  destruct (file_handle_cases s h Hl) as [(fi & f & Hr)|Hno].
  - cbn [step] in Hs. destruct Hinv as (vi & v & bl & rch & T & Hat).
    pose proof (fi_single _ _ _ _ _ _ _ _ Hat) as Ev. pose proof Hr as (_ & _ & Hfi).
    assert (K : exists s1 T1 ws, flush_file h s = (Ok tt, s1) /\ same_mgr s s1 /\
              fs_inv_at fsz vid s1 vi v bl rch T1 /\ is_pending (s_disk s1) v f = false /\
              PrOrder.tsteps s s1 ws /\ Forall (PrBounds.in_region v fsz) ws).
    { destruct (f_dirty f) eqn:Hd.
      - destruct (gw_flush_dirty fsz vid s vi v bl rch T Hat h fi f Hr Hd)
          as (s1 & i & Hrun & Hat1 & Hm & Hp & ws & Tr & Fws).
        exists s1. eexists. exists ws. split; [exact Hrun|]. split; [exact Hm|]. split; [exact Hat1|].
        split; [exact Hp|]. split; [exact Tr|exact Fws].
      - exists s, T, []. split; [exact (flush_file_clean s h fi f Hr Hd)|]. split; [apply same_mgr_refl|].
        split; [exact Hat|]. split; [|split; [apply PrOrder.tsteps_refl|constructor]].
        pose proof (ofile_of _ _ _ _ _ _ _ _ Hat f (nth_error_In _ _ Hfi)) as O.
        destruct (is_pending (s_disk s) v f) eqn:Ep; [|reflexivity].
        rewrite (of_dirty _ _ _ _ O Ep) in Hd. discriminate Hd. }
    destruct K as (s1 & T1 & ws & Hrun & Hm & Hat1 & Hp & Tr & Fws).
    rewrite (lift_ok' _ _ _ _ _ (close_file_after_flush s h fi f s1 Hr Hrun Hm)) in Hs. injection Hs as <- <-.
    assert (Hfi1 : nth_error (s_files s1) fi = Some f) by (rewrite (proj1 (proj2 (proj2 Hm))); exact Hfi).
    split; [discriminate|]. split; [discriminate|].
    split; [exists vi, v, bl, rch, T1; exact (gw_drop_file fsz vid s1 vi v bl rch T1 fi f Hat1 Hfi1 Hp)|].
    split.
    + exists v, v. split; [exact Ev|]. split; [cbn [s_vols set_s_files]; rewrite (proj1 Hm); exact Ev|apply geo_eq_refl].
    + exists ws. split.
      * destruct Tr as (new & Tn & Wn). exists new. split; [exact Tn|exact Wn].
      * intros v0 Hv0. rewrite Ev in Hv0. destruct Hv0 as [<-|[]]. exact Fws.
  - destruct (PrHandles.C08_stale_file_handle h s Hl Hno) as (_ & _ & _ & E & _).
    rewrite E in Hs. injection Hs as <- <-. apply step_ok_same; [exact Hinv|discriminate|discriminate].
Qed.

(* ================================================================== 7. Write: the tree when a chain grows *)
(* every file node whose entry names the cluster `first` gets the chain ch' *)
Fixpoint chain_upd (first : N) (ch' : list N) (n : node) {struct n} : node :=
  match n with
  | NFile e ch => if e_cluster e =? first then NFile e ch' else n
  | NDir e ch kids => NDir e ch (map (chain_upd first ch') kids)
  end.

Section ChainUpd.
  Variables (first : N) (ch' : list N).
  Local Notation CU := (chain_upd first ch').

  Lemma cu_entry n : node_entry (CU n) = node_entry n.
  Proof. destruct n as [e ch|e ch kids]; cbn [chain_upd]; [destruct (e_cluster e =? first)|]; reflexivity. Qed.

  Lemma cu_pos n : node_pos (CU n) = node_pos n.
  Proof. unfold node_pos. rewrite cu_entry. reflexivity. Qed.

  Lemma cu_own_head n : own_head (CU n) = own_head n.
  Proof. destruct n as [e ch|e ch kids]; cbn [chain_upd]; [destruct (e_cluster e =? first)|]; reflexivity. Qed.

  Lemma cu_flatten : forall n, flatten (CU n) = map CU (flatten n).
  Proof.
    induction n as [e ch|e ch kids IH] using node_ind'.
    - cbn [chain_upd flatten map]. destruct (e_cluster e =? first); reflexivity.
    - cbn [chain_upd flatten map]. f_equal.
      induction IH as [|k ks Hk _ IHks]; [reflexivity|].
      cbn [map flat_map]. rewrite map_app, Hk, IHks. reflexivity.
  Qed.

  Lemma cu_all_nodes T : all_nodes (map CU T) = map CU (all_nodes T).
  Proof.
    unfold all_nodes. induction T as [|n T IH]; [reflexivity|].
    cbn [map flat_map]. rewrite map_app, cu_flatten, IH. reflexivity.
  Qed.

  Lemma cu_positions T : map node_pos (all_nodes (map CU T)) = map node_pos (all_nodes T).
  Proof. rewrite cu_all_nodes, map_map. apply map_ext. exact cu_pos. Qed.

  Lemma cu_heads v T : heads v (map CU T) = heads v T.
  Proof.
    unfold heads. f_equal. rewrite !heads_all_nodes, cu_all_nodes.
    rewrite flat_map_concat_map, map_map, <- flat_map_concat_map. apply flat_map_ext_in'.
    intros n _. apply cu_own_head.
  Qed.

  Lemma cu_dir_blocks v : forall n, node_dir_blocks v (CU n) = node_dir_blocks v n.
  Proof.
    induction n as [e ch|e ch kids IH] using node_ind'.
    - cbn [chain_upd]. destruct (e_cluster e =? first); reflexivity.
    - cbn [chain_upd node_dir_blocks]. f_equal.
      induction IH as [|k ks Hk _ IHks]; [reflexivity|]. cbn [map flat_map]. rewrite Hk, IHks. reflexivity.
  Qed.

  Lemma cu_in_file T e ch : In (NFile e ch) (all_nodes T) -> exists ch2, In (NFile e ch2) (all_nodes (map CU T)).
  Proof.
    intros H. rewrite cu_all_nodes. apply (in_map CU) in H. cbn [chain_upd] in H.
    destruct (e_cluster e =? first); eexists; exact H.
  Qed.

  Lemma cu_in_dir T e ch kids : In (NDir e ch kids) (all_nodes T) -> In (NDir e ch (map CU kids)) (all_nodes (map CU T)).
  Proof. intros H. rewrite cu_all_nodes. exact (in_map CU _ _ H). Qed.

  Variables (d d' : disk) (v : vol).

  (* what the new disk must say about a node of the old tree *)
  Definition keep_ok (m : node) : Prop :=
    match m with
    | NFile e ch => if e_cluster e =? first then entry_chain d' v e ch' /\ (length ch <= length ch')%nat
                    else entry_chain d' v e ch
    | NDir e ch _ => chain_at d' v (e_cluster e) ch
    end.

  Lemma gw_node_rep_chain : forall n t, node_rep d v n t ->
    (forall j, In j (node_dir_blocks v n) -> disk_get d' j = disk_get d j) ->
    (forall m, In m (flatten n) -> keep_ok m) ->
    node_rep d' v (CU n) t.
  Proof.
    induction n as [e ch|e ch kids IH] using node_ind'; intros t H Hb Hk.
    - apply node_rep_file in H. destruct H as (A & B & _).
      pose proof (Hk _ (or_introl eq_refl)) as K. cbn [keep_ok] in K. cbn [chain_upd].
      destruct (e_cluster e =? first); apply node_rep_file; (split; [exact A|]); (split; [exact B|]); [exact (proj1 K)|exact K].
    - apply node_rep_dir in H. destruct H as (A & B & _ & D).
      pose proof (Hk _ (flatten_self _)) as K. cbn [keep_ok] in K.
      cbn [chain_upd]. apply node_rep_dir. split; [exact A|]. split; [exact B|]. split; [exact K|].
      cbn [node_dir_blocks] in Hb.
      rewrite (dir_nodes_ext d d' (data_blocks v ch)) by (intros j Hj; apply Hb; apply in_or_app; left; exact Hj).
      assert (Hk' : forall k, In k kids -> forall m, In m (flatten k) -> keep_ok m)
        by (intros k Hkk m Hm; apply Hk; exact (flatten_kid e ch kids k m Hkk Hm)).
      assert (Hb' : forall j, In j (flat_map (node_dir_blocks v) kids) -> disk_get d' j = disk_get d j)
        by (intros j Hj; apply Hb; apply in_or_app; right; exact Hj).
      clear Hk Hb K. revert D. generalize (dir_nodes d (data_blocks v ch)) as ts.
      induction IH as [|k ks Hk0 _ IHks]; intros ts D; inversion D; subst; cbn [map]; constructor.
      + apply Hk0; [assumption| |].
        * intros j Hj. apply Hb'. cbn [flat_map]. apply in_or_app. left. exact Hj.
        * apply Hk'. left. reflexivity.
      + apply IHks; [| |assumption].
        * intros k0 Hk0' m Hm. apply (Hk' k0); [right; exact Hk0'|exact Hm].
        * intros j Hj. apply Hb'. cbn [flat_map]. apply in_or_app. right. exact Hj.
  Qed.

  Lemma gw_tree_rep_chain bl T : tree_rep d v bl T ->
    (forall j, In j (tree_dir_blocks v bl T) -> disk_get d' j = disk_get d j) ->
    (forall m, In m (all_nodes T) -> keep_ok m) ->
    tree_rep d' v bl (map CU T).
  Proof.
    unfold tree_rep, tree_dir_blocks. intros H Hb Hk.
    rewrite (dir_nodes_ext d d' bl) by (intros j Hj; apply Hb; apply in_or_app; left; exact Hj).
    assert (Hb' : forall j, In j (flat_map (node_dir_blocks v) T) -> disk_get d' j = disk_get d j)
      by (intros j Hj; apply Hb; apply in_or_app; right; exact Hj).
    clear Hb. revert H Hb' Hk. generalize (dir_nodes d bl) as ts. intros ts H.
    induction H as [|n t T0 ts0 Hn _ IH]; intros Hb' Hk; cbn [map]; constructor.
    - apply gw_node_rep_chain; [exact Hn| |].
      + intros j Hj. apply Hb'. cbn [flat_map]. apply in_or_app. left. exact Hj.
      + intros m Hm. apply Hk. unfold all_nodes. cbn [flat_map]. apply in_or_app. left. exact Hm.
    - apply IH.
      + intros j Hj. apply Hb'. cbn [flat_map]. apply in_or_app. right. exact Hj.
      + intros m Hm. apply Hk. unfold all_nodes. cbn [flat_map]. apply in_or_app. right. exact Hm.
  Qed.

  Lemma gw_node_ok_chain : forall n p, node_ok d v p n ->
    (forall j, In j (node_dir_blocks v n) -> disk_get d' j = disk_get d j) ->
    (forall m, In m (flatten n) -> keep_ok m) ->
    node_ok d' v p (CU n).
  Proof.
    induction n as [e ch|e ch kids IH] using node_ind'; intros p H Hb Hk.
    - apply node_ok_file in H. pose proof (Hk _ (or_introl eq_refl)) as K. cbn [keep_ok] in K. cbn [chain_upd].
      destruct (e_cluster e =? first); apply node_ok_file; [|exact H].
      destruct H as (H1 & H2). split; [|exact H2]. destruct K as (_ & K).
      apply (N.le_trans _ _ _ H1). apply N.mul_le_mono_r. lia.
    - apply node_ok_dir in H. destruct H as (A & B). cbn [chain_upd]. apply node_ok_dir.
      cbn [node_dir_blocks] in Hb. split.
      + apply (dir_ok_frame d d' v); [|exact A]. intros j Hj. apply Hb. apply in_or_app. left. exact Hj.
      + rewrite Forall_forall in *. intros k Hk0. apply in_map_iff in Hk0. destruct Hk0 as (k0 & <- & Hk0).
        apply (IH k0 Hk0); [exact (B k0 Hk0)| |].
        * intros j Hj. apply Hb. apply in_or_app. right. apply in_flat_map. exists k0. split; assumption.
        * intros m Hm. apply Hk. exact (flatten_kid e ch kids k0 m Hk0 Hm).
  Qed.
End ChainUpd.

(* ================================================================== 8. Write: the invariant after mgr_write *)
Lemma gw_In_list_set_nth {A} (l : list A) : forall i x y, In y (list_set l i x) ->
  y = x \/ exists j, j <> i /\ nth_error l j = Some y.
Proof.
  induction l as [|a l IH]; intros [|i] x y H; cbn [list_set] in H; try (destruct H; fail).
  - destruct H as [<-|H]; [left; reflexivity|right].
    destruct (In_nth_error _ _ H) as (j & Hj). exists (S j). split; [discriminate|exact Hj].
  - destruct H as [<-|H]; [right; exists 0%nat; split; [discriminate|reflexivity]|].
    destruct (IH i x y H) as [->|(j & Hj & Hn)]; [left; reflexivity|right].
    exists (S j). split; [intros E; injection E as E; contradiction|exact Hn].
Qed.

(* a record becomes pending in place *)
Lemma gw_filter_list_set_in {A} (g : A -> N) (q : A -> bool) : forall l i x y,
  nth_error l i = Some y -> q y = false -> q x = true ->
  Permutation (g x :: map g (filter q l)) (map g (filter q (list_set l i x))).
Proof.
  induction l as [|a l IH]; intros [|i] x y Hi Qy Qx; cbn [nth_error] in Hi; try discriminate.
  - injection Hi as E. subst a. cbn [list_set filter]. rewrite Qy, Qx. apply Permutation_refl.
  - cbn [list_set filter]. specialize (IH i x y Hi Qy Qx). destruct (q a); cbn [map]; [|exact IH].
    apply (Permutation_trans (perm_swap _ _ _)). apply perm_skip. exact IH.
Qed.

Lemma gw_lor_archive_dir a : is_directory (N.lor a A_ARCHIVE) = is_directory a.
Proof.
  unfold is_directory, A_ARCHIVE. f_equal. rewrite N.land_lor_distr_l.
  change (N.land 32 16) with 0. apply N.lor_0_r.
Qed.
Lemma gw_lor_archive_lfn a : is_lfn (N.lor a A_ARCHIVE) = is_lfn a.
Proof.
  unfold is_lfn, A_ARCHIVE. f_equal. rewrite N.land_lor_distr_l.
  change (N.land 32 15) with 0. apply N.lor_0_r.
Qed.

Section GwWrite.
  Variables (fsz vid : N) (s : st) (vi : nat) (v : vol) (bl rch : list N) (T : list node).
  Hypothesis Hinv : fs_inv_at fsz vid s vi v bl rch T.
  Variables (h : N) (fi : nat) (f : fileinfo).
  Hypothesis Hr : PrSeek.resolves s h fi f.

  Let d := s_disk s.
  Let ch := fchain (s_disk s) v f.
  Let hs := heads v T ++ pend_of s v.
  Let HD := fi_disk _ _ _ _ _ _ _ _ Hinv.
  Let W := di_wf _ _ _ _ _ _ HD.
  Let Hfin : In f (s_files s) := nth_error_In _ _ (proj2 (proj2 Hr)).

  Lemma gw_mw_pre : mw_pre fsz h s fi f vi v ch.
  Proof.
    destruct (gw_vol_facts _ _ _ _ _ _ _ _ Hinv) as (Hl & Hpre & Hfit & Hspc & Hwf & Hvid & Hnf & Hc & Hvi & L & Hvok).
    destruct (gw_file_facts _ _ _ _ _ _ _ _ h fi f Hinv Hr) as (O & Hfvol).
    pose proof Hr as (_ & Hfind & Hfi).
    constructor; try assumption.
    - exact (of_chain _ _ _ _ O).
    - exact (of_off _ _ _ _ O).
    - exact (of_size _ _ _ _ O).
    - exact (of_u32 _ _ _ _ O).
  Qed.

  Lemma gw_vi0 : vi = 0%nat.
  Proof.
    destruct (gw_vol_facts _ _ _ _ _ _ _ _ Hinv) as (_ & _ & _ & _ & _ & _ & _ & _ & Hvi & _).
    rewrite (fi_single _ _ _ _ _ _ _ _ Hinv) in Hvi. destruct vi as [|[|n]]; [reflexivity|discriminate|discriminate].
  Qed.

  (* the chain of the file, when it has one *)
  Lemma gw_ch_chain : 2 <= e_cluster (f_entry f) -> chain_at d v (e_cluster (f_entry f)) ch.
  Proof.
    intros H2. pose proof (ofile_in_hs _ _ _ _ _ _ _ _ Hinv f Hfin H2) as Hin.
    pose proof (wf_l_def _ _ _ _ W Hin) as X. unfold ch, fchain.
    replace (e_cluster (f_entry f) <? 2) with false by (symmetry; apply N.ltb_ge; exact H2). exact X.
  Qed.

  Lemma gw_ch_empty : e_cluster (f_entry f) < 2 -> ch = [].
  Proof. intros H2. unfold ch, fchain. apply N.ltb_lt in H2. rewrite H2. reflexivity. Qed.

  (* a directory chain shares no cluster with the chain of the file *)
  Lemma gw_dir_apart h0 dch : chain_at d v h0 dch ->
    In h0 (root_heads v) \/ (exists e c0 kids, In (NDir e c0 kids) (all_nodes T) /\ e_cluster e = h0) ->
    forall y, In y dch -> ~ In y ch.
  Proof.
    intros Hch Hh y Hy. pose proof (dir_chain_apart _ _ _ _ _ _ _ _ Hinv h0 f Hh Hfin y) as X.
    pose proof (chain_l_at _ _ _ _ Hch) as E. unfold d in E. rewrite E in X. exact (X Hy).
  Qed.

  Variables (b : bool) (stored : list N) (s' : st) (f' : fileinfo) (v' : vol) (ch' : list N).
  Hypothesis Hpost : mw_post fsz h s fi f vi v ch b stored s' f' v' ch'.
  Let d' := s_disk s'.
  Let c' := e_cluster (f_entry f').

  Lemma gw_post_chain : 2 <= c' /\ (exists fu, chain_of d' v c' fu = Some ch') /\ Forall (fun x => 2 <= x) ch'.
  Proof.
    pose proof (mp_first _ _ _ _ _ _ _ _ _ _ _ _ _ _ Hpost) as (F1 & _).
    destruct (mp_vol _ _ _ _ _ _ _ _ _ _ _ _ _ _ Hpost) as (nf & fc & Ev').
    destruct (mq_chain _ _ _ _ _ _ _ _ (mp_pre _ _ _ _ _ _ _ _ _ _ _ _ _ _ Hpost)) as [(_ & (fu & A2) & _)|(A1 & _)].
    - rewrite Ev', chain_of_rebook in A2. split; [exact F1|]. split; [exists fu; exact A2|].
      pose proof (chain_of_range _ _ _ _ _ A2) as R. rewrite Forall_forall in *. intros x Hx. exact (proj1 (R x Hx)).
    - exfalso. clear - A1 F1. lia.
  Qed.

  (* chains that avoid the file's chain survive, and avoid the new chain *)
  Lemma gw_chain_kept x fu l : chain_of d v x fu = Some l -> (forall y, In y l -> ~ In y ch) ->
    chain_of d' v x fu = Some l /\ (forall y, In y l -> ~ In y ch').
  Proof. exact (proj2 (mp_frame _ _ _ _ _ _ _ _ _ _ _ _ _ _ Hpost) x fu l). Qed.

  Lemma gw_block_kept j : (forall copy k, k < fsz -> j <> fat_copy_sector v copy k) ->
    ~ In j (data_blocks v ch') -> disk_get d' j = disk_get d j.
  Proof. exact (proj1 (mp_frame _ _ _ _ _ _ _ _ _ _ _ _ _ _ Hpost) j). Qed.

  (* the blocks of a directory chain are untouched *)
  Lemma gw_dir_chain_blocks h0 dch j : chain_at d v h0 dch ->
    In h0 (root_heads v) \/ (exists e c0 kids, In (NDir e c0 kids) (all_nodes T) /\ e_cluster e = h0) ->
    In j (data_blocks v dch) -> disk_get d' j = disk_get d j.
  Proof.
    intros Hch Hh Hj. destruct (gw_vol_facts _ _ _ _ _ _ _ _ Hinv) as (_ & _ & _ & _ & _ & _ & _ & _ & _ & L & _).
    destruct (gw_chain_kept h0 _ dch Hch (gw_dir_apart h0 dch Hch Hh)) as (_ & Hdis).
    unfold data_blocks in Hj. apply in_flat_map in Hj. destruct Hj as (c0 & Hc0 & Hj).
    destruct (chain_at_mem d v h0 dch c0 Hch Hc0) as (C1 & _).
    destruct (In_cluster_blocks _ _ _ Hj) as (q & _ & Eq).
    apply gw_block_kept.
    - intros copy k Hk E. rewrite Eq in E. exact (fat_sector_not_data v fsz copy k c0 q L Hk C1 (eq_sym E)).
    - intros Hin. unfold data_blocks in Hin. apply in_flat_map in Hin. destruct Hin as (y & Hy & Hjy).
      destruct gw_post_chain as (_ & _ & R). rewrite Forall_forall in R.
      destruct (N.eq_dec c0 y) as [->|Hne]; [exact (Hdis y Hc0 Hy)|].
      exact (cluster_blocks_apart v c0 y j j Hne C1 (R y Hy) Hj Hjy eq_refl).
  Qed.

  Lemma gw_dir_blocks_kept j : In j (tree_dir_blocks v bl T) -> disk_get d' j = disk_get d j.
  Proof.
    intros Hj. apply gw_tree_dir_blocks_iff in Hj. destruct Hj as [Hj|(e & dch & kids & Hn & Hj)].
    - pose proof (di_root _ _ _ _ _ _ HD) as Hroot. unfold root_dir in Hroot.
      destruct (v_fat32 v) eqn:E32.
      + destruct Hroot as (Hch & Ebl). rewrite Ebl in Hj.
        apply (gw_dir_chain_blocks (v_root_cluster v) rch j Hch); [|exact Hj].
        left. unfold root_heads. rewrite E32. left. reflexivity.
      + destruct Hroot as (_ & Ebl). rewrite Ebl in Hj. apply gw_block_kept.
        * intros copy k Hk E.
          pose proof (PrBounds.C04_root_block_in_root v E32) as Fr. rewrite Forall_forall in Fr.
          pose proof (PrBounds.fat_copy_sector_in_fat v fsz copy k Hk) as Hf. rewrite <- E in Hf.
          destruct (PrBounds.C04_regions_disjoint v _ fsz j (fi_layout _ _ _ _ _ _ _ _ Hinv)) as (_ & X & _).
          exact (proj1 (X Hf) (Fr j Hj)).
        * intros Hin. unfold data_blocks in Hin. apply in_flat_map in Hin. destruct Hin as (y & Hy & Hjy).
          destruct gw_post_chain as (_ & _ & R). rewrite Forall_forall in R.
          exact (root16_no_cluster _ _ _ _ _ _ _ _ Hinv j y E32 Hj (R y Hy) Hjy).
    - destruct (dir_node_chain _ _ _ _ _ _ HD e dch kids Hn) as (Hch & _).
      apply (gw_dir_chain_blocks (e_cluster e) dch j Hch); [|exact Hj].
      right. exists e, dch, kids. split; [exact Hn|reflexivity].
  Qed.

  Hypothesis HW1 : 2 <= e_cluster (f_entry f) -> fat_wf d' v hs.
  Hypothesis HW2 : e_cluster (f_entry f) < 2 -> ~ In c' hs /\ fat_wf d' v (c' :: hs).

  Lemma gw_first_cases :
    (2 <= e_cluster (f_entry f) /\ c' = e_cluster (f_entry f) /\ exists ext, ch' = ch ++ ext) \/
    (e_cluster (f_entry f) < 2 /\ ch = []).
  Proof.
    destruct (N.lt_ge_cases (e_cluster (f_entry f)) 2) as [Hlt|Hge].
    - right. split; [exact Hlt|exact (gw_ch_empty Hlt)].
    - left. split; [exact Hge|]. split; [exact (proj2 (mp_first _ _ _ _ _ _ _ _ _ _ _ _ _ _ Hpost) Hge)|].
      exact (mp_ext _ _ _ _ _ _ _ _ _ _ _ _ _ _ Hpost).
  Qed.

  (* every node of the old tree is a node of the new disk, the file's own node with the new chain *)
  Lemma gw_keep_ok m : In m (all_nodes T) -> keep_ok c' ch' d' v m.
  Proof.
    intros Hm. destruct gw_post_chain as (C2 & (fu' & Hch') & R).
    destruct m as [e ch0|e dch kids].
    - destruct (all_nodes_rep d v bl T (di_tree _ _ _ _ _ _ HD) _ Hm) as (t & bl' & Hrep & _).
      apply node_rep_file in Hrep. destruct Hrep as (_ & _ & Hec).
      assert (Hown : 2 <= e_cluster e -> In (e_cluster e) hs).
      { intros H2. unfold hs. apply in_or_app. left. unfold heads. apply in_or_app. right.
        apply (own_head_in T (NFile e ch0) _ Hm). cbn [own_head].
        replace (2 <=? e_cluster e) with true by (symmetry; apply N.leb_le; exact H2). left. reflexivity. }
      cbn [keep_ok]. destruct (N.eqb_spec (e_cluster e) c') as [Ee|Ene].
      + split; [left; rewrite Ee; split; [exact C2|exists fu'; exact Hch']|].
        destruct gw_first_cases as [(Hge & Ec' & ext & Eext)|(Hlt & _)].
        * destruct Hec as [(_ & fu0 & H0)|(Hlt0 & _)]; [|exfalso; clear - Hlt0 Ee C2; lia].
          rewrite Ee, Ec' in H0.
          rewrite (chain_at_det _ _ _ _ _ (chain_at_any _ _ _ _ _ H0) (gw_ch_chain Hge)), Eext, app_length. lia.
        * exfalso. apply (proj1 (HW2 Hlt)). rewrite <- Ee. apply Hown. rewrite Ee. exact C2.
      + destruct Hec as [(H2 & fu0 & H0)|Hright]; [|right; exact Hright].
        left. split; [exact H2|]. exists fu0. apply (gw_chain_kept _ _ _ H0).
        intros y Hy Hyc. destruct gw_first_cases as [(Hge & Ec' & _)|(_ & Ech)]; [|rewrite Ech in Hyc; destruct Hyc].
        apply Ene. rewrite Ec'.
        apply (wf_l_disj d v hs (e_cluster e) (e_cluster (f_entry f)) y W (Hown H2) (ofile_in_hs _ _ _ _ _ _ _ _ Hinv f Hfin Hge)).
        * rewrite (chain_l_at _ _ _ _ (chain_at_any _ _ _ _ _ H0)). exact Hy.
        * rewrite (chain_l_at _ _ _ _ (gw_ch_chain Hge)). exact Hyc.
    - cbn [keep_ok]. destruct (dir_node_chain _ _ _ _ _ _ HD e dch kids Hm) as (Hch & _).
      apply (gw_chain_kept _ _ _ Hch). apply (gw_dir_apart _ _ Hch). right. exists e, dch, kids. split; [exact Hm|reflexivity].
  Qed.

  Lemma gw_root_kept : root_dir d' v bl rch.
  Proof.
    pose proof (di_root _ _ _ _ _ _ HD) as Hroot. unfold root_dir in *. destruct (v_fat32 v) eqn:E32; [|exact Hroot].
    destruct Hroot as (Hch & Ebl). split; [|exact Ebl].
    apply (gw_chain_kept _ _ _ Hch). apply (gw_dir_apart _ _ Hch). left. unfold root_heads. rewrite E32. left. reflexivity.
  Qed.

  Lemma gw_v'_fat32 : v_fat32 v' = v_fat32 v.
  Proof. destruct (mp_vol _ _ _ _ _ _ _ _ _ _ _ _ _ _ Hpost) as (nf & fc & ->). reflexivity. Qed.

  (* whether a record is pending depends on its slot - in a directory block - and on itself *)
  Lemma gw_pending_kept g : In (e_block (f_entry g)) (tree_dir_blocks v bl T) -> is_pending d' v' g = is_pending d v g.
  Proof.
    intros Hb. unfold is_pending, disk_entry, slot_tslot. rewrite gw_v'_fat32, (gw_dir_blocks_kept _ Hb). reflexivity.
  Qed.

  Lemma gw_entry_kept : entry_kept (f_entry f) (f_entry f') /\
    (e_attr (f_entry f') = e_attr (f_entry f) \/ e_attr (f_entry f') = N.lor (e_attr (f_entry f)) A_ARCHIVE).
  Proof.
    pose proof (mp_entry _ _ _ _ _ _ _ _ _ _ _ _ _ _ Hpost) as Hentry. cbv zeta in Hentry.
    destruct b; rewrite Hentry; unfold entry_kept, stamp; cbn [e_name e_ctime e_block e_offset e_mtime e_attr
      set_e_size set_e_cluster set_e_mtime set_e_attr].
    - split; [|right; reflexivity]. repeat split. right. eexists. reflexivity.
    - split; [|left; reflexivity]. repeat split. left. reflexivity.
  Qed.

  Lemma gw_f'_block : In (e_block (f_entry f')) (tree_dir_blocks v bl T).
  Proof.
    destruct gw_entry_kept as ((_ & _ & Eb & _) & _). rewrite Eb.
    destruct (gw_file_slot _ _ _ _ _ _ _ _ Hinv f Hfin) as (_ & _ & _ & _ & _ & _ & _ & _ & _ & Hblk & _). exact Hblk.
  Qed.

  (* the pending heads afterwards *)
  Lemma gw_pend_after :
    (2 <= e_cluster (f_entry f) -> pend_of s' v' = pend_of s v) /\
    (e_cluster (f_entry f) < 2 -> Permutation (c' :: pend_of s v) (pend_of s' v')).
  Proof.
    pose proof (proj2 (proj2 Hr)) as Hfi.
    destruct gw_entry_kept as ((_ & _ & Eb & Eo & _) & _).
    assert (Hq : filter (is_pending d' v') (s_files s') = filter (is_pending d v) (s_files s')).
    { apply filter_ext_in. intros g Hg. apply gw_pending_kept.
      rewrite (mp_files _ _ _ _ _ _ _ _ _ _ _ _ _ _ Hpost) in Hg. apply In_list_set in Hg.
      destruct Hg as [->|Hg]; [exact gw_f'_block|].
      destruct (gw_file_slot _ _ _ _ _ _ _ _ Hinv g Hg) as (_ & _ & _ & _ & _ & _ & _ & _ & _ & Hblk & _). exact Hblk. }
    assert (Hde : disk_entry d v (f_entry f') = disk_entry d v (f_entry f)) by exact (disk_entry_key d v _ _ Eb Eo).
    unfold pend_of. fold d d'. rewrite Hq, (mp_files _ _ _ _ _ _ _ _ _ _ _ _ _ _ Hpost). split.
    - intros Hge. destruct (mp_first _ _ _ _ _ _ _ _ _ _ _ _ _ _ Hpost) as (_ & F2). specialize (F2 Hge).
      apply (map_filter_list_set _ _ _ _ f' f Hfi); [exact F2|].
      unfold is_pending. rewrite Hde, F2. reflexivity.
    - intros Hlt. destruct (mp_first _ _ _ _ _ _ _ _ _ _ _ _ _ _ Hpost) as (F1 & _).
      destruct (gw_file_slot _ _ _ _ _ _ _ _ Hinv f Hfin) as (e0 & ch0 & i & Hn0 & _ & _ & Ec & _ & Eo0 & _ & _ & Ee0 & _).
      assert (Hd0 : disk_entry d v (f_entry f) = e0).
      { unfold disk_entry, slot_tslot. rewrite Eo0. replace (i * 32 / 32) with i by (symmetry; apply N.div_mul; discriminate).
        symmetry. exact Ee0. }
      assert (Ec0 : e_cluster e0 < 2) by (destruct Ec as [Ec|(Ec & _)]; [rewrite <- Ec; exact Hlt|exact Ec]).
      apply (gw_filter_list_set_in (fun g => e_cluster (f_entry g)) (is_pending d v) (s_files s) fi f' f Hfi).
      + unfold is_pending. replace (2 <=? e_cluster (f_entry f)) with false by (symmetry; apply N.leb_gt; exact Hlt).
        apply andb_false_r.
      + unfold is_pending. rewrite Hde, Hd0. apply andb_true_iff. split; [apply N.ltb_lt; exact Ec0|apply N.leb_le; exact F1].
  Qed.

  Lemma gw_wf_after : fat_wf d' v (heads v T ++ pend_of s' v').
  Proof.
    destruct gw_pend_after as (P1 & P2). destruct (N.lt_ge_cases (e_cluster (f_entry f)) 2) as [Hlt|Hge].
    - destruct (HW2 Hlt) as (_ & W2). apply (fat_wf_perm d' v (c' :: hs)); [|exact W2]. unfold hs.
      apply (Permutation_trans (Permutation_middle _ _ _)). apply Permutation_app_head. exact (P2 Hlt).
    - rewrite (P1 Hge). exact (HW1 Hge).
  Qed.

  (* the records of the other open files *)
  Lemma gw_other_file j g : j <> fi -> nth_error (s_files s) j = Some g ->
    ofile_ok s' v' (map (chain_upd c' ch') T) g.
  Proof.
    intros Hne Hj. pose proof (nth_error_In _ _ Hj) as Hg. pose proof (proj2 (proj2 Hr)) as Hfi.
    pose proof (ofile_of _ _ _ _ _ _ _ _ Hinv g Hg) as Og.
    destruct (mp_vol _ _ _ _ _ _ _ _ _ _ _ _ _ _ Hpost) as (nf & fc & Ev').
    destruct (gw_file_slot _ _ _ _ _ _ _ _ Hinv g Hg) as (_ & _ & _ & _ & _ & _ & _ & _ & _ & Hblk & _).
    assert (Hfc : fchain d' v' g = fchain d v g /\ chain_ok s' v' g (fchain d v g)).
    { destruct (of_chain _ _ _ _ Og) as [(A1 & (fu & A2) & A3)|(A1 & A2 & A3)].
      - fold d in A2.
        destruct (gw_chain_kept _ _ _ A2) as (A2' & _).
        { intros y Hy Hyc. exact (file_chains_apart _ _ _ _ _ _ _ _ Hinv j fi g f Hne Hj Hfi y Hy Hyc). }
        assert (A2'' : chain_of d' v' (e_cluster (f_entry g)) fu = Some (fchain d v g))
          by (rewrite Ev', chain_of_rebook; exact A2').
        split.
        + unfold fchain at 1. replace (e_cluster (f_entry g) <? 2) with false by (symmetry; apply N.ltb_ge; exact A1).
          exact (chain_l_at _ _ _ _ (chain_at_any _ _ _ _ _ A2'')).
        + left. split; [exact A1|]. split; [exists fu; exact A2''|].
          rewrite Ev'. exact A3.
      - split.
        + unfold fchain. apply N.ltb_lt in A1. rewrite A1. reflexivity.
        + right. split; [exact A1|]. split; [exact A2|exact A3]. }
    destruct Hfc as (Hfc1 & Hfc2).
    constructor.
    - rewrite Ev'. exact (of_vol _ _ _ _ Og).
    - rewrite Ev'. apply slot_ok_rebook. exact (of_slot _ _ _ _ Og).
    - destruct (of_node _ _ _ _ Og) as (eg & chg & Hng & Ebg & Eog & Eng & Ecg).
      destruct (cu_in_file c' ch' T eg chg Hng) as (ch2 & Hn2).
      exists eg, ch2. repeat split; assumption.
    - exact (of_attr _ _ _ _ Og).
    - fold d'. rewrite Hfc1. exact Hfc2.
    - fold d'. rewrite Hfc1. rewrite Ev'. exact (of_size _ _ _ _ Og).
    - exact (of_off _ _ _ _ Og).
    - exact (of_u32 _ _ _ _ Og).
    - fold d'. rewrite (gw_pending_kept g Hblk). exact (of_dirty _ _ _ _ Og).
  Qed.

  (* the record of the written file *)
  Lemma gw_own_file : ofile_ok s' v' (map (chain_upd c' ch') T) f'.
  Proof.
    pose proof Hpost as [[Hl' Hh' Hfi' Hvol' Hpre' Hfit' Hspc' Hwf' Hchain' Hoff' Hsize' H32'] (F1 & F2) (nf & fc & Ev')
      Hvols' _ _ _ _ _ (I1 & I2 & I3 & I4) _ _ _ _ _ _].
    pose proof (ofile_of _ _ _ _ _ _ _ _ Hinv f Hfin) as O.
    destruct gw_entry_kept as (Ek & Eattr). pose proof Ek as (En & _ & Eb & Eo & _).
    assert (Hfc : fchain d' v' f' = ch').
    { destruct Hchain' as [(A1 & (fu & A2) & _)|(A1 & _)]; [|exfalso; fold c' in A1, F1; clear - A1 F1; lia].
      unfold fchain. fold c'. replace (c' <? 2) with false by (symmetry; apply N.ltb_ge; exact F1).
      exact (chain_l_at _ _ _ _ (chain_at_any _ _ _ _ _ A2)). }
    constructor.
    - rewrite I2, Ev'. exact (of_vol _ _ _ _ O).
    - rewrite Ev'. apply slot_ok_rebook. exact (slot_ok_kept v _ _ Ek (of_slot _ _ _ _ O)).
    - destruct (of_node _ _ _ _ O) as (e0 & ch0 & Hn0 & Eb0 & Eo0 & En0 & Ec0).
      destruct (cu_in_file c' ch' T e0 ch0 Hn0) as (ch2 & Hn2).
      exists e0, ch2. split; [exact Hn2|]. split; [congruence|]. split; [congruence|]. split; [congruence|].
      fold c'. destruct (N.lt_ge_cases (e_cluster (f_entry f)) 2) as [Hlt|Hge].
      + right. split; [|exact F1]. destruct Ec0 as [Ec0|(Ec0 & _)]; [rewrite <- Ec0; exact Hlt|exact Ec0].
      + destruct Ec0 as [Ec0|(Ec0 & _)]; [left; unfold c'; rewrite (F2 Hge); exact Ec0|right; split; [exact Ec0|exact F1]].
    - destruct (of_attr _ _ _ _ O) as (A1 & A2).
      destruct Eattr as [->| ->]; [split; assumption|]. rewrite gw_lor_archive_dir, gw_lor_archive_lfn. split; assumption.
    - fold d'. rewrite Hfc. exact Hchain'.
    - fold d'. rewrite Hfc. exact Hsize'.
    - exact Hoff'.
    - exact H32'.
    - intros _. exact I4.
  Qed.

  Theorem gw_write_post : fs_inv_at fsz vid s' vi v' bl rch (map (chain_upd c' ch') T).
  Proof.
    pose proof Hpost as [[Hl' Hh' Hfi' Hvol' Hpre' Hfit' Hspc' Hwf' Hchain' Hoff' Hsize' H32'] (F1 & F2) (nf & fc & Ev')
      Hvols' _ _ _ _ _ (I1 & I2 & I3 & I4) _ _ Hfiles' _ _ (T1 & T2 & T3 & T4 & T5 & T6 & T7)].
    pose proof (proj2 (proj2 Hr)) as Hfi.
    pose proof (ofile_of _ _ _ _ _ _ _ _ Hinv f Hfin) as O.
    assert (G : geo_eq v v') by (exists nf, fc; exact Ev').
    destruct gw_entry_kept as ((_ & _ & Eb & Eo & _) & _).
    constructor.
    - rewrite Ev'. exact (fi_vid _ _ _ _ _ _ _ _ Hinv).
    - rewrite Hvols', (fi_single _ _ _ _ _ _ _ _ Hinv), gw_vi0. reflexivity.
    - split; [exact Hl'|]. split; [exact Hpre'|]. split; [exact Hfit'|]. split; [exact Hspc'|]. split; [exact Hwf'|].
      rewrite I2, (of_vol _ _ _ _ O) in Hvol'. rewrite Ev'. exact Hvol'.
    - rewrite Ev'. exact (PrBounds.part_layout_geom v _ _ fsz (ex_intro _ nf (ex_intro _ fc eq_refl)) (fi_layout _ _ _ _ _ _ _ _ Hinv)).
    - rewrite Ev'. exact (fi_dev _ _ _ _ _ _ _ _ Hinv).
    - rewrite Ev'. exact (fi_info _ _ _ _ _ _ _ _ Hinv).
    - apply (disk_inv_geo d' v v' _ _ _ _ G). constructor.
      + exact gw_root_kept.
      + exact (gw_tree_rep_chain c' ch' d d' v bl T (di_tree _ _ _ _ _ _ HD) gw_dir_blocks_kept gw_keep_ok).
      + apply (dir_ok_frame d d' v); [|exact (di_rootok _ _ _ _ _ _ HD)].
        intros j Hj. apply gw_dir_blocks_kept. unfold tree_dir_blocks. apply in_or_app. left. exact Hj.
      + pose proof (di_nodes _ _ _ _ _ _ HD) as Hn. rewrite Forall_forall in *. intros n Hn'.
        apply in_map_iff in Hn'. destruct Hn' as (n0 & <- & Hn0).
        apply (gw_node_ok_chain c' ch' d d' v n0 _ (Hn n0 Hn0)).
        * intros j Hj. apply gw_dir_blocks_kept. unfold tree_dir_blocks. apply in_or_app. right.
          apply in_flat_map. exists n0. split; assumption.
        * intros m Hm. apply gw_keep_ok. apply in_flat_map. exists n0. split; assumption.
      + rewrite cu_heads. exact gw_wf_after.
      + rewrite cu_positions. exact (di_pos _ _ _ _ _ _ HD).
    - rewrite Hfiles'. apply Forall_forall. intros g Hg. apply gw_In_list_set_nth in Hg.
      destruct Hg as [->|(j & Hne & Hj)]; [exact gw_own_file|exact (gw_other_file j g Hne Hj)].
    - rewrite Hfiles', (map_list_set_same f_id _ _ _ _ Hfi I1). exact (fi_fids _ _ _ _ _ _ _ _ Hinv).
    - rewrite Hfiles', (map_list_set_same slot_key _ _ f' f Hfi); [exact (fi_fslots _ _ _ _ _ _ _ _ Hinv)|].
      unfold slot_key. rewrite Eb, Eo. reflexivity.
    - rewrite T1. pose proof (fi_dirs _ _ _ _ _ _ _ _ Hinv) as Hdirs. rewrite Forall_forall in *.
      intros dd Hdd Evol. rewrite Ev' in Evol.
      destruct (Hdirs dd Hdd Evol) as [Hroot|(ed & chd & kd & Hnd & Ecd)]; [left; exact Hroot|right].
      exists ed, chd, (map (chain_upd c' ch') kd). split; [exact (cu_in_dir c' ch' T ed chd kd Hnd)|exact Ecd].
  Qed.
End GwWrite.

(* ================================================================== 9. Write, IoWrite *)
(* mgr_write on a handle that names a record - EVERY outcome: Ok, ReadOnly refusal, DiskFull
   after a prefix was stored, NotEnoughSpace *)
Theorem gw_mgr_write fsz vid s h data fi f : fs_inv fsz vid s -> PrSeek.resolves s h fi f ->
  forall o s', mgr_write h data s = (o, s') ->
  o <> Panic /\ o <> OutOfFuel /\ fs_inv fsz vid s' /\ same_geo s s' /\
  exists ws, PrOrder.tsteps s s' ws /\ forall v, In v (s_vols s) -> Forall (PrBounds.in_region v fsz) ws.
Proof.
  intros (vi & v & bl & rch & T & Hinv) Hr o s' Hrun.
  pose proof (gw_mw_pre fsz vid s vi v bl rch T Hinv h fi f Hr) as Hmw.
  pose proof (fi_single _ _ _ _ _ _ _ _ Hinv) as Ev.
  pose proof Hr as (_ & _ & Hfi). pose proof (nth_error_In _ _ Hfi) as Hfin.
  pose proof (ofile_of _ _ _ _ _ _ _ _ Hinv f Hfin) as O.
  assert (Htr : exists ws, PrOrder.tsteps s s' ws /\ forall v0, In v0 (s_vols s) -> Forall (PrBounds.in_region v0 fsz) ws).
  { destruct (PrBounds.C04_mgr_write fsz (v_nblocks v) h data s fi f vi v _ o s' (fi_layout _ _ _ _ _ _ _ _ Hinv) Hmw Hrun)
      as (ws & Tr & Fws).
    exists ws. split; [exact Tr|]. intros v0 Hv0. rewrite Ev in Hv0. destruct Hv0 as [<-|[]].
    eapply Forall_impl; [|exact Fws]. intros j [Hj|Hj]; [left; exact Hj|right; left; exact Hj]. }
  assert (Hsame : same_geo s s).
  { exists v, v. split; [exact Ev|]. split; [exact Ev|apply geo_eq_refl]. }
  destruct (mode_eqb (f_mode f) ReadOnly) eqn:Hmode.
  - pose proof Hmw as [Hl Hh _ Hvol _ _ _ _ _ _ _ _].
    rewrite (mgr_write_read_only h data s fi f vi Hl Hh Hfi Hvol Hmode) in Hrun. injection Hrun as <- <-.
    split; [discriminate|]. split; [discriminate|]. split; [exists vi, v, bl, rch, T; exact Hinv|].
    split; [exact Hsame|exact Htr].
  - destruct (mgr_write_spec fsz h data s fi f vi v _ Hmw Hmode) as (o2 & s2 & Hrun2 & Hcases).
    rewrite Hrun in Hrun2. injection Hrun2 as <- <-.
    destruct (gw_mgr_write_wf fsz h data s fi f vi v _ (heads v T ++ pend_of s v) o s' Hmw Hmode
                (di_wf _ _ _ _ _ _ (fi_disk _ _ _ _ _ _ _ _ Hinv)) (ofile_in_hs _ _ _ _ _ _ _ _ Hinv f Hfin) Hrun)
      as (HW1 & HW2).
    assert (Hpostcase : forall b stored f' v' ch',
              mw_post fsz h s fi f vi v (fchain (s_disk s) v f) b stored s' f' v' ch' -> o <> Err NotEnoughSpace ->
              fs_inv fsz vid s' /\ same_geo s s').
    { intros b stored f' v' ch' P Hno.
      assert (HW2' : e_cluster (f_entry f) < 2 ->
                ~ In (e_cluster (f_entry f')) (heads v T ++ pend_of s v) /\
                fat_wf (s_disk s') v (e_cluster (f_entry f') :: heads v T ++ pend_of s v)).
      { intros Hlt. destruct (HW2 Hlt) as [E|(c & f'' & Hni & Wc & Hf'' & Ec)]; [contradiction|].
        rewrite (mp_files _ _ _ _ _ _ _ _ _ _ _ _ _ _ P) in Hf''.
        rewrite (PrRw.nth_error_list_set_same _ _ _ _ Hfi) in Hf''. injection Hf'' as <-. rewrite Ec. split; assumption. }
      split.
      - exists vi, v', bl, rch. eexists.
        exact (gw_write_post fsz vid s vi v bl rch T Hinv h fi f Hr b stored s' f' v' ch' P HW1 HW2').
      - exists v, v'. split; [exact Ev|].
        destruct (mp_vol _ _ _ _ _ _ _ _ _ _ _ _ _ _ P) as (nf & fc & Ev').
        split; [|exists nf, fc; exact Ev'].
        rewrite (mp_vols _ _ _ _ _ _ _ _ _ _ _ _ _ _ P), Ev, (gw_vi0 fsz vid s vi v bl rch T Hinv). reflexivity. }
    destruct Hcases as [(-> & f' & v' & ch' & P)|[(-> & f' & v' & ch' & k & _ & P & _)|(-> & Hc0 & _ & Hd & Hfiles & Hvols & Htab & Hpre')]].
    + destruct (Hpostcase _ _ _ _ _ P ltac:(discriminate)) as (A & B).
      split; [discriminate|]. split; [discriminate|]. split; [exact A|]. split; [exact B|exact Htr].
    + destruct (Hpostcase _ _ _ _ _ P ltac:(discriminate)) as (A & B).
      split; [discriminate|]. split; [discriminate|]. split; [exact A|]. split; [exact B|exact Htr].
    + split; [discriminate|]. split; [discriminate|].
      destruct Htab as (T1 & _ & _ & T4 & _). destruct Hpre' as ((Hnf' & Hc' & _) & _).
      pose proof (gw_vol_facts _ _ _ _ _ _ _ _ Hinv) as (Hl & _).
      split.
      * exists vi, v, bl, rch, T.
        apply (gw_new_record fsz vid s s' vi v bl rch T fi f (set_f_dirty f true) Hinv Hfi Hd Hvols T1); try assumption; try reflexivity.
        -- congruence.
        -- exact (of_chain _ _ _ _ O).
        -- exact (of_off _ _ _ _ O).
      * split; [|exact Htr]. exists v, v. split; [exact Ev|]. split; [rewrite Hvols; exact Ev|apply geo_eq_refl].
Qed.

Theorem step_ok_Write fsz vid h data : step_ok fsz vid (Write h data).
Proof.
  intros s r s' Hinv _ _ Hs. pose proof (fs_inv_lock fsz vid s Hinv) as Hl.
  destruct (file_handle_cases s h Hl) as [(fi & f & Hr)|Hno].
  - cbn [step] in Hs. unfold lift, bind in Hs. destruct (mgr_write h data s) as [o s1] eqn:Hrun.
    destruct (gw_mgr_write fsz vid s h data fi f Hinv Hr o s1 Hrun) as (R1 & R2 & A & B & C).
    destruct o as [u|e| |]; try contradiction; injection Hs as <- <-;
      (split; [discriminate|]); (split; [discriminate|]); (split; [exact A|]); (split; [exact B|exact C]).
  - destruct (PrHandles.C08_stale_file_handle h s Hl Hno) as (_ & E & _).
    rewrite (E data) in Hs. injection Hs as <- <-. apply step_ok_same; [exact Hinv|discriminate|discriminate].
Qed.

Theorem step_ok_IoWrite fsz vid h data : step_ok fsz vid (IoWrite h data).
Proof.
  intros s r s' Hinv _ _ Hs. pose proof (fs_inv_lock fsz vid s Hinv) as Hl.
  cbn [step] in Hs. unfold io_write in Hs. destruct data as [|x t] eqn:Edata.
  { unfold lift, bind, ret in Hs. injection Hs as <- <-. apply step_ok_same; [exact Hinv|discriminate|discriminate]. }
  rewrite <- Edata in Hs. assert (Hne : data <> []) by (rewrite Edata; discriminate). clear x t Edata.
  destruct (file_handle_cases s h Hl) as [(fi & f & Hr)|Hno].
  - unfold lift, bind in Hs. destruct (mgr_write h data s) as [o s1] eqn:Hrun.
    destruct (gw_mgr_write fsz vid s h data fi f Hinv Hr o s1 Hrun) as (R1 & R2 & A & B & C).
    destruct o as [u|e| |]; try contradiction; injection Hs as <- <-;
      (split; [discriminate|]); (split; [discriminate|]); (split; [exact A|]); (split; [exact B|exact C]).
  - destruct (PrHandles.C08_stale_file_handle_io h s Hl Hno) as (_ & E & _).
    pose proof (E data Hne) as E'. cbn [step] in E'. unfold io_write in E'.
    destruct data as [|x t]; [contradiction|]. rewrite E' in Hs. injection Hs as <- <-.
    apply step_ok_same; [exact Hinv|discriminate|discriminate].
Qed.

(* ================================================================== 10. the hypotheses are satisfiable *)
(* PrGlobalDef's example state: file B is open for writing (handle 7), written but not flushed -
   its chain (cluster 6) is PENDING.  The theorems apply: a further write, a flush (the pending
   head becomes the chain of B's node: no pending head is left), a read, a close. *)
Example gw_example :
  exists s1 s2 s3 s4,
    step (Write 7 [1; 2; 3]) gx_state = (Ok RUnit, s1) /\ step (Flush 7) s1 = (Ok RUnit, s2) /\
    step (Read 7 2) s2 = (Ok (RBytes [0; 0]), s3) /\ step (CloseFile 7) s3 = (Ok RUnit, s4) /\
    fs_inv 1 0 s1 /\ fs_inv 1 0 s2 /\ fs_inv 1 0 s3 /\ fs_inv 1 0 s4 /\
    pend_of s1 exd_vol = [6] /\ pend_of s2 exd_vol = [] /\ s_files s4 = [].
Proof.
  set (s1 := snd (step (Write 7 [1; 2; 3]) gx_state)).
  set (s2 := snd (step (Flush 7) s1)).
  set (s3 := snd (step (Read 7 2) s2)).
  set (s4 := snd (step (CloseFile 7) s3)).
  assert (E1 : step (Write 7 [1; 2; 3]) gx_state = (Ok RUnit, s1)) by (vm_compute; reflexivity).
  assert (E2 : step (Flush 7) s1 = (Ok RUnit, s2)) by (vm_compute; reflexivity).
  assert (E3 : step (Read 7 2) s2 = (Ok (RBytes [0; 0]), s3)) by (vm_compute; reflexivity).
  assert (E4 : step (CloseFile 7) s3 = (Ok RUnit, s4)) by (vm_compute; reflexivity).
  assert (Hfresh : forall s, s_next_id s = 10 -> PrHandles.all_ids s = [0; 5; 9; 7] -> id_fresh s).
  { intros s En Ea x Hx Ex. rewrite En in Ex. subst x. rewrite Ea in Hx. cbn [In] in Hx. intuition discriminate. }
  assert (K : op_known_ok (Write 7 [1; 2; 3]) /\ op_known_ok (Flush 7) /\ op_known_ok (Read 7 2) /\ op_known_ok (CloseFile 7))
    by (repeat split).
  destruct K as (K1 & K2 & K3 & K4).
  destruct (step_ok_Write 1 0 7 [1; 2; 3] gx_state _ s1 (proj1 fs_inv_example)
              (Hfresh gx_state eq_refl eq_refl) K1 E1) as (_ & _ & I1 & _).
  destruct (step_ok_Flush 1 0 7 s1 _ s2 I1 (Hfresh s1 ltac:(vm_compute; reflexivity) ltac:(vm_compute; reflexivity)) K2 E2)
    as (_ & _ & I2 & _).
  destruct (step_ok_Read 1 0 7 2 s2 _ s3 I2 (Hfresh s2 ltac:(vm_compute; reflexivity) ltac:(vm_compute; reflexivity)) K3 E3)
    as (_ & _ & I3 & _).
  destruct (step_ok_CloseFile 1 0 7 s3 _ s4 I3 (Hfresh s3 ltac:(vm_compute; reflexivity) ltac:(vm_compute; reflexivity)) K4 E4)
    as (_ & _ & I4 & _).
  exists s1, s2, s3, s4. repeat (split; [assumption|]).
  split; [vm_compute; reflexivity|]. split; vm_compute; reflexivity.
Qed.

Print Assumptions step_ok_Read.
Print Assumptions step_ok_IoRead.
Print Assumptions step_ok_Flush.
Print Assumptions step_ok_CloseFile.
Print Assumptions step_ok_Write.
Print Assumptions step_ok_IoWrite.
Print Assumptions gw_example.
