(* PROOFS: the EFFECT of truncate_cluster_chain and free_cluster_chain (FsFat.v /
   src/fat/volume.rs) on the FAT, the volume record and the device trace, for ALL inputs
   (C03, C05, C10, C16).  The chain is PrDir's chain_of (a reader's walk of the FAT).
   Sections: 1 volume records that differ only in free count / hint; 2 state plumbing;
   3 chains; 4 the writes of a sequence of FAT updates; 5 truncate_loop; 6 the theorems;
   7 example; 8 assumptions. *)
From Coq Require Import NArith ZArith List Bool Lia Arith ZifyClasses ZifyInst Zify FMapPositive.
From SdFs Require Import FsTypes FsBase FsFat FsMgr FsLemmas PrBase PrFat PrAlloc PrDir PrAllocEffect.
Import ListNotations.
Open Scope N_scope.
Local Arguments N.mul : simpl never.
Local Arguments N.add : simpl never.
Local Arguments N.sub : simpl never.
Local Arguments N.div : simpl never.
Local Arguments N.modulo : simpl never.
Local Arguments N.land : simpl never.
Local Arguments N.lor : simpl never.
Local Ltac Zify.zify_post_hook ::= Z.to_euclidean_division_equations.

(* ================================================================== 1. same geometry *)
(* w is v except for the free count and the next-free hint *)
Definition geo_eq (v w : vol) : Prop := exists a b, w = set_v_free (set_v_next_free v a) b.

Lemma geo_eq_refl v : geo_eq v v.
Proof. exists (v_next_free v), (v_free v). destruct v; reflexivity. Qed.
Lemma geo_eq_free v w x : geo_eq v w -> geo_eq v (set_v_free w x).
Proof. intros (a & b & ->). exists a, x. reflexivity. Qed.
Lemma geo_eq_next v w x : geo_eq v w -> geo_eq v (set_v_next_free w x).
Proof. intros (a & b & ->). exists x, b. reflexivity. Qed.
Lemma geo_layout v w fsz : geo_eq v w -> fat_layout v fsz -> fat_layout w fsz.
Proof. intros (a & b & ->). apply fat_layout_free. Qed.
Lemma geo_clusters v w : geo_eq v w -> v_clusters w = v_clusters v.
Proof. intros (a & b & ->). reflexivity. Qed.

(* the free count after k more entries became free, as bump_free computes it one by one:
   unknown stays unknown, an overflow of the u32 makes it unknown *)
Definition add_free (o : option N) (k : N) : option N :=
  match o with Some n => if n + k <? U32 then Some (n + k) else None | None => None end.

Lemma add_free_add o j k : add_free (add_free o j) k = add_free o (j + k).
Proof.
  destruct o as [n|]; [|reflexivity]. cbn [add_free].
  destruct (N.ltb_spec (n + j) U32) as [H1|H1]; cbn [add_free].
  - replace (n + j + k) with (n + (j + k)) by lia. reflexivity.
  - destruct (N.ltb_spec (n + (j + k)) U32) as [H2|H2]; [lia|reflexivity].
Qed.

Lemma add_free_0 o : (forall n, o = Some n -> n < U32) -> add_free o 0 = o.
Proof.
  destruct o as [n|]; [|reflexivity]. intros H. specialize (H n eq_refl). cbn [add_free].
  rewrite N.add_0_r. apply N.ltb_lt in H. rewrite H. reflexivity.
Qed.

(* the hint after entry x became free: the smaller of the old hint and x *)
Definition min_hint (o : option N) (x : N) : option N :=
  match o with
  | Some nf => if x <? nf then Some x else Some nf
  | None => Some x
  end.

Lemma min_hint_spec o x : exists h, min_hint o x = Some h /\ h <= x /\
  (forall nf, o = Some nf -> h = N.min nf x) /\ (o = None -> h = x).
Proof.
  destruct o as [nf|]; cbn [min_hint].
  - destruct (N.ltb_spec x nf).
    + exists x. split; [reflexivity|]. split; [lia|].
      split; [intros n E; inversion E; subst; lia|intros E; discriminate E].
    + exists nf. split; [reflexivity|]. split; [lia|].
      split; [intros n E; inversion E; subst; lia|intros E; discriminate E].
  - exists x. split; [reflexivity|]. split; [lia|].
    split; [intros n E; discriminate E|reflexivity].
Qed.

(* ================================================================== 2. state plumbing *)
(* everything but the device side and the volume table is equal *)
Definition same_tabs (s s' : st) : Prop :=
  s_dirs s' = s_dirs s /\ s_files s' = s_files s /\ s_next_id s' = s_next_id s /\
  s_clock s' = s_clock s /\ s_lock s' = s_lock s /\ s_maxv s' = s_maxv s /\
  s_maxd s' = s_maxd s /\ s_maxf s' = s_maxf s /\ s_faults s' = s_faults s.

Lemma same_tabs_refl s : same_tabs s s.
Proof. unfold same_tabs. repeat split; reflexivity. Qed.
Lemma same_mgr_tabs s s' : same_mgr s s' -> same_tabs s s'.
Proof. intros (_ & H). exact H. Qed.
Lemma same_tabs_trans a b c : same_tabs a b -> same_tabs b c -> same_tabs a c.
Proof.
  intros (A1 & A2 & A3 & A4 & A5 & A6 & A7 & A8 & A9) (B1 & B2 & B3 & B4 & B5 & B6 & B7 & B8 & B9).
  unfold same_tabs. repeat split; congruence.
Qed.
Lemma same_tabs_put s X : same_tabs s (set_s_vols s X).
Proof. unfold same_tabs. cbn. repeat split; reflexivity. Qed.

Lemma ls_same {A} (l : list A) : forall i x, nth_error l i = Some x -> list_set l i x = l.
Proof.
  induction l as [|h t IH]; intros [|i] x H; cbn in *; try discriminate; try reflexivity.
  - inversion H; reflexivity.
  - rewrite (IH _ _ H). reflexivity.
Qed.

Lemma set_s_vols_id s : set_s_vols s (s_vols s) = s.
Proof. destruct s; reflexivity. Qed.

(* replacing the volume record by one with the same geometry keeps the state hypotheses *)
Lemma st_ok_put vi w w' fsz s :
  st_ok vi w fsz s -> geo_eq w w' -> st_ok vi w' fsz (set_s_vols s (list_set (s_vols s) vi w')).
Proof.
  intros (Hnf & Hc & Hv & Hlen) (a & b & ->).
  split; [exact Hnf|]. split; [exact Hc|].
  split; [cbn [s_vols set_s_vols]; exact (ls_nth_same _ _ _ _ Hv)|]. exact Hlen.
Qed.

Lemma tr_ext_put s X : tr_ext s (set_s_vols s X) [].
Proof. exists []. repeat split. Qed.

Lemma put_vol_run vi w s : put_vol vi w s = (Ok tt, set_s_vols s (list_set (s_vols s) vi w)).
Proof. reflexivity. Qed.

Lemma bump_free_spec vi w s : nth_error (s_vols s) vi = Some w ->
  bump_free vi s = (Ok tt, set_s_vols s (list_set (s_vols s) vi (set_v_free w (add_free (v_free w) 1)))).
Proof.
  intros Hv. unfold bump_free. rewrite (bind_ok _ _ _ _ _ (get_vol_ok vi w s Hv)).
  destruct (v_free w) as [n|] eqn:E; [reflexivity|].
  cbn [add_free]. unfold ret. f_equal.
  assert (Ew : set_v_free w None = w) by (destruct w; cbn in E; subst; reflexivity).
  rewrite Ew, (ls_same _ _ _ Hv), set_s_vols_id. reflexivity.
Qed.

(* update_fat when the volume record in the state is w, read with the geometry of v *)
Lemma update_fat_step_geo vi v w fsz c x s :
  geo_eq v w -> fat_layout v fsz -> st_ok vi w fsz s -> c < v_clusters v + 2 ->
  let nb := fat_put_block v (disk_get (s_disk s) (fat_sector v 0 c)) c x in
  exists s', update_fat vi c x s = (Ok tt, s') /\
    st_ok vi w fsz s' /\ same_mgr s s' /\
    (forall c', (c' * fat_width v) / 512 < fsz ->
       fat_get (s_disk s') v 0 c' = if c' =? c then enc v x else fat_get (s_disk s) v 0 c') /\
    (forall j, j <> fat_sector v 0 c -> j <> fat_sector v 1 c ->
       disk_get (s_disk s') j = disk_get (s_disk s) j) /\
    (fat_mirrored (s_disk s) v fsz -> fat_mirrored (s_disk s') v fsz) /\
    tr_ext s s' (map (fun i => (i, nb)) (fat_writes v c)).
Proof.
  intros G L Hst Hc nb. pose proof (geo_layout _ _ _ G L) as L'. destruct G as (a & b & ->).
  destruct (update_fat_step vi _ fsz c x s L' Hst Hc) as (s' & Hrun & Hst' & Hm & Hget & Hfr & _ & Hmir & T).
  exists s'. split; [exact Hrun|]. split; [exact Hst'|]. split; [exact Hm|].
  split; [exact Hget|]. split; [exact Hfr|]. split; [exact Hmir|exact T].
Qed.

(* next_cluster: reads entry x and classifies it; read-only *)
Lemma next_step vi v w fsz x s :
  geo_eq v w -> fat_layout v fsz -> st_ok vi w fsz s -> x < v_clusters v + 2 ->
  exists s1, next_cluster w x s = (classify v (fat_get (s_disk s) v 0 x), s1) /\
    s_disk s1 = s_disk s /\ st_ok vi w fsz s1 /\ same_mgr s s1 /\ tr_ext s s1 [].
Proof.
  intros G L (Hnf & Hc & Hv & Hlen) Hx.
  pose proof (geo_layout _ _ _ G L) as L'. pose proof (geo_clusters _ _ G) as Ecl.
  assert (Hx' : x < v_clusters w + 2) by (rewrite Ecl; exact Hx).
  destruct (layout_addr w fsz x L' Hx') as (_ & H0 & _).
  assert (Hle : x <= 1073741823).
  { destruct (fl_vol v fsz L) as [H1 _ _ _]. unfold U32 in H1. lia. }
  destruct (next_cluster_spec w x s Hnf Hc Hle H0) as (s1 & Hrun & Hd & Hc1 & Hnf1 & Hm & _ & Htr).
  destruct G as (a & b & ->).
  exists s1. split; [exact Hrun|]. split; [exact Hd|]. split.
  { split; [exact Hnf1|]. split; [exact Hc1|]. split; [exact (same_mgr_vol _ _ _ _ Hm Hv)|].
    rewrite Hd. exact Hlen. }
  split; [exact Hm|]. exact (tr_ext_read _ _ _ Hd Htr).
Qed.

(* ================================================================== 3. chains *)
Lemma classify_end v e :
  (e =? fat_bad v) = false -> (fat_eoc_min v <=? e) = true -> classify v e = Err EndOfFile.
Proof.
  unfold fat_bad, fat_eoc_min, classify, classify32, classify16. destruct (v_fat32 v); intros H1 H2; rewrite H1, H2.
  - apply N.leb_le in H2. replace (e =? 0) with false by (symmetry; apply N.eqb_neq; lia).
    rewrite orb_true_r. reflexivity.
  - reflexivity.
Qed.

Lemma classify_link v e :
  (e =? fat_bad v) = false -> (fat_eoc_min v <=? e) = false -> 2 <= e -> classify v e = Ok e.
Proof.
  unfold fat_bad, fat_eoc_min, classify, classify32, classify16. destruct (v_fat32 v); intros H1 H2 H3; rewrite H1, H2.
  - replace (e =? 0) with false by (symmetry; apply N.eqb_neq; lia).
    replace (e =? 1) with false by (symmetry; apply N.eqb_neq; lia). reflexivity.
  - reflexivity.
Qed.

(* one step of a defined chain: the head is a data cluster; its entry is an end-of-chain
   value when the chain stops there, otherwise the number of the next cluster *)
Lemma chain_step d v c f rest : chain_of d v c f = Some (c :: rest) ->
  2 <= c /\ c < v_clusters v + 2 /\
  match rest with
  | [] => classify v (fat_get d v 0 c) = Err EndOfFile
  | n :: tl => classify v (fat_get d v 0 c) = Ok n /\ fat_get d v 0 c = n /\
               2 <= n /\ n < v_clusters v + 2 /\
               exists f', chain_of d v n f' = Some (n :: tl)
  end.
Proof.
  intros H. destruct (chain_of_head _ _ _ _ _ H) as (R1 & R2 & _).
  split; [exact R1|]. split; [exact R2|].
  destruct f as [|f]; [discriminate|]. cbn [chain_of] in H.
  destruct ((2 <=? c) && (c <? v_clusters v + 2)); [|discriminate]. cbv zeta in H.
  rewrite fat_entry_get in H.
  destruct (fat_get d v 0 c =? fat_bad v) eqn:Hb; [discriminate|].
  destruct (fat_eoc_min v <=? fat_get d v 0 c) eqn:He.
  - inversion H; subst rest. apply classify_end; assumption.
  - destruct (chain_of d v (fat_get d v 0 c) f) as [l0|] eqn:E; [|discriminate].
    inversion H; subst rest. destruct (chain_of_head _ _ _ _ _ E) as (N1 & N2 & l' & ->).
    split; [apply classify_link; assumption|]. split; [reflexivity|]. split; [exact N1|].
    split; [exact N2|]. exists f. exact E.
Qed.

(* a chain only depends on the entries of its own clusters *)
Lemma chain_of_frame d d' v : forall f c l, chain_of d v c f = Some l ->
  (forall x, In x l -> fat_get d' v 0 x = fat_get d v 0 x) -> chain_of d' v c f = Some l.
Proof.
  induction f as [|f IH]; intros c l H Hsame; [discriminate|].
  destruct (chain_of_head _ _ _ _ _ H) as (_ & _ & l' & El). subst l.
  cbn [chain_of] in *.
  destruct ((2 <=? c) && (c <? v_clusters v + 2)); [|discriminate]. cbv zeta in *.
  rewrite fat_entry_get in *. rewrite (Hsame c) by (left; reflexivity).
  destruct (fat_get d v 0 c =? fat_bad v); [discriminate|].
  destruct (fat_eoc_min v <=? fat_get d v 0 c); [exact H|].
  destruct (chain_of d v (fat_get d v 0 c) f) as [l0|] eqn:E; [|discriminate].
  injection H as El. subst l'. rewrite (IH _ _ E); [reflexivity|].
  intros x Hx. apply Hsame. right. exact Hx.
Qed.

Lemma chain_length d v c f l : chain_of d v c f = Some l -> (length l <= N.to_nat (v_clusters v))%nat.
Proof.
  intros H. exact (range_nodup_length (v_clusters v) l (chain_of_nodup d v f c l H) (chain_of_range d v f c l H)).
Qed.

Lemma enc_empty v : enc v CL_EMPTY = 0.
Proof. unfold enc. destruct (v_fat32 v); reflexivity. Qed.

(* ================================================================== 4. sequences of FAT updates *)
(* the device writes of a sequence of update_fat calls (entry, value), oldest first, on a
   device whose contents are d before the first of them *)
Fixpoint fat_updates (v : vol) (d : disk) (l : list (N * N)) : list (N * block) :=
  match l with
  | [] => []
  | (y, x) :: tl =>
      let w := map (fun i => (i, fat_put_block v (disk_get d (fat_sector v 0 y)) y x)) (fat_writes v y) in
      w ++ fat_updates v (apply_ws w d) tl
  end.

Lemma fat_updates_app v : forall l1 l2 d,
  fat_updates v d (l1 ++ l2) = fat_updates v d l1 ++ fat_updates v (apply_ws (fat_updates v d l1) d) l2.
Proof.
  induction l1 as [|[y x] l1 IH]; intros l2 d; [reflexivity|].
  cbn [app fat_updates]. cbv zeta. rewrite IH, <- app_assoc, apply_ws_app. reflexivity.
Qed.

(* the block indices written: for each update the sector of the entry in the first copy and,
   when there is one, in the second copy *)
Lemma fat_updates_indices v : forall l d,
  map fst (fat_updates v d l) = flat_map (fun p => fat_writes v (fst p)) l.
Proof.
  induction l as [|[y x] l IH]; intros d; [reflexivity|].
  cbn [fat_updates flat_map fst]. cbv zeta. rewrite map_app, IH, map_map. cbn [fst]. rewrite map_id. reflexivity.
Qed.

Definition freeing (l : list N) : list (N * N) := map (fun y => (y, CL_EMPTY)) l.

(* ================================================================== 5. truncate_loop *)
Lemma truncate_loop_spec vi v fsz : fat_layout v fsz -> forall tl fuel x w s f0,
  geo_eq v w -> st_ok vi w fsz s ->
  chain_of (s_disk s) v x f0 = Some (x :: tl) -> (length tl < fuel)%nat ->
  let w' := set_v_free w (add_free (v_free w) (N.of_nat (S (length tl)))) in
  exists s', truncate_loop fuel vi x s = (Ok tt, s') /\
    st_ok vi w' fsz s' /\ s_vols s' = list_set (s_vols s) vi w' /\ same_tabs s s' /\
    (forall y, In y (x :: tl) -> fat_get (s_disk s') v 0 y = 0) /\
    (forall c', (c' * fat_width v) / 512 < fsz -> ~ In c' (x :: tl) ->
       fat_get (s_disk s') v 0 c' = fat_get (s_disk s) v 0 c') /\
    (forall j, (forall copy k, k < fsz -> j <> fat_copy_sector v copy k) ->
       disk_get (s_disk s') j = disk_get (s_disk s) j) /\
    (fat_mirrored (s_disk s) v fsz -> fat_mirrored (s_disk s') v fsz) /\
    tr_ext s s' (fat_updates v (s_disk s) (freeing (x :: tl))).
Proof.
  intros L. induction tl as [|y tl IH]; intros fuel x w s f0 G Hst Hch Hfuel w'.
  - (* the last cluster of the chain *)
    destruct fuel as [|f]; [cbn in Hfuel; lia|]. cbn [truncate_loop].
    pose proof Hst as (_ & _ & Hv & _).
    rewrite (bind_ok _ _ _ _ _ (get_vol_ok vi w s Hv)).
    destruct (chain_step _ _ _ _ _ Hch) as (X1 & X2 & Hcl).
    destruct (next_step vi v w fsz x s G L Hst X2) as (s1 & Hn & Hd1 & Hst1 & Hm1 & T1).
    rewrite Hcl in Hn. rewrite (bind_ok _ _ _ _ _ (try_err _ _ _ _ Hn)). cbv beta iota.
    destruct (update_fat_step_geo vi v w fsz x CL_EMPTY s1 G L Hst1 X2)
      as (s2 & Hu & Hst2 & Hm2 & Hget2 & Hfr2 & Hmir2 & T2).
    rewrite (bind_ok _ _ _ _ _ Hu).
    pose proof Hst2 as (_ & _ & Hv2 & _).
    rewrite (bump_free_spec vi w s2 Hv2).
    pose proof (layout_sector v fsz x L X2) as Hqx.
    eexists. split; [reflexivity|].
    split; [apply (st_ok_put vi w _ fsz s2 Hst2); apply geo_eq_free, geo_eq_refl|].
    split; [cbn [s_vols set_s_vols]; destruct Hm1 as (E1 & _); destruct Hm2 as (E2 & _); rewrite E2, E1; reflexivity|].
    split; [exact (same_tabs_trans _ _ _ (same_mgr_tabs _ _ (same_mgr_trans _ _ _ Hm1 Hm2)) (same_tabs_put _ _))|].
    cbn [s_disk set_s_vols].
    split; [intros y0 [<-|[]]; rewrite (Hget2 x Hqx), N.eqb_refl; apply enc_empty|].
    split.
    { intros c' Hq Hni. rewrite (Hget2 c' Hq), Hd1.
      destruct (N.eqb_spec c' x) as [->|_]; [exfalso; apply Hni; left; reflexivity|reflexivity]. }
    split.
    { intros j Hj. rewrite Hfr2, Hd1; [reflexivity|exact (Hj 0 _ Hqx)|exact (Hj 1 _ Hqx)]. }
    split; [rewrite <- Hd1; exact Hmir2|].
    cbn [freeing map fat_updates]. cbv zeta. rewrite app_nil_r. rewrite <- Hd1.
    exact (tr_ext_trans_nil _ _ _ _ (tr_ext_nil_trans _ _ _ _ T1 T2) (tr_ext_put _ _)).
  - (* cluster x, then the chain y :: tl *)
    destruct fuel as [|f]; [cbn in Hfuel; lia|]. cbn [truncate_loop].
    pose proof Hst as (_ & _ & Hv & _).
    rewrite (bind_ok _ _ _ _ _ (get_vol_ok vi w s Hv)).
    destruct (chain_step _ _ _ _ _ Hch) as (X1 & X2 & Hcl & _ & Y1 & Y2 & f' & Hch').
    pose proof (chain_of_nodup _ _ _ _ _ Hch) as Hnd. inversion Hnd as [|? ? Hxni _]; subst.
    destruct (next_step vi v w fsz x s G L Hst X2) as (s1 & Hn & Hd1 & Hst1 & Hm1 & T1).
    rewrite Hcl in Hn. rewrite (bind_ok _ _ _ _ _ (try_ok _ _ _ _ Hn)). cbv beta iota.
    destruct (update_fat_step_geo vi v w fsz x CL_EMPTY s1 G L Hst1 X2)
      as (s2 & Hu & Hst2 & Hm2 & Hget2 & Hfr2 & Hmir2 & T2).
    rewrite (bind_ok _ _ _ _ _ Hu).
    pose proof Hst2 as (_ & _ & Hv2 & _).
    rewrite (bind_ok _ _ _ _ _ (bump_free_spec vi w s2 Hv2)).
    set (w1 := set_v_free w (add_free (v_free w) 1)).
    set (s3 := set_s_vols s2 (list_set (s_vols s2) vi w1)).
    pose proof (layout_sector v fsz x L X2) as Hqx.
    assert (Hst3 : st_ok vi w1 fsz s3) by (apply (st_ok_put vi w _ fsz s2 Hst2); apply geo_eq_free, geo_eq_refl).
    assert (G1 : geo_eq v w1) by (apply geo_eq_free; exact G).
    assert (Hch3 : chain_of (s_disk s3) v y f' = Some (y :: tl)).
    { apply (chain_of_frame (s_disk s)); [exact Hch'|].
      intros z Hz. change (s_disk s3) with (s_disk s2).
      pose proof (chain_of_range _ _ _ _ _ Hch') as Hr. rewrite Forall_forall in Hr.
      rewrite (Hget2 z (layout_sector v fsz z L (proj2 (Hr z Hz)))), Hd1.
      destruct (N.eqb_spec z x) as [->|_]; [contradiction|reflexivity]. }
    destruct (IH f y w1 s3 f' G1 Hst3 Hch3 ltac:(cbn [length] in Hfuel; lia))
      as (s' & Hrun & Hst' & Hvols' & Htabs' & Hzero' & Hoth' & Hfr' & Hmir' & T').
    assert (Ew : set_v_free w1 (add_free (v_free w1) (N.of_nat (S (length tl)))) = w').
    { unfold w', w1. cbn [v_free set_v_free]. rewrite add_free_add.
      replace (1 + N.of_nat (S (length tl))) with (N.of_nat (S (length (y :: tl)))) by (cbn [length]; lia).
      reflexivity. }
    rewrite Ew in Hst', Hvols'.
    exists s'. split; [exact Hrun|]. split; [exact Hst'|].
    split.
    { rewrite Hvols'. unfold s3. cbn [s_vols set_s_vols]. rewrite ls_twice.
      destruct Hm1 as (E1 & _); destruct Hm2 as (E2 & _). rewrite E2, E1. reflexivity. }
    split.
    { exact (same_tabs_trans _ _ _
               (same_tabs_trans _ _ _ (same_mgr_tabs _ _ (same_mgr_trans _ _ _ Hm1 Hm2)) (same_tabs_put _ _)) Htabs'). }
    change (s_disk s3) with (s_disk s2) in *.
    split.
    { intros z [<-|Hz]; [|apply Hzero'; exact Hz].
      rewrite (Hoth' x Hqx Hxni), (Hget2 x Hqx), N.eqb_refl. apply enc_empty. }
    split.
    { intros c' Hq Hni. rewrite (Hoth' c' Hq) by (intros Hin; apply Hni; right; exact Hin).
      rewrite (Hget2 c' Hq), Hd1.
      destruct (N.eqb_spec c' x) as [->|_]; [exfalso; apply Hni; left; reflexivity|reflexivity]. }
    split.
    { intros j Hj. rewrite (Hfr' j Hj), Hfr2, Hd1; [reflexivity|exact (Hj 0 _ Hqx)|exact (Hj 1 _ Hqx)]. }
    split; [intros Hmir; apply Hmir', Hmir2; rewrite Hd1; exact Hmir|].
    change (freeing (x :: y :: tl)) with ((x, CL_EMPTY) :: freeing (y :: tl)).
    cbn [fat_updates]. cbv zeta.
    pose proof (tr_ext_trans_nil _ _ _ _ (tr_ext_nil_trans _ _ _ _ T1 T2) (tr_ext_put s2 (list_set (s_vols s2) vi w1))) as T12.
    fold s3 in T12. rewrite Hd1 in T12.
    pose proof (tr_ext_disk _ _ _ T12) as Ed. change (s_disk s3) with (s_disk s2) in Ed.
    rewrite <- Ed. exact (tr_ext_trans _ _ _ _ _ T12 T').
Qed.

(* ================================================================== 6. the theorems *)
(* ---- truncate_cluster_chain ---- *)
(* the volume record afterwards: nothing changes for a one-cluster chain; otherwise the hint
   becomes the smaller of the old hint and the first freed cluster (or that cluster when it
   was unknown) and the free count grows by the number of freed clusters (unknown stays
   unknown; unknown on u32 overflow) *)
Definition trunc_vol (v : vol) (rest : list N) : vol :=
  match rest with
  | [] => v
  | n :: _ => set_v_free (set_v_next_free v (min_hint (v_next_free v) n))
                         (add_free (v_free v) (N.of_nat (length rest)))
  end.
(* the FAT updates, in order: c := end-of-chain first, then every cluster of rest := free,
   in chain order *)
Definition trunc_updates (c : N) (rest : list N) : list (N * N) :=
  match rest with [] => [] | _ => (c, CL_EOF) :: freeing rest end.

Record trunc_eff (vi : nat) (v : vol) (fsz : N) (s : st) (c : N) (rest : list N) (s' : st) : Prop :=
  mk_trunc_eff {
  te_inv : st_ok vi (trunc_vol v rest) fsz s';
  te_vols : s_vols s' = list_set (s_vols s) vi (trunc_vol v rest);
  te_tabs : same_tabs s s';
  (* the kept cluster ends the chain *)
  te_head : rest <> [] -> fat_get (s_disk s') v 0 c = enc v CL_EOF;
  (* every cluster after it is free *)
  te_freed : forall y, In y rest -> fat_get (s_disk s') v 0 y = 0;
  (* every other entry is as before (c itself too when there was nothing to cut) *)
  te_other : forall c', (c' * fat_width v) / 512 < fsz -> ~ In c' rest -> (c' = c -> rest = []) ->
             fat_get (s_disk s') v 0 c' = fat_get (s_disk s) v 0 c';
  (* no block outside the FAT copies changes *)
  te_frame : forall j, (forall copy k, k < fsz -> j <> fat_copy_sector v copy k) ->
             disk_get (s_disk s') j = disk_get (s_disk s) j;
  te_mirror : fat_mirrored (s_disk s) v fsz -> fat_mirrored (s_disk s') v fsz;
  (* the device writes, in order and with contents; the new disk is the old one with exactly
     these writes applied *)
  te_trace : tr_ext s s' (fat_updates v (s_disk s) (trunc_updates c rest))
}.

Theorem truncate_cluster_chain_effect vi v fsz s c rest fuel :
  fat_layout v fsz -> st_ok vi v fsz s ->
  chain_of (s_disk s) v c fuel = Some (c :: rest) ->
  exists s', truncate_cluster_chain vi c s = (Ok tt, s') /\ trunc_eff vi v fsz s c rest s'.
Proof.
  intros L Hst Hch. unfold truncate_cluster_chain.
  destruct (chain_step _ _ _ _ _ Hch) as (X1 & X2 & Hcl).
  assert (Hge : (c <? RESERVED_ENTRIES) = false) by (apply N.ltb_ge; unfold RESERVED_ENTRIES; lia).
  rewrite Hge.
  pose proof Hst as (_ & _ & Hv & _).
  rewrite (bind_ok _ _ _ _ _ (get_vol_ok vi v s Hv)).
  destruct (next_step vi v v fsz c s (geo_eq_refl v) L Hst X2) as (s1 & Hn & Hd1 & Hst1 & Hm1 & T1).
  pose proof (layout_sector v fsz c L X2) as Hqc.
  destruct rest as [|n tl].
  - (* nothing to cut *)
    rewrite Hcl in Hn. rewrite (bind_ok _ _ _ _ _ (try_err _ _ _ _ Hn)). cbv beta iota.
    exists s1. split; [reflexivity|].
    constructor; cbn [trunc_vol trunc_updates fat_updates].
    + exact Hst1.
    + rewrite (ls_same _ _ _ Hv). destruct Hm1 as (E & _). exact E.
    + exact (same_mgr_tabs _ _ Hm1).
    + intros H. contradiction H. reflexivity.
    + intros y [].
    + intros c' _ _ _. rewrite Hd1. reflexivity.
    + intros j _. rewrite Hd1. reflexivity.
    + rewrite Hd1. exact (fun H => H).
    + exact T1.
  - (* cut after c: the chain n :: tl is freed *)
    destruct Hcl as (Hcl & _ & N1 & N2 & f' & Hch').
    rewrite Hcl in Hn. rewrite (bind_ok _ _ _ _ _ (try_ok _ _ _ _ Hn)). cbv beta iota.
    fold (min_hint (v_next_free v) n).
    set (v1 := set_v_next_free v (min_hint (v_next_free v) n)).
    rewrite (bind_ok _ _ _ _ _ (put_vol_run vi v1 s1)).
    set (s2 := set_s_vols s1 (list_set (s_vols s1) vi v1)).
    assert (G1 : geo_eq v v1) by (apply geo_eq_next, geo_eq_refl).
    assert (Hst2 : st_ok vi v1 fsz s2) by (apply (st_ok_put vi v _ fsz s1 Hst1); exact G1).
    destruct (update_fat_step_geo vi v v1 fsz c CL_EOF s2 G1 L Hst2 X2)
      as (s3 & Hu & Hst3 & Hm3 & Hget3 & Hfr3 & Hmir3 & T3).
    rewrite (bind_ok _ _ _ _ _ Hu).
    change (s_disk s2) with (s_disk s1) in *.
    pose proof (chain_of_nodup _ _ _ _ _ Hch) as Hnd. inversion Hnd as [|? ? Hcni _]; subst.
    assert (Hch3 : chain_of (s_disk s3) v n f' = Some (n :: tl)).
    { apply (chain_of_frame (s_disk s)); [exact Hch'|].
      intros z Hz. pose proof (chain_of_range _ _ _ _ _ Hch') as Hr. rewrite Forall_forall in Hr.
      rewrite (Hget3 z (layout_sector v fsz z L (proj2 (Hr z Hz)))), Hd1.
      destruct (N.eqb_spec z c) as [->|_]; [contradiction|reflexivity]. }
    pose proof (chain_length _ _ _ _ _ Hch) as Hlen. cbn [length] in Hlen.
    destruct (truncate_loop_spec vi v fsz L tl (N.to_nat (v_clusters v) + 3) n v1 s3 f' G1 Hst3 Hch3 ltac:(lia))
      as (s' & Hrun & Hst' & Hvols' & Htabs' & Hzero' & Hoth' & Hfr' & Hmir' & T').
    exists s'. split; [exact Hrun|].
    constructor.
    + exact Hst'.
    + rewrite Hvols'. destruct Hm3 as (E3 & _). rewrite E3. unfold s2. cbn [s_vols set_s_vols].
      rewrite ls_twice. destruct Hm1 as (E1 & _). rewrite E1. reflexivity.
    + exact (same_tabs_trans _ _ _ (same_mgr_tabs _ _ Hm1)
               (same_tabs_trans _ _ _ (same_tabs_put s1 _) (same_tabs_trans _ _ _ (same_mgr_tabs _ _ Hm3) Htabs'))).
    + intros _. rewrite (Hoth' c Hqc Hcni), (Hget3 c Hqc), N.eqb_refl. reflexivity.
    + exact Hzero'.
    + intros c' Hq Hni Hc'. rewrite (Hoth' c' Hq Hni), (Hget3 c' Hq), Hd1.
      destruct (N.eqb_spec c' c) as [E|_]; [discriminate (Hc' E)|reflexivity].
    + intros j Hj. rewrite (Hfr' j Hj), Hfr3, Hd1; [reflexivity|exact (Hj 0 _ Hqc)|exact (Hj 1 _ Hqc)].
    + intros Hmir. apply Hmir', Hmir3. rewrite Hd1. exact Hmir.
    + cbn [trunc_updates fat_updates]. cbv zeta.
      pose proof (tr_ext_nil_trans _ _ _ _ (tr_ext_trans_nil _ _ _ _ T1 (tr_ext_put s1 (list_set (s_vols s1) vi v1))) T3) as T13.
      rewrite Hd1 in T13. pose proof (tr_ext_disk _ _ _ T13) as Ed. rewrite <- Ed.
      exact (tr_ext_trans _ _ _ _ _ T13 T').
Qed.

Lemma freeing_indices v l : flat_map (fun p => fat_writes v (fst p)) (freeing l) = flat_map (fat_writes v) l.
Proof. induction l as [|y l IH]; [reflexivity|]. cbn [freeing map flat_map fst]. f_equal. exact IH. Qed.

(* block indices of the device writes of truncate, oldest first: the FAT sector(s) of c
   first, then the FAT sector(s) of every freed cluster in chain order (C10) *)
Corollary truncate_cluster_chain_write_order vi v fsz s c rest fuel s' :
  fat_layout v fsz -> st_ok vi v fsz s ->
  chain_of (s_disk s) v c fuel = Some (c :: rest) ->
  truncate_cluster_chain vi c s = (Ok tt, s') ->
  exists new, s_trace s' = new ++ s_trace s /\
    rev (dwrites new) = match rest with
                        | [] => []
                        | _ => fat_writes v c ++ flat_map (fat_writes v) rest
                        end.
Proof.
  intros L Hst Hch H.
  destruct (truncate_cluster_chain_effect vi v fsz s c rest fuel L Hst Hch) as (s2 & Hrun & Heff).
  rewrite H in Hrun. inversion Hrun; subst s2. clear Hrun.
  destruct (te_trace _ _ _ _ _ _ _ Heff) as (new & T & W & _).
  exists new. split; [exact T|]. unfold dwrites. rewrite <- map_rev, W, fat_updates_indices.
  destruct rest as [|n tl]; [reflexivity|].
  change (trunc_updates c (n :: tl)) with ((c, CL_EOF) :: freeing (n :: tl)).
  cbn [flat_map fst]. rewrite freeing_indices. reflexivity.
Qed.

(* the hint stays a data-cluster number *)
Lemma trunc_vol_hint v d c rest fuel : hint_ok v -> chain_of d v c fuel = Some (c :: rest) ->
  hint_ok (trunc_vol v rest).
Proof.
  intros Hh Hch. destruct rest as [|n tl]; [exact Hh|].
  destruct (chain_step _ _ _ _ _ Hch) as (_ & _ & _ & _ & N1 & _).
  intros h Eh. cbn in Eh.
  destruct (v_next_free v) as [nf|] eqn:En; cbn [min_hint] in Eh.
  - destruct (n <? nf); inversion Eh; subst h; [exact N1|exact (Hh nf En)].
  - inversion Eh; subst h. exact N1.
Qed.

(* C03: the hypotheses of PrAllocEffect hold again afterwards *)
Corollary truncate_cluster_chain_keeps_pre vi v fsz s c rest fuel s' :
  alloc_pre s vi v fsz -> chain_of (s_disk s) v c fuel = Some (c :: rest) ->
  truncate_cluster_chain vi c s = (Ok tt, s') ->
  alloc_pre s' vi (trunc_vol v rest) fsz.
Proof.
  intros (Hst & L & Hh) Hch H.
  destruct (truncate_cluster_chain_effect vi v fsz s c rest fuel L Hst Hch) as (s2 & Hrun & Heff).
  rewrite H in Hrun. inversion Hrun; subst s2. clear Hrun.
  split; [exact (te_inv _ _ _ _ _ _ _ Heff)|]. split.
  - apply (geo_layout v); [|exact L]. destruct rest; [apply geo_eq_refl|].
    apply geo_eq_free, geo_eq_next, geo_eq_refl.
  - exact (trunc_vol_hint v _ c rest fuel Hh Hch).
Qed.

(* the free count after truncate, uniformly (a known count is a u32) *)
Lemma trunc_vol_free v rest : (forall n, v_free v = Some n -> n < U32) ->
  v_free (trunc_vol v rest) = add_free (v_free v) (N.of_nat (length rest)).
Proof.
  intros H. destruct rest as [|n tl]; [|reflexivity].
  cbn [trunc_vol length]. symmetry. apply add_free_0. exact H.
Qed.

Lemma trunc_vol_next v n tl : v_next_free (trunc_vol v (n :: tl)) = min_hint (v_next_free v) n.
Proof. reflexivity. Qed.

(* ---- free_cluster_chain ---- *)
(* the volume record afterwards: as after truncate, then one more free entry (c itself) and
   the hint lowered to c when c is smaller (or set to c when unknown) *)
Definition free_vol (v : vol) (c : N) (rest : list N) : vol :=
  let vt := trunc_vol v rest in
  let w2 := set_v_free vt (add_free (v_free vt) 1) in
  set_v_next_free w2 (min_hint (v_next_free w2) c).

Lemma free_vol_free v c rest :
  v_free (free_vol v c rest) = add_free (v_free v) (N.of_nat (S (length rest))).
Proof.
  destruct rest as [|n tl]; [reflexivity|].
  cbn [free_vol trunc_vol v_free set_v_free set_v_next_free]. rewrite add_free_add. f_equal. cbn [length]. lia.
Qed.

Lemma free_vol_next v c rest :
  v_next_free (free_vol v c rest) = min_hint (v_next_free (trunc_vol v rest)) c.
Proof. reflexivity. Qed.

Lemma hint_tail vi w c s : nth_error (s_vols s) vi = Some w ->
  (v <- get_vol vi ;;
   match v_next_free v with
   | Some nf => if nf <=? c then ret tt else put_vol vi (set_v_next_free v (Some c))
   | None => put_vol vi (set_v_next_free v (Some c))
   end) s
  = (Ok tt, set_s_vols s (list_set (s_vols s) vi (set_v_next_free w (min_hint (v_next_free w) c)))).
Proof.
  intros Hv. rewrite (bind_ok _ _ _ _ _ (get_vol_ok vi w s Hv)).
  destruct (v_next_free w) as [nf|] eqn:E; cbn [min_hint]; [|reflexivity].
  rewrite N.ltb_antisym. destruct (nf <=? c); cbn [negb]; [|reflexivity].
  unfold ret. f_equal.
  assert (Ew : set_v_next_free w (Some nf) = w) by (destruct w; cbn in E; subst; reflexivity).
  rewrite Ew, (ls_same _ _ _ Hv), set_s_vols_id. reflexivity.
Qed.

Record free_eff (vi : nat) (v : vol) (fsz : N) (s : st) (c : N) (rest : list N) (s' : st) : Prop :=
  mk_free_eff {
  fe_inv : st_ok vi (free_vol v c rest) fsz s';
  fe_vols : s_vols s' = list_set (s_vols s) vi (free_vol v c rest);
  fe_tabs : same_tabs s s';
  (* every cluster of the chain is free *)
  fe_freed : forall y, In y (c :: rest) -> fat_get (s_disk s') v 0 y = 0;
  (* every other entry is as before *)
  fe_other : forall c', (c' * fat_width v) / 512 < fsz -> ~ In c' (c :: rest) ->
             fat_get (s_disk s') v 0 c' = fat_get (s_disk s) v 0 c';
  fe_frame : forall j, (forall copy k, k < fsz -> j <> fat_copy_sector v copy k) ->
             disk_get (s_disk s') j = disk_get (s_disk s) j;
  fe_mirror : fat_mirrored (s_disk s) v fsz -> fat_mirrored (s_disk s') v fsz;
  (* the writes: those of truncate, then c := free as the very last one *)
  fe_trace : tr_ext s s' (fat_updates v (s_disk s) (trunc_updates c rest ++ [(c, CL_EMPTY)]))
}.

Theorem free_cluster_chain_effect vi v fsz s c rest fuel :
  fat_layout v fsz -> st_ok vi v fsz s ->
  chain_of (s_disk s) v c fuel = Some (c :: rest) ->
  exists s', free_cluster_chain vi c s = (Ok tt, s') /\ free_eff vi v fsz s c rest s'.
Proof.
  intros L Hst Hch. unfold free_cluster_chain.
  destruct (chain_step _ _ _ _ _ Hch) as (X1 & X2 & _).
  assert (Hge : (c <? RESERVED_ENTRIES) = false) by (apply N.ltb_ge; unfold RESERVED_ENTRIES; lia).
  rewrite Hge.
  destruct (truncate_cluster_chain_effect vi v fsz s c rest fuel L Hst Hch) as (s1 & Hrun1 & [Hst1 Hvols1 Htabs1 Hhead1 Hfreed1 Hoth1 Hfr1 Hmir1 T1]).
  rewrite (bind_ok _ _ _ _ _ Hrun1).
  set (vt := trunc_vol v rest) in *.
  assert (Gt : geo_eq v vt).
  { unfold vt. destruct rest; [apply geo_eq_refl|]. apply geo_eq_free, geo_eq_next, geo_eq_refl. }
  pose proof (layout_sector v fsz c L X2) as Hqc.
  destruct (update_fat_step_geo vi v vt fsz c CL_EMPTY s1 Gt L Hst1 X2)
    as (s2 & Hu & Hst2 & Hm2 & Hget2 & Hfr2 & Hmir2 & T2).
  rewrite (bind_ok _ _ _ _ _ Hu).
  pose proof Hst2 as (_ & _ & Hv2 & _).
  rewrite (bind_ok _ _ _ _ _ (bump_free_spec vi vt s2 Hv2)).
  set (w2 := set_v_free vt (add_free (v_free vt) 1)).
  set (s3 := set_s_vols s2 (list_set (s_vols s2) vi w2)).
  assert (Hst3 : st_ok vi w2 fsz s3) by (apply (st_ok_put vi vt _ fsz s2 Hst2); apply geo_eq_free, geo_eq_refl).
  pose proof Hst3 as (_ & _ & Hv3 & _).
  rewrite (hint_tail vi w2 c s3 Hv3).
  fold (free_vol v c rest).
  pose proof (chain_of_nodup _ _ _ _ _ Hch) as Hnd. inversion Hnd as [|? ? Hcni _]; subst.
  eexists. split; [reflexivity|].
  constructor.
  - apply (st_ok_put vi w2 _ fsz s3 Hst3). apply geo_eq_next, geo_eq_refl.
  - cbn [s_vols set_s_vols s3]. rewrite !ls_twice. destruct Hm2 as (E2 & _). rewrite E2, Hvols1, ls_twice. reflexivity.
  - exact (same_tabs_trans _ _ _ Htabs1
             (same_tabs_trans _ _ _ (same_mgr_tabs _ _ Hm2)
                (same_tabs_trans _ _ _ (same_tabs_put s2 _) (same_tabs_put s3 _)))).
  - cbn [s_disk set_s_vols s3]. intros y [<-|Hy].
    + rewrite (Hget2 c Hqc), N.eqb_refl. apply enc_empty.
    + pose proof (chain_of_range _ _ _ _ _ Hch) as Hr. rewrite Forall_forall in Hr.
      rewrite (Hget2 y (layout_sector v fsz y L (proj2 (Hr y (or_intror Hy))))).
      destruct (N.eqb_spec y c) as [->|_]; [contradiction|]. apply Hfreed1. exact Hy.
  - cbn [s_disk set_s_vols s3]. intros c' Hq Hni. rewrite (Hget2 c' Hq).
    destruct (N.eqb_spec c' c) as [->|Hne]; [exfalso; apply Hni; left; reflexivity|].
    apply Hoth1; [exact Hq|intros Hin; apply Hni; right; exact Hin|intros E; contradiction].
  - cbn [s_disk set_s_vols s3]. intros j Hj.
    rewrite Hfr2; [apply Hfr1; exact Hj|exact (Hj 0 _ Hqc)|exact (Hj 1 _ Hqc)].
  - cbn [s_disk set_s_vols s3]. intros Hmir. apply Hmir2, Hmir1. exact Hmir.
  - rewrite fat_updates_app. cbn [fat_updates]. cbv zeta. rewrite app_nil_r.
    rewrite <- (tr_ext_disk _ _ _ T1).
    apply (tr_ext_trans _ _ _ _ _ T1).
    exact (tr_ext_trans_nil _ _ _ _ (tr_ext_trans_nil _ _ _ _ T2 (tr_ext_put s2 _)) (tr_ext_put s3 _)).
Qed.

(* block indices of the device writes of free_cluster_chain, oldest first *)
Corollary free_cluster_chain_write_order vi v fsz s c rest fuel s' :
  fat_layout v fsz -> st_ok vi v fsz s ->
  chain_of (s_disk s) v c fuel = Some (c :: rest) ->
  free_cluster_chain vi c s = (Ok tt, s') ->
  exists new, s_trace s' = new ++ s_trace s /\
    rev (dwrites new) = match rest with
                        | [] => []
                        | _ => fat_writes v c ++ flat_map (fat_writes v) rest
                        end ++ fat_writes v c.
Proof.
  intros L Hst Hch H.
  destruct (free_cluster_chain_effect vi v fsz s c rest fuel L Hst Hch) as (s2 & Hrun & Heff).
  rewrite H in Hrun. inversion Hrun; subst s2. clear Hrun.
  destruct (fe_trace _ _ _ _ _ _ _ Heff) as (new & T & W & _).
  exists new. split; [exact T|]. unfold dwrites. rewrite <- map_rev, W, fat_updates_indices.
  rewrite flat_map_app. cbn [flat_map fst]. rewrite app_nil_r. f_equal.
  destruct rest as [|n tl]; [reflexivity|].
  change (trunc_updates c (n :: tl)) with ((c, CL_EOF) :: freeing (n :: tl)).
  cbn [flat_map fst]. rewrite freeing_indices. reflexivity.
Qed.

Lemma free_vol_hint v d c rest fuel : hint_ok v -> chain_of d v c fuel = Some (c :: rest) ->
  hint_ok (free_vol v c rest).
Proof.
  intros Hh Hch. pose proof (trunc_vol_hint v d c rest fuel Hh Hch) as Ht.
  destruct (chain_step _ _ _ _ _ Hch) as (X1 & _).
  intros h Eh. rewrite free_vol_next in Eh.
  destruct (v_next_free (trunc_vol v rest)) as [nf|] eqn:En; cbn [min_hint] in Eh.
  - destruct (c <? nf); inversion Eh; subst h; [exact X1|exact (Ht nf En)].
  - inversion Eh; subst h. exact X1.
Qed.

Corollary free_cluster_chain_keeps_pre vi v fsz s c rest fuel s' :
  alloc_pre s vi v fsz -> chain_of (s_disk s) v c fuel = Some (c :: rest) ->
  free_cluster_chain vi c s = (Ok tt, s') ->
  alloc_pre s' vi (free_vol v c rest) fsz.
Proof.
  intros (Hst & L & Hh) Hch H.
  destruct (free_cluster_chain_effect vi v fsz s c rest fuel L Hst Hch) as (s2 & Hrun & Heff).
  rewrite H in Hrun. inversion Hrun; subst s2. clear Hrun.
  split; [exact (fe_inv _ _ _ _ _ _ _ Heff)|]. split.
  - apply (geo_layout v); [|exact L]. unfold free_vol. apply geo_eq_next, geo_eq_free.
    destruct rest; [apply geo_eq_refl|]. apply geo_eq_free, geo_eq_next, geo_eq_refl.
  - exact (free_vol_hint v _ c rest fuel Hh Hch).
Qed.

(* clusters below 2 (and the pseudo cluster numbers) are left alone by both functions *)
Lemma truncate_reserved vi c s : c < 2 -> truncate_cluster_chain vi c s = (Ok tt, s).
Proof. intros H. unfold truncate_cluster_chain. apply N.ltb_lt in H. unfold RESERVED_ENTRIES. rewrite H. reflexivity. Qed.
Lemma free_reserved vi c s : c < 2 -> free_cluster_chain vi c s = (Ok tt, s).
Proof. intros H. unfold free_cluster_chain. apply N.ltb_lt in H. unfold RESERVED_ENTRIES. rewrite H. reflexivity. Qed.

(* ================================================================== 7. example *)
(* a FAT16 volume (100 clusters of 2 blocks, two FAT copies of 2 sectors at 1 and 3, data at
   20) holding the chain 3 -> 4 -> 7 -> end; free count 50, hint 9 *)
Definition exc_vol : vol :=
  mk_vol 0 0 10 1000 [] 2 20 1 (Some 3) (Some 50) (Some 9) 100 false 32 12 0 0.
Definition exc_fat : block :=
  set_bytes (set_bytes (set_bytes zero_block 6 (bytes16 4)) 8 (bytes16 7)) 14 (bytes16 65535).
Definition exc_disk : disk := disk_set (disk_set (PositiveMap.empty block) 11 exc_fat) 13 exc_fat.
Definition exc_state : st :=
  mk_st exc_disk zero_block None [exc_vol] [] [] 0 0 0 [] [] false 1 1 1.

Example chain_pre_example :
  alloc_pre exc_state 0 exc_vol 2 /\ fat_mirrored (s_disk exc_state) exc_vol 2 /\
  chain_of (s_disk exc_state) exc_vol 3 10 = Some [3; 4; 7].
Proof.
  split; [|split].
  - split; [|split].
    + split; [intros n []|]. split; [intros i H; discriminate H|]. split; [reflexivity|].
      intros k Hk. assert (E : k = 0 \/ k = 1) by lia. destruct E as [-> | ->]; vm_compute; reflexivity.
    + constructor.
      * constructor; try (intros _); vm_compute; reflexivity.
      * intros sf E. inversion E; subst sf. cbn. lia.
      * vm_compute. reflexivity.
      * intros sf E. inversion E; subst sf. vm_compute. discriminate.
      * cbn. lia.
      * intros sf E. inversion E; subst sf. cbn. lia.
    + intros h E. inversion E; subst h. lia.
  - intros k Hk. assert (E : k = 0 \/ k = 1) by lia. destruct E as [-> | ->]; vm_compute; reflexivity.
  - vm_compute. reflexivity.
Qed.

(* truncate at 3: 3 becomes the end, 4 and 7 are freed in this order, count 50 -> 52, hint
   min(9,4) = 4; six writes: sector 11 and its copy 13, three times *)
Example truncate_run_example :
  match truncate_cluster_chain 0 3 exc_state with
  | (Ok tt, s') =>
      fat_get (s_disk s') exc_vol 0 3 = 65535 /\ fat_get (s_disk s') exc_vol 0 4 = 0 /\
      fat_get (s_disk s') exc_vol 0 7 = 0 /\
      nth_error (s_vols s') 0 = Some (trunc_vol exc_vol [4; 7]) /\
      v_free (trunc_vol exc_vol [4; 7]) = Some 52 /\ v_next_free (trunc_vol exc_vol [4; 7]) = Some 4 /\
      rev (dwrites (s_trace s')) = [11; 13; 11; 13; 11; 13]
  | _ => False
  end.
Proof. vm_compute. repeat split; reflexivity. Qed.

(* free from 3: all three entries free, count 50 -> 53, hint min(4,3) = 3; eight writes *)
Example free_run_example :
  match free_cluster_chain 0 3 exc_state with
  | (Ok tt, s') =>
      fat_get (s_disk s') exc_vol 0 3 = 0 /\ fat_get (s_disk s') exc_vol 0 4 = 0 /\
      fat_get (s_disk s') exc_vol 0 7 = 0 /\
      nth_error (s_vols s') 0 = Some (free_vol exc_vol 3 [4; 7]) /\
      v_free (free_vol exc_vol 3 [4; 7]) = Some 53 /\ v_next_free (free_vol exc_vol 3 [4; 7]) = Some 3 /\
      rev (dwrites (s_trace s')) = [11; 13; 11; 13; 11; 13; 11; 13]
  | _ => False
  end.
Proof. vm_compute. repeat split; reflexivity. Qed.

(* ================================================================== 8. assumptions *)
Print Assumptions truncate_loop_spec.
Print Assumptions truncate_cluster_chain_effect.
Print Assumptions truncate_cluster_chain_write_order.
Print Assumptions truncate_cluster_chain_keeps_pre.
Print Assumptions free_cluster_chain_effect.
Print Assumptions free_cluster_chain_write_order.
Print Assumptions free_cluster_chain_keeps_pre.
Print Assumptions trunc_vol_free.
Print Assumptions free_vol_free.
Print Assumptions chain_pre_example.
