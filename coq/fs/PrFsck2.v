(* The crash decider in a form that extracts to efficient OCaml (shared sub-terms bound once);
   convertible to PrCrashDef.crash_inv_b, so crash_inv_b_sound applies. *)
From Coq Require Import NArith ZArith List Bool.
From SdFs Require Import FsTypes FsBase FsFat FsMgr FsLemmas PrBase PrFat PrAlloc PrDir PrSeek PrAllocEffect
  PrRw PrWrite PrFileSeq PrMulti PrEntry PrChain PrCount PrWf PrOpenClose PrGlobalDef PrFsck.
From SdFs Require Import PrCrash PrCrashDef.
Import ListNotations.
Open Scope N_scope.

Definition crash_inv_fast (depth : nat) (fsz : N) (d : disk) (v : vol) : bool :=
  vol_inv_b v fsz &&
  match root_of d v with
  | None => false
  | Some (bl, rch) =>
      match tree_of depth d v bl with
      | None => false
      | Some T =>
          let hs := heads v T in
          let hl := hs ++ lost_heads d v hs in
          dir_ok_b d v CL_ROOT CL_ROOT bl && forallb (node_ok_crash_b d v CL_ROOT) T &&
          fat_wf_fast d v hl && nodup_pb (map node_pos (all_nodes T))
      end
  end.

Lemma crash_inv_fast_eq depth fsz d v : crash_inv_fast depth fsz d v = crash_inv_b depth fsz d v.
Proof. reflexivity. Qed.

Theorem crash_inv_fast_sound depth fsz d v : crash_inv_fast depth fsz d v = true -> crash_inv fsz v d.
Proof. rewrite crash_inv_fast_eq. apply crash_inv_b_sound. Qed.

Print Assumptions crash_inv_fast_sound.
