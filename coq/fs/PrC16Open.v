(* C16 over whole histories, the per-operation obligation PrC16Def.step_c16 for the calls on
   directory handles and for OpenFile:
     OpenRoot, OpenDir, CloseDir, Find, Iter (with and without an inner call), Label  - nothing written;
     OpenFile in all six modes, every outcome (refusals, kept open, truncating open, creating open in a
     free slot, creating open with directory growth, full directory / full volume).
   Every theorem also carries the STRICT hint bound (hint_inv': unknown or 2 <= h < clusters + 2, what
   PrCount.C16_hint_range guarantees for alloc_cluster / truncate / free), beside PrC16Def.hint_inv
   (upper bound clusters + 2 inclusive); both are preserved by these operations.

   1  what a step that keeps the medium and the volume table keeps
   2  the calls that write nothing
   3  block-level facts: a write outside both FAT copies
   4  OpenFile
   5  assumptions *)
From Coq Require Import NArith ZArith List Bool Lia Arith ZifyClasses ZifyInst Zify FMapPositive Permutation.
From SdFs Require Import FsTypes FsBase FsFat FsMgr FsLemmas PrBase PrFat PrAlloc PrDir PrSeek PrAllocEffect
  PrRw PrWrite PrFileSeq PrMulti PrEntry PrChain PrCount PrWf PrOpenClose PrGlobalDef PrGlobalOpen PrGlobalOpen2
  PrC16Def.
From SdFs Require PrModes PrHandles PrCrash PrBounds PrOrder.
Import ListNotations.
Open Scope N_scope.
Local Arguments N.mul : simpl never.
Local Arguments N.add : simpl never.
Local Arguments N.sub : simpl never.
Local Arguments N.div : simpl never.
Local Arguments N.modulo : simpl never.
Local Arguments N.land : simpl never.
Local Arguments N.lor : simpl never.
Local Arguments N.min : simpl never.
Local Arguments N.max : simpl never.
Local Ltac Zify.zify_post_hook ::= Z.to_euclidean_division_equations.

(* ================================================================== 1. the package *)
(* the strict form of the hint invariant: unknown or a data cluster of the volume *)
Definition hint_inv' (s : st) : Prop := forall v, In v (s_vols s) -> PrCount.hint_in v.

Lemma hint_in_strict_weak v : PrCount.hint_in v -> PrC16Def.hint_in v.
Proof. intros H c E. destruct (H c E). lia. Qed.

Lemma hint_inv_strict_weak s : hint_inv' s -> hint_inv s.
Proof. intros H v Hv. exact (hint_in_strict_weak v (H v Hv)). Qed.

(* the four invariants of PrC16Def plus the strict hint bound, from s to s' *)
Definition c16_keeps (fsz : N) (s s' : st) : Prop :=
  (mirror_inv fsz s -> mirror_inv fsz s') /\
  (truthful_inv s -> truthful_inv s') /\
  (unknown_inv s -> unknown_inv s') /\
  (hint_inv s -> hint_inv s') /\
  (hint_inv' s -> hint_inv' s').

(* the per-operation obligation with the fifth component *)
Definition step_c16' (fsz vid : N) (o : op) : Prop :=
  forall s r s', fs_inv fsz vid s -> id_fresh s -> op_known_ok o -> step o s = (r, s') -> c16_keeps fsz s s'.

Lemma step_c16'_c16 fsz vid o : step_c16' fsz vid o -> step_c16 fsz vid o.
Proof.
  intros H s r s' Hinv Hf Hk Hs. destruct (H s r s' Hinv Hf Hk Hs) as (A & B & C & D & _).
  repeat (split; [assumption|]). assumption.
Qed.

(* the medium and the volume table are as before *)
Definition still (s s' : st) : Prop := s_disk s' = s_disk s /\ s_vols s' = s_vols s.

Lemma still_refl s : still s s.
Proof. split; reflexivity. Qed.

Lemma still_trans a b c : still a b -> still b c -> still a c.
Proof. intros (A1 & A2) (B1 & B2). split; congruence. Qed.

Lemma still_ro s s1 : ro_step s s1 -> still s s1.
Proof. intros Hro. split; [exact (proj1 Hro)|exact (ro_step_vols _ _ Hro)]. Qed.

Lemma still_keeps fsz s s' : still s s' -> c16_keeps fsz s s'.
Proof.
  intros (Hd & Hv). unfold c16_keeps, mirror_inv, truthful_inv, unknown_inv, hint_inv, hint_inv'.
  rewrite Hd, Hv. repeat (split; [exact (fun H => H)|]). exact (fun H => H).
Qed.

(* one volume before, one after *)
Lemma single_keeps fsz s s' v v' : s_vols s = [v] -> s_vols s' = [v'] ->
  (fat_mirrored (s_disk s) v fsz -> fat_mirrored (s_disk s') v' fsz) ->
  (truthful (s_disk s) v -> truthful (s_disk s') v') ->
  (v_free v = None -> v_free v' = None) ->
  (PrC16Def.hint_in v -> PrC16Def.hint_in v') ->
  (PrCount.hint_in v -> PrCount.hint_in v') ->
  c16_keeps fsz s s'.
Proof.
  intros Ev Ev' A B C D E. unfold c16_keeps, mirror_inv, truthful_inv, unknown_inv, hint_inv, hint_inv'.
  rewrite Ev, Ev'.
  split; [|split; [|split; [|split]]]; intros H w [<-|[]];
    [apply A|apply B|apply C|apply D|apply E]; apply H; left; reflexivity.
Qed.

Lemma keeps_trans fsz a b c : c16_keeps fsz a b -> c16_keeps fsz b c -> c16_keeps fsz a c.
Proof.
  intros (A1 & A2 & A3 & A4 & A5) (B1 & B2 & B3 & B4 & B5).
  split; [|split; [|split; [|split]]]; intros H; auto.
Qed.

(* the state a lifted call ends in is the state the call ends in *)
Lemma lift_state {A} (g : A -> res) (m : M A) s r s' : lift g m s = (r, s') -> exists o, m s = (o, s').
Proof.
  unfold lift, bind, ret. destruct (m s) as [[a|e| |] s1]; intros H; injection H as <- <-; eexists; reflexivity.
Qed.

(* ================================================================== 2. the calls that write nothing *)
(* ---- OpenRoot ---- *)
Lemma still_OpenRoot fsz vid h s r s' : fs_inv fsz vid s -> step (OpenRoot h) s = (r, s') -> still s s'.
Proof.
  intros Hinv Hs. pose proof (fs_inv_lock fsz vid s Hinv) as Hl.
  cbn [step] in Hs. pose proof (open_root_dir_eq h s Hl) as E.
  destruct (is_full (s_dirs s) (s_maxd s)).
  - rewrite (lift_err' _ _ _ _ _ E) in Hs. injection Hs as <- <-. split; reflexivity.
  - rewrite (lift_ok' _ _ _ _ _ E) in Hs. injection Hs as <- <-. split; reflexivity.
Qed.

(* ---- CloseDir ---- *)
Lemma still_CloseDir fsz vid h s r s' : fs_inv fsz vid s -> step (CloseDir h) s = (r, s') -> still s s'.
Proof.
  intros Hinv Hs. pose proof (fs_inv_lock fsz vid s Hinv) as Hl.
  cbn [step] in Hs.
  destruct (find_idx (fun x => d_id x =? h) (s_dirs s) 0) as [di|] eqn:E.
  - assert (Hrun : close_dir h s = (Ok tt, set_s_dirs s (swap_remove (s_dirs s) di))).
    { unfold close_dir. rewrite (PrHandles.locked_free _ s Hl). unfold bind.
      rewrite PrHandles.get_dir_by_id_eq, E. reflexivity. }
    rewrite (lift_ok' _ _ _ _ _ Hrun) in Hs. injection Hs as <- <-. split; reflexivity.
  - assert (Hno : PrHandles.no_dir h s) by (intros x Hx; apply N.eqb_neq; exact (find_idx_none_inv _ _ _ E x Hx)).
    destruct (PrHandles.C08_stale_dir_handle h s Hl Hno) as (E1 & _). cbn [step] in E1.
    rewrite E1 in Hs. injection Hs as <- <-. apply still_refl.
Qed.

(* ---- Find ---- *)
Lemma still_Find fsz vid h name s r s' : fs_inv fsz vid s -> step (Find h name) s = (r, s') -> still s s'.
Proof.
  intros Hinv Hs. pose proof (fs_inv_lock fsz vid s Hinv) as Hl.
  cbn [step] in Hs. destruct Hinv as (vi & v & bl & rch & T & Hat).
  destruct (dir_resolve _ _ _ _ _ _ _ _ h Hat) as [Hno|di dd H1 H2 Hne H3|di dd Hres Hvol Hdir Hin].
  - destruct (PrHandles.C08_stale_dir_handle h s Hl Hno) as (_ & E1 & _). specialize (E1 name). cbn [step] in E1.
    rewrite E1 in Hs. injection Hs as <- <-. apply still_refl.
  - assert (E : mgr_find h name s = (Err BadHandle, s)).
    { unfold mgr_find. rewrite (PrHandles.locked_free _ s Hl).
      rewrite (bind_ok _ _ _ _ _ H1), (bind_ok _ _ _ _ _ H2). apply bind_err. exact H3. }
    rewrite (lift_err' _ _ _ _ _ E) in Hs. injection Hs as <- <-. apply still_refl.
  - pose proof Hres as (_ & H1 & H2 & H3 & _).
    assert (E : mgr_find h name s = match sfn_of_str name with
                                    | None => (Err FilenameError, s)
                                    | Some sfn => find_directory_entry 0 (d_cluster dd) sfn s end).
    { unfold mgr_find. rewrite (PrHandles.locked_free _ s Hl).
      rewrite (bind_ok _ _ _ _ _ H1), (bind_ok _ _ _ _ _ H2), (bind_ok _ _ _ _ _ H3).
      destruct (sfn_of_str name); reflexivity. }
    destruct (sfn_of_str name) as [sfn|].
    + destruct (find_run _ _ _ _ _ _ _ _ (d_cluster dd) sfn Hat Hdir) as (bl' & parent & kids & s1 & _ & Hrun & Hro & Hrd).
      rewrite Hrun in E.
      destruct (find (t_matches sfn) (live_in_blocks (s_disk s) bl')) as [t|].
      * rewrite (lift_ok' _ _ _ _ _ E) in Hs. injection Hs as <- <-. exact (still_ro _ _ Hro).
      * rewrite (lift_err' _ _ _ _ _ E) in Hs. injection Hs as <- <-. exact (still_ro _ _ Hro).
    + rewrite (lift_err' _ _ _ _ _ E) in Hs. injection Hs as <- <-. apply still_refl.
Qed.

(* ---- Iter: the listing only reads; the inner call runs under the lock and changes nothing ---- *)
Lemma mgr_iterate_still {R} fsz vid s d (im : M R) o s' : fs_inv fsz vid s ->
  (forall sL, s_lock sL = true -> exists r, im sL = (r, sL) /\ r <> Panic /\ r <> OutOfFuel) ->
  mgr_iterate d im s = (o, s') -> still s s'.
Proof.
  intros Hinv Him Hs. pose proof (fs_inv_lock fsz vid s Hinv) as Hl.
  destruct Hinv as (vi & v & bl & rch & T & Hat).
  rewrite (proj1 (PrHandles.C08_iterate_holds_lock _ d im s Hl)) in Hs.
  assert (Hbad : PrHandles.iter_listing d s = (Err BadHandle, s) -> still s s').
  { intros E. rewrite E in Hs. cbn [PrHandles.iterate_outcome] in Hs. injection Hs as <- <-. apply still_refl. }
  destruct (dir_resolve _ _ _ _ _ _ _ _ d Hat) as [Hno|di dd H1 H2 Hne H3|di dd Hres Hvol Hdir Hdd].
  - apply Hbad. unfold PrHandles.iter_listing. apply bind_err. exact (PrHandles.get_dir_by_id_stale d s Hno).
  - apply Hbad. unfold PrHandles.iter_listing. rewrite (bind_ok _ _ _ _ _ H1), (bind_ok _ _ _ _ _ H2). apply bind_err. exact H3.
  - destruct (iter_listing_run _ _ _ _ _ _ _ _ d di dd Hat Hres Hdir) as (shown & s1 & E & Hro & Hrd).
    rewrite E in Hs.
    destruct shown as [|e0 shown]; cbn [PrHandles.iterate_outcome] in Hs.
    + injection Hs as <- <-. exact (still_ro _ _ Hro).
    + assert (Hq : still s (set_s_lock (set_s_lock s1 true) false)).
      { apply (still_trans _ _ _ (still_ro _ _ Hro)). split; reflexivity. }
      destruct (Him (set_s_lock s1 true) eq_refl) as (r' & Er & R1 & R2).
      rewrite Er in Hs. destruct r' as [a|e| |]; try contradiction; injection Hs as <- <-; exact Hq.
Qed.

Lemma still_Iter fsz vid d inner s r s' : fs_inv fsz vid s -> no_remount (Iter d inner) ->
  step (Iter d inner) s = (r, s') -> still s s'.
Proof.
  intros Hinv Hnr Hs. cbn [step] in Hs. unfold bind at 1 in Hs.
  destruct (mgr_iterate d match inner with Some o' => step o' | None => ret RUnit end s) as [o s1] eqn:E.
  apply (mgr_iterate_still fsz vid s d _ o s1 Hinv) in E.
  - destruct o as [a|e| |]; injection Hs as <- <-; exact E.
  - intros sL HL. destruct inner as [o'|].
    + exact (locked_step o' sL HL Hnr).
    + exists (Ok RUnit). split; [reflexivity|split; discriminate].
Qed.

(* ---- computations that keep the medium and the volume table from every state of the invariant ---- *)
Definition sm {A} (fsz vid : N) (m : M A) : Prop :=
  forall s o s', fs_inv fsz vid s -> m s = (o, s') -> still s s'.

Lemma sm_ret {A} fsz vid (a : A) : sm fsz vid (ret a).
Proof. intros s o s' _ E. injection E as <- <-. apply still_refl. Qed.

Lemma sm_fail {A} fsz vid e : sm fsz vid (@fail A e).
Proof. intros s o s' _ E. injection E as <- <-. apply still_refl. Qed.

Lemma sm_bind {A B} fsz vid (m : M A) (k : A -> M B) :
  qm fsz vid m -> sm fsz vid m -> (forall a, sm fsz vid (k a)) -> sm fsz vid (bind m k).
Proof.
  intros Hq Hm Hk s o s' Hinv E. unfold bind in E. destruct (m s) as [o1 s1] eqn:E1.
  destruct (Hq s o1 s1 Hinv E1) as (_ & _ & Q1). pose proof (Hm s o1 s1 Hinv E1) as S1.
  destruct o1 as [a|e| |]; try (injection E as <- <-; exact S1).
  exact (still_trans _ _ _ S1 (Hk a s1 o s' (proj1 Q1) E)).
Qed.

Lemma sm_try {A} fsz vid (m : M A) : sm fsz vid m -> sm fsz vid (try m).
Proof.
  intros Hm s o s' Hinv E. unfold try in E. destruct (m s) as [o1 s1] eqn:E1.
  pose proof (Hm s o1 s1 Hinv E1) as S1.
  destruct o1 as [a|e| |]; injection E as <- <-; exact S1.
Qed.

Lemma sm_open_root_dir fsz vid h : sm fsz vid (open_root_dir h).
Proof.
  intros s o s' Hinv E. pose proof (fs_inv_lock fsz vid s Hinv) as Hl. rewrite (open_root_dir_eq h s Hl) in E.
  destruct (is_full (s_dirs s) (s_maxd s)); injection E as <- <-; split; reflexivity.
Qed.

Lemma sm_close_dir fsz vid h : sm fsz vid (close_dir h).
Proof.
  intros s o s' Hinv E. pose proof (fs_inv_lock fsz vid s Hinv) as Hl.
  unfold close_dir in E. rewrite (PrHandles.locked_free _ s Hl) in E. unfold bind in E.
  rewrite PrHandles.get_dir_by_id_eq in E.
  destruct (find_idx (fun x => d_id x =? h) (s_dirs s) 0) as [di|]; injection E as <- <-; split; reflexivity.
Qed.

Lemma sm_mgr_iterate_plain fsz vid d : sm fsz vid (mgr_iterate d (ret tt)).
Proof.
  intros s o s' Hinv E. apply (mgr_iterate_still fsz vid s d (ret tt) o s' Hinv); [|exact E].
  intros sL _. exists (Ok tt). split; [reflexivity|split; discriminate].
Qed.

(* ---- Label ---- *)
Lemma still_Label fsz vid h s r s' : fs_inv fsz vid s -> step (Label h) s = (r, s') -> still s s'.
Proof.
  intros Hinv Hs. pose proof (fs_inv_lock fsz vid s Hinv) as Hl.
  destruct (fs_inv_vols fsz vid s Hinv) as (v & Ev & _).
  destruct (N.eqb_spec (v_id v) h) as [Eh|Nh].
  - cbn [step] in Hs. destruct (lift_state _ _ _ _ _ Hs) as (o & E). clear Hs.
    unfold get_root_volume_label in E. rewrite (PrHandles.locked_free _ s Hl) in E.
    assert (H1 : get_volume_by_id h s = (Ok 0%nat, s)).
    { rewrite (vol_lookup s v h Ev). apply N.eqb_eq in Eh. rewrite Eh. reflexivity. }
    assert (H2 : get_vol 0 s = (Ok v, s)) by (rewrite PrHandles.get_vol_eq, Ev; reflexivity).
    rewrite (bind_ok _ _ _ _ _ H1), (bind_ok _ _ _ _ _ H2) in E.
    destruct (trim_rev (rev (v_name v))).
    + revert E. apply (sm_bind fsz vid); [apply qm_open_root_dir|apply sm_open_root_dir|intros rd|exact Hinv].
      apply sm_bind; [apply qm_try, qm_mgr_iterate_plain|apply sm_try, sm_mgr_iterate_plain|intros r0].
      apply sm_bind; [apply qm_try, qm_close_dir|apply sm_try, sm_close_dir|intros _].
      destruct r0 as [[es o0]|e]; [|apply sm_fail].
      destruct (filter (fun e => e_attr e =? A_VOLUME) es); apply sm_ret.
    + injection E as <- <-. apply still_refl.
  - assert (Hno : PrHandles.no_vol h s) by (intros w Hw; rewrite Ev in Hw; destruct Hw as [<-|[]]; exact Nh).
    destruct (PrHandles.C08_stale_vol_handle h s Hl Hno) as (_ & E1).
    rewrite E1 in Hs. injection Hs as <- <-. apply still_refl.
Qed.

(* ---- OpenDir ---- *)
Lemma still_OpenDir fsz vid h name s r s' : fs_inv fsz vid s -> step (OpenDir h name) s = (r, s') -> still s s'.
Proof.
  intros Hinv Hs. pose proof (fs_inv_lock fsz vid s Hinv) as Hl.
  destruct Hinv as (vi & v & bl & rch & T & Hat).
  destruct (dir_resolve _ _ _ _ _ _ _ _ h Hat) as [Hno|di dd H1 H2 Hne H3|di dd Hres Hvol Hdir Hdd].
  { destruct (PrHandles.C08_stale_dir_handle h s Hl Hno) as (_ & _ & _ & _ & E1 & _). rewrite (E1 name) in Hs.
    injection Hs as <- <-. apply still_refl. }
  { cbn [step] in Hs.
    assert (E : exists e, open_dir h name s = (Err e, s)).
    { unfold open_dir. rewrite (PrHandles.locked_free _ s Hl), PrHandles.bind_get.
      destruct (is_full (s_dirs s) (s_maxd s)); [eexists; reflexivity|].
      exists BadHandle. rewrite (bind_ok _ _ _ _ _ H1), (bind_ok _ _ _ _ _ H2). apply bind_err. exact H3. }
    destruct E as (e & E). rewrite (lift_err' _ _ _ _ _ E) in Hs. injection Hs as <- <-. apply still_refl. }
  cbn [step] in Hs.
  destruct (is_full (s_dirs s) (s_maxd s)) eqn:Hfull.
  { assert (E : open_dir h name s = (Err TooManyOpenDirs, s)).
    { unfold open_dir. rewrite (PrHandles.locked_free _ s Hl), PrHandles.bind_get, Hfull. reflexivity. }
    rewrite (lift_err' _ _ _ _ _ E) in Hs. injection Hs as <- <-. apply still_refl. }
  destruct (PrModes.C06_open_dir s h di dd 0%nat v name Hres Hfull) as (Hvid & Htab).
  destruct (sfn_of_str name) as [sfn|] eqn:Hsfn.
  2:{ rewrite (lift_err' _ _ _ _ _ Htab) in Hs. injection Hs as <- <-. apply still_refl. }
  destruct (list_eqb sfn THIS_DIR_NAME) eqn:Ethis.
  { rewrite (lift_ok' _ _ _ _ _ Htab) in Hs. injection Hs as <- <-. split; reflexivity. }
  destruct (find_run _ _ _ _ _ _ _ _ (d_cluster dd) sfn Hat Hdir) as (bl' & parent & kids & s1 & Hctx & Hrun & Hro & Hrd).
  destruct (Htab _ _ Hrun) as (_ & Hopen).
  pose proof (still_ro _ _ Hro) as Hq1.
  destruct (find (t_matches sfn) (live_in_blocks (s_disk s) bl')) as [t|] eqn:Hfind.
  - destruct (is_directory (e_attr (t_entry (v_fat32 v) t))) eqn:Hisdir.
    + rewrite (lift_ok' _ _ _ _ _ Hopen) in Hs. injection Hs as <- <-.
      apply (still_trans _ _ _ Hq1). split; reflexivity.
    + rewrite (lift_err' _ _ _ _ _ Hopen) in Hs. injection Hs as <- <-. exact Hq1.
  - rewrite (lift_err' _ _ _ _ _ Hopen) in Hs. injection Hs as <- <-. exact Hq1.
Qed.

(* ---- the obligation for the six calls ---- *)
Theorem step_c16'_OpenRoot fsz vid h : step_c16' fsz vid (OpenRoot h).
Proof. intros s r s' Hinv _ _ Hs. exact (still_keeps fsz _ _ (still_OpenRoot fsz vid h s r s' Hinv Hs)). Qed.

Theorem step_c16'_CloseDir fsz vid h : step_c16' fsz vid (CloseDir h).
Proof. intros s r s' Hinv _ _ Hs. exact (still_keeps fsz _ _ (still_CloseDir fsz vid h s r s' Hinv Hs)). Qed.

Theorem step_c16'_Find fsz vid h name : step_c16' fsz vid (Find h name).
Proof. intros s r s' Hinv _ _ Hs. exact (still_keeps fsz _ _ (still_Find fsz vid h name s r s' Hinv Hs)). Qed.

Theorem step_c16'_Iter fsz vid d inner : step_c16' fsz vid (Iter d inner).
Proof.
  intros s r s' Hinv _ ((Hnr & _) & _) Hs. exact (still_keeps fsz _ _ (still_Iter fsz vid d inner s r s' Hinv Hnr Hs)).
Qed.

Theorem step_c16'_Label fsz vid h : step_c16' fsz vid (Label h).
Proof. intros s r s' Hinv _ _ Hs. exact (still_keeps fsz _ _ (still_Label fsz vid h s r s' Hinv Hs)). Qed.

Theorem step_c16'_OpenDir fsz vid h name : step_c16' fsz vid (OpenDir h name).
Proof. intros s r s' Hinv _ _ Hs. exact (still_keeps fsz _ _ (still_OpenDir fsz vid h name s r s' Hinv Hs)). Qed.

(* ================================================================== 3. a write outside both FAT copies *)
Lemma mirrored_geo d v w fsz : geo_eq v w -> fat_mirrored d v fsz -> fat_mirrored d w fsz.
Proof. intros (a & b & ->) H. exact H. Qed.

Lemma off_fat_geo v w fsz j : geo_eq v w -> off_fat v fsz j -> off_fat w fsz j.
Proof. intros (a & b & ->) H. exact H. Qed.

Lemma fat_layout_geo v w fsz : geo_eq v w -> fat_layout v fsz -> fat_layout w fsz.
Proof. intros (a & b & ->) H. apply fat_layout_free. exact H. Qed.

Lemma mirrored_off d v fsz blk nb : off_fat v fsz blk -> fat_mirrored d v fsz -> fat_mirrored (disk_set d blk nb) v fsz.
Proof.
  intros Ho H k Hk. rewrite !disk_get_set_other by (exact (Ho _ k Hk)). exact (H k Hk).
Qed.

Lemma free_entries_off d v fsz blk nb : fat_layout v fsz -> off_fat v fsz blk ->
  free_entries (disk_set d blk nb) v = free_entries d v.
Proof.
  intros L Ho. apply free_entries_iff. intros c C1 C2.
  rewrite (fat_get_same_sector d (disk_set d blk nb) v c); [tauto|].
  apply disk_get_set_other. exact (Ho 0 _ (layout_sector v fsz c L C2)).
Qed.

Lemma truthful_off d v fsz blk nb : fat_layout v fsz -> off_fat v fsz blk ->
  truthful d v -> truthful (disk_set d blk nb) v.
Proof. intros L Ho T. unfold truthful in *. rewrite (free_entries_off d v fsz blk nb L Ho). exact T. Qed.

(* the hint after a cut, inclusive bound *)
Lemma trunc_vol_hint_weak v d c rest fuel : chain_of d v c fuel = Some (c :: rest) ->
  PrC16Def.hint_in v -> PrC16Def.hint_in (trunc_vol v rest).
Proof.
  intros Hch Hi. destruct rest as [|n tl]; [exact Hi|].
  destruct (chain_step _ _ _ _ _ Hch) as (_ & _ & _ & _ & N1 & N2 & _).
  intros h E. rewrite trunc_vol_next in E. change (v_clusters (trunc_vol v (n :: tl))) with (v_clusters v).
  destruct (v_next_free v) as [nf|] eqn:Enf; cbn [min_hint] in E.
  - specialize (Hi nf Enf). destruct (N.ltb_spec n nf); inversion E; subst h; lia.
  - inversion E; subst h. lia.
Qed.

(* ================================================================== 4. OpenFile *)
(* ---- truncate_cluster_chain on the chain of a file node of the tree ---- *)
Lemma trunc_c16 fsz vid s vi v bl rch T e ch s2 v2 : fs_inv_at fsz vid s vi v bl rch T ->
  In (NFile e ch) (all_nodes T) ->
  truncate_cluster_chain vi (e_cluster e) s = (Ok tt, s2) -> s_vols s2 = [v2] ->
  geo_eq v v2 /\
  (fat_mirrored (s_disk s) v fsz -> fat_mirrored (s_disk s2) v fsz) /\
  (truthful (s_disk s) v -> truthful (s_disk s2) v2) /\
  (v_free v = None -> v_free v2 = None) /\
  (PrC16Def.hint_in v -> PrC16Def.hint_in v2) /\
  (PrCount.hint_in v -> PrCount.hint_in v2).
Proof.
  intros Hinv Hin Htr Ev2.
  destruct (go_facts _ _ _ _ _ _ _ _ Hinv) as (Hl & Hnf & Hc & Ev & E0 & Hv0 & Hv & L & Hwf & _). subst vi.
  pose proof (fi_vol _ _ _ _ _ _ _ _ Hinv) as (_ & Hpre & _).
  pose proof (fi_disk _ _ _ _ _ _ _ _ Hinv) as Hdisk.
  destruct (all_nodes_rep _ _ _ _ (di_tree _ _ _ _ _ _ Hdisk) _ Hin) as (t & bl0 & Hr & _).
  apply node_rep_file in Hr. destruct Hr as (_ & _ & Hech).
  destruct Hech as [(A1 & fu & A2)|(A1 & ->)].
  - destruct (chain_of_head _ _ _ _ _ A2) as (_ & C2 & rest & ->).
    pose proof Hpre as (Hst & _).
    destruct (PrChain.truncate_cluster_chain_effect 0%nat v fsz s (e_cluster e) rest fu L Hst A2) as (s2' & Hrun' & Heff).
    rewrite Htr in Hrun'. injection Hrun' as <-.
    destruct (truncate_count_delta 0%nat v fsz s (e_cluster e) rest fu Hpre A2)
      as (s2' & Hrun' & _ & Hv' & G & _ & _ & Hunk & Htru).
    rewrite Htr in Hrun'. injection Hrun' as <-.
    rewrite Ev2 in Hv'. cbn [nth_error] in Hv'. injection Hv' as ->.
    split; [exact G|]. split; [exact (PrChain.te_mirror _ _ _ _ _ _ _ Heff)|]. split; [exact Htru|]. split; [exact Hunk|].
    split; [exact (trunc_vol_hint_weak v _ _ rest fu A2)|].
    exact (proj1 (C16_hint_range_truncate v _ _ rest fu A2)).
  - rewrite (PrChain.truncate_reserved 0%nat _ s A1) in Htr. injection Htr as <-.
    rewrite Ev in Ev2. injection Ev2 as <-.
    split; [apply geo_eq_refl|]. repeat (split; [exact (fun H => H)|]). exact (fun H => H).
Qed.

(* ---- the truncating open ---- *)
Lemma open_trunc_c16 fsz vid s vi v bl rch T h name di dd sfn bl' parent kids s1 md t :
  open_ctx fsz vid s vi v bl rch T h name di dd sfn bl' parent kids s1 ->
  find (t_matches sfn) (live_in_blocks (s_disk s) bl') = Some t ->
  PrModes.open_refusal md (Ok (t_entry (v_fat32 v) t)) (PrModes.is_open s1 (d_vol dd) (t_entry (v_fat32 v) t)) = None ->
  md = ReadWriteTruncate \/ md = ReadWriteCreateOrTruncate ->
  exists id s', open_file_in_dir h name md s = (Ok id, s') /\ c16_keeps fsz s s'.
Proof.
  intros [Hat Hfresh Hres Hvol Hroom Hsfn He5 Hdot Hctx Hlook Hro Hrd] Hfind Href Hmd.
  rewrite Hfind in Hlook. set (e := t_entry (v_fat32 v) t) in *.
  destruct (refusal_none_ok _ _ _ Href) as (Hop & Hnd & _).
  pose proof (go_ro _ _ _ _ _ _ _ _ _ Hat Hro) as Hat1.
  pose proof Hro as (Hd & Hc1 & Hnf1 & Hm1). pose proof Hm1 as (M1 & M2 & M3 & M4 & M5 & M6 & _).
  pose proof (sfn_of_str_wf _ _ Hsfn) as Hwf.
  rewrite <- Hd in Hctx, Hfind.
  destruct (found_file _ _ _ _ _ _ _ _ _ _ Hctx Hwf He5 Hdot Hfind Hnd) as (ch & Hk & Hall & Hr & Hn & Hshort & Hname).
  fold e in Hk, Hall, Hr.
  destruct (node_rep_slot _ _ _ _ _ Hr Hn) as (Hb & Ho & Hts & Hde & Hns). cbn [node_entry] in Hb, Ho, Hts, Hde.
  (* the handle counter advances *)
  set (sg := set_s_next_id s1 ((s_next_id s1 + 1) mod U32)).
  pose proof (go_bump _ _ _ _ _ _ _ _ ((s_next_id s1 + 1) mod U32) Hat1) as Hatg. fold sg in Hatg.
  destruct (go_facts _ _ _ _ _ _ _ _ Hatg) as (Hlg & Hnfg & Hcg & Evg & E0 & Hv0g & Hv & L & Hwfg & Hvid). subst vi.
  (* the chain is cut *)
  destruct (trunc_step _ _ _ _ _ _ _ _ e ch Hatg Hall) as (s2 & v2 & ws1 & Htr & G & Evols2 & Hpre2 & Hwf2 & Htabs & F4 & Hcase & Hts1 & Hcl1).
  pose proof Hpre2 as ((Hnf2 & Hc2 & Hvi2 & Hlen2) & L2 & Hh2).
  (* the clock is read, the entry is rewritten *)
  set (now := clock_ts (s_clock s2)).
  set (s3 := set_s_clock s2 (s_clock s2 + 1)).
  set (e' := set_e_mtime (set_e_size e 0) now).
  assert (Ects : ts_ok (e_ctime e)) by (unfold e, t_entry, get_entry; apply ts_from_fat_ok).
  destruct (write_entry_to_disk_spec v2 e' s3 Hnf2 Hc2 Ects ltac:(apply ts_cal_ok, clock_ts_cal) Ho)
    as (s4 & Hwrite & Hd4 & _ & _ & _ & _ & _ & _ & Hm4 & _).
  cbn [e_block e' set_e_mtime set_e_size] in Hd4.
  change (s_disk s3) with (s_disk s2) in Hd4.
  pose proof Hm4 as (Q1 & _).
  set (nf := mk_fileinfo (s_next_id s1) (d_vol dd) 0 (e_cluster e) 0 ReadWriteTruncate e' false).
  (* the run *)
  assert (Hopen : open_file_in_dir h name md s = (Ok (s_next_id s1), set_s_files s4 (s_files s4 ++ [nf]))).
  { pose proof (PrModes.resolves_vol_id _ _ _ _ _ _ Hres) as Hvid'.
    assert (Htail : (truncate_cluster_chain 0%nat (e_cluster e) ;;;
                     now0 <- get_timestamp ;;
                     v' <- get_vol 0%nat ;;
                     write_entry_to_disk v' (set_e_mtime (set_e_size e 0) now0) ;;;
                     push_file (set_f_entry (mk_fileinfo (s_next_id s1) (d_vol dd) 0 (e_cluster e) 0
                                                         ReadWriteTruncate e false)
                                            (set_e_mtime (set_e_size e 0) now0)) ;;; ret (s_next_id s1)) sg
                    = (Ok (s_next_id s1), set_s_files s4 (s_files s4 ++ [nf]))).
    { rewrite (bind_ok _ _ _ _ _ Htr), (bind_ok _ _ _ _ _ (get_timestamp_eq s2)).
      rewrite (bind_ok _ _ _ _ _ (get_vol_some 0%nat _ s3 Hvi2)), (bind_ok _ _ _ _ _ Hwrite). reflexivity. }
    unfold open_file_in_dir. PrModes.open_prefix Hres Hroom Hsfn.
    unfold PrModes.dot_name in Hdot. rewrite Hdot.
    unfold bind at 1. unfold try. rewrite Hlook.
    rewrite PrModes.bind_ret, (bind_ok _ _ _ _ _ (PrModes.file_is_open_eq _ _ _)), Hvid'.
    cbn [PrModes.open_refusal] in Href.
    destruct (PrModes.is_open s1 (d_vol dd) e) eqn:Hop'; [discriminate|].
    destruct (mode_eqb md ReadWriteCreate) eqn:Hcm; [discriminate|].
    destruct (is_read_only (e_attr e) && negb (mode_eqb md ReadOnly)) eqn:Hrr; [discriminate|].
    destruct (is_directory (e_attr e)) eqn:Hdd; [discriminate|].
    destruct Hmd as [-> | ->]; cbn [solve_mode_variant mode_eqb] in *;
      rewrite Hrr, (bind_ok _ _ _ _ _ (PrModes.file_is_open_eq _ _ _)), Hop',
              (bind_ok _ _ _ _ _ (generate_spec s1)); exact Htail. }
  eexists. eexists. split; [exact Hopen|].
  (* the four invariants *)
  assert (Hoffe : off_fat v fsz (e_block e)) by exact (node_block_off_fat _ _ _ _ _ _ _ _ _ Hatg Hall).
  destruct (trunc_c16 _ _ _ _ _ _ _ _ e ch s2 v2 Hatg Hall Htr Evols2) as (_ & Kmir & Ktru & Kunk & Khw & Khs).
  assert (Ev : s_vols s = [v]) by (rewrite <- M1; exact Evg).
  apply (single_keeps fsz s _ v v2 Ev).
  - cbn [s_vols set_s_files]. rewrite Q1. exact Evols2.
  - intros Hm. cbn [s_disk set_s_files]. rewrite Hd4. apply (mirrored_geo _ v v2 fsz G).
    apply (mirrored_off _ v fsz _ _ Hoffe). apply Kmir. change (s_disk sg) with (s_disk s1). rewrite Hd. exact Hm.
  - intros Ht. cbn [s_disk set_s_files]. rewrite Hd4.
    apply (truthful_off _ v2 fsz _ _ L2 (off_fat_geo v v2 fsz _ G Hoffe)).
    apply Ktru. change (s_disk sg) with (s_disk s1). rewrite Hd. exact Ht.
  - exact Kunk.
  - exact Khw.
  - exact Khs.
Qed.

(* ---- the creating open: one slot of a directory block is written ---- *)
Lemma create_slot_c16 fsz vid s vi v bl rch T h name di dd sfn bl' parent kids s1 blk off sl0 s2 nb :
  open_ctx fsz vid s vi v bl rch T h name di dd sfn bl' parent kids s1 ->
  find nv (slots_of (s_disk s1) bl') = Some (blk, off, sl0) ->
  s_disk s2 = disk_set (s_disk s1) blk nb -> same_tables s1 s2 ->
  forall s', s_disk s' = s_disk s2 -> s_vols s' = s_vols s2 -> c16_keeps fsz s s'.
Proof.
  intros [Hat Hfresh Hres Hvol Hroom Hsfn He5 Hdot Hctx Hlook Hro Hrd] Hfree Hd2 Htab s' Ed Evs.
  pose proof (go_ro _ _ _ _ _ _ _ _ _ Hat Hro) as Hat1.
  pose proof Hro as (Hd & _ & _ & Hm1). pose proof Hm1 as (M1 & _).
  pose proof Htab as (T1 & _).
  destruct (go_facts _ _ _ _ _ _ _ _ Hat1) as (_ & _ & _ & Ev1 & E0 & _ & Hv & L & _). subst vi.
  pose proof (find_some _ _ Hfree) as [Hin _]. apply In_slots_of in Hin.
  destruct Hin as (b & i & Hb & Hi & Et). injection Et as E1 E2 E3. subst b.
  assert (Hoffb : off_fat v fsz blk).
  { destruct (dx_where _ _ _ _ _ _ _ _ Hctx) as [(_ & -> & _)|(e0 & ch0 & _ & _ & -> & Hch0 & _)].
    - exact (root_blocks_off_fat _ _ _ _ _ _ _ _ _ Hat1 Hb).
    - exact (chain_blocks_off_fat fsz _ v _ _ _ L Hch0 Hb). }
  assert (Ev : s_vols s = [v]) by (rewrite <- M1; exact Ev1).
  apply (single_keeps fsz s s' v v Ev).
  - rewrite Evs, T1. exact Ev1.
  - intros Hm. rewrite Ed, Hd2, Hd. exact (mirrored_off _ v fsz _ _ Hoffb Hm).
  - intros Ht. rewrite Ed, Hd2, Hd. exact (truthful_off _ v fsz _ _ L Hoffb Ht).
  - exact (fun H => H).
  - exact (fun H => H).
  - exact (fun H => H).
Qed.

(* ---- the creating open: the directory grows by one cluster, then slot 0 of its first block is written ---- *)
Lemma create_grow_c16 fsz vid s vi v bl rch T h name di dd sfn bl' parent kids s1 ch s0 cn sa en s2 :
  open_ctx fsz vid s vi v bl rch T h name di dd sfn bl' parent kids s1 ->
  chain_at (s_disk s1) v (dir_first_cluster v (d_cluster dd)) ch ->
  qstep s1 s0 -> alloc_pre s0 0%nat v fsz ->
  alloc_cluster 0%nat (Some (last ch (dir_first_cluster v (d_cluster dd)))) true s0 = (Ok cn, sa) ->
  create_post (v_fat32 v) sfn 0 CL_EMPTY (cluster_first_block v cn) 0 sa en s2 ->
  forall s', s_disk s' = s_disk s2 -> s_vols s' = s_vols s2 -> c16_keeps fsz s s'.
Proof.
  intros [Hat Hfresh Hres Hvol Hroom Hsfn He5 Hdot Hctx Hlook Hro Hrd] Hch Hq0 Hpre0 Hal Hpost s' Ed Evs.
  set (c0 := dir_first_cluster v (d_cluster dd)) in *.
  pose proof (go_ro _ _ _ _ _ _ _ _ _ Hat Hro) as Hat1.
  pose proof (go_ro _ _ _ _ _ _ _ _ _ Hat1 (proj1 Hq0)) as Hat0.
  pose proof Hro as (Hd & _ & _ & Hm1). pose proof Hm1 as (M1 & _).
  pose proof (proj1 Hq0) as (Hd0 & _ & _ & Hm0). pose proof Hm0 as (O1 & _).
  rewrite <- Hd0 in Hch.
  destruct (go_facts _ _ _ _ _ _ _ _ Hat0) as (_ & _ & _ & Ev0 & E0 & _ & Hv & L & _). subst vi.
  pose proof (fi_vol _ _ _ _ _ _ _ _ Hat0) as (_ & _ & Hfit & Hspc & _).
  (* the last cluster of the directory is in use *)
  destruct (chain_at_head _ _ _ _ Hch) as (r0 & Ech).
  assert (Hlast : In (last ch c0) ch) by (rewrite Ech; apply last_in_cons).
  set (p := last ch c0) in *.
  destruct (chain_at_mem _ _ _ _ p Hch Hlast) as (P1 & P2 & P3 & _).
  assert (Hprev : forall p0, Some p = Some p0 -> p0 < v_clusters v + 2) by (intros p0 E; injection E as <-; exact P2).
  assert (Hinuse : prev_inuse (s_disk s0) v (Some p)).
  { intros p0 E. injection E as <-. split; [exact P1|]. split; [exact P2|exact P3]. }
  destruct (alloc_count_delta 0%nat v fsz (Some p) true s0 cn sa Hpre0 Hfit Hinuse Hal)
    as (_ & v' & Hv' & G & Hprea & _ & _ & _ & Kunk & Ktru).
  pose proof (alloc_cluster_effect 0%nat v fsz (Some p) true s0 cn sa Hpre0 Hprev Hal) as Heff.
  destruct (ae_range _ _ _ _ _ _ _ _ Heff) as (C1 & C2 & _).
  destruct (C16_hint_range_alloc 0%nat v fsz (Some p) true s0 cn sa v' Hpre0 Hprev Hal Hv') as (Khs & _).
  assert (Evols_a : s_vols sa = [v']).
  { destruct (ae_vol _ _ _ _ _ _ _ _ Heff) as (nf & Evols & _). rewrite Evols, Ev0 in *. cbn [list_set nth_error] in *.
    injection Hv' as <-. reflexivity. }
  (* the entry is written into the first block of the new cluster *)
  unfold create_post in Hpost. cbv zeta in Hpost. destruct Hpost as (_ & Hd2 & _ & _ & _ & Htab2 & _).
  pose proof Htab2 as (X1 & _).
  set (B := cluster_first_block v cn) in *.
  assert (HB : In B (cluster_blocks v cn)).
  { rewrite (PrBounds.cluster_blocks_cons v cn) by lia. left. reflexivity. }
  assert (HoffB : off_fat v fsz B) by exact (cluster_block_off_fat fsz v cn B L C1 HB).
  assert (Ev : s_vols s = [v]) by (rewrite <- M1, <- O1; exact Ev0).
  apply (single_keeps fsz s s' v v' Ev).
  - rewrite Evs, X1. exact Evols_a.
  - intros Hm. rewrite Ed, Hd2. apply (mirrored_geo _ v v' fsz G). apply (mirrored_off _ v fsz _ _ HoffB).
    apply (ae_mirror _ _ _ _ _ _ _ _ Heff). rewrite Hd0, Hd. exact Hm.
  - intros Ht. rewrite Ed, Hd2.
    apply (truthful_off _ v' fsz _ _ (fat_layout_geo v v' fsz G L) (off_fat_geo v v' fsz _ G HoffB)).
    apply Ktru. rewrite Hd0, Hd. exact Ht.
  - exact Kunk.
  - intros _. exact (hint_in_strict_weak v' Khs).
  - intros _. exact Khs.
Qed.

(* ---- OpenFile, every mode, every outcome ---- *)
Theorem step_c16'_OpenFile fsz vid h name md : step_c16' fsz vid (OpenFile h name md).
Proof.
  intros s r s' Hinv Hfresh (_ & Hname) Hs. pose proof (fs_inv_lock fsz vid s Hinv) as Hl.
  cbn [op_name_ok] in Hname. destruct Hinv as (vi & v & bl & rch & T & Hat).
  assert (Hinv : fs_inv fsz vid s) by (exists vi, v, bl, rch, T; exact Hat).
  destruct (dir_resolve _ _ _ _ _ _ _ _ h Hat) as [Hno|di dd H1 H2 Hne H3|di dd Hres Hvol Hdir Hdd].
  { destruct (PrHandles.C08_stale_dir_handle h s Hl Hno) as (_ & _ & _ & _ & _ & _ & E1). rewrite (E1 name md) in Hs.
    injection Hs as <- <-. apply still_keeps, still_refl. }
  { cbn [step] in Hs.
    assert (E : exists e, open_file_in_dir h name md s = (Err e, s)).
    { unfold open_file_in_dir. rewrite (PrHandles.locked_free _ s Hl), PrHandles.bind_get.
      destruct (is_full (s_files s) (s_maxf s)); [eexists; reflexivity|].
      exists BadHandle. rewrite (bind_ok _ _ _ _ _ H1), (bind_ok _ _ _ _ _ H2). cbv zeta. apply bind_err. exact H3. }
    destruct E as (e & E). rewrite (lift_err' _ _ _ _ _ E) in Hs. injection Hs as <- <-.
    apply still_keeps, still_refl. }
  cbn [step] in Hs.
  destruct (is_full (s_files s) (s_maxf s)) eqn:Hroom.
  { assert (E : open_file_in_dir h name md s = (Err TooManyOpenFiles, s)).
    { unfold open_file_in_dir. rewrite (PrHandles.locked_free _ s Hl), PrHandles.bind_get, Hroom. reflexivity. }
    rewrite (lift_err' _ _ _ _ _ E) in Hs. injection Hs as <- <-. apply still_keeps, still_refl. }
  unfold e5_name in Hname.
  destruct (sfn_of_str name) as [sfn|] eqn:Hsfn.
  2:{ assert (E : open_file_in_dir h name md s = (Err FilenameError, s)).
      { unfold open_file_in_dir. PrModes.open_prefix Hres Hroom Hsfn. reflexivity. }
      rewrite (lift_err' _ _ _ _ _ E) in Hs. injection Hs as <- <-. apply still_keeps, still_refl. }
  apply N.eqb_neq in Hname.
  destruct (PrModes.dot_name sfn) eqn:Hdot.
  { rewrite (lift_err' _ _ _ _ _ (PrModes.C07_open_dot_name s h di dd 0%nat v name sfn md Hres Hroom Hsfn Hdot)) in Hs.
    injection Hs as <- <-. apply still_keeps, still_refl. }
  destruct (find_run _ _ _ _ _ _ _ _ (d_cluster dd) sfn Hat Hdir) as (bl' & parent & kids & s1 & Hctx & Hrun & Hro & Hrd).
  pose proof (mk_open_ctx fsz vid s vi v bl rch T h name di dd sfn bl' parent kids s1
                Hat Hfresh Hres Hvol Hroom Hsfn Hname Hdot Hctx Hrun Hro Hrd) as Hoc.
  pose proof (still_ro _ _ Hro) as Hq1.
  destruct (find (t_matches sfn) (live_in_blocks (s_disk s) bl')) as [t|] eqn:Hfind.
  - destruct (PrModes.open_refusal md (Ok (t_entry (v_fat32 v) t)) (PrModes.is_open s1 (d_vol dd) (t_entry (v_fat32 v) t)))
      as [er|] eqn:Href.
    + (* refused: read-only file opened for writing, a directory, already open, exists (ReadWriteCreate) *)
      pose proof (PrModes.C07_open_refusals s h di dd 0%nat v name sfn md _ s1 er Hres Hroom Hsfn Hdot Hrun Href) as E.
      rewrite (lift_err' _ _ _ _ _ E) in Hs. injection Hs as <- <-. exact (still_keeps fsz _ _ Hq1).
    + destruct (refusal_none_ok _ _ _ Href) as (_ & _ & Hncr).
      assert (Hcases : (md = ReadOnly \/ md = ReadWriteAppend \/ md = ReadWriteCreateOrAppend) \/
                       (md = ReadWriteTruncate \/ md = ReadWriteCreateOrTruncate))
        by (destruct md; try discriminate Hncr; auto).
      destruct Hcases as [Hmd|Hmd].
      * (* kept as it is: nothing written *)
        pose proof (PrModes.C07_open_existing_keep s h di dd 0%nat v name sfn md _ s1 Hres Hroom Hsfn Hdot Hrun Href Hmd) as E.
        rewrite (lift_ok' _ _ _ _ _ E) in Hs. injection Hs as <- <-.
        apply still_keeps. apply (still_trans _ _ _ Hq1). split; reflexivity.
      * (* truncated *)
        destruct (open_trunc_c16 _ _ _ _ _ _ _ _ _ _ _ _ _ _ _ _ _ md t Hoc Hfind Href Hmd) as (id & s5 & E & Hq).
        rewrite (lift_ok' _ _ _ _ _ E) in Hs. injection Hs as <- <-. exact Hq.
  - destruct (creating md) eqn:Hcr.
    2:{ assert (Href : PrModes.open_refusal md (Err NotFound) (PrModes.found_open s1 (d_vol dd) (Err NotFound)) = Some NotFound)
          by (cbn [PrModes.open_refusal]; rewrite Hcr; reflexivity).
        pose proof (PrModes.C07_open_refusals s h di dd 0%nat v name sfn md _ s1 NotFound Hres Hroom Hsfn Hdot Hrun Href) as E.
        rewrite (lift_err' _ _ _ _ _ E) in Hs. injection Hs as <- <-. exact (still_keeps fsz _ _ Hq1). }
    pose proof (open_create_run _ _ _ _ _ _ _ _ _ _ _ _ _ _ _ _ _ md Hoc Hfind Hcr) as E.
    pose proof (go_ro _ _ _ _ _ _ _ _ _ Hat Hro) as Hat1.
    destruct (go_facts _ _ _ _ _ _ _ _ Hat1) as (_ & _ & _ & _ & E0 & _ & _ & _ & Hwf1 & _). subst vi.
    pose proof (fi_vol _ _ _ _ _ _ _ _ Hat1) as (_ & Hpre1 & _ & Hspc & _).
    assert (Hbl1 : dir_blocks (s_disk s1) v (d_cluster dd) = Some bl') by (rewrite (proj1 Hro); exact (dx_blocks _ _ _ _ _ _ _ _ Hctx)).
    destruct (create_run fsz 0%nat v (d_cluster dd) sfn 0 CL_EMPTY s1 bl' Hpre1 Hspc Hwf1 Hbl1 (proj1 (sfn_of_str_wf _ _ Hsfn)))
      as (o & s2 & Hw & Hcres).
    rewrite Hw in E.
    destruct Hcres as [blk off sl0 s2 Hfree en Hd2 Hsw Hc2 Hnf2 Htab|s2 Hfree Hq2 _|ch s0 cn sa en s2 Hfree Hch Ebl Hq0 Hpre0 Hal Hpost].
    + (* a free slot of the directory is taken *)
      rewrite (lift_ok' _ _ _ _ _ E) in Hs. injection Hs as <- <-.
      exact (create_slot_c16 _ _ _ _ _ _ _ _ _ _ _ _ _ _ _ _ _ blk off sl0 s2 _ Hoc Hfree Hd2 Htab _ eq_refl eq_refl).
    + (* full FAT16 root directory, or no free cluster to grow the directory: NotEnoughSpace *)
      rewrite (lift_err' _ _ _ _ _ E) in Hs. injection Hs as <- <-.
      exact (still_keeps fsz _ _ (still_trans _ _ _ Hq1 (still_ro _ _ (proj1 Hq2)))).
    + (* the directory grows *)
      rewrite (lift_ok' _ _ _ _ _ E) in Hs. injection Hs as <- <-.
      exact (create_grow_c16 _ _ _ _ _ _ _ _ _ _ _ _ _ _ _ _ _ ch s0 cn sa en s2 Hoc Hch Hq0 Hpre0 Hal Hpost _ eq_refl eq_refl).
Qed.

(* ================================================================== 5. the obligation of PrC16Def, operation by operation *)
Theorem step_c16_OpenRoot fsz vid h : step_c16 fsz vid (OpenRoot h).
Proof. apply step_c16'_c16, step_c16'_OpenRoot. Qed.
Theorem step_c16_OpenDir fsz vid h name : step_c16 fsz vid (OpenDir h name).
Proof. apply step_c16'_c16, step_c16'_OpenDir. Qed.
Theorem step_c16_CloseDir fsz vid h : step_c16 fsz vid (CloseDir h).
Proof. apply step_c16'_c16, step_c16'_CloseDir. Qed.
Theorem step_c16_Find fsz vid h name : step_c16 fsz vid (Find h name).
Proof. apply step_c16'_c16, step_c16'_Find. Qed.
Theorem step_c16_Iter fsz vid d inner : step_c16 fsz vid (Iter d inner).
Proof. apply step_c16'_c16, step_c16'_Iter. Qed.
Theorem step_c16_Label fsz vid h : step_c16 fsz vid (Label h).
Proof. apply step_c16'_c16, step_c16'_Label. Qed.
Theorem step_c16_OpenFile fsz vid h name md : step_c16 fsz vid (OpenFile h name md).
Proof. apply step_c16'_c16, step_c16'_OpenFile. Qed.

(* all of them at once, with the strict hint bound *)
Definition open_group (o : op) : Prop :=
  match o with
  | OpenRoot _ | OpenDir _ _ | CloseDir _ | Find _ _ | Iter _ _ | Label _ | OpenFile _ _ _ => True
  | _ => False
  end.

Theorem step_c16'_open_group fsz vid o : open_group o -> step_c16' fsz vid o.
Proof.
  destruct o; intros H; try destruct H.
  - apply step_c16'_OpenRoot.
  - apply step_c16'_OpenDir.
  - apply step_c16'_CloseDir.
  - apply step_c16'_Find.
  - apply step_c16'_Iter.
  - apply step_c16'_OpenFile.
  - apply step_c16'_Label.
Qed.

Corollary step_c16_open_group fsz vid o : open_group o -> step_c16 fsz vid o.
Proof. intros H. apply step_c16'_c16, step_c16'_open_group, H. Qed.

(* ================================================================== 6. the hypotheses are satisfiable *)
(* PrGlobalDef's example image (FAT16, 100 clusters, clusters 2..6 in use; root: A (2 -> 3), D (4), B open with the
   pending chain 6; D: C (5)) with a TRUTHFUL record: 95 free clusters, next-free hint 7. *)
Definition gy_vol : vol := set_v_free (set_v_next_free exd_vol (Some 7)) (Some 95).
Definition gy_state : st := set_s_vols gx_state [gy_vol].

Example gy_inv : fs_inv 1 0 gy_state.
Proof.
  assert (Hb : fs_inv_b 5 1 gx_disk gy_vol [6] = true) by (vm_compute; reflexivity).
  unfold fs_inv_b in Hb. apply andb_true_iff in Hb. destruct Hb as [Hv Hd].
  destruct (vol_inv_b_sound _ _ Hv) as (Hlay & Hdev & HL & Hfit & Hspc & Hinfo).
  destruct (disk_inv_b_sound _ _ _ _ Hd) as (bl & rch & T & Er & Et & Hdi).
  vm_compute in Er. injection Er as <- <-. vm_compute in Et. injection Et as <-.
  assert (Hwf : blocks_wf gx_disk) by (apply gx_disk_wf; reflexivity).
  assert (Hpre : alloc_pre gy_state 0 gy_vol 1).
  { split; [|split; [exact HL|intros c E; injection E as <-; lia]].
    split; [intros n H; destruct H|]. split; [intros i H; discriminate H|]. split; [reflexivity|].
    intros k _. apply Hwf. }
  eexists 0%nat, gy_vol, _, _, _. constructor.
  - reflexivity.
  - reflexivity.
  - split; [reflexivity|]. split; [exact Hpre|]. split; [exact Hfit|]. split; [exact Hspc|]. split; [exact Hwf|reflexivity].
  - exact Hlay.
  - exact Hdev.
  - exact Hinfo.
  - replace (pend_of gy_state gy_vol) with [6] by (vm_compute; reflexivity). exact Hdi.
  - constructor; [|constructor].
    assert (Efc : fchain (s_disk gy_state) gy_vol gx_fileB = [6]) by (vm_compute; reflexivity).
    constructor; rewrite ?Efc.
    + reflexivity.
    + constructor; [split; vm_compute; reflexivity|split; vm_compute; reflexivity|reflexivity|vm_compute; discriminate|].
      change (~ fat_area exd_vol (e_block (f_entry gx_fileB))). apply exd_not_fat. vm_compute. discriminate.
    + eexists _, _. split; [cbn [all_nodes flat_map flatten app In]; right; right; right; left; reflexivity|].
      split; [reflexivity|]. split; [reflexivity|]. split; [reflexivity|].
      right. split; [vm_compute; reflexivity|vm_compute; discriminate].
    + split; reflexivity.
    + left. split; [vm_compute; discriminate|]. split; [exists 5%nat; vm_compute; reflexivity|].
      exists 0%nat. split; reflexivity.
    + vm_compute. discriminate.
    + vm_compute. discriminate.
    + vm_compute. reflexivity.
    + intros _. reflexivity.
  - cbn. repeat constructor; cbn; intuition discriminate.
  - cbn. repeat constructor; cbn; intuition discriminate.
  - constructor; [intros _; left; reflexivity|]. constructor; [|constructor].
    intros _. right. eexists _, _, _.
    split; [cbn [all_nodes flat_map flatten app In]; right; left; reflexivity|reflexivity].
Qed.

Lemma gy_fresh : id_fresh gy_state.
Proof.
  intros x Hx. change (PrHandles.all_ids gy_state) with [0; 5; 9; 7] in Hx. change (s_next_id gy_state) with 10.
  cbn [In] in Hx. lia.
Qed.

(* the four invariants hold of the example state, the count is known and the hint is a cluster *)
Example gy_c16 : mirror_inv 1 gy_state /\ truthful_inv gy_state /\ hint_inv gy_state /\ hint_inv' gy_state.
Proof.
  assert (Hs : hint_inv' gy_state).
  { intros w [<-|[]] c E. injection E as <-. vm_compute. split; [discriminate|reflexivity]. }
  split; [|split; [|split; [exact (hint_inv_strict_weak _ Hs)|exact Hs]]].
  - intros w [<-|[]]. apply PrCrash.mirrored_none. reflexivity.
  - intros w [<-|[]]. vm_compute. reflexivity.
Qed.

(* every OpenFile on it, whatever the handle, the name and the mode, keeps them *)
Example step_c16_OpenFile_applies : forall d name md, e5_name name = false -> forall r s',
  step (OpenFile d name md) gy_state = (r, s') ->
  mirror_inv 1 s' /\ truthful_inv s' /\ hint_inv s' /\ hint_inv' s'.
Proof.
  intros d name md Hn r s' Hs.
  destruct (step_c16'_OpenFile 1 0 d name md gy_state r s' gy_inv gy_fresh (conj (conj I I) Hn) Hs)
    as (A & B & _ & C & D).
  destruct gy_c16 as (G1 & G2 & G3 & G4). auto.
Qed.

(* three runs: the truncating open of A frees cluster 3 (count 96, hint lowered to 3); a creating open in the root
   takes a free slot (record unchanged); a read-only open changes nothing *)
Example open_file_records :
  map (fun w => (v_free w, v_next_free w)) (s_vols (snd (step (OpenFile 5 [65] ReadWriteTruncate) gy_state))) = [(Some 96, Some 3)] /\
  map (fun w => (v_free w, v_next_free w)) (s_vols (snd (step (OpenFile 5 [69] ReadWriteCreate) gy_state))) = [(Some 95, Some 7)] /\
  map (fun w => (v_free w, v_next_free w)) (s_vols (snd (step (OpenFile 5 [65] ReadOnly) gy_state))) = [(Some 95, Some 7)].
Proof. repeat split; vm_compute; reflexivity. Qed.

(* ================================================================== 7. assumptions *)
Print Assumptions step_c16_OpenRoot.
Print Assumptions step_c16_OpenDir.
Print Assumptions step_c16_CloseDir.
Print Assumptions step_c16_Find.
Print Assumptions step_c16_Iter.
Print Assumptions step_c16_Label.
Print Assumptions step_c16_OpenFile.
Print Assumptions step_c16'_open_group.
Print Assumptions step_c16_open_group.
Print Assumptions step_c16_OpenFile_applies.
Print Assumptions open_file_records.
