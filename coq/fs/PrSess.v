(* PROOFS for the SESSION invariant (OpenVol / CloseVol / drop of a Volume inside the histories), part 1:
   how the table of open directories evolves under every operation.
     1  fxd: the functions that never touch the directory table (family over the whole model)
     2  dq : the functions that push or remove directory records; what a pushed record looks like
     3  xstep_dirs: every record in the table after an extended call was there before, or is a ROOT handle,
        or belongs to a mounted volume
   Needed because open_root_dir does not look the volume up (stale root handles exist) and fs_inv
   constrains only the directory records of the mounted volume. *)
From Coq Require Import NArith ZArith List Bool Lia Arith FMapPositive.
From SdFs Require Import FsTypes FsBase FsFat FsMgr FsExt FsLemmas PrBase.
From SdFs Require Import PrHandles.
From SdFs Require PrGlobalDef PrGlobalOpen.
From SdFs Require Import PrExt PrExt2 PrExt3.
Import ListNotations.
Open Scope N_scope.

(* ================================================================== 1. the directory table is untouched *)
Definition fxd {A} (m : M A) : Prop := forall s o s', m s = (o, s') -> s_dirs s' = s_dirs s.

Lemma fx_here {A} (r : outcome A) : fxd (fun s => (r, s)).
Proof. intros s o s' E. inversion E; subst. reflexivity. Qed.
Lemma fx_ret {A} (a : A) : fxd (ret a). Proof. apply fx_here. Qed.
Lemma fx_fail {A} e : fxd (@fail A e). Proof. apply fx_here. Qed.
Lemma fx_panic {A} : fxd (@panic A). Proof. apply fx_here. Qed.
Lemma fx_oof {A} : fxd (@out_of_fuel A). Proof. apply fx_here. Qed.
Lemma fx_get : fxd get. Proof. intros s o s' E. inversion E; subst. reflexivity. Qed.
Lemma fx_bind {A B} (m : M A) (k : A -> M B) : fxd m -> (forall a, fxd (k a)) -> fxd (bind m k).
Proof.
  intros Hm Hk s o s' E. unfold bind in E.
  destruct (m s) as [[a|e| |] s1] eqn:Em; pose proof (Hm _ _ _ Em) as H1.
  - rewrite (Hk a _ _ _ E). exact H1.
  - inversion E; subst; exact H1.
  - inversion E; subst; exact H1.
  - inversion E; subst; exact H1.
Qed.
Lemma fx_try {A} (m : M A) : fxd m -> fxd (try m).
Proof.
  intros Hm s o s' E. unfold try in E.
  destruct (m s) as [[a|e| |] s1] eqn:Em; pose proof (Hm _ _ _ Em) as H1; inversion E; subst; exact H1.
Qed.
Lemma fx_modify g : (forall s, s_dirs (g s) = s_dirs s) -> fxd (modify g).
Proof. intros H s o s' E. inversion E; subst. apply H. Qed.
Lemma fx_dev_read i : fxd (dev_read i).
Proof. intros s o s' E. unfold dev_read in E. destruct (faulty s); inversion E; subst; reflexivity. Qed.
Lemma fx_dev_write i b : fxd (dev_write i b).
Proof. intros s o s' E. unfold dev_write in E. destruct (faulty s); inversion E; subst; reflexivity. Qed.

Create HintDb fxd.
#[export] Hint Resolve fx_ret fx_fail fx_panic fx_oof fx_get fx_dev_read fx_dev_write : fxd.

Lemma fx_locked {A} (m : M A) : fxd m -> fxd (locked m).
Proof.
  intros H. unfold locked. apply fx_bind; [apply fx_get|]. intros s1. destruct (s_lock s1); [apply fx_fail|exact H].
Qed.

Ltac fx_step :=
  match goal with
  | |- fxd (bind _ _) => apply fx_bind; [|intros ?]
  | |- fxd (locked _) => apply fx_locked
  | |- fxd (try _) => apply fx_try
  | |- fxd (modify _) => apply fx_modify; intros ?; reflexivity
  | |- fxd (if ?b then _ else _) => destruct b
  | |- fxd (match ?x with _ => _ end) => destruct x
  | |- fxd (let _ := _ in _) => cbv zeta
  | |- fxd _ => solve [auto 3 with fxd]
  end.
Ltac fx_go := repeat fx_step.

Lemma fx_get_vol vi : fxd (get_vol vi). Proof. unfold get_vol. fx_go. Qed.
Lemma fx_put_vol vi v : fxd (put_vol vi v). Proof. unfold put_vol. fx_go. Qed.
Lemma fx_get_file i : fxd (get_file i). Proof. unfold get_file. fx_go. Qed.
Lemma fx_put_file i f : fxd (put_file i f). Proof. unfold put_file. fx_go. Qed.
Lemma fx_get_dir i : fxd (get_dir i). Proof. unfold get_dir. fx_go. Qed.
Lemma fx_get_volume_by_id h : fxd (get_volume_by_id h). Proof. unfold get_volume_by_id. fx_go. Qed.
Lemma fx_get_dir_by_id h : fxd (get_dir_by_id h). Proof. unfold get_dir_by_id. fx_go. Qed.
Lemma fx_get_file_by_id h : fxd (get_file_by_id h). Proof. unfold get_file_by_id. fx_go. Qed.
Lemma fx_generate : fxd generate. Proof. unfold generate. fx_go. Qed.
Lemma fx_push_file f : fxd (push_file f). Proof. unfold push_file. fx_go. Qed.
#[export] Hint Resolve fx_get_vol fx_put_vol fx_get_file fx_put_file fx_get_dir fx_get_volume_by_id fx_get_dir_by_id
  fx_get_file_by_id fx_generate fx_push_file : fxd.

Lemma fx_add32 a b : fxd (add32 a b). Proof. unfold add32. fx_go. Qed.
Lemma fx_sub32 a b : fxd (sub32 a b). Proof. unfold sub32. fx_go. Qed.
Lemma fx_mul32 a b : fxd (mul32 a b). Proof. unfold mul32. fx_go. Qed.
#[export] Hint Resolve fx_add32 fx_sub32 fx_mul32 : fxd.

Lemma fx_cache_read i : fxd (cache_read i). Proof. unfold cache_read. fx_go. Qed.
Lemma fx_cache_modify f : fxd (cache_modify f). Proof. unfold cache_modify. fx_go. Qed.
Lemma fx_write_back : fxd write_back. Proof. unfold write_back. fx_go. Qed.
Lemma fx_write_back_dup d : fxd (write_back_with_duplicate d).
Proof. unfold write_back_with_duplicate. fx_go. Qed.
Lemma fx_blank_mut i : fxd (blank_mut i). Proof. unfold blank_mut. fx_go. Qed.
#[export] Hint Resolve fx_cache_read fx_cache_modify fx_write_back fx_write_back_dup fx_blank_mut : fxd.

Lemma fx_for_blocks_from {R} (body : N -> M (option R)) :
  (forall i, fxd (body i)) -> forall n i, fxd (for_blocks_from n i body).
Proof.
  intros Hb. induction n as [|n IH]; intros i; cbn [for_blocks_from]; [apply fx_ret|].
  apply fx_bind; [apply Hb|]. intros [x|]; [apply fx_ret | apply IH].
Qed.
Lemma fx_for_blocks {R} (body : N -> M (option R)) first size :
  (forall i, fxd (body i)) -> fxd (for_blocks first size body).
Proof.
  intros Hb. unfold for_blocks. apply fx_bind; [apply fx_add32|].
  intros _. apply fx_for_blocks_from. exact Hb.
Qed.
#[export] Hint Resolve fx_for_blocks_from fx_for_blocks : fxd.

(* ---- FsFat.v ---- *)
Lemma fx_ts_to_fat t : fxd (ts_to_fat t). Proof. unfold ts_to_fat. fx_go. Qed.
Lemma fx_get_timestamp : fxd get_timestamp. Proof. unfold get_timestamp. fx_go. Qed.
#[export] Hint Resolve fx_ts_to_fat fx_get_timestamp : fxd.
Lemma fx_serialize b e : fxd (serialize b e). Proof. unfold serialize. fx_go. Qed.
Lemma fx_fat_block v a b : fxd (fat_block v a b). Proof. unfold fat_block. fx_go. Qed.
Lemma fx_cluster_to_block v c : fxd (cluster_to_block v c).
Proof. unfold cluster_to_block. fx_go. Qed.
#[export] Hint Resolve fx_serialize fx_fat_block fx_cluster_to_block : fxd.
Lemma fx_update_fat vi c n : fxd (update_fat vi c n). Proof. unfold update_fat. fx_go. Qed.
Lemma fx_next_cluster v c : fxd (next_cluster v c). Proof. unfold next_cluster. fx_go. Qed.
#[export] Hint Resolve fx_update_fat fx_next_cluster : fxd.
Lemma fx_find_next_free_loop v endc : forall fuel cur, fxd (find_next_free_loop fuel v cur endc).
Proof. induction fuel as [|fuel IH]; intros cur; cbn [find_next_free_loop]; fx_go. Qed.
Lemma fx_find_next_free_cluster v a b : fxd (find_next_free_cluster v a b).
Proof. unfold find_next_free_cluster. apply fx_find_next_free_loop. Qed.
#[export] Hint Resolve fx_find_next_free_cluster : fxd.
Lemma fx_zero_cluster v c : fxd (zero_cluster v c).
Proof. unfold zero_cluster. fx_go. apply fx_for_blocks. intros i. fx_go. Qed.
#[export] Hint Resolve fx_zero_cluster : fxd.
Lemma fx_alloc_cluster vi p z : fxd (alloc_cluster vi p z).
Proof. unfold alloc_cluster. fx_go. Qed.
Lemma fx_bump_free vi : fxd (bump_free vi). Proof. unfold bump_free. fx_go. Qed.
#[export] Hint Resolve fx_alloc_cluster fx_bump_free : fxd.
Lemma fx_truncate_loop vi : forall fuel next, fxd (truncate_loop fuel vi next).
Proof. induction fuel as [|fuel IH]; intros next; cbn [truncate_loop]; fx_go. Qed.
#[export] Hint Resolve fx_truncate_loop : fxd.
Lemma fx_truncate_cluster_chain vi c : fxd (truncate_cluster_chain vi c).
Proof. unfold truncate_cluster_chain. fx_go. Qed.
#[export] Hint Resolve fx_truncate_cluster_chain : fxd.
Lemma fx_free_cluster_chain vi c : fxd (free_cluster_chain vi c).
Proof. unfold free_cluster_chain. fx_go. Qed.
Lemma fx_write_entry_to_disk v e : fxd (write_entry_to_disk v e).
Proof. unfold write_entry_to_disk. fx_go. Qed.
Lemma fx_update_info_sector vi : fxd (update_info_sector vi).
Proof. unfold update_info_sector. fx_go. Qed.
#[export] Hint Resolve fx_free_cluster_chain fx_write_entry_to_disk fx_update_info_sector : fxd.

Lemma fx_walk_dir {R} vi grow (body : N -> M (option R)) :
  (forall blk, fxd (body blk)) -> forall fuel cluster, fxd (walk_dir fuel vi cluster grow body).
Proof.
  intros Hb. induction fuel as [|fuel IH]; intros cluster; cbn [walk_dir]; fx_go.
Qed.

Lemma fx_find_directory_entry vi c name : fxd (find_directory_entry vi c name).
Proof. unfold find_directory_entry. fx_go. apply fx_walk_dir. intros blk. fx_go. Qed.
Lemma fx_iter_blocks fat32 : forall n i acc, fxd (iter_blocks n fat32 i acc).
Proof. induction n as [|n IH]; intros i acc; cbn [iter_blocks]; fx_go. Qed.
#[export] Hint Resolve fx_find_directory_entry fx_iter_blocks : fxd.
Lemma fx_iter_walk vi : forall fuel c acc, fxd (iter_walk fuel vi c acc).
Proof. induction fuel as [|fuel IH]; intros c acc; cbn [iter_walk]; fx_go. Qed.
#[export] Hint Resolve fx_iter_walk : fxd.
Lemma fx_iterate_dir_all vi c : fxd (iterate_dir_all vi c).
Proof. unfold iterate_dir_all. fx_go. Qed.
Lemma fx_delete_directory_entry vi c name : fxd (delete_directory_entry vi c name).
Proof. unfold delete_directory_entry. fx_go. apply fx_walk_dir. intros blk. fx_go. Qed.
Lemma fx_write_new_directory_entry vi c name a fc : fxd (write_new_directory_entry vi c name a fc).
Proof. unfold write_new_directory_entry. fx_go. apply fx_walk_dir. intros blk. fx_go. Qed.
#[export] Hint Resolve fx_iterate_dir_all fx_delete_directory_entry fx_write_new_directory_entry : fxd.
Lemma fx_make_dir vi p sfn att : fxd (make_dir vi p sfn att).
Proof. unfold make_dir. fx_go. apply fx_for_blocks_from. intros i. fx_go. Qed.
#[export] Hint Resolve fx_make_dir : fxd.

(* ---- FsMgr.v: everything that neither opens nor closes ---- *)
Lemma fx_file_is_open v e : fxd (file_is_open v e). Proof. unfold file_is_open. fx_go. Qed.
Lemma fx_bpb_create b : fxd (bpb_create b). Proof. unfold bpb_create. fx_go. Qed.
#[export] Hint Resolve fx_file_is_open fx_bpb_create : fxd.
Lemma fx_parse_volume a b c d : fxd (parse_volume a b c d). Proof. unfold parse_volume. fx_go. Qed.
#[export] Hint Resolve fx_parse_volume : fxd.
Lemma fx_mgr_find d name : fxd (mgr_find d name). Proof. unfold mgr_find. fx_go. Qed.
Lemma fx_delete_file_in_dir d name : fxd (delete_file_in_dir d name).
Proof. unfold delete_file_in_dir. fx_go. Qed.
Lemma fx_make_dir_in_dir d name : fxd (make_dir_in_dir d name).
Proof. unfold make_dir_in_dir. fx_go. Qed.
Lemma fx_fdod_walk v : forall n so sc, fxd (fdod_walk n v so sc).
Proof. induction n as [|n IH]; intros so sc; cbn [fdod_walk]; fx_go. Qed.
#[export] Hint Resolve fx_fdod_walk : fxd.
Lemma fx_find_data_on_disk vi st fs d : fxd (find_data_on_disk vi st fs d).
Proof. unfold find_data_on_disk. fx_go. Qed.
#[export] Hint Resolve fx_find_data_on_disk : fxd.
Lemma fx_f_left f : fxd (f_left f). Proof. unfold f_left. fx_go. Qed.
#[export] Hint Resolve fx_f_left : fxd.
Lemma fx_read_loop fi vi : forall fuel space acc, fxd (read_loop fuel fi vi space acc).
Proof. induction fuel as [|fuel IH]; intros space acc; cbn [read_loop]; fx_go. Qed.
#[export] Hint Resolve fx_read_loop : fxd.
Lemma fx_mgr_read f n : fxd (mgr_read f n). Proof. unfold mgr_read. fx_go. Qed.
Lemma fx_write_loop fi vi : forall fuel data, fxd (write_loop fuel fi vi data).
Proof. induction fuel as [|fuel IH]; intros data; cbn [write_loop]; fx_go. Qed.
#[export] Hint Resolve fx_write_loop : fxd.
Lemma fx_mgr_write f data : fxd (mgr_write f data). Proof. unfold mgr_write. fx_go. Qed.
Lemma fx_flush_file f : fxd (flush_file f). Proof. unfold flush_file. fx_go. Qed.
Lemma fx_has_open_handles : fxd has_open_handles. Proof. unfold has_open_handles. fx_go. Qed.
Lemma fx_file_eof f : fxd (file_eof f). Proof. unfold file_eof, with_file. fx_go. Qed.
Lemma fx_file_length f : fxd (file_length f). Proof. unfold file_length, with_file. fx_go. Qed.
Lemma fx_file_offset f : fxd (file_offset f). Proof. unfold file_offset, with_file. fx_go. Qed.
Lemma fx_seek_start f x : fxd (file_seek_from_start f x).
Proof. unfold file_seek_from_start, with_file. fx_go. Qed.
Lemma fx_seek_end f x : fxd (file_seek_from_end f x).
Proof. unfold file_seek_from_end, with_file. fx_go. Qed.
Lemma fx_seek_cur f x : fxd (file_seek_from_current f x).
Proof. unfold file_seek_from_current, with_file. fx_go. Qed.
#[export] Hint Resolve fx_mgr_find fx_delete_file_in_dir fx_make_dir_in_dir fx_mgr_read fx_mgr_write
  fx_flush_file fx_has_open_handles fx_file_eof fx_file_length fx_file_offset fx_seek_start
  fx_seek_end fx_seek_cur : fxd.
Lemma fx_io_seek f w x : fxd (io_seek f w x). Proof. unfold io_seek. fx_go. Qed.
Lemma fx_io_read f n : fxd (io_read f n). Proof. unfold io_read. fx_go. Qed.
Lemma fx_io_write f d : fxd (io_write f d). Proof. unfold io_write. fx_go. Qed.
#[export] Hint Resolve fx_io_seek fx_io_read fx_io_write : fxd.

(* the listing part of iterate_dir keeps the shape, so the lock is still free after it:
   the state after an iteration whose callback made a refused call is exactly the state
   after the listing *)
Lemma fx_iter_listing d : fxd (iter_listing d). Proof. unfold iter_listing. fx_go. Qed.

(* ---- the rest of FsMgr.v and FsExt.v ---- *)
Lemma fx_open_raw_volume idx : fxd (open_raw_volume idx).
Proof. unfold open_raw_volume. apply fx_locked. fx_go. Qed.
Lemma fx_close_volume v : fxd (close_volume v).
Proof. unfold close_volume. apply fx_locked. fx_go. Qed.
Lemma fx_open_file_in_dir d name md : fxd (open_file_in_dir d name md).
Proof. unfold open_file_in_dir. apply fx_locked. fx_go. Qed.
Lemma fx_close_file f : fxd (close_file f).
Proof. unfold close_file. fx_go. Qed.
Lemma fx_mgr_iterate {R} d (inner : M R) : fxd inner -> fxd (mgr_iterate d inner).
Proof. intros H. unfold mgr_iterate. apply fx_locked. fx_go. Qed.
Lemma fx_iter_blocks_raw fat32 : forall n i acc, fxd (iter_blocks_raw n fat32 i acc).
Proof. induction n as [|n IH]; intros i acc; cbn [iter_blocks_raw]; fx_go. Qed.
#[export] Hint Resolve fx_iter_blocks_raw : fxd.
Lemma fx_iter_walk_raw vi : forall fuel c acc, fxd (iter_walk_raw fuel vi c acc).
Proof. induction fuel as [|fuel IH]; intros c acc; cbn [iter_walk_raw]; fx_go. Qed.
#[export] Hint Resolve fx_iter_walk_raw : fxd.
Lemma fx_iterate_dir_raw vi c : fxd (iterate_dir_raw vi c).
Proof. unfold iterate_dir_raw. fx_go. Qed.
#[export] Hint Resolve fx_iterate_dir_raw fx_close_file fx_close_volume fx_open_raw_volume fx_open_file_in_dir : fxd.
Lemma fx_mgr_iterate_lfn d n : fxd (mgr_iterate_lfn d n).
Proof. unfold mgr_iterate_lfn. apply fx_locked. fx_go. Qed.
Lemma fx_expect {A} (m : M A) : fxd m -> fxd (expect m).
Proof. intros H. unfold expect. fx_go. Qed.
Lemma fx_lift {A} (f : A -> res) (m : M A) : fxd m -> fxd (lift f m).
Proof. intros H. unfold lift. fx_go. Qed.
Lemma fx_xlift {A} (f : A -> xres) (m : M A) : fxd m -> fxd (xlift f m).
Proof. intros H. unfold xlift. fx_go. Qed.

(* ================================================================== 2. the functions that push or remove directory records *)
(* every mounted volume has the handle vid *)
Definition vids_ok (vid : N) (s : st) : Prop := forall x, In x (vids s) -> x = vid.
(* every directory record of s' was in the table of s, or is a root handle, or is on volume vid *)
Definition dirs_step (vid : N) (s s' : st) : Prop :=
  forall dd, In dd (s_dirs s') -> In dd (s_dirs s) \/ d_cluster dd = CL_ROOT \/ d_vol dd = vid.
Definition dq (vid : N) {A} (m : M A) : Prop :=
  forall s o s', m s = (o, s') -> vids_ok vid s -> vids_ok vid s' /\ dirs_step vid s s'.

Lemma dirs_step_eq vid s s' : s_dirs s' = s_dirs s -> dirs_step vid s s'.
Proof. intros E dd H. left. rewrite <- E. exact H. Qed.
Lemma dirs_step_refl vid s : dirs_step vid s s.
Proof. apply dirs_step_eq. reflexivity. Qed.
Lemma dirs_step_trans vid a b c : dirs_step vid a b -> dirs_step vid b c -> dirs_step vid a c.
Proof. intros H1 H2 dd H. destruct (H2 dd H) as [X|X]; [exact (H1 dd X)|right; exact X]. Qed.
Lemma vids_ok_incl vid s s' : incl (vids s') (vids s) -> vids_ok vid s -> vids_ok vid s'.
Proof. intros Hi H x Hx. exact (H x (Hi x Hx)). Qed.

Lemma dq_of_fx vid {A} (m : M A) : fxd m ->
  (forall s o s', m s = (o, s') -> incl (vids s') (vids s)) -> dq vid m.
Proof.
  intros Hf Hi s o s' E Hv. split; [exact (vids_ok_incl vid s s' (Hi _ _ _ E) Hv)|].
  apply dirs_step_eq. exact (Hf _ _ _ E).
Qed.
Lemma dq_keeps vid {A} (m : M A) : fxd m -> (forall s0, keeps s0 m) -> dq vid m.
Proof.
  intros Hf Hk. apply dq_of_fx; [exact Hf|]. intros s o s' E.
  destruct (keeps_frame m Hk s o s' E) as (V & _). rewrite V. apply incl_refl.
Qed.
Lemma dq_bind vid {A B} (m : M A) (k : A -> M B) : dq vid m -> (forall a, dq vid (k a)) -> dq vid (bind m k).
Proof.
  intros Hm Hk s o s' E Hv. unfold bind in E.
  destruct (m s) as [[a|e| |] s1] eqn:Em; destruct (Hm _ _ _ Em Hv) as (V1 & D1).
  - destruct (Hk a _ _ _ E V1) as (V2 & D2). split; [exact V2|exact (dirs_step_trans vid _ _ _ D1 D2)].
  - inversion E; subst. split; assumption.
  - inversion E; subst. split; assumption.
  - inversion E; subst. split; assumption.
Qed.
Lemma dq_try vid {A} (m : M A) : dq vid m -> dq vid (try m).
Proof.
  intros Hm s o s' E Hv. unfold try in E.
  destruct (m s) as [[a|e| |] s1] eqn:Em; destruct (Hm _ _ _ Em Hv) as (V1 & D1); inversion E; subst; split; assumption.
Qed.
Lemma dq_bind_get_vol vid {B} vi (k : vol -> M B) :
  (forall v, v_id v = vid -> dq vid (k v)) -> dq vid (bind (get_vol vi) k).
Proof.
  intros Hk s o s' E Hv. unfold bind in E. rewrite get_vol_eq in E.
  destruct (nth_error (s_vols s) vi) as [v|] eqn:En.
  - refine (Hk v _ _ _ _ E Hv). apply Hv. unfold vids. apply in_map. exact (nth_error_In _ _ En).
  - inversion E; subst. split; [exact Hv|apply dirs_step_refl].
Qed.
Lemma dq_generate vid : dq vid generate.
Proof.
  intros s o s' E Hv. unfold generate, bind, get, modify, ret in E. inversion E; subst.
  split; [exact Hv|apply dirs_step_eq; reflexivity].
Qed.
(* a pushed record: on the mounted volume, or a root handle *)
Lemma dq_push vid id x c : x = vid \/ c = CL_ROOT -> dq vid (push_dir (mk_dirinfo id x c)).
Proof.
  intros Hx s o s' E Hv. unfold push_dir in E. rewrite bind_get in E.
  destruct (is_full (s_dirs s) (s_maxd s)); inversion E; subst; (split; [exact Hv|]); [apply dirs_step_refl|].
  intros dd Hd. cbn [s_dirs set_s_dirs] in Hd. apply in_app_or in Hd. destruct Hd as [Hd|[<-|[]]]; [left; exact Hd|].
  right. cbn [d_cluster d_vol]. destruct Hx; [right|left]; assumption.
Qed.
Lemma dq_close_dir vid d : dq vid (close_dir d).
Proof.
  intros s o s' E Hv. unfold close_dir in E. destruct (s_lock s) eqn:Hl.
  { rewrite (locked_held _ s Hl) in E. inversion E; subst. split; [exact Hv|apply dirs_step_refl]. }
  rewrite (locked_free _ s Hl) in E. unfold bind in E. rewrite get_dir_by_id_eq in E.
  destruct (find_idx _ _ _) as [i|]; inversion E; subst; (split; [exact Hv|]); [|apply dirs_step_refl].
  intros dd Hd. left. cbn [s_dirs set_s_dirs] in Hd. exact (swap_remove_subset _ _ _ Hd).
Qed.

Ltac dq_plain := apply dq_keeps; [solve [auto 3 with fxd]|intros ?; solve [auto 3 with keeps]].
Ltac dq_step :=
  match goal with
  | |- dq _ (bind (get_vol _) _) => apply dq_bind_get_vol; intros ? ?
  | |- dq _ (bind generate _) => apply dq_bind; [apply dq_generate|intros ?]
  | |- dq _ (bind _ _) => apply dq_bind; [|intros ?]
  | |- dq _ (try _) => apply dq_try
  | |- dq _ (push_dir (mk_dirinfo _ _ _)) => apply dq_push; auto
  | |- dq _ (close_dir _) => apply dq_close_dir
  | |- dq _ (if ?b then _ else _) => destruct b
  | |- dq _ (match ?x with _ => _ end) => destruct x
  | |- dq _ (let _ := _ in _) => cbv zeta
  | |- dq _ _ => dq_plain
  end.
Ltac dq_go := repeat dq_step.

Lemma dq_open_root_dir vid v : dq vid (open_root_dir v).
Proof. unfold open_root_dir, locked. dq_go. Qed.
Lemma dq_open_dir vid d name : dq vid (open_dir d name).
Proof. unfold open_dir, locked. dq_go. Qed.
Lemma dq_mgr_iterate_plain vid d : dq vid (mgr_iterate d (ret tt)).
Proof.
  apply dq_of_fx; [apply fx_mgr_iterate, fx_ret|]. intros s o s' E.
  destruct (mgr_iterate_ret_shrunk d s o s' E) as (_ & _ & _ & _ & _ & V & _). exact V.
Qed.
Lemma dq_label vid v : dq vid (get_root_volume_label v).
Proof.
  unfold get_root_volume_label, locked. pose proof (dq_open_root_dir vid) as H1. pose proof (dq_mgr_iterate_plain vid) as H2.
  repeat first [ apply H1 | apply H2 | dq_step ].
Qed.
Lemma dq_change_dir vid d name : dq vid (change_dir d name).
Proof. unfold change_dir. pose proof (dq_open_dir vid d name) as H1. repeat first [ apply H1 | dq_step ]. Qed.
Lemma dq_drop_dir vid d : dq vid (drop_dir d).
Proof. unfold drop_dir. dq_go. Qed.
Lemma dq_lift vid {A} (f : A -> res) (m : M A) : dq vid m -> dq vid (lift f m).
Proof. intros H. unfold lift. apply dq_bind; [exact H|]. intros a. dq_plain. Qed.
Lemma dq_xlift vid {A} (f : A -> xres) (m : M A) : dq vid m -> dq vid (xlift f m).
Proof. intros H. unfold xlift. apply dq_bind; [exact H|]. intros a. dq_plain. Qed.

(* ================================================================== 3. every operation *)
Lemma no_remount_top o : PrGlobalDef.no_remount o -> forall id, o <> Remount id.
Proof. intros H id ->. exact H. Qed.

Theorem step_dirs vid : forall o s r s', s_lock s = false -> vids_ok vid s -> PrGlobalDef.no_remount o ->
  step o s = (r, s') -> dirs_step vid s s'.
Proof.
  intros o s r s' Hl Hv Hn E.
  destruct o; cbn [step] in E;
    try (apply dirs_step_eq; revert E; apply fx_lift; solve [auto 3 with fxd]).
  - exact (proj2 (dq_lift vid _ _ (dq_open_root_dir vid v) _ _ _ E Hv)).
  - exact (proj2 (dq_lift vid _ _ (dq_open_dir vid d name) _ _ _ E Hv)).
  - exact (proj2 (dq_lift vid _ _ (dq_close_dir vid d) _ _ _ E Hv)).
  - (* Iter: the listing leaves the table alone, the callback runs under the lock *)
    apply dirs_step_eq. apply (f_equal snd) in E. cbn [snd] in E. subst s'. rewrite bind_ret_state.
    set (im := match inner with Some o' => step o' | None => ret RUnit end).
    rewrite (proj1 (C08_iterate_holds_lock _ d im s Hl)).
    destruct (iter_listing d s) as [o1 s1] eqn:E1. pose proof (fx_iter_listing d s o1 s1 E1) as D1.
    destruct o1 as [[|e0 sh]|e| |]; cbn [iterate_outcome snd]; try exact D1.
    assert (Es : snd (im (set_s_lock s1 true)) = set_s_lock s1 true).
    { subst im. destruct inner as [o'|]; [|reflexivity].
      apply C08_reentrant_no_effect; [reflexivity|]. apply no_remount_top. exact Hn. }
    destruct (im (set_s_lock s1 true)) as [[a|e| |] s2]; cbn [snd] in *; subst s2; exact D1.
  - exact (proj2 (dq_lift vid _ _ (dq_label vid v) _ _ _ E Hv)).
  - destruct Hn.
Qed.

Definition xno_remount (o : xop) : Prop := match o with XOp o' => PrGlobalDef.no_remount o' | _ => True end.

Theorem xstep_dirs vid : forall o s r s', s_lock s = false -> vids_ok vid s -> xno_remount o ->
  xstep o s = (r, s') -> dirs_step vid s s'.
Proof.
  intros o s r s' Hl Hv Hn E. destruct o as [o|d n|f|d|v|d name|f|f|f]; cbn [xstep xno_remount] in *.
  - unfold xlift, bind in E. destruct (step o s) as [r1 s1] eqn:E1.
    pose proof (step_dirs vid o s r1 s1 Hl Hv Hn E1) as D. destruct r1; inversion E; subst; exact D.
  - apply dirs_step_eq. revert E. apply fx_xlift, fx_mgr_iterate_lfn.
  - apply dirs_step_eq. revert E. apply fx_xlift. unfold drop_file. fx_go.
  - exact (proj2 (dq_xlift vid _ _ (dq_drop_dir vid d) _ _ _ E Hv)).
  - apply dirs_step_eq. revert E. apply fx_xlift. unfold drop_volume. fx_go.
  - exact (proj2 (dq_xlift vid _ _ (dq_change_dir vid d name) _ _ _ E Hv)).
  - apply dirs_step_eq. revert E. apply fx_xlift, fx_expect. auto with fxd.
  - apply dirs_step_eq. revert E. apply fx_xlift, fx_expect. auto with fxd.
  - apply dirs_step_eq. revert E. apply fx_xlift, fx_expect. auto with fxd.
Qed.

Print Assumptions step_dirs.
Print Assumptions xstep_dirs.
