(* PROOFS (helper of PrGlobalMkdir.v): ONE directory, seen as the list of its 32-byte slots, when a new
   directory entry is written into its first free slot (S1, S3), when it grows by a cluster (S2, S4),
   and the freshly written cluster of a new sub-directory (S5); the new slot decoded (S6); a name the
   lookup did not find is fresh (S7).  All of them re-establish PrGlobalDef.dir_ok. *)
From Coq Require Import NArith ZArith List Bool Lia Arith ZifyClasses ZifyInst Zify FMapPositive Permutation.
From SdFs Require Import FsTypes FsBase FsFat FsMgr FsLemmas PrBase PrFat PrAlloc PrDir PrSeek PrAllocEffect
  PrRw PrWrite PrFileSeq PrMulti PrEntry PrChain PrCount PrWf PrOpenClose PrGlobalDef.
From SdFs Require PrModes.
Import ListNotations.
Open Scope N_scope.
Local Arguments N.mul : simpl never.
Local Arguments N.add : simpl never.
Local Arguments N.sub : simpl never.
Local Arguments N.div : simpl never.
Local Arguments N.modulo : simpl never.
Local Arguments N.land : simpl never.
Local Arguments N.lor : simpl never.
Local Arguments N.min : simpl never.
Local Arguments N.max : simpl never.
Local Ltac Zify.zify_post_hook ::= Z.to_euclidean_division_equations.

(* ================================================================== 0. lists of slots *)
(* S0 *)
Lemma find_nv_none l : find nv l = None -> Forall (fun t => t_is_valid t = true) l.
Proof.
  intros H. apply Forall_forall. intros t Ht.
  pose proof (find_none nv l H t Ht) as E. unfold nv in E.
  destruct (t_is_valid t); [reflexivity|discriminate E].
Qed.

Lemma find_split {A} (p : A -> bool) : forall l x, find p l = Some x ->
  exists l1 l2, l = l1 ++ x :: l2 /\ Forall (fun y => p y = false) l1 /\ p x = true.
Proof.
  induction l as [|a l IH]; intros x H; [discriminate H|]. cbn [find] in H.
  destruct (p a) eqn:Ea.
  - injection H as ->. exists [], l. split; [reflexivity|]. split; [constructor|exact Ea].
  - destruct (IH x H) as (l1 & l2 & -> & F & Px). exists (a :: l1), l2.
    split; [reflexivity|]. split; [constructor; assumption|exact Px].
Qed.

Lemma valid_not_end t : t_is_valid t = true -> t_is_end t = false.
Proof.
  unfold t_is_valid, t_is_end, is_valid. intros H. apply andb_true_iff in H. destruct H as [H _].
  destruct (is_end (snd t)); [discriminate H|reflexivity].
Qed.

Lemma end_not_valid t : t_is_end t = true -> t_is_valid t = false.
Proof. intros H. destruct (t_is_valid t) eqn:E; [|reflexivity]. rewrite (valid_not_end t E) in H. discriminate H. Qed.

Lemma valid_no_end l : Forall (fun t => t_is_valid t = true) l -> existsb t_is_end l = false.
Proof.
  induction 1 as [|t l Ht _ IH]; [reflexivity|]. cbn [existsb]. rewrite (valid_not_end t Ht), IH. reflexivity.
Qed.

Lemma after_end_Forall (P : tslot -> Prop) l : Forall P l -> Forall P (after_end l).
Proof.
  induction 1 as [|t l Ht Hl IH]; [constructor|]. cbn [after_end].
  destruct (t_is_end t); [constructor; assumption|exact IH].
Qed.

Lemma short_valid t : short_slot t = true -> t_is_valid t = true.
Proof. unfold short_slot. intros H. apply andb_true_iff in H. exact (proj1 H). Qed.

Lemma node_short t : node_slot t = true -> short_slot t = true.
Proof. unfold node_slot. intros H. apply andb_true_iff in H. exact (proj1 H). Qed.

Lemma node_not_dot t : node_slot t = true -> dot_slot t = false.
Proof.
  unfold node_slot. intros H. apply andb_true_iff in H. destruct H as [_ H].
  destruct (dot_slot t); [discriminate H|reflexivity].
Qed.

Lemma filter_nil_all {A} (p : A -> bool) l : Forall (fun y => p y = false) l -> filter p l = [].
Proof. induction 1 as [|a l Ha _ IH]; [reflexivity|]. cbn [filter]. rewrite Ha. exact IH. Qed.

Lemma NoDup_insert {A} (a b : list A) x : NoDup (a ++ b) -> ~ In x (a ++ b) -> NoDup (a ++ x :: b).
Proof.
  intros H Hx. apply (Permutation_NoDup (Permutation_middle a b x)). constructor; assumption.
Qed.

(* ================================================================== 1. the core: one slot more among the live slots *)
(* live = l1 ++ X ++ r where X is the overwritten slot if that one was live (a deleted slot), and
   X = [] = r when the overwritten slot was the end marker (or the directory has grown) *)
Section Core.
Variable fat32 : bool.
Variables own parent : N.
Variables l1 X r : list tslot.
Variable new : tslot.
Hypothesis HX : Forall (fun t => t_is_valid t = false) X.
Hypothesis HXr : X = [] -> r = [].
Hypothesis Hnew : node_slot new = true.

Let live := l1 ++ X ++ r.
Let live' := l1 ++ new :: r.

Lemma core_X_short : filter short_slot X = [].
Proof.
  apply filter_nil_all. revert HX. apply Forall_impl. intros t Ht. unfold short_slot. rewrite Ht. reflexivity.
Qed.
Lemma core_X_node : filter node_slot X = [].
Proof.
  apply filter_nil_all. revert HX. apply Forall_impl. intros t Ht. unfold node_slot, short_slot. rewrite Ht. reflexivity.
Qed.

Lemma core_shorts : filter short_slot live = filter short_slot l1 ++ filter short_slot r.
Proof. unfold live. rewrite !filter_app, core_X_short. reflexivity. Qed.
Lemma core_shorts' : filter short_slot live' = filter short_slot l1 ++ new :: filter short_slot r.
Proof. unfold live'. rewrite filter_app. cbn [filter]. rewrite (node_short new Hnew). reflexivity. Qed.
Lemma core_nodes : filter node_slot live = filter node_slot l1 ++ filter node_slot r.
Proof. unfold live. rewrite !filter_app, core_X_node. reflexivity. Qed.
Lemma core_nodes' : filter node_slot live' = filter node_slot l1 ++ new :: filter node_slot r.
Proof. unfold live'. rewrite filter_app. cbn [filter]. rewrite Hnew. reflexivity. Qed.

Lemma core_names : ~ In (t_name new) (map t_name (filter short_slot live)) ->
  NoDup (map t_name (filter short_slot live)) -> NoDup (map t_name (filter short_slot live')).
Proof.
  rewrite core_shorts, core_shorts', !map_app. cbn [map]. intros Hf Hn. apply NoDup_insert; assumption.
Qed.

Lemma core_in' t : In t live' -> t = new \/ In t live.
Proof.
  unfold live', live. intros H. apply in_app_or in H. destruct H as [H|[H|H]].
  - right. apply in_or_app. left. exact H.
  - left. symmetry. exact H.
  - right. apply in_or_app. right. apply in_or_app. right. exact H.
Qed.

Lemma core_no_dots a : no_dots (a ++ X ++ r) -> no_dots (a ++ new :: r).
Proof.
  unfold no_dots. intros H. apply Forall_app in H. destruct H as [Ha H].
  apply Forall_app in H. destruct H as [_ Hr].
  apply Forall_app. split; [exact Ha|]. constructor; [|exact Hr].
  intros _. exact (node_not_dot new Hnew).
Qed.

Lemma core_Xr_head t rest : X ++ r = t :: rest -> short_slot t = true -> False.
Proof.
  intros E Hs. destruct X as [|x X'].
  - rewrite (HXr eq_refl) in E. discriminate E.
  - cbn [app] in E. injection E as -> _. inversion HX as [|? ? Hx _]; subst.
    rewrite (short_valid t Hs) in Hx. discriminate Hx.
Qed.

Lemma core_dots : dots_ok fat32 own parent live -> dots_ok fat32 own parent live'.
Proof.
  unfold dots_ok, live, live'. destruct (own =? CL_ROOT); [apply core_no_dots|].
  generalize l1 as l0. intros l0 (t0 & t1 & rest & E & D0 & D1 & Hnd).
  destruct l0 as [|a [|b l1']].
  - exfalso. cbn [app] in E. exact (core_Xr_head t0 _ E (proj1 D0)).
  - exfalso. cbn [app] in E. injection E as _ E. exact (core_Xr_head t1 _ E (proj1 D1)).
  - cbn [app] in E. injection E as -> -> <-.
    exists t0, t1, (l1' ++ new :: r). split; [reflexivity|]. split; [exact D0|]. split; [exact D1|].
    apply core_no_dots. exact Hnd.
Qed.
End Core.

Lemma dir_ok_core d d' v own parent bl bl' l1 X r new :
  dir_live d bl = l1 ++ X ++ r -> dir_live d' bl' = l1 ++ new :: r ->
  clean_tail (slots_of d' bl') ->
  Forall (fun t => t_is_valid t = false) X -> (X = [] -> r = []) -> node_slot new = true ->
  ~ In (t_name new) (map t_name (dir_shorts d bl)) ->
  dir_ok d v own parent bl ->
  dir_ok d' v own parent bl' /\
  dir_nodes d bl = filter node_slot l1 ++ filter node_slot r /\
  dir_nodes d' bl' = filter node_slot l1 ++ new :: filter node_slot r.
Proof.
  intros E E' Hct HX HXr Hnew Hfresh [A B D]. unfold dir_shorts in Hfresh, B.
  rewrite E in Hfresh, B, D.
  split; [constructor|].
  - exact Hct.
  - unfold dir_shorts. rewrite E'. exact (core_names l1 X r new HX Hnew Hfresh B).
  - rewrite E'. exact (core_dots (v_fat32 v) own parent l1 X r new HX HXr Hnew D).
  - unfold dir_nodes. rewrite E, E'. split; [apply core_nodes; exact HX|apply core_nodes'; exact Hnew].
Qed.

(* ================================================================== 2. S1: the first free slot is filled *)
Theorem dir_ok_insert d d' v own parent bl l1 old l2 new :
  slots_of d bl = l1 ++ old :: l2 -> slots_of d' bl = l1 ++ new :: l2 ->
  Forall (fun t => t_is_valid t = true) l1 -> t_is_valid old = false ->
  node_slot new = true -> ~ In (t_name new) (map t_name (dir_shorts d bl)) ->
  dir_ok d v own parent bl ->
  dir_ok d' v own parent bl /\
  exists n1 n2, dir_nodes d bl = n1 ++ n2 /\ dir_nodes d' bl = n1 ++ new :: n2.
Proof.
  intros Es Es' Hl1 Hold Hnew Hfresh Hok.
  pose proof (valid_no_end l1 Hl1) as Hne.
  pose proof (valid_not_end new (short_valid new (node_short new Hnew))) as Hnewe.
  pose proof (do_tail _ _ _ _ _ Hok) as T. unfold clean_tail in T.
  rewrite Es, after_end_app, Hne in T. cbn [after_end] in T.
  assert (Hct : clean_tail (slots_of d' bl)).
  { unfold clean_tail. rewrite Es', after_end_app, Hne. cbn [after_end]. rewrite Hnewe.
    destruct (t_is_end old); [|exact T].
    apply after_end_Forall. inversion T; subst; assumption. }
  destruct (t_is_end old) eqn:Eo.
  - (* the end marker is overwritten: everything behind it is an end marker *)
    assert (Hl2 : Forall (fun t => t_is_end t = true) l2) by (inversion T; subst; assumption).
    assert (E : dir_live d bl = l1 ++ [] ++ []).
    { unfold dir_live. rewrite Es, before_end_all_app, Hne. cbn [before_end_all]. rewrite Eo. reflexivity. }
    assert (E' : dir_live d' bl = l1 ++ new :: []).
    { unfold dir_live. rewrite Es', before_end_all_app, Hne. cbn [before_end_all]. rewrite Hnewe.
      rewrite (all_end_before l2 Hl2). reflexivity. }
    destruct (dir_ok_core d d' v own parent bl bl l1 [] [] new E E' Hct (Forall_nil _) (fun _ => eq_refl)
                Hnew Hfresh Hok) as (R1 & R2 & R3).
    split; [exact R1|]. exists (filter node_slot l1), (filter node_slot []). split; assumption.
  - (* a deleted slot is overwritten *)
    assert (E : dir_live d bl = l1 ++ [old] ++ before_end_all l2).
    { unfold dir_live. rewrite Es, before_end_all_app, Hne. cbn [before_end_all]. rewrite Eo. reflexivity. }
    assert (E' : dir_live d' bl = l1 ++ new :: before_end_all l2).
    { unfold dir_live. rewrite Es', before_end_all_app, Hne. cbn [before_end_all]. rewrite Hnewe. reflexivity. }
    assert (HX : Forall (fun t => t_is_valid t = false) [old]) by (constructor; [exact Hold|constructor]).
    assert (HXr : [old] = [] -> before_end_all l2 = []) by (intros HH; discriminate HH).
    destruct (dir_ok_core d d' v own parent bl bl l1 [old] (before_end_all l2) new E E' Hct HX HXr
                Hnew Hfresh Hok) as (R1 & R2 & R3).
    split; [exact R1|]. exists (filter node_slot l1), (filter node_slot (before_end_all l2)). split; assumption.
Qed.

(* ================================================================== 3. S2: the directory grows *)
Theorem dir_ok_grow d d' v own parent bl nbl new zs :
  slots_of d' bl = slots_of d bl ->
  Forall (fun t => t_is_valid t = true) (slots_of d bl) ->
  slots_of d' nbl = new :: zs -> Forall (fun t => t_is_end t = true) zs ->
  node_slot new = true -> ~ In (t_name new) (map t_name (dir_shorts d bl)) ->
  dir_ok d v own parent bl ->
  dir_ok d' v own parent (bl ++ nbl) /\ dir_nodes d' (bl ++ nbl) = dir_nodes d bl ++ [new].
Proof.
  intros Es Hl1 Enb Hzs Hnew Hfresh Hok.
  pose proof (valid_no_end _ Hl1) as Hne.
  pose proof (valid_not_end new (short_valid new (node_short new Hnew))) as Hnewe.
  assert (Hct : clean_tail (slots_of d' (bl ++ nbl))).
  { unfold clean_tail. rewrite slots_of_app, Es, Enb, after_end_app, Hne. cbn [after_end]. rewrite Hnewe.
    apply after_end_Forall. exact Hzs. }
  assert (E : dir_live d bl = slots_of d bl ++ [] ++ []).
  { unfold dir_live. rewrite (before_end_all_none _ Hne). cbn [app]. symmetry. apply app_nil_r. }
  assert (E' : dir_live d' (bl ++ nbl) = slots_of d bl ++ new :: []).
  { unfold dir_live. rewrite slots_of_app, Es, Enb, before_end_all_app, Hne. cbn [before_end_all].
    rewrite Hnewe, (all_end_before zs Hzs). reflexivity. }
  destruct (dir_ok_core d d' v own parent bl (bl ++ nbl) (slots_of d bl) [] [] new E E' Hct (Forall_nil _)
              (fun _ => eq_refl) Hnew Hfresh Hok) as (R1 & R2 & R3).
  split; [exact R1|]. rewrite R3, R2. cbn [filter]. rewrite app_nil_r. reflexivity.
Qed.

(* ================================================================== 4. S3: from the disk to the split form *)
Lemma NoDup_app_intro {A} (a b : list A) :
  NoDup a -> NoDup b -> (forall x, In x a -> ~ In x b) -> NoDup (a ++ b).
Proof.
  induction 1 as [|x a Hx Ha IH]; intros Hb Hd; [exact Hb|]. cbn [app]. constructor.
  - intros H. apply in_app_or in H. destruct H as [H|H]; [exact (Hx H)|].
    exact (Hd x (or_introl eq_refl) H).
  - apply IH; [exact Hb|]. intros y Hy. apply Hd. right. exact Hy.
Qed.

(* the positions (block, offset) of the slots of a block, of a duplicate-free block list *)
Lemma tslots_from_keys_nodup n b blk : forall i, NoDup (map fst (tslots_from n b blk i)).
Proof.
  induction n as [|n IH]; intros i; [constructor|]. cbn [tslots_from map fst]. constructor; [|apply IH].
  intros H. apply in_map_iff in H. destruct H as (t & Et & Ht).
  destruct (In_tslots_from n b blk (i + 1) t Ht) as (j & Hj1 & _ & ->). cbn [fst] in Et.
  injection Et as Et. lia.
Qed.

Lemma block_slots_key d b t : In t (block_slots d b) -> fst (fst t) = b.
Proof.
  unfold block_slots. intros H. destruct (In_tslots_from _ _ _ _ _ H) as (j & _ & _ & ->). reflexivity.
Qed.

Lemma slots_of_key d bl t : In t (slots_of d bl) -> In (fst (fst t)) bl.
Proof.
  intros H. destruct (In_slots_of d bl t H) as (b & i & Hb & _ & ->). exact Hb.
Qed.

Lemma slots_of_keys_nodup d : forall bl, NoDup bl -> NoDup (map fst (slots_of d bl)).
Proof.
  induction 1 as [|b bl Hb Hbl IH]; [constructor|].
  rewrite slots_of_cons, map_app. apply NoDup_app_intro; [apply tslots_from_keys_nodup|exact IH|].
  intros k Hk1 Hk2. apply in_map_iff in Hk1. destruct Hk1 as (t1 & <- & Ht1).
  apply in_map_iff in Hk2. destruct Hk2 as (t2 & E & Ht2).
  apply Hb. rewrite <- (block_slots_key d b t1 Ht1), <- E. exact (slots_of_key d bl t2 Ht2).
Qed.

Lemma upd_slot_other blk off new t : fst t <> (blk, off) -> upd_slot blk off new t = t.
Proof.
  destruct t as [[a o] sl]. cbn [fst]. intros H. unfold upd_slot. cbn [fst snd].
  destruct (N.eqb_spec a blk) as [->|]; [|reflexivity].
  destruct (N.eqb_spec o off) as [->|]; [|reflexivity]. exfalso. apply H. reflexivity.
Qed.

Lemma map_upd_slot_other blk off new l : ~ In (blk, off) (map fst l) -> map (upd_slot blk off new) l = l.
Proof.
  induction l as [|t l IH]; intros H; [reflexivity|]. cbn [map] in *. f_equal.
  - apply upd_slot_other. intros E. apply H. left. exact E.
  - apply IH. intros Hin. apply H. right. exact Hin.
Qed.

Theorem slots_split d d' bl blk off sl0 bytes :
  NoDup bl -> length (disk_get d blk) = 512%nat -> length bytes = 32%nat ->
  find nv (slots_of d bl) = Some (blk, off, sl0) ->
  (forall j, In j bl -> j <> blk -> disk_get d' j = disk_get d j) ->
  disk_get d' blk = set_bytes (disk_get d blk) off bytes ->
  exists l1 l2, slots_of d bl = l1 ++ (blk, off, sl0) :: l2 /\
                slots_of d' bl = l1 ++ (blk, off, bytes) :: l2 /\
                Forall (fun t => t_is_valid t = true) l1 /\ t_is_valid (blk, off, sl0) = false.
Proof.
  intros Hnd Hlen Hbytes Hfind Hfr Hblk.
  destruct (find_split nv _ _ Hfind) as (l1 & l2 & Es & Hl1 & Hx).
  assert (Hin : In (blk, off, sl0) (slots_of d bl)) by (rewrite Es; apply in_or_app; right; left; reflexivity).
  destruct (In_slots_of d bl _ Hin) as (b & i & Hb & Hi & Et). injection Et as E1 E2 _. subst blk off.
  set (d'' := disk_set d b (set_bytes (disk_get d b) (i * 32) bytes)).
  assert (W : slot_write d d'' b i bytes).
  { assert (Hhi : i * 32 + N.of_nat (length bytes) <= i * 32 + 32) by (rewrite Hbytes; lia).
    pose proof (slot_write_of_set d b (i * 32) bytes i Hlen Hi (N.le_refl _) Hhi) as W.
    rewrite slot_set_bytes_same in W; [exact W|exact Hbytes|lia]. }
  assert (Ed : slots_of d' bl = slots_of d'' bl).
  { apply slots_of_ext. intros j Hj. unfold d''. destruct (N.eq_dec j b) as [->|Hne].
    - rewrite Hblk, disk_get_set_same. reflexivity.
    - rewrite (Hfr j Hj Hne), disk_get_set_other by congruence. reflexivity. }
  pose proof (slots_of_keys_nodup d bl Hnd) as Hk. rewrite Es, map_app in Hk. cbn [map fst] in Hk.
  pose proof (NoDup_remove_2 _ _ _ Hk) as Hk2.
  exists l1, l2. split; [exact Es|]. split.
  - rewrite Ed, (slots_of_upd d d'' b i bytes bl W), Es, map_app. cbn [map]. f_equal.
    + apply map_upd_slot_other. intros H. apply Hk2. apply in_or_app. left. exact H.
    + f_equal.
      * unfold upd_slot. cbn [fst snd]. rewrite !N.eqb_refl. reflexivity.
      * apply map_upd_slot_other. intros H. apply Hk2. apply in_or_app. right. exact H.
  - split.
    + revert Hl1. apply Forall_impl. intros t Ht. unfold nv in Ht. destruct (t_is_valid t); [reflexivity|discriminate Ht].
    + unfold nv in Hx. destruct (t_is_valid (b, i * 32, sl0)); [discriminate Hx|reflexivity].
Qed.

(* ================================================================== 5. zero blocks, the blocks of a cluster *)
Lemma get8_zero x : get8 zero_block x = 0.
Proof. unfold get8, zero_block. apply nth_repeat. Qed.

Lemma zero_block_length : length zero_block = 512%nat.
Proof. exact (proj1 zero_block_is_block). Qed.

Lemma slot_zero_end i : is_end (slot zero_block i) = true.
Proof. unfold is_end. rewrite get8_slot by lia. rewrite get8_zero. reflexivity. Qed.

Lemma tslots_from_S n b blk i :
  tslots_from (S n) b blk i = (blk, i * 32, slot b i) :: tslots_from n b blk (i + 1).
Proof. reflexivity. Qed.

Lemma tslots_from_end n b blk i : (forall j, i <= j -> is_end (slot b j) = true) ->
  Forall (fun t => t_is_end t = true) (tslots_from n b blk i).
Proof.
  intros H. apply Forall_forall. intros t Ht.
  destruct (In_tslots_from n b blk i t Ht) as (j & Hj & _ & ->). unfold t_is_end. cbn [snd]. exact (H j Hj).
Qed.

Lemma cluster_blocks_cons v c : 1 <= v_spc v ->
  cluster_blocks v c = cluster_first_block v c :: blocks_from (N.to_nat (v_spc v) - 1) (cluster_first_block v c + 1).
Proof.
  intros H. unfold cluster_blocks. destruct (N.to_nat (v_spc v)) as [|n] eqn:E; [lia|].
  cbn [blocks_from]. replace (S n - 1)%nat with n by lia. reflexivity.
Qed.

Lemma rest_blocks_end d' v c :
  (forall k, 1 <= k -> k < v_spc v -> disk_get d' (cluster_first_block v c + k) = zero_block) ->
  Forall (fun t => t_is_end t = true)
         (slots_of d' (blocks_from (N.to_nat (v_spc v) - 1) (cluster_first_block v c + 1))).
Proof.
  intros H. apply Forall_forall. intros t Ht.
  destruct (In_slots_of _ _ _ Ht) as (b & i & Hb & _ & ->).
  destruct (In_blocks_from _ _ _ Hb) as (k & Hk & ->).
  replace (cluster_first_block v c + 1 + N.of_nat k) with (cluster_first_block v c + (1 + N.of_nat k)) by lia.
  rewrite H by lia. unfold t_is_end. cbn [snd]. apply slot_zero_end.
Qed.

(* S4: the slots of the cluster a directory has grown by *)
Theorem grown_cluster_slots d' v c' bytes : 1 <= v_spc v -> length bytes = 32%nat ->
  disk_get d' (cluster_first_block v c') = set_bytes zero_block 0 bytes ->
  (forall k, 1 <= k -> k < v_spc v -> disk_get d' (cluster_first_block v c' + k) = zero_block) ->
  exists zs, slots_of d' (cluster_blocks v c') = (cluster_first_block v c', 0, bytes) :: zs /\
             Forall (fun t => t_is_end t = true) zs.
Proof.
  intros Hspc Hbytes Hfirst Hrest.
  rewrite (cluster_blocks_cons v c' Hspc), slots_of_cons. unfold block_slots at 1.
  rewrite Hfirst, tslots_from_S. cbn [app]. change (0 * 32) with 0.
  pose proof zero_block_length as Hz.
  assert (E0 : slot (set_bytes zero_block 0 bytes) 0 = bytes).
  { change (set_bytes zero_block 0 bytes) with (set_bytes zero_block (0 * 32) bytes).
    apply slot_set_bytes_same; [exact Hbytes|]. rewrite Hz. change (0 * 32) with 0. lia. }
  rewrite E0. eexists. split; [reflexivity|]. apply Forall_app. split; [|exact (rest_blocks_end d' v c' Hrest)].
  apply tslots_from_end. intros j Hj.
  rewrite slot_set_bytes_other; [apply slot_zero_end|rewrite Hz, Hbytes; lia|rewrite Hbytes; lia].
Qed.

(* ================================================================== 6. a serialized entry as a slot *)
Lemma ser_slot fat32 e blk off : length (e_name e) = 11%nat ->
  let t : tslot := (blk, off, ser_bytes fat32 e) in
  t_name t = e_name e /\ t_attr t = e_attr e /\
  t_is_valid t = negb (get8 (e_name e) 0 =? 0) && negb (get8 (e_name e) 0 =? 229) /\
  t_entry fat32 t = entry_readback fat32 e blk off.
Proof.
  intros Hl t. subst t.
  destruct (ser_bytes_layout fat32 e Hl) as (L0 & L11 & _ & _ & _ & _ & _ & _ & _ & Lg).
  unfold t_name, t_attr, t_is_valid, t_entry, is_valid, is_end. cbn [fst snd].
  rewrite L0, L11, Lg. split; [reflexivity|]. split; [reflexivity|]. split; [reflexivity|].
  apply C02_codec_roundtrip. exact Hl.
Qed.

Lemma cl_readback_dir (fat32 : bool) (c : N) : c < (if fat32 then 4294967296 else 65536) ->
  cl_readback fat32 A_DIRECTORY c = if c =? 0 then CL_ROOT else c.
Proof.
  intros H. unfold cl_readback, CL_EMPTY. change (is_directory A_DIRECTORY) with true.
  destruct fat32; rewrite N.mod_small by exact H; rewrite andb_true_r; reflexivity.
Qed.

(* the serialized directory entry named nm (11 bytes, first byte neither 0 nor 0xE5) *)
Lemma ser_dir_slot (fat32 : bool) nm tm c blk off : length nm = 11%nat ->
  get8 nm 0 <> 0 -> get8 nm 0 <> 229 -> c < (if fat32 then 4294967296 else 65536) ->
  let t : tslot := (blk, off, ser_bytes fat32 (mk_dirent nm tm tm A_DIRECTORY c 0 blk off)) in
  short_slot t = true /\ t_name t = nm /\ is_directory (t_attr t) = true /\
  t_entry fat32 t = entry_readback fat32 (mk_dirent nm tm tm A_DIRECTORY c 0 blk off) blk off /\
  e_cluster (t_entry fat32 t) = (if c =? 0 then CL_ROOT else c).
Proof.
  intros Hl H0 H229 Hc t.
  destruct (ser_slot fat32 (mk_dirent nm tm tm A_DIRECTORY c 0 blk off) blk off Hl) as (A & B & C & D).
  fold t in A, B, C, D. cbn [e_name e_attr] in A, B, C.
  split.
  { unfold short_slot. rewrite C, B.
    apply N.eqb_neq in H0. apply N.eqb_neq in H229. rewrite H0, H229. reflexivity. }
  split; [exact A|]. split; [rewrite B; reflexivity|]. split; [exact D|].
  rewrite D. unfold entry_readback. cbn [e_cluster e_attr]. apply cl_readback_dir. exact Hc.
Qed.

(* S6: the new slot, decoded *)
Theorem new_slot_facts (fat32 : bool) sfn tm c blk off : length sfn = 11%nat ->
  get8 sfn 0 <> 0 -> get8 sfn 0 <> 229 -> PrModes.dot_name sfn = false ->
  2 <= c -> c < (if fat32 then 4294967296 else 65536) ->
  let new : tslot := (blk, off, ser_bytes fat32 (mk_dirent sfn tm tm A_DIRECTORY c 0 blk off)) in
  node_slot new = true /\ t_name new = sfn /\
  is_directory (e_attr (t_entry fat32 new)) = true /\ e_cluster (t_entry fat32 new) = c /\
  e_block (t_entry fat32 new) = blk /\ e_offset (t_entry fat32 new) = off /\
  e_name (t_entry fat32 new) = sfn.
Proof.
  intros Hl H0 H229 Hdot Hc2 Hc new.
  destruct (ser_dir_slot fat32 sfn tm c blk off Hl H0 H229 Hc) as (A & B & C & D & E).
  fold new in A, B, C, D, E.
  split.
  { unfold node_slot. rewrite A. unfold dot_slot. rewrite B. unfold PrModes.dot_name in Hdot. rewrite Hdot. reflexivity. }
  split; [exact B|].
  split; [rewrite D; reflexivity|].
  split.
  { rewrite E. replace (c =? 0) with false by (symmetry; apply N.eqb_neq; lia). reflexivity. }
  rewrite D. unfold entry_readback. cbn [e_block e_offset e_name]. repeat split; reflexivity.
Qed.

(* ================================================================== 7. S5: the cluster of a new sub-directory *)
(* a directory whose slots are ".", ".." and end markers *)
Lemma two_dots_dir_ok d v own parent bl t0 t1 zs :
  slots_of d bl = t0 :: t1 :: zs -> Forall (fun t => t_is_end t = true) zs -> own <> CL_ROOT ->
  dot_entry (v_fat32 v) t0 THIS_DIR_NAME own -> dot_entry (v_fat32 v) t1 PARENT_DIR_NAME parent ->
  dir_nodes d bl = [] /\ dir_ok d v own parent bl.
Proof.
  intros Hs Hzs Hown D0 D1.
  pose proof D0 as (S0 & N0 & _ & _). pose proof D1 as (S1 & N1 & _ & _).
  pose proof (valid_not_end t0 (short_valid t0 S0)) as E0.
  pose proof (valid_not_end t1 (short_valid t1 S1)) as E1.
  assert (Hlive : dir_live d bl = [t0; t1]).
  { unfold dir_live. rewrite Hs. cbn [before_end_all]. rewrite E0, E1, (all_end_before zs Hzs). reflexivity. }
  assert (Hd0 : dot_slot t0 = true) by (unfold dot_slot; rewrite N0; reflexivity).
  assert (Hd1 : dot_slot t1 = true) by (unfold dot_slot; rewrite N1; reflexivity).
  split.
  { unfold dir_nodes. rewrite Hlive. cbn [filter]. unfold node_slot. rewrite S0, S1, Hd0, Hd1. reflexivity. }
  constructor.
  - unfold clean_tail. rewrite Hs. cbn [after_end]. rewrite E0, E1. apply after_end_Forall. exact Hzs.
  - unfold dir_shorts. rewrite Hlive. cbn [filter]. rewrite S0, S1. cbn [map]. rewrite N0, N1.
    constructor; [|constructor; [intros []|constructor]].
    intros [H|[]]. discriminate H.
  - rewrite Hlive. unfold dots_ok. apply N.eqb_neq in Hown. rewrite Hown.
    exists t0, t1, []. split; [reflexivity|]. split; [exact D0|]. split; [exact D1|constructor].
Qed.

Theorem new_dir_ok d' v c pcl now : 1 <= v_spc v -> 2 <= c ->
  c < (if v_fat32 v then 268435447 else 65527) -> pcl < (if v_fat32 v then 4294967296 else 65536) ->
  disk_get d' (cluster_first_block v c) =
    set_bytes (set_bytes zero_block 0
                 (ser_bytes (v_fat32 v) (mk_dirent THIS_DIR_NAME now now A_DIRECTORY c 0 (cluster_first_block v c) 0)))
              32 (ser_bytes (v_fat32 v) (mk_dirent PARENT_DIR_NAME now now A_DIRECTORY pcl 0 (cluster_first_block v c) 32)) ->
  (forall k, 1 <= k -> k < v_spc v -> disk_get d' (cluster_first_block v c + k) = zero_block) ->
  dir_nodes d' (cluster_blocks v c) = [] /\
  dir_ok d' v c (if pcl =? 0 then CL_ROOT else pcl) (cluster_blocks v c).
Proof.
  intros Hspc Hc2 Hc Hp Hfirst Hrest.
  set (fb := cluster_first_block v c) in *.
  set (E1 := ser_bytes (v_fat32 v) (mk_dirent THIS_DIR_NAME now now A_DIRECTORY c 0 fb 0)) in *.
  set (E2 := ser_bytes (v_fat32 v) (mk_dirent PARENT_DIR_NAME now now A_DIRECTORY pcl 0 fb 32)) in *.
  assert (L1 : length E1 = 32%nat) by (apply ser_bytes_length; reflexivity).
  assert (L2 : length E2 = 32%nat) by (apply ser_bytes_length; reflexivity).
  pose proof zero_block_length as Hz.
  assert (Hz1 : length (set_bytes zero_block 0 E1) = 512%nat).
  { rewrite set_bytes_length; [exact Hz|]. rewrite Hz, L1. lia. }
  set (B := set_bytes (set_bytes zero_block 0 E1) 32 E2) in *.
  assert (B0 : slot B 0 = E1).
  { unfold B. rewrite slot_set_bytes_other; [|rewrite Hz1, L2; lia|left; lia].
    change (set_bytes zero_block 0 E1) with (set_bytes zero_block (0 * 32) E1).
    apply slot_set_bytes_same; [exact L1|]. rewrite Hz. change (0 * 32) with 0. lia. }
  assert (B1 : slot B (0 + 1) = E2).
  { unfold B. change (0 + 1) with 1. change 32 with (1 * 32) at 1.
    apply slot_set_bytes_same; [exact L2|]. rewrite Hz1. change (1 * 32) with 32. lia. }
  assert (Bz : forall j, 0 + 1 + 1 <= j -> is_end (slot B j) = true).
  { intros j Hj. unfold B. rewrite slot_set_bytes_other; [|rewrite Hz1, L2; lia|rewrite L2; lia].
    rewrite slot_set_bytes_other; [apply slot_zero_end|rewrite Hz, L1; lia|rewrite L1; lia]. }
  assert (Hs : exists zs, slots_of d' (cluster_blocks v c) = (fb, 0, E1) :: (fb, 32, E2) :: zs /\
                          Forall (fun t => t_is_end t = true) zs).
  { rewrite (cluster_blocks_cons v c Hspc), slots_of_cons. fold fb. unfold block_slots at 1.
    rewrite Hfirst. change 16%nat with (S (S 14)). do 2 rewrite tslots_from_S. rewrite B0, B1. cbn [app].
    change (0 * 32) with 0. change ((0 + 1) * 32) with 32.
    eexists. split; [reflexivity|]. apply Forall_app. split; [|exact (rest_blocks_end d' v c Hrest)].
    apply tslots_from_end. exact Bz. }
  destruct Hs as (zs & Hs & Hzs).
  assert (Hcb : c < (if v_fat32 v then 4294967296 else 65536)) by (destruct (v_fat32 v); lia).
  assert (Hroot : c <> CL_ROOT) by (unfold CL_ROOT; destruct (v_fat32 v); lia).
  destruct (ser_dir_slot (v_fat32 v) THIS_DIR_NAME now c fb 0 eq_refl ltac:(discriminate) ltac:(discriminate) Hcb)
    as (A0 & A1 & A2 & _ & A3).
  destruct (ser_dir_slot (v_fat32 v) PARENT_DIR_NAME now pcl fb 32 eq_refl ltac:(discriminate) ltac:(discriminate) Hp)
    as (P0 & P1 & P2 & _ & P3).
  fold E1 in A0, A1, A2, A3. fold E2 in P0, P1, P2, P3.
  replace (c =? 0) with false in A3 by (symmetry; apply N.eqb_neq; lia).
  apply (two_dots_dir_ok d' v c _ (cluster_blocks v c) (fb, 0, E1) (fb, 32, E2) zs Hs Hzs Hroot).
  - repeat split; assumption.
  - repeat split; assumption.
Qed.

Corollary new_dir_ok_db d' v c pcl now : 1 <= v_spc v -> 2 <= c ->
  c < (if v_fat32 v then 268435447 else 65527) -> pcl < (if v_fat32 v then 4294967296 else 65536) ->
  disk_get d' (cluster_first_block v c) =
    set_bytes (set_bytes zero_block 0
                 (ser_bytes (v_fat32 v) (mk_dirent THIS_DIR_NAME now now A_DIRECTORY c 0 (cluster_first_block v c) 0)))
              32 (ser_bytes (v_fat32 v) (mk_dirent PARENT_DIR_NAME now now A_DIRECTORY pcl 0 (cluster_first_block v c) 32)) ->
  (forall k, 1 <= k -> k < v_spc v -> disk_get d' (cluster_first_block v c + k) = zero_block) ->
  dir_nodes d' (data_blocks v [c]) = [] /\
  dir_ok d' v c (if pcl =? 0 then CL_ROOT else pcl) (data_blocks v [c]).
Proof.
  intros Hspc Hc2 Hc Hp Hfirst Hrest.
  replace (data_blocks v [c]) with (cluster_blocks v c) by (unfold data_blocks; cbn [flat_map]; symmetry; apply app_nil_r).
  exact (new_dir_ok d' v c pcl now Hspc Hc2 Hc Hp Hfirst Hrest).
Qed.

(* ================================================================== 8. S7: a name the lookup did not find *)
Theorem name_fresh d bl sfn : clean_tail (slots_of d bl) ->
  find (t_matches sfn) (live_in_blocks d bl) = None -> ~ In sfn (map t_name (dir_shorts d bl)).
Proof.
  intros Hct Hfind Hin. rewrite (live_clean d bl Hct) in Hfind. fold (dir_live d bl) in Hfind.
  apply in_map_iff in Hin. destruct Hin as (t & Et & Ht).
  unfold dir_shorts in Ht. apply filter_In in Ht. destruct Ht as [Ht Hs].
  pose proof (find_none _ _ Hfind t Ht) as E. unfold t_matches, matches in E.
  destruct (PrGlobalDef.short_valid t Hs) as [_ Hnl]. unfold t_attr in Hnl.
  unfold t_name in Et. rewrite Et, list_eqb_refl, Hnl in E. discriminate E.
Qed.

(* ================================================================== 9. the hypotheses are satisfiable *)
(* on the FAT16 example volume of PrDir (2 blocks per cluster): cluster 4 becomes a new sub-directory of
   the root (S5); then an entry "B" with first cluster 5 is written into its first free slot, slot 2 of
   block 34 (S3, S6, S7, S1) *)
Definition exs_now : ts := clock_ts 3.
Definition exs_dot : list N :=
  ser_bytes false (mk_dirent THIS_DIR_NAME exs_now exs_now A_DIRECTORY 4 0 34 0).
Definition exs_dotdot : list N :=
  ser_bytes false (mk_dirent PARENT_DIR_NAME exs_now exs_now A_DIRECTORY 0 0 34 32).
Definition exs_disk : disk :=
  disk_set (PositiveMap.empty block) 34 (set_bytes (set_bytes zero_block 0 exs_dot) 32 exs_dotdot).
Definition exs_name : list N := 66 :: repeat 32 10.
Definition exs_new : list N := ser_bytes false (mk_dirent exs_name exs_now exs_now A_DIRECTORY 5 0 34 64).
Definition exs_disk2 : disk := disk_set exs_disk 34 (set_bytes (disk_get exs_disk 34) 64 exs_new).

Example new_dir_example :
  dir_nodes exs_disk (cluster_blocks exd_vol 4) = [] /\
  dir_ok exs_disk exd_vol 4 CL_ROOT (cluster_blocks exd_vol 4).
Proof.
  apply (new_dir_ok exs_disk exd_vol 4 0 exs_now); try (cbn; lia).
  - reflexivity.
  - intros k H1 H2. change (v_spc exd_vol) with 2 in H2. assert (k = 1) by lia. subst k. reflexivity.
Qed.

Example insert_example :
  dir_ok exs_disk2 exd_vol 4 CL_ROOT (cluster_blocks exd_vol 4) /\
  dir_nodes exs_disk2 (cluster_blocks exd_vol 4) = [(34, 64, exs_new)].
Proof.
  destruct new_dir_example as [Hn Hok].
  assert (Hfind : exists sl0, find nv (slots_of exs_disk (cluster_blocks exd_vol 4)) = Some (34, 64, sl0))
    by (eexists; vm_compute; reflexivity).
  destruct Hfind as (sl0 & Hfind).
  assert (Hnd : NoDup (cluster_blocks exd_vol 4)).
  { change (cluster_blocks exd_vol 4) with [34; 35]. constructor; [intros [H|[]]; discriminate H|].
    constructor; [intros []|constructor]. }
  destruct (slots_split exs_disk exs_disk2 (cluster_blocks exd_vol 4) 34 64 sl0 exs_new Hnd)
    as (l1 & l2 & E1 & E2 & Hl1 & Hold).
  - reflexivity.
  - reflexivity.
  - exact Hfind.
  - intros j _ Hj. unfold exs_disk2. apply disk_get_set_other. congruence.
  - unfold exs_disk2. apply disk_get_set_same.
  - destruct (new_slot_facts false exs_name exs_now 5 34 64) as (F1 & F2 & _); try reflexivity; try discriminate; try lia.
    fold exs_new in F1, F2.
    assert (Hfresh : ~ In (t_name (34, 64, exs_new)) (map t_name (dir_shorts exs_disk (cluster_blocks exd_vol 4)))).
    { rewrite F2. apply name_fresh; [exact (do_tail _ _ _ _ _ Hok)|]. vm_compute. reflexivity. }
    destruct (dir_ok_insert exs_disk exs_disk2 exd_vol 4 CL_ROOT _ l1 _ l2 _ E1 E2 Hl1 Hold F1 Hfresh Hok)
      as (R & n1 & n2 & Rn & Rn').
    split; [exact R|]. rewrite Hn in Rn. symmetry in Rn. apply app_eq_nil in Rn. destruct Rn as [-> ->].
    exact Rn'.
Qed.

Print Assumptions dir_ok_insert.
Print Assumptions dir_ok_grow.
Print Assumptions slots_split.
Print Assumptions grown_cluster_slots.
Print Assumptions new_dir_ok.
Print Assumptions new_dir_ok_db.
Print Assumptions new_slot_facts.
Print Assumptions name_fresh.
