(* PROOFS, continued from PrGlobalOpen.v: OpenFile with truncation, OpenFile that creates, and the
   final theorem step_ok_OpenFile.

   1  block-level facts (directory blocks lie outside both FAT copies)
   2  the open files and directories across a change of the disk
   3  the truncating open
   4  the creating open
   5  step_ok_OpenFile *)
From Coq Require Import NArith ZArith List Bool Lia Arith ZifyClasses ZifyInst Zify FMapPositive Permutation.
From SdFs Require Import FsTypes FsBase FsFat FsMgr FsLemmas PrBase PrFat PrAlloc PrDir PrSeek PrAllocEffect
  PrRw PrWrite PrFileSeq PrMulti PrEntry PrChain PrCount PrWf PrOpenClose PrGlobalDef PrGlobalOpen.
From SdFs Require PrModes PrHandles PrCrash PrBounds PrOrder.
Import ListNotations.
Open Scope N_scope.
Local Arguments N.mul : simpl never.
Local Arguments N.add : simpl never.
Local Arguments N.sub : simpl never.
Local Arguments N.div : simpl never.
Local Arguments N.modulo : simpl never.
Local Arguments N.land : simpl never.
Local Arguments N.lor : simpl never.
Local Arguments N.min : simpl never.
Local Arguments N.max : simpl never.
Local Ltac Zify.zify_post_hook ::= Z.to_euclidean_division_equations.

(* ================================================================== 1. directory blocks and the FAT copies *)
Definition off_fat (v : vol) (fsz j : N) : Prop := forall copy k, k < fsz -> j <> fat_copy_sector v copy k.

Lemma cluster_block_off_fat fsz v c j : fat_layout v fsz -> 2 <= c -> In j (cluster_blocks v c) -> off_fat v fsz j.
Proof.
  intros L Hc Hj copy k Hk E. destruct (In_cluster_blocks _ _ _ Hj) as (q & _ & Eq).
  apply (fat_sector_not_data v fsz copy k c q L Hk Hc). congruence.
Qed.

Lemma root16_block_off_fat fsz v j : PrBounds.part_layout v (v_nblocks v) fsz -> v_fat32 v = false ->
  In j (root16_blocks v) -> off_fat v fsz j.
Proof.
  intros PL E16 Hj copy k Hk E. unfold root16_blocks in Hj. destruct (In_blocks_from _ _ _ Hj) as (q & _ & Eq).
  pose proof (PrBounds.layout_order v _ fsz PL) as (_ & O2 & O3 & _ & O5 & _). destruct (O5 E16) as [O6 _].
  unfold fat_copy_sector, fat_copy_start in E. unfold PrBounds.fats_end, PrBounds.fat1_start in *.
  destruct (copy =? 0); [lia|]. destruct (v_second_fat v) as [sf|]; [|lia].
  destruct (O3 sf eq_refl) as (_ & O7). lia.
Qed.

Lemma chain_blocks_off_fat fsz d v c ch j : fat_layout v fsz -> chain_at d v c ch -> In j (data_blocks v ch) -> off_fat v fsz j.
Proof.
  intros L Hc Hin. unfold data_blocks in Hin. apply in_flat_map in Hin. destruct Hin as (x & Hx & Hin).
  destruct (chain_at_mem _ _ _ _ x Hc Hx) as (X1 & _). exact (cluster_block_off_fat fsz v x j L X1 Hin).
Qed.

Lemma off_fat_not_area fsz v j : fat_layout v fsz -> off_fat v fsz j -> ~ fat_area v j.
Proof.
  intros L H (c & Hc & E). apply (H 0 ((c * fat_width v) / 512) (layout_sector v fsz c L Hc)).
  unfold fat_copy_sector, fat_copy_start. cbn [N.eqb]. rewrite E. unfold fat_w, fat_width. lia.
Qed.

(* the root directory's blocks, the blocks of every directory node of the tree *)
Lemma root_blocks_off_fat fsz vid s vi v bl rch T j : fs_inv_at fsz vid s vi v bl rch T -> In j bl -> off_fat v fsz j.
Proof.
  intros Hinv Hj. destruct (go_facts _ _ _ _ _ _ _ _ Hinv) as (_ & _ & _ & _ & _ & _ & _ & L & _).
  pose proof (di_root _ _ _ _ _ _ (fi_disk _ _ _ _ _ _ _ _ Hinv)) as Hroot. unfold root_dir in Hroot.
  destruct (v_fat32 v) eqn:E32.
  - destruct Hroot as (Hc & ->). exact (chain_blocks_off_fat fsz _ v _ _ j L Hc Hj).
  - destruct Hroot as (_ & ->). exact (root16_block_off_fat fsz v j (fi_layout _ _ _ _ _ _ _ _ Hinv) E32 Hj).
Qed.

Lemma dir_node_blocks_off_fat fsz d v bl T e ch kids j : fat_layout v fsz -> tree_rep d v bl T ->
  In (NDir e ch kids) (all_nodes T) -> In j (data_blocks v ch) -> off_fat v fsz j.
Proof.
  intros L HT Hn Hj. destruct (all_nodes_rep d v bl T HT _ Hn) as (t & bl0 & Hr & _).
  apply node_rep_dir in Hr. destruct Hr as (_ & _ & Hc & _). exact (chain_blocks_off_fat fsz d v _ _ j L Hc Hj).
Qed.

(* the block that holds the slot of a node *)
Lemma node_block_off_fat fsz vid s vi v bl rch T n : fs_inv_at fsz vid s vi v bl rch T -> In n (all_nodes T) ->
  off_fat v fsz (e_block (node_entry n)).
Proof.
  intros Hinv Hn. destruct (go_facts _ _ _ _ _ _ _ _ Hinv) as (_ & _ & _ & _ & _ & _ & _ & L & _).
  pose proof (di_tree _ _ _ _ _ _ (fi_disk _ _ _ _ _ _ _ _ Hinv)) as HT.
  destruct (all_nodes_rep _ _ _ _ HT n Hn) as (t & bl' & Hr & Ht & Hbl').
  destruct (node_rep_slot _ _ _ _ _ Hr Ht) as (Hb & _).
  destruct Hbl' as [->|(e & ch & kids & Hnd & -> & Hch)].
  - exact (root_blocks_off_fat _ _ _ _ _ _ _ _ _ Hinv Hb).
  - exact (chain_blocks_off_fat fsz _ v _ _ _ L Hch Hb).
Qed.

(* ================================================================== 2. open files and directories across a change of the disk *)
(* the head of an open file is the head of no node at another position *)
Lemma file_head_not_node fsz vid s vi v bl rch T f m : fs_inv_at fsz vid s vi v bl rch T ->
  In f (s_files s) -> 2 <= e_cluster (f_entry f) -> In m (all_nodes T) -> node_pos m <> slot_key f ->
  ~ In (e_cluster (f_entry f)) (own_head m).
Proof.
  intros Hinv Hf H2 Hm Hpos Hin.
  pose proof (di_wf _ _ _ _ _ _ (fi_disk _ _ _ _ _ _ _ _ Hinv)) as W.
  destruct (heads_nodup v T (pend_of s v) (wf_heads _ _ _ W)) as (N1 & N2 & N3 & N4).
  destruct (ofile_head fsz vid s vi v bl rch T Hinv f Hf H2) as [(e0 & ch0 & Hn0 & Ec & Eb & Eo)|Hp].
  - assert (Hc0 : In (e_cluster (f_entry f)) (own_head (NFile e0 ch0))).
    { cbn [own_head]. rewrite Ec. apply N.leb_le in H2. rewrite H2. left. reflexivity. }
    pose proof (flat_map_owner own_head _ N1 _ _ _ Hm Hn0 Hin Hc0) as ->.
    apply Hpos. unfold node_pos, slot_key. cbn [node_entry]. rewrite Eb, Eo. reflexivity.
  - apply (N4 (e_cluster (f_entry f))); [exact (own_head_in T m _ Hm Hin)|].
    exact (pending_in s v f Hf Hp).
Qed.

Lemma cursor_ok_geo v v' ch cur : geo_eq v v' -> cursor_ok v ch cur -> cursor_ok v' ch cur.
Proof. intros (a & b & ->) H. exact H. Qed.

(* an open file stays sound when its node, its chain and its slot survive *)
Lemma go_ofile_keep fsz vid s vi v bl rch T s' v' T' f :
  fs_inv_at fsz vid s vi v bl rch T -> In f (s_files s) -> geo_eq v v' ->
  (forall e0 ch0, In (NFile e0 ch0) (all_nodes T) -> node_pos (NFile e0 ch0) = slot_key f ->
     exists ch1, In (NFile e0 ch1) (all_nodes T')) ->
  (2 <= e_cluster (f_entry f) -> forall ch, chain_at (s_disk s) v (e_cluster (f_entry f)) ch ->
     chain_at (s_disk s') v (e_cluster (f_entry f)) ch) ->
  slot (disk_get (s_disk s') (e_block (f_entry f))) (e_offset (f_entry f) / 32) =
  slot (disk_get (s_disk s) (e_block (f_entry f))) (e_offset (f_entry f) / 32) ->
  ofile_ok s' v' T' f /\ is_pending (s_disk s') v' f = is_pending (s_disk s) v f.
Proof.
  intros Hinv Hf G Hnode Hchain Hslot.
  pose proof (ofile_of fsz vid s vi v bl rch T Hinv f Hf) as [O1 O2 O3 O4 O5 O6 O7 O8 O9].
  assert (E32 : v_fat32 v' = v_fat32 v) by (destruct G as (a & b & ->); reflexivity).
  assert (Hpend : is_pending (s_disk s') v' f = is_pending (s_disk s) v f).
  { unfold is_pending, disk_entry, slot_tslot. rewrite E32, Hslot. reflexivity. }
  assert (Hfch : fchain (s_disk s') v' f = fchain (s_disk s) v f).
  { pose proof O5 as Q. unfold fchain in *. destruct (e_cluster (f_entry f) <? 2) eqn:Elt; [reflexivity|].
    apply N.ltb_ge in Elt. destruct Q as [(A1 & (fu & A2) & _)|(A1 & _)]; [|lia].
    pose proof (chain_at_any _ _ _ _ _ A2) as A3.
    apply chain_l_at. apply (chain_at_geo _ v v' _ _ G). exact (Hchain Elt _ A3). }
  split; [|exact Hpend].
  constructor; rewrite ?Hfch.
  - destruct G as (a & b & ->). exact O1.
  - destruct G as (a & b & ->). apply slot_ok_rebook. exact O2.
  - destruct O3 as (e0 & ch0 & Hn & Eb & Eo & En & Ec).
    destruct (Hnode e0 ch0 Hn ltac:(unfold node_pos, slot_key; cbn [node_entry]; rewrite Eb, Eo; reflexivity)) as (ch1 & Hn1).
    exists e0, ch1. repeat (split; [assumption|]). exact Ec.
  - exact O4.
  - unfold chain_ok in *. destruct O5 as [(A1 & (fu & A2) & A3)|A]; [left|right; exact A].
    split; [exact A1|]. split; [|exact (cursor_ok_geo v v' _ _ G A3)].
    exists (walk_fuel v'). apply (chain_at_geo _ v v' _ _ G). exact (Hchain A1 _ (chain_at_any _ _ _ _ _ A2)).
  - destruct G as (a & b & ->). exact O6.
  - exact O7.
  - exact O8.
  - rewrite Hpend. exact O9.
Qed.

(* assembling the invariant after an operation that pushed one file record *)
Theorem go_rebuild fsz vid s s' vi v v' bl rch T bl' rch' T' nf :
  fs_inv_at fsz vid s vi v bl rch T -> geo_eq v v' ->
  s_vols s' = [v'] -> s_lock s' = false -> alloc_pre s' vi v' fsz -> blocks_wf (s_disk s') ->
  s_dirs s' = s_dirs s -> s_files s' = s_files s ++ [nf] ->
  disk_inv (s_disk s') v' bl' rch' T' (pend_of s v) ->
  (forall f, In f (s_files s) -> ofile_ok s' v' T' f /\ is_pending (s_disk s') v' f = is_pending (s_disk s) v f) ->
  ofile_ok s' v' T' nf -> is_pending (s_disk s') v' nf = false ->
  ~ In (f_id nf) (map f_id (s_files s)) -> ~ In (slot_key nf) (map slot_key (s_files s)) ->
  (forall c, go_is_dir T c -> go_is_dir T' c) ->
  fs_inv_at fsz vid s' vi v' bl' rch' T'.
Proof.
  intros Hinv G Hvols Hlock Hpre Hwf Hdirs Hfiles Hdisk Hold Hnew Hnp Hid Hkey Hdir.
  pose proof Hinv as [A B C D E F G0 H I J K].
  pose proof G as (a & b & Ev').
  assert (Hvi0 : vi = 0%nat) by exact (proj1 (proj2 (proj2 (proj2 (proj2 (go_facts _ _ _ _ _ _ _ _ Hinv)))))).
  constructor.
  - rewrite Ev'. exact A.
  - exact Hvols.
  - destruct C as (_ & _ & C7 & C8 & _ & _).
    split; [exact Hlock|]. split; [exact Hpre|]. split; [rewrite Ev'; exact C7|]. split; [rewrite Ev'; exact C8|].
    split; [exact Hwf|]. rewrite Hvols, Hvi0. cbn [find_idx]. rewrite N.eqb_refl. reflexivity.
  - rewrite Ev'. exact (PrBounds.part_layout_geom v _ _ fsz (ex_intro _ a (ex_intro _ b eq_refl)) D).
  - rewrite Ev'. exact E.
  - rewrite Ev'. exact F.
  - replace (pend_of s' v') with (pend_of s v); [exact Hdisk|].
    unfold pend_of. rewrite Hfiles, filter_app, map_app. cbn [filter]. rewrite Hnp. cbn [map]. rewrite app_nil_r.
    clear - Hold. induction (s_files s) as [|f l IH]; [reflexivity|]. cbn [filter].
    rewrite (proj2 (Hold f (or_introl eq_refl))).
    pose proof (IH (fun g Hg => Hold g (or_intror Hg))) as IH'.
    destruct (is_pending (s_disk s) v f); cbn [map]; [f_equal|]; exact IH'.
  - rewrite Hfiles. apply Forall_app. split; [|constructor; [exact Hnew|constructor]].
    apply Forall_forall. intros f Hf. exact (proj1 (Hold f Hf)).
  - rewrite Hfiles, map_app. apply NoDup_snoc; assumption.
  - rewrite Hfiles, map_app. apply NoDup_snoc; assumption.
  - rewrite Hdirs. rewrite Forall_forall in *. intros dd Hdd Ev. rewrite Ev' in Ev. cbn [v_id set_v_free set_v_next_free] in Ev.
    assert (X : go_is_dir T (d_cluster dd)) by exact (K dd Hdd Ev). exact (Hdir _ X).
Qed.

(* ================================================================== 3. the slot of a file node is rewritten *)
(* a slot is a node slot by its first byte, its attribute byte and its 11 name bytes *)
Lemma node_slot_same (t t' : tslot) : get8 (snd t) 0 = get8 (snd t') 0 -> t_attr t = t_attr t' -> t_name t = t_name t' ->
  node_slot t = node_slot t' /\ t_is_end t = t_is_end t'.
Proof.
  intros H0 Ha Hn. unfold node_slot, short_slot, dot_slot, t_is_valid, t_is_end, is_valid, is_end.
  rewrite H0, Ha, Hn. split; reflexivity.
Qed.

Lemma file_cluster_small d v e ch : clusters_fit v -> entry_chain d v e ch ->
  e_cluster e < (if v_fat32 v then 4294967296 else 65536).
Proof.
  intros Hfit [(A1 & fu & A2)|(A1 & _)].
  - destruct (chain_of_head _ _ _ _ _ A2) as (_ & R2 & _). unfold clusters_fit, fat_bad in Hfit.
    destruct (v_fat32 v); lia.
  - destruct (v_fat32 v); lia.
Qed.

Section Rewrite.
  Variables (fsz : N) (d : disk) (v : vol) (bl rch : list N) (T : list node) (pend : list N) (e : dirent) (ch : list N) (e' : dirent).
  Hypothesis Hinv : disk_inv d v bl rch T pend.
  Hypothesis Hwf : blocks_wf d.
  Hypothesis L : fat_layout v fsz.
  Hypothesis Hfit : clusters_fit v.
  Hypothesis Hin : In (NFile e ch) (all_nodes T).
  Hypothesis Hoff : off_fat v fsz (e_block e).
  Hypothesis Ename : e_name e' = e_name e.
  Hypothesis Eattr : e_attr e' = e_attr e.
  Hypothesis Ecl : e_cluster e' = e_cluster e.
  Hypothesis Eblk : e_block e' = e_block e.
  Hypothesis Eofs : e_offset e' = e_offset e.
  Hypothesis Esize : e_size e' <= N.of_nat (length ch) * bytes_per_cluster v /\ e_size e' < U32.

  Local Notation blk := (e_block e).
  Local Notation new := (ser_bytes (v_fat32 v) e').
  Local Notation d' := (disk_set d blk (put_entry (v_fat32 v) e' (disk_get d blk))).
  Local Notation e2 := (t_entry (v_fat32 v) (blk, e_offset e, new)).
  Local Notation p := (node_pos (NFile e ch)).

  Lemma rewrite_facts :
    exists i, i < 16 /\ e_offset e = i * 32 /\
      node_rep d v (NFile e ch) (blk, i * 32, slot (disk_get d blk) i) /\
      node_slot (blk, i * 32, slot (disk_get d blk) i) = true /\
      length (e_name e) = 11%nat /\ e_name e = firstn 11 (slot (disk_get d blk) i).
  Proof.
    destruct (all_nodes_rep d v bl T (di_tree _ _ _ _ _ _ Hinv) _ Hin) as (t & bl0 & Hr & Ht & _).
    destruct (dir_nodes_in d bl0 t Ht) as (_ & Hns & b & i & Hb & Hi & Et).
    pose proof (node_rep_entry d v _ t Hr) as Ee. cbn [node_entry] in Ee.
    assert (Eb : e_block e = b) by (rewrite Ee, Et; reflexivity).
    assert (Eo : e_offset e = i * 32) by (rewrite Ee, Et; reflexivity).
    exists i. split; [exact Hi|]. split; [exact Eo|]. rewrite Eb, <- Et.
    split; [exact Hr|]. split; [exact Hns|].
    assert (En : e_name e = firstn 11 (slot (disk_get d b) i)) by (rewrite Ee, Et; reflexivity).
    split; [|exact En]. rewrite En, firstn_length, slot_length; [reflexivity|]. rewrite (Hwf b). lia.
  Qed.

  Theorem go_disk_inv_rewrite :
    disk_inv d' v bl rch (forest_replace p (NFile e2 ch) T) pend /\
    slot_write d d' blk (e_offset e / 32) new /\ blocks_wf d' /\
    In (NFile e2 ch) (all_nodes (forest_replace p (NFile e2 ch) T)) /\
    e_cluster e2 = e_cluster e /\ e_size e2 = e_size e' /\ e_block e2 = e_block e /\ e_offset e2 = e_offset e /\
    e_name e2 = e_name e /\ e_attr e2 = e_attr e /\
    (forall m, In m (all_nodes T) -> In (node_replace p (NFile e2 ch) m) (all_nodes (forest_replace p (NFile e2 ch) T))).
  Proof.
    destruct rewrite_facts as (i & Hi & Eo & Hr & Hns & Hlen & En).
    set (old := slot (disk_get d blk) i) in *.
    assert (Hlen' : length (e_name e') = 11%nat) by (rewrite Ename; exact Hlen).
    destruct (put_entry_slots (v_fat32 v) e' (disk_get d blk) (Hwf blk) Hlen' ltac:(rewrite Eofs, Eo; lia) ltac:(rewrite Eofs, Eo; lia))
      as (Hnl & Hslot & Hoth & _ & _).
    rewrite Eofs, Eo in Hslot, Hoth. replace (i * 32 / 32) with i in Hslot, Hoth by lia.
    assert (Hsw : slot_write d d' blk i new).
    { split; [intros j Hj; apply disk_get_set_other; congruence|]. rewrite disk_get_set_same. split; [exact Hslot|exact Hoth]. }
    destruct (ser_bytes_layout (v_fat32 v) e' Hlen') as (L0 & L11 & _ & _ & _ & _ & _ & _ & _ & Lfirst).
    assert (Hsame : node_slot (blk, i * 32, new) = node_slot (blk, i * 32, old) /\
                    t_is_end (blk, i * 32, new) = t_is_end (blk, i * 32, old)).
    { apply node_slot_same; cbn [snd].
      - rewrite Lfirst, Ename, En. apply get8_firstn.
      - unfold t_attr. cbn [snd]. rewrite L11, Eattr.
        apply node_rep_file in Hr. destruct Hr as (-> & _). reflexivity.
      - unfold t_name. cbn [snd]. rewrite L0, Ename. exact En. }
    destruct Hsame as (Hns' & Hend).
    assert (Hnfat : ~ fat_area v blk) by exact (off_fat_not_area fsz v blk L Hoff).
    pose proof Hr as Hr0. apply node_rep_file in Hr0. destruct Hr0 as (Ee & Hnd & Hech).
    pose proof (C02_codec_roundtrip_fields (v_fat32 v) e' blk (e_offset e) Hlen') as R.
    cbv zeta in R. destruct R as (R1 & R2 & R3 & _ & _ & _ & _ & R8 & R9 & R10).
    change (get_entry (v_fat32 v) (ser_bytes (v_fat32 v) e') blk (e_offset e)) with e2 in R1, R2, R3, R8, R9, R10.
    assert (Ec2 : e_cluster e2 = e_cluster e).
    { rewrite R10 by (rewrite Ecl; exact (file_cluster_small d v e ch Hfit Hech)).
      rewrite Eattr, Hnd, andb_false_r. exact Ecl. }
    assert (Es2 : e_size e2 = e_size e') by (apply R3; unfold U32 in Esize; exact (proj2 Esize)).
    assert (Hfat : forall j, fat_area v j -> disk_get d' j = disk_get d j)
      by (intros j Hj; apply (proj1 Hsw); intros ->; exact (Hnfat Hj)).
    assert (Hn2 : node_rep d' v (NFile e2 ch) (blk, i * 32, new)).
    { apply node_rep_file. split; [rewrite Eo; reflexivity|]. split; [rewrite R2, Eattr; exact Hnd|].
      apply (entry_chain_ext d d' v _ _ Hfat). destruct Hech as [(A1 & A2)|(A1 & A2)]; [left|right]; rewrite Ec2; auto. }
    assert (Hok2 : forall par, node_ok d' v par (NFile e2 ch)) by (intros par; apply node_ok_file; rewrite Es2; exact Esize).
    assert (Hp : p = (blk, i * 32)) by (unfold node_pos; cbn [node_entry]; rewrite Eo; reflexivity).
    assert (Hleaf : forall m, In m (all_nodes T) -> node_pos m = (blk, i * 32) -> m = NFile e ch).
    { intros m Hm Hpm. apply (pos_unique _ _ _ (di_pos _ _ _ _ _ _ Hinv) Hm Hin). rewrite Hpm, <- Hp. reflexivity. }
    assert (Hleaf' : forall m, In m (all_nodes T) -> node_pos m = (blk, i * 32) -> node_kids m = [])
      by (intros m Hm Hpm; rewrite (Hleaf m Hm Hpm); reflexivity).
    assert (Hown : own_head (NFile e2 ch) = own_head (NFile e ch)) by (cbn [own_head]; rewrite Ec2; reflexivity).
    rewrite Hp.
    split; [|split; [rewrite Eo; replace (i * 32 / 32) with i by lia; exact Hsw|split; [|split; [|repeat (split; [first [assumption|congruence]|])]]]].
    - apply (disk_inv_replace d d' v bl rch T pend pend blk i new (NFile e2 ch) Hinv Hsw Hnfat).
      + exact Hend.
      + exact Hns.
      + rewrite Hns'. exact Hns.
      + unfold t_name. cbn [snd]. rewrite L0, Ename. exact En.
      + exact Hn2.
      + exact Hok2.
      + reflexivity.
      + exact Hleaf'.
      + pose proof (heads_replace_perm (blk, i * 32) (NFile e2 ch) eq_refl v T (NFile e ch)
                      (di_pos _ _ _ _ _ _ Hinv) Hin Hp eq_refl Hleaf) as P.
        rewrite Hown in P. apply Permutation_app_inv_l in P.
        apply (fat_wf_perm d v (heads v T ++ pend)); [|exact (di_wf _ _ _ _ _ _ Hinv)].
        apply Permutation_app_tail. apply Permutation_sym. exact P.
    - intros j. destruct (N.eq_dec j blk) as [->|Hne]; [rewrite disk_get_set_same; exact Hnl|].
      rewrite disk_get_set_other by congruence. apply Hwf.
    - pose proof (In_all_nodes_replace (blk, i * 32) (NFile e2 ch) eq_refl T _ Hleaf' Hin) as X.
      rewrite (node_replace_hit _ _ _ Hp) in X. exact X.
    - intros m Hm. exact (In_all_nodes_replace (blk, i * 32) (NFile e2 ch) eq_refl T m Hleaf' Hm).
  Qed.
End Rewrite.

(* ---- what survives when the file node at position p is replaced by another leaf ---- *)
Definition tree_keeps (p : N * N) (T T' : list node) : Prop :=
  (forall e0 ch0, In (NFile e0 ch0) (all_nodes T) -> node_pos (NFile e0 ch0) <> p -> In (NFile e0 ch0) (all_nodes T')) /\
  (forall c, go_is_dir T c -> go_is_dir T' c).

Lemma tree_keeps_trans p A B C : tree_keeps p A B -> tree_keeps p B C -> tree_keeps p A C.
Proof. intros (A1 & A2) (B1 & B2). split; [intros e0 ch0 H Hp; exact (B1 _ _ (A1 _ _ H Hp) Hp)|intros c H; exact (B2 _ (A2 _ H))]. Qed.

Lemma tree_keeps_refl p A : tree_keeps p A A.
Proof. split; auto. Qed.

Lemma keeps_replace T p n' e ch : NoDup (map node_pos (all_nodes T)) -> In (NFile e ch) (all_nodes T) ->
  node_pos (NFile e ch) = p -> node_kids n' = [] -> tree_keeps p T (forest_replace p n' T).
Proof.
  intros Hnd Hin Hp Hk.
  assert (Hu : forall m, In m (all_nodes T) -> node_pos m = p -> m = NFile e ch)
    by (intros m Hm Hpm; apply (pos_unique _ _ _ Hnd Hm Hin); congruence).
  assert (Hleaf : forall m, In m (all_nodes T) -> node_pos m = p -> node_kids m = [])
    by (intros m Hm Hpm; rewrite (Hu m Hm Hpm); reflexivity).
  split.
  - intros e0 ch0 H0 Hp0. pose proof (In_all_nodes_replace p n' Hk T _ Hleaf H0) as X.
    rewrite (node_replace_miss_file p n' e0 ch0 Hp0) in X. exact X.
  - intros c [->|(e0 & ch0 & ks0 & H0 & Ec)]; [left; reflexivity|right].
    assert (Hp0 : node_pos (NDir e0 ch0 ks0) <> p) by (intros E; discriminate (Hu _ H0 E)).
    pose proof (In_all_nodes_replace p n' Hk T _ Hleaf H0) as X.
    rewrite (node_replace_miss_dir p n' e0 ch0 ks0 Hp0) in X.
    exists e0, ch0, (map (node_replace p n') ks0). split; [exact X|exact Ec].
Qed.

(* ================================================================== 4. the disk after a truncating open *)
(* d: before; d2: after truncate_cluster_chain; the result: d2 with the slot of the file rewritten *)
Section TruncDisk.
  Variables (fsz : N) (d d2 : disk) (v : vol) (bl rch : list N) (T : list node) (pend : list N)
            (e : dirent) (ch : list N) (e' : dirent).
  Hypothesis Hinv : disk_inv d v bl rch T pend.
  Hypothesis Hwf : blocks_wf d.
  Hypothesis Hwf2 : blocks_wf d2.
  Hypothesis L : fat_layout v fsz.
  Hypothesis Hfit : clusters_fit v.
  Hypothesis Hin : In (NFile e ch) (all_nodes T).
  Hypothesis Hoff : off_fat v fsz (e_block e).
  Hypothesis Hdirblocks : (forall j, In j bl -> off_fat v fsz j) /\
    (forall e0 ch0 kids0, In (NDir e0 ch0 kids0) (all_nodes T) -> forall j, In j (data_blocks v ch0) -> off_fat v fsz j).
  Hypothesis Ename : e_name e' = e_name e.
  Hypothesis Eattr : e_attr e' = e_attr e.
  Hypothesis Ecl : e_cluster e' = e_cluster e.
  Hypothesis Eblk : e_block e' = e_block e.
  Hypothesis Eofs : e_offset e' = e_offset e.
  Hypothesis Esize : e_size e' = 0.
  Hypothesis F4 : forall j, off_fat v fsz j -> disk_get d2 j = disk_get d j.
  Hypothesis Hcase :
    (e_cluster e < 2 /\ d2 = d) \/
    (2 <= e_cluster e /\ fat_wf d2 v (heads v T ++ pend) /\
     (forall h2 ch2, In h2 (heads v T ++ pend) -> h2 <> e_cluster e -> chain_at d v h2 ch2 -> chain_at d2 v h2 ch2) /\
     chain_at d2 v (e_cluster e) [e_cluster e]).

  Local Notation blk := (e_block e).
  Local Notation c := (e_cluster e).
  Local Notation d4 := (disk_set d2 blk (put_entry (v_fat32 v) e' (disk_get d2 blk))).
  Local Notation e2 := (t_entry (v_fat32 v) (blk, e_offset e, ser_bytes (v_fat32 v) e')).
  Local Notation p := (node_pos (NFile e ch)).

  Theorem trunc_disk : exists T' ch',
    disk_inv d4 v bl rch T' pend /\ tree_keeps p T T' /\ In (NFile e2 ch') (all_nodes T') /\
    blocks_wf d4 /\
    ((c < 2 /\ ch' = []) \/ (2 <= c /\ ch' = [c] /\ chain_at d4 v c [c])) /\
    (forall h2 ch2, In h2 (heads v T ++ pend) -> h2 <> c -> chain_at d v h2 ch2 -> chain_at d4 v h2 ch2) /\
    (forall b k, off_fat v fsz b -> (b, k) <> (blk, e_offset e / 32) -> slot (disk_get d4 b) k = slot (disk_get d b) k) /\
    slot (disk_get d4 blk) (e_offset e / 32) = ser_bytes (v_fat32 v) e' /\
    e_cluster e2 = c /\ e_size e2 = 0 /\ e_block e2 = blk /\ e_offset e2 = e_offset e /\ e_name e2 = e_name e /\ e_attr e2 = e_attr e.
  Proof.
    assert (Esz : e_size e' <= N.of_nat (length ch) * bytes_per_cluster v /\ e_size e' < U32)
      by (rewrite Esize; unfold U32; split; lia).
    destruct (go_disk_inv_rewrite fsz d v bl rch T pend e ch e' Hinv Hwf L Hfit Hin Hoff Ename Eattr Ecl Eblk Eofs Esz)
      as (HinvA & Hsw & HwfA & HinA & Ec2 & Es2 & Eb2 & Eo2 & En2 & Ea2 & HmapA).
    set (dA := disk_set d blk (put_entry (v_fat32 v) e' (disk_get d blk))) in *.
    set (TA := forest_replace p (NFile e2 ch) T) in *.
    pose proof (keeps_replace T p (NFile e2 ch) e ch (di_pos _ _ _ _ _ _ Hinv) Hin eq_refl eq_refl) as KA. fold TA in KA.
    rewrite Esize in Es2.
    assert (Hnfat : ~ fat_area v blk) by exact (off_fat_not_area fsz v blk L Hoff).
    assert (HslotA : forall b k, (b, k) <> (blk, e_offset e / 32) -> slot (disk_get dA b) k = slot (disk_get d b) k).
    { intros b k Hne. destruct Hsw as (S1 & _ & S3). destruct (N.eq_dec b blk) as [->|Hb]; [|rewrite (S1 b Hb); reflexivity].
      apply S3. intros ->. apply Hne. reflexivity. }
    destruct Hcase as [(Hc & ->)|(Hc & W2 & Hkeep2 & Hnew2)].
    - exists TA, ch. split; [exact HinvA|]. split; [exact KA|]. split; [exact HinA|]. split; [exact HwfA|].
      assert (Hch : ch = []).
      { destruct (all_nodes_rep d v bl T (di_tree _ _ _ _ _ _ Hinv) _ Hin) as (t & bl0 & Hr & _).
        apply node_rep_file in Hr. destruct Hr as (_ & _ & [(A1 & _)|(_ & A2)]); [lia|exact A2]. }
      split; [left; split; [exact Hc|exact Hch]|].
      split; [intros h2 ch2 _ _ H; apply (chain_at_ext d dA v _ _); [|exact H];
              intros j Hj; apply (proj1 Hsw); intros ->; exact (Hnfat Hj)|].
      split; [intros b k _ Hne; exact (HslotA b k Hne)|].
      split; [exact (proj1 (proj2 Hsw))|].
      repeat (split; [assumption|]). assumption.
    - (* the new block is the same whether written over d or over d2 *)
      assert (Eb : disk_get d2 blk = disk_get d blk) by exact (F4 blk Hoff).
      rewrite Eb.
      set (NB := put_entry (v_fat32 v) e' (disk_get d blk)) in *.
      assert (H4A : forall j, off_fat v fsz j -> disk_get (disk_set d2 blk NB) j = disk_get dA j).
      { intros j Hj. unfold dA. destruct (N.eq_dec j blk) as [->|Hne]; [rewrite !disk_get_set_same; reflexivity|].
        rewrite !disk_get_set_other by congruence. exact (F4 j Hj). }
      assert (Hfat42 : forall j, fat_area v j -> disk_get (disk_set d2 blk NB) j = disk_get d2 j)
        by (intros j Hj; apply disk_get_set_other; intros E; rewrite <- E in Hj; exact (Hnfat Hj)).
      assert (HfatA : forall j, fat_area v j -> disk_get dA j = disk_get d j)
        by (intros j Hj; apply disk_get_set_other; intros E; rewrite <- E in Hj; exact (Hnfat Hj)).
      assert (HfatA' : forall j, fat_area v j -> disk_get d j = disk_get dA j) by (intros j Hj; symmetry; exact (HfatA j Hj)).
      (* the heads of TA are those of T, up to order *)
      assert (Hu : forall m, In m (all_nodes T) -> node_pos m = p -> m = NFile e ch)
        by (intros m Hm Hpm; apply (pos_unique _ _ _ (di_pos _ _ _ _ _ _ Hinv) Hm Hin); exact Hpm).
      pose proof (heads_replace_perm p (NFile e2 ch) eq_refl v T (NFile e ch) (di_pos _ _ _ _ _ _ Hinv) Hin eq_refl eq_refl Hu) as P.
      assert (Hown : own_head (NFile e2 ch) = own_head (NFile e ch)) by (cbn [own_head]; rewrite Ec2; reflexivity).
      rewrite Hown in P. apply Permutation_app_inv_l in P. fold TA in P.
      assert (PA : Permutation (heads v TA ++ pend) (heads v T ++ pend)) by (apply Permutation_app_tail; exact P).
      assert (Hkeep4 : forall h2 ch2, In h2 (heads v T ++ pend) -> h2 <> c -> chain_at d v h2 ch2 ->
                chain_at (disk_set d2 blk NB) v h2 ch2).
      { intros h2 ch2 Hh Hne H. apply (chain_at_ext d2 _ v _ _ Hfat42). exact (Hkeep2 h2 ch2 Hh Hne H). }
      assert (Hnew4 : chain_at (disk_set d2 blk NB) v c [c]) by exact (chain_at_ext d2 _ v _ _ Hfat42 Hnew2).
      assert (Hpos2 : node_pos (NFile e2 ch) = p) by (unfold node_pos; cbn [node_entry]; rewrite Eb2, Eo2; reflexivity).
      pose proof (go_disk_inv_cut dA (disk_set d2 blk NB) v bl rch TA pend e2 ch HinvA) as Cut.
      rewrite Hpos2, Ec2 in Cut.
      exists (forest_replace p (NFile e2 [c]) TA), [c].
      split.
      { apply Cut.
        - intros j Hj. apply H4A. exact (proj1 Hdirblocks j Hj).
        - intros e0 ch0 kids0 H0 j Hj. apply H4A.
          destruct (all_nodes_rep dA v bl TA (di_tree _ _ _ _ _ _ HinvA) _ H0) as (t & bl0 & Hr & _).
          apply node_rep_dir in Hr. destruct Hr as (_ & _ & Hc0 & _).
          exact (chain_blocks_off_fat fsz dA v _ _ j L Hc0 Hj).
        - exact HinA.
        - exact Hc.
        - exact Hnew4.
        - intros h2 ch2 Hh Hne H. apply (Hkeep4 h2 ch2 (Permutation_in _ PA Hh) Hne).
          exact (chain_at_ext dA d v _ _ HfatA' H).
        - apply (fat_wf_perm _ v (heads v T ++ pend)); [apply Permutation_sym; exact PA|].
          exact (fat_wf_ext d2 _ v _ Hfat42 W2).
        - rewrite Es2. lia.
        - rewrite Es2. unfold U32. lia. }
      pose proof (keeps_replace TA p (NFile e2 [c]) e2 ch (di_pos _ _ _ _ _ _ HinvA) HinA Hpos2 eq_refl) as KB.
      split; [exact (tree_keeps_trans p _ _ _ KA KB)|].
      split.
      { assert (HleafA : forall m, In m (all_nodes TA) -> node_pos m = p -> node_kids m = []).
        { intros m Hm Hpm. rewrite (pos_unique _ _ _ (di_pos _ _ _ _ _ _ HinvA) Hm HinA ltac:(rewrite Hpm, Hpos2; reflexivity)). reflexivity. }
        pose proof (In_all_nodes_replace p (NFile e2 [c]) eq_refl TA _ HleafA HinA) as X.
        rewrite (node_replace_hit _ _ _ Hpos2) in X. exact X. }
      split.
      { intros j. destruct (N.eq_dec j blk) as [->|Hne].
        - rewrite disk_get_set_same. pose proof (HwfA blk) as X. unfold dA in X. rewrite disk_get_set_same in X. exact X.
        - rewrite disk_get_set_other by congruence. apply Hwf2. }
      split; [right; split; [exact Hc|split; [reflexivity|exact Hnew4]]|].
      split; [exact Hkeep4|].
      split.
      { intros b k Hb Hne. rewrite (H4A b Hb). exact (HslotA b k Hne). }
      split; [rewrite (H4A blk Hoff); exact (proj1 (proj2 Hsw))|].
      repeat (split; [assumption|]). assumption.
  Qed.
End TruncDisk.

(* ================================================================== 5. the truncating open *)
Definition loud (fsz vid : N) (s s' : st) : Prop :=
  fs_inv fsz vid s' /\ same_geo s s' /\
  exists ws, PrOrder.tsteps s s' ws /\ forall v, In v (s_vols s) -> Forall (PrBounds.in_region v fsz) ws.

(* truncate_cluster_chain on the chain of a file node of the tree *)
Lemma trunc_step fsz vid s vi v bl rch T e ch : fs_inv_at fsz vid s vi v bl rch T ->
  In (NFile e ch) (all_nodes T) ->
  exists s2 v2 ws,
    truncate_cluster_chain vi (e_cluster e) s = (Ok tt, s2) /\
    geo_eq v v2 /\ s_vols s2 = [v2] /\ alloc_pre s2 vi v2 fsz /\ blocks_wf (s_disk s2) /\
    PrChain.same_tabs s s2 /\
    (forall j, off_fat v fsz j -> disk_get (s_disk s2) j = disk_get (s_disk s) j) /\
    ((e_cluster e < 2 /\ s_disk s2 = s_disk s) \/
     (2 <= e_cluster e /\ fat_wf (s_disk s2) v (heads v T ++ pend_of s v) /\
      (forall h2 ch2, In h2 (heads v T ++ pend_of s v) -> h2 <> e_cluster e ->
         chain_at (s_disk s) v h2 ch2 -> chain_at (s_disk s2) v h2 ch2) /\
      chain_at (s_disk s2) v (e_cluster e) [e_cluster e])) /\
    PrOrder.tsteps s s2 ws /\ Forall (PrBounds.in_fat v fsz) ws.
Proof.
  intros Hinv Hin.
  destruct (go_facts _ _ _ _ _ _ _ _ Hinv) as (Hl & Hnf & Hc & Ev & E0 & Hv0 & Hv & L & Hwf & _). subst vi.
  pose proof (fi_vol _ _ _ _ _ _ _ _ Hinv) as Hlc. pose proof Hlc as (_ & Hpre & _).
  pose proof (fi_disk _ _ _ _ _ _ _ _ Hinv) as Hdisk.
  destruct (all_nodes_rep _ _ _ _ (di_tree _ _ _ _ _ _ Hdisk) _ Hin) as (t & bl0 & Hr & _).
  apply node_rep_file in Hr. destruct Hr as (_ & _ & Hech).
  destruct (trunc_run fsz s 0%nat v e ch Hlc Hech) as (s2 & v2 & ch' & Htr & Heffv & Htabs & _ & _).
  pose proof Heffv as [(nf2 & fc2 & Ev2) Hvols2 Hfiles2 Hlock2 Hpre2 Hwf2 _].
  assert (G : geo_eq v v2) by (exists nf2, fc2; exact Ev2).
  assert (Evols2 : s_vols s2 = [v2]) by (rewrite Hvols2, Ev; reflexivity).
  destruct Hech as [(A1 & fu & A2)|(A1 & ->)].
  - destruct (chain_of_head _ _ _ _ _ A2) as (_ & C2 & rest & ->).
    pose proof Hpre as (Hst & _).
    destruct (PrChain.truncate_cluster_chain_effect 0%nat v fsz s (e_cluster e) rest fu L Hst A2) as (s2' & Hrun' & Heff).
    rewrite Htr in Hrun'. injection Hrun' as <-.
    assert (Hh : In (e_cluster e) (heads v T ++ pend_of s v)).
    { apply in_or_app. left. unfold heads. apply in_or_app. right. apply (own_head_in T _ _ Hin).
      cbn [own_head]. apply N.leb_le in A1. rewrite A1. left. reflexivity. }
    destruct (C03_truncate_wf 0%nat v fsz s _ (e_cluster e) rest Hpre (di_wf _ _ _ _ _ _ Hdisk) Hh (chain_at_any _ _ _ _ _ A2))
      as (s2' & Hrun' & W2 & Hnew2 & Hoth2 & _ & _).
    rewrite Htr in Hrun'. injection Hrun' as <-.
    destruct (PrBounds.C04_truncate_cluster_chain 0%nat v (v_nblocks v) fsz s (e_cluster e) rest fu s2
                (fi_layout _ _ _ _ _ _ _ _ Hinv) L Hst A2 Htr) as (Hts & Hcl).
    exists s2, v2, (PrBounds.trunc_ws v (e_cluster e) rest).
    split; [exact Htr|]. split; [exact G|]. split; [exact Evols2|]. split; [exact Hpre2|]. split; [exact Hwf2|].
    split; [exact Htabs|].
    split; [intros j Hj; exact (PrChain.te_frame _ _ _ _ _ _ _ Heff j Hj)|].
    split; [right; split; [exact A1|split; [exact W2|split; [exact Hoth2|exact Hnew2]]]|].
    split; [exact Hts|exact Hcl].
  - rewrite (PrChain.truncate_reserved 0%nat _ s A1) in Htr. injection Htr as <-.
    exists s, v2, []. split; [exact (PrChain.truncate_reserved 0%nat _ s A1)|].
    split; [exact G|]. split; [exact Evols2|]. split; [exact Hpre2|]. split; [exact Hwf|].
    split; [exact Htabs|]. split; [intros j _; reflexivity|]. split; [left; split; [exact A1|reflexivity]|].
    split; [apply PrOrder.tsteps_refl|constructor].
Qed.


Lemma node_slot_index d v bl T n : tree_rep d v bl T -> In n (all_nodes T) ->
  exists i, i < 16 /\ e_offset (node_entry n) = i * 32.
Proof.
  intros HT Hn. destruct (all_nodes_rep d v bl T HT n Hn) as (t & bl0 & Hr & Ht & _).
  destruct (dir_nodes_in d bl0 t Ht) as (_ & _ & b & i & _ & Hi & Et).
  exists i. split; [exact Hi|]. rewrite (node_rep_entry d v n t Hr), Et. reflexivity.
Qed.

(* the slot of an open file, by its position *)
Lemma ofile_slot_facts fsz vid s vi v bl rch T f : fs_inv_at fsz vid s vi v bl rch T -> In f (s_files s) ->
  off_fat v fsz (e_block (f_entry f)) /\ exists i, i < 16 /\ e_offset (f_entry f) = i * 32.
Proof.
  intros Hinv Hf. destruct (of_node _ _ _ _ (ofile_of fsz vid s vi v bl rch T Hinv f Hf)) as (e0 & ch0 & Hn & Eb & Eo & _).
  split.
  - rewrite <- Eb. exact (node_block_off_fat _ _ _ _ _ _ _ _ _ Hinv Hn).
  - destruct (node_slot_index _ _ _ _ _ (di_tree _ _ _ _ _ _ (fi_disk _ _ _ _ _ _ _ _ Hinv)) Hn) as (i & Hi & E).
    exists i. split; [exact Hi|]. rewrite <- Eo. exact E.
Qed.
Lemma open_trunc_case fsz vid s vi v bl rch T h name di dd sfn bl' parent kids s1 md t :
  open_ctx fsz vid s vi v bl rch T h name di dd sfn bl' parent kids s1 ->
  find (t_matches sfn) (live_in_blocks (s_disk s) bl') = Some t ->
  PrModes.open_refusal md (Ok (t_entry (v_fat32 v) t)) (PrModes.is_open s1 (d_vol dd) (t_entry (v_fat32 v) t)) = None ->
  md = ReadWriteTruncate \/ md = ReadWriteCreateOrTruncate ->
  exists id s', open_file_in_dir h name md s = (Ok id, s') /\ loud fsz vid s s'.
Proof.
  intros [Hat Hfresh Hres Hvol Hroom Hsfn He5 Hdot Hctx Hlook Hro Hrd] Hfind Href Hmd.
  rewrite Hfind in Hlook. set (e := t_entry (v_fat32 v) t) in *.
  destruct (refusal_none_ok _ _ _ Href) as (Hop & Hnd & _).
  pose proof (go_ro _ _ _ _ _ _ _ _ _ Hat Hro) as Hat1.
  pose proof Hro as (Hd & Hc1 & Hnf1 & Hm1). pose proof Hm1 as (M1 & M2 & M3 & M4 & M5 & M6 & _).
  pose proof (sfn_of_str_wf _ _ Hsfn) as Hwf.
  rewrite <- Hd in Hctx, Hfind.
  destruct (found_file _ _ _ _ _ _ _ _ _ _ Hctx Hwf He5 Hdot Hfind Hnd) as (ch & Hk & Hall & Hr & Hn & Hshort & Hname).
  fold e in Hk, Hall, Hr.
  destruct (node_rep_slot _ _ _ _ _ Hr Hn) as (Hb & Ho & Hts & Hde & Hns). cbn [node_entry] in Hb, Ho, Hts, Hde.
  (* the handle counter advances *)
  set (sg := set_s_next_id s1 ((s_next_id s1 + 1) mod U32)).
  pose proof (go_bump _ _ _ _ _ _ _ _ ((s_next_id s1 + 1) mod U32) Hat1) as Hatg. fold sg in Hatg.
  destruct (go_facts _ _ _ _ _ _ _ _ Hatg) as (Hlg & Hnfg & Hcg & Evg & E0 & Hv0g & Hv & L & Hwfg & Hvid). subst vi.
  (* the chain is cut *)
  destruct (trunc_step _ _ _ _ _ _ _ _ e ch Hatg Hall) as (s2 & v2 & ws1 & Htr & G & Evols2 & Hpre2 & Hwf2 & Htabs & F4 & Hcase & Hts1 & Hcl1).
  pose proof Htabs as (T1 & T2 & T3 & T4 & T5 & _).
  pose proof Hpre2 as ((Hnf2 & Hc2 & Hvi2 & Hlen2) & L2 & Hh2).
  (* the clock is read, the entry is rewritten *)
  set (now := clock_ts (s_clock s2)).
  set (s3 := set_s_clock s2 (s_clock s2 + 1)).
  set (e' := set_e_mtime (set_e_size e 0) now).
  assert (Ects : ts_ok (e_ctime e)) by (unfold e, t_entry, get_entry; apply ts_from_fat_ok).
  destruct (write_entry_to_disk_spec v2 e' s3 Hnf2 Hc2 Ects ltac:(apply ts_cal_ok, clock_ts_cal) Ho)
    as (s4 & Hwrite & Hd4 & _ & Hfr4 & _ & _ & Hc4 & Hnf4 & Hm4 & Htr4).
  cbn [e_block e' set_e_mtime set_e_size] in Hd4, Hfr4, Htr4.
  change (s_disk s3) with (s_disk s2) in Hd4, Hfr4.
  assert (E32 : v_fat32 v2 = v_fat32 v) by (destruct G as (a & b & ->); reflexivity).
  rewrite E32 in Hd4.
  pose proof Hm4 as (Q1 & Q2 & Q3 & Q4 & Q5 & Q6 & _).
  set (nf := mk_fileinfo (s_next_id s1) (d_vol dd) 0 (e_cluster e) 0 ReadWriteTruncate e' false).
  (* the run *)
  assert (Hopen : open_file_in_dir h name md s = (Ok (s_next_id s1), set_s_files s4 (s_files s4 ++ [nf]))).
  { pose proof (PrModes.resolves_vol_id _ _ _ _ _ _ Hres) as Hvid'.
    assert (Htail : (truncate_cluster_chain 0%nat (e_cluster e) ;;;
                     now0 <- get_timestamp ;;
                     v' <- get_vol 0%nat ;;
                     write_entry_to_disk v' (set_e_mtime (set_e_size e 0) now0) ;;;
                     push_file (set_f_entry (mk_fileinfo (s_next_id s1) (d_vol dd) 0 (e_cluster e) 0
                                                         ReadWriteTruncate e false)
                                            (set_e_mtime (set_e_size e 0) now0)) ;;; ret (s_next_id s1)) sg
                    = (Ok (s_next_id s1), set_s_files s4 (s_files s4 ++ [nf]))).
    { rewrite (bind_ok _ _ _ _ _ Htr), (bind_ok _ _ _ _ _ (get_timestamp_eq s2)).
      rewrite (bind_ok _ _ _ _ _ (get_vol_some 0%nat _ s3 Hvi2)), (bind_ok _ _ _ _ _ Hwrite). reflexivity. }
    unfold open_file_in_dir. PrModes.open_prefix Hres Hroom Hsfn.
    unfold PrModes.dot_name in Hdot. rewrite Hdot.
    unfold bind at 1. unfold try. rewrite Hlook.
    rewrite PrModes.bind_ret, (bind_ok _ _ _ _ _ (PrModes.file_is_open_eq _ _ _)), Hvid'.
    cbn [PrModes.open_refusal] in Href.
    destruct (PrModes.is_open s1 (d_vol dd) e) eqn:Hop'; [discriminate|].
    destruct (mode_eqb md ReadWriteCreate) eqn:Hcm; [discriminate|].
    destruct (is_read_only (e_attr e) && negb (mode_eqb md ReadOnly)) eqn:Hrr; [discriminate|].
    destruct (is_directory (e_attr e)) eqn:Hdd; [discriminate|].
    destruct Hmd as [-> | ->]; cbn [solve_mode_variant mode_eqb] in *;
      rewrite Hrr, (bind_ok _ _ _ _ _ (PrModes.file_is_open_eq _ _ _)), Hop',
              (bind_ok _ _ _ _ _ (generate_spec s1)); exact Htail. }
  eexists. eexists. split; [exact Hopen|].
  set (s5 := set_s_files s4 (s_files s4 ++ [nf])).
  pose proof (fi_disk _ _ _ _ _ _ _ _ Hatg) as Hdiskg.
  pose proof (fi_vol _ _ _ _ _ _ _ _ Hatg) as (_ & _ & Hfit & _).
  assert (Hoffe : off_fat v fsz (e_block e)) by exact (node_block_off_fat _ _ _ _ _ _ _ _ _ Hatg Hall).
  assert (Hdirblocks : (forall j, In j bl -> off_fat v fsz j) /\
    (forall e0 ch0 kids0, In (NDir e0 ch0 kids0) (all_nodes T) -> forall j, In j (data_blocks v ch0) -> off_fat v fsz j)).
  { split; [intros j Hj; exact (root_blocks_off_fat _ _ _ _ _ _ _ _ j Hatg Hj)|].
    intros e0 ch0 kids0 H0 j Hj. exact (dir_node_blocks_off_fat fsz _ v bl T e0 ch0 kids0 j L (di_tree _ _ _ _ _ _ Hdiskg) H0 Hj). }
  destruct (trunc_disk fsz (s_disk sg) (s_disk s2) v bl rch T (pend_of sg v) e ch e' Hdiskg Hwfg Hwf2 L Hfit Hall Hoffe
              Hdirblocks eq_refl eq_refl eq_refl eq_refl eq_refl eq_refl F4 Hcase)
    as (T' & ch' & Hdisk4 & Hkeeps & Hin2 & Hwf4 & Hch' & Hkeep4 & Hslots4 & Hslot4 & Ec2 & Es2 & Eb2 & Eo2 & En2 & Ea2).
  rewrite <- Hd4 in Hdisk4, Hwf4, Hch', Hkeep4, Hslots4, Hslot4.
  set (e2 := t_entry (v_fat32 v) (e_block e, e_offset e, ser_bytes (v_fat32 v) e')) in *.
  assert (Hnokey : ~ In (e_block e, e_offset e) (map slot_key (s_files sg))).
  { apply (not_open_key s1 (v_id v) e); [rewrite <- Hvol; exact Hop|]. exact (files_on_vol _ _ _ _ _ _ _ _ Hat1). }
  destruct (node_slot_index _ _ _ _ _ (di_tree _ _ _ _ _ _ Hdiskg) Hall) as (ie & Hie & Eoe). cbn [node_entry] in Eoe.
  assert (Hold : forall f, In f (s_files sg) ->
            ofile_ok s5 v2 T' f /\ is_pending (s_disk s5) v2 f = is_pending (s_disk sg) v f).
  { intros f Hf.
    assert (Hkf : slot_key f <> (e_block e, e_offset e)) by (intros E; apply Hnokey; rewrite <- E; apply in_map; exact Hf).
    destruct (ofile_slot_facts _ _ _ _ _ _ _ _ f Hatg Hf) as (Hofff & i & Hi & Eoi).
    apply (go_ofile_keep fsz vid sg 0%nat v bl rch T s5 v2 T' f Hatg Hf G).
    - intros e0 ch0 H0 Hp0. exists ch0. apply (proj1 Hkeeps e0 ch0 H0). rewrite Hp0. exact Hkf.
    - intros H2 chf Hchf. change (s_disk s5) with (s_disk s4).
      apply (Hkeep4 _ _ (ofile_in_hs fsz vid sg 0%nat v bl rch T Hatg f Hf H2)); [|exact Hchf].
      intros Ec. apply (file_head_not_node _ _ _ _ _ _ _ _ f (NFile e ch) Hatg Hf H2 Hall).
      + intros E. apply Hkf. symmetry. exact E.
      + cbn [own_head]. rewrite <- Ec. apply N.leb_le in H2. rewrite H2. left. reflexivity.
    - change (s_disk s5) with (s_disk s4). apply Hslots4; [exact Hofff|]. intros E.
      pose proof (f_equal fst E) as E1. pose proof (f_equal snd E) as E2. cbn [fst snd] in E1, E2.
      apply Hkf. unfold slot_key. rewrite E1. f_equal. rewrite Eoi, Eoe in E2. rewrite Eoi, Eoe.
      rewrite !N.div_mul in E2 by lia. rewrite E2. reflexivity. }
  assert (Hslot5 : slot_tslot (s_disk s5) e' = (e_block e, e_offset e, ser_bytes (v_fat32 v) e')).
  { unfold slot_tslot. cbn [e_block e_offset e' set_e_mtime set_e_size]. change (s_disk s5) with (s_disk s4). rewrite Hslot4. reflexivity. }
  assert (Hnp : is_pending (s_disk s5) v2 nf = false).
  { unfold is_pending, disk_entry. cbn [f_entry nf]. rewrite Hslot5, E32. fold e2. rewrite Ec2.
    cbn [e_cluster e' set_e_mtime set_e_size].
    destruct (N.ltb_spec (e_cluster e) 2) as [H|H]; [|reflexivity]. cbn [andb]. apply N.leb_gt. exact H. }
  assert (Hnfat2 : ~ fat_area v2 (e_block e)).
  { destruct G as (a & b & ->). exact (off_fat_not_area fsz v _ L Hoffe). }
  assert (Hlen11 : length (e_name e) = 11%nat) by (unfold e; rewrite t_entry_name, Hname; exact (proj1 Hwf)).
  assert (Hnew : ofile_ok s5 v2 T' nf).
  { assert (Hfch : fchain (s_disk s5) v2 nf = ch').
    { unfold fchain. cbn [f_entry nf e_cluster e' set_e_mtime set_e_size]. change (s_disk s5) with (s_disk s4).
      destruct Hch' as [(A1 & ->)|(A1 & -> & A3)].
      - replace (e_cluster e <? 2) with true by (symmetry; apply N.ltb_lt; exact A1). reflexivity.
      - replace (e_cluster e <? 2) with false by (symmetry; apply N.ltb_ge; exact A1).
        apply chain_l_at. apply (chain_at_geo _ v v2 _ _ G). exact A3. }
    constructor; rewrite ?Hfch; cbn [f_vol f_entry f_offset f_dirty nf].
    - rewrite Hvol. destruct G as (a & b & ->). reflexivity.
    - constructor; cbn [e_ctime e_mtime e_name e_offset e_block e' set_e_mtime set_e_size].
      + exact Ects.
      + apply ts_cal_ok, clock_ts_cal.
      + exact Hlen11.
      + exact Ho.
      + exact Hnfat2.
    - exists e2, ch'. split; [exact Hin2|]. cbn [e_block e_offset e_name e_cluster e' set_e_mtime set_e_size].
      split; [exact Eb2|]. split; [exact Eo2|]. split; [exact En2|]. left. symmetry. exact Ec2.
    - cbn [e_attr e' set_e_mtime set_e_size]. split; [exact Hnd|].
      unfold e. rewrite t_entry_attr. unfold dir_shorts in Hshort. apply filter_In in Hshort.
      destruct Hshort as [_ Hs]. unfold short_slot in Hs. apply andb_true_iff in Hs. apply negb_true_iff. exact (proj2 Hs).
    - unfold chain_ok. cbn [f_entry f_cur_off f_cur_cluster nf e_cluster e' set_e_mtime set_e_size].
      change (s_disk s5) with (s_disk s4).
      destruct Hch' as [(A1 & ->)|(A1 & -> & A3)]; [right; split; [exact A1|split; [reflexivity|exact A1]]|left].
      split; [exact A1|]. split; [exists (walk_fuel v2); apply (chain_at_geo _ v v2 _ _ G); exact A3|].
      exists 0%nat. split; reflexivity.
    - cbn [e_size e' set_e_mtime set_e_size]. lia.
    - cbn [e_size e' set_e_mtime set_e_size]. lia.
    - cbn [e_size e' set_e_mtime set_e_size]. unfold U32. lia.
    - rewrite Hnp. discriminate. }
  assert (Hfiles5 : s_files s5 = s_files sg ++ [nf]).
  { unfold s5. cbn [s_files set_s_files]. rewrite Q3. change (s_files s3) with (s_files s2). rewrite T2. reflexivity. }
  assert (Hvols5 : s_vols s5 = [v2]) by (unfold s5; cbn [s_vols set_s_files]; rewrite Q1; exact Evols2).
  assert (Hinv5 : fs_inv_at fsz vid s5 0%nat v2 bl rch T').
  { apply (go_rebuild fsz vid sg s5 0%nat v v2 bl rch T bl rch T' nf Hatg G Hvols5).
    - unfold s5. cbn [s_lock set_s_files]. rewrite Q6. change (s_lock s3) with (s_lock s2). rewrite T5. exact Hlg.
    - split; [|split; [exact L2|exact Hh2]]. split; [exact Hnf4|]. split; [exact Hc4|].
      split; [rewrite Hvols5; reflexivity|]. intros k _. apply Hwf4.
    - exact Hwf4.
    - unfold s5. cbn [s_dirs set_s_files]. rewrite Q2. change (s_dirs s3) with (s_dirs s2). exact T1.
    - exact Hfiles5.
    - exact (disk_inv_geo _ v v2 _ _ _ _ G Hdisk4).
    - exact Hold.
    - exact Hnew.
    - exact Hnp.
    - cbn [f_id nf]. change (s_files sg) with (s_files s1). rewrite M3, M4. exact (fresh_file_id s Hfresh).
    - exact Hnokey.
    - exact (proj2 Hkeeps). }
  split; [exists 0%nat, v2, bl, rch, T'; exact Hinv5|].
  split.
  { exists v, v2. split; [rewrite <- M1; exact Evg|]. split; [exact Hvols5|exact G]. }
  exists (ws1 ++ [e_block e]). split.
  - apply (PrOrder.tsteps_trans s sg s5 [] _).
    + apply (tsteps_trace_eq s s1 sg [] (reads_only_tsteps _ _ Hrd)). reflexivity.
    + apply (PrOrder.tsteps_trans sg s2 s5 _ _ Hts1).
      destruct Htr4 as (pre & Etr & Hpre). unfold s5. change (s_trace s3) with (s_trace s2) in Hpre.
      destruct Hpre as [-> | ->].
      * exists [DWrite (e_block e) (put_entry (v_fat32 v2) e' (disk_get (s_disk s3) (e_block e)))].
        split; [cbn [s_trace set_s_files]; rewrite Etr; reflexivity|reflexivity].
      * exists [DWrite (e_block e) (put_entry (v_fat32 v2) e' (disk_get (s_disk s3) (e_block e))); DRead (e_block e)].
        split; [cbn [s_trace set_s_files]; rewrite Etr; reflexivity|reflexivity].
  - intros v0 Hv0. rewrite <- M1 in Hv0. change (s_vols s1) with (s_vols sg) in Hv0. rewrite Evg in Hv0.
    destruct Hv0 as [<-|[]]. apply Forall_app. split.
    + eapply Forall_impl; [|exact Hcl1]. intros i Hi. exact (PrBounds.region_of_fat v fsz i Hi).
    + constructor; [|constructor]. apply PrBounds.region_of_dir.
      pose proof (PrBounds.C04_dir_blocks_in_dir _ _ _ _ (dx_blocks _ _ _ _ _ _ _ _ Hctx)) as Hdb. rewrite Forall_forall in Hdb.
      exact (Hdb _ Hb).
Qed.

(* ================================================================== 6. the creating open *)
(* ---- what a tree that has, up to the kid lists, the nodes of T and one more keeps of T ---- *)
Definition node_key (n : node) : dirent * list N * bool := (node_entry n, node_chain n, node_is_dir n).
Definition own_key (n : node) : list (dirent * list N * bool) := [node_key n].

Lemma own_key_blind e ch k1 k2 : own_key (NDir e ch k1) = own_key (NDir e ch k2).
Proof. reflexivity. Qed.

Lemma in_own_key L x : In x (flat_map own_key L) <-> exists m, In m L /\ node_key m = x.
Proof.
  rewrite in_flat_map. split; intros (m & Hm & H); exists m; (split; [exact Hm|]).
  - destruct H as [H|[]]. exact H.
  - left. exact H.
Qed.

Lemma key_file m e0 ch0 : node_key m = (e0, ch0, false) -> m = NFile e0 ch0.
Proof. destruct m; unfold node_key; cbn [node_entry node_chain node_is_dir]; intros E; inversion E; reflexivity. Qed.

Lemma key_dir m e0 ch0 : node_key m = (e0, ch0, true) -> exists ks, m = NDir e0 ch0 ks.
Proof. destruct m; unfold node_key; cbn [node_entry node_chain node_is_dir]; intros E; inversion E. eexists. reflexivity. Qed.

Definition tree_incl (T T' : list node) : Prop :=
  (forall e0 ch0, In (NFile e0 ch0) (all_nodes T) -> In (NFile e0 ch0) (all_nodes T')) /\
  (forall c, go_is_dir T c -> go_is_dir T' c).

Lemma keys_incl T T' : (forall x, In x (flat_map own_key (all_nodes T)) -> In x (flat_map own_key (all_nodes T'))) ->
  tree_incl T T'.
Proof.
  intros H. split.
  - intros e0 ch0 H0. assert (X : In (e0, ch0, false) (flat_map own_key (all_nodes T')))
      by (apply H; apply in_own_key; exists (NFile e0 ch0); split; [exact H0|reflexivity]).
    apply in_own_key in X. destruct X as (m & Hm & Ek). rewrite <- (key_file m e0 ch0 Ek). exact Hm.
  - intros c [->|(e0 & ch0 & ks0 & H0 & Ec)]; [left; reflexivity|right].
    assert (X : In (e0, ch0, true) (flat_map own_key (all_nodes T')))
      by (apply H; apply in_own_key; exists (NDir e0 ch0 ks0); split; [exact H0|reflexivity]).
    apply in_own_key in X. destruct X as (m & Hm & Ek). destruct (key_dir m e0 ch0 Ek) as (ks & ->).
    exists e0, ch0, ks. split; [exact Hm|exact Ec].
Qed.

Lemma tree_keeps_incl p T T' : tree_incl T T' -> tree_keeps p T T'.
Proof. intros (A & B). split; [intros e0 ch0 H _; exact (A e0 ch0 H)|exact B]. Qed.

(* my directory context, in the vocabulary of PrGlobalDef *)
Lemma dir_ctx_is_dir_of d v bl rch T dc bl' parent kids : root_dir d v bl rch ->
  dir_ctx d v bl T dc bl' parent kids -> exists chd, PrGlobalDef.is_dir_of v bl rch T dc bl' chd.
Proof.
  intros Hroot Hctx. destruct (dx_where _ _ _ _ _ _ _ _ Hctx) as [(-> & -> & _)|(e & ch & Hn & Ec & -> & _)].
  - exists rch. left. auto.
  - exists ch. right. exists e, kids. auto.
Qed.

Lemma own_head_blind e ch k1 k2 : own_head (NDir e ch k1) = own_head (NDir e ch k2).
Proof. reflexivity. Qed.

(* ---- the disk after a create that found a free slot ---- *)
Section CreateDisk.
  Variables (fsz : N) (d d' : disk) (v : vol) (bl rch : list N) (T : list node) (pend : list N).
  Variables (dc : N) (bl' : list N) (parent : N) (kids : list node) (sfn : list N) (blk i : N) (sl0 : list N) (ts0 : ts).
  Local Notation off := (i * 32).
  Hypothesis Hinv : disk_inv d v bl rch T pend.
  Hypothesis Hlay : PrBounds.part_layout v (v_nblocks v) fsz.
  Hypothesis Hdev : v_lba v + v_nblocks v < U32.
  Hypothesis Hctx : dir_ctx d v bl T dc bl' parent kids.
  Hypothesis Hwf : sfn_wf sfn.
  Hypothesis He5 : get8 sfn 0 <> 229.
  Hypothesis Hdot : PrModes.dot_name sfn = false.
  Hypothesis Hnone : find (t_matches sfn) (live_in_blocks d bl') = None.
  Hypothesis Hfree : find nv (slots_of d bl') = Some (blk, off, sl0).
  Local Notation e := (mk_dirent sfn ts0 ts0 0 CL_EMPTY 0 blk off).
  Local Notation new := (ser_bytes (v_fat32 v) e).
  Hypothesis Hsw : slot_write d d' blk i new.
  Local Notation e2 := (t_entry (v_fat32 v) (blk, off, new)).

  Theorem create_disk : exists T',
    disk_inv d' v bl rch T' pend /\ tree_incl T T' /\ In (NFile e2 []) (all_nodes T') /\
    ~ In (blk, off) (map node_pos (all_nodes T)) /\ In blk bl' /\ i < 16 /\
    e_cluster e2 = 0 /\ e_size e2 = 0 /\ e_block e2 = blk /\ e_offset e2 = off /\ e_name e2 = sfn /\ e_attr e2 = 0.
  Proof.
    pose proof (find_some _ _ Hfree) as [Hin Hnv]. apply In_slots_of in Hin.
    destruct Hin as (b & i0 & Hb & Hi & Et). injection Et as E1 E2 E3. subst b sl0.
    assert (i0 = i) by lia. subst i0.
    destruct (dir_ctx_is_dir_of d v bl rch T dc bl' parent kids (di_root _ _ _ _ _ _ Hinv) Hctx) as (chd & Hdir).
    destruct Hwf as (Hlen & Hall).
    assert (Hlen' : length (e_name e) = 11%nat) by exact Hlen.
    destruct (ser_bytes_layout (v_fat32 v) e Hlen') as (L0 & L11 & _ & _ & _ & _ & _ & _ & _ & Lfirst).
    cbn [e_name e_attr] in L0, L11, Lfirst.
    pose proof (C02_codec_roundtrip_fields (v_fat32 v) e blk (i * 32) Hlen') as R.
    cbv zeta in R. destruct R as (R1 & R2 & R3 & _ & _ & _ & _ & R8 & R9 & R10).
    change (get_entry (v_fat32 v) (ser_bytes (v_fat32 v) e) blk (i * 32)) with e2 in R1, R2, R3, R8, R9, R10.
    cbn [e_name e_attr e_size e_cluster] in R1, R2, R3, R10.
    assert (Ec2 : e_cluster e2 = 0).
    { rewrite R10 by (unfold CL_EMPTY; destruct (v_fat32 v); lia). reflexivity. }
    assert (Es2 : e_size e2 = 0) by (apply R3; lia).
    assert (Hf0 : get8 new 0 <> 0) by (rewrite Lfirst; exact (sfn_first_byte sfn (conj Hlen Hall))).
    assert (Hend : is_end new = false) by (unfold is_end; apply N.eqb_neq; exact Hf0).
    assert (Hnode : node_slot (blk, i * 32, new) = true).
    { unfold node_slot, short_slot, t_is_valid, is_valid, dot_slot, t_attr, t_name. cbn [snd].
      rewrite Hend, L11, L0. unfold PrModes.dot_name in Hdot. rewrite Hdot.
      rewrite Lfirst. apply N.eqb_neq in He5. rewrite He5. reflexivity. }
    assert (Hfresh : ~ In (t_name (blk, i * 32, new)) (map t_name (dir_shorts d bl'))).
    { unfold t_name. cbn [snd]. rewrite L0. exact (notfound_slot d v dc parent bl' sfn (dx_ok _ _ _ _ _ _ _ _ Hctx) Hnone). }
    assert (Hrep : node_rep d' v (NFile e2 []) (blk, i * 32, new)).
    { apply node_rep_file. split; [reflexivity|]. split; [rewrite R2; reflexivity|]. right. split; [rewrite Ec2; lia|reflexivity]. }
    assert (Hok : node_ok d' v dc (NFile e2 [])).
    { apply node_ok_file. rewrite Es2. cbn [length]. unfold U32. split; lia. }
    destruct (tree_inv_insert d d' v bl rch T pend (v_nblocks v) fsz Hinv Hlay Hdev dc bl' chd blk i new Hdir Hsw Hb
                (NFile e2 []) Hfree Hend Hnode Hfresh Hrep Hok ltac:(repeat constructor; intros [])
                ltac:(intros q [])) as (k & HT' & Hperm).
    cbv zeta in HT', Hperm. set (T' := forest_upd_kids dc (ins_at k (NFile e2 [])) T) in *.
    exists T'.
    assert (Hnfat : ~ fat_area v blk).
    { exact (dir_blocks_not_fat d v bl rch T pend (v_nblocks v) fsz Hinv Hlay Hdev dc bl' chd blk Hdir Hb). }
    pose proof (slot_write_fat d d' v blk i new Hsw Hnfat) as Hfat.
    split.
    { apply (disk_inv_join d' v bl rch T' pend HT').
      apply (fat_wf_ext d d' v _ Hfat). apply (fat_wf_perm d v (heads v T ++ pend)); [|exact (di_wf _ _ _ _ _ _ Hinv)].
      apply Permutation_app_tail. unfold heads. apply Permutation_app_head. rewrite !heads_all_nodes.
      pose proof (Hperm _ own_head own_head_blind) as P. cbn [flatten flat_map own_head] in P. rewrite Ec2 in P.
      cbn [N.leb app] in P. apply Permutation_sym. exact P. }
    pose proof (Hperm _ own_key own_key_blind) as PK.
    split.
    { apply keys_incl. intros x Hx. apply (Permutation_in _ (Permutation_sym PK)). apply in_or_app. right. exact Hx. }
    split.
    { assert (X : In (node_key (NFile e2 [])) (flat_map own_key (all_nodes T'))).
      { apply (Permutation_in _ (Permutation_sym PK)). apply in_or_app. left. cbn [flatten flat_map own_key app]. left. reflexivity. }
      apply in_own_key in X. destruct X as (m & Hm & Ek). pose proof (key_file m e2 [] Ek) as Em. rewrite <- Em. exact Hm. }
    split.
    { unfold nv in Hnv. apply negb_true_iff in Hnv.
      exact (non_node_pos_free d v bl rch T pend Hinv blk i (proj2 (invalid_not_short _ Hnv)) Hi). }
    split; [exact Hb|]. split; [exact Hi|].
    repeat (split; [assumption|]). assumption.
  Qed.
End CreateDisk.

(* ---- the run of a creating open, up to write_new_directory_entry ---- *)
Lemma open_create_run fsz vid s vi v bl rch T h name di dd sfn bl' parent kids s1 md :
  open_ctx fsz vid s vi v bl rch T h name di dd sfn bl' parent kids s1 ->
  find (t_matches sfn) (live_in_blocks (s_disk s) bl') = None -> creating md = true ->
  open_file_in_dir h name md s =
    match write_new_directory_entry 0%nat (d_cluster dd) sfn 0 CL_EMPTY s1 with
    | (Ok entry, s2) =>
        (Ok (s_next_id s2), set_s_files (set_s_next_id s2 ((s_next_id s2 + 1) mod U32))
           (s_files s2 ++ [mk_fileinfo (s_next_id s2) (d_vol dd) 0 (e_cluster entry) 0 ReadWriteCreate entry false]))
    | (Err e, s2) => (Err e, s2)
    | (Panic, s2) => (Panic, s2)
    | (OutOfFuel, s2) => (OutOfFuel, s2)
    end.
Proof.
  intros [Hat Hfresh Hres Hvol Hroom Hsfn He5 Hdot Hctx Hlook Hro Hrd] Hfind Hcr.
  rewrite Hfind in Hlook.
  pose proof (go_ro _ _ _ _ _ _ _ _ _ Hat Hro) as Hat1.
  destruct (go_facts _ _ _ _ _ _ _ _ Hat1) as (_ & _ & _ & Ev1 & _).
  assert (H3' : get_volume_by_id (d_vol dd) s1 = (Ok 0%nat, s1)).
  { rewrite (vol_lookup s1 v (d_vol dd) Ev1), Hvol, N.eqb_refl. reflexivity. }
  unfold open_file_in_dir. PrModes.open_prefix Hres Hroom Hsfn.
  unfold PrModes.dot_name in Hdot. rewrite Hdot.
  unfold bind at 1. unfold try. rewrite Hlook. rewrite Hcr, !PrModes.bind_ret.
  assert (Hmv : solve_mode_variant md false = ReadWriteCreate) by (destruct md; try discriminate; reflexivity).
  cbn [negb]. rewrite Hmv. rewrite (bind_ok _ _ _ _ _ H3'). unfold bind at 1.
  destruct (write_new_directory_entry 0%nat (d_cluster dd) sfn 0 CL_EMPTY s1) as [[entry|e| |] s2]; reflexivity.
Qed.

(* the record of a file that was just created *)
Lemma new_empty_ofile s' v' T' e2 sfn ct blk off id :
  In (NFile e2 []) (all_nodes T') -> e_block e2 = blk -> e_offset e2 = off -> e_name e2 = sfn -> e_cluster e2 = 0 ->
  ts_ok ct -> length sfn = 11%nat -> off + 32 <= 512 -> ~ fat_area v' blk ->
  let en := mk_dirent sfn ct ct 0 CL_EMPTY 0 blk off in
  let nf := mk_fileinfo id (v_id v') 0 (e_cluster en) 0 ReadWriteCreate en false in
  ofile_ok s' v' T' nf /\ is_pending (s_disk s') v' nf = false.
Proof.
  intros Hin Eb Eo En Ec Hct Hlen Hoff Hnfat en nf.
  assert (Hnp : is_pending (s_disk s') v' nf = false).
  { unfold is_pending. cbn [f_entry nf e_cluster en]. unfold CL_EMPTY. rewrite andb_false_r. reflexivity. }
  split; [|exact Hnp].
  assert (Hfch : fchain (s_disk s') v' nf = []) by reflexivity.
  constructor; rewrite ?Hfch; cbn [f_vol f_entry f_offset f_dirty nf].
  - reflexivity.
  - constructor; cbn [e_ctime e_mtime e_name e_offset e_block en]; assumption.
  - exists e2, []. split; [exact Hin|]. cbn [e_block e_offset e_name e_cluster en].
    split; [exact Eb|]. split; [exact Eo|]. split; [exact En|]. left. rewrite Ec. reflexivity.
  - cbn [e_attr en]. split; reflexivity.
  - right. cbn [f_entry f_cur_cluster nf e_cluster en]. unfold CL_EMPTY. repeat split; lia.
  - cbn [e_size en length]. lia.
  - cbn [e_size en]. lia.
  - cbn [e_size en]. unfold U32. lia.
  - rewrite Hnp. discriminate.
Qed.

(* ---- the common end of a successful create: the record is pushed ---- *)
Lemma create_finish fsz vid s s1 s2 vi v v2 bl rch T bl2 rch2 T2 e2 sfn ct blk off vol_id ws :
  s_vols s1 = s_vols s -> id_fresh s -> s_next_id s1 = s_next_id s -> s_files s1 = s_files s ->
  fs_inv_at fsz vid s1 vi v bl rch T -> geo_eq v v2 -> vol_id = v_id v ->
  s_vols s2 = [v2] -> s_lock s2 = false -> alloc_pre s2 vi v2 fsz -> blocks_wf (s_disk s2) ->
  s_dirs s2 = s_dirs s1 -> s_files s2 = s_files s1 -> s_next_id s2 = s_next_id s1 ->
  disk_inv (s_disk s2) v2 bl2 rch2 T2 (pend_of s1 v) -> tree_incl T T2 ->
  In (NFile e2 []) (all_nodes T2) -> e_block e2 = blk -> e_offset e2 = off -> e_name e2 = sfn -> e_cluster e2 = 0 ->
  ts_ok ct -> length sfn = 11%nat -> off + 32 <= 512 -> ~ fat_area v2 blk ->
  ~ In (blk, off) (map node_pos (all_nodes T)) ->
  (forall f, In f (s_files s1) -> 2 <= e_cluster (f_entry f) -> forall ch, chain_at (s_disk s1) v (e_cluster (f_entry f)) ch ->
     chain_at (s_disk s2) v (e_cluster (f_entry f)) ch) ->
  (forall f, In f (s_files s1) ->
     slot (disk_get (s_disk s2) (e_block (f_entry f))) (e_offset (f_entry f) / 32) =
     slot (disk_get (s_disk s1) (e_block (f_entry f))) (e_offset (f_entry f) / 32)) ->
  PrOrder.tsteps s s2 ws -> Forall (PrBounds.in_region v fsz) ws ->
  let en := mk_dirent sfn ct ct 0 CL_EMPTY 0 blk off in
  loud fsz vid s (set_s_files (set_s_next_id s2 ((s_next_id s2 + 1) mod U32))
                   (s_files s2 ++ [mk_fileinfo (s_next_id s2) vol_id 0 (e_cluster en) 0 ReadWriteCreate en false])).
Proof.
  intros Hv1 Hfresh Hid1 Hfiles1 Hat1 G Evol Hvols2 Hlock2 Hpre2 Hwf2 Hdirs2 Hfiles2 Hid2
         Hdisk2 Hincl Hin2 Eb2 Eo2 En2 Ec2 Hct Hlen Hoff Hnfat Hpos Hchains Hslots Hts Hcl en.
  set (nf := mk_fileinfo (s_next_id s2) vol_id 0 (e_cluster en) 0 ReadWriteCreate en false).
  set (s5 := set_s_files (set_s_next_id s2 ((s_next_id s2 + 1) mod U32)) (s_files s2 ++ [nf])).
  destruct (go_facts _ _ _ _ _ _ _ _ Hat1) as (_ & _ & _ & Ev1 & E0 & _). subst vi.
  assert (Evid2 : v_id v2 = v_id v) by (destruct G as (a & b & ->); reflexivity).
  destruct (new_empty_ofile s5 v2 T2 e2 sfn ct blk off (s_next_id s2) Hin2 Eb2 Eo2 En2 Ec2 Hct Hlen Hoff Hnfat) as (Hnew & Hnp).
  rewrite Evid2, <- Evol in Hnew, Hnp. fold en nf in Hnew, Hnp.
  (* the slot keys of the open files are node positions *)
  assert (Hkeypos : forall f, In f (s_files s1) -> In (slot_key f) (map node_pos (all_nodes T))).
  { intros f Hf. destruct (of_node _ _ _ _ (ofile_of fsz vid s1 0%nat v bl rch T Hat1 f Hf)) as (e0 & ch0 & Hn & Eb & Eo & _).
    apply in_map_iff. exists (NFile e0 ch0). split; [|exact Hn]. unfold node_pos, slot_key. cbn [node_entry]. rewrite Eb, Eo. reflexivity. }
  assert (Hinv5 : fs_inv_at fsz vid s5 0%nat v2 bl2 rch2 T2).
  { apply (go_rebuild fsz vid s1 s5 0%nat v v2 bl rch T bl2 rch2 T2 nf Hat1 G); try assumption.
    - unfold s5. cbn [s_files set_s_files]. rewrite Hfiles2. reflexivity.
    - intros f Hf. apply (go_ofile_keep fsz vid s1 0%nat v bl rch T s5 v2 T2 f Hat1 Hf G).
      + intros e0 ch0 H0 _. exists ch0. exact (proj1 Hincl e0 ch0 H0).
      + intros H2 ch Hch. exact (Hchains f Hf H2 ch Hch).
      + exact (Hslots f Hf).
    - cbn [f_id nf]. rewrite Hid2, Hid1, Hfiles1. exact (fresh_file_id s Hfresh).
    - unfold slot_key at 1. cbn [f_entry nf e_block e_offset en]. intros Hk. apply Hpos.
      apply in_map_iff in Hk. destruct Hk as (f & Ek & Hf). rewrite <- Ek. exact (Hkeypos f Hf).
    - exact (proj2 Hincl). }
  split; [exists 0%nat, v2, bl2, rch2, T2; exact Hinv5|].
  split.
  { exists v, v2. split; [rewrite <- Hv1; exact Ev1|]. split; [exact Hvols2|exact G]. }
  exists ws. split.
  - apply (tsteps_trace_eq s s2 s5 ws Hts). reflexivity.
  - intros v0 Hv0. rewrite <- Hv1, Ev1 in Hv0. destruct Hv0 as [<-|[]]. exact Hcl.
Qed.

(* ---- the creating open, the directory has a free slot ---- *)
Lemma open_create_slot fsz vid s vi v bl rch T h name di dd sfn bl' parent kids s1 blk off sl0 s2 :
  open_ctx fsz vid s vi v bl rch T h name di dd sfn bl' parent kids s1 ->
  find (t_matches sfn) (live_in_blocks (s_disk s) bl') = None ->
  find nv (slots_of (s_disk s1) bl') = Some (blk, off, sl0) ->
  let en := mk_dirent sfn (clock_ts (s_clock s1)) (clock_ts (s_clock s1)) 0 CL_EMPTY 0 blk off in
  write_new_directory_entry 0%nat (d_cluster dd) sfn 0 CL_EMPTY s1 = (Ok en, s2) ->
  s_disk s2 = disk_set (s_disk s1) blk (set_bytes (disk_get (s_disk s1) blk) off (ser_bytes (v_fat32 v) en)) ->
  slot_write (s_disk s1) (s_disk s2) blk (off / 32) (ser_bytes (v_fat32 v) en) ->
  cache_ok s2 -> no_faults s2 -> same_tables s1 s2 ->
  loud fsz vid s (set_s_files (set_s_next_id s2 ((s_next_id s2 + 1) mod U32))
                   (s_files s2 ++ [mk_fileinfo (s_next_id s2) (d_vol dd) 0 (e_cluster en) 0 ReadWriteCreate en false])).
Proof.
  intros [Hat Hfresh Hres Hvol Hroom Hsfn He5 Hdot Hctx Hlook Hro Hrd] Hfind Hfree en Hrun Hd2 Hsw Hc2 Hnf2 Htab.
  pose proof (go_ro _ _ _ _ _ _ _ _ _ Hat Hro) as Hat1.
  pose proof Hro as (Hd & Hc1 & Hnf1 & Hm1). pose proof Hm1 as (M1 & M2 & M3 & M4 & M5 & M6 & _).
  pose proof Htab as (T1 & T2 & T3 & T4 & T5 & _).
  pose proof (sfn_of_str_wf _ _ Hsfn) as Hwf.
  assert (Hinv : fs_inv fsz vid s) by (exists vi, v, bl, rch, T; exact Hat).
  rewrite <- Hd in Hctx, Hfind.
  destruct (go_facts _ _ _ _ _ _ _ _ Hat1) as (Hl1 & _ & _ & Ev1 & E0 & Hv01 & Hv & L & Hwf1 & _). subst vi.
  pose proof (fi_vol _ _ _ _ _ _ _ _ Hat1) as (_ & Hpre1 & _).
  pose proof (find_some _ _ Hfree) as [Hin _]. apply In_slots_of in Hin.
  destruct (Hin) as (b & i & Hb & Hi & Et). injection Et as E1 E2 E3. subst b off sl0.
  replace (i * 32 / 32) with i in Hsw by lia.
  destruct (create_disk fsz (s_disk s1) (s_disk s2) v bl rch T (pend_of s1 v) (d_cluster dd) bl' parent kids sfn blk i _
              (clock_ts (s_clock s1)) (fi_disk _ _ _ _ _ _ _ _ Hat1) (fi_layout _ _ _ _ _ _ _ _ Hat1) (fi_dev _ _ _ _ _ _ _ _ Hat1)
              Hctx Hwf He5 Hdot Hfind Hfree Hsw)
    as (T' & Hdisk2 & Hincl & Hin2 & Hpos & _ & _ & Ec2 & Es2 & Eb2 & Eo2 & En2 & Ea2).
  assert (Hoffb : off_fat v fsz blk).
  { destruct (dx_where _ _ _ _ _ _ _ _ Hctx) as [(_ & -> & _)|(e0 & ch0 & _ & _ & -> & Hch0 & _)].
    - exact (root_blocks_off_fat _ _ _ _ _ _ _ _ _ Hat1 Hb).
    - exact (chain_blocks_off_fat fsz _ v _ _ _ L Hch0 Hb). }
  assert (Hnfat : ~ fat_area v blk) by exact (off_fat_not_area fsz v blk L Hoffb).
  pose proof (slot_write_fat _ _ v blk i _ Hsw Hnfat) as Hfat.
  assert (Hwf2 : blocks_wf (s_disk s2)).
  { intros j. rewrite Hd2. destruct (N.eq_dec j blk) as [->|Hne].
    - rewrite disk_get_set_same, set_bytes_length; [apply Hwf1|].
      rewrite (ser_bytes_length (v_fat32 v) en (proj1 Hwf)), (Hwf1 blk). lia.
    - rewrite disk_get_set_other by congruence. apply Hwf1. }
  destruct (PrBounds.C04_write_new_directory_entry 0%nat v (v_nblocks v) fsz (d_cluster dd) sfn 0 CL_EMPTY s1 bl' en s2
              (fi_layout _ _ _ _ _ _ _ _ Hat1) Hpre1 (dx_blocks _ _ _ _ _ _ _ _ Hctx) Hrun) as (gw & Hts & Hgw & Hdirb).
  apply (create_finish fsz vid s s1 s2 0%nat v v bl rch T bl rch T'
           (t_entry (v_fat32 v) (blk, i * 32, ser_bytes (v_fat32 v) en)) sfn (clock_ts (s_clock s1)) blk (i * 32) (d_vol dd)
           (gw ++ [e_block en]) M1 Hfresh M4 M3 Hat1 (geo_eq_refl v) Hvol).
  - rewrite T1. exact Ev1.
  - rewrite T5. exact Hl1.
  - destruct Hpre1 as (_ & Lx & Hh). split; [|split; assumption]. split; [exact Hnf2|]. split; [exact Hc2|].
    split; [rewrite T1; exact Hv01|]. intros k _. apply Hwf2.
  - exact Hwf2.
  - exact T2.
  - exact T3.
  - exact T4.
  - exact Hdisk2.
  - exact Hincl.
  - exact Hin2.
  - exact Eb2.
  - exact Eo2.
  - exact En2.
  - exact Ec2.
  - apply ts_cal_ok, clock_ts_cal.
  - exact (proj1 Hwf).
  - lia.
  - exact Hnfat.
  - exact Hpos.
  - intros f Hf H2 ch Hch. exact (chain_at_ext _ _ v _ _ Hfat Hch).
  - intros f Hf.
    assert (Hk : slot_key f <> (blk, i * 32)).
    { intros E. apply Hpos. rewrite <- E.
      destruct (of_node _ _ _ _ (ofile_of fsz vid s1 0%nat v bl rch T Hat1 f Hf)) as (e0 & ch0 & Hn & Eb & Eo & _).
      apply in_map_iff. exists (NFile e0 ch0). split; [|exact Hn]. unfold node_pos, slot_key. cbn [node_entry]. rewrite Eb, Eo. reflexivity. }
    destruct (ofile_slot_facts _ _ _ _ _ _ _ _ f Hat1 Hf) as (_ & i0 & Hi0 & Eo0).
    destruct Hsw as (S1 & _ & S3). destruct (N.eq_dec (e_block (f_entry f)) blk) as [Eb|Hne]; [|rewrite (S1 _ Hne); reflexivity].
    rewrite Eb. apply S3. intros Ei. apply Hk. unfold slot_key. rewrite Eb, Eo0. f_equal.
    rewrite Eo0 in Ei. rewrite N.div_mul in Ei by lia. rewrite Ei. reflexivity.
  - exact (PrOrder.tsteps_trans s s1 s2 [] _ (reads_only_tsteps _ _ Hrd) Hts).
  - apply Forall_app. split.
    + eapply Forall_impl; [|exact Hgw]. intros j Hj. exact (PrBounds.region_of_fat_data v fsz j Hj).
    + constructor; [|constructor]. exact (PrBounds.region_of_dir v fsz _ Hdirb).
Qed.

(* ================================================================== 7. the directory grows by one zeroed cluster *)
Lemma node_dir_blocks_inv v : forall n j, In j (node_dir_blocks v n) ->
  exists e ch kids, In (NDir e ch kids) (flatten n) /\ In j (data_blocks v ch).
Proof.
  induction n as [e0 ch0|e0 ch0 kids0 IH] using node_ind'; intros j Hj.
  - destruct Hj.
  - cbn [node_dir_blocks] in Hj. apply in_app_or in Hj. destruct Hj as [Hj|Hj].
    + exists e0, ch0, kids0. split; [apply flatten_self|exact Hj].
    + apply in_flat_map in Hj. destruct Hj as (k & Hk & Hj). rewrite Forall_forall in IH.
      destruct (IH k Hk j Hj) as (e & ch & kids & A & B). exists e, ch, kids.
      split; [exact (flatten_kid e0 ch0 kids0 k _ Hk A)|exact B].
Qed.

Lemma tree_dir_blocks_inv v bl T j : In j (tree_dir_blocks v bl T) ->
  In j bl \/ exists e ch kids, In (NDir e ch kids) (all_nodes T) /\ In j (data_blocks v ch).
Proof.
  unfold tree_dir_blocks. intros Hj. apply in_app_or in Hj. destruct Hj as [Hj|Hj]; [left; exact Hj|right].
  apply in_flat_map in Hj. destruct Hj as (n & Hn & Hj). destruct (node_dir_blocks_inv v n j Hj) as (e & ch & kids & A & B).
  exists e, ch, kids. split; [apply in_flat_map; exists n; split; assumption|exact B].
Qed.

(* keys that neither the kid lists nor the chains of directories influence *)
Definition own_fkey (n : node) : list (dirent * list N) := match n with NFile e ch => [(e, ch)] | NDir _ _ _ => [] end.
Definition own_dkey (n : node) : list dirent := match n with NFile _ _ => [] | NDir e _ _ => [e] end.

Lemma set_chain_incl dc ch' T : tree_incl T (forest_set_chain dc ch' T).
Proof.
  split.
  - intros e0 ch0 H0.
    assert (X : In (e0, ch0) (flat_map own_fkey (all_nodes (forest_set_chain dc ch' T)))).
    { rewrite (summary_set_chain dc ch' T _ own_fkey) by (intros [e ch|e ch ks]; reflexivity).
      apply in_flat_map. exists (NFile e0 ch0). split; [exact H0|left; reflexivity]. }
    apply in_flat_map in X. destruct X as (m & Hm & Hk). destruct m as [e ch|e ch ks]; [|destruct Hk].
    destruct Hk as [E|[]]. injection E as -> ->. exact Hm.
  - intros c [->|(e0 & ch0 & ks0 & H0 & Ec)]; [left; reflexivity|right].
    assert (X : In e0 (flat_map own_dkey (all_nodes (forest_set_chain dc ch' T)))).
    { rewrite (summary_set_chain dc ch' T _ own_dkey) by (intros [e ch|e ch ks]; reflexivity).
      apply in_flat_map. exists (NDir e0 ch0 ks0). split; [exact H0|left; reflexivity]. }
    apply in_flat_map in X. destruct X as (m & Hm & Hk). destruct m as [e ch|e ch ks]; [destruct Hk|].
    destruct Hk as [E|[]]. subst e. exists e0, ch, ks. split; [exact Hm|exact Ec].
Qed.

Section GrowDisk.
  Variables (fsz : N) (d da : disk) (v : vol) (bl rch : list N) (T : list node) (pend : list N) (dc c0 : N) (ch : list N) (cn : N).
  Hypothesis Hinv : disk_inv d v bl rch T pend.
  Hypothesis L : fat_layout v fsz.
  Hypothesis Hlay : PrBounds.part_layout v (v_nblocks v) fsz.
  Hypothesis Hhead : (dc = CL_ROOT /\ v_fat32 v = true /\ c0 = v_root_cluster v /\ ch = rch) \/
                     (exists e kids, In (NDir e ch kids) (all_nodes T) /\ e_cluster e = dc /\ c0 = dc).
  Hypothesis Hch : chain_at d v c0 ch.
  Hypothesis W' : fat_wf da v (heads v T ++ pend).
  Hypothesis Hnew : chain_at da v c0 (ch ++ [cn]).
  Hypothesis Hoth : forall h2 ch2, In h2 (heads v T ++ pend) -> h2 <> c0 -> chain_at d v h2 ch2 -> chain_at da v h2 ch2.
  Hypothesis Hcn : 2 <= cn /\ cn < v_clusters v + 2 /\ fat_get d v 0 cn = 0.
  Hypothesis Hframe : forall j, off_fat v fsz j -> ~ In j (cluster_blocks v cn) -> disk_get da j = disk_get d j.
  Hypothesis Hzero : forall j, In j (cluster_blocks v cn) -> disk_get da j = zero_block.

  Let W := di_wf _ _ _ _ _ _ Hinv.

  (* a block of a chain of the old FAT is no block of the new cluster *)
  Lemma chain_block_old h0 ch0 j : chain_at d v h0 ch0 -> In j (data_blocks v ch0) ->
    off_fat v fsz j /\ ~ In j (cluster_blocks v cn).
  Proof.
    intros H0 Hj. split; [exact (chain_blocks_off_fat fsz d v h0 ch0 j L H0 Hj)|].
    unfold data_blocks in Hj. apply in_flat_map in Hj. destruct Hj as (x & Hx & Hj).
    destruct (chain_at_mem _ _ _ _ x H0 Hx) as (X1 & _ & X3 & _).
    assert (Hne : x <> cn) by (intros ->; destruct Hcn as (_ & _ & Z); contradiction).
    intros Hin. exact (cluster_blocks_apart v x cn j j Hne X1 (proj1 Hcn) Hj Hin eq_refl).
  Qed.

  Lemma root_block_old j : In j bl -> off_fat v fsz j /\ ~ In j (cluster_blocks v cn).
  Proof.
    intros Hj. pose proof (di_root _ _ _ _ _ _ Hinv) as Hroot. unfold root_dir in Hroot.
    destruct (v_fat32 v) eqn:E32.
    - destruct Hroot as (Hc & ->). exact (chain_block_old _ _ j Hc Hj).
    - destruct Hroot as (_ & ->). split; [exact (root16_block_off_fat fsz v j Hlay E32 Hj)|].
      exact (root16_no_cluster' v _ fsz j cn Hlay E32 Hj (proj1 Hcn)).
  Qed.

  Lemma dir_block_old e0 ch0 kids0 j : In (NDir e0 ch0 kids0) (all_nodes T) -> In j (data_blocks v ch0) ->
    disk_get da j = disk_get d j.
  Proof.
    intros H0 Hj. destruct (dir_node_chain d v bl rch T pend Hinv e0 ch0 kids0 H0) as (Hc & _).
    destruct (chain_block_old _ _ j Hc Hj) as (A & B). exact (Hframe j A B).
  Qed.

  Lemma node_head_in m h : In m (all_nodes T) -> In h (own_head m) -> In h (heads v T ++ pend).
  Proof. intros Hm Hh. apply in_or_app. left. unfold heads. apply in_or_app. right. exact (own_head_in T m h Hm Hh). Qed.

  Theorem grow_disk : exists bl_a rch_a T_a,
    disk_inv da v bl_a rch_a T_a pend /\ tree_incl T T_a /\
    map node_pos (all_nodes T_a) = map node_pos (all_nodes T) /\
    heads v T_a = heads v T.
  Proof.
    destruct (heads_nodup v T pend (wf_heads _ _ _ W)) as (N1 & N2 & N3 & N4).
    pose proof (disk_inv_tree _ _ _ _ _ _ Hinv) as HT.
    destruct Hhead as [(Edc & E32 & Ec0 & Erch)|(e & kids & Hn & Edc & Ec0)].
    - (* the FAT32 root directory grows *)
      pose proof Hnew as Hnew'. rewrite Ec0, Erch in Hnew'.
      assert (Hoth' : forall h2 ch2, In h2 (heads v T ++ pend) -> h2 <> v_root_cluster v -> chain_at d v h2 ch2 -> chain_at da v h2 ch2)
        by (rewrite <- Ec0; exact Hoth).
      assert (Hr : In (v_root_cluster v) (root_heads v)) by (unfold root_heads; rewrite E32; left; reflexivity).
      exists (bl ++ cluster_blocks v cn), (rch ++ [cn]), T.
      split; [|split; [split; auto|split; reflexivity]].
      apply (disk_inv_join da v _ _ T pend); [|exact W'].
      apply (tree_inv_grow_root d da v bl rch T cn HT E32 Hnew' Hzero).
      + intros j Hj. destruct (tree_dir_blocks_inv v bl T j Hj) as [Hb|(e0 & ch0 & kids0 & H0 & Hb)].
        * destruct (root_block_old j Hb) as (A & B). exact (Hframe j A B).
        * exact (dir_block_old e0 ch0 kids0 j H0 Hb).
      + intros m Hm Hne.
        destruct (node_chain_head d v bl T (di_tree _ _ _ _ _ _ Hinv) m Hm) as [(A & _)|(h & A & -> & B)]; [contradiction|].
        assert (Hh : In (e_cluster (node_entry m)) (own_head m)) by (rewrite A; left; reflexivity).
        apply (Hoth' _ _ (node_head_in m _ Hm Hh)); [|exact B].
        intros Eq. apply (proj1 (N3 _ Hr)). rewrite <- Eq. exact (own_head_in T m _ Hm Hh).
    - (* a sub-directory grows *)
      pose proof Hnew as Hnew'. rewrite Ec0 in Hnew'.
      assert (Hoth' : forall h2 ch2, In h2 (heads v T ++ pend) -> h2 <> dc -> chain_at d v h2 ch2 -> chain_at da v h2 ch2)
        by (rewrite <- Ec0; exact Hoth).
      assert (HD : In dc (own_head (NDir e ch kids))) by (left; exact Edc).
      exists bl, rch, (forest_set_chain dc (ch ++ [cn]) T).
      split; [|split; [apply set_chain_incl|split; [apply positions_set_chain|apply heads_set_chain]]].
      apply (disk_inv_join da v _ _ _ pend); [|rewrite heads_set_chain; exact W'].
      apply (tree_inv_grow d da v dc cn ch Hnew' Hzero bl rch T HT).
      + intros m Hm. split; [|split].
        * destruct m as [e0 ch0|e0 ch0 kids0]; [intros j []|]. intros j Hj. exact (dir_block_old e0 ch0 kids0 j Hm Hj).
        * intros Hne Hnd.
          destruct (node_chain_head d v bl T (di_tree _ _ _ _ _ _ Hinv) m Hm) as [(A & _)|(h & A & -> & B)]; [contradiction|].
          assert (Hh : In (e_cluster (node_entry m)) (own_head m)) by (rewrite A; left; reflexivity).
          apply (Hoth' _ _ (node_head_in m _ Hm Hh)); [|exact B].
          intros Eq. rewrite Eq in Hh. pose proof (flat_map_owner own_head _ N1 _ _ _ Hm Hn Hh HD) as ->.
          exact (Hnd e ch kids eq_refl Edc).
        * intros e0 ch0 kids0 -> E0.
          assert (Hh : In dc (own_head (NDir e0 ch0 kids0))) by (left; exact E0).
          pose proof (flat_map_owner own_head _ N1 _ _ _ Hm Hn Hh HD) as Eq. injection Eq as _ -> _. reflexivity.
      + intros j Hj. destruct (root_block_old j Hj) as (A & B). exact (Hframe j A B).
      + intros E32. pose proof (di_root _ _ _ _ _ _ Hinv) as H0. unfold root_dir in H0. rewrite E32 in H0. destruct H0 as (Hc & _).
        assert (Hr : In (v_root_cluster v) (root_heads v)) by (unfold root_heads; rewrite E32; left; reflexivity).
        apply (Hoth' _ _ ltac:(apply in_or_app; left; unfold heads; apply in_or_app; left; exact Hr)); [|exact Hc].
        intros Eq. apply (proj1 (N3 _ Hr)). rewrite Eq. exact (own_head_in T _ _ Hn HD).
  Qed.
End GrowDisk.

(* ---- an allocation keeps 512-byte blocks ---- *)
Lemma alloc_blocks_wf vi v fsz prev zero s c s' : alloc_eff vi v fsz prev zero s c s' -> blocks_wf (s_disk s) ->
  blocks_wf (s_disk s').
Proof.
  intros Heff Hwf. rewrite (tr_ext_disk _ _ _ (ae_trace _ _ _ _ _ _ _ _ Heff)).
  apply blocks_wf_apply; [exact Hwf|]. unfold alloc_writes.
  assert (H1 : length (alloc_nb1 v (s_disk s) c) = 512%nat) by (apply fat_put_block_length; apply Hwf).
  apply Forall_app. split; [apply Forall_map_const; intros x; exact H1|].
  apply Forall_app. split.
  - destruct zero; [|constructor]. apply Forall_map_const. intros x. reflexivity.
  - destruct prev as [p|]; [|constructor]. apply Forall_map_const. intros x. cbn [snd]. unfold alloc_nb2.
    apply fat_put_block_length. destruct (fat_sector v 0 p =? fat_sector v 0 c); [exact H1|apply Hwf].
Qed.

(* the directory context, from the disk-level invariant alone *)
Theorem dir_ctx_of_disk d v bl rch T pend dc : vol_ok v -> disk_inv d v bl rch T pend -> go_is_dir T dc ->
  exists bl' parent kids, dir_ctx d v bl T dc bl' parent kids.
Proof.
  intros Hv [Droot Dtree Drootok Dnodes Dwf Dpos] Hdc.
  destruct Hdc as [->|(e & ch & kids & Hn & <-)].
  - exists bl, CL_ROOT, T. constructor.
    + unfold root_dir in Droot. unfold dir_blocks, dir_first_cluster. rewrite N.eqb_refl, !andb_true_r.
      destruct (v_fat32 v); cbn [negb].
      * destruct Droot as (Hch & ->). unfold chain_at in Hch. rewrite Hch. reflexivity.
      * destruct Droot as (_ & ->). reflexivity.
    + exact Drootok.
    + exact Dtree.
    + intros n Hn. exact (all_nodes_top T n Hn).
    + left. reflexivity.
    + exact Dnodes.
    + left. repeat split; reflexivity.
  - destruct (all_nodes_rep _ _ _ _ Dtree _ Hn) as (t & bl0 & Hr & _).
    apply node_rep_dir in Hr. destruct Hr as (_ & _ & Hch & Hkids).
    destruct (all_nodes_ok _ _ _ Dnodes _ Hn) as (p & Hok & Hp).
    apply node_ok_dir in Hok. destruct Hok as (Hdok & Hkok).
    destruct (chain_of_head _ _ _ _ _ Hch) as (R1 & R2 & _).
    exists (data_blocks v ch), p, kids. constructor.
    + exact (dir_blocks_chain _ _ _ _ Hv Hch).
    + exact Hdok.
    + exact Hkids.
    + intros k Hk. exact (all_nodes_trans T _ k Hn (flatten_kid e ch kids k k Hk (flatten_self k))).
    + exact Hp.
    + exact Hkok.
    + right. exists e, ch. repeat (split; [first [assumption|reflexivity]|]). assumption.
Qed.

(* the slots of a zeroed cluster: all end markers, the first one free *)
Lemma zero_block_slots d b : disk_get d b = zero_block ->
  Forall (fun t => t_is_end t = true) (block_slots d b) /\
  find nv (block_slots d b) = Some (b, 0 * 32, slot zero_block 0).
Proof.
  intros E. unfold block_slots. rewrite E. split; [|reflexivity].
  cbn [tslots_from]. repeat constructor.
Qed.

Lemma zero_blocks_all_end d : forall l, (forall b, In b l -> disk_get d b = zero_block) ->
  Forall (fun t => t_is_end t = true) (slots_of d l).
Proof.
  induction l as [|b l IH]; intros H; [constructor|]. rewrite slots_of_cons. apply Forall_app. split.
  - exact (proj1 (zero_block_slots d b (H b (or_introl eq_refl)))).
  - apply IH. intros b0 Hb0. apply H. right. exact Hb0.
Qed.

Lemma live_in_blocks_app d a b : live_in_blocks d (a ++ b) = live_in_blocks d a ++ live_in_blocks d b.
Proof. unfold live_in_blocks. apply flat_map_app. Qed.

Lemma tree_incl_trans A B C : tree_incl A B -> tree_incl B C -> tree_incl A C.
Proof. intros (A1 & A2) (B1 & B2). split; [intros e0 ch0 H; exact (B1 _ _ (A1 _ _ H))|intros c H; exact (B2 _ (A2 _ H))]. Qed.

Lemma pend_of_ro s s1 v : ro_step s s1 -> pend_of s1 v = pend_of s v.
Proof. intros (Hd & _ & _ & (_ & _ & M3 & _)). exact (pend_of_same s s1 v Hd M3). Qed.

Lemma in_cluster_blocks_iff v c j : In j (cluster_blocks v c) <-> in_cluster v c j.
Proof.
  unfold in_cluster. split.
  - intros H. destruct (In_cluster_blocks _ _ _ H) as (k & Hk & ->). lia.
  - intros (A & B). replace j with (cluster_first_block v c + (j - cluster_first_block v c)) by lia.
    apply In_cluster_blocks_intro. lia.
Qed.

(* ---- the creating open, the directory grows ---- *)
Lemma open_create_grow fsz vid s vi v bl rch T h name di dd sfn bl' parent kids s1 ch s0 cn sa en s2 :
  open_ctx fsz vid s vi v bl rch T h name di dd sfn bl' parent kids s1 ->
  find (t_matches sfn) (live_in_blocks (s_disk s) bl') = None ->
  find nv (slots_of (s_disk s1) bl') = None ->
  chain_at (s_disk s1) v (dir_first_cluster v (d_cluster dd)) ch -> bl' = data_blocks v ch ->
  qstep s1 s0 -> alloc_pre s0 0%nat v fsz ->
  alloc_cluster 0%nat (Some (last ch (dir_first_cluster v (d_cluster dd)))) true s0 = (Ok cn, sa) ->
  create_post (v_fat32 v) sfn 0 CL_EMPTY (cluster_first_block v cn) 0 sa en s2 ->
  write_new_directory_entry 0%nat (d_cluster dd) sfn 0 CL_EMPTY s1 = (Ok en, s2) ->
  loud fsz vid s (set_s_files (set_s_next_id s2 ((s_next_id s2 + 1) mod U32))
                   (s_files s2 ++ [mk_fileinfo (s_next_id s2) (d_vol dd) 0 (e_cluster en) 0 ReadWriteCreate en false])).
Proof.
  intros [Hat Hfresh Hres Hvol Hroom Hsfn He5 Hdot Hctx Hlook Hro Hrd] Hfind Hfreenone Hch Ebl' Hq0 Hpre0 Hal Hpost Hrun.
  set (dc := d_cluster dd) in *. set (c0 := dir_first_cluster v dc) in *.
  pose proof (go_ro _ _ _ _ _ _ _ _ _ Hat Hro) as Hat1.
  pose proof (go_ro _ _ _ _ _ _ _ _ _ Hat1 (proj1 Hq0)) as Hat0.
  pose proof Hro as (Hd & _ & _ & Hm1). pose proof Hm1 as (M1 & M2 & M3 & M4 & _).
  pose proof (proj1 Hq0) as (Hd0 & Hc0 & Hnf0 & Hm0). pose proof Hm0 as (O1 & O2 & O3 & O4 & O5 & O6 & _).
  pose proof (sfn_of_str_wf _ _ Hsfn) as Hwf.
  rewrite <- Hd, <- Hd0 in Hctx, Hfind. rewrite <- Hd0 in Hfreenone, Hch.
  destruct (go_facts _ _ _ _ _ _ _ _ Hat0) as (Hl0 & _ & _ & Ev0 & E0 & Hv00 & Hv & L & Hwf0 & _). subst vi.
  pose proof (fi_disk _ _ _ _ _ _ _ _ Hat0) as Hdisk0.
  pose proof (fi_layout _ _ _ _ _ _ _ _ Hat0) as Hlay.
  pose proof (fi_vol _ _ _ _ _ _ _ _ Hat0) as (_ & _ & Hfit & Hspc & _).
  pose proof (di_wf _ _ _ _ _ _ Hdisk0) as W.
  destruct (heads_nodup v T (pend_of s0 v) (wf_heads _ _ _ W)) as (N1 & N2 & N3 & N4).
  (* which directory grows *)
  assert (Hhead : (dc = CL_ROOT /\ v_fat32 v = true /\ c0 = v_root_cluster v /\ ch = rch) \/
                  (exists e kids0, In (NDir e ch kids0) (all_nodes T) /\ e_cluster e = dc /\ c0 = dc)).
  { destruct (dx_where _ _ _ _ _ _ _ _ Hctx) as [(Edc & _)|(e & ch1 & Hn & Ec & _ & Hch1 & R1 & R2)].
    - left. split; [exact Edc|]. unfold c0, dir_first_cluster in *. rewrite Edc, N.eqb_refl, andb_true_r in *.
      destruct (v_fat32 v) eqn:E32.
      + split; [reflexivity|]. split; [reflexivity|]. pose proof (di_root _ _ _ _ _ _ Hdisk0) as Hr. unfold root_dir in Hr.
        rewrite E32 in Hr. exact (chain_at_det _ _ _ _ _ Hch (proj1 Hr)).
      + exfalso. destruct (chain_of_head _ _ _ _ _ Hch) as (_ & R2 & _). exact (in_range_not_root v _ Hv R2 eq_refl).
    - right. assert (Ec0 : c0 = dc).
      { unfold c0, dir_first_cluster. replace (dc =? CL_ROOT) with false; [rewrite andb_false_r; reflexivity|].
        symmetry. apply N.eqb_neq. exact (in_range_not_root v dc Hv R2). }
      rewrite Ec0 in Hch. rewrite (chain_at_det _ _ _ _ _ Hch Hch1). exists e, kids. auto. }
  assert (Hc0in : In c0 (heads v T ++ pend_of s0 v)).
  { apply in_or_app. left. unfold heads. apply in_or_app.
    destruct Hhead as [(_ & E32 & -> & _)|(e & kids0 & Hn & Ec & ->)].
    - left. unfold root_heads. rewrite E32. left. reflexivity.
    - right. apply (own_head_in T _ _ Hn). left. exact Ec. }
  (* the chain ends in p *)
  destruct (chain_at_head _ _ _ _ Hch) as (r0 & Ech).
  assert (Hsplit : ch = removelast ch ++ [last ch c0]) by (apply app_removelast_last; rewrite Ech; discriminate).
  set (p := last ch c0) in *. set (pre := removelast ch) in *.
  rewrite Hsplit in Hch.
  destruct (C03_alloc_extends_wf 0%nat v fsz true s0 _ c0 pre p cn sa Hpre0 Hfit W Hc0in Hch Hal)
    as (W' & Hnew & Hoth & Hcn & v2 & G & Hprea).
  replace (pre ++ [p; cn]) with (ch ++ [cn]) in Hnew by (rewrite Hsplit, <- app_assoc; reflexivity).
  rewrite <- Hsplit in Hch.
  destruct (chain_at_mem _ _ _ _ p Hch ltac:(rewrite Hsplit; apply in_or_app; right; left; reflexivity)) as (P1 & P2 & P3 & _).
  destruct (alloc_cluster_effect_inuse 0%nat v fsz (Some p) true s0 cn sa Hpre0
              ltac:(intros p0 E; injection E as <-; split; assumption) Hal) as (Heff & _ & _).
  destruct (ae_tables _ _ _ _ _ _ _ _ Heff) as (A1 & A2 & A3 & A4 & A5 & _).
  pose proof (alloc_blocks_wf _ _ _ _ _ _ _ _ Heff Hwf0) as Hwfa.
  assert (Hframe : forall j, off_fat v fsz j -> ~ In j (cluster_blocks v cn) -> disk_get (s_disk sa) j = disk_get (s_disk s0) j).
  { intros j Hoff Hnc. apply (ae_frame _ _ _ _ _ _ _ _ Heff).
    - exact (Hoff 0 _ (layout_sector v fsz cn L (proj1 (proj2 Hcn)))).
    - exact (Hoff 1 _ (layout_sector v fsz cn L (proj1 (proj2 Hcn)))).
    - intros p0 E. injection E as <-. split; [exact (Hoff 0 _ (layout_sector v fsz p L P2))|exact (Hoff 1 _ (layout_sector v fsz p L P2))].
    - intros _ Hin. apply Hnc. apply in_cluster_blocks_iff. exact Hin. }
  assert (Hzero : forall j, In j (cluster_blocks v cn) -> disk_get (s_disk sa) j = zero_block).
  { intros j Hj. destruct (In_cluster_blocks _ _ _ Hj) as (k & Hk & ->). exact (ae_zero _ _ _ _ _ _ _ _ Heff eq_refl k Hk). }
  destruct (grow_disk fsz (s_disk s0) (s_disk sa) v bl rch T (pend_of s0 v) dc c0 ch cn Hdisk0 L Hlay Hhead W' Hnew Hoth Hcn Hframe Hzero)
    as (bl_a & rch_a & T_a & Hdiska & Hincl_a & Hpos_a & Hheads_a).
  (* the grown directory in the new tree *)
  assert (Hgo : go_is_dir T dc).
  { destruct Hhead as [(Edc & _)|(e & kids0 & Hn & Ec & _)]; [left; exact Edc|right; exists e, ch, kids0; auto]. }
  destruct (dir_ctx_of_disk _ v bl_a rch_a T_a _ dc Hv Hdiska (proj2 Hincl_a dc Hgo)) as (bla' & para & kidsa & Hctxa).
  set (cbs := cluster_blocks v cn) in *.
  assert (Ebla : bla' = bl' ++ cbs).
  { pose proof (dx_blocks _ _ _ _ _ _ _ _ Hctxa) as Hb. unfold dir_blocks in Hb. fold c0 in Hb.
    assert (Hnr : negb (v_fat32 v) && (dc =? CL_ROOT) = false).
    { destruct Hhead as [(_ & E32 & _)|(e & kids0 & Hn & Ec & Ec0)]; [rewrite E32; reflexivity|].
      destruct (chain_of_head _ _ _ _ _ Hnew) as (_ & R2 & _). rewrite Ec0 in R2.
      replace (dc =? CL_ROOT) with false; [apply andb_false_r|]. symmetry. apply N.eqb_neq. exact (in_range_not_root v dc Hv R2). }
    rewrite Hnr in Hb. unfold chain_at in Hnew. rewrite Hnew in Hb. injection Hb as <-.
    rewrite flat_map_app. cbn [flat_map]. rewrite app_nil_r. rewrite Ebl'. reflexivity. }
  assert (Hbl'same : forall j, In j bl' -> disk_get (s_disk sa) j = disk_get (s_disk s0) j).
  { intros j Hj. rewrite Ebl' in Hj. destruct (chain_block_old fsz _ v cn L Hcn c0 ch j Hch Hj) as (A & B). exact (Hframe j A B). }
  set (B := cluster_first_block v cn) in *.
  assert (Ecbs : cbs = B :: PrOrder.blocks_from (N.to_nat (v_spc v) - 1) (B + 1)) by (apply PrBounds.cluster_blocks_cons; lia).
  assert (HB : In B cbs) by (rewrite Ecbs; left; reflexivity).
  assert (HzB : disk_get (s_disk sa) B = zero_block) by exact (Hzero B HB).
  assert (Hnone_a : find (t_matches sfn) (live_in_blocks (s_disk sa) bla') = None).
  { rewrite Ebla, live_in_blocks_app, find_app_first, (live_ext _ _ bl' Hbl'same), Hfind.
    rewrite (all_end_live _ cbs (zero_blocks_all_end _ cbs Hzero)). reflexivity. }
  assert (Hfree_a : find nv (slots_of (s_disk sa) bla') = Some (B, 0 * 32, slot zero_block 0)).
  { rewrite Ebla, slots_of_app, find_app_first, (slots_of_ext _ _ bl' Hbl'same), Hfreenone.
    rewrite Ecbs, slots_of_cons, find_app_first, (proj2 (zero_block_slots _ B HzB)). reflexivity. }
  (* the entry is written into slot 0 of the first block of the new cluster *)
  unfold create_post in Hpost. cbv zeta in Hpost. destruct Hpost as (Een & Hd2 & Hc2 & Hnf2 & Hclk2 & Htab2 & _).
  fold B in Een, Hd2. rewrite HzB in Hd2.
  set (ct := clock_ts (s_clock sa)) in *.
  assert (Hsw : slot_write (s_disk sa) (s_disk s2) B 0 (ser_bytes (v_fat32 v) (mk_dirent sfn ct ct 0 CL_EMPTY 0 B (0 * 32)))).
  { destruct (put_entry_slots (v_fat32 v) (mk_dirent sfn ct ct 0 CL_EMPTY 0 B (0 * 32)) zero_block eq_refl (proj1 Hwf)
                ltac:(cbn [e_offset]; lia) ltac:(cbn [e_offset]; lia)) as (_ & Hslot & Hothr & _ & _).
    cbn [e_offset] in Hslot, Hothr. replace (0 * 32 / 32) with 0 in Hslot, Hothr by lia.
    split; [intros j Hj; rewrite Hd2; apply disk_get_set_other; congruence|].
    rewrite Hd2, disk_get_set_same. split; [exact Hslot|]. intros k Hk. rewrite HzB. exact (Hothr k Hk). }
  destruct (create_disk fsz (s_disk sa) (s_disk s2) v bl_a rch_a T_a (pend_of s0 v) dc bla' para kidsa sfn B 0 _ ct
              Hdiska Hlay (fi_dev _ _ _ _ _ _ _ _ Hat0) Hctxa Hwf He5 Hdot Hnone_a Hfree_a Hsw)
    as (T' & Hdisk2 & Hincl2 & Hin2 & Hpos2 & _ & _ & Ec2 & Es2 & Eb2 & Eo2 & En2 & Ea2).
  pose proof Htab2 as (X1 & X2 & X3 & X4 & X5 & _).
  pose proof Hprea as ((_ & _ & Hvia & _) & La & Hha).
  assert (HoffB : off_fat v fsz B) by exact (cluster_block_off_fat fsz v cn B L (proj1 Hcn) HB).
  assert (HnfatB : ~ fat_area v B) by exact (off_fat_not_area fsz v B L HoffB).
  pose proof (slot_write_fat _ _ v B 0 _ Hsw HnfatB) as Hfat2.
  assert (Hwf2 : blocks_wf (s_disk s2)).
  { intros j. rewrite Hd2. destruct (N.eq_dec j B) as [->|Hne].
    - rewrite disk_get_set_same. unfold put_entry. rewrite set_bytes_length; [reflexivity|].
      rewrite (ser_bytes_length (v_fat32 v) (mk_dirent sfn ct ct 0 CL_EMPTY 0 B (0 * 32)) (proj1 Hwf)).
      cbn [e_offset]. change (length zero_block) with 512%nat. lia.
    - rewrite disk_get_set_other by congruence. apply Hwfa. }
  assert (Evols_a : s_vols sa = [v2]).
  { destruct (ae_vol _ _ _ _ _ _ _ _ Heff) as (nf & Evols & _). rewrite Evols, Ev0 in *. cbn [list_set nth_error] in *.
    injection Hvia as <-. reflexivity. }
  (* a block that holds the slot of a node of the old tree is untouched *)
  assert (Hnodeblk : forall n0, In n0 (all_nodes T) ->
            disk_get (s_disk s2) (e_block (node_entry n0)) = disk_get (s_disk s0) (e_block (node_entry n0))).
  { intros n0 Hn0. destruct (all_nodes_rep _ _ _ _ (di_tree _ _ _ _ _ _ Hdisk0) n0 Hn0) as (t0 & bl0 & Hr0 & Ht0 & Hbl0).
    destruct (node_rep_slot _ _ _ _ _ Hr0 Ht0) as (Hb0 & _).
    assert (Hold : off_fat v fsz (e_block (node_entry n0)) /\ ~ In (e_block (node_entry n0)) cbs).
    { destruct Hbl0 as [->|(e0 & ch0 & ks0 & Hd1 & -> & Hc1)].
      - exact (root_block_old fsz _ v bl rch T _ dc c0 ch cn Hdisk0 L Hlay Hhead Hcn _ Hb0).
      - exact (chain_block_old fsz _ v cn L Hcn _ _ _ Hc1 Hb0). }
    destruct Hold as (Q1 & Q2). rewrite <- (Hframe _ Q1 Q2). apply (proj1 Hsw). intros E. apply Q2. rewrite E. exact HB. }
  destruct (PrBounds.C04_write_new_directory_entry 0%nat v (v_nblocks v) fsz dc sfn 0 CL_EMPTY s1 bl' en s2 Hlay
              (proj1 (proj2 (fi_vol _ _ _ _ _ _ _ _ Hat1))) ltac:(rewrite <- Hd0; exact (dx_blocks _ _ _ _ _ _ _ _ Hctx)) Hrun)
    as (gw & Hts & Hgw & Hdirb).
  subst en.
  apply (create_finish fsz vid s s0 s2 0%nat v v2 bl rch T bl_a rch_a T'
           (t_entry (v_fat32 v) (B, 0 * 32, ser_bytes (v_fat32 v) (mk_dirent sfn ct ct 0 CL_EMPTY 0 B (0 * 32))))
           sfn ct B (0 * 32) (d_vol dd) (gw ++ [B])).
  - rewrite O1. exact M1.
  - exact Hfresh.
  - rewrite O4. exact M4.
  - rewrite O3. exact M3.
  - exact Hat0.
  - exact G.
  - exact Hvol.
  - rewrite X1. exact Evols_a.
  - rewrite X5, A5. exact Hl0.
  - split; [|split; assumption]. split; [exact Hnf2|]. split; [exact Hc2|]. split; [rewrite X1; exact Hvia|].
    intros k _. apply Hwf2.
  - exact Hwf2.
  - rewrite X2. exact A1.
  - rewrite X3. exact A2.
  - rewrite X4. exact A3.
  - exact (disk_inv_geo _ v v2 _ _ _ _ G Hdisk2).
  - exact (tree_incl_trans _ _ _ Hincl_a Hincl2).
  - exact Hin2.
  - exact Eb2.
  - exact Eo2.
  - exact En2.
  - exact Ec2.
  - apply ts_cal_ok, clock_ts_cal.
  - exact (proj1 Hwf).
  - lia.
  - destruct G as (a & b & ->). exact HnfatB.
  - rewrite <- Hpos_a. exact Hpos2.
  - intros f Hf H2 chf Hchf. apply (chain_at_ext _ _ v _ _ Hfat2).
    apply (Hoth _ _ (ofile_in_hs fsz vid s0 0%nat v bl rch T Hat0 f Hf H2)); [|exact Hchf].
    intros Eq.
    destruct (of_node _ _ _ _ (ofile_of fsz vid s0 0%nat v bl rch T Hat0 f Hf)) as (e0 & ch0 & Hn0 & Eb0 & Eo0 & _).
    destruct Hhead as [(_ & E32 & Ec0 & _)|(e & kids0 & Hn & Ec & Ec0)].
    + assert (Hr : In c0 (root_heads v)) by (rewrite Ec0; unfold root_heads; rewrite E32; left; reflexivity).
      destruct (ofile_head fsz vid s0 0%nat v bl rch T Hat0 f Hf H2) as [(e1 & ch1 & Hn1 & Ec1 & _)|Hp].
      * apply (proj1 (N3 _ Hr)). rewrite <- Eq. apply (own_head_in T _ _ Hn1). cbn [own_head]. rewrite Ec1.
        apply N.leb_le in H2. rewrite H2. left. reflexivity.
      * apply (proj2 (N3 _ Hr)). rewrite <- Eq. exact (pending_in s0 v f Hf Hp).
    + apply (file_head_not_node fsz vid s0 0%nat v bl rch T f (NDir e ch kids0) Hat0 Hf H2 Hn).
      * intros Ep. assert (Epos : node_pos (NDir e ch kids0) = node_pos (NFile e0 ch0))
          by (rewrite Ep; unfold slot_key, node_pos; cbn [node_entry]; rewrite Eb0, Eo0; reflexivity).
        discriminate (pos_unique _ _ _ (di_pos _ _ _ _ _ _ Hdisk0) Hn Hn0 Epos).
      * left. rewrite Eq, Ec0. exact Ec.
  - intros f Hf. destruct (of_node _ _ _ _ (ofile_of fsz vid s0 0%nat v bl rch T Hat0 f Hf)) as (e0 & ch0 & Hn0 & Eb0 & _).
    pose proof (Hnodeblk _ Hn0) as Eblk. cbn [node_entry] in Eblk. rewrite Eb0 in Eblk. rewrite Eblk. reflexivity.
  - exact (PrOrder.tsteps_trans s s1 s2 [] _ (reads_only_tsteps _ _ Hrd) Hts).
  - apply Forall_app. split.
    + eapply Forall_impl; [|exact Hgw]. intros j Hj. exact (PrBounds.region_of_fat_data v fsz j Hj).
    + constructor; [|constructor]. exact (PrBounds.region_of_dir v fsz _ Hdirb).
Qed.

(* ================================================================== 8. OpenFile, every mode, every outcome *)
Lemma loud_conclude fsz vid s (r : outcome res) s' : r <> Panic -> r <> OutOfFuel -> loud fsz vid s s' ->
  r <> Panic /\ r <> OutOfFuel /\ fs_inv fsz vid s' /\ same_geo s s' /\
  exists ws, PrOrder.tsteps s s' ws /\ forall v, In v (s_vols s) -> Forall (PrBounds.in_region v fsz) ws.
Proof. intros R1 R2 (A & B & C). auto. Qed.

Theorem step_ok_OpenFile fsz vid h name md : step_ok fsz vid (OpenFile h name md).
Proof.
  intros s r s' Hinv Hfresh (_ & Hname) Hs. pose proof (fs_inv_lock fsz vid s Hinv) as Hl.
  cbn [op_name_ok] in Hname. destruct Hinv as (vi & v & bl & rch & T & Hat).
  assert (Hinv : fs_inv fsz vid s) by (exists vi, v, bl, rch, T; exact Hat).
  destruct (dir_resolve _ _ _ _ _ _ _ _ h Hat) as [Hno|di dd H1 H2 Hne H3|di dd Hres Hvol Hdir Hdd].
  { destruct (PrHandles.C08_stale_dir_handle h s Hl Hno) as (_ & _ & _ & _ & _ & _ & E1). rewrite (E1 name md) in Hs.
    injection Hs as <- <-. apply step_ok_same; [exact Hinv|discriminate|discriminate]. }
  { cbn [step] in Hs.
    assert (E : exists e, open_file_in_dir h name md s = (Err e, s)).
    { unfold open_file_in_dir. rewrite (PrHandles.locked_free _ s Hl), PrHandles.bind_get.
      destruct (is_full (s_files s) (s_maxf s)); [eexists; reflexivity|].
      exists BadHandle. rewrite (bind_ok _ _ _ _ _ H1), (bind_ok _ _ _ _ _ H2). cbv zeta. apply bind_err. exact H3. }
    destruct E as (e & E). rewrite (lift_err' _ _ _ _ _ E) in Hs. injection Hs as <- <-.
    apply step_ok_same; [exact Hinv|discriminate|discriminate]. }
  cbn [step] in Hs.
  destruct (is_full (s_files s) (s_maxf s)) eqn:Hroom.
  { assert (E : open_file_in_dir h name md s = (Err TooManyOpenFiles, s)).
    { unfold open_file_in_dir. rewrite (PrHandles.locked_free _ s Hl), PrHandles.bind_get, Hroom. reflexivity. }
    rewrite (lift_err' _ _ _ _ _ E) in Hs. injection Hs as <- <-.
    apply step_ok_same; [exact Hinv|discriminate|discriminate]. }
  unfold e5_name in Hname.
  destruct (sfn_of_str name) as [sfn|] eqn:Hsfn.
  2:{ assert (E : open_file_in_dir h name md s = (Err FilenameError, s)).
      { unfold open_file_in_dir. PrModes.open_prefix Hres Hroom Hsfn. reflexivity. }
      rewrite (lift_err' _ _ _ _ _ E) in Hs. injection Hs as <- <-.
      apply step_ok_same; [exact Hinv|discriminate|discriminate]. }
  apply N.eqb_neq in Hname.
  destruct (PrModes.dot_name sfn) eqn:Hdot.
  { rewrite (lift_err' _ _ _ _ _ (PrModes.C07_open_dot_name s h di dd 0%nat v name sfn md Hres Hroom Hsfn Hdot)) in Hs.
    injection Hs as <- <-. apply step_ok_same; [exact Hinv|discriminate|discriminate]. }
  destruct (find_run _ _ _ _ _ _ _ _ (d_cluster dd) sfn Hat Hdir) as (bl' & parent & kids & s1 & Hctx & Hrun & Hro & Hrd).
  pose proof (mk_open_ctx fsz vid s vi v bl rch T h name di dd sfn bl' parent kids s1
                Hat Hfresh Hres Hvol Hroom Hsfn Hname Hdot Hctx Hrun Hro Hrd) as Hoc.
  pose proof (quiet_ro _ _ _ _ Hinv Hro Hrd) as Hq1.
  destruct (find (t_matches sfn) (live_in_blocks (s_disk s) bl')) as [t|] eqn:Hfind.
  - destruct (PrModes.open_refusal md (Ok (t_entry (v_fat32 v) t)) (PrModes.is_open s1 (d_vol dd) (t_entry (v_fat32 v) t)))
      as [er|] eqn:Href.
    + pose proof (PrModes.C07_open_refusals s h di dd 0%nat v name sfn md _ s1 er Hres Hroom Hsfn Hdot Hrun Href) as E.
      rewrite (lift_err' _ _ _ _ _ E) in Hs. injection Hs as <- <-. apply quiet_conclude; try discriminate; assumption.
    + destruct (refusal_none_ok _ _ _ Href) as (_ & _ & Hncr).
      assert (Hcases : (md = ReadOnly \/ md = ReadWriteAppend \/ md = ReadWriteCreateOrAppend) \/
                       (md = ReadWriteTruncate \/ md = ReadWriteCreateOrTruncate))
        by (destruct md; try discriminate Hncr; auto).
      destruct Hcases as [Hmd|Hmd].
      * destruct (open_keep_case _ _ _ _ _ _ _ _ _ _ _ _ _ _ _ _ _ md t Hoc Hfind Href Hmd) as (id & s5 & E & Hq).
        rewrite (lift_ok' _ _ _ _ _ E) in Hs. injection Hs as <- <-. apply quiet_conclude; try discriminate; assumption.
      * destruct (open_trunc_case _ _ _ _ _ _ _ _ _ _ _ _ _ _ _ _ _ md t Hoc Hfind Href Hmd) as (id & s5 & E & Hq).
        rewrite (lift_ok' _ _ _ _ _ E) in Hs. injection Hs as <- <-. apply loud_conclude; try discriminate; assumption.
  - destruct (creating md) eqn:Hcr.
    2:{ assert (Href : PrModes.open_refusal md (Err NotFound) (PrModes.found_open s1 (d_vol dd) (Err NotFound)) = Some NotFound)
          by (cbn [PrModes.open_refusal]; rewrite Hcr; reflexivity).
        pose proof (PrModes.C07_open_refusals s h di dd 0%nat v name sfn md _ s1 NotFound Hres Hroom Hsfn Hdot Hrun Href) as E.
        rewrite (lift_err' _ _ _ _ _ E) in Hs. injection Hs as <- <-. apply quiet_conclude; try discriminate; assumption. }
    pose proof (open_create_run _ _ _ _ _ _ _ _ _ _ _ _ _ _ _ _ _ md Hoc Hfind Hcr) as E.
    pose proof (go_ro _ _ _ _ _ _ _ _ _ Hat Hro) as Hat1.
    destruct (go_facts _ _ _ _ _ _ _ _ Hat1) as (_ & _ & _ & _ & E0 & _ & _ & _ & Hwf1 & _). subst vi.
    pose proof (fi_vol _ _ _ _ _ _ _ _ Hat1) as (_ & Hpre1 & _ & Hspc & _).
    assert (Hbl1 : dir_blocks (s_disk s1) v (d_cluster dd) = Some bl') by (rewrite (proj1 Hro); exact (dx_blocks _ _ _ _ _ _ _ _ Hctx)).
    destruct (create_run fsz 0%nat v (d_cluster dd) sfn 0 CL_EMPTY s1 bl' Hpre1 Hspc Hwf1 Hbl1 (proj1 (sfn_of_str_wf _ _ Hsfn)))
      as (o & s2 & Hw & Hcres).
    rewrite Hw in E.
    destruct Hcres as [blk off sl0 s2 Hfree en Hd2 Hsw Hc2 Hnf2 Htab|s2 Hfree Hq2 _|ch s0 cn sa en s2 Hfree Hch Ebl Hq0 Hpre0 Hal Hpost].
    + rewrite (lift_ok' _ _ _ _ _ E) in Hs. injection Hs as <- <-. apply loud_conclude; try discriminate.
      exact (open_create_slot _ _ _ _ _ _ _ _ _ _ _ _ _ _ _ _ _ blk off sl0 s2 Hoc Hfind Hfree Hw Hd2 Hsw Hc2 Hnf2 Htab).
    + rewrite (lift_err' _ _ _ _ _ E) in Hs. injection Hs as <- <-. apply quiet_conclude; try discriminate; [exact Hinv|].
      exact (quiet_trans _ _ _ _ _ Hq1 (quiet_qstep _ _ _ _ (proj1 Hq1) Hq2)).
    + rewrite (lift_ok' _ _ _ _ _ E) in Hs. injection Hs as <- <-. apply loud_conclude; try discriminate.
      exact (open_create_grow _ _ _ _ _ _ _ _ _ _ _ _ _ _ _ _ _ ch s0 cn sa en s2 Hoc Hfind Hfree Hch Ebl Hq0 Hpre0 Hal Hpost Hw).
Qed.

(* ================================================================== 9. the hypotheses are satisfiable *)
(* PrGlobalDef's example state (FAT16; root: A, D, B; D: C; B open with a pending chain; the root
   and D open as directories 5 and 9): the theorem applies to every OpenFile through the root
   handle, whatever the name and the mode; three concrete runs succeed. *)
Lemma gx_fresh : id_fresh gx_state.
Proof.
  intros x Hx. change (PrHandles.all_ids gx_state) with [0; 5; 9; 7] in Hx. change (s_next_id gx_state) with 10.
  cbn [In] in Hx. lia.
Qed.

Example step_ok_OpenFile_applies : forall d name md, e5_name name = false -> forall r s',
  step (OpenFile d name md) gx_state = (r, s') -> fs_inv 1 0 s' /\ r <> Panic /\ r <> OutOfFuel.
Proof.
  intros d name md Hn r s' Hs.
  destruct (step_ok_OpenFile 1 0 d name md gx_state r s' (proj1 fs_inv_example) gx_fresh
              (conj (conj I I) Hn) Hs) as (R1 & R2 & Hinv & _).
  auto.
Qed.

Example open_file_runs :
  fst (step (OpenFile 5 [65] ReadOnly) gx_state) = Ok (RHandle 10) /\
  fst (step (OpenFile 5 [65] ReadWriteTruncate) gx_state) = Ok (RHandle 10) /\
  fst (step (OpenFile 9 [69] ReadWriteCreate) gx_state) = Ok (RHandle 10) /\
  fst (step (OpenFile 5 [66] ReadWriteAppend) gx_state) = Err FileAlreadyOpen /\
  fst (step (OpenFile 5 [68] ReadOnly) gx_state) = Err OpenedDirAsFile /\
  fst (step (OpenFile 5 [70] ReadOnly) gx_state) = Err NotFound.
Proof. repeat split; vm_compute; reflexivity. Qed.

Print Assumptions step_ok_OpenFile.
Print Assumptions open_trunc_case.
Print Assumptions open_create_slot.
Print Assumptions open_create_grow.
Print Assumptions step_ok_OpenFile_applies.
