(* Property C06 - directory listing and lookup report exactly the live entries
   This file contains only property theorems (each closed by `exact`), `Check` pins and
   `Print Assumptions`.  FULL STATEMENT (DESIGN.md 4 C06) is not yet proved for the whole
   layer-B model; what is proved here are the named mechanisms, for all inputs.  The gap is
   covered - visibly - by the correspondence check and the spec oracle (see evidence). *)
From Coq Require Import NArith ZArith List Bool.
From SdFs Require Import FsTypes FsBase FsFat FsMgr FsLemmas.
Import ListNotations.
Open Scope N_scope.


Theorem C06_block_listing : forall n fat32 b blk i acc, snd (iter_slots n fat32 b blk i acc) = rev (map (fun p => get_entry fat32 (snd p) blk (fst p * 32)) (filter (fun p => is_valid (snd p)) (before_end (slots_from n b i)))) ++ acc.
Proof. exact iter_slots_spec. Qed.

Theorem C06_block_listing_stops_at_end : forall n fat32 b blk i acc, fst (iter_slots n fat32 b blk i acc) = existsb (fun p => is_end (snd p)) (slots_from n b i).
Proof. exact iter_slots_stop. Qed.

Theorem C06_block_lookup : forall n fat32 b blk name i, find_in_slots n fat32 b blk i name = match find (fun p => matches (snd p) name) (before_end (slots_from n b i)) with Some (j, sl) => Some (get_entry fat32 sl blk (j * 32)) | None => None end.
Proof. exact find_in_slots_spec. Qed.

Theorem C06_deleted_hidden : forall sl, get8 sl 0 = 229 -> is_valid sl = false.
Proof. exact deleted_not_valid. Qed.

Print Assumptions C06_block_listing.
Print Assumptions C06_block_listing_stops_at_end.
Print Assumptions C06_block_lookup.
Print Assumptions C06_deleted_hidden.
