(* PROOFS: the content of the files over WHOLE API HISTORIES (C01, C02), assembled from the
   per-operation obligation `forall o, step_content fsz vid o` (PrContentDef) and the global
   invariant (PrGlobal.all_steps_ok).

   1  history_trace: every history of the model is matched, call by call, by a chain of
      observations related by content_rel - the abstract specification of each call, which speaks
      about the views only
   2  well-formed observations (obs_wf), the invariant obs_sync (a clean handle shows the medium)
   3  C02_untouched_history: a position no call targets keeps what both views show
      C02_flushed_stays: what a flush / close put on the medium stays there until the position is
      targeted again
   4  the SPEC run (byte-array models per position, handle table) and C01_history / C02_history
   5  non-vacuity on PrGlobalDef.gx_state *)
From Coq Require Import NArith ZArith List Bool Lia Arith ZifyClasses ZifyInst Zify FMapPositive Permutation.
From SdFs Require Import FsTypes FsBase FsFat FsMgr FsLemmas PrBase PrFat PrAlloc PrDir PrSeek PrAllocEffect
  PrRw PrWrite PrFileSeq PrMulti PrEntry PrChain PrCount PrWf PrOpenClose PrGlobalDef PrContentDef.
From SdFs Require PrModes PrHandles PrCrash PrBounds PrOrder PrGlobal.
Import ListNotations.
Open Scope N_scope.
Local Arguments N.mul : simpl never.
Local Arguments N.add : simpl never.
Local Arguments N.sub : simpl never.
Local Arguments N.div : simpl never.
Local Arguments N.modulo : simpl never.
Local Arguments N.land : simpl never.
Local Arguments N.lor : simpl never.
Local Arguments N.min : simpl never.
Local Arguments N.max : simpl never.
Local Ltac Zify.zify_post_hook ::= Z.to_euclidean_division_equations.

(* ================================================================== 1. the chain of observations of a history *)
(* one call as the specification sees it: the operation, the value of the clock before it, its
   result, what was observed before and after *)
Record ostep := mk_ostep { os_op : op; os_clock : N; os_res : outcome res; os_pre : obs; os_post : obs }.
Definition ostep_ok (x : ostep) : Prop :=
  content_rel (os_op x) (os_clock x) (os_res x) (os_pre x) (os_post x).
(* consecutive calls: each starts from what the previous one left *)
Fixpoint chain_ok (a : obs) (tr : list ostep) (a' : obs) : Prop :=
  match tr with
  | [] => a' = a
  | x :: r => os_pre x = a /\ ostep_ok x /\ chain_ok (os_post x) r a'
  end.

Fixpoint run_clocks (ops : list op) (s : st) : list N :=
  match ops with [] => [] | o :: r => s_clock s :: run_clocks r (snd (step o s)) end.

Lemma chain_ok_app a tr1 tr2 a' : chain_ok a (tr1 ++ tr2) a' <-> exists b, chain_ok a tr1 b /\ chain_ok b tr2 a'.
Proof.
  revert a. induction tr1 as [|x tr1 IH]; intros a; cbn [app chain_ok].
  - split; [intros H; exists a; split; [reflexivity|exact H]|intros (b & -> & H); exact H].
  - split.
    + intros (E & Hx & H). apply IH in H. destruct H as (b & H1 & H2). exists b. repeat split; assumption.
    + intros (b & (E & Hx & H1) & H2). split; [exact E|]. split; [exact Hx|]. apply IH. exists b. split; assumption.
Qed.

(* ---- observations of real states are well formed ---- *)
Record obs_wf (a : obs) : Prop := mk_obs_wf {
  (* two handles never share a slot *)
  ow_inj : forall h k hi hk, hget h (ob_handles a) = Some hi -> hget k (ob_handles a) = Some hk ->
             hi_pos hi = hi_pos hk -> h = k;
  (* the slot of a handle is a file of the view *)
  ow_open : forall h hi, hget h (ob_handles a) = Some hi -> vget (hi_pos hi) (ob_mem a) <> None;
  (* both views list the same positions *)
  ow_keys : forall p, vget p (ob_mem a) = None <-> vget p (ob_disk a) = None;
  (* a file nobody has open is shown as the medium holds it *)
  ow_closed : forall p, not_open p a -> vget p (ob_mem a) = vget p (ob_disk a)
}.

Lemma find_id_In l h f : find (fun g : fileinfo => f_id g =? h) l = Some f -> In f l /\ f_id f = h.
Proof. intros H. destruct (find_some _ _ H) as (A & B). split; [exact A|apply N.eqb_eq; exact B]. Qed.

Theorem observes_wf fsz vid s a : observes fsz vid s a -> obs_wf a.
Proof.
  intros (vi & v & bl & rch & T & Hat & ->).
  assert (Hh : forall h hi, hget h (handles_of s) = Some hi -> exists f, In f (s_files s) /\ f_id f = h /\ hi = hinfo_of f).
  { intros h hi H. unfold handles_of in H. rewrite hget_handles_of in H.
    destruct (find (fun f => f_id f =? h) (s_files s)) as [f|] eqn:E; [|discriminate].
    cbn [option_map] in H. injection H as <-. destruct (find_id_In _ _ _ E) as (A & B). exists f. repeat split; assumption. }
  constructor; cbn [obs_at ob_handles ob_mem ob_disk].
  - intros h k hi hk H1 H2 Ep. destruct (Hh _ _ H1) as (f & Hf & <- & ->). destruct (Hh _ _ H2) as (g & Hg & <- & ->).
    cbn [hinfo_of hi_pos] in Ep.
    pose proof (fi_fslots _ _ _ _ _ _ _ _ Hat) as Hnd.
    destruct (In_nth_error _ _ Hf) as (i & Hi). destruct (In_nth_error _ _ Hg) as (j & Hj).
    assert (i = j).
    { rewrite NoDup_nth_error in Hnd. apply Hnd.
      - rewrite map_length. apply nth_error_Some. congruence.
      - rewrite !nth_error_map, Hi, Hj. cbn. congruence. }
    subst j. rewrite Hi in Hj. injection Hj as <-. reflexivity.
  - intros h hi H. destruct (Hh _ _ H) as (f & Hf & _ & ->). cbn [hinfo_of hi_pos].
    rewrite (vget_mem_open fsz vid s vi v bl rch T Hat f Hf). discriminate.
  - intros p. apply vget_mem_none_iff.
  - intros p Hno. unfold not_open in Hno. cbn [obs_at ob_handles] in Hno.
    destruct (vget p (disk_view (s_disk s) v T)) as [x|] eqn:Ed.
    + unfold disk_view in Ed. destruct (vget_file_item_inv _ _ _ _ Ed) as (e & ch & Hn & <- & ->).
      apply (vget_mem_closed fsz vid s vi v bl rch T Hat e ch Hn).
      intros f Hf Ek. destruct (In_nth_error _ _ Hf) as (i & Hi).
      assert (Hg : hget (f_id f) (handles_of s) <> None).
      { unfold handles_of. rewrite hget_handles_of.
        destruct (find (fun g => f_id g =? f_id f) (s_files s)) eqn:E; [discriminate|].
        pose proof (find_none _ _ E f Hf) as X. cbn in X. rewrite N.eqb_refl in X. discriminate. }
      destruct (hget (f_id f) (handles_of s)) as [hi|] eqn:E; [|contradiction].
      destruct (Hh _ _ E) as (g & Hg' & Eid & ->).
      assert (g = f).
      { pose proof (fi_fids _ _ _ _ _ _ _ _ Hat) as Hnd. destruct (In_nth_error _ _ Hg') as (j & Hj).
        assert (j = i).
        { rewrite NoDup_nth_error in Hnd. apply Hnd.
          - rewrite map_length. apply nth_error_Some. congruence.
          - rewrite !nth_error_map, Hi, Hj. cbn. congruence. }
        subst j. congruence. }
      subst g. exact (Hno _ _ E Ek).
    + apply vget_mem_none_iff. exact Ed.
Qed.

(* ---- the chain of a history ---- *)
Theorem history_trace fsz vid : (forall o, step_content fsz vid o) ->
  forall ops s age a, fs_inv fsz vid s -> PrHandles.handles_ok age s ->
    age + N.of_nat (length ops) < U32 - 1 -> Forall op_known_ok ops -> observes fsz vid s a ->
    exists tr a', map os_op tr = ops /\ map os_res tr = fst (run_ops ops s) /\
      map os_clock tr = run_clocks ops s /\
      observes fsz vid (snd (run_ops ops s)) a' /\ chain_ok a tr a' /\
      Forall (fun x => obs_wf (os_pre x) /\ obs_wf (os_post x)) tr.
Proof.
  intros Hall. induction ops as [|o rest IH]; intros s age a Hinv Hh Hage Hops Ho.
  - exists [], a. cbn. repeat split; try reflexivity; [exact Ho|constructor].
  - cbn [run_ops run_clocks]. destruct (step o s) as [r s1] eqn:Es. cbn [snd].
    inversion Hops as [|? ? Hk Hrest]; subst. cbn [length] in Hage.
    assert (Ha1 : age < U32) by (unfold U32 in *; lia).
    assert (Ha2 : age < U32 - 1) by (unfold U32 in *; lia).
    assert (Ha3 : age + 1 + N.of_nat (length rest) < U32 - 1).
    { rewrite Nat2N.inj_succ in Hage. unfold U32 in *. lia. }
    pose proof (handles_ok_fresh age s Ha1 Hh) as Hfresh.
    destruct (PrGlobal.all_steps_ok fsz vid o s r s1 Hinv Hfresh Hk Es) as (_ & _ & Hinv1 & _).
    destruct (Hall o s r s1 a Hinv Hfresh Hk Es Ho) as (a1 & Ho1 & Hrel).
    pose proof (PrHandles.C08_handles_ok_step age o s Ha2 (no_remount_ok o (proj1 (proj1 Hk))) Hh) as Hh1.
    rewrite Es in Hh1. cbn [snd] in Hh1.
    destruct (IH s1 (age + 1) a1 Hinv1 Hh1 Ha3 Hrest Ho1) as (tr & a' & E1 & E2 & E3 & Ho' & Hc & Hw).
    destruct (run_ops rest s1) as [rs s'] eqn:Er. cbn [fst snd] in *.
    exists (mk_ostep o (s_clock s) r a a1 :: tr), a'. cbn [map os_op os_res os_clock chain_ok os_pre os_post].
    rewrite E1, E2, E3. repeat split; try reflexivity; try assumption.
    constructor; [|exact Hw]. cbn [os_pre os_post]. split; [exact (observes_wf _ _ _ _ Ho)|exact (observes_wf _ _ _ _ Ho1)].
Qed.

(* ================================================================== 2. which file a call targets; the frame of a call *)
Definition is_none {A} (o : option A) : bool := match o with None => true | Some _ => false end.
(* the position that the earlier observation lists and the later one does not *)
Definition lost_pos (a a' : obs) : option spos :=
  find (fun q => is_none (vget q (ob_mem a'))) (map fst (ob_mem a)).

(* the file position a call works on: the slot of the handle (write, flush, close), the slot of
   the handle an open returns, the slot a delete removes; None for every other call and for
   stale handles *)
Definition target_of (x : ostep) : option spos :=
  match os_op x with
  | Write h _ | IoWrite h _ | Flush h | CloseFile h => option_map hi_pos (hget h (ob_handles (os_pre x)))
  | OpenFile _ _ _ =>
      match os_res x with
      | Ok (RHandle hn) => option_map hi_pos (hget hn (ob_handles (os_post x)))
      | _ => None
      end
  | Delete _ _ => match os_res x with Ok _ => lost_pos (os_pre x) (os_post x) | _ => None end
  | _ => None
  end.

Lemma files_same_eq a a' : ob_mem a' = ob_mem a -> ob_disk a' = ob_disk a -> files_same a a'.
Proof. intros E1 E2 q. rewrite E1, E2. split; reflexivity. Qed.
Lemma files_same_refl a a' : same_obs a a' -> files_same a a'.
Proof. intros ->. intros q. split; reflexivity. Qed.

Lemma key_vget {A} (l : list (spos * A)) q : In q (map fst l) -> vget q l <> None.
Proof.
  induction l as [|[k y] l IH]; [intros []|]. cbn [map fst vget]. intros [->|Hin].
  - rewrite pos_eqb_refl. discriminate.
  - destruct (pos_eqb k q); [discriminate|exact (IH Hin)].
Qed.

Lemma find_first (test : spos -> bool) ks p : In p ks -> test p = true ->
  (forall q, In q ks -> q <> p -> test q = false) -> find test ks = Some p.
Proof.
  induction ks as [|k ks IH]; intros Hin Hp Hq; [destruct Hin|]. cbn [find].
  destruct (pos_eqb k p) eqn:Ekp.
  - apply pos_eqb_eq in Ekp. subst k. rewrite Hp. reflexivity.
  - assert (Hne : k <> p) by (intros ->; rewrite pos_eqb_refl in Ekp; discriminate).
    rewrite (Hq k (or_introl eq_refl) Hne). apply IH.
    + destruct Hin as [E|Hin]; [contradiction|exact Hin].
    + exact Hp.
    + intros q Hq' Hne'. apply Hq; [right; exact Hq'|exact Hne'].
Qed.

Lemma lost_pos_spec a a' p fv : vget p (ob_mem a) = Some fv -> vget p (ob_mem a') = None ->
  (forall q, q <> p -> vget q (ob_mem a') = vget q (ob_mem a)) -> lost_pos a a' = Some p.
Proof.
  intros H1 H2 H3. unfold lost_pos. apply find_first.
  - apply vget_In in H1. change p with (fst (p, fv)). apply in_map. exact H1.
  - rewrite H2. reflexivity.
  - intros q Hq Hne. rewrite (H3 q Hne). pose proof (key_vget _ q Hq) as X.
    destruct (vget q (ob_mem a)); [reflexivity|contradiction].
Qed.

Lemma handle_set_self h hi a a' : handle_set h hi a a' -> hget h (ob_handles a') = Some hi.
Proof. intros H. rewrite (H h), N.eqb_refl. reflexivity. Qed.

(* every call either leaves all files alone in both views, or leaves alone all files but its target *)
Theorem step_summary x : ostep_ok x ->
  files_same (os_pre x) (os_post x) \/
  exists p0, target_of x = Some p0 /\ others_same p0 (os_pre x) (os_post x).
Proof.
  destruct x as [o clock r a a']. unfold ostep_ok, target_of. cbn [os_op os_clock os_res os_pre os_post].
  intros H. destruct o; cbn [content_rel] in H; try (left; exact (files_same_refl _ _ H)).
  - (* OpenFile *)
    unfold open_content in H. destruct r as [[| hn | | | | | |]|e| |]; try (left; exact (files_same_refl _ _ H)); try destruct H.
    destruct H0 as (sfn & p & md1 & _ & _ & _ & Hoth & Hm). right. exists p. split; [|exact Hoth].
    destruct (vget p (ob_mem a)) as [fv|].
    + destruct Hm as (_ & [(_ & _ & _ & Hs)|(_ & _ & _ & _ & Hs)]); rewrite (handle_set_self _ _ _ _ Hs); reflexivity.
    + destruct Hm as (_ & _ & _ & _ & _ & Hs). rewrite (handle_set_self _ _ _ _ Hs). reflexivity.
  - (* CloseFile *)
    unfold flush_content in H. destruct (hget f (ob_handles a)) as [hi|].
    + right. exists (hi_pos hi). split; [reflexivity|]. exact (proj1 (proj2 H)).
    + left. exact (files_same_refl _ _ (proj2 H)).
  - (* Flush *)
    unfold flush_content in H. destruct (hget f (ob_handles a)) as [hi|].
    + right. exists (hi_pos hi). split; [reflexivity|]. exact (proj1 (proj2 H)).
    + left. exact (files_same_refl _ _ (proj2 H)).
  - (* Read *)
    unfold read_content in H. cbn [andb] in H. destruct (hget f (ob_handles a)) as [hi|].
    + destruct H as (fv & _ & _ & _ & E1 & E2 & _). left. exact (files_same_eq _ _ E1 E2).
    + left. exact (files_same_refl _ _ (proj2 H)).
  - (* Write *)
    unfold write_content in H. destruct (hget f (ob_handles a)) as [hi|].
    + destruct (negb (writable (hi_mode hi))); [left; exact (files_same_refl _ _ (proj2 H))|].
      destruct H as (fv & dfv & dfv' & _ & _ & _ & _ & Hoth & _). right. exists (hi_pos hi). split; [reflexivity|exact Hoth].
    + left. exact (files_same_refl _ _ (proj2 H)).
  - (* SeekStart *)
    unfold seek_content, with_handle in H. destruct (hget f (ob_handles a)) as [hi|]; [|left; exact (files_same_refl _ _ (proj2 H))].
    destruct H as (fv & _ & H). destruct (spec_seek_start _ _ _).
    + destruct H as (_ & E1 & E2 & _). left. exact (files_same_eq _ _ E1 E2).
    + left. exact (files_same_refl _ _ (proj2 H)).
  - (* SeekCur *)
    unfold seek_content, with_handle in H. destruct (hget f (ob_handles a)) as [hi|]; [|left; exact (files_same_refl _ _ (proj2 H))].
    destruct H as (fv & _ & H). destruct (spec_seek_cur _ _ _).
    + destruct H as (_ & E1 & E2 & _). left. exact (files_same_eq _ _ E1 E2).
    + left. exact (files_same_refl _ _ (proj2 H)).
  - (* SeekEnd *)
    unfold seek_content, with_handle in H. destruct (hget f (ob_handles a)) as [hi|]; [|left; exact (files_same_refl _ _ (proj2 H))].
    destruct H as (fv & _ & H). destruct (spec_seek_end _ _ _).
    + destruct H as (_ & E1 & E2 & _). left. exact (files_same_eq _ _ E1 E2).
    + left. exact (files_same_refl _ _ (proj2 H)).
  - (* Length *) left. exact (files_same_refl _ _ (proj1 H)).
  - (* Offset *) left. exact (files_same_refl _ _ (proj1 H)).
  - (* Eof *) left. exact (files_same_refl _ _ (proj1 H)).
  - (* Delete *)
    unfold delete_content in H. destruct r as [x|e| |]; try (left; exact (files_same_refl _ _ H)).
    destruct H as (_ & sfn & p & fv & _ & Hp & _ & _ & Hm & _ & Hoth & _). right. exists p. split; [|exact Hoth].
    apply (lost_pos_spec a a' p fv Hp Hm). intros q Hq. exact (proj1 (Hoth q Hq)).
  - (* Mkdir *) left. exact (proj1 H).
  - (* IoSeek *)
    unfold io_seek_content in H. destruct (hget f (ob_handles a)) as [hi|]; [|left; exact (files_same_refl _ _ (proj2 H))].
    destruct H as (fv & _ & H). destruct (io_seek_target _ _ _ _).
    + destruct H as (_ & E1 & E2 & _). left. exact (files_same_eq _ _ E1 E2).
    + left. exact (files_same_refl _ _ (proj2 H)).
  - (* IoRead *)
    unfold read_content in H. cbn [andb] in H. destruct (n =? 0); [left; exact (files_same_refl _ _ (proj2 H))|].
    destruct (hget f (ob_handles a)) as [hi|].
    + destruct H as (fv & _ & _ & _ & E1 & E2 & _). left. exact (files_same_eq _ _ E1 E2).
    + left. exact (files_same_refl _ _ (proj2 H)).
  - (* IoWrite *)
    unfold write_content in H. destruct data as [|b data]; [left; exact (files_same_refl _ _ (proj2 H))|].
    destruct (hget f (ob_handles a)) as [hi|].
    + destruct (negb (writable (hi_mode hi))); [left; exact (files_same_refl _ _ (proj2 H))|].
      destruct H as (fv & dfv & dfv' & _ & _ & _ & _ & Hoth & _). right. exists (hi_pos hi). split; [reflexivity|exact Hoth].
    + left. exact (files_same_refl _ _ (proj2 H)).
Qed.

(* C02, last sentence, for one call: a file the call does not target shows the same in both views *)
Corollary step_frame x p : ostep_ok x -> target_of x <> Some p ->
  vget p (ob_mem (os_post x)) = vget p (ob_mem (os_pre x)) /\ vget p (ob_disk (os_post x)) = vget p (ob_disk (os_pre x)).
Proof.
  intros Hx Ht. destruct (step_summary x Hx) as [Hs|(p0 & E & Hoth)]; [exact (Hs p)|].
  apply Hoth. intros ->. exact (Ht E).
Qed.

(* ================================================================== 3. untouched files over whole histories *)
Theorem chain_untouched p : forall tr a a', chain_ok a tr a' -> Forall (fun x => target_of x <> Some p) tr ->
  vget p (ob_mem a') = vget p (ob_mem a) /\ vget p (ob_disk a') = vget p (ob_disk a).
Proof.
  induction tr as [|x tr IH]; intros a a' Hc Hf; cbn [chain_ok] in Hc.
  - subst a'. split; reflexivity.
  - destruct Hc as (<- & Hx & Hc). inversion Hf as [|? ? Hp Hf']; subst.
    destruct (IH _ _ Hc Hf') as (E1 & E2). destruct (step_frame x p Hx Hp) as (F1 & F2).
    rewrite E1, E2, F1, F2. split; reflexivity.
Qed.

(* ---- the directories: which raw slot a call rewrites ---- *)
(* the 32 bytes of slot p of ONE directory dc change (after dc possibly received more slots at
   its end); every other directory that existed keeps its slot list (a new directory may appear) *)
Definition dirs_change (p : spos) (a a' : obs) : Prop :=
  exists dc sl extra new,
    dget dc (ob_dirs a) = Some sl /\
    dget dc (ob_dirs a') = Some (map (upd_slot (fst p) (snd p) new) (sl ++ extra)) /\
    forall c, c <> dc -> dget c (ob_dirs a) = None \/ dget c (ob_dirs a') = dget c (ob_dirs a).

Lemma dirs_slot_change grow p a a' : dirs_slot grow p a a' -> dirs_change p a a'.
Proof.
  intros (dc & sl & extra & new & H1 & _ & _ & _ & H2 & H3). exists dc, sl, extra, new.
  split; [exact H1|]. split; [exact H2|]. intros c Hc. right. exact (H3 c Hc).
Qed.

Lemma dirs_same_eq a a' : ob_dirs a' = ob_dirs a -> dirs_same a a'.
Proof. intros E c. rewrite E. reflexivity. Qed.
Lemma dirs_same_refl a a' : same_obs a a' -> dirs_same a a'.
Proof. intros -> c. reflexivity. Qed.

Definition is_mkdir (o : op) : Prop := match o with Mkdir _ _ => True | _ => False end.

Theorem step_dirs x : ostep_ok x ->
  dirs_same (os_pre x) (os_post x) \/
  exists p, (target_of x = Some p \/ is_mkdir (os_op x)) /\ dirs_change p (os_pre x) (os_post x).
Proof.
  destruct x as [o clock r a a']. unfold ostep_ok, target_of. cbn [os_op os_clock os_res os_pre os_post].
  intros H. destruct o; cbn [content_rel] in H; try (left; exact (dirs_same_refl _ _ H)).
  - (* OpenFile *)
    unfold open_content in H. destruct r as [[| hn | | | | | |]|e| |]; try (left; exact (dirs_same_refl _ _ H)); try destruct H.
    destruct H0 as (sfn & p & md1 & _ & _ & _ & Hoth & Hm).
    destruct (vget p (ob_mem a)) as [fv|].
    + destruct Hm as (_ & [(_ & _ & Hd & _)|(_ & _ & _ & Hd & Hs)]); [left; exact Hd|].
      right. exists p. split; [left; rewrite (handle_set_self _ _ _ _ Hs); reflexivity|exact (dirs_slot_change _ _ _ _ Hd)].
    + destruct Hm as (_ & _ & _ & _ & Hd & Hs). right. exists p.
      split; [left; rewrite (handle_set_self _ _ _ _ Hs); reflexivity|exact (dirs_slot_change _ _ _ _ Hd)].
  - (* CloseFile *)
    unfold flush_content in H. destruct (hget f (ob_handles a)) as [hi|]; [|left; exact (dirs_same_refl _ _ (proj2 H))].
    destruct H as (_ & _ & _ & Hd & _). destruct (hi_dirty hi).
    + right. exists (hi_pos hi). split; [left; reflexivity|]. exact (dirs_slot_change _ _ _ _ (proj2 (proj2 Hd))).
    + left. exact (proj2 Hd).
  - (* Flush *)
    unfold flush_content in H. destruct (hget f (ob_handles a)) as [hi|]; [|left; exact (dirs_same_refl _ _ (proj2 H))].
    destruct H as (_ & _ & _ & Hd & _). destruct (hi_dirty hi).
    + right. exists (hi_pos hi). split; [left; reflexivity|]. exact (dirs_slot_change _ _ _ _ (proj2 (proj2 Hd))).
    + left. exact (proj2 Hd).
  - (* Read *)
    unfold read_content in H. cbn [andb] in H. destruct (hget f (ob_handles a)) as [hi|].
    + destruct H as (fv & _ & _ & _ & _ & _ & E). left. exact (dirs_same_eq _ _ E).
    + left. exact (dirs_same_refl _ _ (proj2 H)).
  - (* Write *)
    unfold write_content in H. destruct (hget f (ob_handles a)) as [hi|].
    + destruct (negb (writable (hi_mode hi))); [left; exact (dirs_same_refl _ _ (proj2 H))|].
      destruct H as (fv & dfv & dfv' & _ & _ & _ & _ & _ & Hd & _). left. exact Hd.
    + left. exact (dirs_same_refl _ _ (proj2 H)).
  - (* SeekStart *)
    unfold seek_content, with_handle in H. destruct (hget f (ob_handles a)) as [hi|]; [|left; exact (dirs_same_refl _ _ (proj2 H))].
    destruct H as (fv & _ & H). destruct (spec_seek_start _ _ _).
    + destruct H as (_ & _ & _ & E & _). left. exact (dirs_same_eq _ _ E).
    + left. exact (dirs_same_refl _ _ (proj2 H)).
  - (* SeekCur *)
    unfold seek_content, with_handle in H. destruct (hget f (ob_handles a)) as [hi|]; [|left; exact (dirs_same_refl _ _ (proj2 H))].
    destruct H as (fv & _ & H). destruct (spec_seek_cur _ _ _).
    + destruct H as (_ & _ & _ & E & _). left. exact (dirs_same_eq _ _ E).
    + left. exact (dirs_same_refl _ _ (proj2 H)).
  - (* SeekEnd *)
    unfold seek_content, with_handle in H. destruct (hget f (ob_handles a)) as [hi|]; [|left; exact (dirs_same_refl _ _ (proj2 H))].
    destruct H as (fv & _ & H). destruct (spec_seek_end _ _ _).
    + destruct H as (_ & _ & _ & E & _). left. exact (dirs_same_eq _ _ E).
    + left. exact (dirs_same_refl _ _ (proj2 H)).
  - left. exact (dirs_same_refl _ _ (proj1 H)).
  - left. exact (dirs_same_refl _ _ (proj1 H)).
  - left. exact (dirs_same_refl _ _ (proj1 H)).
  - (* Delete *)
    unfold delete_content in H. destruct r as [x|e| |]; try (left; exact (dirs_same_refl _ _ H)).
    destruct H as (_ & sfn & p & fv & _ & Hp & _ & _ & Hm & _ & Hoth & Hd & _). right. exists p. split; [left|exact (dirs_slot_change _ _ _ _ Hd)].
    apply (lost_pos_spec a a' p fv Hp Hm). intros q Hq. exact (proj1 (Hoth q Hq)).
  - (* Mkdir *)
    destruct H as (_ & _ & H). destruct r as [x|e| |]; try (left; exact H).
    destruct H as (_ & p & cnew & slnew & dc & sl & extra & new & _ & Hn & _ & _ & H1 & _ & _ & H2 & H3).
    right. exists p. split; [right; exact I|]. exists dc, sl, extra, new. split; [exact H1|]. split; [exact H2|].
    intros c Hc. destruct (N.eq_dec c cnew) as [->|Hc']; [left; exact Hn|right; exact (H3 c Hc Hc')].
  - (* IoSeek *)
    unfold io_seek_content in H. destruct (hget f (ob_handles a)) as [hi|]; [|left; exact (dirs_same_refl _ _ (proj2 H))].
    destruct H as (fv & _ & H). destruct (io_seek_target _ _ _ _).
    + destruct H as (_ & _ & _ & E & _). left. exact (dirs_same_eq _ _ E).
    + left. exact (dirs_same_refl _ _ (proj2 H)).
  - (* IoRead *)
    unfold read_content in H. cbn [andb] in H. destruct (n =? 0); [left; exact (dirs_same_refl _ _ (proj2 H))|].
    destruct (hget f (ob_handles a)) as [hi|].
    + destruct H as (fv & _ & _ & _ & _ & _ & E). left. exact (dirs_same_eq _ _ E).
    + left. exact (dirs_same_refl _ _ (proj2 H)).
  - (* IoWrite *)
    unfold write_content in H. destruct data as [|b data]; [left; exact (dirs_same_refl _ _ (proj2 H))|].
    destruct (hget f (ob_handles a)) as [hi|].
    + destruct (negb (writable (hi_mode hi))); [left; exact (dirs_same_refl _ _ (proj2 H))|].
      destruct H as (fv & dfv & dfv' & _ & _ & _ & _ & _ & Hd & _). left. exact Hd.
    + left. exact (dirs_same_refl _ _ (proj2 H)).
Qed.

(* every raw slot of every directory, other than the one the call rewrites, stays at its index
   in its directory with the same 32 bytes *)
Definition slots_keep (P : spos -> Prop) (a a' : obs) : Prop :=
  forall c sl, dget c (ob_dirs a) = Some sl ->
    exists sl', dget c (ob_dirs a') = Some sl' /\
      forall i t, nth_error sl i = Some t -> ~ P (fst t) -> nth_error sl' i = Some t.

Lemma slots_keep_refl P a a' : dirs_same a a' -> slots_keep P a a'.
Proof. intros H c sl Hc. exists sl. split; [rewrite (H c); exact Hc|]. intros i t Ht _. exact Ht. Qed.

Lemma dirs_change_keep p a a' : dirs_change p a a' -> slots_keep (fun q => q = p) a a'.
Proof.
  intros (dc & sl0 & extra & new & H1 & H2 & H3) c sl Hc. destruct (N.eq_dec c dc) as [->|Hne].
  - rewrite H1 in Hc. injection Hc as <-. eexists. split; [exact H2|]. intros i t Ht Hp.
    rewrite nth_error_map, nth_error_app1 by (apply nth_error_Some; congruence). rewrite Ht. cbn [option_map].
    f_equal. apply upd_slot_miss. intros E. apply Hp. rewrite E. destruct p; reflexivity.
  - destruct (H3 c Hne) as [E|E]; [congruence|]. exists sl. split; [rewrite E; exact Hc|]. intros i t Ht _. exact Ht.
Qed.

Lemma slots_keep_trans (P Q : spos -> Prop) a b c : slots_keep P a b -> slots_keep Q b c ->
  slots_keep (fun q => P q \/ Q q) a c.
Proof.
  intros H1 H2 k sl Hk. destruct (H1 k sl Hk) as (sl1 & E1 & K1). destruct (H2 k sl1 E1) as (sl2 & E2 & K2).
  exists sl2. split; [exact E2|]. intros i t Ht Hn. apply K2; [apply K1; [exact Ht|]|]; intros X; apply Hn; [left|right]; exact X.
Qed.

(* over a chain: qs lists, call by call, the slot rewritten (None: none); it is the call's file
   target or the one slot a successful Mkdir writes in the parent directory *)
Theorem chain_dirs : forall tr a a', chain_ok a tr a' ->
  exists qs, Forall2 (fun x q => q = None \/ q = target_of x \/ is_mkdir (os_op x)) tr qs /\
    slots_keep (fun p => In (Some p) qs) a a'.
Proof.
  induction tr as [|x tr IH]; intros a a' Hc; cbn [chain_ok] in Hc.
  - subst a'. exists []. split; [constructor|]. apply slots_keep_refl. intros c. reflexivity.
  - destruct Hc as (<- & Hx & Hc). destruct (IH _ _ Hc) as (qs & Hq & Hk).
    destruct (step_dirs x Hx) as [Hs|(p & Hp & Hch)].
    + exists (None :: qs). split; [constructor; [left; reflexivity|exact Hq]|].
      pose proof (slots_keep_trans _ _ _ _ _ (slots_keep_refl (fun _ => False) _ _ Hs) Hk) as K.
      intros c sl Hc'. destruct (K c sl Hc') as (sl' & E & K'). exists sl'. split; [exact E|].
      intros i t Ht Hn. apply (K' i t Ht). intros [[]|X]. apply Hn. right. exact X.
    + exists (Some p :: qs). split.
      * constructor; [|exact Hq]. destruct Hp as [E|M]; [right; left; symmetry; exact E|right; right; exact M].
      * pose proof (slots_keep_trans _ _ _ _ _ (dirs_change_keep _ _ _ Hch) Hk) as K.
        intros c sl Hc'. destruct (K c sl Hc') as (sl' & E & K'). exists sl'. split; [exact E|].
        intros i t Ht Hn. apply (K' i t Ht). intros [X|X]; apply Hn; [left; rewrite X; reflexivity|right; exact X].
Qed.

(* ================================================================== 2b. a clean handle shows the medium *)
Definition obs_sync (a : obs) : Prop :=
  forall h hi, hget h (ob_handles a) = Some hi -> hi_dirty hi = false ->
    vget (hi_pos hi) (ob_mem a) = vget (hi_pos hi) (ob_disk a).

(* with no file open there is nothing to show *)
Lemma obs_sync_closed a : ob_handles a = [] -> obs_sync a.
Proof. intros E h hi H. rewrite E in H. discriminate. Qed.

Lemma sync_other a a' p k hk : obs_sync a -> others_same p a a' ->
  hget k (ob_handles a) = Some hk -> hi_pos hk <> p -> hi_dirty hk = false ->
  vget (hi_pos hk) (ob_mem a') = vget (hi_pos hk) (ob_disk a').
Proof.
  intros S Ho Hk Hp Hd. destruct (Ho _ Hp) as (E1 & E2). rewrite E1, E2. exact (S k hk Hk Hd).
Qed.

Lemma sync_same_files a a' : obs_sync a -> ob_mem a' = ob_mem a -> ob_disk a' = ob_disk a ->
  (forall k hk, hget k (ob_handles a') = Some hk -> hi_dirty hk = false ->
     exists hk0, hget k (ob_handles a) = Some hk0 /\ hi_pos hk0 = hi_pos hk /\ hi_dirty hk0 = false) ->
  obs_sync a'.
Proof.
  intros S E1 E2 Hh k hk Hk Hd. destruct (Hh k hk Hk Hd) as (hk0 & H0 & Ep & Ed0).
  rewrite E1, E2, <- Ep. exact (S k hk0 H0 Ed0).
Qed.

Lemma sync_cursor a a' h hi n : obs_sync a -> hget h (ob_handles a) = Some hi ->
  ob_mem a' = ob_mem a -> ob_disk a' = ob_disk a -> handle_set h (set_hi_off hi n) a a' -> obs_sync a'.
Proof.
  intros S Hh E1 E2 Hs. apply (sync_same_files a a' S E1 E2). intros k hk Hk Hd. rewrite (Hs k) in Hk.
  destruct (N.eqb_spec k h) as [->|Hne].
  - injection Hk as <-. exists hi. split; [exact Hh|]. split; [reflexivity|exact Hd].
  - exists hk. split; [exact Hk|]. split; [reflexivity|exact Hd].
Qed.

Theorem sync_step x : ostep_ok x -> obs_wf (os_pre x) -> obs_sync (os_pre x) -> obs_sync (os_post x).
Proof.
  destruct x as [o clock r a a']. unfold ostep_ok. cbn [os_op os_clock os_res os_pre os_post].
  intros H W S.
  assert (Hsame : same_obs a a' -> obs_sync a') by (intros ->; exact S).
  destruct o; cbn [content_rel] in H; try (exact (Hsame H)).
  - (* OpenFile *)
    unfold open_content in H. destruct r as [[| hn | | | | | |]|e| |]; try (exact (Hsame H)); try destruct H.
    destruct H0 as (sfn & p & md1 & _ & Hno & _ & Hoth & Hm).
    assert (Hold : forall k hk, k <> hn -> hget k (ob_handles a) = Some hk -> hi_dirty hk = false ->
                     vget (hi_pos hk) (ob_mem a') = vget (hi_pos hk) (ob_disk a')).
    { intros k hk _ Hk Hd. exact (sync_other a a' p k hk S Hoth Hk (Hno k hk Hk) Hd). }
    intros k hk Hk Hd. destruct (vget p (ob_mem a)) as [fv|] eqn:Ep.
    + destruct Hm as (_ & [(_ & Hf & _ & Hs)|(_ & Em & Ed & _ & Hs)]); rewrite (Hs k) in Hk;
        (destruct (N.eqb_spec k hn) as [->|Hne]; [injection Hk as <-; cbn [hi_pos]|exact (Hold k hk Hne Hk Hd)]).
      * destruct (Hf p) as (F1 & F2). rewrite F1, F2. exact (ow_closed a W p Hno).
      * symmetry. exact Ed.
    + destruct Hm as (_ & _ & Em & Ed & _ & Hs). rewrite (Hs k) in Hk.
      destruct (N.eqb_spec k hn) as [->|Hne]; [injection Hk as <-; cbn [hi_pos]; symmetry; exact Ed|exact (Hold k hk Hne Hk Hd)].
  - (* CloseFile *)
    unfold flush_content in H. destruct (hget f (ob_handles a)) as [hi|] eqn:Eh; [|exact (Hsame (proj2 H))].
    destruct H as (_ & Hoth & Hdel & _). intros k hk Hk Hd. rewrite (Hdel k) in Hk.
    destruct (N.eqb_spec k f) as [->|Hne]; [discriminate|].
    apply (sync_other a a' (hi_pos hi) k hk S Hoth Hk); [|exact Hd].
    intros E. apply Hne. exact (ow_inj a W k f hk hi Hk Eh E).
  - (* Flush *)
    unfold flush_content in H. destruct (hget f (ob_handles a)) as [hi|] eqn:Eh; [|exact (Hsame (proj2 H))].
    destruct H as (_ & Hoth & Hsm & Hd' & Em). intros k hk Hk Hd. rewrite (Hsm k) in Hk.
    destruct (pos_eqb (hi_pos hk) (hi_pos hi)) eqn:Ep.
    + apply pos_eqb_eq in Ep. pose proof (ow_inj a W k f hk hi Hk Eh Ep) as ->. rewrite Eh in Hk. injection Hk as <-.
      rewrite Hd in Hd'. rewrite Em, (proj1 Hd'). exact (S f hi Eh Hd).
    + apply (sync_other a a' (hi_pos hi) k hk S Hoth Hk); [|exact Hd]. intros E. rewrite E, pos_eqb_refl in Ep. discriminate.
  - (* Read *)
    unfold read_content in H. cbn [andb] in H. destruct (hget f (ob_handles a)) as [hi|] eqn:Eh; [|exact (Hsame (proj2 H))].
    destruct H as (fv & _ & _ & Hs & E1 & E2 & _). exact (sync_cursor a a' f hi _ S Eh E1 E2 Hs).
  - (* Write *)
    unfold write_content in H. destruct (hget f (ob_handles a)) as [hi|] eqn:Eh; [|exact (Hsame (proj2 H))].
    destruct (negb (writable (hi_mode hi))); [exact (Hsame (proj2 H))|].
    destruct H as (fv & dfv & dfv' & _ & _ & _ & _ & Hoth & _ & Hc).
    assert (Hs : exists hi', hi_dirty hi' = true /\ handle_set f hi' a a').
    { destruct Hc as [(_ & _ & Hs)|[(_ & k & _ & _ & Hs)|(_ & _ & _ & Hs)]]; eexists; (split; [|exact Hs]); reflexivity. }
    destruct Hs as (hi' & Hdirty & Hs). intros k hk Hk Hd. rewrite (Hs k) in Hk.
    destruct (N.eqb_spec k f) as [->|Hne]; [injection Hk as <-; congruence|].
    apply (sync_other a a' (hi_pos hi) k hk S Hoth Hk); [|exact Hd].
    intros E. apply Hne. exact (ow_inj a W k f hk hi Hk Eh E).
  - (* SeekStart *)
    unfold seek_content, with_handle in H. destruct (hget f (ob_handles a)) as [hi|] eqn:Eh; [|exact (Hsame (proj2 H))].
    destruct H as (fv & _ & H). destruct (spec_seek_start _ _ _); [|exact (Hsame (proj2 H))].
    destruct H as (_ & E1 & E2 & _ & Hs). exact (sync_cursor a a' f hi _ S Eh E1 E2 Hs).
  - (* SeekCur *)
    unfold seek_content, with_handle in H. destruct (hget f (ob_handles a)) as [hi|] eqn:Eh; [|exact (Hsame (proj2 H))].
    destruct H as (fv & _ & H). destruct (spec_seek_cur _ _ _); [|exact (Hsame (proj2 H))].
    destruct H as (_ & E1 & E2 & _ & Hs). exact (sync_cursor a a' f hi _ S Eh E1 E2 Hs).
  - (* SeekEnd *)
    unfold seek_content, with_handle in H. destruct (hget f (ob_handles a)) as [hi|] eqn:Eh; [|exact (Hsame (proj2 H))].
    destruct H as (fv & _ & H). destruct (spec_seek_end _ _ _); [|exact (Hsame (proj2 H))].
    destruct H as (_ & E1 & E2 & _ & Hs). exact (sync_cursor a a' f hi _ S Eh E1 E2 Hs).
  - exact (Hsame (proj1 H)).
  - exact (Hsame (proj1 H)).
  - exact (Hsame (proj1 H)).
  - (* Delete *)
    unfold delete_content in H. destruct r as [x|e| |]; try (exact (Hsame H)).
    destruct H as (_ & sfn & p & fv & _ & _ & _ & Hno & _ & _ & Hoth & _ & Eh). intros k hk Hk Hd. rewrite Eh in Hk.
    exact (sync_other a a' p k hk S Hoth Hk (Hno k hk Hk) Hd).
  - (* Mkdir *)
    destruct H as (Hf & Eh & _). intros k hk Hk Hd. rewrite Eh in Hk. destruct (Hf (hi_pos hk)) as (E1 & E2).
    rewrite E1, E2. exact (S k hk Hk Hd).
  - (* IoSeek *)
    unfold io_seek_content in H. destruct (hget f (ob_handles a)) as [hi|] eqn:Eh; [|exact (Hsame (proj2 H))].
    destruct H as (fv & _ & H). destruct (io_seek_target _ _ _ _); [|exact (Hsame (proj2 H))].
    destruct H as (_ & E1 & E2 & _ & Hs). exact (sync_cursor a a' f hi _ S Eh E1 E2 Hs).
  - (* IoRead *)
    unfold read_content in H. cbn [andb] in H. destruct (n =? 0); [exact (Hsame (proj2 H))|].
    destruct (hget f (ob_handles a)) as [hi|] eqn:Eh; [|exact (Hsame (proj2 H))].
    destruct H as (fv & _ & _ & Hs & E1 & E2 & _). exact (sync_cursor a a' f hi _ S Eh E1 E2 Hs).
  - (* IoWrite *)
    unfold write_content in H. destruct data as [|b data]; [exact (Hsame (proj2 H))|].
    destruct (hget f (ob_handles a)) as [hi|] eqn:Eh; [|exact (Hsame (proj2 H))].
    destruct (negb (writable (hi_mode hi))); [exact (Hsame (proj2 H))|].
    destruct H as (fv & dfv & dfv' & _ & _ & _ & _ & Hoth & _ & Hc).
    assert (Hs : exists hi', hi_dirty hi' = true /\ handle_set f hi' a a').
    { destruct Hc as [(_ & _ & Hs)|[(_ & k & _ & _ & Hs)|(_ & _ & _ & Hs)]]; eexists; (split; [|exact Hs]); reflexivity. }
    destruct Hs as (hi' & Hdirty & Hs). intros k hk Hk Hd. rewrite (Hs k) in Hk.
    destruct (N.eqb_spec k f) as [->|Hne]; [injection Hk as <-; congruence|].
    apply (sync_other a a' (hi_pos hi) k hk S Hoth Hk); [|exact Hd].
    intros E. apply Hne. exact (ow_inj a W k f hk hi Hk Eh E).
Qed.

Theorem chain_sync : forall tr a a', chain_ok a tr a' ->
  Forall (fun x => obs_wf (os_pre x) /\ obs_wf (os_post x)) tr -> obs_sync a -> obs_sync a'.
Proof.
  induction tr as [|x tr IH]; intros a a' Hc Hw S; cbn [chain_ok] in Hc; [subst a'; exact S|].
  destruct Hc as (<- & Hx & Hc). inversion Hw as [|? ? (W1 & _) Hw']; subst.
  exact (IH _ _ Hc Hw' (sync_step x Hx W1 S)).
Qed.

(* ================================================================== 3b. what a flush / close put on the medium stays *)
Definition is_flush_of (h : N) (o : op) : Prop := o = Flush h \/ o = CloseFile h.

(* one flush / close of a valid handle, under obs_sync: the medium then shows what the API showed *)
Lemma flush_step_disk x h hi : ostep_ok x -> is_flush_of h (os_op x) -> obs_wf (os_pre x) -> obs_sync (os_pre x) ->
  hget h (ob_handles (os_pre x)) = Some hi ->
  os_res x = Ok RUnit /\
  vget (hi_pos hi) (ob_disk (os_post x)) = vget (hi_pos hi) (ob_mem (os_pre x)) /\
  vget (hi_pos hi) (ob_mem (os_pre x)) <> None.
Proof.
  destruct x as [o clock r a a']. unfold ostep_ok. cbn [os_op os_clock os_res os_pre os_post].
  intros H Hf W S Hh.
  assert (Hc : exists cl, flush_content cl h r a a').
  { destruct Hf as [-> | ->]; cbn [content_rel] in H; eexists; exact H. }
  destruct Hc as (cl & Hc). unfold flush_content in Hc. rewrite Hh in Hc.
  destruct Hc as (Er & _ & _ & Hd & _). split; [exact Er|]. split; [|exact (ow_open a W h hi Hh)].
  destruct (hi_dirty hi) eqn:Ed; [exact (proj1 Hd)|]. rewrite (proj1 Hd). symmetry. exact (S h hi Hh Ed).
Qed.

Lemma Forall_app_inv {A} (P : A -> Prop) l1 l2 : Forall P (l1 ++ l2) -> Forall P l1 /\ Forall P l2.
Proof. intros H. apply Forall_app in H. exact H. Qed.

(* C02 over chains: after a flush / close of handle h (at position p), as long as no later call
   targets p, a fresh mount shows at p exactly what the API showed when the flush was called *)
Theorem chain_flushed_stays tr1 x tr2 a a' h hi :
  chain_ok a (tr1 ++ x :: tr2) a' ->
  Forall (fun y => obs_wf (os_pre y) /\ obs_wf (os_post y)) (tr1 ++ x :: tr2) -> obs_sync a ->
  is_flush_of h (os_op x) -> hget h (ob_handles (os_pre x)) = Some hi ->
  Forall (fun y => target_of y <> Some (hi_pos hi)) tr2 ->
  os_res x = Ok RUnit /\
  vget (hi_pos hi) (ob_disk a') = vget (hi_pos hi) (ob_mem (os_pre x)) /\
  vget (hi_pos hi) (ob_mem (os_pre x)) <> None.
Proof.
  intros Hc Hw S Hf Hh Hu. apply chain_ok_app in Hc. destruct Hc as (b & C1 & C2).
  cbn [chain_ok] in C2. destruct C2 as (Eb & Hx & C2). subst b.
  destruct (Forall_app_inv _ _ _ Hw) as (W1 & W2). inversion W2 as [|? ? (Wx & _) W3]; subst.
  pose proof (chain_sync tr1 a (os_pre x) C1 W1 S) as Sx.
  destruct (flush_step_disk x h hi Hx Hf Wx Sx Hh) as (Er & Ed & En).
  split; [exact Er|]. split; [|exact En].
  destruct (chain_untouched (hi_pos hi) tr2 _ _ C2 Hu) as (_ & E2). rewrite E2. exact Ed.
Qed.

(* ================================================================== 3c. the same, for histories of the model *)
Section Histories.
  Variables fsz vid : N.
  Hypothesis Hall : forall o, step_content fsz vid o.

  (* C02, last sentence: after ANY history, a file position that no call of the history targets
     shows in both views what it showed at the start (in particular: what a fresh mount shows,
     name, attribute, times and every byte); and every raw 32-byte slot of every directory stays at
     its index with the same bytes, except the slots at targeted file positions and the one slot
     each successful Mkdir writes into the parent directory *)
  Theorem C02_untouched_history ops s age a :
    fs_inv fsz vid s -> PrHandles.handles_ok age s ->
    age + N.of_nat (length ops) < U32 - 1 -> Forall op_known_ok ops -> observes fsz vid s a ->
    exists tr a', map os_op tr = ops /\ map os_res tr = fst (run_ops ops s) /\
      observes fsz vid (snd (run_ops ops s)) a' /\ chain_ok a tr a' /\
      (forall p, Forall (fun x => target_of x <> Some p) tr ->
         vget p (ob_mem a') = vget p (ob_mem a) /\ vget p (ob_disk a') = vget p (ob_disk a)) /\
      exists qs, Forall2 (fun x q => q = None \/ q = target_of x \/ is_mkdir (os_op x)) tr qs /\
        slots_keep (fun p => In (Some p) qs) a a'.
  Proof.
    intros Hinv Hh Hage Hops Ho.
    destruct (history_trace fsz vid Hall ops s age a Hinv Hh Hage Hops Ho) as (tr & a' & E1 & E2 & _ & Ho' & Hc & _).
    exists tr, a'. repeat (split; [assumption|]). split.
    - intros p Hp. exact (chain_untouched p tr a a' Hc Hp).
    - exact (chain_dirs tr a a' Hc).
  Qed.

  Lemma run_ops_app ops1 ops2 s :
    run_ops (ops1 ++ ops2) s =
    (fst (run_ops ops1 s) ++ fst (run_ops ops2 (snd (run_ops ops1 s))), snd (run_ops ops2 (snd (run_ops ops1 s)))).
  Proof.
    revert s. induction ops1 as [|o ops1 IH]; intros s; cbn [app run_ops fst snd].
    - destruct (run_ops ops2 s); reflexivity.
    - destruct (step o s) as [r s1]. rewrite (IH s1). destruct (run_ops ops1 s1) as [rs s2]. cbn [fst snd].
      destruct (run_ops ops2 s2); reflexivity.
  Qed.

  Lemma handles_ok_run : forall ops s age, PrHandles.handles_ok age s ->
    age + N.of_nat (length ops) < U32 - 1 -> Forall op_known_ok ops ->
    PrHandles.handles_ok (age + N.of_nat (length ops)) (snd (run_ops ops s)).
  Proof.
    induction ops as [|o ops IH]; intros s age Hh Hage Hops.
    - cbn. rewrite N.add_0_r. exact Hh.
    - cbn [run_ops]. destruct (step o s) as [r s1] eqn:Es.
      inversion Hops as [|? ? Hk Hrest]; subst. cbn [length] in Hage.
      assert (Ha2 : age < U32 - 1) by (unfold U32 in *; lia).
      assert (Ha3 : age + 1 + N.of_nat (length ops) < U32 - 1).
      { rewrite Nat2N.inj_succ in Hage. unfold U32 in *. lia. }
      pose proof (PrHandles.C08_handles_ok_step age o s Ha2 (no_remount_ok o (proj1 (proj1 Hk))) Hh) as Hh1.
      rewrite Es in Hh1. cbn [snd] in Hh1. specialize (IH s1 (age + 1) Hh1 Ha3 Hrest).
      destruct (run_ops ops s1) as [rs s2]. cbn [snd length] in *.
      replace (age + N.of_nat (S (length ops))) with (age + 1 + N.of_nat (length ops)) by lia. exact IH.
  Qed.

  (* C02: run ops1, then Flush / CloseFile on a handle h that is open at that moment (on the
     file at slot p), then ops2.  If no call of ops2 targets p, then after the whole history a
     fresh mount shows at p exactly what the API showed for the file when the flush was called:
     name, attribute, creation time, modification time, length and every byte.
     (a1 = the observation of the state after ops1; x, tr2 = the chain of the flush and of ops2.) *)
  Theorem C02_flushed_stays ops1 fl ops2 h s age a :
    fs_inv fsz vid s -> PrHandles.handles_ok age s ->
    age + N.of_nat (length (ops1 ++ fl :: ops2)) < U32 - 1 -> Forall op_known_ok (ops1 ++ fl :: ops2) ->
    observes fsz vid s a -> obs_sync a -> is_flush_of h fl ->
    let s1 := snd (run_ops ops1 s) in
    let s' := snd (run_ops (ops1 ++ fl :: ops2) s) in
    exists a1 x tr2 a', observes fsz vid s1 a1 /\ os_pre x = a1 /\ os_op x = fl /\ map os_op tr2 = ops2 /\
      chain_ok a1 (x :: tr2) a' /\ observes fsz vid s' a' /\
      forall hi, hget h (ob_handles a1) = Some hi ->
        Forall (fun y => target_of y <> Some (hi_pos hi)) tr2 ->
        os_res x = Ok RUnit /\
        vget (hi_pos hi) (ob_disk a') = vget (hi_pos hi) (ob_mem a1) /\ vget (hi_pos hi) (ob_mem a1) <> None.
  Proof.
    intros Hinv Hh Hage Hops Ho S Hf s1 s'.
    assert (Hage1 : age + N.of_nat (length ops1) < U32 - 1).
    { rewrite app_length, Nat2N.inj_add in Hage. unfold U32 in *. lia. }
    assert (Hage2 : age + N.of_nat (length ops1) + N.of_nat (length (fl :: ops2)) < U32 - 1).
    { rewrite app_length, Nat2N.inj_add in Hage. unfold U32 in *. lia. }
    apply Forall_app in Hops. destruct Hops as (Hops1 & Hops2).
    destruct (history_trace fsz vid Hall ops1 s age a Hinv Hh Hage1 Hops1 Ho) as (tr1 & a1 & _ & _ & _ & Ho1 & C1 & W1).
    fold s1 in Ho1. pose proof (handles_ok_run ops1 s age Hh Hage1 Hops1) as Hh1. fold s1 in Hh1.
    destruct (history_trace fsz vid Hall (fl :: ops2) s1 _ a1 (observes_inv _ _ _ _ Ho1) Hh1 Hage2 Hops2 Ho1)
      as (tr & a' & E1 & _ & _ & Ho' & C2 & W2).
    destruct tr as [|x tr2]; [discriminate|]. cbn [map] in E1. injection E1 as Ex Et.
    assert (Es' : s' = snd (run_ops (fl :: ops2) s1)) by (unfold s', s1; rewrite run_ops_app; reflexivity).
    rewrite <- Es' in Ho'.
    pose proof C2 as C2'. cbn [chain_ok] in C2'. destruct C2' as (Ep & Hx & C3).
    exists a1, x, tr2, a'. repeat (split; [assumption|]).
    intros hi Hhi Hu. pose proof (chain_sync tr1 a a1 C1 W1 S) as S1.
    inversion W2 as [|? ? (Wx & _) _]; subst.
    assert (Hf' : is_flush_of h (os_op x)) by exact Hf.
    destruct (flush_step_disk x h hi Hx Hf' Wx S1 Hhi) as (Er & Ed & En).
    split; [exact Er|]. split; [|exact En].
    destruct (chain_untouched (hi_pos hi) tr2 _ _ C3 Hu) as (_ & E2). rewrite E2. exact Ed.
  Qed.
End Histories.

(* ================================================================== 3d. flushed and not modified since: the medium shows the file *)
(* the calls that MODIFY a file: write, the opens (truncate / create; an open that keeps the file
   counts as a target too), delete - but not flush / close *)
Definition mod_target_of (x : ostep) : option spos :=
  match os_op x with Flush _ | CloseFile _ => None | _ => target_of x end.

Lemma step_keeps_synced x p : ostep_ok x -> mod_target_of x <> Some p ->
  vget p (ob_mem (os_pre x)) = vget p (ob_disk (os_pre x)) ->
  vget p (ob_mem (os_post x)) = vget p (ob_mem (os_pre x)) /\ vget p (ob_disk (os_post x)) = vget p (ob_disk (os_pre x)).
Proof.
  intros Hx Hm Hs.
  assert (Hfl : forall (cl : bool) (h : N), os_op x = (if cl then CloseFile h else Flush h) ->
            flush_content cl h (os_res x) (os_pre x) (os_post x)).
  { intros cl h E. unfold ostep_ok in Hx. rewrite E in Hx. destruct cl; exact Hx. }
  assert (Hcase : forall (cl : bool) (h : N), os_op x = (if cl then CloseFile h else Flush h) ->
            vget p (ob_mem (os_post x)) = vget p (ob_mem (os_pre x)) /\
            vget p (ob_disk (os_post x)) = vget p (ob_disk (os_pre x))).
  { intros cl h E. specialize (Hfl cl h E). unfold flush_content in Hfl.
    destruct (hget h (ob_handles (os_pre x))) as [hi|]; [|destruct Hfl as (_ & ->); split; reflexivity].
    destruct Hfl as (_ & Hoth & _ & Hd & Em).
    destruct (pos_eqb (hi_pos hi) p) eqn:Ep; [apply pos_eqb_eq in Ep; subst p|].
    - assert (Ed : vget (hi_pos hi) (ob_disk (os_post x)) = vget (hi_pos hi) (ob_disk (os_pre x))).
      { destruct (hi_dirty hi); [rewrite (proj1 Hd); exact Hs|exact (proj1 Hd)]. }
      split; [|exact Ed]. rewrite Em. destruct cl; [rewrite Ed; symmetry; exact Hs|reflexivity].
    - apply Hoth. intros E2. rewrite E2, pos_eqb_refl in Ep. discriminate. }
  destruct (os_op x) eqn:Eo; try (apply (step_frame x p Hx); unfold mod_target_of in Hm; rewrite Eo in Hm;
                                   unfold target_of in *; rewrite Eo in *; exact Hm).
  - exact (Hcase true f eq_refl).
  - exact (Hcase false f eq_refl).
Qed.

Theorem chain_synced_stays p : forall tr a a', chain_ok a tr a' ->
  Forall (fun x => mod_target_of x <> Some p) tr -> vget p (ob_mem a) = vget p (ob_disk a) ->
  vget p (ob_mem a') = vget p (ob_mem a) /\ vget p (ob_disk a') = vget p (ob_disk a).
Proof.
  induction tr as [|x tr IH]; intros a a' Hc Hf Hs; cbn [chain_ok] in Hc.
  - subst a'. split; reflexivity.
  - destruct Hc as (<- & Hx & Hc). inversion Hf as [|? ? Hp Hf']; subst.
    destruct (step_keeps_synced x p Hx Hp Hs) as (F1 & F2).
    assert (Hs' : vget p (ob_mem (os_post x)) = vget p (ob_disk (os_post x))) by (rewrite F1, F2; exact Hs).
    destruct (IH _ _ Hc Hf' Hs') as (E1 & E2). rewrite E1, E2, F1, F2. split; reflexivity.
Qed.

(* C02 over chains, final form: a flush / close of a handle on the file at p, no MODIFYING call on
   p afterwards (later flushes, closes, reads, seeks and calls on other files are allowed): at the
   end a fresh mount shows at p exactly what the API shows at the end, which is what it showed
   when the flush was called *)
Theorem chain_flushed_final tr1 x tr2 a a' h hi :
  chain_ok a (tr1 ++ x :: tr2) a' ->
  Forall (fun y => obs_wf (os_pre y) /\ obs_wf (os_post y)) (tr1 ++ x :: tr2) -> obs_sync a ->
  is_flush_of h (os_op x) -> hget h (ob_handles (os_pre x)) = Some hi ->
  Forall (fun y => mod_target_of y <> Some (hi_pos hi)) tr2 ->
  vget (hi_pos hi) (ob_disk a') = vget (hi_pos hi) (ob_mem a') /\
  vget (hi_pos hi) (ob_mem a') = vget (hi_pos hi) (ob_mem (os_pre x)) /\
  vget (hi_pos hi) (ob_mem (os_pre x)) <> None.
Proof.
  intros Hc Hw S Hf Hh Hu. apply chain_ok_app in Hc. destruct Hc as (b & C1 & C2).
  cbn [chain_ok] in C2. destruct C2 as (Eb & Hx & C2). subst b.
  destruct (Forall_app_inv _ _ _ Hw) as (W1 & W2). inversion W2 as [|? ? (Wx & _) W3]; subst.
  pose proof (chain_sync tr1 a (os_pre x) C1 W1 S) as Sx.
  destruct (flush_step_disk x h hi Hx Hf Wx Sx Hh) as (Er & Ed & En).
  (* after the flush the two views agree at p, and the API shows what it showed *)
  assert (Em : vget (hi_pos hi) (ob_mem (os_post x)) = vget (hi_pos hi) (ob_mem (os_pre x))).
  { assert (Hc : exists cl, flush_content cl h (os_res x) (os_pre x) (os_post x)).
    { unfold ostep_ok in Hx. destruct Hf as [E|E]; rewrite E in Hx; eexists; exact Hx. }
    destruct Hc as (cl & Hc). unfold flush_content in Hc. rewrite Hh in Hc. destruct Hc as (_ & _ & _ & _ & E).
    rewrite E. destruct cl; [exact Ed|reflexivity]. }
  assert (Hs : vget (hi_pos hi) (ob_mem (os_post x)) = vget (hi_pos hi) (ob_disk (os_post x))) by (rewrite Em, Ed; reflexivity).
  destruct (chain_synced_stays (hi_pos hi) tr2 _ _ C2 Hu Hs) as (E1 & E2).
  split; [rewrite E1, E2; symmetry; exact Hs|]. split; [rewrite E1; exact Em|exact En].
Qed.

(* ================================================================== 5. non-vacuity *)
(* PrGlobalDef.gx_state: file B (root slot (22, 64)) is open through handle 7, written (5 bytes,
   pending chain at cluster 6) and not flushed.  The API shows 5 bytes, a fresh mount shows an
   empty file; after Flush 7 the fresh mount shows exactly what the API showed (and still shows).
   The time stamps illustrate the normalisation: clock_ts 3 has 21 seconds, both views say 20. *)
Example content_example :
  exists bl rch T, root_of gx_disk exd_vol = Some (bl, rch) /\ tree_of 5 gx_disk exd_vol bl = Some T /\
    observes 1 0 gx_state (obs_at gx_state exd_vol bl T) /\
    obs_wf (obs_at gx_state exd_vol bl T) /\ obs_sync (obs_at gx_state exd_vol bl T) /\
    let p := (22, 64) in
    hget 7 (handles_of gx_state) = Some (mk_hinfo p ReadWriteCreate 0 true) /\
    option_map fv_bytes (vget p (mem_view gx_state exd_vol T)) = Some [0; 0; 0; 0; 0] /\
    option_map fv_bytes (vget p (disk_view gx_disk exd_vol T)) = Some [] /\
    option_map (fun x => t_seconds (fv_mtime x)) (vget p (mem_view gx_state exd_vol T)) = Some 20 /\
    match step (Flush 7) gx_state with
    | (Ok RUnit, s') =>
        exists T', tree_of 5 (s_disk s') exd_vol bl = Some T' /\
          vget p (disk_view (s_disk s') exd_vol T') = vget p (mem_view gx_state exd_vol T) /\
          vget p (mem_view s' exd_vol T') = vget p (mem_view gx_state exd_vol T) /\
          vget (22, 0) (disk_view (s_disk s') exd_vol T') = vget (22, 0) (disk_view gx_disk exd_vol T)
    | _ => False
    end.
Proof.
  eexists. eexists. eexists.
  split; [vm_compute; reflexivity|]. split; [vm_compute; reflexivity|].
  match goal with |- observes _ _ _ ?a /\ _ => assert (Ho : observes 1 0 gx_state a) end.
  { apply (observes_intro 1 0 gx_state exd_vol _ []).
    - exact (proj1 fs_inv_example).
    - reflexivity.
    - apply root_of_sound. vm_compute. reflexivity.
    - apply (tree_of_sound 5). vm_compute. reflexivity. }
  split; [exact Ho|]. split; [exact (observes_wf _ _ _ _ Ho)|]. split.
  { intros h hi Hh Hd. cbn [obs_at ob_handles] in Hh.
    assert (E : handles_of gx_state = [(7, mk_hinfo (22, 64) ReadWriteCreate 0 true)]) by (vm_compute; reflexivity).
    rewrite E in Hh. unfold hget in Hh. cbn [dget] in Hh. destruct (7 =? h); [|discriminate].
    injection Hh as <-. discriminate Hd. }
  cbv zeta. split; [vm_compute; reflexivity|]. split; [vm_compute; reflexivity|].
  split; [vm_compute; reflexivity|]. split; [vm_compute; reflexivity|].
  assert (E : exists s', step (Flush 7) gx_state = (Ok RUnit, s') /\
            exists T', tree_of 5 (s_disk s') exd_vol [22; 23] = Some T' /\
              vget (22, 64) (disk_view (s_disk s') exd_vol T') =
                vget (22, 64) (mem_view gx_state exd_vol
                   (match tree_of 5 gx_disk exd_vol [22; 23] with Some T => T | None => [] end)) /\
              vget (22, 64) (mem_view s' exd_vol T') =
                vget (22, 64) (mem_view gx_state exd_vol
                   (match tree_of 5 gx_disk exd_vol [22; 23] with Some T => T | None => [] end)) /\
              vget (22, 0) (disk_view (s_disk s') exd_vol T') =
                vget (22, 0) (disk_view gx_disk exd_vol
                   (match tree_of 5 gx_disk exd_vol [22; 23] with Some T => T | None => [] end))).
  { eexists. split; [vm_compute; reflexivity|]. eexists. split; [vm_compute; reflexivity|].
    split; [vm_compute; reflexivity|]. split; vm_compute; reflexivity. }
  destruct E as (s' & -> & T' & E1 & E2 & E3 & E4). exists T'. split; [exact E1|].
  split; [exact E2|]. split; [exact E3|exact E4].
Qed.

Print Assumptions history_trace.
Print Assumptions observes_wf.
Print Assumptions step_summary.
Print Assumptions step_dirs.
Print Assumptions sync_step.
Print Assumptions chain_flushed_stays.
Print Assumptions C02_untouched_history.
Print Assumptions C02_flushed_stays.
Print Assumptions content_example.
