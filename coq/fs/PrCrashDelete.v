(* PROOFS: C10 / C09 for `Delete d name` (FsMgr.delete_file_in_dir) over whole histories:
     step_crash_Delete : PrCrashDef.step_crash fsz vid (Delete d name)
     step_keeps_Delete : PrCrashDef4.step_keeps_flushed fsz vid (Delete d name)
   Every outcome: the refusals (BadHandle, FilenameError, NotFound, DeleteDirAsFile,
   FileAlreadyOpen) write nothing; the deletion writes the directory slot FIRST (one block: the
   first byte of the slot becomes 0xE5) and releases the chain AFTERWARDS (FAT sectors only).
   The crashed media of the deletion:
     - the old medium;
     - the medium after the slot write: the tree has lost the node (PrGlobalDelete.prune_list),
       its chain h :: rest is a LOST chain;
     - the medium after any prefix of the writes of free_cluster_chain (PrCrash.
       C10_free_prefix_chains): h :: rest still a lost chain / h a lost one-cluster chain, a
       prefix of rest free, the remainder of rest a lost chain of its own / everything free.
       Every other chain is untouched, no block outside the FAT changes (crd_free_stage).
   Sections 0-2 are shared with PrCrashMkdir: FAT well-formedness of a medium on which ONE
   chain was taken apart (crd_repartition), one new one-cluster chain, the shape `med_ok` of a
   crashed medium from which both obligations follow (step_med), data blocks of files lie
   outside the directories (crd_file_data_not_dir). *)
From Coq Require Import NArith ZArith List Bool Lia Arith ZifyClasses ZifyInst Zify FMapPositive Permutation.
From SdFs Require Import FsTypes FsBase FsFat FsMgr FsLemmas PrBase PrFat PrAlloc PrDir PrSeek PrAllocEffect
  PrRw PrWrite PrFileSeq PrMulti PrEntry PrChain PrCount PrWf PrOpenClose PrGlobalDef PrGlobalWrite PrGlobalDelete.
From SdFs Require PrModes PrHandles PrBounds PrOrder.
From SdFs Require Import PrCrash PrCrashDef PrCrashDef2 PrCrashDef3 PrCrashDef4.
Import ListNotations.
Open Scope N_scope.
Local Arguments N.mul : simpl never.
Local Arguments N.add : simpl never.
Local Arguments N.sub : simpl never.
Local Arguments N.div : simpl never.
Local Arguments N.modulo : simpl never.
Local Arguments N.land : simpl never.
Local Arguments N.lor : simpl never.
Local Arguments N.min : simpl never.
Local Arguments N.max : simpl never.
Local Ltac Zify.zify_post_hook ::= Z.to_euclidean_division_equations.

(* ================================================================== 0. FAT well-formedness of crashed media *)
Lemma crd_parts_chains d v (parts : list (N * list N)) :
  Forall (fun p => chain_at d v (fst p) (snd p)) parts ->
  flat_map (chain_l d v) (map fst parts) = flat_map snd parts.
Proof.
  induction 1 as [|p parts Hp _ IH]; [reflexivity|].
  cbn [map flat_map]. rewrite (chain_l_at _ _ _ _ Hp), IH. reflexivity.
Qed.

(* ONE chain L (head h) of a well-formed FAT is taken apart: on d' its clusters are free or lie
   on the chains `parts` (head, chain), which are pairwise disjoint; nothing else changed.  Then
   d' is well-formed for the other heads and the heads of the parts, and the other chains are
   the same chains. *)
Theorem crd_repartition d d' v hs h L (parts : list (N * list N)) :
  fat_wf d v (hs ++ [h]) -> chain_at d v h L ->
  (forall x, 2 <= x -> x < v_clusters v + 2 -> ~ In x L -> fat_get d' v 0 x = fat_get d v 0 x) ->
  Forall (fun p => chain_at d' v (fst p) (snd p)) parts ->
  NoDup (flat_map snd parts) ->
  (forall x, In x (flat_map snd parts) -> In x L) ->
  (forall x, In x L -> ~ In x (flat_map snd parts) -> fat_get d' v 0 x = 0) ->
  fat_wf d' v (hs ++ map fst parts) /\
  (forall h2 ch2, In h2 hs -> chain_at d v h2 ch2 -> chain_at d' v h2 ch2).
Proof.
  intros W Hch Hout Hparts Hnd Hsub Hfree.
  assert (Hh : In h (hs ++ [h])) by (apply in_or_app; right; left; reflexivity).
  assert (Hin : forall h2, In h2 hs -> In h2 (hs ++ [h])) by (intros h2 H2; apply in_or_app; left; exact H2).
  assert (ELh : chain_l d v h = L) by exact (chain_l_at _ _ _ _ Hch).
  assert (Hhni : ~ In h hs).
  { destruct (nodup_app_inv _ _ (wf_heads _ _ _ W)) as (_ & _ & N3). intros Hi. apply (N3 h Hi). left. reflexivity. }
  assert (Hkeep : forall h2, In h2 hs -> chain_at d' v h2 (chain_l d v h2)).
  { intros h2 H2. apply (chain_of_frame d d' v _ _ _ (wf_l_def d v _ h2 W (Hin h2 H2))).
    intros x Hx. destruct (wf_l_mem d v _ h2 x W (Hin _ H2) Hx) as (A & B & _). apply Hout; [exact A|exact B|].
    intros HxL. rewrite <- ELh in HxL. pose proof (wf_l_disj d v _ h2 h x W (Hin _ H2) Hh Hx HxL) as E.
    subst h2. contradiction. }
  split; [|intros h2 ch2 H2 Hc; rewrite <- (chain_l_at _ _ _ _ Hc); exact (Hkeep h2 H2)].
  assert (EH : flat_map (chain_l d' v) hs = flat_map (chain_l d v) hs).
  { apply flat_map_ext_in'. intros a Ha. exact (chain_l_at _ _ _ _ (Hkeep a Ha)). }
  destruct (proj1 (fat_wf_flat d v _) W) as (_ & Nd & Hused).
  unfold all_chains in Nd, Hused. rewrite flat_map_app in Nd, Hused. cbn [flat_map] in Nd, Hused.
  rewrite app_nil_r, ELh in Nd, Hused.
  destruct (nodup_app_inv _ _ Nd) as (N1 & N2 & N3).
  apply (proj2 (fat_wf_flat d' v _)). unfold all_chains. rewrite flat_map_app, (crd_parts_chains d' v parts Hparts), EH.
  rewrite Forall_forall in Hparts.
  split; [|split].
  - intros h0 H0. apply in_app_or in H0. destruct H0 as [H0|H0].
    + pose proof (Hkeep h0 H0) as K. unfold chain_at in K. rewrite K. discriminate.
    + apply in_map_iff in H0. destruct H0 as (p & <- & Hp). pose proof (Hparts p Hp) as K. unfold chain_at in K.
      rewrite K. discriminate.
  - apply nodup_app; [exact N1|exact Hnd|]. intros x X1 X2. exact (N3 x X1 (Hsub x X2)).
  - intros c C1 C2. rewrite in_app_iff.
    destruct (in_dec N.eq_dec c (flat_map snd parts)) as [Hp|Hp].
    + split; [intros _; right; exact Hp|]. intros _.
      apply in_flat_map in Hp. destruct Hp as (p & Hp & Hc).
      exact (proj1 (proj2 (proj2 (chain_at_mem d' v _ _ c (Hparts p Hp) Hc)))).
    + destruct (in_dec N.eq_dec c L) as [HL|HL].
      * rewrite (Hfree c HL Hp). split; [intros E; contradiction E; reflexivity|].
        intros [X|X]; [exfalso; exact (N3 c X HL)|contradiction].
      * rewrite (Hout c C1 C2 HL), (Hused c C1 C2), in_app_iff.
        split; (intros [X|X]; [left; exact X|contradiction]).
Qed.

(* the tail of a chain is the chain of its first cluster *)
Lemma crd_chain_suffix d v : forall pre h y ys, chain_at d v h (pre ++ y :: ys) -> chain_at d v y (y :: ys).
Proof.
  induction pre as [|a pre IH]; intros h y ys H.
  - cbn [app] in H. destruct (chain_at_head _ _ _ _ H) as (r & E). injection E as -> _. exact H.
  - cbn [app] in H. destruct (chain_at_inv _ _ _ _ H) as (_ & _ & _ & [(_ & E)|(_ & l0 & Hl0 & E)]).
    + injection E as _ E. destruct pre; discriminate E.
    + injection E as _ E. rewrite <- E in Hl0. exact (IH _ _ _ Hl0).
Qed.

(* the stages of truncate_cluster_chain / free_cluster_chain on the chain h :: rest (the three
   cases of PrCrash.C10_truncate_prefix_chains / C10_free_prefix_chains), as well-formedness:
   the remains of the chain are lost chains *)
Theorem crd_free_stage d d' v hs h rest :
  fat_wf d v (hs ++ [h]) -> chain_at d v h (h :: rest) ->
  (forall x, 2 <= x -> x < v_clusters v + 2 -> ~ In x (h :: rest) -> fat_get d' v 0 x = fat_get d v 0 x) ->
  (chain_at d' v h (h :: rest) \/
   (chain_at d' v h [h] /\
    exists m, (m <= length rest)%nat /\
      (forall y, In y (firstn m rest) -> fat_get d' v 0 y = 0) /\
      (forall y, In y (skipn m rest) -> fat_get d' v 0 y = fat_get d v 0 y)) \/
   (fat_get d' v 0 h = 0 /\ forall y, In y rest -> fat_get d' v 0 y = 0)) ->
  exists lost, fat_wf d' v (hs ++ lost) /\
    (forall h2 ch2, In h2 hs -> chain_at d v h2 ch2 -> chain_at d' v h2 ch2).
Proof.
  intros W Hch Hout Hcase. pose proof (chain_at_nodup _ _ _ _ Hch) as Hnd.
  destruct Hcase as [HA|[(HB & m & Hm & Hz & Hk)|(HC1 & HC2)]].
  - exists (map fst [(h, h :: rest)]).
    apply (crd_repartition d d' v hs h (h :: rest) [(h, h :: rest)] W Hch Hout).
    + constructor; [exact HA|constructor].
    + cbn [flat_map snd]. rewrite app_nil_r. exact Hnd.
    + cbn [flat_map snd]. rewrite app_nil_r. intros x Hx. exact Hx.
    + cbn [flat_map snd]. rewrite app_nil_r. intros x Hx Hn. contradiction.
  - inversion Hnd as [|? ? Hhni Hndr]; subst.
    destruct (skipn m rest) as [|y ys] eqn:Etl.
    + exists (map fst [(h, [h])]).
      apply (crd_repartition d d' v hs h (h :: rest) [(h, [h])] W Hch Hout).
      * constructor; [exact HB|constructor].
      * cbn [flat_map snd app]. constructor; [intros []|constructor].
      * cbn [flat_map snd app]. intros x [<-|[]]. left. reflexivity.
      * cbn [flat_map snd app]. intros x [<-|Hx] Hn; [contradiction Hn; left; reflexivity|].
        apply Hz. rewrite <- (firstn_skipn m rest), Etl, app_nil_r in Hx. exact Hx.
    + assert (Esplit : h :: rest = (h :: firstn m rest) ++ y :: ys).
      { cbn [app]. rewrite <- Etl, firstn_skipn. reflexivity. }
      assert (Hy : chain_at d' v y (y :: ys)).
      { rewrite Esplit in Hch. pose proof (crd_chain_suffix d v _ _ _ _ Hch) as Hyd.
        apply (chain_of_frame d d' v _ _ _ Hyd). intros x Hx. apply Hk. exact Hx. }
      assert (Hsk : forall x, In x (y :: ys) -> In x rest).
      { intros x Hx. rewrite <- Etl in Hx. rewrite <- (firstn_skipn m rest). apply in_or_app. right. exact Hx. }
      exists (map fst [(h, [h]); (y, y :: ys)]).
      apply (crd_repartition d d' v hs h (h :: rest) [(h, [h]); (y, y :: ys)] W Hch Hout).
      * constructor; [exact HB|]. constructor; [exact Hy|constructor].
      * cbn [flat_map snd app]. rewrite app_nil_r. constructor.
        -- intros Hx. apply Hhni. exact (Hsk h Hx).
        -- rewrite <- Etl. rewrite <- (firstn_skipn m rest) in Hndr. exact (proj1 (proj2 (nodup_app_inv _ _ Hndr))).
      * cbn [flat_map snd app]. rewrite app_nil_r. intros x [<-|Hx]; [left; reflexivity|right; exact (Hsk x Hx)].
      * cbn [flat_map snd app]. rewrite app_nil_r. intros x [<-|Hx] Hn; [contradiction Hn; left; reflexivity|].
        apply Hz. rewrite <- (firstn_skipn m rest), Etl in Hx. apply in_app_or in Hx.
        destruct Hx as [Hx|Hx]; [exact Hx|contradiction Hn; right; exact Hx].
  - exists (map fst (@nil (N * list N))).
    apply (crd_repartition d d' v hs h (h :: rest) [] W Hch Hout).
    + constructor.
    + constructor.
    + intros x [].
    + intros x [<-|Hx] _; [exact HC1|exact (HC2 x Hx)].
Qed.

(* no entry in range changed *)
Lemma crd_wf_same d d' v hs :
  (forall x, 2 <= x -> x < v_clusters v + 2 -> fat_get d' v 0 x = fat_get d v 0 x) ->
  fat_wf d v hs -> fat_wf d' v hs /\ (forall h ch, chain_at d v h ch -> chain_at d' v h ch).
Proof.
  intros Hs W.
  assert (Hk : forall h ch, chain_at d v h ch -> chain_at d' v h ch).
  { intros h ch Hc. apply (chain_of_frame d d' v _ _ _ Hc). intros x Hx.
    destruct (chain_at_mem _ _ _ _ x Hc Hx) as (A & B & _). exact (Hs x A B). }
  split; [|exact Hk].
  apply (wf_intro d' v hs (chain_l d v)).
  - exact (wf_heads _ _ _ W).
  - intros h Hh. exact (Hk _ _ (wf_l_def _ _ _ _ W Hh)).
  - intros h1 h2 x. apply wf_l_disj. exact W.
  - intros x X1 X2. rewrite (Hs x X1 X2). exact (wf_l_used d v hs x W X1 X2).
Qed.

(* a free cluster becomes a one-cluster chain, appended to the head list *)
Lemma crd_wf_new d d' v hs c :
  fat_wf d v hs -> 2 <= c -> c < v_clusters v + 2 -> fat_get d v 0 c = 0 ->
  fat_get d' v 0 c = enc v CL_EOF ->
  (forall x, 2 <= x -> x < v_clusters v + 2 -> x <> c -> fat_get d' v 0 x = fat_get d v 0 x) ->
  fat_wf d' v (hs ++ [c]) /\ chain_at d' v c [c] /\
  (forall h ch, In h hs -> chain_at d v h ch -> chain_at d' v h ch).
Proof.
  intros W C1 C2 Cf Ec Ho.
  destruct (wf_new_head d d' v hs c W C1 C2 Cf Ec Ho) as (W' & Hn & _ & Hk).
  split; [|split; [exact Hn|exact Hk]].
  apply (fat_wf_perm d' v (c :: hs)); [|exact W']. apply Permutation_cons_append.
Qed.

(* ================================================================== 1. the shape of a crashed medium *)
(* the medium d' read against the medium d of the state before the call, whose tree is T: d' is
   crash-sound with a tree T' in which every file node of T that satisfies okn is found at the
   same path, with the same entry and chain, and the data blocks of these files are unchanged *)
Definition med_ok (v : vol) (d : disk) (T : list node) (okn : node -> Prop) (d' : disk) : Prop :=
  exists bl' rch' T' lost, crash_inv_at d' v bl' rch' T' lost /\
    (forall path e ch, node_at T path (NFile e ch) -> okn (NFile e ch) -> node_at T' path (NFile e ch)) /\
    (forall e ch j, In (NFile e ch) (all_nodes T) -> okn (NFile e ch) -> In j (data_blocks v ch) ->
       disk_get d' j = disk_get d j).

Lemma med_ok_refl v d bl rch T lost okn : crash_inv_at d v bl rch T lost -> med_ok v d T okn d.
Proof.
  intros H. exists bl, rch, T, lost. split; [exact H|]. split; [intros path e ch Hn _; exact Hn|reflexivity].
Qed.

Lemma med_ok_weaken v d T (ok1 ok2 : node -> Prop) d' : (forall n, ok2 n -> ok1 n) ->
  med_ok v d T ok1 d' -> med_ok v d T ok2 d'.
Proof.
  intros Hi (bl' & rch' & T' & lost & A & B & C). exists bl', rch', T', lost. split; [exact A|]. split.
  - intros path e ch Hn Ho. exact (B path e ch Hn (Hi _ Ho)).
  - intros e ch j Hn Ho. exact (C e ch j Hn (Hi _ Ho)).
Qed.

Lemma med_ok_crash_inv fsz v d T okn d' : crash_vol fsz v -> med_ok v d T okn d' -> crash_inv fsz v d'.
Proof. intros V (bl' & rch' & T' & lost & A & _). split; [exact V|]. exists bl', rch', T', lost. exact A. Qed.

Lemma med_ok_keeps v d bl rch T lost okn d' path e bytes :
  crash_inv_at d v bl rch T lost -> med_ok v d T okn d' ->
  (forall ch, In (NFile e ch) (all_nodes T) -> okn (NFile e ch)) ->
  file_on_medium d v path e bytes -> file_on_medium d' v path e bytes.
Proof.
  intros H (bl' & rch' & T' & lost' & A & B & C) Hok Hf.
  pose proof (proj1 (file_on_medium_tree d v bl rch T lost path e bytes H) Hf) as (ch & Hn & _).
  pose proof (Hok ch (node_at_in _ _ _ Hn)) as Ho.
  apply (file_on_medium_keep d d' v bl rch T lost bl' rch' T' lost' path e ch H Hn A (B path e ch Hn Ho)); [|exact Hf].
  intros j Hj. exact (C e ch j (node_at_in _ _ _ Hn) Ho Hj).
Qed.

(* both obligations at once *)
Definition step_med (fsz vid : N) (o : op) : Prop :=
  forall s r s' vi v bl rch T, fs_inv_at fsz vid s vi v bl rch T -> id_fresh s -> op_known_ok o ->
    step o s = (r, s') ->
    forall d', crash_disks s s' d' ->
      med_ok v (s_disk s) T (fun n => ~ op_targets s v o (node_entry n)) d'.

Theorem step_med_crash fsz vid o : step_med fsz vid o -> step_crash fsz vid o.
Proof.
  intros H s r s' (vi & v0 & bl & rch & T & Hat) Hf Hk Hs v d' Ev Hd.
  pose proof (fi_single _ _ _ _ _ _ _ _ Hat) as Ev0. rewrite Ev in Ev0. injection Ev0 as <-.
  exact (med_ok_crash_inv fsz v _ T _ d' (fs_inv_crash_vol _ _ _ _ _ _ _ _ Hat) (H s r s' vi v bl rch T Hat Hf Hk Hs d' Hd)).
Qed.

Theorem step_med_keeps fsz vid o : step_med fsz vid o -> step_keeps_flushed fsz vid o.
Proof.
  intros H s r s' (vi & v0 & bl & rch & T & Hat) Hf Hk Hs v path e bytes Ev Hfile Hnt d' Hd.
  pose proof (fi_single _ _ _ _ _ _ _ _ Hat) as Ev0. rewrite Ev in Ev0. injection Ev0 as <-.
  apply (med_ok_keeps v (s_disk s) bl rch T (pend_of s v) _ d' path e bytes
           (disk_inv_crash_inv_at _ _ _ _ _ _ (fi_disk _ _ _ _ _ _ _ _ Hat)) (H s r s' vi v bl rch T Hat Hf Hk Hs d' Hd));
    [|exact Hfile].
  intros ch _. exact Hnt.
Qed.

(* a call that wrote nothing *)
Lemma med_ok_quiet fsz vid s vi v bl rch T okn s' d' : fs_inv_at fsz vid s vi v bl rch T ->
  step_writes s s' = [] -> crash_disks s s' d' -> med_ok v (s_disk s) T okn d'.
Proof.
  intros Hat E Hd. rewrite (crash_disks_quiet s s' d' E Hd).
  exact (med_ok_refl v _ bl rch T (pend_of s v) okn (disk_inv_crash_inv_at _ _ _ _ _ _ (fi_disk _ _ _ _ _ _ _ _ Hat))).
Qed.

(* the call starts with a part that only reads: its crashed media are those of the rest *)
Lemma crash_disks_after_reads a b c d' : traced a b -> traced b c -> step_writes a b = [] ->
  crash_disks a c d' -> crash_disks b c d'.
Proof.
  intros T1 T2 E H. destruct (crash_disks_trans a b c d' T1 T2 H) as [X|X]; [|exact X].
  rewrite (crash_disks_quiet a b d' E X).
  assert (Eb : s_disk b = s_disk a) by (rewrite (traced_disk a b T1), E; reflexivity).
  rewrite <- Eb. apply crash_disks_old.
Qed.

(* ... ends with such a part *)
Lemma crash_disks_before_reads a b c d' : traced a b -> traced b c -> step_writes b c = [] ->
  crash_disks a c d' -> crash_disks a b d'.
Proof.
  intros T1 T2 E H. destruct (crash_disks_trans a b c d' T1 T2 H) as [X|X]; [exact X|].
  rewrite (crash_disks_quiet b c d' E X). exact (crash_disks_new a b T1).
Qed.

(* exactly one block write *)
Lemma crd_one_write a b i : traced a b -> PrOrder.tsteps a b [i] -> exists bk, tr_ext a b [(i, bk)].
Proof.
  intros T S. pose proof (traced_tr_ext a b T) as X. pose proof (tsteps_step_writes a b [i] S) as E.
  destruct (step_writes a b) as [|[j bk] [|w ws]]; cbn [map fst] in E; try discriminate E.
  injection E as ->. exists bk. exact X.
Qed.

(* the crashed media of a run lie between the two media on every block the run does not write *)
Lemma crash_disks_untouched a b d' j : crash_disks a b d' -> ~ In j (map fst (step_writes a b)) ->
  disk_get d' j = disk_get (s_disk a) j.
Proof. intros (k & _ & ->) H. apply PrCrash.prefix_disk_untouched. exact H. Qed.

(* ================================================================== 2. the tree and the data blocks of the files *)
(* the data blocks of a file node are no directory blocks *)
Lemma crd_file_data_not_dir d v bl rch T pend total fsz e ch j :
  disk_inv d v bl rch T pend -> PrBounds.part_layout v total fsz ->
  In (NFile e ch) (all_nodes T) -> In j (data_blocks v ch) -> ~ In j (tree_dir_blocks v bl T).
Proof.
  intros HD L Hn Hj Hdir.
  pose proof (di_wf _ _ _ _ _ _ HD) as W. pose proof (di_tree _ _ _ _ _ _ HD) as HT.
  destruct (heads_nodup v T pend (wf_heads _ _ _ W)) as (N1 & _ & N3 & _).
  destruct (all_nodes_rep d v bl T HT _ Hn) as (t & bl0 & Hr & _).
  apply node_rep_file in Hr. destruct Hr as (_ & _ & [(Hge & fu & Hch)|(_ & ->)]); [|destruct Hj].
  pose proof (chain_at_any _ _ _ _ _ Hch) as Hc.
  assert (Hown : In (e_cluster e) (own_head (NFile e ch))).
  { cbn [own_head]. apply N.leb_le in Hge. rewrite Hge. left. reflexivity. }
  assert (Hhd : In (e_cluster e) (heads v T ++ pend)).
  { apply in_or_app. left. unfold heads. apply in_or_app. right. exact (own_head_in T _ _ Hn Hown). }
  apply gw_tree_dir_blocks_iff in Hdir. destruct Hdir as [Hb|(e' & dch & kids & Hnd & Hb)].
  - pose proof (di_root _ _ _ _ _ _ HD) as Hroot. unfold root_dir in Hroot. destruct (v_fat32 v) eqn:E32.
    + destruct Hroot as (Hrc & Ebl). rewrite Ebl in Hb.
      assert (Hrh : In (v_root_cluster v) (root_heads v)) by (unfold root_heads; rewrite E32; left; reflexivity).
      assert (Hr : In (v_root_cluster v) (heads v T ++ pend)).
      { apply in_or_app. left. unfold heads. apply in_or_app. left. exact Hrh. }
      pose proof (chain_blocks_apart d v _ _ _ _ _ j W Hr Hhd Hrc Hc Hb Hj) as E.
      apply (proj1 (N3 _ Hrh)). rewrite E. exact (own_head_in T _ _ Hn Hown).
    + destruct Hroot as (_ & Ebl). rewrite Ebl in Hb. unfold data_blocks in Hj. apply in_flat_map in Hj.
      destruct Hj as (c & Hcc & Hjc). destruct (chain_at_mem _ _ _ _ c Hc Hcc) as (A & _).
      exact (root16_no_cluster' v total fsz j c L E32 Hb A Hjc).
  - destruct (dir_node_chain d v bl rch T pend HD e' dch kids Hnd) as (Hdc & Hdin & _).
    pose proof (chain_blocks_apart d v _ _ _ _ _ j W Hdin Hhd Hdc Hc Hb Hj) as E.
    assert (Hown' : In (e_cluster e) (own_head (NDir e' dch kids))) by (left; exact E).
    pose proof (flat_map_owner own_head _ N1 _ _ _ Hnd Hn Hown' Hown) as Eq. discriminate Eq.
Qed.

(* the chain of a file node: a chain of a head of the tree *)
Lemma crd_file_chain d v bl rch T pend e ch :
  disk_inv d v bl rch T pend -> In (NFile e ch) (all_nodes T) -> ch <> [] ->
  chain_at d v (e_cluster e) ch /\ In (e_cluster e) (heads v T).
Proof.
  intros HD Hn Hne. destruct (all_nodes_rep d v bl T (di_tree _ _ _ _ _ _ HD) _ Hn) as (t & bl0 & Hr & _).
  apply node_rep_file in Hr. destruct Hr as (_ & _ & [(Hge & fu & Hch)|(_ & E)]); [|contradiction].
  split; [exact (chain_at_any _ _ _ _ _ Hch)|]. unfold heads. apply in_or_app. right.
  apply (own_head_in T _ _ Hn). cbn [own_head]. apply N.leb_le in Hge. rewrite Hge. left. reflexivity.
Qed.
