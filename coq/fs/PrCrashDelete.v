(* PROOFS: C10 / C09 for `Delete d name` (FsMgr.delete_file_in_dir) over whole histories:
     step_crash_Delete : PrCrashDef.step_crash fsz vid (Delete d name)
     step_keeps_Delete : PrCrashDef4.step_keeps_flushed fsz vid (Delete d name)
   Every outcome: the refusals (BadHandle, FilenameError, NotFound, DeleteDirAsFile,
   FileAlreadyOpen) write nothing; the deletion writes the directory slot FIRST (one block: the
   first byte of the slot becomes 0xE5) and releases the chain AFTERWARDS (FAT sectors only).
   The crashed media of the deletion:
     - the old medium;
     - the medium after the slot write: the tree has lost the node (PrGlobalDelete.prune_list),
       its chain h :: rest is a LOST chain;
     - the medium after any prefix of the writes of free_cluster_chain (PrCrash.
       C10_free_prefix_chains): h :: rest still a lost chain / h a lost one-cluster chain, a
       prefix of rest free, the remainder of rest a lost chain of its own / everything free.
       Every other chain is untouched, no block outside the FAT changes (crd_free_stage).
   Sections 0-2 are shared with PrCrashMkdir: FAT well-formedness of a medium on which ONE
   chain was taken apart (crd_repartition), one new one-cluster chain, the shape `med_ok` of a
   crashed medium from which both obligations follow (step_med), data blocks of files lie
   outside the directories (crd_file_data_not_dir). *)
From Coq Require Import NArith ZArith List Bool Lia Arith ZifyClasses ZifyInst Zify FMapPositive Permutation.
From SdFs Require Import FsTypes FsBase FsFat FsMgr FsLemmas PrBase PrFat PrAlloc PrDir PrSeek PrAllocEffect
  PrRw PrWrite PrFileSeq PrMulti PrEntry PrChain PrCount PrWf PrOpenClose PrGlobalDef PrGlobalWrite PrGlobalDelete.
From SdFs Require PrModes PrHandles PrBounds PrOrder.
From SdFs Require Import PrCrash PrCrashDef PrCrashDef2 PrCrashDef3 PrCrashDef4.
Import ListNotations.
Open Scope N_scope.
Local Arguments N.mul : simpl never.
Local Arguments N.add : simpl never.
Local Arguments N.sub : simpl never.
Local Arguments N.div : simpl never.
Local Arguments N.modulo : simpl never.
Local Arguments N.land : simpl never.
Local Arguments N.lor : simpl never.
Local Arguments N.min : simpl never.
Local Arguments N.max : simpl never.
Local Ltac Zify.zify_post_hook ::= Z.to_euclidean_division_equations.

(* ================================================================== 0. FAT well-formedness of crashed media *)
Lemma crd_parts_chains d v (parts : list (N * list N)) :
  Forall (fun p => chain_at d v (fst p) (snd p)) parts ->
  flat_map (chain_l d v) (map fst parts) = flat_map snd parts.
Proof.
  induction 1 as [|p parts Hp _ IH]; [reflexivity|].
  cbn [map flat_map]. rewrite (chain_l_at _ _ _ _ Hp), IH. reflexivity.
Qed.

(* ONE chain L (head h) of a well-formed FAT is taken apart: on d' its clusters are free or lie
   on the chains `parts` (head, chain), which are pairwise disjoint; nothing else changed.  Then
   d' is well-formed for the other heads and the heads of the parts, and the other chains are
   the same chains. *)
Theorem crd_repartition d d' v hs h L (parts : list (N * list N)) :
  fat_wf d v (hs ++ [h]) -> chain_at d v h L ->
  (forall x, 2 <= x -> x < v_clusters v + 2 -> ~ In x L -> fat_get d' v 0 x = fat_get d v 0 x) ->
  Forall (fun p => chain_at d' v (fst p) (snd p)) parts ->
  NoDup (flat_map snd parts) ->
  (forall x, In x (flat_map snd parts) -> In x L) ->
  (forall x, In x L -> ~ In x (flat_map snd parts) -> fat_get d' v 0 x = 0) ->
  fat_wf d' v (hs ++ map fst parts) /\
  (forall h2 ch2, In h2 hs -> chain_at d v h2 ch2 -> chain_at d' v h2 ch2).
Proof.
  intros W Hch Hout Hparts Hnd Hsub Hfree.
  assert (Hh : In h (hs ++ [h])) by (apply in_or_app; right; left; reflexivity).
  assert (Hin : forall h2, In h2 hs -> In h2 (hs ++ [h])) by (intros h2 H2; apply in_or_app; left; exact H2).
  assert (ELh : chain_l d v h = L) by exact (chain_l_at _ _ _ _ Hch).
  assert (Hhni : ~ In h hs).
  { destruct (nodup_app_inv _ _ (wf_heads _ _ _ W)) as (_ & _ & N3). intros Hi. apply (N3 h Hi). left. reflexivity. }
  assert (Hkeep : forall h2, In h2 hs -> chain_at d' v h2 (chain_l d v h2)).
  { intros h2 H2. apply (chain_of_frame d d' v _ _ _ (wf_l_def d v _ h2 W (Hin h2 H2))).
    intros x Hx. destruct (wf_l_mem d v _ h2 x W (Hin _ H2) Hx) as (A & B & _). apply Hout; [exact A|exact B|].
    intros HxL. rewrite <- ELh in HxL. pose proof (wf_l_disj d v _ h2 h x W (Hin _ H2) Hh Hx HxL) as E.
    subst h2. contradiction. }
  split; [|intros h2 ch2 H2 Hc; rewrite <- (chain_l_at _ _ _ _ Hc); exact (Hkeep h2 H2)].
  assert (EH : flat_map (chain_l d' v) hs = flat_map (chain_l d v) hs).
  { apply flat_map_ext_in'. intros a Ha. exact (chain_l_at _ _ _ _ (Hkeep a Ha)). }
  destruct (proj1 (fat_wf_flat d v _) W) as (_ & Nd & Hused).
  unfold all_chains in Nd, Hused. rewrite flat_map_app in Nd, Hused. cbn [flat_map] in Nd, Hused.
  rewrite app_nil_r, ELh in Nd, Hused.
  destruct (nodup_app_inv _ _ Nd) as (N1 & N2 & N3).
  apply (proj2 (fat_wf_flat d' v _)). unfold all_chains. rewrite flat_map_app, (crd_parts_chains d' v parts Hparts), EH.
  rewrite Forall_forall in Hparts.
  split; [|split].
  - intros h0 H0. apply in_app_or in H0. destruct H0 as [H0|H0].
    + pose proof (Hkeep h0 H0) as K. unfold chain_at in K. rewrite K. discriminate.
    + apply in_map_iff in H0. destruct H0 as (p & <- & Hp). pose proof (Hparts p Hp) as K. unfold chain_at in K.
      rewrite K. discriminate.
  - apply nodup_app; [exact N1|exact Hnd|]. intros x X1 X2. exact (N3 x X1 (Hsub x X2)).
  - intros c C1 C2. rewrite in_app_iff.
    destruct (in_dec N.eq_dec c (flat_map snd parts)) as [Hp|Hp].
    + split; [intros _; right; exact Hp|]. intros _.
      apply in_flat_map in Hp. destruct Hp as (p & Hp & Hc).
      exact (proj1 (proj2 (proj2 (chain_at_mem d' v _ _ c (Hparts p Hp) Hc)))).
    + destruct (in_dec N.eq_dec c L) as [HL|HL].
      * rewrite (Hfree c HL Hp). split; [intros E; contradiction E; reflexivity|].
        intros [X|X]; [exfalso; exact (N3 c X HL)|contradiction].
      * rewrite (Hout c C1 C2 HL), (Hused c C1 C2), in_app_iff.
        split; (intros [X|X]; [left; exact X|contradiction]).
Qed.

(* the tail of a chain is the chain of its first cluster *)
Lemma crd_chain_suffix d v : forall pre h y ys, chain_at d v h (pre ++ y :: ys) -> chain_at d v y (y :: ys).
Proof.
  induction pre as [|a pre IH]; intros h y ys H.
  - cbn [app] in H. destruct (chain_at_head _ _ _ _ H) as (r & E). injection E as -> _. exact H.
  - cbn [app] in H. destruct (chain_at_inv _ _ _ _ H) as (_ & _ & _ & [(_ & E)|(_ & l0 & Hl0 & E)]).
    + injection E as _ E. destruct pre; discriminate E.
    + injection E as _ E. rewrite <- E in Hl0. exact (IH _ _ _ Hl0).
Qed.

(* the stages of truncate_cluster_chain / free_cluster_chain on the chain h :: rest (the three
   cases of PrCrash.C10_truncate_prefix_chains / C10_free_prefix_chains), as well-formedness:
   the remains of the chain are lost chains *)
Theorem crd_free_stage d d' v hs h rest :
  fat_wf d v (hs ++ [h]) -> chain_at d v h (h :: rest) ->
  (forall x, 2 <= x -> x < v_clusters v + 2 -> ~ In x (h :: rest) -> fat_get d' v 0 x = fat_get d v 0 x) ->
  (chain_at d' v h (h :: rest) \/
   (chain_at d' v h [h] /\
    exists m, (m <= length rest)%nat /\
      (forall y, In y (firstn m rest) -> fat_get d' v 0 y = 0) /\
      (forall y, In y (skipn m rest) -> fat_get d' v 0 y = fat_get d v 0 y)) \/
   (fat_get d' v 0 h = 0 /\ forall y, In y rest -> fat_get d' v 0 y = 0)) ->
  exists lost, fat_wf d' v (hs ++ lost) /\
    (forall h2 ch2, In h2 hs -> chain_at d v h2 ch2 -> chain_at d' v h2 ch2).
Proof.
  intros W Hch Hout Hcase. pose proof (chain_at_nodup _ _ _ _ Hch) as Hnd.
  destruct Hcase as [HA|[(HB & m & Hm & Hz & Hk)|(HC1 & HC2)]].
  - exists (map fst [(h, h :: rest)]).
    apply (crd_repartition d d' v hs h (h :: rest) [(h, h :: rest)] W Hch Hout).
    + constructor; [exact HA|constructor].
    + cbn [flat_map snd]. rewrite app_nil_r. exact Hnd.
    + cbn [flat_map snd]. rewrite app_nil_r. intros x Hx. exact Hx.
    + cbn [flat_map snd]. rewrite app_nil_r. intros x Hx Hn. contradiction.
  - inversion Hnd as [|? ? Hhni Hndr]; subst.
    destruct (skipn m rest) as [|y ys] eqn:Etl.
    + exists (map fst [(h, [h])]).
      apply (crd_repartition d d' v hs h (h :: rest) [(h, [h])] W Hch Hout).
      * constructor; [exact HB|constructor].
      * cbn [flat_map snd app]. constructor; [intros []|constructor].
      * cbn [flat_map snd app]. intros x [<-|[]]. left. reflexivity.
      * cbn [flat_map snd app]. intros x [<-|Hx] Hn; [contradiction Hn; left; reflexivity|].
        apply Hz. rewrite <- (firstn_skipn m rest), Etl, app_nil_r in Hx. exact Hx.
    + assert (Esplit : h :: rest = (h :: firstn m rest) ++ y :: ys).
      { cbn [app]. rewrite <- Etl, firstn_skipn. reflexivity. }
      assert (Hy : chain_at d' v y (y :: ys)).
      { rewrite Esplit in Hch. pose proof (crd_chain_suffix d v _ _ _ _ Hch) as Hyd.
        apply (chain_of_frame d d' v _ _ _ Hyd). intros x Hx. apply Hk. exact Hx. }
      assert (Hsk : forall x, In x (y :: ys) -> In x rest).
      { intros x Hx. rewrite <- Etl in Hx. rewrite <- (firstn_skipn m rest). apply in_or_app. right. exact Hx. }
      exists (map fst [(h, [h]); (y, y :: ys)]).
      apply (crd_repartition d d' v hs h (h :: rest) [(h, [h]); (y, y :: ys)] W Hch Hout).
      * constructor; [exact HB|]. constructor; [exact Hy|constructor].
      * cbn [flat_map snd app]. rewrite app_nil_r. constructor.
        -- intros Hx. apply Hhni. exact (Hsk h Hx).
        -- rewrite <- Etl. rewrite <- (firstn_skipn m rest) in Hndr. exact (proj1 (proj2 (nodup_app_inv _ _ Hndr))).
      * cbn [flat_map snd app]. rewrite app_nil_r. intros x [<-|Hx]; [left; reflexivity|right; exact (Hsk x Hx)].
      * cbn [flat_map snd app]. rewrite app_nil_r. intros x [<-|Hx] Hn; [contradiction Hn; left; reflexivity|].
        apply Hz. rewrite <- (firstn_skipn m rest), Etl in Hx. apply in_app_or in Hx.
        destruct Hx as [Hx|Hx]; [exact Hx|contradiction Hn; right; exact Hx].
  - exists (map fst (@nil (N * list N))).
    apply (crd_repartition d d' v hs h (h :: rest) [] W Hch Hout).
    + constructor.
    + constructor.
    + intros x [].
    + intros x [<-|Hx] _; [exact HC1|exact (HC2 x Hx)].
Qed.

(* no entry in range changed *)
Lemma crd_wf_same d d' v hs :
  (forall x, 2 <= x -> x < v_clusters v + 2 -> fat_get d' v 0 x = fat_get d v 0 x) ->
  fat_wf d v hs -> fat_wf d' v hs /\ (forall h ch, chain_at d v h ch -> chain_at d' v h ch).
Proof.
  intros Hs W.
  assert (Hk : forall h ch, chain_at d v h ch -> chain_at d' v h ch).
  { intros h ch Hc. apply (chain_of_frame d d' v _ _ _ Hc). intros x Hx.
    destruct (chain_at_mem _ _ _ _ x Hc Hx) as (A & B & _). exact (Hs x A B). }
  split; [|exact Hk].
  apply (wf_intro d' v hs (chain_l d v)).
  - exact (wf_heads _ _ _ W).
  - intros h Hh. exact (Hk _ _ (wf_l_def _ _ _ _ W Hh)).
  - intros h1 h2 x. apply wf_l_disj. exact W.
  - intros x X1 X2. rewrite (Hs x X1 X2). exact (wf_l_used d v hs x W X1 X2).
Qed.

(* a free cluster becomes a one-cluster chain, appended to the head list *)
Lemma crd_wf_new d d' v hs c :
  fat_wf d v hs -> 2 <= c -> c < v_clusters v + 2 -> fat_get d v 0 c = 0 ->
  fat_get d' v 0 c = enc v CL_EOF ->
  (forall x, 2 <= x -> x < v_clusters v + 2 -> x <> c -> fat_get d' v 0 x = fat_get d v 0 x) ->
  fat_wf d' v (hs ++ [c]) /\ chain_at d' v c [c] /\
  (forall h ch, In h hs -> chain_at d v h ch -> chain_at d' v h ch).
Proof.
  intros W C1 C2 Cf Ec Ho.
  destruct (wf_new_head d d' v hs c W C1 C2 Cf Ec Ho) as (W' & Hn & _ & Hk).
  split; [|split; [exact Hn|exact Hk]].
  apply (fat_wf_perm d' v (c :: hs)); [|exact W']. apply Permutation_cons_append.
Qed.

(* ================================================================== 1. the shape of a crashed medium *)
(* the medium d' read against the medium d of the state before the call, whose tree is T: d' is
   crash-sound with a tree T' in which every file node of T that satisfies okn is found at the
   same path, with the same entry and chain, and the data blocks of these files are unchanged *)
Definition med_ok (v : vol) (d : disk) (T : list node) (okn : node -> Prop) (d' : disk) : Prop :=
  exists bl' rch' T' lost, crash_inv_at d' v bl' rch' T' lost /\
    (forall path e ch, node_at T path (NFile e ch) -> okn (NFile e ch) -> node_at T' path (NFile e ch)) /\
    (forall e ch j, In (NFile e ch) (all_nodes T) -> okn (NFile e ch) -> In j (data_blocks v ch) ->
       disk_get d' j = disk_get d j).

Lemma med_ok_refl v d bl rch T lost okn : crash_inv_at d v bl rch T lost -> med_ok v d T okn d.
Proof.
  intros H. exists bl, rch, T, lost. split; [exact H|]. split; [intros path e ch Hn _; exact Hn|reflexivity].
Qed.

Lemma med_ok_weaken v d T (ok1 ok2 : node -> Prop) d' : (forall n, ok2 n -> ok1 n) ->
  med_ok v d T ok1 d' -> med_ok v d T ok2 d'.
Proof.
  intros Hi (bl' & rch' & T' & lost & A & B & C). exists bl', rch', T', lost. split; [exact A|]. split.
  - intros path e ch Hn Ho. exact (B path e ch Hn (Hi _ Ho)).
  - intros e ch j Hn Ho. exact (C e ch j Hn (Hi _ Ho)).
Qed.

Lemma med_ok_crash_inv fsz v d T okn d' : crash_vol fsz v -> med_ok v d T okn d' -> crash_inv fsz v d'.
Proof. intros V (bl' & rch' & T' & lost & A & _). split; [exact V|]. exists bl', rch', T', lost. exact A. Qed.

Lemma med_ok_keeps v d bl rch T lost okn d' path e bytes :
  crash_inv_at d v bl rch T lost -> med_ok v d T okn d' ->
  (forall ch, In (NFile e ch) (all_nodes T) -> okn (NFile e ch)) ->
  file_on_medium d v path e bytes -> file_on_medium d' v path e bytes.
Proof.
  intros H (bl' & rch' & T' & lost' & A & B & C) Hok Hf.
  pose proof (proj1 (file_on_medium_tree d v bl rch T lost path e bytes H) Hf) as (ch & Hn & _).
  pose proof (Hok ch (node_at_in _ _ _ Hn)) as Ho.
  apply (file_on_medium_keep d d' v bl rch T lost bl' rch' T' lost' path e ch H Hn A (B path e ch Hn Ho)); [|exact Hf].
  intros j Hj. exact (C e ch j (node_at_in _ _ _ Hn) Ho Hj).
Qed.

(* both obligations at once *)
Definition step_med (fsz vid : N) (o : op) : Prop :=
  forall s r s' vi v bl rch T, fs_inv_at fsz vid s vi v bl rch T -> id_fresh s -> op_known_ok o ->
    step o s = (r, s') ->
    forall d', crash_disks s s' d' ->
      med_ok v (s_disk s) T (fun n => ~ op_targets s v o (node_entry n)) d'.

Theorem step_med_crash fsz vid o : step_med fsz vid o -> step_crash fsz vid o.
Proof.
  intros H s r s' (vi & v0 & bl & rch & T & Hat) Hf Hk Hs v d' Ev Hd.
  pose proof (fi_single _ _ _ _ _ _ _ _ Hat) as Ev0. rewrite Ev in Ev0. injection Ev0 as <-.
  exact (med_ok_crash_inv fsz v _ T _ d' (fs_inv_crash_vol _ _ _ _ _ _ _ _ Hat) (H s r s' vi v bl rch T Hat Hf Hk Hs d' Hd)).
Qed.

Theorem step_med_keeps fsz vid o : step_med fsz vid o -> step_keeps_flushed fsz vid o.
Proof.
  intros H s r s' (vi & v0 & bl & rch & T & Hat) Hf Hk Hs v path e bytes Ev Hfile Hnt d' Hd.
  pose proof (fi_single _ _ _ _ _ _ _ _ Hat) as Ev0. rewrite Ev in Ev0. injection Ev0 as <-.
  apply (med_ok_keeps v (s_disk s) bl rch T (pend_of s v) _ d' path e bytes
           (disk_inv_crash_inv_at _ _ _ _ _ _ (fi_disk _ _ _ _ _ _ _ _ Hat)) (H s r s' vi v bl rch T Hat Hf Hk Hs d' Hd));
    [|exact Hfile].
  intros ch _. exact Hnt.
Qed.

(* a call that wrote nothing *)
Lemma med_ok_quiet fsz vid s vi v bl rch T okn s' d' : fs_inv_at fsz vid s vi v bl rch T ->
  step_writes s s' = [] -> crash_disks s s' d' -> med_ok v (s_disk s) T okn d'.
Proof.
  intros Hat E Hd. rewrite (crash_disks_quiet s s' d' E Hd).
  exact (med_ok_refl v _ bl rch T (pend_of s v) okn (disk_inv_crash_inv_at _ _ _ _ _ _ (fi_disk _ _ _ _ _ _ _ _ Hat))).
Qed.

(* the call starts with a part that only reads: its crashed media are those of the rest *)
Lemma crash_disks_after_reads a b c d' : traced a b -> traced b c -> step_writes a b = [] ->
  crash_disks a c d' -> crash_disks b c d'.
Proof.
  intros T1 T2 E H. destruct (crash_disks_trans a b c d' T1 T2 H) as [X|X]; [|exact X].
  rewrite (crash_disks_quiet a b d' E X).
  assert (Eb : s_disk b = s_disk a) by (rewrite (traced_disk a b T1), E; reflexivity).
  rewrite <- Eb. apply crash_disks_old.
Qed.

(* ... ends with such a part *)
Lemma crash_disks_before_reads a b c d' : traced a b -> traced b c -> step_writes b c = [] ->
  crash_disks a c d' -> crash_disks a b d'.
Proof.
  intros T1 T2 E H. destruct (crash_disks_trans a b c d' T1 T2 H) as [X|X]; [exact X|].
  rewrite (crash_disks_quiet b c d' E X). exact (crash_disks_new a b T1).
Qed.

(* exactly one block write *)
Lemma crd_one_write a b i : traced a b -> PrOrder.tsteps a b [i] -> exists bk, tr_ext a b [(i, bk)].
Proof.
  intros T S. pose proof (traced_tr_ext a b T) as X. pose proof (tsteps_step_writes a b [i] S) as E.
  destruct (step_writes a b) as [|[j bk] [|w ws]]; cbn [map fst] in E; try discriminate E.
  injection E as ->. exists bk. exact X.
Qed.

(* the crashed media of a run lie between the two media on every block the run does not write *)
Lemma crash_disks_untouched a b d' j : crash_disks a b d' -> ~ In j (map fst (step_writes a b)) ->
  disk_get d' j = disk_get (s_disk a) j.
Proof. intros (k & _ & ->) H. apply PrCrash.prefix_disk_untouched. exact H. Qed.

(* ================================================================== 2. the tree and the data blocks of the files *)
(* the data blocks of a file node are no directory blocks *)
Lemma crd_file_data_not_dir d v bl rch T pend total fsz e ch j :
  disk_inv d v bl rch T pend -> PrBounds.part_layout v total fsz ->
  In (NFile e ch) (all_nodes T) -> In j (data_blocks v ch) -> ~ In j (tree_dir_blocks v bl T).
Proof.
  intros HD L Hn Hj Hdir.
  pose proof (di_wf _ _ _ _ _ _ HD) as W. pose proof (di_tree _ _ _ _ _ _ HD) as HT.
  destruct (heads_nodup v T pend (wf_heads _ _ _ W)) as (N1 & _ & N3 & _).
  destruct (all_nodes_rep d v bl T HT _ Hn) as (t & bl0 & Hr & _).
  apply node_rep_file in Hr. destruct Hr as (_ & _ & [(Hge & fu & Hch)|(_ & ->)]); [|destruct Hj].
  pose proof (chain_at_any _ _ _ _ _ Hch) as Hc.
  assert (Hown : In (e_cluster e) (own_head (NFile e ch))).
  { cbn [own_head]. apply N.leb_le in Hge. rewrite Hge. left. reflexivity. }
  assert (Hhd : In (e_cluster e) (heads v T ++ pend)).
  { apply in_or_app. left. unfold heads. apply in_or_app. right. exact (own_head_in T _ _ Hn Hown). }
  apply gw_tree_dir_blocks_iff in Hdir. destruct Hdir as [Hb|(e' & dch & kids & Hnd & Hb)].
  - pose proof (di_root _ _ _ _ _ _ HD) as Hroot. unfold root_dir in Hroot. destruct (v_fat32 v) eqn:E32.
    + destruct Hroot as (Hrc & Ebl). rewrite Ebl in Hb.
      assert (Hrh : In (v_root_cluster v) (root_heads v)) by (unfold root_heads; rewrite E32; left; reflexivity).
      assert (Hr : In (v_root_cluster v) (heads v T ++ pend)).
      { apply in_or_app. left. unfold heads. apply in_or_app. left. exact Hrh. }
      pose proof (chain_blocks_apart d v _ _ _ _ _ j W Hr Hhd Hrc Hc Hb Hj) as E.
      apply (proj1 (N3 _ Hrh)). rewrite E. exact (own_head_in T _ _ Hn Hown).
    + destruct Hroot as (_ & Ebl). rewrite Ebl in Hb. unfold data_blocks in Hj. apply in_flat_map in Hj.
      destruct Hj as (c & Hcc & Hjc). destruct (chain_at_mem _ _ _ _ c Hc Hcc) as (A & _).
      exact (root16_no_cluster' v total fsz j c L E32 Hb A Hjc).
  - destruct (dir_node_chain d v bl rch T pend HD e' dch kids Hnd) as (Hdc & Hdin & _).
    pose proof (chain_blocks_apart d v _ _ _ _ _ j W Hdin Hhd Hdc Hc Hb Hj) as E.
    assert (Hown' : In (e_cluster e) (own_head (NDir e' dch kids))) by (left; exact E).
    pose proof (flat_map_owner own_head _ N1 _ _ _ Hnd Hn Hown' Hown) as Eq. discriminate Eq.
Qed.

(* the chain of a file node: a chain of a head of the tree *)
Lemma crd_file_chain d v bl rch T pend e ch :
  disk_inv d v bl rch T pend -> In (NFile e ch) (all_nodes T) -> ch <> [] ->
  chain_at d v (e_cluster e) ch /\ In (e_cluster e) (heads v T).
Proof.
  intros HD Hn Hne. destruct (all_nodes_rep d v bl T (di_tree _ _ _ _ _ _ HD) _ Hn) as (t & bl0 & Hr & _).
  apply node_rep_file in Hr. destruct Hr as (_ & _ & [(Hge & fu & Hch)|(_ & E)]); [|contradiction].
  split; [exact (chain_at_any _ _ _ _ _ Hch)|]. unfold heads. apply in_or_app. right.
  apply (own_head_in T _ _ Hn). cbn [own_head]. apply N.leb_le in Hge. rewrite Hge. left. reflexivity.
Qed.

(* ================================================================== 3. Delete *)
(* paths through the pruned tree: every file node but the deleted one stays where it is *)
Lemma crd_node_at_prune pb po e0 ch0 T path e ch :
  only_n0 pb po e0 ch0 (all_nodes T) ->
  node_at T path (NFile e ch) -> NFile e ch <> NFile e0 ch0 ->
  node_at (prune_list pb po T) path (NFile e ch).
Proof.
  intros Honly Hat Hne.
  assert (Hk : forall m, In m (all_nodes T) -> m <> NFile e0 ch0 -> keep pb po m = true).
  { intros m Hm Hn. destruct (keep pb po m) eqn:E; [reflexivity|]. contradiction (Hn (Honly m Hm E)). }
  change (NFile e ch) with (prune_node pb po (NFile e ch)).
  apply (node_at_map (prune_node pb po) (fun m => keep pb po m = true) T).
  - intros m Hm. rewrite prune_entry. destruct m as [e1 ch1|e1 ch1 ks].
    + split; [reflexivity|]. split; [reflexivity|intros k []].
    + rewrite prune_node_dir. split; [reflexivity|]. split; [reflexivity|].
      intros k Hk0 Hok. cbn [node_kids] in *. unfold prune_list. apply in_map. apply filter_In. split; assumption.
  - intros m Hm Hd. apply (Hk m Hm). intros ->. discriminate Hd.
  - exact Hat.
  - apply Hk; [exact (node_at_in _ _ _ Hat)|exact Hne].
  - intros k Hk0 Hok. unfold prune_list. apply in_map. apply filter_In. split; assumption.
Qed.

Lemma crd_resolves_in s d di dd vi v : PrModes.resolves s d di dd vi v -> In dd (s_dirs s) /\ d_id dd = d.
Proof.
  intros (_ & H1 & H2 & _). rewrite PrHandles.get_dir_by_id_eq in H1.
  destruct (find_idx (fun x => d_id x =? d) (s_dirs s) 0) as [i|] eqn:E; [|discriminate H1].
  injection H1 as ->. destruct (find_idx_nth _ _ _ _ E) as (x & Hx & Hp). rewrite Nat.sub_0_r in Hx.
  rewrite PrHandles.get_dir_eq, Hx in H2. injection H2 as ->.
  split; [exact (nth_error_In _ _ Hx)|apply N.eqb_eq; exact Hp].
Qed.

(* the accepted deletion (hypotheses of PrGlobalDelete.del_core): the run, and every crashed
   medium of it *)
Theorem del_crash_core fsz vid s1 v bl rch T dc bl' parent kids sfn t :
  fs_inv_at fsz vid s1 0 v bl rch T -> del_ctx (s_disk s1) v T dc bl' parent kids ->
  sfn_shape sfn -> get8 sfn 0 <> 229 ->
  find (t_matches sfn) (live_in_blocks (s_disk s1) bl') = Some t ->
  is_directory (e_attr (t_entry (v_fat32 v) t)) = false ->
  PrModes.is_open s1 (v_id v) (t_entry (v_fat32 v) t) = false ->
  exists ch s',
    (delete_directory_entry 0 dc sfn ;;; free_cluster_chain 0 (e_cluster (t_entry (v_fat32 v) t))) s1 = (Ok tt, s') /\
    In (NFile (t_entry (v_fat32 v) t) ch) (all_nodes T) /\ t_name t = sfn /\ In (fst (fst t)) bl' /\
    forall d', crash_disks s1 s' d' ->
      med_ok v (s_disk s1) T (fun n => n <> NFile (t_entry (v_fat32 v) t) ch) d'.
Proof.
    intros Hat Hctx Hs H229 Hfind Hndir Hclosed.
    destruct (del_found (s_disk s1) v T dc bl' parent kids sfn t Hctx Hs H229 Hfind Hndir)
      as (Hlive & Hname & Hdot & Hnodes & ch & Hkid & Hrep).
    destruct (dir_nodes_in (s_disk s1) bl' t Hnodes) as (_ & _ & blk & i & Hb & Hi & Et).
    destruct (del_facts _ _ _ _ _ _ _ _ Hat) as (Hl & Hnf & Hc & Ev & _ & Hv0 & Hvok & L & Hwf & Hvid & Hpre).
    pose proof (fi_layout _ _ _ _ _ _ _ _ Hat) as PL.
    pose proof (fi_disk _ _ _ _ _ _ _ _ Hat) as HD.
    pose proof (di_wf _ _ _ _ _ _ HD) as W. pose proof (di_tree _ _ _ _ _ _ HD) as HT.
    pose proof (di_root _ _ _ _ _ _ HD) as Hroot.
    pose proof (dx_sub _ _ _ _ _ _ _ Hctx _ Hkid) as Hn0.
    assert (He0 : is_end (slot (disk_get (s_disk s1) blk) i) = false).
    { unfold dir_live in Hlive. apply In_before_end_all in Hlive. destruct Hlive as [_ H]. rewrite Et in H. exact H. }
    (* the slot write *)
    pose proof (delete_directory_entry_spec 0 v dc sfn s1 bl' Hv0 Hvok Hnf Hc (dx_blocks _ _ _ _ _ _ _ Hctx)) as Hspec.
    rewrite Hfind, Et in Hspec.
    destruct (Hspec (Hwf blk)) as (s2 & Hrun2 & Hd2 & _ & _ & _ & Hsw & _ & Hc2 & Hnf2 & Hm2 & l2 & Htr2 & Hl2).
    clear Hspec. rewrite N.div_mul in Hsw by lia.
    subst t. cbn [fst snd].
    set (e1 := t_entry (v_fat32 v) (blk, i * 32, slot (disk_get (s_disk s1) blk) i)) in *.
    assert (Hpos : e_block e1 = blk /\ e_offset e1 = i * 32) by (split; reflexivity).
    assert (Hblk : In blk (tree_dir_blocks v bl T)).
    { destruct (del_node_where (s_disk s1) v bl T _ HT Hn0) as (_ & _ & _ & H). exact H. }
    assert (Hnfat : ~ fat_area v blk) by exact (asm_nfat _ _ _ _ _ _ _ _ Hat blk Hblk).
    assert (Hfat2 : forall j, fat_area v j -> disk_get (s_disk s2) j = disk_get (s_disk s1) j)
      by exact (kill_fat (s_disk s1) (s_disk s2) v blk i _ Hsw Hnfat).
    (* the state after the slot write *)
    assert (Hvols2 : s_vols s2 = [v]) by (rewrite (proj1 Hm2); exact Ev).
    assert (Hwf2 : blocks_wf (s_disk s2)).
    { rewrite Hd2. apply blocks_wf_set; [exact Hwf|]. rewrite set_bytes_length; [apply Hwf|].
      rewrite (Hwf blk). cbn [length]. lia. }
    assert (Hst2 : st_ok 0 v fsz s2).
    { split; [exact Hnf2|]. split; [exact Hc2|]. split; [rewrite Hvols2; reflexivity|]. intros k _. apply Hwf2. }
    assert (W2 : fat_wf (s_disk s2) v (heads v T ++ pend_of s1 v)) by exact (fat_wf_ext (s_disk s1) _ v _ Hfat2 W).
    assert (Hstep2 : PrOrder.tsteps s1 s2 [blk]) by exact (del_write_tsteps s1 s2 blk _ l2 Htr2 Hl2).
    assert (Hrep' := Hrep). apply node_rep_file in Hrep'. destruct Hrep' as (_ & _ & Hec).
    exists ch.
    pose proof (tm_delete_directory_entry 0 dc sfn s1 _ _ Hrun2) as T12.
    destruct (crd_one_write s1 s2 blk T12 Hstep2) as (bk & X12).
    pose proof (disk_inv_crash_inv_at _ _ _ _ _ _ HD) as CI1.
    set (T1 := prune_list blk (i * 32) T).
    assert (TI2 : tree_inv (s_disk s2) v bl rch T1).
    { constructor.
      - exact (asm_root1 _ _ _ _ _ _ _ _ Hat blk i _ Hsw Hblk).
      - exact (asm_tree1 _ _ _ _ _ _ _ _ Hat blk i _ Hsw He0 Hblk).
      - exact (asm_rootok1 _ _ _ _ _ _ _ _ Hat blk i _ Hsw He0 Hdot).
      - exact (asm_nodes1 _ _ _ _ _ _ _ _ Hat blk i _ Hsw He0 Hdot).
      - exact (prune_positions blk (i * 32) T (di_pos _ _ _ _ _ _ HD)). }
    assert (Honly : only_n0 blk (i * 32) e1 ch (all_nodes T)) by exact (asm_only _ _ _ _ _ _ _ _ Hat blk i e1 ch Hn0 Hpos).
    (* a medium that has the pruned tree of s2: same directory blocks, same chains of its heads *)
    assert (Hmed : forall d' lost,
       fat_wf d' v ((heads v T1 ++ pend_of s1 v) ++ lost) ->
       (forall h ch2, In h (heads v T1 ++ pend_of s1 v) -> chain_at (s_disk s2) v h ch2 -> chain_at d' v h ch2) ->
       (forall j, PrCrash.non_fat v fsz j -> disk_get d' j = disk_get (s_disk s2) j) ->
       med_ok v (s_disk s1) T (fun n => n <> NFile e1 ch) d').
    { intros d' lost Wd Hcd Hnf'.
      assert (Hdirnf : forall j, PrBounds.in_dir v j -> disk_get d' j = disk_get (s_disk s2) j).
      { intros j Hj. apply Hnf'. intros cp k Hk. exact (del_in_dir_frame v fsz j PL Hj cp k Hk). }
      destruct (fatf_disk_parts (s_disk s2) d' v bl rch T1) as (P1 & P2 & P3 & P4).
      - intros j Hj. apply Hdirnf.
        exact (del_tree_block_in_dir (s_disk s2) v bl rch T1 j (ti_root _ _ _ _ _ TI2) (ti_tree _ _ _ _ _ TI2) Hj).
      - intros h0 ch2 Hh0. apply Hcd. apply in_or_app. left. exact Hh0.
      - exact (ti_root _ _ _ _ _ TI2).
      - exact (ti_tree _ _ _ _ _ TI2).
      - exact (ti_rootok _ _ _ _ _ TI2).
      - exact (ti_nodes _ _ _ _ _ TI2).
      - exists bl, rch, T1, (pend_of s1 v ++ lost). split; [|split].
        + apply tree_inv_crash_inv_at; [constructor; try assumption; exact (ti_pos _ _ _ _ _ TI2)|].
          rewrite app_assoc. exact Wd.
        + intros path e ch2 Hn Hne. exact (crd_node_at_prune blk (i * 32) e1 ch T path e ch2 Honly Hn Hne).
        + intros e ch2 j Hn Hne Hj.
          assert (Hjnf : PrCrash.non_fat v fsz j).
          { pose proof Hj as Hj'. unfold data_blocks in Hj'. apply in_flat_map in Hj'. destruct Hj' as (x & Hx & Hjx).
            assert (Hne2 : ch2 <> []) by (intros ->; destruct Hx).
            destruct (crd_file_chain _ v bl rch T _ e ch2 HD Hn Hne2) as (Hc2' & _).
            exact (PrCrash.cluster_block_non_fat v fsz x j L (proj1 (chain_at_mem _ _ _ _ x Hc2' Hx)) Hjx). }
          rewrite (Hnf' j Hjnf). apply (proj1 Hsw). intros ->.
          exact (crd_file_data_not_dir _ v bl rch T _ _ fsz e ch2 blk HD PL Hn Hj Hblk). }
    destruct Hec as [(Hge & fu & Hch)|(Hlt & ->)].
    - (* a file with a chain *)
      destruct (chain_at_head _ _ _ _ (chain_at_any _ _ _ _ _ Hch)) as (rest & ->).
      set (h := e_cluster e1) in *.
      assert (Hch2 : chain_of (s_disk s2) v h fu = Some (h :: rest)) by (rewrite (chain_of_ext (s_disk s1) _ v Hfat2); exact Hch).
      assert (Hheads : node_heads (NFile e1 (h :: rest)) = [h]).
      { cbn [node_heads]. fold h. apply N.leb_le in Hge. rewrite Hge. reflexivity. }
      assert (Hh : In h (heads v T ++ pend_of s1 v)).
      { apply in_or_app. left. unfold heads. apply in_or_app. right.
        apply (own_head_in T _ h Hn0). change (own_head (NFile e1 (h :: rest))) with (node_heads (NFile e1 (h :: rest))).
        rewrite Hheads. left. reflexivity. }
      assert (W2' : fat_wf (s_disk s2) v ((heads v T1 ++ pend_of s1 v) ++ [h])).
      { unfold T1. apply (del_fat_wf_set _ v (heads v T ++ pend_of s1 v)); [| |exact W2].
        - apply nodup_app; [exact (asm_heads_nodup _ _ _ _ _ _ _ _ Hat blk i)|constructor; [intros []|constructor]|].
          intros x Hx [<-|[]]. apply (asm_heads_in _ _ _ _ _ _ _ _ Hat blk i e1 (h :: rest) Hn0 Hpos) in Hx.
          destruct Hx as (_ & B). apply B. rewrite Hheads. left. reflexivity.
        - intros x. rewrite in_app_iff, (asm_heads_in _ _ _ _ _ _ _ _ Hat blk i e1 (h :: rest) Hn0 Hpos x), Hheads.
          cbn [In]. split.
          + intros [(A & _)|[<-|[]]]; [exact A|exact Hh].
          + intros A. destruct (N.eq_dec x h) as [->|Hne]; [right; left; reflexivity|left; split; [exact A|]].
            intros [E|[]]. congruence. }
      destruct (C10_free_prefix_chains 0 v fsz s2 h rest fu L Hst2 Hch2) as (s' & Hrun3 & Tr3 & Hk).
      exists s'. split; [rewrite (bind_ok _ _ _ _ _ Hrun2); exact Hrun3|]. split; [exact Hn0|].
      split; [exact Hname|]. split; [exact Hb|].
      pose proof (tr_ext_traced _ _ _ Tr3) as T23.
      assert (Hfreemed : forall d', crash_disks s2 s' d' -> med_ok v (s_disk s1) T (fun n => n <> NFile e1 (h :: rest)) d').
      { intros d' Hd. apply (crash_disks_tr_ext s2 s' _ d' Tr3) in Hd. destruct Hd as (k & _ & ->).
        destruct (Hk k) as (j0 & j1 & _ & _ & _ & Hout & Hoth & Hthis & Hnfk).
        destruct (crd_free_stage (s_disk s2) _ v (heads v T1 ++ pend_of s1 v) h rest W2' (chain_at_any _ _ _ _ _ Hch2)
                    (fun x _ X2 Hni => Hout x (layout_sector v fsz x L X2) Hni)) as (lost & Wk & Hck).
        - destruct Hthis as [A|[(B1 & B2 & m & Bm & Bz & Bk)|(C1 & C2)]].
          + left. exact (chain_at_any _ _ _ _ _ A).
          + right. left. split; [exact (chain_at_any _ _ _ _ _ B1)|]. exists m. split; [exact Bm|]. split; assumption.
          + right. right. split; assumption.
        - exact (Hmed _ lost Wk Hck Hnfk). }
      intros d' Hd. destruct (crash_disks_trans s1 s2 s' d' T12 T23 Hd) as [X|X].
      + destruct (crash_disks_one s1 s2 blk bk d' X12 X) as [-> | ->].
        * exact (med_ok_refl v _ bl rch T _ _ CI1).
        * apply Hfreemed. apply crash_disks_old.
      + exact (Hfreemed d' X).
    - (* an empty file: nothing to free *)
      assert (Hheads : node_heads (NFile e1 []) = []).
      { cbn [node_heads]. apply N.leb_gt in Hlt. rewrite Hlt. reflexivity. }
      exists s2. split; [rewrite (bind_ok _ _ _ _ _ Hrun2); exact (free_reserved 0 _ s2 Hlt)|]. split; [exact Hn0|].
      split; [exact Hname|]. split; [exact Hb|].
      intros d' Hd. destruct (crash_disks_one s1 s2 blk bk d' X12 Hd) as [-> | ->].
      + exact (med_ok_refl v _ bl rch T _ _ CI1).
      + apply (Hmed _ []).
        * rewrite app_nil_r. unfold T1. apply (del_fat_wf_set _ v (heads v T ++ pend_of s1 v)); [| |exact W2].
          -- exact (asm_heads_nodup _ _ _ _ _ _ _ _ Hat blk i).
          -- intros x. rewrite (asm_heads_in _ _ _ _ _ _ _ _ Hat blk i e1 [] Hn0 Hpos x), Hheads.
             split; [intros (A & _); exact A|intros A; split; [exact A|intros []]].
        * intros h0 ch2 _ H. exact H.
        * reflexivity.
Qed.

(* every outcome of the call *)
Theorem step_med_Delete fsz vid d name : step_med fsz vid (Delete d name).
Proof.
  intros s r s' vi v bl rch T Hat _ Hknown Hs d' Hd.
  pose proof (proj2 Hknown) as Hname. cbn [step] in Hs.
  destruct (del_facts _ _ _ _ _ _ _ _ Hat) as (Hl & Hnf & Hc & Ev & E0 & Hv0 & Hvok & _). subst vi.
  assert (Hsame : s' = s -> med_ok v (s_disk s) T (fun n => ~ op_targets s v (Delete d name) (node_entry n)) d').
  { intros ->. apply (med_ok_quiet fsz vid s 0%nat v bl rch T _ s d' Hat); [|exact Hd]. apply step_writes_same. reflexivity. }
  destruct (del_resolve _ _ _ _ _ _ _ _ d Hat) as [Hno|di dd H1 H2 Hne H3|di dd Hres Hvol Hdir].
  - (* stale handle *)
    destruct (PrHandles.C08_stale_dir_handle d s Hl Hno) as (_ & _ & _ & E1 & _). specialize (E1 name). cbn [step] in E1.
    rewrite E1 in Hs. injection Hs as <- <-. exact (Hsame eq_refl).
  - (* a handle of another volume id *)
    assert (E : delete_file_in_dir d name s = (Err BadHandle, s)).
    { unfold delete_file_in_dir. rewrite (PrHandles.locked_free _ s Hl).
      rewrite (bind_ok _ _ _ _ _ H1), (bind_ok _ _ _ _ _ H2). apply bind_err. exact H3. }
    rewrite (lift_err' _ _ _ _ _ E) in Hs. injection Hs as <- <-. exact (Hsame eq_refl).
  - pose proof Hres as (_ & H1 & H2 & H3 & H4).
    destruct (sfn_of_str name) as [sfn|] eqn:Hsfn.
    2:{ (* bad name *)
      assert (E : delete_file_in_dir d name s = (Err FilenameError, s)).
      { unfold delete_file_in_dir. rewrite (PrHandles.locked_free _ s Hl).
        rewrite (bind_ok _ _ _ _ _ H1), (bind_ok _ _ _ _ _ H2), (bind_ok _ _ _ _ _ H3), Hsfn. reflexivity. }
      rewrite (lift_err' _ _ _ _ _ E) in Hs. injection Hs as <- <-. exact (Hsame eq_refl). }
    pose proof (del_sfn_shape name sfn Hsfn) as Hshape.
    assert (H229 : get8 sfn 0 <> 229).
    { cbn [op_name_ok] in Hname. unfold e5_name in Hname. rewrite Hsfn in Hname. apply N.eqb_neq. exact Hname. }
    destruct (del_ctx_of _ _ _ _ _ _ _ _ (d_cluster dd) Hat Hdir) as (bl' & parent & kids & Hctx).
    destruct (C06_find 0 v (d_cluster dd) sfn s bl' Hv0 Hvok Hnf Hc (dx_blocks _ _ _ _ _ _ _ Hctx)) as (s1 & Hrun & Hro).
    pose proof (PrModes.find_directory_entry_reads_only _ _ _ _ _ _ Hrun) as Hrd.
    assert (Hro' : ro_step s s1) by exact Hro.
    pose proof (del_ro _ _ _ _ _ _ _ _ _ Hat Hro') as Hat1.
    destruct Hro as (Hd1 & _ & _ & Hm1).
    assert (Hvols1 : s_vols s1 = s_vols s) by exact (proj1 Hm1).
    pose proof (tsteps_nil_writes _ _ (del_reads_only_tsteps _ _ Hrd)) as Hq1.
    assert (Hread : s' = s1 -> med_ok v (s_disk s) T (fun n => ~ op_targets s v (Delete d name) (node_entry n)) d').
    { intros ->. exact (med_ok_quiet fsz vid s 0%nat v bl rch T _ s1 d' Hat Hq1 Hd). }
    destruct (find (t_matches sfn) (live_in_blocks (s_disk s) bl')) as [t|] eqn:Hfind.
    + set (e := t_entry (v_fat32 v) t) in *.
      destruct (is_directory (e_attr e)) eqn:Hisdir.
      * (* the entry is a directory *)
        destruct (PrModes.C07_delete_refusals s d di dd 0 v name sfn (Ok e) s1 DeleteDirAsFile Hres Hsfn Hrun) as (E & _).
        { cbn [PrModes.delete_refusal]. rewrite Hisdir. reflexivity. }
        rewrite (lift_err' _ _ _ _ _ E) in Hs. injection Hs as <- <-. exact (Hread eq_refl).
      * destruct (PrModes.is_open s1 (d_vol dd) e) eqn:Hopen.
        -- (* the file is open *)
           destruct (PrModes.C07_delete_refusals s d di dd 0 v name sfn (Ok e) s1 FileAlreadyOpen Hres Hsfn Hrun) as (E & _).
           { cbn [PrModes.delete_refusal PrModes.found_open]. rewrite Hisdir, Hopen. reflexivity. }
           rewrite (lift_err' _ _ _ _ _ E) in Hs. injection Hs as <- <-. exact (Hread eq_refl).
        -- (* the deletion *)
           assert (Hv1 : get_volume_by_id (d_vol dd) s1 = (Ok 0%nat, s1)).
           { rewrite (del_vol_lookup s1 v (d_vol dd) ltac:(rewrite Hvols1; exact Ev)).
             rewrite Hvol, N.eqb_refl. reflexivity. }
           pose proof (del_run_success s d di dd v name sfn e s1 Hres Hsfn Hrun Hisdir Hopen Hv1) as Erun.
           assert (Hctx1 : del_ctx (s_disk s1) v T (d_cluster dd) bl' parent kids) by (rewrite Hd1; exact Hctx).
           assert (Hfind1 : find (t_matches sfn) (live_in_blocks (s_disk s1) bl') = Some t) by (rewrite Hd1; exact Hfind).
           rewrite Hvol in Hopen.
           destruct (del_crash_core fsz vid s1 v bl rch T (d_cluster dd) bl' parent kids sfn t Hat1 Hctx1 Hshape H229 Hfind1 Hisdir Hopen)
             as (ch & s2 & Drun & Hn0 & Hnm & Hblk & Hall).
           fold e in Drun, Hn0, Hall. rewrite Drun in Erun. rewrite (lift_ok' _ _ _ _ _ Erun) in Hs. injection Hs as <- <-.
           pose proof (tm_find_directory_entry 0 (d_cluster dd) sfn s _ _ Hrun) as T01.
           pose proof (tm_bind _ _ (tm_delete_directory_entry 0 (d_cluster dd) sfn)
                         (fun _ => tm_free_cluster_chain 0 (e_cluster e)) s1 _ _ Drun) as T12.
           pose proof (Hall d' (crash_disks_after_reads s s1 s2 d' T01 T12 Hq1 Hd)) as Hm. rewrite Hd1 in Hm.
           refine (med_ok_weaken v (s_disk s) T _ _ d' _ Hm).
           intros n Hnt ->. apply Hnt. cbn [op_targets node_entry].
           destruct (crd_resolves_in s d di dd 0%nat v Hres) as (Hdd & Hid).
           exists dd, sfn, bl'. split; [exact Hdd|]. split; [exact Hid|]. split; [exact Hvol|]. split; [exact Hsfn|].
           split; [exact Hnm|]. split; [exact (dx_blocks _ _ _ _ _ _ _ Hctx)|exact Hblk].
    + (* no such entry *)
      destruct (PrModes.C07_delete_refusals s d di dd 0 v name sfn (Err NotFound) s1 NotFound Hres Hsfn Hrun) as (E & _);
        [reflexivity|].
      rewrite (lift_err' _ _ _ _ _ E) in Hs. injection Hs as <- <-. exact (Hread eq_refl).
Qed.

Theorem step_crash_Delete fsz vid d name : step_crash fsz vid (Delete d name).
Proof. apply step_med_crash. apply step_med_Delete. Qed.

Theorem step_keeps_Delete fsz vid d name : step_keeps_flushed fsz vid (Delete d name).
Proof. apply step_med_keeps. apply step_med_Delete. Qed.

(* ================================================================== 4. the hypotheses are satisfiable *)
(* PrGlobalDelete's FAT16 volume: the root directory holds a long-name slot, the file "A" (3 bytes,
   chain 2 -> 3) and the empty file "B".  Delete "A" writes block 27 (the slot), then the FAT sector
   11 three times (2 := end of chain, 3 := free, 2 := free).  By the theorems every one of the five
   crashed media is crash-sound and shows "B"; the decider PrCrashDef.crash_inv_b agrees and finds
   the lost chains the proof predicts: none, [2] (whole chain 2 -> 3), [2] and [3] (two one-cluster
   chains), [2], none. *)
Definition exg_tree : list node :=
  match tree_of 2 exg_disk exg_vol [27; 28] with Some T => T | None => [] end.
Definition exg_eB : dirent := node_entry (nth 1 exg_tree (NFile (mk_dirent [] (clock_ts 0) (clock_ts 0) 0 0 0 0 0) [])).

Example del_crash_example :
  map fst (step_writes exg_state exg_s1) = [27; 11; 11; 11] /\
  (forall d', crash_disks exg_state exg_s1 d' -> crash_inv 16 exg_vol d') /\
  file_on_medium exg_disk exg_vol [e_name exg_eB] exg_eB [] /\
  (forall d', crash_disks exg_state exg_s1 d' -> file_on_medium d' exg_vol [e_name exg_eB] exg_eB []) /\
  map (fun k => let d := prefix_disk (step_writes exg_state exg_s1) k exg_disk in
                (crash_inv_b 2 16 d exg_vol,
                 match tree_of 2 d exg_vol [27; 28] with
                 | Some T => (length T, lost_heads d exg_vol (heads exg_vol T)) | None => (0%nat, []) end))
      [0; 1; 2; 3; 4]%nat
  = [(true, (2%nat, [])); (true, (1%nat, [2])); (true, (1%nat, [2; 3])); (true, (1%nat, [2])); (true, (1%nat, []))].
Proof.
  assert (F0 : id_fresh exg_state).
  { intros x Hx E. assert (E1 : PrHandles.all_ids exg_state = [0; 5]) by (vm_compute; reflexivity).
    assert (E2 : s_next_id exg_state = 6) by reflexivity. rewrite E1 in Hx. rewrite E2 in E.
    destruct Hx as [<-|[<-|[]]]; discriminate E. }
  assert (K1 : op_known_ok (Delete 5 [65])) by (split; [split; exact I|vm_compute; reflexivity]).
  assert (ET : tree_of 2 exg_disk exg_vol [27; 28] = Some exg_tree) by (vm_compute; reflexivity).
  assert (ER : root_of exg_disk exg_vol = Some ([27; 28], [])) by (vm_compute; reflexivity).
  assert (EL : exists nA, exg_tree = [nA; NFile exg_eB []]) by (eexists; vm_compute; reflexivity).
  assert (CI : crash_inv_at exg_disk exg_vol [27; 28] [] exg_tree []).
  { constructor.
    - exact (root_of_sound _ _ _ _ ER).
    - exact (tree_of_sound 2 _ _ _ _ ET).
    - apply dir_ok_b_ok. vm_compute. reflexivity.
    - assert (H : forallb (node_ok_crash_b exg_disk exg_vol CL_ROOT) exg_tree = true) by (vm_compute; reflexivity).
      rewrite forallb_forall in H. apply Forall_forall. intros n Hn. exact (node_ok_crash_b_ok _ _ n _ (H n Hn)).
    - apply fat_wf_b_spec. vm_compute. reflexivity.
    - apply nodup_pb_ok. vm_compute. reflexivity. }
  assert (HB : file_on_medium exg_disk exg_vol [e_name exg_eB] exg_eB []).
  { exists [27; 28], [], exg_tree, [], []. split; [exact CI|]. split; [|reflexivity].
    destruct EL as (nA & EL). apply (na_here exg_tree (NFile exg_eB [])). rewrite EL. right. left. reflexivity. }
  split; [vm_compute; reflexivity|].
  split; [intros d' Hd; exact (step_crash_Delete 16 0 5 [65] exg_state _ _ exg_inv F0 K1 exg_step1 exg_vol d' eq_refl Hd)|].
  split; [exact HB|]. split; [|vm_compute; reflexivity].
  intros d' Hd.
  apply (step_keeps_Delete 16 0 5 [65] exg_state _ _ exg_inv F0 K1 exg_step1 exg_vol _ _ _ eq_refl HB); [|exact Hd].
  intros (dd & sfn & bl' & _ & _ & _ & Hs & Hn & _).
  assert (E : sfn_of_str [65] = Some (65 :: repeat 32 10)) by (vm_compute; reflexivity).
  rewrite E in Hs. injection Hs as <-. assert (E2 : e_name exg_eB = 66 :: repeat 32 10) by (vm_compute; reflexivity).
  rewrite E2 in Hn. discriminate Hn.
Qed.

Print Assumptions crd_repartition.
Print Assumptions crd_free_stage.
Print Assumptions del_crash_core.
Print Assumptions step_crash_Delete.
Print Assumptions step_keeps_Delete.
Print Assumptions del_crash_example.
