(* PROOFS, C01 / C02 over histories: the per-operation obligation PrContentDef.step_content for the
   two directory operations that change the tree:
     content_Delete : forall fsz vid d name, step_content fsz vid (Delete d name)
     content_Mkdir  : forall fsz vid d name, step_content fsz vid (Mkdir d name)
   in EVERY outcome of the call, and two facts the frozen definitions delete_content / mkdir_content
   do not ask for (same case analysis, stated beside the obligation):
     content_Delete_shape : ... and on success (delete_shape) the new bytes of the one slot that
                            changed are the old ones with 0xE5 in the first byte;
     content_Mkdir_shape  : ... and on success (mkdir_new_shape) the new directory shows ".", ".."
                            (11-byte names) in slots 0 and 1 of its first block and all-zero slots
                            after them.
   That the clusters freed by Delete belong to no other file is PrGlobalDelete.C05_delete_frees
   (FAT entries 0) together with fs_inv of the state afterwards (fat_wf: used = reachable).

   Delete.  Refusals (BadHandle - stale handle or a handle of another volume id -, FilenameError,
   NotFound, DeleteDirAsFile, FileAlreadyOpen): the call only read; the observation is the same
   (same_obs).  Success: the run is re-derived from the intermediate lemmas of PrGlobalDelete (its
   final record del_done hides the intermediate disk): ONE slot write (first byte 0xE5), then the
   FAT writes of free_cluster_chain.  The tree afterwards is prune_list blk off T; the position
   (blk, off) disappears from both views, every other position shows the same (the data blocks
   of the other files are no FAT sectors and not the directory block written; the chains of the
   open files are kept: asm_fchain), every directory reads as before through upd_slot blk off
   (slots_of_upd), which is the identity on every directory but the one that holds the slot.

   Mkdir.  The run is make_dir_run (PrGlobalMkdirR) in the state after the lookup; the proof of
   PrGlobalMkdir.mkd_make_dir_inv is replayed with the new tree VISIBLE (mkx_make_dir).  In every
   outcome the file nodes of the new tree are those of the old one, with the same chains and the
   same data blocks (files_same), the file table is the same (handles).  Errors - every refusal
   that only read, NotEnoughSpace before anything was written (mk_full0), NotEnoughSpace after
   the new cluster was taken, filled and released again (mk_full1: the blocks of that cluster
   changed, the FAT is as before up to the hint; no directory of the tree lives there) -: every
   directory shows the same raw slots (dirs_same).  Success: the new directory (key = its cluster
   c, free before: dget c = None) appears, exactly one slot of the parent changes - after the
   parent received one more cluster of all-zero slots when it had no free slot (mk_grown) -, every
   other directory shows the same raw slots. *)
From Coq Require Import NArith ZArith List Bool Lia Arith ZifyClasses ZifyInst Zify FMapPositive Permutation.
From SdFs Require Import FsTypes FsBase FsFat FsMgr FsLemmas PrBase PrFat PrAlloc PrDir PrSeek PrAllocEffect
  PrRw PrWrite PrFileSeq PrMulti PrEntry PrChain PrCount PrWf PrOpenClose PrGlobalDef PrGlobalMkdirT PrGlobalMkdirS
  PrGlobalMkdirR PrGlobalMkdir PrGlobalDelete PrContentDef.
From SdFs Require PrModes PrHandles PrCrash PrBounds PrOrder.
Import ListNotations.
Open Scope N_scope.
Local Arguments N.mul : simpl never.
Local Arguments N.add : simpl never.
Local Arguments N.sub : simpl never.
Local Arguments N.div : simpl never.
Local Arguments N.modulo : simpl never.
Local Arguments N.land : simpl never.
Local Arguments N.lor : simpl never.
Local Arguments N.min : simpl never.
Local Arguments N.max : simpl never.
Local Ltac Zify.zify_post_hook ::= Z.to_euclidean_division_equations.

(* ================================================================== 0. lookups in two trees *)
(* the same file nodes at position q, shown the same way: the same answer at q *)
Lemma cd_vget_transfer {A} (g g' : node -> A) L L' q :
  NoDup (map node_pos L) -> NoDup (map node_pos L') ->
  (forall e ch, node_pos (NFile e ch) = q -> (In (NFile e ch) L' <-> In (NFile e ch) L)) ->
  (forall e ch, In (NFile e ch) L -> node_pos (NFile e ch) = q -> g' (NFile e ch) = g (NFile e ch)) ->
  vget q (flat_map (file_item g') L') = vget q (flat_map (file_item g) L).
Proof.
  intros Hnd Hnd' Hiff Hg.
  destruct (vget q (flat_map (file_item g) L)) as [x|] eqn:E.
  - destruct (vget_file_item_inv g L q x E) as (e & ch & Hin & Ep & ->).
    rewrite <- Ep. rewrite (vget_file_item g' L' e ch Hnd' (proj2 (Hiff e ch Ep) Hin)).
    rewrite (Hg e ch Hin Ep). reflexivity.
  - apply vget_file_item_none. intros e ch Hin Ep.
    rewrite <- Ep, (vget_file_item g L e ch Hnd (proj1 (Hiff e ch Ep) Hin)) in E. discriminate E.
Qed.

(* no file node at q: nothing is shown there *)
Lemma cd_vget_gone {A} (g : node -> A) L q :
  (forall e ch, In (NFile e ch) L -> node_pos (NFile e ch) <> q) -> vget q (flat_map (file_item g) L) = None.
Proof. apply vget_file_item_none. Qed.

Lemma cd_map_fst_upd blk off new l : map fst (map (upd_slot blk off new) l) = map fst l.
Proof.
  rewrite map_map. apply map_ext. intros t. unfold upd_slot.
  destruct ((fst (fst t) =? blk) && (snd (fst t) =? off)) eqn:E; [|reflexivity].
  apply andb_true_iff in E. destruct E as [E1 E2]. apply N.eqb_eq in E1. apply N.eqb_eq in E2.
  destruct t as [[b o] x]. cbn [fst snd] in *. subst. reflexivity.
Qed.

(* the keys of the slots of a list of blocks are slots of those blocks *)
Lemma cd_slot_key_block d bl p : In p (map fst (slots_of d bl)) -> In (fst p) bl.
Proof.
  intros H. apply in_map_iff in H. destruct H as (t & <- & Ht).
  destruct (In_slots_of d bl t Ht) as (b & i & Hb & _ & ->). exact Hb.
Qed.

(* ONE slot of ONE block of the list is rewritten: the slots read through upd_slot *)
Lemma cd_slots_one_write d d' bl blk i bytes :
  length (disk_get d blk) = 512%nat -> i < 16 -> length bytes = 32%nat ->
  (forall j, In j bl -> j <> blk -> disk_get d' j = disk_get d j) ->
  disk_get d' blk = set_bytes (disk_get d blk) (i * 32) bytes ->
  slots_of d' bl = map (upd_slot blk (i * 32) bytes) (slots_of d bl).
Proof.
  intros Hlen Hi Hbytes Hfr Hblk.
  set (d'' := disk_set d blk (set_bytes (disk_get d blk) (i * 32) bytes)).
  assert (W : slot_write d d'' blk i bytes).
  { assert (Hhi : i * 32 + N.of_nat (length bytes) <= i * 32 + 32) by (rewrite Hbytes; lia).
    pose proof (slot_write_of_set d blk (i * 32) bytes i Hlen Hi (N.le_refl _) Hhi) as W.
    rewrite slot_set_bytes_same in W; [exact W|exact Hbytes|lia]. }
  rewrite <- (slots_of_upd d d'' blk i bytes bl W).
  apply slots_of_ext. intros j Hj. unfold d''. destruct (N.eq_dec j blk) as [->|Hne].
  - rewrite Hblk, disk_get_set_same. reflexivity.
  - rewrite (Hfr j Hj Hne), disk_get_set_other by congruence. reflexivity.
Qed.

(* a position that is no key of the list: upd_slot is the identity on it *)
Lemma cd_map_upd_other blk off new l : ~ In (blk, off) (map fst l) -> map (upd_slot blk off new) l = l.
Proof. apply map_upd_slot_other. Qed.

(* ---- the handle table depends on the file table only ---- *)
Lemma cd_handles_same s s' : s_files s' = s_files s -> handles_of s' = handles_of s.
Proof. intros E. unfold handles_of. rewrite E. reflexivity. Qed.

(* no handle is open on a slot no record has *)
Lemma cd_not_open fsz vid s vi v bl rch T p : fs_inv_at fsz vid s vi v bl rch T ->
  (forall f, In f (s_files s) -> slot_key f <> p) -> not_open p (obs_at s v bl T).
Proof.
  intros Hat Hno k hi Hk. cbn [obs_at ob_handles] in Hk.
  destruct (hget_Some_resolves s k hi (proj1 (fi_vol _ _ _ _ _ _ _ _ Hat)) Hk) as (fi & f & Hr & ->).
  cbn [hinfo_of hi_pos]. apply Hno. exact (nth_error_In _ _ (proj2 (proj2 Hr))).
Qed.

(* ---- a call that only read shows the same ---- *)
Lemma cd_ro_same fsz vid s s1 a : observes fsz vid s a -> ro_step s s1 -> observes fsz vid s1 a.
Proof.
  intros (vi & v & bl & rch & T & Hat & ->) Hro.
  pose proof (del_ro _ _ _ _ _ _ _ _ _ Hat Hro) as Hat1.
  destruct Hro as (Hd & _ & _ & (_ & _ & M3 & _)).
  exists vi, v, bl, rch, T. split; [exact Hat1|].
  unfold obs_at. rewrite Hd. f_equal.
  - apply mem_view_ext. intros e ch _. unfold mem_item, open_at, mem_fv, fchain. rewrite M3, Hd. reflexivity.
  - symmetry. exact (cd_handles_same s s1 M3).
Qed.

(* ================================================================== 1. Delete *)
(* ---- 1a. the successful deletion, with the intermediate disk visible (PrGlobalDelete.del_core
   re-derived: the same run, more of it kept) ---- *)
Record cdel_done (fsz vid : N) (s1 : st) (v : vol) (bl rch : list N) (T : list node) (sfn : list N)
    (blk i : N) (ch : list N) (s' : st) : Prop := mk_cdel_done {
  cx_slot : i < 16 /\ In blk (tree_dir_blocks v bl T);
  cx_node : exists e1, In (NFile e1 ch) (all_nodes T) /\ e_block e1 = blk /\ e_offset e1 = i * 32 /\ e_name e1 = sfn;
  cx_closed : forall f, In f (s_files s1) -> slot_key f <> (blk, i * 32);
  cx_mid : exists d1 nf fc,
      slot_write (s_disk s1) d1 blk i (set_bytes (slot (disk_get (s_disk s1) blk) i) 0 [229]) /\
      (forall j, (forall copy k, k < fsz -> j <> fat_copy_sector v copy k) -> disk_get (s_disk s') j = disk_get d1 j) /\
      s_files s' = s_files s1 /\
      fs_inv_at fsz vid s' 0 (vol_rebook v nf fc) bl rch (prune_list blk (i * 32) T) /\
      (forall f, In f (s_files s1) -> fchain (s_disk s') (vol_rebook v nf fc) f = fchain (s_disk s1) v f)
}.

Theorem cdel_core fsz vid s1 v bl rch T dc bl' parent kids sfn t :
  fs_inv_at fsz vid s1 0 v bl rch T -> del_ctx (s_disk s1) v T dc bl' parent kids ->
  sfn_shape sfn -> get8 sfn 0 <> 229 ->
  find (t_matches sfn) (live_in_blocks (s_disk s1) bl') = Some t ->
  is_directory (e_attr (t_entry (v_fat32 v) t)) = false ->
  PrModes.is_open s1 (v_id v) (t_entry (v_fat32 v) t) = false ->
  exists blk i ch s',
    (delete_directory_entry 0 dc sfn ;;; free_cluster_chain 0 (e_cluster (t_entry (v_fat32 v) t))) s1 = (Ok tt, s') /\
    cdel_done fsz vid s1 v bl rch T sfn blk i ch s'.
Proof.
    intros Hat Hctx Hs H229 Hfind Hndir Hclosed.
    destruct (del_found (s_disk s1) v T dc bl' parent kids sfn t Hctx Hs H229 Hfind Hndir)
      as (Hlive & Hname & Hdot & Hnodes & ch & Hkid & Hrep).
    destruct (dir_nodes_in (s_disk s1) bl' t Hnodes) as (_ & _ & blk & i & Hb & Hi & Et).
    destruct (del_facts _ _ _ _ _ _ _ _ Hat) as (Hl & Hnf & Hc & Ev & _ & Hv0 & Hvok & L & Hwf & Hvid & Hpre).
    pose proof (fi_layout _ _ _ _ _ _ _ _ Hat) as PL.
    pose proof (fi_disk _ _ _ _ _ _ _ _ Hat) as HD.
    pose proof (di_wf _ _ _ _ _ _ HD) as W. pose proof (di_tree _ _ _ _ _ _ HD) as HT.
    pose proof (di_root _ _ _ _ _ _ HD) as Hroot.
    pose proof (dx_sub _ _ _ _ _ _ _ Hctx _ Hkid) as Hn0.
    assert (He0 : is_end (slot (disk_get (s_disk s1) blk) i) = false).
    { unfold dir_live in Hlive. apply In_before_end_all in Hlive. destruct Hlive as [_ H]. rewrite Et in H. exact H. }
    pose proof (delete_directory_entry_spec 0 v dc sfn s1 bl' Hv0 Hvok Hnf Hc (dx_blocks _ _ _ _ _ _ _ Hctx)) as Hspec.
    rewrite Hfind, Et in Hspec.
    destruct (Hspec (Hwf blk)) as (s2 & Hrun2 & Hd2 & _ & _ & _ & Hsw & _ & Hc2 & Hnf2 & Hm2 & l2 & Htr2 & Hl2).
    clear Hspec. rewrite N.div_mul in Hsw by lia.
    subst t. cbn [fst snd].
    set (e1 := t_entry (v_fat32 v) (blk, i * 32, slot (disk_get (s_disk s1) blk) i)) in *.
    assert (Hpos : e_block e1 = blk /\ e_offset e1 = i * 32) by (split; reflexivity).
    assert (Hblk : In blk (tree_dir_blocks v bl T)).
    { destruct (del_node_where (s_disk s1) v bl T _ HT Hn0) as (_ & _ & _ & H). exact H. }
    assert (Hnopen : forall f, In f (s_files s1) -> slot_key f <> (blk, i * 32)).
    { intros f Hf E. unfold PrModes.is_open in Hclosed.
      pose proof (del_existsb_false _ _ Hclosed f Hf) as H. cbv beta in H.
      rewrite (of_vol _ _ _ _ (ofile_of _ _ _ _ _ _ _ _ Hat f Hf)), N.eqb_refl in H.
      unfold slot_key in E. injection E as E1 E2. destruct Hpos as [P1 P2].
      rewrite E1, E2, P1, P2, !N.eqb_refl in H. discriminate H. }
    assert (Hnfat : ~ fat_area v blk) by exact (asm_nfat _ _ _ _ _ _ _ _ Hat blk Hblk).
    assert (Hfat2 : forall j, fat_area v j -> disk_get (s_disk s2) j = disk_get (s_disk s1) j)
      by exact (kill_fat (s_disk s1) (s_disk s2) v blk i _ Hsw Hnfat).
    assert (Hvols2 : s_vols s2 = [v]) by (rewrite (proj1 Hm2); exact Ev).
    assert (Hwf2 : blocks_wf (s_disk s2)).
    { rewrite Hd2. apply blocks_wf_set; [exact Hwf|]. rewrite set_bytes_length; [apply Hwf|].
      rewrite (Hwf blk). cbn [length]. lia. }
    assert (Hst2 : st_ok 0 v fsz s2).
    { split; [exact Hnf2|]. split; [exact Hc2|]. split; [rewrite Hvols2; reflexivity|]. intros k _. apply Hwf2. }
    assert (Hpre2 : alloc_pre s2 0 v fsz) by (split; [exact Hst2|]; split; [exact L|exact (proj2 (proj2 Hpre))]).
    assert (W2 : fat_wf (s_disk s2) v (heads v T ++ pend_of s1 v)) by exact (fat_wf_ext (s_disk s1) _ v _ Hfat2 W).
    assert (Hrep' := Hrep). apply node_rep_file in Hrep'. destruct Hrep' as (_ & _ & Hec).
    assert (Hnm : e_name e1 = sfn) by exact Hname.
    exists blk, i, ch.
    destruct Hec as [(Hge & fu & Hch)|(Hlt & ->)].
    - (* a file with a chain *)
      destruct (chain_at_head _ _ _ _ (chain_at_any _ _ _ _ _ Hch)) as (rest & ->).
      set (h := e_cluster e1) in *.
      assert (Hch2 : chain_of (s_disk s2) v h fu = Some (h :: rest)) by (rewrite (chain_of_ext (s_disk s1) _ v Hfat2); exact Hch).
      assert (Hheads : node_heads (NFile e1 (h :: rest)) = [h]).
      { cbn [node_heads]. fold h. apply N.leb_le in Hge. rewrite Hge. reflexivity. }
      assert (Hh : In h (heads v T ++ pend_of s1 v)).
      { apply in_or_app. left. unfold heads. apply in_or_app. right.
        apply (own_head_in T _ h Hn0). change (own_head (NFile e1 (h :: rest))) with (node_heads (NFile e1 (h :: rest))).
        rewrite Hheads. left. reflexivity. }
      destruct (C03_free_chain_wf 0 v fsz s2 _ h rest Hpre2 W2 Hh (chain_at_any _ _ _ _ _ Hch2))
        as (s' & Hrun3 & Wn & Hoth & Hfreed & Hpre3).
      destruct (free_cluster_chain_effect 0 v fsz s2 h rest fu L Hst2 Hch2) as (sx & Hrunx & Heff).
      rewrite Hrun3 in Hrunx. injection Hrunx as <-.
      destruct (free_chain_count_delta 0 v fsz s2 h rest fu Hpre2 Hch2) as (sy & Hruny & Hcount & _ & G & _ & Hfree & _).
      rewrite Hrun3 in Hruny. injection Hruny as <-.
      destruct G as (nf & fc & Ev').
      change (set_v_free (set_v_next_free v nf) fc) with (vol_rebook v nf fc) in Ev'.
      assert (Hchains : forall h2 ch2, In h2 (heads v (prune_list blk (i * 32) T) ++ pend_of s1 v) ->
                chain_at (s_disk s2) v h2 ch2 -> chain_at (s_disk s') v h2 ch2).
      { intros h2 ch2 Hh2 Hc2'. apply (asm_heads_in fsz vid s1 0 v bl rch T Hat blk i e1 (h :: rest) Hn0 Hpos) in Hh2.
        destruct Hh2 as (A & B). apply (Hoth h2 ch2 A); [|exact Hc2'].
        intros ->. apply B. rewrite Hheads. left. reflexivity. }
      assert (Htabs : same_tabs s1 s') by exact (same_tabs_trans _ _ _ (same_mgr_tabs _ _ Hm2) (fe_tabs _ _ _ _ _ _ _ Heff)).
      exists s'. split; [rewrite (bind_ok _ _ _ _ _ Hrun2); exact Hrun3|]. constructor.
      + split; [exact Hi|exact Hblk].
      + exists e1. split; [exact Hn0|]. split; [reflexivity|]. split; [reflexivity|exact Hnm].
      + exact Hnopen.
      + exists (s_disk s2), nf, fc. split; [exact Hsw|]. split; [exact (fe_frame _ _ _ _ _ _ _ Heff)|].
        split; [exact (proj1 (proj2 Htabs))|].
        assert (Hvols' : s_vols s' = [vol_rebook v nf fc]).
        { rewrite (fe_vols _ _ _ _ _ _ _ Heff), Hvols2. cbn [list_set]. rewrite Ev'. reflexivity. }
        split.
        * apply (asm_inv fsz vid s1 0 v bl rch T Hat blk i e1 (h :: rest) (s_disk s2) Hsw He0 Hdot Hblk Hn0 Hpos Hnopen s' nf fc).
          -- exact Htabs.
          -- exact Hvols'.
          -- rewrite <- Ev'. exact Hpre3.
          -- rewrite (tr_ext_disk _ _ _ (fe_trace _ _ _ _ _ _ _ Heff)).
             apply blocks_wf_apply; [exact Hwf2|]. apply fat_updates_len. exact Hwf2.
          -- exact (fe_frame _ _ _ _ _ _ _ Heff).
          -- exact Hchains.
          -- apply (del_fat_wf_set _ v (remove N.eq_dec h (heads v T ++ pend_of s1 v))); [| |exact Wn].
             ++ exact (asm_heads_nodup fsz vid s1 0 v bl rch T Hat blk i).
             ++ intros x. rewrite (asm_heads_in fsz vid s1 0 v bl rch T Hat blk i e1 (h :: rest) Hn0 Hpos x), Hheads.
                split.
                ** intros (A & B). apply in_in_remove; [|exact A]. intros ->. apply B. left. reflexivity.
                ** intros H. apply in_remove in H. destruct H as [A B]. split; [exact A|].
                   intros [E|[]]. apply B. symmetry. exact E.
        * exact (asm_fchain fsz vid s1 0 v bl rch T Hat blk i e1 (h :: rest) (s_disk s2) Hsw Hblk Hn0 Hpos Hnopen s' nf fc Hchains).
    - (* an empty file: nothing to free *)
      pose proof (vol_rebook_self v) as Ev'.
      assert (Hheads : node_heads (NFile e1 []) = []).
      { cbn [node_heads]. apply N.leb_gt in Hlt. rewrite Hlt. reflexivity. }
      exists s2. split; [rewrite (bind_ok _ _ _ _ _ Hrun2); exact (free_reserved 0 _ s2 Hlt)|]. constructor.
      + split; [exact Hi|exact Hblk].
      + exists e1. split; [exact Hn0|]. split; [reflexivity|]. split; [reflexivity|exact Hnm].
      + exact Hnopen.
      + exists (s_disk s2), (v_next_free v), (v_free v). split; [exact Hsw|]. split; [intros j _; reflexivity|].
        split; [exact (proj1 (proj2 (same_mgr_tabs _ _ Hm2)))|].
        split.
        * apply (asm_inv fsz vid s1 0 v bl rch T Hat blk i e1 [] (s_disk s2) Hsw He0 Hdot Hblk Hn0 Hpos Hnopen s2).
          -- exact (same_mgr_tabs _ _ Hm2).
          -- rewrite <- Ev'. exact Hvols2.
          -- rewrite <- Ev'. exact Hpre2.
          -- exact Hwf2.
          -- intros j _. reflexivity.
          -- intros h2 ch2 _ H. exact H.
          -- apply (del_fat_wf_set _ v (heads v T ++ pend_of s1 v)); [| |exact W2].
             ++ exact (asm_heads_nodup fsz vid s1 0 v bl rch T Hat blk i).
             ++ intros x. rewrite (asm_heads_in fsz vid s1 0 v bl rch T Hat blk i e1 [] Hn0 Hpos x), Hheads.
                split; [intros (A & _); exact A|intros A; split; [exact A|intros []]].
        * exact (asm_fchain fsz vid s1 0 v bl rch T Hat blk i e1 [] (s_disk s2) Hsw Hblk Hn0 Hpos Hnopen s2
                   (v_next_free v) (v_free v) (fun h2 ch2 _ H => H)).
Qed.

(* ---- 1b. every outcome of the call (PrGlobalDelete.del_cases with the lookup kept) ---- *)
Definition cdel_deleted (fsz vid : N) (s : st) (v : vol) (bl rch : list N) (T : list node) (name : list N)
    (r : outcome res) (s' : st) : Prop :=
  r = Ok RUnit /\
  exists s1 sfn blk i ch, ro_step s s1 /\ sfn_of_str name = Some sfn /\
    fs_inv_at fsz vid s1 0 v bl rch T /\ cdel_done fsz vid s1 v bl rch T sfn blk i ch s'.

Theorem cdel_cases fsz vid s vi v bl rch T d name r s' :
  fs_inv_at fsz vid s vi v bl rch T -> op_name_ok (Delete d name) -> step (Delete d name) s = (r, s') ->
  del_refused s r s' \/ cdel_deleted fsz vid s v bl rch T name r s'.
Proof.
  intros Hat Hname Hs. cbn [step] in Hs.
  destruct (del_facts _ _ _ _ _ _ _ _ Hat) as (Hl & Hnf & Hc & Ev & E0 & Hv0 & Hvok & _). subst vi.
  pose proof (del_ro_refl s Hnf Hc) as Hrefl.
  destruct (del_resolve _ _ _ _ _ _ _ _ d Hat) as [Hno|di dd H1 H2 Hne H3|di dd Hres Hvol Hdir].
  - destruct (PrHandles.C08_stale_dir_handle d s Hl Hno) as (_ & _ & _ & E1 & _). specialize (E1 name). cbn [step] in E1.
    rewrite E1 in Hs. injection Hs as <- <-. left. exists BadHandle. split; [reflexivity|]. split; [left; reflexivity|exact Hrefl].
  - assert (E : delete_file_in_dir d name s = (Err BadHandle, s)).
    { unfold delete_file_in_dir. rewrite (PrHandles.locked_free _ s Hl).
      rewrite (bind_ok _ _ _ _ _ H1), (bind_ok _ _ _ _ _ H2). apply bind_err. exact H3. }
    rewrite (lift_err' _ _ _ _ _ E) in Hs. injection Hs as <- <-.
    left. exists BadHandle. split; [reflexivity|]. split; [left; reflexivity|exact Hrefl].
  - pose proof Hres as (_ & H1 & H2 & H3 & H4).
    destruct (sfn_of_str name) as [sfn|] eqn:Hsfn.
    2:{ assert (E : delete_file_in_dir d name s = (Err FilenameError, s)).
      { unfold delete_file_in_dir. rewrite (PrHandles.locked_free _ s Hl).
        rewrite (bind_ok _ _ _ _ _ H1), (bind_ok _ _ _ _ _ H2), (bind_ok _ _ _ _ _ H3), Hsfn. reflexivity. }
      rewrite (lift_err' _ _ _ _ _ E) in Hs. injection Hs as <- <-.
      left. exists FilenameError. split; [reflexivity|]. split; [right; left; reflexivity|exact Hrefl]. }
    pose proof (del_sfn_shape name sfn Hsfn) as Hshape.
    assert (H229 : get8 sfn 0 <> 229).
    { cbn [op_name_ok] in Hname. unfold e5_name in Hname. rewrite Hsfn in Hname. apply N.eqb_neq. exact Hname. }
    destruct (del_ctx_of _ _ _ _ _ _ _ _ (d_cluster dd) Hat Hdir) as (bl' & parent & kids & Hctx).
    destruct (C06_find 0 v (d_cluster dd) sfn s bl' Hv0 Hvok Hnf Hc (dx_blocks _ _ _ _ _ _ _ Hctx)) as (s1 & Hrun & Hro).
    pose proof (PrModes.find_directory_entry_reads_only _ _ _ _ _ _ Hrun) as Hrd.
    assert (Hro' : ro_step s s1) by exact Hro.
    pose proof (del_ro _ _ _ _ _ _ _ _ _ Hat Hro') as Hat1.
    destruct Hro as (Hd1 & _ & _ & Hm1).
    assert (Hvols1 : s_vols s1 = s_vols s) by exact (proj1 Hm1).
    destruct (find (t_matches sfn) (live_in_blocks (s_disk s) bl')) as [t|] eqn:Hfind.
    + set (e := t_entry (v_fat32 v) t) in *.
      destruct (is_directory (e_attr e)) eqn:Hisdir.
      * destruct (PrModes.C07_delete_refusals s d di dd 0 v name sfn (Ok e) s1 DeleteDirAsFile Hres Hsfn Hrun) as (E & _).
        { cbn [PrModes.delete_refusal]. rewrite Hisdir. reflexivity. }
        rewrite (lift_err' _ _ _ _ _ E) in Hs. injection Hs as <- <-.
        left. exists DeleteDirAsFile. split; [reflexivity|]. split; [cbn [In]; tauto|]. split; assumption.
      * destruct (PrModes.is_open s1 (d_vol dd) e) eqn:Hopen.
        -- destruct (PrModes.C07_delete_refusals s d di dd 0 v name sfn (Ok e) s1 FileAlreadyOpen Hres Hsfn Hrun) as (E & _).
           { cbn [PrModes.delete_refusal PrModes.found_open]. rewrite Hisdir, Hopen. reflexivity. }
           rewrite (lift_err' _ _ _ _ _ E) in Hs. injection Hs as <- <-.
           left. exists FileAlreadyOpen. split; [reflexivity|]. split; [cbn [In]; tauto|]. split; assumption.
        -- assert (Hv1 : get_volume_by_id (d_vol dd) s1 = (Ok 0%nat, s1)).
           { rewrite (del_vol_lookup s1 v (d_vol dd) ltac:(rewrite Hvols1; exact Ev)).
             rewrite Hvol, N.eqb_refl. reflexivity. }
           pose proof (del_run_success s d di dd v name sfn e s1 Hres Hsfn Hrun Hisdir Hopen Hv1) as Erun.
           assert (Hctx1 : del_ctx (s_disk s1) v T (d_cluster dd) bl' parent kids) by (rewrite Hd1; exact Hctx).
           assert (Hfind1 : find (t_matches sfn) (live_in_blocks (s_disk s1) bl') = Some t) by (rewrite Hd1; exact Hfind).
           rewrite Hvol in Hopen.
           destruct (cdel_core fsz vid s1 v bl rch T (d_cluster dd) bl' parent kids sfn t Hat1 Hctx1 Hshape H229 Hfind1 Hisdir Hopen)
             as (blk & i & ch & s2 & Drun & Hdone).
           fold e in Drun. rewrite Drun in Erun. rewrite (lift_ok' _ _ _ _ _ Erun) in Hs. injection Hs as <- <-.
           right. split; [reflexivity|]. exists s1, sfn, blk, i, ch. split; [exact Hro'|]. split; [exact Hsfn|].
           split; [exact Hat1|exact Hdone].
    + destruct (PrModes.C07_delete_refusals s d di dd 0 v name sfn (Err NotFound) s1 NotFound Hres Hsfn Hrun) as (E & _);
        [reflexivity|].
      rewrite (lift_err' _ _ _ _ _ E) in Hs. injection Hs as <- <-.
      left. exists NotFound. split; [reflexivity|]. split; [cbn [In]; tauto|]. split; assumption.
Qed.

(* ---- 1c. the pruned tree: which nodes it has ---- *)
Lemma cd_keep_pos pb po n : keep pb po n = true <-> node_pos n <> (pb, po).
Proof.
  unfold keep, at_epos, node_pos. rewrite negb_true_iff, andb_false_iff, !N.eqb_neq. split.
  - intros [H|H] E; injection E as E1 E2; contradiction.
  - intros H. destruct (N.eq_dec (e_block (node_entry n)) pb) as [E1|E1]; [|left; exact E1].
    right. intros E2. apply H. rewrite E1, E2. reflexivity.
Qed.

Lemma cd_keep_dir pb po e ch k1 k2 : keep pb po (NDir e ch k1) = keep pb po (NDir e ch k2).
Proof. reflexivity. Qed.

(* every node of the pruned tree is a kept one *)
Lemma cd_prune_kept pb po :
  (forall m, keep pb po m = true -> forall n, In n (flatten (prune_node pb po m)) -> keep pb po n = true) /\
  (forall l n, In n (all_nodes (prune_list pb po l)) -> keep pb po n = true).
Proof.
  apply del_node_list_ind.
  - intros e ch Hk n [<-|[]]. exact Hk.
  - intros e ch kids IH Hk n Hn. rewrite prune_node_dir in Hn. cbn [flatten] in Hn. destruct Hn as [<-|Hn].
    + rewrite (cd_keep_dir pb po e ch _ kids). exact Hk.
    + exact (IH n Hn).
  - intros n [].
  - intros k l Hk Hl n Hn. rewrite prune_list_cons in Hn. destruct (keep pb po k) eqn:Ek.
    + unfold all_nodes in Hn. cbn [flat_map] in Hn. apply in_app_or in Hn. destruct Hn as [Hn|Hn].
      * exact (Hk eq_refl n Hn).
      * exact (Hl n Hn).
    + exact (Hl n Hn).
Qed.

Lemma cd_prune_no_pos pb po T n : In n (all_nodes (prune_list pb po T)) -> node_pos n <> (pb, po).
Proof. intros H. apply cd_keep_pos. exact (proj2 (cd_prune_kept pb po) T n H). Qed.

Definition cd_own_file (n : node) : list node := match n with NFile _ _ => [n] | NDir _ _ _ => [] end.
Definition cd_own_dir (n : node) : list (dirent * list N) := match n with NFile _ _ => [] | NDir e ch _ => [(e, ch)] end.

(* a file node of the pruned tree is a file node of the tree *)
Lemma cd_prune_file_sub pb po T e ch : In (NFile e ch) (all_nodes (prune_list pb po T)) -> In (NFile e ch) (all_nodes T).
Proof.
  intros H.
  assert (Hp : forall n, cd_own_file (prune_node pb po n) = cd_own_file n).
  { intros [e0 ch0|e0 ch0 k0]; [reflexivity|rewrite prune_node_dir; reflexivity]. }
  assert (H1 : In (NFile e ch) (flat_map cd_own_file (all_nodes (prune_list pb po T)))).
  { apply in_flat_map. exists (NFile e ch). split; [exact H|left; reflexivity]. }
  apply (proj2 (prune_own_sub pb po _ cd_own_file Hp (NFile e ch)) T) in H1.
  apply in_flat_map in H1. destruct H1 as (n & Hn & Hi). destruct n as [e0 ch0|e0 ch0 k0]; [|destruct Hi].
  destruct Hi as [<-|[]]. exact Hn.
Qed.

(* a directory node of the pruned tree is one of the tree, with the same entry and chain *)
Lemma cd_prune_dir_sub pb po T e ch kids : In (NDir e ch kids) (all_nodes (prune_list pb po T)) ->
  exists kids0, In (NDir e ch kids0) (all_nodes T).
Proof.
  intros H.
  assert (Hp : forall n, cd_own_dir (prune_node pb po n) = cd_own_dir n).
  { intros [e0 ch0|e0 ch0 k0]; [reflexivity|rewrite prune_node_dir; reflexivity]. }
  assert (H1 : In (e, ch) (flat_map cd_own_dir (all_nodes (prune_list pb po T)))).
  { apply in_flat_map. exists (NDir e ch kids). split; [exact H|left; reflexivity]. }
  apply (proj2 (prune_own_sub pb po _ cd_own_dir Hp (e, ch)) T) in H1.
  apply in_flat_map in H1. destruct H1 as (n & Hn & Hi). destruct n as [e0 ch0|e0 ch0 k0]; [destruct Hi|].
  destruct Hi as [E|[]]. injection E as -> ->. exists k0. exact Hn.
Qed.

(* ---- 1d. blocks: files and directories of a state with the invariant ---- *)
Lemma cd_blocks_share v ch1 ch2 j : Forall (fun x => 2 <= x) ch1 -> Forall (fun x => 2 <= x) ch2 ->
  In j (data_blocks v ch1) -> In j (data_blocks v ch2) -> exists x, In x ch1 /\ In x ch2.
Proof.
  intros H1 H2 J1 J2. apply mkd_in_data_blocks in J1. apply mkd_in_data_blocks in J2.
  destruct J1 as (x1 & X1 & J1). destruct J2 as (x2 & X2 & J2).
  destruct (N.eq_dec x1 x2) as [->|Ne]; [exists x2; split; assumption|exfalso].
  rewrite Forall_forall in H1, H2.
  exact (cluster_blocks_apart v x1 x2 j j Ne (H1 x1 X1) (H2 x2 X2) J1 J2 eq_refl).
Qed.

Lemma cd_chain_ge2 d v h ch : chain_at d v h ch -> Forall (fun x => 2 <= x) ch.
Proof. intros H. apply Forall_forall. intros x Hx. exact (proj1 (chain_at_mem _ _ _ _ x H Hx)). Qed.

Lemma cd_In_tslots_intro n b blk : forall i j, i <= j -> j < i + N.of_nat n -> In (blk, j * 32, slot b j) (tslots_from n b blk i).
Proof.
  induction n as [|n IH]; intros i j H1 H2; [lia|]. cbn [tslots_from].
  destruct (N.eq_dec i j) as [->|Ne]; [left; reflexivity|right]. apply IH; lia.
Qed.

Lemma cd_slot_in d bl b i : In b bl -> i < 16 -> In (b, i * 32, slot (disk_get d b) i) (slots_of d bl).
Proof.
  intros Hb Hi. unfold slots_of. apply in_flat_map. exists b. split; [exact Hb|]. unfold block_slots.
  apply cd_In_tslots_intro; [lia|]. change (N.of_nat 16) with 16. lia.
Qed.

Lemma cd_slot_key_in d bl b i : In b bl -> i < 16 -> In (b, i * 32) (map fst (slots_of d bl)).
Proof.
  intros Hb Hi. apply in_map_iff. exists (b, i * 32, slot (disk_get d b) i). split; [reflexivity|].
  exact (cd_slot_in d bl b i Hb Hi).
Qed.

Section Blocks.
  Variables (fsz vid : N) (s : st) (vi : nat) (v : vol) (bl rch : list N) (T : list node).
  Hypothesis Hat : fs_inv_at fsz vid s vi v bl rch T.
  Local Notation d := (s_disk s).
  Local Notation hs := (heads v T ++ pend_of s v).

  Let HD := fi_disk _ _ _ _ _ _ _ _ Hat.
  Let PL := fi_layout _ _ _ _ _ _ _ _ Hat.
  Let W := di_wf _ _ _ _ _ _ HD.

  (* the chain of a file node *)
  Lemma cd_file_chain e ch : In (NFile e ch) (all_nodes T) ->
    ch = [] \/ (2 <= e_cluster e /\ chain_at d v (e_cluster e) ch /\ In (e_cluster e) hs).
  Proof.
    intros Hn. destruct (all_nodes_rep d v bl T (di_tree _ _ _ _ _ _ HD) _ Hn) as (t & bl0 & Hr & _).
    apply node_rep_file in Hr. destruct Hr as (_ & _ & [(C1 & fu & C2)|(_ & ->)]); [right|left; reflexivity].
    split; [exact C1|]. split; [exact (chain_at_any _ _ _ _ _ C2)|].
    apply in_or_app. left. unfold heads. apply in_or_app. right. apply (own_head_in T _ _ Hn).
    cbn [own_head]. apply N.leb_le in C1. rewrite C1. left. reflexivity.
  Qed.

  (* the blocks of the chain of a head of the invariant lie in the data area *)
  Lemma cd_chain_block_dir h ch j : chain_at d v h ch -> In j (data_blocks v ch) -> PrBounds.in_dir v j.
  Proof. apply del_chain_blocks_in_dir. Qed.

  Lemma cd_dir_block_dir dc bld chd j : is_dir_of v bl rch T dc bld chd -> In j bld -> PrBounds.in_dir v j.
  Proof.
    intros [(_ & -> & _)|(e & kids & Hn & _ & ->)] Hj.
    - apply (del_tree_block_in_dir d v bl rch T j (di_root _ _ _ _ _ _ HD) (di_tree _ _ _ _ _ _ HD)).
      unfold tree_dir_blocks. apply in_or_app. left. exact Hj.
    - destruct (dir_node_chain d v bl rch T _ HD e chd kids Hn) as (Hch & _). exact (cd_chain_block_dir _ _ j Hch Hj).
  Qed.

  (* a block of the directory blocks of the tree belongs to a directory *)
  Lemma cd_block_dir blk : In blk (tree_dir_blocks v bl T) -> exists dc bld chd, is_dir_of v bl rch T dc bld chd /\ In blk bld.
  Proof.
    intros H. unfold tree_dir_blocks in H. apply in_app_or in H. destruct H as [H|H].
    - exists CL_ROOT, bl, rch. split; [left; repeat split|exact H].
    - destruct (proj2 (del_node_dir_blocks_in v blk) T H) as (e & ch & ks & Hn & Hb).
      exists (e_cluster e), (data_blocks v ch), ch. split; [right; exists e, ks; repeat split; exact Hn|exact Hb].
  Qed.

  (* no block of a directory is a block of a file of the tree or of the chain of an open file *)
  Lemma cd_dir_file_apart dc bld chd j : is_dir_of v bl rch T dc bld chd -> In j bld ->
    (forall e ch, In (NFile e ch) (all_nodes T) -> ~ In j (data_blocks v ch)) /\
    (forall f, In f (s_files s) -> ~ In j (data_blocks v (fchain d v f))).
  Proof.
    intros Hdir Hj.
    assert (Hopen_ge : forall f, In f (s_files s) -> Forall (fun x => 2 <= x) (fchain d v f)).
    { intros f Hf. unfold fchain. destruct (N.ltb_spec (e_cluster (f_entry f)) 2) as [H|H]; [constructor|].
      exact (cd_chain_ge2 d v _ _ (wf_l_def d v _ _ W (ofile_in_hs _ _ _ _ _ _ _ _ Hat f Hf H))). }
    assert (Hfile_ge : forall e ch, In (NFile e ch) (all_nodes T) -> Forall (fun x => 2 <= x) ch).
    { intros e ch Hn. destruct (cd_file_chain e ch Hn) as [->|(_ & Hc & _)]; [constructor|exact (cd_chain_ge2 _ _ _ _ Hc)]. }
    (* the directory is a chain with head h *)
    assert (Hchain : forall h, (In h (root_heads v) \/ exists e ch kids, In (NDir e ch kids) (all_nodes T) /\ e_cluster e = h) ->
              In h hs -> chain_at d v h chd -> bld = data_blocks v chd ->
              (forall e ch, In (NFile e ch) (all_nodes T) -> ~ In j (data_blocks v ch)) /\
              (forall f, In f (s_files s) -> ~ In j (data_blocks v (fchain d v f)))).
    { intros h Hpc Hh Hch Eb. rewrite Eb in Hj. split.
      - intros e ch Hn Hj'. destruct (cd_file_chain e ch Hn) as [->|(C1 & Hc & Hin)]; [destruct Hj'|].
        destruct (cd_blocks_share v chd ch j (cd_chain_ge2 _ _ _ _ Hch) (cd_chain_ge2 _ _ _ _ Hc) Hj Hj') as (x & X1 & X2).
        pose proof (wf_disj _ _ _ W h (e_cluster e) chd ch x Hh Hin Hch Hc X1 X2) as E.
        apply in_flat_map in Hn. destruct Hn as (k & Hk & Hn).
        exact (iv_file_not_pc _ _ _ _ _ _ _ _ Hat h (or_intror Hpc) k Hk e ch Hn C1 (eq_sym E)).
      - intros f Hf Hj'.
        destruct (cd_blocks_share v chd _ j (cd_chain_ge2 _ _ _ _ Hch) (Hopen_ge f Hf) Hj Hj') as (x & X1 & X2).
        apply (dir_chain_apart _ _ _ _ _ _ _ _ Hat h f Hpc Hf x); [|exact X2].
        rewrite (chain_l_at _ _ _ _ Hch). exact X1. }
    pose proof (di_root _ _ _ _ _ _ HD) as Hroot. unfold root_dir in Hroot.
    destruct Hdir as [(_ & -> & ->)|(e & kids & Hn & <- & ->)].
    - destruct (v_fat32 v) eqn:E32.
      + destruct Hroot as (Hch & Ebl).
        assert (Hrh : In (v_root_cluster v) (root_heads v)) by (unfold root_heads; rewrite E32; left; reflexivity).
        apply (Hchain (v_root_cluster v) (or_introl Hrh)); [|exact Hch|exact Ebl].
        apply in_or_app. left. unfold heads. apply in_or_app. left. exact Hrh.
      + destruct Hroot as (_ & Ebl). rewrite Ebl in Hj.
        assert (G : forall ch, Forall (fun x => 2 <= x) ch -> ~ In j (data_blocks v ch)).
        { intros ch Hge Hj'. apply mkd_in_data_blocks in Hj'. destruct Hj' as (x & Hx & Hjx).
          rewrite Forall_forall in Hge. exact (root16_no_cluster _ _ _ _ _ _ _ _ Hat j x E32 Hj (Hge x Hx) Hjx). }
        split; [intros e ch Hn; exact (G ch (Hfile_ge e ch Hn))|intros f Hf; exact (G _ (Hopen_ge f Hf))].
    - destruct (dir_node_chain d v bl rch T _ HD e chd kids Hn) as (Hch & Hin & _).
      apply (Hchain (e_cluster e)); [right; exists e, chd, kids; split; [exact Hn|reflexivity]|exact Hin|exact Hch|reflexivity].
  Qed.
End Blocks.

(* ---- 1e. what a successful deletion shows ---- *)
(* the one slot that changes: the first byte of the old slot becomes 0xE5, the other 31 bytes stay *)
Definition delete_shape (a a' : obs) : Prop :=
  exists blk off old dc sl, dget dc (ob_dirs a) = Some sl /\ In (blk, off, old) sl /\
    dget dc (ob_dirs a') = Some (map (upd_slot blk off (set_bytes old 0 [229])) sl).

Lemma cdel_content fsz vid s1 v bl rch T name sfn blk i ch s' :
  fs_inv_at fsz vid s1 0 v bl rch T -> sfn_of_str name = Some sfn ->
  cdel_done fsz vid s1 v bl rch T sfn blk i ch s' ->
  exists a', observes fsz vid s' a' /\ delete_content name (Ok RUnit) (obs_at s1 v bl T) a' /\
    delete_shape (obs_at s1 v bl T) a'.
Proof.
  intros Hat Hsfn [(Hi & Hblk) (e1 & Hn0 & Eb & Eo & Enm) Hnopen (d1 & nf & fc & Hsw & Hfr & Efiles & Hat' & Hfch)].
  set (off := i * 32) in *. set (p := (blk, off)) in *. set (v' := vol_rebook v nf fc) in *.
  set (T1 := prune_list blk off T) in *.
  set (new := set_bytes (slot (disk_get (s_disk s1) blk) i) 0 [229]) in *.
  pose proof (fi_disk _ _ _ _ _ _ _ _ Hat) as HD. pose proof (fi_disk _ _ _ _ _ _ _ _ Hat') as HD'.
  pose proof (fi_layout _ _ _ _ _ _ _ _ Hat) as PL.
  pose proof (di_wf _ _ _ _ _ _ HD) as W.
  assert (Hpos : e_block e1 = blk /\ e_offset e1 = i * 32) by (split; assumption).
  assert (Ep : node_pos (NFile e1 ch) = p) by (unfold node_pos, p; cbn [node_entry]; rewrite Eb, Eo; reflexivity).
  assert (G : geo_eq v v') by (exists nf, fc; reflexivity).
  destruct (cd_block_dir v bl rch T blk Hblk) as (dc & bld & chd & Hdir & Hbin).
  (* the frame *)
  assert (Hframe1 : forall j, PrBounds.in_dir v j -> disk_get (s_disk s') j = disk_get d1 j).
  { intros j Hj. exact (Hfr j (del_in_dir_frame v fsz j PL Hj)). }
  assert (Hframe : forall j, PrBounds.in_dir v j -> j <> blk -> disk_get (s_disk s') j = disk_get (s_disk s1) j).
  { intros j Hj Hne. rewrite (Hframe1 j Hj). exact (proj1 Hsw j Hne). }
  (* the bytes of the files *)
  assert (Hfb : forall e ch0, In (NFile e ch0) (all_nodes T) -> file_bytes (s_disk s') v' ch0 = file_bytes (s_disk s1) v ch0).
  { intros e ch0 Hn. rewrite (file_bytes_geo _ v v' ch0 G). apply PrOpenClose.file_bytes_frame. intros j Hj.
    apply Hframe.
    - destruct (cd_file_chain _ _ _ _ _ _ _ _ Hat e ch0 Hn) as [->|(_ & Hc & _)]; [destruct Hj|].
      exact (cd_chain_block_dir s1 v _ _ j Hc Hj).
    - intros ->. exact (proj1 (cd_dir_file_apart _ _ _ _ _ _ _ _ Hat dc bld chd blk Hdir Hbin) e ch0 Hn Hj). }
  assert (Hfo : forall f, In f (s_files s1) ->
            file_bytes (s_disk s') v' (fchain (s_disk s1) v f) = file_bytes (s_disk s1) v (fchain (s_disk s1) v f)).
  { intros f Hf. rewrite (file_bytes_geo _ v v' _ G). apply PrOpenClose.file_bytes_frame. intros j Hj.
    apply Hframe.
    - unfold fchain in Hj. destruct (N.ltb_spec (e_cluster (f_entry f)) 2) as [H|H]; [destruct Hj|].
      exact (cd_chain_block_dir s1 v _ _ j (wf_l_def _ _ _ _ W (ofile_in_hs _ _ _ _ _ _ _ _ Hat f Hf H)) Hj).
    - intros ->. exact (proj2 (cd_dir_file_apart _ _ _ _ _ _ _ _ Hat dc bld chd blk Hdir Hbin) f Hf Hj). }
  (* the file nodes *)
  assert (Hkeepn : forall n, In n (all_nodes T) -> node_pos n <> p -> In (prune_node blk off n) (all_nodes T1)).
  { intros n Hn Hq. apply (asm_kept fsz vid s1 0 v bl rch T Hat blk i e1 ch Hn0 Hpos n Hn). apply cd_keep_pos. exact Hq. }
  assert (Hiff : forall q, q <> p -> forall e ch0, node_pos (NFile e ch0) = q ->
            (In (NFile e ch0) (all_nodes T1) <-> In (NFile e ch0) (all_nodes T))).
  { intros q Hq e ch0 Eq. split; [apply cd_prune_file_sub|]. intros Hn.
    apply (Hkeepn (NFile e ch0) Hn). rewrite Eq. exact Hq. }
  assert (Hmem : forall e ch0, In (NFile e ch0) (all_nodes T) -> mem_item s' v' (NFile e ch0) = mem_item s1 v (NFile e ch0)).
  { intros e ch0 Hn. unfold mem_item, open_at. rewrite Efiles.
    destruct (find (fun f => pos_eqb (slot_key f) (node_pos (NFile e ch0))) (s_files s1)) as [f|] eqn:Ef.
    - destruct (find_some _ _ Ef) as (Hf & _). unfold mem_fv. rewrite (Hfch f Hf), (Hfo f Hf). reflexivity.
    - unfold disk_fv. cbn [node_entry node_chain]. rewrite (Hfb e ch0 Hn). reflexivity. }
  assert (Hdsk : forall e ch0, In (NFile e ch0) (all_nodes T) -> disk_fv (s_disk s') v' (NFile e ch0) = disk_fv (s_disk s1) v (NFile e ch0)).
  { intros e ch0 Hn. unfold disk_fv. cbn [node_entry node_chain]. rewrite (Hfb e ch0 Hn). reflexivity. }
  (* the directories *)
  assert (Hslots : forall c0 bld0 chd0, is_dir_of v bl rch T c0 bld0 chd0 ->
            slots_of (s_disk s') bld0 = map (upd_slot blk off new) (slots_of (s_disk s1) bld0)).
  { intros c0 bld0 chd0 Hd0. unfold off. rewrite <- (slots_of_upd (s_disk s1) d1 blk i new bld0 Hsw).
    apply slots_of_ext. intros j Hj. apply Hframe1. exact (cd_dir_block_dir _ _ _ _ _ _ _ _ Hat c0 bld0 chd0 j Hd0 Hj). }
  assert (Hfwd : forall c0 bld0 chd0, is_dir_of v bl rch T c0 bld0 chd0 -> is_dir_of v' bl rch T1 c0 bld0 chd0).
  { intros c0 bld0 chd0 [H|(e & kids & Hn & Ec & Ebld)]; [left; exact H|right].
    exists e, (prune_list blk off kids). split; [|split; [exact Ec|rewrite (data_blocks_geo v v' chd0 G); exact Ebld]].
    rewrite <- prune_node_dir. apply (Hkeepn _ Hn). intros E.
    pose proof (pos_unique _ _ _ (di_pos _ _ _ _ _ _ HD) Hn Hn0 (eq_trans E (eq_sym Ep))) as X. discriminate X. }
  assert (Hbwd : forall c0 bld0 chd0, is_dir_of v' bl rch T1 c0 bld0 chd0 -> is_dir_of v bl rch T c0 bld0 chd0).
  { intros c0 bld0 chd0 [H|(e & kids & Hn & Ec & Ebld)]; [left; exact H|right].
    destruct (cd_prune_dir_sub blk off T e chd0 kids Hn) as (kids0 & Hn').
    exists e, kids0. split; [exact Hn'|]. split; [exact Ec|]. rewrite <- (data_blocks_geo v v' chd0 G). exact Ebld. }
  assert (Hdirs : forall c, dget c (dir_view (s_disk s') v' bl T1) =
            option_map (map (upd_slot blk off new)) (dget c (dir_view (s_disk s1) v bl T))).
  { intros c. destruct (dget c (dir_view (s_disk s1) v bl T)) as [sl|] eqn:E; cbn [option_map].
    - destruct (dget_dir_view_inv v bl rch T _ c sl E) as (bld0 & chd0 & Hd0 & ->).
      rewrite (dget_dir_view _ _ _ _ _ _ _ _ Hat' (s_disk s') c bld0 chd0 (Hfwd _ _ _ Hd0)).
      rewrite (Hslots c bld0 chd0 Hd0). reflexivity.
    - destruct (dget c (dir_view (s_disk s') v' bl T1)) as [sl'|] eqn:E'; [exfalso|reflexivity].
      destruct (dget_dir_view_inv v' bl rch T1 _ c sl' E') as (bld0 & chd0 & Hd0 & _).
      rewrite (dget_dir_view _ _ _ _ _ _ _ _ Hat (s_disk s1) c bld0 chd0 (Hbwd _ _ _ Hd0)) in E. discriminate E. }
  exists (obs_at s' v' bl T1). split; [exact (observes_at _ _ _ _ _ _ _ _ Hat')|].
  split.
  { cbn [delete_content]. split; [reflexivity|].
    exists sfn, p, (disk_fv (s_disk s1) v (NFile e1 ch)). cbn [obs_at ob_mem ob_disk ob_dirs ob_handles].
    split; [exact Hsfn|]. split.
    { rewrite <- Ep. apply (vget_mem_closed _ _ _ _ _ _ _ _ Hat e1 ch Hn0). intros f Hf. rewrite Ep. exact (Hnopen f Hf). }
    split; [exact Enm|]. split; [exact (cd_not_open _ _ _ _ _ _ _ _ p Hat Hnopen)|].
    split; [unfold mem_view; apply cd_vget_gone; intros e ch0 Hn; exact (cd_prune_no_pos blk off T _ Hn)|].
    split; [unfold disk_view; apply cd_vget_gone; intros e ch0 Hn; exact (cd_prune_no_pos blk off T _ Hn)|].
    split.
    { intros q Hq. cbn [obs_at ob_mem ob_disk]. unfold mem_view, disk_view. split.
      - apply cd_vget_transfer; [exact (di_pos _ _ _ _ _ _ HD)|exact (di_pos _ _ _ _ _ _ HD')|exact (Hiff q Hq)|].
        intros e ch0 Hn _. exact (Hmem e ch0 Hn).
      - apply cd_vget_transfer; [exact (di_pos _ _ _ _ _ _ HD)|exact (di_pos _ _ _ _ _ _ HD')|exact (Hiff q Hq)|].
        intros e ch0 Hn _. exact (Hdsk e ch0 Hn). }
    split.
    { exists dc, (slots_of (s_disk s1) bld), [], new. cbn [obs_at ob_dirs]. rewrite app_nil_r. unfold p. cbn [fst snd].
      split; [exact (dget_dir_view _ _ _ _ _ _ _ _ Hat (s_disk s1) dc bld chd Hdir)|].
      split; [exact (cd_slot_key_in (s_disk s1) bld blk i Hbin Hi)|]. split; [constructor|]. split; [reflexivity|].
      split.
      - rewrite (Hdirs dc), (dget_dir_view _ _ _ _ _ _ _ _ Hat (s_disk s1) dc bld chd Hdir). reflexivity.
      - intros c Hc. rewrite (Hdirs c). destruct (dget c (dir_view (s_disk s1) v bl T)) as [sl|] eqn:E; [|reflexivity].
        cbn [option_map]. f_equal. destruct (dget_dir_view_inv v bl rch T _ c sl E) as (bld0 & chd0 & Hd0 & ->).
        apply cd_map_upd_other. intros Hin. apply cd_slot_key_block in Hin. cbn [fst] in Hin.
        apply Hc. exact (dirs_apart _ _ _ _ _ _ _ _ HD PL c dc bld0 bld chd0 chd blk Hd0 Hdir Hin Hbin). }
    exact (cd_handles_same s1 s' Efiles). }
  exists blk, off, (slot (disk_get (s_disk s1) blk) i), dc, (slots_of (s_disk s1) bld). cbn [obs_at ob_dirs].
  split; [exact (dget_dir_view _ _ _ _ _ _ _ _ Hat (s_disk s1) dc bld chd Hdir)|].
  split; [exact (cd_slot_in (s_disk s1) bld blk i Hbin Hi)|].
  rewrite (Hdirs dc), (dget_dir_view _ _ _ _ _ _ _ _ Hat (s_disk s1) dc bld chd Hdir). reflexivity.
Qed.

(* ---- 1f. step_content (Delete d name) ---- *)
(* every outcome: the obligation, and for the success the bytes of the slot that changed *)
Theorem content_Delete_shape fsz vid d name s r s' a :
  fs_inv fsz vid s -> op_known_ok (Delete d name) -> step (Delete d name) s = (r, s') -> observes fsz vid s a ->
  exists a', observes fsz vid s' a' /\ delete_content name r a a' /\ (r = Ok RUnit -> delete_shape a a').
Proof.
  intros Hinv Hknown Hs Ho.
  pose proof Ho as (vi & v & bl & rch & T & Hat & Ea).
  destruct (cdel_cases fsz vid s vi v bl rch T d name r s' Hat (proj2 Hknown) Hs)
    as [(e & -> & _ & Hro & _)|(-> & s1 & sfn & blk & i & ch & Hro & Hsfn & Hat1 & Hdone)].
  - exists a. split; [exact (cd_ro_same fsz vid s s' a Ho Hro)|]. split; [reflexivity|intros X; discriminate X].
  - pose proof (cd_ro_same fsz vid s s1 a Ho Hro) as Ho1.
    rewrite (observes_at_inv _ _ _ _ _ _ _ _ _ Ho1 Hat1).
    destruct (cdel_content fsz vid s1 v bl rch T name sfn blk i ch s' Hat1 Hsfn Hdone) as (a' & Ho' & Hrel & Hshape).
    exists a'. split; [exact Ho'|]. split; [exact Hrel|intros _; exact Hshape].
Qed.

Theorem content_Delete fsz vid d name : step_content fsz vid (Delete d name).
Proof.
  intros s r s' a Hinv _ Hknown Hs Ho. cbn [content_rel].
  destruct (content_Delete_shape fsz vid d name s r s' a Hinv Hknown Hs Ho) as (a' & Ho' & Hrel & _).
  exists a'. split; [exact Ho'|exact Hrel].
Qed.

Print Assumptions content_Delete.
Print Assumptions content_Delete_shape.

(* ================================================================== 2. Mkdir *)
(* ---- 2a. zero slots ---- *)
Lemma cd_slot_zero k : k < 16 -> slot zero_block k = repeat 0 32.
Proof.
  intros Hk. pose proof zero_block_length as Hz.
  assert (L : length (slot zero_block k) = length (repeat 0 32)).
  { rewrite slot_length, repeat_length; [reflexivity|]. rewrite Hz. lia. }
  apply (nth_ext _ _ 0 0 L). intros n Hn. rewrite L, repeat_length in Hn.
  rewrite nth_slot by exact Hn. rewrite get8_zero. symmetry. apply nth_repeat0.
Qed.

(* ---- 2b. the tree afterwards: the old nodes plus one new directory node ---- *)
Definition tree_plus (T T' : list node) (newn : node) : Prop :=
  forall (X : Type) (g : node -> list X),
    (forall e ch kids ch' kids', g (NDir e ch kids) = g (NDir e ch' kids')) ->
    Permutation (flat_map g (all_nodes T')) (g newn ++ flat_map g (all_nodes T)).

Definition cd_own_ent (n : node) : list dirent := match n with NFile _ _ => [] | NDir e _ _ => [e] end.

Lemma cd_own_file_in L e ch : In (NFile e ch) (flat_map cd_own_file L) <-> In (NFile e ch) L.
Proof.
  split.
  - intros H. apply in_flat_map in H. destruct H as (n & Hn & Hi). destruct n as [e0 ch0|e0 ch0 k0]; [|destruct Hi].
    destruct Hi as [<-|[]]. exact Hn.
  - intros H. apply in_flat_map. exists (NFile e ch). split; [exact H|left; reflexivity].
Qed.

Lemma cd_own_ent_in L e : In e (flat_map cd_own_ent L) <-> exists ch kids, In (NDir e ch kids) L.
Proof.
  split.
  - intros H. apply in_flat_map in H. destruct H as (n & Hn & Hi). destruct n as [e0 ch0|e0 ch0 k0]; [destruct Hi|].
    destruct Hi as [<-|[]]. exists ch0, k0. exact Hn.
  - intros (ch & kids & H). apply in_flat_map. exists (NDir e ch kids). split; [exact H|left; reflexivity].
Qed.

Lemma tree_plus_nodes T T' enew chn kn : tree_plus T T' (NDir enew chn kn) ->
  (forall e ch, In (NFile e ch) (all_nodes T') <-> In (NFile e ch) (all_nodes T)) /\
  (forall e, (exists ch kids, In (NDir e ch kids) (all_nodes T')) <->
             (e = enew \/ exists ch kids, In (NDir e ch kids) (all_nodes T))).
Proof.
  intros P. split.
  - intros e ch. pose proof (P _ cd_own_file (fun _ _ _ _ _ => eq_refl)) as Q. cbn [cd_own_file app] in Q.
    rewrite <- (cd_own_file_in (all_nodes T') e ch), <- (cd_own_file_in (all_nodes T) e ch). split; intros H.
    + exact (Permutation_in _ Q H).
    + exact (Permutation_in _ (Permutation_sym Q) H).
  - intros e. pose proof (P _ cd_own_ent (fun _ _ _ _ _ => eq_refl)) as Q. cbn [cd_own_ent app] in Q.
    rewrite <- (cd_own_ent_in (all_nodes T') e), <- (cd_own_ent_in (all_nodes T) e). split; intros H.
    + destruct (Permutation_in _ Q H) as [E|H']; [left; symmetry; exact E|right; exact H'].
    + apply (Permutation_in _ (Permutation_sym Q)). destruct H as [->|H]; [left; reflexivity|right; exact H].
Qed.

(* ---- 2c. make_dir, every outcome, with the new tree and the frame visible ---- *)
(* the blocks that are no FAT sectors, not blocks of a cluster that was free, and not the block
   `blk` of the parent's slot are as before *)
Definition mkx_frame (fsz : N) (v : vol) (d d' : disk) (blk : option N) : Prop :=
  forall j, ~ PrBounds.in_fat v fsz j ->
    (forall c0, 2 <= c0 -> fat_get d v 0 c0 = 0 -> ~ In j (cluster_blocks v c0)) ->
    (forall b, blk = Some b -> j <> b) -> disk_get d' j = disk_get d j.
(* every chain of the invariant but that of pcd is kept *)
Definition mkx_chains (s : st) (v : vol) (T : list node) (d' : disk) (pcd : N) : Prop :=
  forall h ch, In h (iv_hs s v T) -> h <> pcd -> chain_at (s_disk s) v h ch -> chain_at d' v h ch.
Definition mkx_pc_ok (v : vol) (T : list node) (pcd : N) : Prop :=
  pcd < 2 \/ In pcd (root_heads v) \/ exists e ch kids, In (NDir e ch kids) (all_nodes T) /\ e_cluster e = pcd.

Definition mkx_err (fsz vid : N) (s : st) (vi : nat) (v : vol) (bl rch : list N) (T : list node) (s' : st) (v' : vol) : Prop :=
  fs_inv_at fsz vid s' vi v' bl rch T /\ mkx_frame fsz v (s_disk s) (s_disk s') None /\ mkx_chains s v T (s_disk s') 0.

Definition mkx_ok (fsz vid : N) (s : st) (vi : nat) (v : vol) (bl rch : list N) (T : list node) (dc : N) (pbl : list N)
    (s' : st) (v' : vol) : Prop :=
  exists bl' rch' T' c newe blk off bytes extra pcd pbl' pch' oblk,
    fs_inv_at fsz vid s' vi v' bl' rch' T' /\ tree_plus T T' (NDir newe [c] []) /\ e_cluster newe = c /\
    (2 <= c /\ c < v_clusters v + 2 /\ fat_get (s_disk s) v 0 c = 0) /\
    (mkx_frame fsz v (s_disk s) (s_disk s') oblk /\ forall b, oblk = Some b -> In b pbl) /\ mkx_chains s v T (s_disk s') pcd /\ mkx_pc_ok v T pcd /\
    (pcd = 0 \/ exists pch, chain_at (s_disk s) v pcd pch /\ pbl = data_blocks v pch) /\
    ~ In (blk, off) (map node_pos (all_nodes T)) /\
    slots_of (s_disk s') pbl' = map (upd_slot blk off bytes) (slots_of (s_disk s) pbl ++ extra) /\
    Forall zero_slot extra /\ In (blk, off) (map fst (slots_of (s_disk s) pbl ++ extra)) /\
    ((dc = CL_ROOT /\ pbl' = bl') \/
     (dc <> CL_ROOT /\ bl' = bl /\ rch' = rch /\ chain_at (s_disk s') v dc pch' /\ pbl' = data_blocks v pch')) /\
    (* the cluster of the new directory: dot entries on a zeroed block, zero blocks; its chain *)
    exists now pcl, mk_cluster v (s_disk s) (s_disk s') c now pcl /\ chain_at (s_disk s') v c [c].

Theorem mkx_make_dir fsz vid s vi v bl rch T dc sfn pbl pp r s' :
  fs_inv_at fsz vid s vi v bl rch T ->
  dir_ok (s_disk s) v dc pp pbl -> NoDup pbl ->
  (forall j, In j pbl -> ~ PrBounds.in_fat v fsz j /\
     forall c0, 2 <= c0 -> fat_get (s_disk s) v 0 c0 = 0 -> ~ In j (cluster_blocks v c0)) ->
  (dc = CL_ROOT \/ (2 <= dc /\ dc < v_clusters v + 2)) ->
  ((dc = CL_ROOT /\ pbl = bl /\ pp = CL_ROOT) \/
   (exists pe pch pkids, In (NDir pe pch pkids) (all_nodes T) /\ e_cluster pe = dc /\
                         pbl = data_blocks v pch /\ chain_at (s_disk s) v dc pch /\ dc <> CL_ROOT)) ->
  length sfn = 11%nat -> get8 sfn 0 <> 0 -> get8 sfn 0 <> 229 -> PrModes.dot_name sfn = false ->
  ~ In sfn (map t_name (dir_shorts (s_disk s) pbl)) ->
  mk_common fsz vi v s s' -> mk_outcome fsz v (iv_hs s v T) dc sfn pbl s r s' ->
  exists v', geo_eq v v' /\ s_files s' = s_files s /\
    match r with
    | Ok _ => mkx_ok fsz vid s vi v bl rch T dc pbl s' v'
    | _ => mkx_err fsz vid s vi v bl rch T s' v'
    end.
Proof.
  intros Hinv Hok Hnd Hcls Hrange Hwhere Hlen H0 H229 Hdot Hfresh [Hvol Htabs Hblocks Hwrites] Hout.
  destruct (mkd_facts _ _ _ _ _ _ _ _ Hinv) as (Hl & _ & _ & Ev & Evi & _ & Hv & _ & Hwf & _ & _ & Hfit).
  destruct Hvol as (v' & Evols & G & Hpre').
  assert (Ev' : s_vols s' = [v']) by (rewrite Evols, Ev, Evi; reflexivity).
  destruct Htabs as (Edirs & Efiles & _ & Elock & _).
  pose proof (PrBounds.pl_spc _ _ _ (fi_layout _ _ _ _ _ _ _ _ Hinv)) as Hspc.
  pose proof (fi_disk _ _ _ _ _ _ _ _ Hinv) as [Droot Dtree Drootok Dnodes Dwf Dpos].
  pose proof (iv_wf _ _ _ _ _ _ _ _ Hinv) as W.
  set (hs := iv_hs s v T) in *.
  assert (Hhs_tail : forall h, In h (flat_map node_heads T ++ pend_of s v) -> In h hs).
  { intros h Hh. unfold hs, iv_hs, heads. rewrite <- app_assoc. apply in_or_app. right. exact Hh. }
  assert (Hfinish : forall bl' rch' T' pc,
            disk_inv (s_disk s') v bl' rch' T' (pend_of s v) ->
            mkx_pc_ok v T pc ->
            (forall h ch, In h hs -> h <> pc -> chain_at (s_disk s) v h ch -> chain_at (s_disk s') v h ch) ->
            (forall e ch, In (NFile e ch) (all_nodes T) -> In (NFile e ch) (all_nodes T')) ->
            (forall e ch kids, In (NDir e ch kids) (all_nodes T) -> exists ch' kids', In (NDir e ch' kids') (all_nodes T')) ->
            fs_inv_at fsz vid s' vi v' bl' rch' T').
  { intros bl' rch' T' pc Hdisk Hpc Hkeep K3 K4.
    apply (mkd_finish fsz vid s s' vi v v' bl rch T bl' rch' T' Hinv Ev' G Hpre' Hblocks Edirs Efiles Elock Hdisk);
      [|exact K3|exact K4].
    exact (mkd_file_chains _ _ _ _ _ _ _ _ (s_disk s') pc Hinv Hpc Hkeep). }
  exists v'. split; [exact G|]. split; [exact Efiles|].
  destruct Hout as [s' Hd | s' c C1 C2 Cf Hnone W' Hkeep Hfr
                   | s' c now tm blk off sl0 Hcl Hfind Hblk W' Hc Hkeep Hfr
                   | s' c c' now tm pc pch Hcl Hnone Hnr Epc Hpch Epbl C1' C2' Cf' Hne Hfirst Hrest W' Hc Hpc' Hkeep Hfr].
  - (* no free cluster: the disk is the same *)
    split; [|split].
    + apply (Hfinish bl rch T 0); [rewrite Hd; exact (fi_disk _ _ _ _ _ _ _ _ Hinv)|left; lia| |auto|].
      * intros h ch _ _ Hch. rewrite Hd. exact Hch.
      * intros e ch kids H. exists ch, kids. exact H.
    + intros j _ _ _. rewrite Hd. reflexivity.
    + intros h ch _ _ Hch. rewrite Hd. exact Hch.
  - (* the cluster was taken and given back *)
    split; [|split].
    + apply (Hfinish bl rch T 0); [|left; lia|intros h ch Hh _; exact (Hkeep h ch Hh)|auto|intros e ch kids H; exists ch, kids; exact H].
      apply (mkd_disk_keep _ _ _ _ _ _ _ _ _ Hinv W' Hkeep).
      * intros h ch Hh Hch j Hj. destruct (iv_chain_block _ _ _ _ _ _ _ _ Hinv _ _ j Hh Hch Hj) as [A B].
        exact (Hfr j A (B c C1 Cf)).
      * intros E16 j Hj. destruct (iv_root16_block _ _ _ _ _ _ _ _ Hinv j E16 Hj) as [A B]. exact (Hfr j A (B c C1)).
    + intros j A B _. exact (Hfr j A (B c C1 Cf)).
    + intros h ch Hh _. exact (Hkeep h ch Hh).
  - (* the parent had a free slot *)
    destruct Hcl as [(C1 & C2 & Cf) Hdots Hzero].
    assert (Hclx : exists now0 pcl, mk_cluster v (s_disk s) (s_disk s') c now0 pcl /\ chain_at (s_disk s') v c [c]).
    { exists now, (if dc =? CL_ROOT then CL_EMPTY else dc). split; [|exact Hc].
      constructor; [repeat split; assumption|exact Hdots|exact Hzero]. }
    destruct (mkd_new_node (s_disk s') v dc sfn c now tm blk off Hspc Hfit Hrange Hlen H0 H229 Hdot C1 C2 Hdots Hzero Hc)
      as (A1 & A2 & A3 & A4 & A5 & A6 & A7 & A8).
    set (newt := mkd_newt (v_fat32 v) sfn tm c blk off) in *. set (newn := mkd_newn (v_fat32 v) sfn tm c blk off) in *.
    destruct (mkd_dir_slot fsz (s_disk s) (s_disk s') v dc pp pbl sfn c tm blk off sl0 Hwf Hnd Hcls Hok Hlen Hfresh
                C1 Cf Hfind Hblk Hfr A1 A2) as (Hdok & (n1 & n2 & En & En') & Hblkin & Hinvalid).
    fold newt in En'.
    assert (Hpos : ~ In (node_pos newn) (map node_pos (all_nodes T))).
    { rewrite A6. apply (mkd_pos_fresh _ _ _ _ _ _ _ _ blk off Hinv). left. exact Hinvalid. }
    assert (Hother : forall h ch j, In h hs -> chain_at (s_disk s) v h ch -> In j (data_blocks v ch) -> j <> blk ->
              disk_get (s_disk s') j = disk_get (s_disk s) j).
    { intros h ch j Hh Hch Hj Hjb. destruct (iv_chain_block _ _ _ _ _ _ _ _ Hinv _ _ j Hh Hch Hj) as [A B].
      exact (Hfr j A (B c C1 Cf) Hjb). }
    (* the slots of the parent *)
    set (bytes := ser_bytes (v_fat32 v) (mk_dirent sfn tm tm A_DIRECTORY c 0 blk off)) in *.
    assert (Hbytes : length bytes = 32%nat) by (apply ser_bytes_length; exact Hlen).
    assert (Hin0 : In (blk, off, sl0) (slots_of (s_disk s) pbl)) by exact (proj1 (find_some _ _ Hfind)).
    assert (Hslots : slots_of (s_disk s') pbl = map (upd_slot blk off bytes) (slots_of (s_disk s) pbl ++ [])).
    { rewrite app_nil_r. destruct (In_slots_of _ _ _ Hin0) as (b & i & Hb & Hi & Et). injection Et as -> -> _.
      apply (cd_slots_one_write (s_disk s) (s_disk s') pbl b i bytes (Hwf b) Hi Hbytes); [|exact Hblk].
      intros j Hj Hne. destruct (Hcls j Hj) as [A B]. exact (Hfr j A (B c C1 Cf) Hne). }
    assert (Hkey : In (blk, off) (map fst (slots_of (s_disk s) pbl ++ []))).
    { rewrite app_nil_r. apply in_map_iff. exists (blk, off, sl0). split; [reflexivity|exact Hin0]. }
    assert (Enew : e_cluster (t_entry (v_fat32 v) newt) = c) by (injection A8 as E; exact E).
    assert (Hframe : mkx_frame fsz v (s_disk s) (s_disk s') (Some blk) /\ forall b, Some blk = Some b -> In b pbl).
    { split; [intros j A B Hb; exact (Hfr j A (B c C1 Cf) (Hb blk eq_refl))|]. intros b E. injection E as <-. exact Hblkin. }
    assert (Hchains : mkx_chains s v T (s_disk s') 0) by (intros h ch Hh _; exact (Hkeep h ch Hh)).
    destruct Hwhere as [(-> & -> & ->)|(pe & pch & pkids & HP & Edc & -> & Hpch & Hnr)].
    + (* the parent is the root *)
      destruct (mkd_tree_root _ _ _ _ _ _ _ _ Hinv (s_disk s') c newn newt W' A7 A8 Hpos A3 bl rch n1 n2)
        as (Hdisk & K3 & K4); try assumption.
      * unfold root_dir in *. destruct (v_fat32 v) eqn:E32; [|exact Droot]. destruct Droot as (Hch & Ebl).
        split; [|exact Ebl]. apply Hkeep; [|exact Hch]. apply iv_root_head_in. unfold root_heads. rewrite E32. left. reflexivity.
      * intros h ch Hh. exact (Hkeep h ch (Hhs_tail h Hh)).
      * intros h ch Hh Hch j Hj. apply (Hother h ch j (Hhs_tail h Hh) Hch Hj). intros ->.
        exact (proj2 (proj2 (iv_root_blocks _ _ _ _ _ _ _ _ Hinv)) h ch blk Hh Hch Hj Hblkin).
      * exact (Hdok CL_ROOT Drootok).
      * exists bl, rch, (ins newn (length n1) T), c, (t_entry (v_fat32 v) newt), blk, off, bytes, [], 0, bl, rch, (Some blk).
        split; [apply (Hfinish bl rch _ 0 Hdisk); [left; lia|intros h ch Hh _; exact (Hkeep h ch Hh)|exact K3|exact K4]|].
        split; [intros X g _; exact (ins_perm newn (length n1) X g A7 T)|].
        split; [exact Enew|]. split; [repeat split; assumption|]. split; [exact Hframe|]. split; [exact Hchains|].
        split; [left; lia|]. split; [left; reflexivity|]. split; [rewrite <- A6; exact Hpos|].
        split; [exact Hslots|]. split; [constructor|]. split; [exact Hkey|]. split; [|exact Hclx]. left. split; reflexivity.
    + (* the parent is a directory below the root *)
      destruct (mkd_sub_dir _ _ _ _ _ _ _ _ _ _ _ Hinv HP) as (_ & R1 & R2 & Hdch & _). rewrite Edc in *.
      destruct (mkd_tree_sub _ _ _ _ _ _ _ _ Hinv (s_disk s') c newn newt W' A7 A8 Hpos A3 pe pch pkids dc pch n1 n2)
        as (Hdisk & K3 & K4); try assumption.
      * intros h ch Hh _. exact (Hkeep h ch Hh).
      * intros h ch Hh Hne Hch j Hj. apply (Hother h ch j Hh Hch Hj). intros ->.
        exact (iv_disj _ _ _ _ _ _ _ _ Hinv h dc ch pch blk Hh Hdch Hne Hch Hpch Hj Hblkin).
      * intros E16 j Hj. destruct (iv_root16_block _ _ _ _ _ _ _ _ Hinv j E16 Hj) as [A B].
        apply (Hfr j A (B c C1)). intros ->. apply mkd_in_data_blocks in Hblkin. destruct Hblkin as (x & Hx & Hbx).
        exact (B x (proj1 (chain_at_mem _ _ _ _ x Hpch Hx)) Hbx).
      * exact (Hkeep dc pch Hdch Hpch).
      * destruct (iv_nodup _ _ _ _ _ _ _ _ Hinv) as (N1 & _ & _ & _).
        assert (Hdc_head : In dc (flat_map node_heads T)) by (apply (own_head_in T _ _ HP); left; exact Edc).
        assert (Hfnp : forall k, In k T -> file_not_pc dc k).
        { apply (iv_file_not_pc _ _ _ _ _ _ _ _ Hinv). right. right. exists pe, pch, pkids. split; [exact HP|exact Edc]. }
        exists bl, rch, (map (upd dc pch newn (length n1)) T), c, (t_entry (v_fat32 v) newt), blk, off, bytes, [], 0,
               (data_blocks v pch), pch, (Some blk).
        split; [apply (Hfinish bl rch _ 0 Hdisk); [left; lia|intros h ch Hh _; exact (Hkeep h ch Hh)|exact K3|exact K4]|].
        split.
        { intros X g Hg. apply (upd_perm_list dc pch newn (length n1) X g Hg A7 T Hdc_head); [|exact Hfnp].
          rewrite heads_all_nodes. exact N1. }
        split; [exact Enew|]. split; [repeat split; assumption|]. split; [exact Hframe|]. split; [exact Hchains|].
        split; [left; lia|]. split; [left; reflexivity|]. split; [rewrite <- A6; exact Hpos|].
        split; [exact Hslots|]. split; [constructor|]. split; [exact Hkey|]. split; [|exact Hclx]. right.
        split; [exact Hnr|]. split; [reflexivity|]. split; [reflexivity|]. split; [exact (Hkeep dc pch Hdch Hpch)|reflexivity].
  - (* the parent had to grow *)
    destruct Hcl as [(C1 & C2 & Cf) Hdots Hzero].
    assert (Hclx : exists now0 pcl, mk_cluster v (s_disk s) (s_disk s') c now0 pcl /\ chain_at (s_disk s') v c [c]).
    { exists now, (if dc =? CL_ROOT then CL_EMPTY else dc). split; [|exact Hc].
      constructor; [repeat split; assumption|exact Hdots|exact Hzero]. }
    set (blk := cluster_first_block v c') in *.
    destruct (mkd_new_node (s_disk s') v dc sfn c now tm blk 0 Hspc Hfit Hrange Hlen H0 H229 Hdot C1 C2 Hdots Hzero Hc)
      as (A1 & A2 & A3 & A4 & A5 & A6 & A7 & A8).
    set (newt := mkd_newt (v_fat32 v) sfn tm c blk 0) in *. set (newn := mkd_newn (v_fat32 v) sfn tm c blk 0) in *.
    assert (Hblkc : In blk (cluster_blocks v c')).
    { unfold blk. rewrite <- (N.add_0_r (cluster_first_block v c')). apply In_cluster_blocks_intro. lia. }
    assert (Hpos : ~ In (node_pos newn) (map node_pos (all_nodes T))).
    { rewrite A6. apply (mkd_pos_fresh _ _ _ _ _ _ _ _ blk 0 Hinv). right. exists c'. split; [exact C1'|]. split; [exact Cf'|exact Hblkc]. }
    assert (Hother : forall h ch j, In h hs -> chain_at (s_disk s) v h ch -> In j (data_blocks v ch) ->
              disk_get (s_disk s') j = disk_get (s_disk s) j).
    { intros h ch j Hh Hch Hj. destruct (iv_chain_block _ _ _ _ _ _ _ _ Hinv _ _ j Hh Hch Hj) as [A B].
      exact (Hfr j A (B c C1 Cf) (B c' C1' Cf')). }
    change (flat_map (cluster_blocks v) pch) with (data_blocks v pch) in Epbl. subst pbl.
    destruct (mkd_dir_grow fsz (s_disk s) (s_disk s') v dc pp pch sfn c c' tm Hspc Hcls Hok Hlen Hfresh C1 Cf C1' Cf'
                Hnone Hfirst Hrest Hfr A1 A2) as (Hdok & En').
    fold blk in En'. fold newt in En'.
    (* the slots of the parent: the old ones, then the cluster c' of zero slots with slot 0 written *)
    set (bytes := ser_bytes (v_fat32 v) (mk_dirent sfn tm tm A_DIRECTORY c 0 blk 0)) in *.
    assert (Hbytes : length bytes = 32%nat) by (apply ser_bytes_length; exact Hlen).
    set (extra := map (fun t : tslot => (fst t, repeat 0 32)) (slots_of (s_disk s') (cluster_blocks v c'))).
    assert (Hzs : Forall zero_slot extra).
    { apply Forall_forall. intros t Ht. unfold extra in Ht. apply in_map_iff in Ht. destruct Ht as (t0 & <- & _). reflexivity. }
    assert (Hex : map (upd_slot blk 0 bytes) extra = slots_of (s_disk s') (cluster_blocks v c')).
    { unfold extra. rewrite map_map. rewrite <- (map_id (slots_of (s_disk s') (cluster_blocks v c'))) at 2.
      apply map_ext_in. intros t Ht. destruct (In_slots_of _ _ _ Ht) as (b & k & Hb & Hk & ->). cbn [fst].
      unfold upd_slot. cbn [fst snd]. destruct (In_cluster_blocks _ _ _ Hb) as (q & Hq & Eb).
      destruct (N.eqb_spec b blk) as [Eblk|Nblk]; cbn [andb].
      - assert (q = 0) by (unfold blk in Eblk; lia). subst q. rewrite Eblk.
        destruct (N.eqb_spec (k * 32) 0) as [Ek|Nk].
        + assert (k = 0) by lia. subst k. rewrite Hfirst. fold blk. fold bytes. f_equal.
          change (set_bytes zero_block 0 bytes) with (set_bytes zero_block (0 * 32) bytes).
          symmetry. apply slot_set_bytes_same; [exact Hbytes|]. rewrite zero_block_length. change (0 * 32) with 0. lia.
        + f_equal. rewrite Hfirst. fold blk. fold bytes. symmetry.
          rewrite slot_set_bytes_other; [exact (cd_slot_zero k Hk)|rewrite zero_block_length, Hbytes; lia|rewrite Hbytes; lia].
      - f_equal. rewrite Eb. rewrite Hrest; [symmetry; exact (cd_slot_zero k Hk)| |exact Hq].
        destruct (N.eq_dec q 0) as [->|Nq]; [|lia]. exfalso. apply Nblk. rewrite Eb. unfold blk. lia. }
    assert (Hslots : slots_of (s_disk s') (data_blocks v (pch ++ [c'])) =
              map (upd_slot blk 0 bytes) (slots_of (s_disk s) (data_blocks v pch) ++ extra)).
    { rewrite mkd_data_blocks_app, mkd_data_blocks_one, slots_of_app, map_app, Hex. f_equal.
      rewrite cd_map_upd_other.
      - apply slots_of_ext. intros j Hj. destruct (Hcls j Hj) as [A B]. exact (Hfr j A (B c C1 Cf) (B c' C1' Cf')).
      - intros Hin. apply cd_slot_key_block in Hin. cbn [fst] in Hin. exact (proj2 (Hcls blk Hin) c' C1' Cf' Hblkc). }
    assert (Hkey : In (blk, 0) (map fst (slots_of (s_disk s) (data_blocks v pch) ++ extra))).
    { rewrite map_app. apply in_or_app. right. unfold extra. rewrite map_map. cbn [fst].
      change (fun x : tslot => fst x) with (@fst (N * N) (list N)).
      exact (cd_slot_key_in (s_disk s') (cluster_blocks v c') blk 0 Hblkc ltac:(lia)). }
    assert (Enew : e_cluster (t_entry (v_fat32 v) newt) = c) by (injection A8 as E; exact E).
    assert (Hframe : mkx_frame fsz v (s_disk s) (s_disk s') None /\ forall b, @None N = Some b -> In b (data_blocks v pch)).
    { split; [intros j A B _; exact (Hfr j A (B c C1 Cf) (B c' C1' Cf'))|]. intros b E. discriminate E. }
    destruct Hwhere as [(-> & Ebl & ->)|(pe & pch0 & pkids & HP & Edc & Ebl & Hpch0 & Hnr')].
    + (* the root of a FAT32 volume *)
      rewrite N.eqb_refl, andb_true_r in Hnr. apply negb_false_iff in Hnr.
      assert (Epc' : pc = v_root_cluster v) by (rewrite Epc; unfold dir_first_cluster; rewrite Hnr, N.eqb_refl; reflexivity).
      unfold root_dir in Droot. rewrite Hnr in Droot. destruct Droot as (Hrch & Ebl2).
      rewrite Epc' in *. pose proof (chain_at_det _ _ _ _ _ Hpch Hrch) as ->.
      assert (Hrh : In (v_root_cluster v) (root_heads v)) by (unfold root_heads; rewrite Hnr; left; reflexivity).
      destruct (iv_nodup _ _ _ _ _ _ _ _ Hinv) as (_ & _ & N3 & _).
      assert (Hne_root : forall h, In h (flat_map node_heads T ++ pend_of s v) -> h <> v_root_cluster v).
      { intros h Hh ->. destruct (N3 _ Hrh) as [X Y]. apply in_app_or in Hh. destruct Hh; contradiction. }
      destruct (mkd_tree_root _ _ _ _ _ _ _ _ Hinv (s_disk s') c newn newt W' A7 A8 Hpos A3
                  (data_blocks v (rch ++ [c'])) (rch ++ [c']) (dir_nodes (s_disk s) bl) [])
        as (Hdisk & K3 & K4); try assumption.
      * unfold root_dir. rewrite Hnr. split; [exact Hpc'|reflexivity].
      * intros h ch Hh. exact (Hkeep h ch (Hhs_tail h Hh) (Hne_root h Hh)).
      * intros h ch Hh Hch j Hj. exact (Hother h ch j (Hhs_tail h Hh) Hch Hj).
      * symmetry. apply app_nil_r.
      * rewrite En', Ebl2. reflexivity.
      * exact (Hdok CL_ROOT Hok).
      * exists (data_blocks v (rch ++ [c'])), (rch ++ [c']), (ins newn (length (dir_nodes (s_disk s) bl)) T), c,
               (t_entry (v_fat32 v) newt), blk, 0, bytes, extra, (v_root_cluster v), (data_blocks v (rch ++ [c'])), (rch ++ [c']), (@None N).
        split; [apply (Hfinish _ _ _ (v_root_cluster v) Hdisk); [right; left; exact Hrh|exact Hkeep|exact K3|exact K4]|].
        split; [intros X g _; exact (ins_perm newn _ X g A7 T)|].
        split; [exact Enew|]. split; [repeat split; assumption|]. split; [exact Hframe|]. split; [exact Hkeep|].
        split; [right; left; exact Hrh|]. split; [right; exists rch; split; [exact Hrch|reflexivity]|].
        split; [rewrite <- A6; exact Hpos|].
        split; [exact Hslots|]. split; [exact Hzs|]. split; [exact Hkey|]. split; [|exact Hclx]. left. split; reflexivity.
    + (* a directory below the root *)
      destruct (mkd_sub_dir _ _ _ _ _ _ _ _ _ _ _ Hinv HP) as (_ & R1 & R2 & Hdch & _). rewrite Edc in *.
      assert (Epc' : pc = dc).
      { rewrite Epc. unfold dir_first_cluster. replace (dc =? CL_ROOT) with false by (symmetry; apply N.eqb_neq; exact Hnr').
        rewrite andb_false_r. reflexivity. }
      rewrite Epc' in *. pose proof (chain_at_det _ _ _ _ _ Hpch Hpch0) as ->.
      destruct (mkd_tree_sub _ _ _ _ _ _ _ _ Hinv (s_disk s') c newn newt W' A7 A8 Hpos A3 pe pch0 pkids dc (pch0 ++ [c'])
                  (dir_nodes (s_disk s) (data_blocks v pch0)) [])
        as (Hdisk & K3 & K4); try assumption.
      * intros h ch Hh _ Hch j Hj. exact (Hother h ch j Hh Hch Hj).
      * intros E16 j Hj. destruct (iv_root16_block _ _ _ _ _ _ _ _ Hinv j E16 Hj) as [A B]. exact (Hfr j A (B c C1) (B c' C1')).
      * symmetry. apply app_nil_r.
      * destruct (iv_nodup _ _ _ _ _ _ _ _ Hinv) as (N1 & _ & _ & _).
        assert (Hdc_head : In dc (flat_map node_heads T)) by (apply (own_head_in T _ _ HP); left; exact Edc).
        assert (Hpcok : mkx_pc_ok v T dc) by (right; right; exists pe, pch0, pkids; split; assumption).
        assert (Hfnp : forall k, In k T -> file_not_pc dc k) by exact (iv_file_not_pc _ _ _ _ _ _ _ _ Hinv dc Hpcok).
        exists bl, rch, (map (upd dc (pch0 ++ [c']) newn (length (dir_nodes (s_disk s) (data_blocks v pch0)))) T), c,
               (t_entry (v_fat32 v) newt), blk, 0, bytes, extra, dc, (data_blocks v (pch0 ++ [c'])), (pch0 ++ [c']), (@None N).
        split; [apply (Hfinish bl rch _ dc Hdisk); [exact Hpcok|exact Hkeep|exact K3|exact K4]|].
        split.
        { intros X g Hg. apply (upd_perm_list dc (pch0 ++ [c']) newn _ X g Hg A7 T Hdc_head); [|exact Hfnp].
          rewrite heads_all_nodes. exact N1. }
        split; [exact Enew|]. split; [repeat split; assumption|]. split; [exact Hframe|]. split; [exact Hkeep|].
        split; [exact Hpcok|]. split; [right; exists pch0; split; [exact Hpch0|reflexivity]|].
        split; [rewrite <- A6; exact Hpos|].
        split; [exact Hslots|]. split; [exact Hzs|]. split; [exact Hkey|]. split; [|exact Hclx]. right.
        split; [exact Hnr'|]. split; [reflexivity|]. split; [reflexivity|]. split; [exact Hpc'|reflexivity].
Qed.

(* ---- 2d. what the views show after make_dir ---- *)
Section MkViews.
  Variables (fsz vid : N) (s : st) (vi : nat) (v : vol) (bl rch : list N) (T : list node).
  Hypothesis Hinv : fs_inv_at fsz vid s vi v bl rch T.
  Variables (s' : st) (v' : vol) (bl' rch' : list N) (T' : list node).
  Hypothesis Hinv' : fs_inv_at fsz vid s' vi v' bl' rch' T'.
  Hypothesis G : geo_eq v v'.
  Hypothesis Efiles : s_files s' = s_files s.
  Variables (oblk : option N) (pcd : N).
  Hypothesis Hframe : mkx_frame fsz v (s_disk s) (s_disk s') oblk.
  Hypothesis Hchains : mkx_chains s v T (s_disk s') pcd.
  Hypothesis Hpc : mkx_pc_ok v T pcd.
  (* the block excluded from the frame, if any, belongs to the directory dc of the tree *)
  Variables (dc : N) (pbl pch0 : list N).
  Hypothesis Hdir : is_dir_of v bl rch T dc pbl pch0.
  Hypothesis Hoblk : forall b, oblk = Some b -> In b pbl.
  Hypothesis Hnodes : forall e ch, In (NFile e ch) (all_nodes T') <-> In (NFile e ch) (all_nodes T).
  Local Notation d := (s_disk s).
  Local Notation d' := (s_disk s').

  Let HD := fi_disk _ _ _ _ _ _ _ _ Hinv.
  Let HD' := fi_disk _ _ _ _ _ _ _ _ Hinv'.
  Let W := di_wf _ _ _ _ _ _ HD.

  (* the blocks of the chain of a head of the invariant that is no directory *)
  Lemma mv_chain_blocks h ch : In h (iv_hs s v T) -> chain_at d v h ch ->
    (forall b, In b pbl -> ~ In b (data_blocks v ch)) ->
    forall j, In j (data_blocks v ch) -> disk_get d' j = disk_get d j.
  Proof.
    intros Hh Hch Hap j Hj. destruct (iv_chain_block _ _ _ _ _ _ _ _ Hinv h ch j Hh Hch Hj) as [A B].
    apply (Hframe j A B). intros b Eb ->. exact (Hap b (Hoblk b Eb) Hj).
  Qed.

  Lemma mv_file_bytes e ch : In (NFile e ch) (all_nodes T) -> file_bytes d' v' ch = file_bytes d v ch.
  Proof.
    intros Hn. rewrite (file_bytes_geo _ v v' ch G). apply PrOpenClose.file_bytes_frame.
    destruct (cd_file_chain _ _ _ _ _ _ _ _ Hinv e ch Hn) as [->|(_ & Hc & Hin)]; [intros j []|].
    apply (mv_chain_blocks (e_cluster e) ch Hin Hc). intros b Hb.
    exact (proj1 (cd_dir_file_apart _ _ _ _ _ _ _ _ Hinv dc pbl pch0 b Hdir Hb) e ch Hn).
  Qed.

  Lemma mv_fchain f : In f (s_files s) -> fchain d' v' f = fchain d v f.
  Proof.
    intros Hf. unfold fchain. destruct (N.ltb_spec (e_cluster (f_entry f)) 2) as [H2|H2]; [reflexivity|].
    rewrite (mkd_chain_l_geo _ v v' _ G).
    exact (chain_l_at _ _ _ _ (mkd_file_chains _ _ _ _ _ _ _ _ d' pcd Hinv Hpc Hchains f Hf H2)).
  Qed.

  Lemma mv_open_bytes f : In f (s_files s) -> file_bytes d' v' (fchain d v f) = file_bytes d v (fchain d v f).
  Proof.
    intros Hf. rewrite (file_bytes_geo _ v v' _ G). apply PrOpenClose.file_bytes_frame.
    unfold fchain in *. destruct (N.ltb_spec (e_cluster (f_entry f)) 2) as [H2|H2]; [intros j []|].
    pose proof (ofile_in_hs _ _ _ _ _ _ _ _ Hinv f Hf H2) as Hin.
    apply (mv_chain_blocks _ _ Hin (wf_l_def _ _ _ _ W Hin)). intros b Hb.
    pose proof (proj2 (cd_dir_file_apart _ _ _ _ _ _ _ _ Hinv dc pbl pch0 b Hdir Hb) f Hf) as X.
    unfold fchain in X. replace (e_cluster (f_entry f) <? 2) with false in X by (symmetry; apply N.ltb_ge; exact H2).
    exact X.
  Qed.

  Lemma mv_mem_item e ch : In (NFile e ch) (all_nodes T) -> mem_item s' v' (NFile e ch) = mem_item s v (NFile e ch).
  Proof.
    intros Hn. unfold mem_item, open_at. rewrite Efiles.
    destruct (find (fun f => pos_eqb (slot_key f) (node_pos (NFile e ch))) (s_files s)) as [f|] eqn:Ef.
    - destruct (find_some _ _ Ef) as (Hf & _). unfold mem_fv. rewrite (mv_fchain f Hf), (mv_open_bytes f Hf). reflexivity.
    - unfold disk_fv. cbn [node_entry node_chain]. rewrite (mv_file_bytes e ch Hn). reflexivity.
  Qed.

  (* no file position changes in either view; the handle table is the same *)
  Theorem mv_files_same : files_same (obs_at s v bl T) (obs_at s' v' bl' T') /\
    ob_handles (obs_at s' v' bl' T') = ob_handles (obs_at s v bl T).
  Proof.
    split; [|exact (cd_handles_same s s' Efiles)].
    intros q. cbn [obs_at ob_mem ob_disk]. unfold mem_view, disk_view. split.
    - apply cd_vget_transfer; [exact (di_pos _ _ _ _ _ _ HD)|exact (di_pos _ _ _ _ _ _ HD')| |].
      + intros e ch _. exact (Hnodes e ch).
      + intros e ch Hn _. exact (mv_mem_item e ch Hn).
    - apply cd_vget_transfer; [exact (di_pos _ _ _ _ _ _ HD)|exact (di_pos _ _ _ _ _ _ HD')| |].
      + intros e ch _. exact (Hnodes e ch).
      + intros e ch Hn _. unfold disk_fv. cbn [node_entry node_chain]. rewrite (mv_file_bytes e ch Hn). reflexivity.
  Qed.

  (* the blocks of a directory of the tree other than dc are as before *)
  Lemma mv_dir_blocks c0 bld0 chd0 : is_dir_of v bl rch T c0 bld0 chd0 -> c0 <> dc ->
    forall j, In j bld0 -> disk_get d' j = disk_get d j.
  Proof.
    intros Hd0 Hne j Hj.
    assert (Hap : forall b, oblk = Some b -> j <> b).
    { intros b Eb ->. apply Hne.
      exact (dirs_apart _ _ _ _ _ _ _ _ HD (fi_layout _ _ _ _ _ _ _ _ Hinv) c0 dc bld0 pbl chd0 pch0 b Hd0 Hdir Hj (Hoblk b Eb)). }
    destruct Hd0 as [(_ & -> & _)|(e & kids & Hn & _ & ->)].
    - destruct (proj1 (proj2 (iv_root_blocks _ _ _ _ _ _ _ _ Hinv)) j Hj) as [A B]. exact (Hframe j A B Hap).
    - destruct (mkd_sub_dir _ _ _ _ _ _ _ _ _ _ _ Hinv Hn) as (Hch & _ & _ & Hh & _).
      destruct (iv_chain_block _ _ _ _ _ _ _ _ Hinv _ _ j Hh Hch Hj) as [A B]. exact (Hframe j A B Hap).
  Qed.
End MkViews.

(* ---- 2e. the errors of make_dir: no directory slot changes ---- *)
Lemma mkx_err_content fsz vid s vi v bl rch T s' v' (e : err) :
  fs_inv_at fsz vid s vi v bl rch T -> geo_eq v v' -> s_files s' = s_files s ->
  mkx_err fsz vid s vi v bl rch T s' v' ->
  exists a', observes fsz vid s' a' /\ mkdir_content (Err e) (obs_at s v bl T) a'.
Proof.
  intros Hinv G Efiles (Hinv' & Hframe & Hchains).
  exists (obs_at s' v' bl T). split; [exact (observes_at _ _ _ _ _ _ _ _ Hinv')|].
  assert (Hpc : mkx_pc_ok v T 0) by (left; lia).
  assert (Hdir : is_dir_of v bl rch T CL_ROOT bl rch) by (left; repeat split).
  assert (Hob : forall b, @None N = Some b -> In b bl) by (intros b E; discriminate E).
  destruct (mv_files_same fsz vid s vi v bl rch T Hinv s' v' bl rch T Hinv' G Efiles None 0 Hframe Hchains
              Hpc CL_ROOT bl rch Hdir Hob (fun e0 ch => conj (fun H => H) (fun H => H))) as (F1 & F2).
  split; [exact F1|]. split; [exact F2|].
  assert (E : dir_view (s_disk s') v' bl T = dir_view (s_disk s) v bl T).
  { unfold dir_view. f_equal.
    - f_equal. apply slots_of_ext. intros j Hj.
      destruct (proj1 (proj2 (iv_root_blocks _ _ _ _ _ _ _ _ Hinv)) j Hj) as [A B].
      apply (Hframe j A B). intros b Eb. discriminate Eb.
    - apply flat_map_ext_in. intros n Hn. destruct n as [e0 ch0|e0 ch0 k0]; [reflexivity|]. cbn [dir_item].
      rewrite (data_blocks_geo v v' ch0 G). f_equal. f_equal. apply slots_of_ext. intros j Hj.
      destruct (mkd_sub_dir _ _ _ _ _ _ _ _ _ _ _ Hinv Hn) as (Hch & _ & _ & Hh & _).
      destruct (iv_chain_block _ _ _ _ _ _ _ _ Hinv _ _ j Hh Hch Hj) as [A B].
      apply (Hframe j A B). intros b Eb. discriminate Eb. }
  intros c. cbn [obs_at ob_dirs]. rewrite E. reflexivity.
Qed.

(* ---- 2e'. the slots of the new directory: ".", "..", then nothing but zero slots ---- *)
Definition mkdir_new_shape (a a' : obs) : Prop :=
  exists cnew b0 dot dotdot zs, dget cnew (ob_dirs a) = None /\
    dget cnew (ob_dirs a') = Some ((b0, 0, dot) :: (b0, 32, dotdot) :: zs) /\
    firstn 11 dot = THIS_DIR_NAME /\ firstn 11 dotdot = PARENT_DIR_NAME /\ Forall zero_slot zs.

Lemma cd_new_dir_slots d' v c dot dotdot : 1 <= v_spc v -> length dot = 32%nat -> length dotdot = 32%nat ->
  disk_get d' (cluster_first_block v c) = set_bytes (set_bytes zero_block 0 dot) 32 dotdot ->
  (forall k, 1 <= k -> k < v_spc v -> disk_get d' (cluster_first_block v c + k) = zero_block) ->
  exists zs, slots_of d' (cluster_blocks v c) =
               (cluster_first_block v c, 0, dot) :: (cluster_first_block v c, 32, dotdot) :: zs /\
             Forall zero_slot zs.
Proof.
  intros Hspc Hl1 Hl2 Hfirst Hrest. pose proof zero_block_length as Hz.
  set (B1 := set_bytes zero_block 0 dot) in *. set (B := set_bytes B1 32 dotdot) in *.
  assert (L1 : length B1 = 512%nat) by (unfold B1; rewrite set_bytes_length; [exact Hz|rewrite Hz, Hl1; cbn; lia]).
  assert (S0 : slot B 0 = dot).
  { unfold B. rewrite slot_set_bytes_other; [|rewrite L1, Hl2; cbn; lia|left; lia].
    unfold B1. change (set_bytes zero_block 0 dot) with (set_bytes zero_block (0 * 32) dot).
    apply slot_set_bytes_same; [exact Hl1|]. rewrite Hz. change (0 * 32) with 0. lia. }
  assert (S1 : slot B 1 = dotdot).
  { unfold B. change (set_bytes B1 32 dotdot) with (set_bytes B1 (1 * 32) dotdot).
    apply slot_set_bytes_same; [exact Hl2|]. rewrite L1. change (1 * 32) with 32. lia. }
  assert (Sk : forall k, 2 <= k -> k < 16 -> slot B k = repeat 0 32).
  { intros k K1 K2. unfold B. rewrite slot_set_bytes_other; [|rewrite L1, Hl2; cbn; lia|right; rewrite Hl2; lia].
    unfold B1. rewrite slot_set_bytes_other; [exact (cd_slot_zero k K2)|rewrite Hz, Hl1; cbn; lia|right; rewrite Hl1; lia]. }
  rewrite (cluster_blocks_cons v c Hspc), slots_of_cons. unfold block_slots at 1. rewrite Hfirst. fold B1. fold B.
  rewrite (tslots_from_S 15 B _ 0), (tslots_from_S 14 B _ (0 + 1)). cbn [app].
  change (0 * 32) with 0. change ((0 + 1) * 32) with 32. change (0 + 1) with 1. rewrite S0, S1.
  eexists. split; [reflexivity|]. apply Forall_app. split.
  - apply Forall_forall. intros t Ht. destruct (In_tslots_from _ _ _ _ _ Ht) as (j & J1 & J2 & ->).
    unfold zero_slot. cbn [snd]. apply Sk; [change (1 + 1) with 2 in J1; exact J1|].
    change (1 + 1 + N.of_nat 14) with 16 in J2. exact J2.
  - apply Forall_forall. intros t Ht. destruct (In_slots_of _ _ _ Ht) as (b & k & Hb & Hk & ->).
    destruct (In_blocks_from _ _ _ Hb) as (q & Hq & ->). unfold zero_slot. cbn [snd].
    replace (cluster_first_block v c + 1 + N.of_nat q) with (cluster_first_block v c + (1 + N.of_nat q)) by lia.
    rewrite Hrest by lia. exact (cd_slot_zero k Hk).
Qed.

(* ---- 2f. the success of make_dir ---- *)
Lemma mkx_ok_content fsz vid s vi v bl rch T dc pbl pch0 s' v' :
  fs_inv_at fsz vid s vi v bl rch T -> geo_eq v v' -> s_files s' = s_files s ->
  is_dir_of v bl rch T dc pbl pch0 ->
  mkx_ok fsz vid s vi v bl rch T dc pbl s' v' ->
  exists a', observes fsz vid s' a' /\ mkdir_content (Ok RUnit) (obs_at s v bl T) a' /\
    mkdir_new_shape (obs_at s v bl T) a'.
Proof.
  intros Hinv G Efiles Hdir (bl' & rch' & T' & c & newe & blk & off & bytes & extra & pcd & pbl' & pch' & oblk &
     Hinv' & Hplus & Enew & (C1 & C2 & Cf) & (Hframe & Hoblk) & Hchains & Hpc & Hpcd & Hfresh & Hslots & Hzs & Hkey & Hwhere &
     now & pcl & [_ Hdots Hzero] & Hcc).
  destruct (tree_plus_nodes T T' newe [c] [] Hplus) as (Hnf & Hnd).
  destruct (mkd_facts _ _ _ _ _ _ _ _ Hinv) as (_ & _ & _ & _ & _ & _ & Hv & _).
  pose proof (fi_disk _ _ _ _ _ _ _ _ Hinv) as HD. pose proof (fi_disk _ _ _ _ _ _ _ _ Hinv') as HD'.
  pose proof (fi_layout _ _ _ _ _ _ _ _ Hinv) as PL.
  pose proof (PrBounds.pl_spc _ _ _ PL) as Hspc.
  exists (obs_at s' v' bl' T'). split; [exact (observes_at _ _ _ _ _ _ _ _ Hinv')|].
  destruct (mv_files_same fsz vid s vi v bl rch T Hinv s' v' bl' rch' T' Hinv' G Efiles oblk pcd Hframe Hchains
              Hpc dc pbl pch0 Hdir Hoblk Hnf) as (F1 & F2).
  (* the cluster of the new directory was free: no directory of the old tree has it *)
  assert (Hcnone : dget c (dir_view (s_disk s) v bl T) = None).
  { destruct (dget c (dir_view (s_disk s) v bl T)) as [sl0|] eqn:E; [exfalso|reflexivity].
    destruct (dget_dir_view_inv v bl rch T _ c sl0 E) as (bld & chd & [(Ec & _)|(e & kids & Hn & Ec & _)] & _).
    - exact (in_range_not_root v c Hv C2 Ec).
    - destruct (mkd_sub_dir _ _ _ _ _ _ _ _ _ _ _ Hinv Hn) as (Hch & _). rewrite Ec in Hch.
      exact (proj1 (proj2 (proj2 (chain_at_mem _ _ _ _ c Hch (chain_at_head_in _ _ _ _ Hch)))) Cf). }
  (* the chain of a directory node of the new tree *)
  assert (Hchain' : forall e ch kids, In (NDir e ch kids) (all_nodes T') -> chain_at (s_disk s') v (e_cluster e) ch).
  { intros e ch kids Hn. destruct (dir_node_chain _ _ _ _ _ _ HD' e ch kids Hn) as (Hch & _).
    exact (proj1 (chain_at_geo (s_disk s') v v' _ _ G) Hch). }
  destruct (proj2 (Hnd newe) (or_introl eq_refl)) as (chn & kn & Hnew).
  (* the parent in the new tree *)
  assert (Hdir' : exists chd', is_dir_of v' bl' rch' T' dc pbl' chd').
  { destruct Hwhere as [(-> & ->)|(Hnr & -> & -> & Hpch' & ->)].
    - exists rch'. left. repeat split.
    - destruct Hdir as [(Edc & _)|(pe & pkids & HP & Edc & Epbl)]; [contradiction|].
      destruct (proj2 (Hnd pe) (or_intror (ex_intro _ pch0 (ex_intro _ pkids HP)))) as (ch' & kids' & HP').
      pose proof (Hchain' pe ch' kids' HP') as Hc'. rewrite Edc in Hc'.
      rewrite (chain_at_det _ _ _ _ _ Hc' Hpch') in HP'.
      exists pch'. right. exists pe, kids'. split; [exact HP'|]. split; [exact Edc|]. symmetry. exact (data_blocks_geo v v' pch' G). }
  destruct Hdir' as (chd' & Hdir').
  (* every other directory *)
  assert (Hother : forall c0, c0 <> dc -> c0 <> c ->
            dget c0 (dir_view (s_disk s') v' bl' T') = dget c0 (dir_view (s_disk s) v bl T)).
  { intros c0 N1 N2. destruct (dget c0 (dir_view (s_disk s) v bl T)) as [sl0|] eqn:E.
    - destruct (dget_dir_view_inv v bl rch T _ c0 sl0 E) as (bld0 & chd0 & Hd0 & ->).
      assert (Hd0' : is_dir_of v' bl' rch' T' c0 bld0 chd0).
      { pose proof Hd0 as Hd0c. destruct Hd0c as [(Ec0 & Eb0 & Ech0)|(e & kids & Hn & Ec0 & Eb0)].
        - left. destruct Hwhere as [(Edc & _)|(_ & -> & -> & _)]; [exfalso; apply N1; congruence|]. repeat split; assumption.
        - right. destruct (proj2 (Hnd e) (or_intror (ex_intro _ chd0 (ex_intro _ kids Hn)))) as (ch' & kids' & Hn').
          pose proof (Hchain' e ch' kids' Hn') as Hc'.
          destruct (mkd_sub_dir _ _ _ _ _ _ _ _ _ _ _ Hinv Hn) as (Hch & R1 & _ & Hh & _).
          assert (Hne : e_cluster e <> pcd).
          { destruct Hpcd as [->|(pch & Hpch & Epbl)]; [lia|]. intros Eq. rewrite Eq in Hch.
            pose proof (chain_at_det _ _ _ _ _ Hch Hpch) as Ech. destruct (chain_at_head _ _ _ _ Hpch) as (rest & Er).
            assert (Hj : In (cluster_first_block v pcd + 0) (data_blocks v pch)).
            { rewrite Er. unfold data_blocks. cbn [flat_map]. apply in_or_app. left. apply In_cluster_blocks_intro. lia. }
            apply N1.
            apply (dirs_apart _ _ _ _ _ _ _ _ HD PL c0 dc bld0 pbl chd0 pch0 (cluster_first_block v pcd + 0) Hd0 Hdir);
              [rewrite Eb0, Ech|rewrite Epbl]; exact Hj. }
          pose proof (Hchains _ _ Hh Hne Hch) as Hc''. rewrite (chain_at_det _ _ _ _ _ Hc' Hc'') in Hn'.
          exists e, kids'. split; [exact Hn'|]. split; [exact Ec0|]. rewrite (data_blocks_geo v v' chd0 G). exact Eb0. }
      rewrite (dget_dir_view _ _ _ _ _ _ _ _ Hinv' (s_disk s') c0 bld0 chd0 Hd0'). f_equal. apply slots_of_ext.
      exact (mv_dir_blocks fsz vid s vi v bl rch T Hinv s' oblk Hframe dc pbl pch0 Hdir Hoblk c0 bld0 chd0 Hd0 N1).
    - destruct (dget c0 (dir_view (s_disk s') v' bl' T')) as [sl'|] eqn:E'; [exfalso|reflexivity].
      destruct (dget_dir_view_inv v' bl' rch' T' _ c0 sl' E') as (bld0 & chd0 & [(Ec0 & _)|(e & kids & Hn & Ec0 & _)] & _).
      + rewrite Ec0 in E. unfold dir_view in E. cbn [dget] in E. rewrite N.eqb_refl in E. discriminate E.
      + destruct (proj1 (Hnd e) (ex_intro _ chd0 (ex_intro _ kids Hn))) as [->|(ch0 & kids0 & Hn0)].
        * apply N2. rewrite <- Ec0. exact Enew.
        * rewrite (dget_dir_view _ _ _ _ _ _ _ _ Hinv (s_disk s) c0 (data_blocks v ch0) ch0
                     (or_intror (ex_intro _ e (ex_intro _ kids0 (conj Hn0 (conj Ec0 eq_refl)))))) in E. discriminate E. }
  split.
  { split; [exact F1|]. split; [exact F2|]. split; [reflexivity|]. cbn [obs_at ob_mem ob_dirs].
    exists (blk, off), c, (slots_of (s_disk s') (data_blocks v' chn)), dc, (slots_of (s_disk s) pbl), extra, bytes. cbn [fst snd].
    split.
    { unfold mem_view. apply cd_vget_gone. intros e ch Hn Ep. apply Hfresh. rewrite <- Ep. exact (in_map node_pos _ _ Hn). }
    split; [exact Hcnone|]. split.
    { exact (dget_dir_view _ _ _ _ _ _ _ _ Hinv' (s_disk s') c (data_blocks v' chn) chn
               (or_intror (ex_intro _ newe (ex_intro _ kn (conj Hnew (conj Enew eq_refl)))))). }
    split.
    { intros Ec. rewrite Ec in Hcnone. rewrite (dget_dir_view _ _ _ _ _ _ _ _ Hinv (s_disk s) dc pbl pch0 Hdir) in Hcnone. discriminate Hcnone. }
    split; [exact (dget_dir_view _ _ _ _ _ _ _ _ Hinv (s_disk s) dc pbl pch0 Hdir)|]. split; [exact Hkey|]. split; [exact Hzs|].
    split; [rewrite (dget_dir_view _ _ _ _ _ _ _ _ Hinv' (s_disk s') dc pbl' chd' Hdir'), Hslots; reflexivity|].
    intros c0 N1 N2. exact (Hother c0 N1 N2). }
  (* the shape of the new directory *)
  pose proof (Hchain' newe chn kn Hnew) as Hcn. rewrite Enew in Hcn.
  pose proof (chain_at_det _ _ _ _ _ Hcn Hcc) as Echn. subst chn.
  set (dot := ser_bytes (v_fat32 v) (mk_dirent THIS_DIR_NAME now now A_DIRECTORY c 0 (cluster_first_block v c) 0)) in *.
  set (dotdot := ser_bytes (v_fat32 v) (mk_dirent PARENT_DIR_NAME now now A_DIRECTORY pcl 0 (cluster_first_block v c) 32)) in *.
  assert (Hl1 : length dot = 32%nat) by (apply ser_bytes_length; reflexivity).
  assert (Hl2 : length dotdot = 32%nat) by (apply ser_bytes_length; reflexivity).
  destruct (cd_new_dir_slots (s_disk s') v c dot dotdot Hspc Hl1 Hl2 Hdots Hzero) as (zs & Ezs & Hzz).
  exists c, (cluster_first_block v c), dot, dotdot, zs. cbn [obs_at ob_dirs].
  split; [exact Hcnone|]. split.
  { rewrite (dget_dir_view _ _ _ _ _ _ _ _ Hinv' (s_disk s') c (data_blocks v' [c]) [c]
               (or_intror (ex_intro _ newe (ex_intro _ kn (conj Hnew (conj Enew eq_refl)))))).
    rewrite (data_blocks_geo v v' [c] G), mkd_data_blocks_one, Ezs. reflexivity. }
  split.
  { exact (proj1 (ser_slot (v_fat32 v) (mk_dirent THIS_DIR_NAME now now A_DIRECTORY c 0 (cluster_first_block v c) 0)
                    (cluster_first_block v c) 0 eq_refl)). }
  split; [|exact Hzz].
  exact (proj1 (ser_slot (v_fat32 v) (mk_dirent PARENT_DIR_NAME now now A_DIRECTORY pcl 0 (cluster_first_block v c) 32)
                  (cluster_first_block v c) 32 eq_refl)).
Qed.

(* ---- 2g. step_content (Mkdir d name) ---- *)
Lemma mk_same_content (e : err) a : mkdir_content (Err e) a a.
Proof. split; [intros q; split; reflexivity|]. split; [reflexivity|intros c; reflexivity]. Qed.

(* every outcome: the obligation, and for the success the shape of the new directory *)
Theorem content_Mkdir_shape fsz vid d name s r s' a :
  fs_inv fsz vid s -> op_known_ok (Mkdir d name) -> step (Mkdir d name) s = (r, s') -> observes fsz vid s a ->
  exists a', observes fsz vid s' a' /\ mkdir_content r a a' /\ (r = Ok RUnit -> mkdir_new_shape a a').
Proof.
  intros Hinv Hknown Hs Ho. pose proof (fs_inv_lock fsz vid s Hinv) as Hl.
  cbn [step] in Hs. pose proof Ho as (vi & v & bl & rch & T & Hat & Ea).
  destruct (mkd_facts _ _ _ _ _ _ _ _ Hat) as (_ & Hnf & Hc & Ev & Evi & Hv0 & Hv & _ & _ & _ & _ & _).
  subst vi.
  assert (Hsame : forall e, (r, s') = (Err e, s) ->
            exists a', observes fsz vid s' a' /\ mkdir_content r a a' /\ (r = Ok RUnit -> mkdir_new_shape a a')).
  { intros e E. injection E as -> ->. exists a. split; [exact Ho|]. split; [apply mk_same_content|intros X; discriminate X]. }
  destruct (find_idx (fun x => d_id x =? d) (s_dirs s) 0) as [di|] eqn:Efind.
  2:{ assert (Hno : PrHandles.no_dir d s) by (intros x Hx; apply N.eqb_neq; exact (find_idx_none_inv _ _ _ Efind x Hx)).
    destruct (PrHandles.C08_stale_dir_handle d s Hl Hno) as (_ & _ & _ & _ & _ & E & _). specialize (E name). cbn [step] in E.
    rewrite E in Hs. exact (Hsame _ (eq_sym Hs)). }
  destruct (find_idx_nth _ _ _ _ Efind) as (dd & Hdd & _). rewrite Nat.sub_0_r in Hdd.
  assert (H1 : get_dir_by_id d s = (Ok di, s)) by (rewrite PrHandles.get_dir_by_id_eq, Efind; reflexivity).
  assert (H2 : get_dir di s = (Ok dd, s)) by (rewrite PrHandles.get_dir_eq, Hdd; reflexivity).
  destruct (is_full (s_dirs s) (s_maxd s)) eqn:Hfull.
  { assert (E : make_dir_in_dir d name s = (Err TooManyOpenDirs, s)).
    { unfold make_dir_in_dir. rewrite (PrHandles.locked_free _ s Hl), PrHandles.bind_get, Hfull. reflexivity. }
    rewrite (PrHandles.lift_err _ _ _ _ _ E) in Hs. exact (Hsame _ (eq_sym Hs)). }
  assert (H3 : get_volume_by_id (d_vol dd) s = if v_id v =? d_vol dd then (Ok 0%nat, s) else (Err BadHandle, s)).
  { rewrite PrHandles.get_volume_by_id_eq, Ev. cbn [find_idx]. destruct (v_id v =? d_vol dd); reflexivity. }
  destruct (N.eqb_spec (v_id v) (d_vol dd)) as [Evol|Nvol].
  2:{ assert (E : make_dir_in_dir d name s = (Err BadHandle, s)).
    { unfold make_dir_in_dir. rewrite (PrHandles.locked_free _ s Hl), PrHandles.bind_get, Hfull.
      rewrite (bind_ok _ _ _ _ _ H1), (bind_ok _ _ _ _ _ H2). apply bind_err. exact H3. }
    rewrite (PrHandles.lift_err _ _ _ _ _ E) in Hs. exact (Hsame _ (eq_sym Hs)). }
  assert (Hres : PrModes.resolves s d di dd 0 v).
  { split; [exact Hl|]. split; [exact H1|]. split; [exact H2|]. split; [exact H3|].
    rewrite PrHandles.get_vol_eq, Hv0. reflexivity. }
  assert (Hdir : mkd_is_dir T (d_cluster dd)).
  { pose proof (fi_dirs _ _ _ _ _ _ _ _ Hat) as Hd. rewrite Forall_forall in Hd.
    exact (Hd dd (nth_error_In _ _ Hdd) (eq_sym Evol)). }
  destruct (sfn_of_str name) as [sfn|] eqn:Hsfn.
  2:{ assert (E : make_dir_in_dir d name s = (Err FilenameError, s)).
      { unfold make_dir_in_dir. rewrite (PrHandles.locked_free _ s Hl), PrHandles.bind_get, Hfull.
        rewrite (bind_ok _ _ _ _ _ H1), (bind_ok _ _ _ _ _ H2), (bind_ok _ _ _ _ _ H3), Hsfn. reflexivity. }
      rewrite (PrHandles.lift_err _ _ _ _ _ E) in Hs. exact (Hsame _ (eq_sym Hs)). }
  destruct (PrModes.C07_mkdir_refusals s d di dd 0%nat v name sfn Hres Hfull Hsfn) as (Rdot & Rfound).
  destruct (PrModes.dot_name sfn) eqn:Hdot.
  { rewrite (PrHandles.lift_err _ _ _ _ _ (Rdot eq_refl)) in Hs. exact (Hsame _ (eq_sym Hs)). }
  specialize (Rfound eq_refl).
  (* the lookup *)
  destruct (mkd_ctx _ _ _ _ _ _ _ _ (d_cluster dd) Hat Hdir) as (pbl & pp & Hbl & Hok & Hnd & Hcls & Hrange & Hhead & Hwhere).
  destruct (C06_find 0 v (d_cluster dd) sfn s pbl Hv0 Hv Hnf Hc Hbl) as (s1 & Hfind & Hro).
  pose proof (mkd_ro _ _ _ _ _ _ _ _ _ Hat Hro) as Hat1.
  pose proof (cd_ro_same fsz vid s s1 a Ho Hro) as Ho1.
  pose proof (observes_at_inv _ _ _ _ _ _ _ _ _ Ho1 Hat1) as Ea1.
  destruct Hro as (Hd1 & Hc1 & Hnf1 & Hm1). pose proof Hm1 as (M1 & _).
  destruct (find (t_matches sfn) (live_in_blocks (s_disk s) pbl)) as [t|] eqn:Ematch.
  { (* the name exists *)
    destruct (Rfound _ _ _ Hfind eq_refl) as (E & _).
    rewrite (PrHandles.lift_err _ _ _ _ _ E) in Hs. injection Hs as <- <-.
    exists a. split; [exact Ho1|]. split; [apply mk_same_content|intros X; discriminate X]. }
  (* NotFound: make_dir runs in the state after the lookup *)
  assert (Erun : make_dir_in_dir d name s = make_dir 0 (d_cluster dd) sfn A_DIRECTORY s1).
  { unfold make_dir_in_dir. rewrite (PrHandles.locked_free _ s Hl), PrHandles.bind_get, Hfull.
    rewrite (bind_ok _ _ _ _ _ H1), (bind_ok _ _ _ _ _ H2), (bind_ok _ _ _ _ _ H3), Hsfn.
    unfold PrModes.dot_name in Hdot. rewrite Hdot. unfold bind at 1, try. rewrite Hfind. reflexivity. }
  destruct (mkd_sfn_of_str_wf name sfn Hsfn) as (Hlen & Hge).
  assert (H0 : get8 sfn 0 <> 0).
  { destruct sfn as [|b0 rest]; [discriminate Hlen|]. inversion Hge; subst. unfold get8. cbn [N.to_nat nth]. lia. }
  assert (H229 : get8 sfn 0 <> 229).
  { destruct Hknown as (_ & Hn). cbn [op_name_ok] in Hn. unfold e5_name in Hn. rewrite Hsfn in Hn.
    apply N.eqb_neq. exact Hn. }
  destruct (mkd_facts _ _ _ _ _ _ _ _ Hat1) as (_ & _ & _ & Ev1 & _ & _ & _ & _ & Hwf1 & _ & Hpre1 & Hfit1).
  rewrite <- Hd1 in Hbl, Hok, Hcls, Hwhere, Ematch.
  assert (Hhead1 : negb (v_fat32 v) && (d_cluster dd =? CL_ROOT) = false -> In (dir_first_cluster v (d_cluster dd)) (iv_hs s1 v T)).
  { intros E. specialize (Hhead E). unfold iv_hs, pend_of in *. rewrite Hd1. destruct Hm1 as (_ & _ & -> & _). exact Hhead. }
  destruct (make_dir_run fsz (v_nblocks v) 0%nat v (iv_hs s1 v T) (d_cluster dd) sfn pbl s1 Hpre1
              (fi_layout _ _ _ _ _ _ _ _ Hat1) Hfit1 Hwf1 (iv_wf _ _ _ _ _ _ _ _ Hat1) Hbl Hhead1 Hlen)
    as (r0 & s2 & Hmk & Hcommon & Hout).
  assert (Hfresh : ~ In sfn (map t_name (dir_shorts (s_disk s1) pbl))).
  { apply name_fresh; [exact (do_tail _ _ _ _ _ Hok)|exact Ematch]. }
  destruct (mkx_make_dir fsz vid s1 0%nat v bl rch T (d_cluster dd) sfn pbl pp r0 s2 Hat1 Hok Hnd Hcls Hrange Hwhere
              Hlen H0 H229 Hdot Hfresh Hcommon Hout) as (v' & G & Efiles & Hx).
  assert (Hdir1 : exists pch0, is_dir_of v bl rch T (d_cluster dd) pbl pch0).
  { destruct Hwhere as [(E1 & E2 & _)|(pe & pch & pkids & HP & Edc & Epbl & _)].
    - exists rch. left. repeat split; assumption.
    - exists pch. right. exists pe, pkids. repeat split; assumption. }
  destruct Hdir1 as (pch0 & Hdir1).
  unfold lift, bind in Hs. rewrite Erun, Hmk in Hs. rewrite Ea1.
  assert (Hr0 : r0 = Ok tt \/ r0 = Err NotEnoughSpace) by (destruct Hout; auto).
  destruct Hr0 as [-> | ->]; injection Hs as <- <-.
  - destruct (mkx_ok_content fsz vid s1 0%nat v bl rch T (d_cluster dd) pbl pch0 s2 v' Hat1 G Efiles Hdir1 Hx) as (a' & Ho' & Hrel & Hshape).
    exists a'. split; [exact Ho'|]. split; [exact Hrel|intros _; exact Hshape].
  - destruct (mkx_err_content fsz vid s1 0%nat v bl rch T s2 v' NotEnoughSpace Hat1 G Efiles Hx) as (a' & Ho' & Hrel).
    exists a'. split; [exact Ho'|]. split; [exact Hrel|intros X; discriminate X].
Qed.

Theorem content_Mkdir fsz vid d name : step_content fsz vid (Mkdir d name).
Proof.
  intros s r s' a Hinv _ Hknown Hs Ho. cbn [content_rel].
  destruct (content_Mkdir_shape fsz vid d name s r s' a Hinv Hknown Hs Ho) as (a' & Ho' & Hrel & _).
  exists a'. split; [exact Ho'|exact Hrel].
Qed.

Print Assumptions content_Mkdir.
Print Assumptions content_Mkdir_shape.

(* ================================================================== 3. the hypotheses are satisfiable *)
(* PrGlobalDelete's FAT16 volume (file "A" of 3 bytes, empty file "B", one root-directory handle):
   Delete "A" succeeds, both states have an observation and they are related by delete_content;
   PrGlobalMkdir's blank FAT16 volume: Mkdir "A" succeeds and the two observations are related by
   mkdir_content (a new directory appears, one slot of the root directory changes) *)
Example content_dir_example :
  (exists a a', observes 16 0 exg_state a /\ observes 16 0 exg_s1 a' /\ delete_content [65] (Ok RUnit) a a') /\
  (exists s1 a a', step (Mkdir 9 [65]) mkd_ex_state = (Ok RUnit, s1) /\
     observes 256 0 mkd_ex_state a /\ observes 256 0 s1 a' /\ mkdir_content (Ok RUnit) a a').
Proof.
  split.
  - destruct del_example as (I0 & F0 & K0 & S1 & _).
    destruct (observes_exists 16 0 exg_state I0) as (a & Ho).
    destruct (content_Delete 16 0 5 [65] exg_state _ _ a I0 F0 K0 S1 Ho) as (a' & Ho' & Hrel).
    exists a, a'. split; [exact Ho|]. split; [exact Ho'|exact Hrel].
  - assert (F1 : fst (step (Mkdir 9 [65]) mkd_ex_state) = Ok RUnit) by (vm_compute; reflexivity).
    assert (I0 : PrHandles.all_ids mkd_ex_state = [0; 9] /\ s_next_id mkd_ex_state = 10) by (vm_compute; split; reflexivity).
    assert (Hk : op_known_ok (Mkdir 9 [65])) by (repeat split; vm_compute; reflexivity).
    destruct (step (Mkdir 9 [65]) mkd_ex_state) as [r1 s1] eqn:E1. cbn [fst] in F1. subst r1.
    assert (Hfresh : id_fresh mkd_ex_state).
    { intros x Hx. rewrite (proj1 I0) in Hx. rewrite (proj2 I0). destruct Hx as [<-|[<-|[]]]; discriminate. }
    destruct (observes_exists 256 0 mkd_ex_state mkd_ex_inv) as (a & Ho).
    destruct (content_Mkdir 256 0 9 [65] mkd_ex_state _ s1 a mkd_ex_inv Hfresh Hk E1 Ho) as (a' & Ho' & Hrel).
    exists s1, a, a'. split; [reflexivity|]. split; [exact Ho|]. split; [exact Ho'|exact Hrel].
Qed.

Check (content_Delete : forall fsz vid d name, step_content fsz vid (Delete d name)).
Check (content_Mkdir : forall fsz vid d name, step_content fsz vid (Mkdir d name)).
Print Assumptions cdel_cases.
Print Assumptions mkx_make_dir.
Print Assumptions content_dir_example.
