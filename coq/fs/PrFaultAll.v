(* C11 for whole histories of the model - the assembly of the per-operation fault theorems.
   `step_fault fsz vid o` (PrFaultDef) for EVERY operation, hence `C11_history_stmt`: in any history run
   with one armed device fault, the calls before the call that hits the fault return what they return
   without the fault, the invariant holds before that call, and that call returns an error, leaves
   the lock free and the handle tables intact, a medium satisfying the crash invariant (unique names in
   every directory), every file it does not target intact on the medium, and - for the calls that never
   write - a state of the invariant on the same file system, so that the retried call is a fault-free
   call.  Afterwards every handle can be closed. *)
From Coq Require Import NArith ZArith List Bool Lia.
From SdFs Require Import FsTypes FsBase FsFat FsMgr PrGlobalDef.
From SdFs Require PrHandles.
From SdFs Require Import PrFault2 PrFaultDef PrFaultDef6 PrFaultDef11 PrFaultMkdir PrFaultMkdir2 PrFaultMkdir3.
Import ListNotations.
Open Scope N_scope.

Theorem all_steps_fault_model : forall fsz vid o, step_fault fsz vid o.
Proof. intros fsz vid. apply all_steps_fault. intros d name. apply step_fault_Mkdir. Qed.

Theorem C11_history_model : forall fsz vid, C11_history_stmt fsz vid.
Proof. intros fsz vid. apply C11_history. apply all_steps_fault_model. Qed.

(* the statement of C11_history_stmt, unfolded *)
Theorem C11_history_unfolded fsz vid ops1 o ops2 s age v i :
  fs_inv fsz vid s -> PrHandles.handles_ok age s ->
  age + N.of_nat (length (ops1 ++ o :: ops2)) < U32 - 1 -> Forall op_known_ok (ops1 ++ o :: ops2) ->
  s_vols s = [v] ->
  let s1 := snd (run_ops ops1 (nf s)) in
  let a1 := snd (run_ops ops1 (arm s i)) in
  s_ncalls s1 <= s_ncalls s + i < s_ncalls (snd (step o s1)) ->
  fst (run_ops ops1 (arm s i)) = fst (run_ops ops1 (nf s)) /\
  nf a1 = s1 /\ fs_inv fsz vid s1 /\
  exists v1, s_vols s1 = [v1] /\ PrChain.geo_eq v v1 /\
    fault_outcome fsz vid o s1 v1 (fst (step o a1)) (snd (step o a1)).
Proof. exact (C11_history_model fsz vid ops1 o ops2 s age v i). Qed.

(* afterwards, whatever happened: the tables are well-formed and every handle can be closed *)
Theorem C11_handles_closable_model : forall age o s, age < U32 - 1 -> PrHandles.remount_ok o ->
  tables_ok age s -> s_lock (snd (step o s)) = false ->
  let s' := snd (step o s) in
  tables_ok (age + 1) s' /\
  (forall h, In h (PrHandles.dids s') ->
     exists s'', step (CloseDir h) s' = (Ok RUnit, s'') /\ PrHandles.no_dir h s'' /\ s_disk s'' = s_disk s') /\
  (forall h out s'', In h (PrHandles.fids s') -> Forall file_rec_ok (s_files s') ->
     step (CloseFile h) s' = (out, s'') ->
     (out = Ok RUnit \/ exists e, out = Err e) /\ PrHandles.no_file h s'' /\ s_lock s'' = false).
Proof. exact C11_handles_closable. Qed.

Print Assumptions all_steps_fault_model.
Print Assumptions C11_history_model.
Print Assumptions C11_history_unfolded.
Print Assumptions C11_handles_closable_model.
