(* Property C08 - handles, limits and the re-entrancy lock
   This file contains only property theorems (each closed by `exact`), `Check` pins and
   `Print Assumptions`.  FULL STATEMENT (DESIGN.md 4 C08) is not yet proved for the whole
   layer-B model; what is proved here are the named mechanisms, for all inputs.  The gap is
   covered - visibly - by the correspondence check and the spec oracle (see evidence). *)
From Coq Require Import NArith ZArith List Bool.
From SdFs Require Import FsTypes FsBase FsFat FsMgr FsLemmas.
Import ListNotations.
Open Scope N_scope.


Theorem C08_fresh_window : forall next age h : N, next < U32 -> h < U32 -> 0 < age -> age < U32 -> (h + age) mod U32 = next -> h <> next.
Proof. exact window_fresh. Qed.

Theorem C08_wrap_refuted : exists next age h : N, next < U32 /\ h < U32 /\ 0 < age /\ (h + age) mod U32 = next /\ h = next.
Proof. exact C08_wrap_refuted_arith. Qed.

Theorem C08_generate : forall s, generate s = (Ok (s_next_id s), set_s_next_id s ((s_next_id s + 1) mod U32)).
Proof. exact generate_spec. Qed.

Theorem C08_close_frees_one_slot : forall (A : Type) (l : list A) i, (i < length l)%nat -> length (swap_remove l i) = (length l - 1)%nat.
Proof. exact @swap_remove_length. Qed.

Theorem C08_close_invents_nothing : forall (A : Type) (l : list A) i y, In y (swap_remove l i) -> In y l.
Proof. exact @swap_remove_subset. Qed.

Print Assumptions C08_fresh_window.
Print Assumptions C08_wrap_refuted.
Print Assumptions C08_generate.
Print Assumptions C08_close_frees_one_slot.
Print Assumptions C08_close_invents_nothing.
