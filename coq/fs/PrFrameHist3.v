(* PROOFS, C04 second sentence (continued): the frame obligation PrFrameHist.step_frame for the two
   directory operations that move clusters:
     Delete   refusals: nothing changes.  Ok: the first byte of the slot of the file found (0xE5), the FAT
              entries of its chain (all freed).
     Mkdir    refusals, "no free cluster": nothing changes.  Otherwise a cluster c that was free is taken
              (its entry, its blocks: dot entries + zeroes); then
              - the parent has a free slot: that slot;
              - the parent is full: the last entry of the parent's chain and the entry of a second cluster
                c' that was free; the blocks of c' (zeroes, slot 0 of its first block);
              - no room for the entry (FAT16 root full / no second cluster): c is released again - its FAT
                entry is as before, its blocks stay overwritten.
   The runs are those of PrGlobalMkdirR / PrGlobalDelete, cut as in PrC16Dir (same proof scripts, the
   frame relation fr in the place of the free-cluster count). *)
From Coq Require Import NArith ZArith List Bool Lia Arith ZifyClasses ZifyInst Zify FMapPositive Permutation.
From SdFs Require Import FsTypes FsBase FsFat FsMgr FsLemmas PrBase PrFat PrAlloc PrDir PrSeek PrAllocEffect
  PrRw PrWrite PrFileSeq PrMulti PrEntry PrChain PrCount PrWf PrOpenClose PrGlobalDef PrGlobalMkdirT PrGlobalMkdirS
  PrGlobalMkdirR PrGlobalMkdir PrGlobalDelete.
From SdFs Require PrModes PrHandles PrCrash PrBounds PrOrder PrGlobalOpen2 PrFrameHist2.
From SdFs Require Import PrFrameHist.
Import ListNotations.
Open Scope N_scope.
Local Arguments N.mul : simpl never.
Local Arguments N.add : simpl never.
Local Arguments N.sub : simpl never.
Local Arguments N.div : simpl never.
Local Arguments N.modulo : simpl never.
Local Arguments N.land : simpl never.
Local Arguments N.lor : simpl never.
Local Arguments N.min : simpl never.
Local Arguments N.max : simpl never.
Local Ltac Zify.zify_post_hook ::= Z.to_euclidean_division_equations.

Local Notation off_fat := PrGlobalOpen2.off_fat.

(* ================================================================== 0. from PrGlobalMkdirR's vocabulary to fr *)
Lemma fr_fat_same v fsz B d d' : fat_same v fsz d d' ->
  (forall j, ~ PrBounds.in_fat v fsz j -> ~ In j B -> disk_get d' j = disk_get d j) -> fr v fsz [] B d d'.
Proof.
  intros Hs Hb. apply fr_sectors.
  - intros copy k Hk. apply Hs. exact (PrBounds.fat_copy_sector_in_fat v fsz copy k Hk).
  - intros j Hj Hn. apply Hb; [apply off_fat_in_fat; exact Hj|exact Hn].
Qed.

Lemma free_cl_geo' d v w c : geo_eq v w -> free_cl d v c -> free_cl d w c.
Proof. intros (a & b & ->) H. exact H. Qed.

(* ================================================================== 1. Delete *)
(* the deletion itself, from the state s1 after the lookup: the slot is marked 0xE5 (one directory block
   outside the FAT copies), then the chain of the file is released *)
Lemma ff_delete_core fsz vid s1 v bl rch T dc bl' parent kids sfn t :
  fs_inv_at fsz vid s1 0 v bl rch T -> del_ctx (s_disk s1) v T dc bl' parent kids ->
  sfn_shape sfn -> get8 sfn 0 <> 229 ->
  find (t_matches sfn) (live_in_blocks (s_disk s1) bl') = Some t ->
  is_directory (e_attr (t_entry (v_fat32 v) t)) = false ->
  let e := t_entry (v_fat32 v) t in
  exists s' tg,
    (delete_directory_entry 0 dc sfn ;;; free_cluster_chain 0 (e_cluster e)) s1 = (Ok tt, s') /\
    call_frame fsz v (heads v T ++ pend_of s1 v) (s_disk s1) (s_disk s') tg [] (Some (e_block e, e_offset e, [229])) /\
    (forall x, In x tg -> x = e_cluster e).
Proof.
  intros Hat Hctx Hs H229 Hfind Hndir e.
  destruct (del_found (s_disk s1) v T dc bl' parent kids sfn t Hctx Hs H229 Hfind Hndir)
    as (Hlive & Hname & Hdot & Hnodes & ch & Hkid & Hrep).
  destruct (dir_nodes_in (s_disk s1) bl' t Hnodes) as (_ & _ & blk & i & Hb & Hi & Et).
  destruct (del_facts _ _ _ _ _ _ _ _ Hat) as (Hl & Hnf & Hc & Ev & _ & Hv0 & Hvok & L & Hwf & Hvid & Hpre).
  pose proof (fi_layout _ _ _ _ _ _ _ _ Hat) as PL.
  pose proof (fi_disk _ _ _ _ _ _ _ _ Hat) as HD.
  pose proof (di_tree _ _ _ _ _ _ HD) as HT. pose proof (di_root _ _ _ _ _ _ HD) as Hroot.
  pose proof (dx_sub _ _ _ _ _ _ _ Hctx _ Hkid) as Hn0.
  (* the slot write *)
  pose proof (delete_directory_entry_spec 0 v dc sfn s1 bl' Hv0 Hvok Hnf Hc (dx_blocks _ _ _ _ _ _ _ Hctx)) as Hspec.
  rewrite Hfind, Et in Hspec.
  destruct (Hspec (Hwf blk)) as (s2 & Hrun2 & Hd2 & _ & _ & _ & _ & _ & Hc2 & Hnf2 & Hm2 & _).
  clear Hspec. subst t.
  set (e1 := t_entry (v_fat32 v) (blk, i * 32, slot (disk_get (s_disk s1) blk) i)) in *.
  assert (Eb1 : e_block e1 = blk) by reflexivity.
  assert (Eo1 : e_offset e1 = i * 32) by reflexivity.
  assert (Hblk : In blk (tree_dir_blocks v bl T)).
  { destruct (del_node_where (s_disk s1) v bl T _ HT Hn0) as (_ & _ & _ & H). exact H. }
  assert (Hdir : PrBounds.in_dir v blk) by exact (del_tree_block_in_dir (s_disk s1) v bl rch T blk Hroot HT Hblk).
  assert (Hnfat : ~ PrBounds.in_fat v fsz blk) by exact (del_in_dir_not_fat v fsz blk PL Hdir).
  assert (Hoffb : off_fat v fsz blk) by (apply off_fat_in_fat; exact Hnfat).
  assert (Hfs : fat_same v fsz (s_disk s1) (s_disk s2)) by (rewrite Hd2; apply fat_same_set; exact Hnfat).
  assert (F12 : fr v fsz [] [blk] (s_disk s1) (s_disk s2)) by (rewrite Hd2; apply fr_set; exact Hoffb).
  assert (Hvols2 : s_vols s2 = [v]) by (rewrite (proj1 Hm2); exact Ev).
  assert (Hpre2 : alloc_pre s2 0 v fsz).
  { apply (alloc_pre_frame v fsz 0%nat v s1 s2 Hpre (geo_eq_refl v) Hnf2 Hc2); [rewrite Hvols2; reflexivity|exact Hfs]. }
  assert (Hrep' := Hrep). apply node_rep_file in Hrep'. destruct Hrep' as (_ & _ & Hec).
  assert (Hslot : forall d', disk_get d' blk = disk_get (s_disk s2) blk ->
            PrBounds.in_dir v blk /\ i * 32 + N.of_nat (length [229]) <= 512 /\
            (disk_get d' blk = set_bytes (disk_get (s_disk s1) blk) (i * 32) [229] \/
             ((exists c, free_cl (s_disk s1) v c /\ In blk (cluster_blocks v c)) /\
              disk_get d' blk = set_bytes zero_block (i * 32) [229]))).
  { intros d' Ed'. split; [exact Hdir|]. split; [cbn [length]; clear - Hi; lia|].
    left. rewrite Ed', Hd2, disk_get_set_same. reflexivity. }
  destruct Hec as [(Hge & fu & Hch)|(Hlt & ->)].
  - (* a file with a chain *)
    destruct (chain_at_head _ _ _ _ (chain_at_any _ _ _ _ _ Hch)) as (rest & ->).
    set (h := e_cluster e1) in *.
    assert (Hch2 : chain_of (s_disk s2) v h fu = Some (h :: rest)).
    { apply (chain_of_frame (s_disk s1) (s_disk s2) v _ _ _ Hch). intros x Hx.
      pose proof (chain_of_range _ _ _ _ _ Hch) as Rg. rewrite Forall_forall in Rg.
      exact (fat_same_get v fsz _ _ x L (proj2 (Rg x Hx)) Hfs). }
    pose proof Hpre2 as (Hst2 & _).
    destruct (free_cluster_chain_effect 0 v fsz s2 h rest fu L Hst2 Hch2) as (s' & Hrun3 & Heff).
    pose proof (fr_free _ _ _ _ _ _ _ Heff) as F23.
    exists s', [h]. split; [rewrite (bind_ok _ _ _ _ _ Hrun2); exact Hrun3|]. split; [|intros x [<-|[]]; reflexivity].
    split; [exact (val_free 0%nat v v fsz s2 h rest s' _ (geo_eq_refl v) (val_same v fsz _ _ _ _ (val_refl v fsz _) F12) Heff)|].
    exists ([] ++ (h :: rest)), ([blk] ++ []). split; [exact (fr_trans v fsz _ _ _ _ _ _ _ F12 F23)|].
    split.
    { intros x [<-|[]]. apply in_or_app. left. unfold heads. apply in_or_app. right.
      apply (own_head_in T _ _ Hn0). cbn [own_head]. fold h. apply N.leb_le in Hge. rewrite Hge. left. reflexivity. }
    split; [intros x []|]. split.
    { intros c Hc0. left. cbn [flat_map app]. rewrite app_nil_r, (chain_l_at _ _ _ _ (chain_at_any _ _ _ _ _ Hch)). exact Hc0. }
    split.
    { intros j [<-|[]]. right. right. left. eexists. eexists. reflexivity. }
    intros j off b E. injection E as <- <- <-. change (e_block e) with blk. change (e_offset e) with (i * 32). apply Hslot.
    apply (fe_frame _ _ _ _ _ _ _ Heff). exact Hoffb.
  - (* an empty file: nothing to free *)
    exists s2, []. split; [rewrite (bind_ok _ _ _ _ _ Hrun2); exact (free_reserved 0 _ s2 Hlt)|]. split; [|intros x []].
    split; [exact (val_same v fsz _ _ _ _ (val_refl v fsz _) F12)|].
    exists [], [blk]. split; [exact F12|]. split; [intros x []|]. split; [intros x []|]. split; [intros c []|]. split.
    { intros j [<-|[]]. right. right. left. eexists. eexists. reflexivity. }
    intros j off b E. injection E as <- <- <-. change (e_block e) with blk. change (e_offset e) with (i * 32). apply Hslot. reflexivity.
Qed.

Theorem step_frame_Delete fsz vid d name : step_frame fsz vid (Delete d name).
Proof.
  intros s r s' vi v bl rch T Hat _ (_ & Hname) Hs. cbn [step] in Hs.
  destruct (del_facts _ _ _ _ _ _ _ _ Hat) as (Hl & Hnf & Hc & Ev & E0 & Hv0 & Hvok & FL & _). subst vi.
  assert (Hnone : s_disk s' = s_disk s ->
            exists tg wch sl, call_frame fsz v (heads v T ++ pend_of s v) (s_disk s) (s_disk s') tg wch sl /\
                              op_owns s v (Delete d name) tg wch sl).
  { intros E. exists [], [], None. split; [apply call_frame_same; exact E|]. cbn [op_owns].
    split; [reflexivity|]. split; [intros x []|intros j off b E0; discriminate E0]. }
  assert (Hrefuse : forall e s1, s_disk s1 = s_disk s -> delete_file_in_dir d name s = (Err e, s1) ->
            exists tg wch sl, call_frame fsz v (heads v T ++ pend_of s v) (s_disk s) (s_disk s') tg wch sl /\
                              op_owns s v (Delete d name) tg wch sl).
  { intros e s1 Ed E. rewrite (lift_err' _ _ _ _ _ E) in Hs. injection Hs as <- <-. apply Hnone. exact Ed. }
  destruct (del_resolve _ _ _ _ _ _ _ _ d Hat) as [Hno|di dd H1 H2 Hne H3|di dd Hres Hvol Hdir].
  - (* stale handle *)
    destruct (PrHandles.C08_stale_dir_handle d s Hl Hno) as (_ & _ & _ & E1 & _). specialize (E1 name). cbn [step] in E1.
    rewrite E1 in Hs. injection Hs as <- <-. apply Hnone. reflexivity.
  - (* a handle of another volume id *)
    apply (Hrefuse BadHandle s eq_refl).
    unfold delete_file_in_dir. rewrite (PrHandles.locked_free _ s Hl).
    rewrite (bind_ok _ _ _ _ _ H1), (bind_ok _ _ _ _ _ H2). apply bind_err. exact H3.
  - pose proof Hres as (_ & H1 & H2 & H3 & H4).
    destruct (sfn_of_str name) as [sfn|] eqn:Hsfn.
    2:{ apply (Hrefuse FilenameError s eq_refl).
        unfold delete_file_in_dir. rewrite (PrHandles.locked_free _ s Hl).
        rewrite (bind_ok _ _ _ _ _ H1), (bind_ok _ _ _ _ _ H2), (bind_ok _ _ _ _ _ H3), Hsfn. reflexivity. }
    pose proof (del_sfn_shape name sfn Hsfn) as Hshape.
    assert (H229 : get8 sfn 0 <> 229).
    { cbn [op_name_ok] in Hname. unfold e5_name in Hname. rewrite Hsfn in Hname. apply N.eqb_neq. exact Hname. }
    destruct (del_ctx_of _ _ _ _ _ _ _ _ (d_cluster dd) Hat Hdir) as (bl' & parent & kids & Hctx).
    destruct (C06_find 0 v (d_cluster dd) sfn s bl' Hv0 Hvok Hnf Hc (dx_blocks _ _ _ _ _ _ _ Hctx)) as (s1 & Hrun & Hro).
    assert (Hro' : ro_step s s1) by exact Hro.
    pose proof (del_ro _ _ _ _ _ _ _ _ _ Hat Hro') as Hat1.
    destruct Hro as (Hd1 & _ & _ & Hm1).
    assert (Hvols1 : s_vols s1 = s_vols s) by exact (proj1 Hm1).
    destruct (PrFrameHist2.resolves_dir_id _ _ _ _ _ _ Hres) as (Hddin & Hddid).
    destruct (find (t_matches sfn) (live_in_blocks (s_disk s) bl')) as [t|] eqn:Hfind.
    + set (e := t_entry (v_fat32 v) t) in *.
      destruct (is_directory (e_attr e)) eqn:Hisdir.
      * destruct (PrModes.C07_delete_refusals s d di dd 0 v name sfn (Ok e) s1 DeleteDirAsFile Hres Hsfn Hrun) as (E & _).
        { cbn [PrModes.delete_refusal]. rewrite Hisdir. reflexivity. }
        exact (Hrefuse DeleteDirAsFile s1 Hd1 E).
      * destruct (PrModes.is_open s1 (d_vol dd) e) eqn:Hopen.
        -- destruct (PrModes.C07_delete_refusals s d di dd 0 v name sfn (Ok e) s1 FileAlreadyOpen Hres Hsfn Hrun) as (E & _).
           { cbn [PrModes.delete_refusal PrModes.found_open]. rewrite Hisdir, Hopen. reflexivity. }
           exact (Hrefuse FileAlreadyOpen s1 Hd1 E).
        -- (* the deletion *)
           assert (Hv1 : get_volume_by_id (d_vol dd) s1 = (Ok 0%nat, s1)).
           { rewrite (del_vol_lookup s1 v (d_vol dd) ltac:(rewrite Hvols1; exact Ev)).
             rewrite Hvol, N.eqb_refl. reflexivity. }
           pose proof (del_run_success s d di dd v name sfn e s1 Hres Hsfn Hrun Hisdir Hopen Hv1) as Erun.
           assert (Hctx1 : del_ctx (s_disk s1) v T (d_cluster dd) bl' parent kids) by (rewrite Hd1; exact Hctx).
           assert (Hfind1 : find (t_matches sfn) (live_in_blocks (s_disk s1) bl') = Some t) by (rewrite Hd1; exact Hfind).
           destruct (ff_delete_core fsz vid s1 v bl rch T (d_cluster dd) bl' parent kids sfn t Hat1 Hctx1 Hshape H229 Hfind1 Hisdir)
             as (s2 & tg & Drun & Hcf & Htg).
           fold e in Drun, Hcf, Htg. rewrite Drun in Erun. rewrite (lift_ok' _ _ _ _ _ Erun) in Hs. injection Hs as <- <-.
           assert (Ep : pend_of s1 v = pend_of s v).
           { unfold pend_of. rewrite Hd1. destruct Hm1 as (_ & _ & -> & _). reflexivity. }
           rewrite Ep, Hd1 in Hcf.
           assert (Hde : dir_entry s v d name e).
           { exists dd, sfn, bl', t. repeat (split; [first [assumption|exact (dx_blocks _ _ _ _ _ _ _ Hctx)]|]). reflexivity. }
           eexists tg, [], _. split; [exact Hcf|]. cbn [op_owns]. split; [reflexivity|]. split.
           ++ intros x Hx. exists e. split; [exact Hde|]. symmetry. exact (Htg x Hx).
           ++ intros j off b E0. injection E0 as <- <- <-. split; [reflexivity|].
              exists e. split; [exact Hde|split; reflexivity].
    + destruct (PrModes.C07_delete_refusals s d di dd 0 v name sfn (Err NotFound) s1 NotFound Hres Hsfn Hrun) as (E & _);
        [reflexivity|].
      exact (Hrefuse NotFound s1 Hd1 E).
Qed.

(* ================================================================== 2. make_dir: the prefix *)
(* PrGlobalMkdirR.mkdir_prefix (same run, same proof as PrC16Dir.c16_mkdir_prefix) with the frame of the
   segment s -> s6: the FAT entry of c, the blocks of cluster c *)
Lemma ff_mkdir_prefix fsz total v hs parent sfn s c s1 :
  s_vols s = [v] -> clusters_fit v ->
  alloc_pre s 0 v fsz -> PrBounds.part_layout v total fsz -> blocks_wf (s_disk s) ->
  fat_wf (s_disk s) v hs ->
  alloc_cluster 0 None false s = (Ok c, s1) ->
  exists s6 v1,
    make_dir 0 parent sfn A_DIRECTORY s = mkdir_rest 0 parent sfn c s6 /\
    prefix_ok fsz 0 v hs (if parent =? CL_ROOT then CL_EMPTY else parent) s c s6 v1 /\
    s_vols s6 = [v1] /\ fr v fsz [c] (cluster_blocks v c) (s_disk s) (s_disk s6) /\
    val_ok v fsz (s_disk s) (s_disk s6).
Proof.
  intros Ev Hfit Hpre L Hbw W Hal. set (vi := 0%nat) in *.
  pose proof Hpre as ((Hnf & Hc & Hvi & Hlen) & FL & Hh). pose proof (fl_vol v fsz FL) as Hv.
  pose proof (PrBounds.pl_spc v total fsz L) as Hspc.
  assert (Hprev0 : forall p, @None N = Some p -> p < v_clusters v + 2) by (intros p Ep; discriminate Ep).
  pose proof (alloc_cluster_effect vi v fsz None false s c s1 Hpre Hprev0 Hal) as Heff.
  destruct (ae_range _ _ _ _ _ _ _ _ Heff) as (C1 & C2 & C3).
  destruct (ae_vol _ _ _ _ _ _ _ _ Heff) as (nf & Evols & _).
  destruct (ae_tables _ _ _ _ _ _ _ _ Heff) as (A1 & A2 & A3 & A4 & A5 & A6 & A7 & A8 & A9).
  set (v1 := set_v_free (set_v_next_free v nf) (dec_free (v_free v))) in *.
  assert (G1 : geo_eq v v1) by (exists nf, (dec_free (v_free v)); reflexivity).
  assert (Hv1 : nth_error (s_vols s1) vi = Some v1) by (rewrite Evols; exact (ls_nth_same _ _ _ _ Hvi)).
  destruct (alloc_cluster_keeps_pre vi v fsz None false s c s1 Hpre Hprev0 Hal) as (w & Hw & Hpre1 & _).
  rewrite Hv1 in Hw. inversion Hw; subst w. clear Hw.
  pose proof Hpre1 as ((Hnf1 & Hc1 & _ & Hlen1) & FL1 & Hh1). pose proof (fl_vol v1 fsz FL1) as Hvok1.
  set (start := cluster_first_block v c).
  destruct (cluster_block_ok v1 c s1 Hvok1 C1 C2) as (Hcb & Hfit').
  change (cluster_first_block v1 c) with start in Hcb, Hfit'. change (v_spc v1) with (v_spc v) in Hfit'.
  set (now := clock_ts (s_clock s)).
  set (pcl := if parent =? CL_ROOT then CL_EMPTY else parent).
  set (dot := ser_bytes (v_fat32 v) (mk_dirent THIS_DIR_NAME now now A_DIRECTORY c 0 start 0)).
  set (dotdot := ser_bytes (v_fat32 v) (mk_dirent PARENT_DIR_NAME now now A_DIRECTORY pcl 0 start 32)).
  set (s2 := set_s_clock s1 (s_clock s1 + 1)).
  set (s3 := set_s_cache (set_s_tag s2 (Some start)) zero_block).
  set (s4 := set_s_cache s3 (set_bytes (set_bytes zero_block 0 dot) 32 dotdot)).
  assert (T4 : s_tag s4 = Some start) by reflexivity.
  assert (N4 : no_faults s4) by (apply (no_faults_step s1); [reflexivity|cbn; lia|exact Hnf1]).
  pose proof (write_back_ok start s4 T4 N4) as Hwb.
  match type of Hwb with _ = (_, ?st) => set (s5 := st) in * end.
  destruct (PrOrder.write_back_steps start s4 _ _ T4 N4 Hwb) as (_ & [S5 G5] & M5 & _).
  destruct (zero_loop (N.to_nat (v_spc v) - 1) (start + 1) s5 (proj1 G5) (proj2 G5))
    as (s6 & Hrun & Hnf6 & Hc6 & M6 & Hz6 & Hfr6 & Tr6).
  assert (Hts : ts_ok now) by apply ts_cal_ok, clock_ts_cal.
  exists s6, v1. split.
  { unfold make_dir. rewrite (bind_ok _ _ _ _ _ Hal).
    rewrite (bind_ok _ _ _ _ _ (get_vol_some vi v1 s1 Hv1)).
    rewrite (bind_ok _ _ _ _ _ Hcb).
    assert (E2 : get_timestamp s1 = (Ok now, s2)) by (unfold now; rewrite <- A4; reflexivity).
    rewrite (bind_ok _ _ _ _ _ E2).
    assert (E3 : blank_mut start s2 = (Ok tt, s3)) by reflexivity.
    rewrite (bind_ok _ _ _ _ _ E3).
    change (v_fat32 v1) with (v_fat32 v). change (v_spc v1) with (v_spc v).
    rewrite (bind_ok _ _ _ _ _ (serialize_ok (v_fat32 v) (mk_dirent THIS_DIR_NAME now now A_DIRECTORY c 0 start 0) s3 Hts Hts)).
    fold pcl.
    rewrite (bind_ok _ _ _ _ _ (serialize_ok (v_fat32 v) (mk_dirent PARENT_DIR_NAME now now A_DIRECTORY pcl 0 start 32) s3 Hts Hts)).
    fold dot dotdot.
    assert (E4 : cache_modify (fun b => set_bytes (set_bytes b 0 dot) 32 dotdot) s3 = (Ok tt, s4)) by reflexivity.
    rewrite (bind_ok _ _ _ _ _ E4).
    rewrite (bind_ok _ _ _ _ _ Hwb).
    rewrite (bind_ok _ _ _ _ _ (add32_ok _ _ s5 Hfit')).
    rewrite (bind_ok _ _ _ _ _ Hrun). reflexivity. }
  (* the device after the prefix *)
  assert (D5 : s_disk s5 = disk_set (s_disk s1) start (set_bytes (set_bytes zero_block 0 dot) 32 dotdot)) by reflexivity.
  assert (Elen : N.of_nat (N.to_nat (v_spc v) - 1) = v_spc v - 1) by lia.
  rewrite Elen in Hz6, Hfr6.
  assert (Hstart6 : disk_get (s_disk s6) start = set_bytes (set_bytes zero_block 0 dot) 32 dotdot).
  { rewrite Hfr6 by lia. rewrite D5. apply disk_get_set_same. }
  assert (Hout6 : forall j, j < start \/ start + v_spc v <= j -> disk_get (s_disk s6) j = disk_get (s_disk s1) j).
  { intros j Hj. rewrite Hfr6 by lia. rewrite D5. apply disk_get_set_other. lia. }
  assert (Hfs16 : fat_same v fsz (s_disk s1) (s_disk s6)).
  { intros j Hj. apply Hout6. destruct (PrBounds.in_fat_is_copy_sector v fsz j Hj) as (copy & k & Hk & ->).
    exact (PrBounds.fat_sector_outside_cluster v fsz copy k c FL Hk C1). }
  assert (Hnew6 : fat_get (s_disk s6) v 0 c = enc v CL_EOF).
  { rewrite (fat_same_get v fsz _ _ c FL C2 Hfs16). apply (ae_new _ _ _ _ _ _ _ _ Heff). discriminate. }
  assert (Hoth6 : forall x, x < v_clusters v + 2 -> x <> c -> fat_get (s_disk s6) v 0 x = fat_get (s_disk s) v 0 x).
  { intros x Hx Hne. rewrite (fat_same_get v fsz _ _ x FL Hx Hfs16).
    apply (ae_other _ _ _ _ _ _ _ _ Heff); [exact (layout_sector v fsz x FL Hx)|exact Hne|discriminate]. }
  destruct (wf_new_head (s_disk s) (s_disk s6) v hs c W C1 C2 C3 Hnew6 (fun x _ X2 Hne => Hoth6 x X2 Hne))
    as (W6 & Hch6 & Hfresh & Hkeep).
  assert (Hvols6 : s_vols s6 = s_vols s1) by (rewrite (proj1 M6); reflexivity).
  assert (Ev1 : s_vols s1 = [v1]) by (rewrite Evols, Ev; reflexivity).
  split; [|split].
  2:{ rewrite Hvols6. exact Ev1. }
  2:{ (* the frame: the allocation, then writes into the blocks of cluster c only *)
      pose proof (fr_alloc vi v fsz None false s c s1 FL Hprev0 Heff) as Fa. cbn [prev_list] in Fa.
      assert (F16 : fr v fsz [] (cluster_blocks v c) (s_disk s1) (s_disk s6)).
      { apply (fr_fat_same v fsz _ _ _ Hfs16). intros j _ Hnc. apply Hout6.
        rewrite in_cluster_blocks_iff in Hnc. unfold in_cluster in Hnc. fold start in Hnc. lia. }
      split; [exact (fr_trans v fsz _ _ _ _ _ _ _ Fa F16)|].
      apply (val_same v fsz _ (s_disk s1) _ (cluster_blocks v c)); [|exact F16].
      apply (val_alloc vi v v fsz None false s c s1 (s_disk s) (geo_eq_refl v) (val_refl v fsz _) Heff); [|discriminate].
      repeat split; assumption. }
  constructor.
  - rewrite Hvols6. exact Evols.
  - exact G1.
  - apply (alloc_pre_frame v fsz vi v1 s1 s6 Hpre1 G1 Hnf6 Hc6); [rewrite Hvols6; exact Hv1|exact Hfs16].
  - apply (tabs8_trans _ s5); [|exact (tabs8_mgr _ _ M6)]. unfold tabs8. cbn. repeat split; assumption.
  - destruct M6 as (_ & _ & _ & _ & E & _). rewrite E. cbn. rewrite A4. reflexivity.
  - assert (Hbw1 : blocks_wf (s_disk s1)) by exact (alloc_blocks_wf _ _ _ _ _ _ _ _ Hbw Heff).
    assert (Hdl : length dot = 32%nat) by (apply ser_bytes_length; reflexivity).
    assert (Hddl : length dotdot = 32%nat) by (apply ser_bytes_length; reflexivity).
    assert (Hzl : length zero_block = 512%nat) by apply repeat_length.
    assert (Hbw5 : blocks_wf (s_disk s5)).
    { rewrite D5. apply blocks_wf_set; [exact Hbw1|].
      rewrite set_bytes_length; rewrite set_bytes_length; rewrite ?Hzl, ?Hdl, ?Hddl; cbn; lia. }
    intros i. destruct (N.le_gt_cases (start + 1) i) as [Hi1|Hi1]; [destruct (N.lt_ge_cases i (start + v_spc v)) as [Hi2|Hi2]|].
    + rewrite Hz6 by lia. exact Hzl.
    + rewrite Hfr6 by lia. apply Hbw5.
    + rewrite Hfr6 by lia. apply Hbw5.
  - constructor.
    + repeat split; assumption.
    + exact Hstart6.
    + intros k K1 K2. apply Hz6; lia.
  - exact W6.
  - exact Hch6.
  - exact Hfresh.
  - exact Hkeep.
  - intros j Hj Hnc. rewrite Hout6.
    + apply (alloc_frame_blocks vi v fsz None false s c s1 Hpre Hprev0 Heff j Hj). intros E. discriminate E.
    + rewrite in_cluster_blocks_iff in Hnc. unfold in_cluster in Hnc. fold start in Hnc. lia.
  - exact Hoth6.
  - assert (T1 : PrOrder.tsteps s s1 (fat_writes v c)).
    { pose proof (tr_ext_tsteps _ _ _ (ae_trace _ _ _ _ _ _ _ _ Heff)) as T. rewrite dwrites_alloc in T.
      cbn [app] in T. rewrite app_nil_r in T. exact T. }
    assert (T5 : PrOrder.tsteps s1 s5 [start]).
    { apply (PrOrder.tsteps_trans _ s4 _ [] _); [apply PrOrder.tsteps_same_trace; reflexivity|exact S5]. }
    assert (T6 : PrOrder.tsteps s5 s6 (PrOrder.blocks_from (N.to_nat (v_spc v) - 1) (start + 1))).
    { pose proof (tr_ext_tsteps _ _ _ Tr6) as T. rewrite map_map in T. cbn [fst] in T. rewrite map_id in T. exact T. }
    rewrite (PrBounds.cluster_blocks_cons v c Hspc). fold start.
    exact (PrOrder.tsteps_trans _ _ _ _ _ T1 (PrOrder.tsteps_trans _ _ _ _ _ T5 T6)).
Qed.

(* ================================================================== 3. make_dir: the continuations *)
(* what the continuation did to the medium d6 after the prefix, in terms of the state s BEFORE make_dir:
   tg = the head of the parent's chain when it was extended; sl = the slot that received the entry *)
Definition rest_shape (fsz : N) (v : vol) (hs : list N) (parent : N) (pbl : list N) (s : st) (c : N) (d6 d' : disk)
                      (tg : list N) (sl : option (N * N * list N)) : Prop :=
  (val_ok v fsz (s_disk s) d6 -> val_ok v fsz (s_disk s) d') /\
  exists F B, fr v fsz F B d6 d' /\ incl tg hs /\ (forall x, In x tg -> x = dir_first_cluster v parent) /\
    (forall x, In x F -> x = c \/ In x (flat_map (chain_l (s_disk s) v) tg) \/ free_cl (s_disk s) v x) /\
    (forall j, In j B -> (exists c2, free_cl (s_disk s) v c2 /\ In j (cluster_blocks v c2)) \/
                         (exists off b, sl = Some (j, off, b))) /\
    (forall j off b, sl = Some (j, off, b) -> length b = 32%nat /\ PrBounds.in_dir v j /\ off + 32 <= 512 /\
       ((disk_get d' j = set_bytes (disk_get (s_disk s) j) off b /\
         exists sl0, find nv (slots_of (s_disk s) pbl) = Some (j, off, sl0)) \/
        (exists c2, free_cl (s_disk s) v c2 /\ j = cluster_first_block v c2 /\ off = 0 /\
                    disk_get d' j = set_bytes zero_block 0 b))).

Lemma ff_mkdir_rest fsz total v hs parent sfn pbl s c s6 v1 :
  PrBounds.part_layout v total fsz -> clusters_fit v ->
  dir_blocks (s_disk s) v parent = Some pbl ->
  (negb (v_fat32 v) && (parent =? CL_ROOT) = false -> In (dir_first_cluster v parent) hs) ->
  length sfn = 11%nat ->
  prefix_ok fsz 0 v hs (if parent =? CL_ROOT then CL_EMPTY else parent) s c s6 v1 ->
  s_vols s6 = [v1] ->
  exists r s' tg sl, mkdir_rest 0 parent sfn c s6 = (r, s') /\
    rest_shape fsz v hs parent pbl s c (s_disk s6) (s_disk s') tg sl.
Proof.
  intros L Hfit Hbl Hhead Hname PX Ev6. set (vi := 0%nat) in *.
  destruct (prefix_parent fsz total vi v hs _ parent pbl s c s6 v1 L Hbl Hhead PX) as (Hf & Hsame & Hslots & Hbl6).
  pose proof PX as [Evols G Hpre6 Htabs Hclk Hbw6 Hcl W6 Hnew6 Hfresh Hkeep Hframe Hfat Hsteps].
  pose proof Hpre6 as ((Hnf6 & Hc6 & Hvi6 & _) & FL1 & Hh1). pose proof (fl_vol v1 fsz FL1) as Hvok1.
  assert (FL : fat_layout v fsz) by exact (geo_layout v1 v fsz (geo_eq_sym _ _ G) FL1).
  destruct (mk_range _ _ _ _ _ _ Hcl) as (C1 & C2 & C3).
  destruct (geo_facts v v1 G) as (Gspc & G32 & Gcl & Gwf & Gcfb & Gcb & Gfg & Genc & Gdfc & Groot & Gfw & Gfat & Gdata).
  pose proof (geo_eq_sym _ _ G) as G'.
  destruct (find nv (slots_of (s_disk s) pbl)) as [[[blk off] sl0]|] eqn:Hfind.
  { (* the parent has a free slot *)
    pose proof (find_some _ _ Hfind) as [Hin _].
    apply In_slots_of in Hin. destruct Hin as (b & i & Hb & Hi & Et). injection Et as Eb Eo Es. subst b.
    destruct (Hf blk Hb) as (Nfat & Ncl & Hdir).
    assert (Hfind6 : find nv (slots_of (s_disk s6) pbl) = Some (blk, off, sl0)) by (rewrite Hslots; exact Hfind).
    pose proof (write_new_directory_entry_spec vi v1 parent sfn A_DIRECTORY c s6 pbl blk off sl0
                  Hvi6 (fl_vol v1 fsz FL1) Hnf6 Hc6 Hbl6 Hfind6 Hname (Hbw6 blk)) as Spec.
    cbv zeta in Spec. destruct Spec as (s' & Erun & Hd' & _ & _ & _ & Hc' & Hnf' & Hclk' & Htab' & l & Htr & Hl).
    assert (Efat : v_fat32 v1 = v_fat32 v) by (destruct G as (a & b0 & ->); reflexivity).
    rewrite Efat, Hclk, (Hsame blk Hb) in Hd'.
    set (tm := clock_ts (s_clock s + 1)) in *.
    set (bytes := ser_bytes (v_fat32 v) (mk_dirent sfn tm tm A_DIRECTORY c 0 blk off)) in *.
    assert (Hlb : length bytes = 32%nat) by (unfold bytes; apply ser_bytes_length; exact Hname).
    exists (Ok tt), s', [], (Some (blk, off, bytes)). split.
    { unfold mkdir_rest. rewrite (bind_ok _ _ _ _ _ (try_ok _ _ _ _ Erun)). reflexivity. }
    assert (Fs : fr v fsz [] [blk] (s_disk s6) (s_disk s')) by (rewrite Hd'; apply fr_set; apply off_fat_in_fat; exact Nfat).
    split; [intros H6; exact (val_same v fsz _ _ _ _ H6 Fs)|].
    exists [], [blk]. split; [exact Fs|].
    split; [intros x []|]. split; [intros x []|]. split; [intros x []|]. split.
    - intros j [<-|[]]. right. eexists. eexists. reflexivity.
    - intros j off0 b0 E. injection E as <- <- <-. split; [exact Hlb|]. split; [exact Hdir|].
      split; [subst off; clear - Hi; lia|]. left. split; [rewrite Hd'; apply disk_get_set_same|].
      exists sl0. exact Hfind. }
  assert (Hstop6 : stop_at N free_in (s_disk s6) pbl = None) by (rewrite stop_at_free, Hslots, Hfind; reflexivity).
  set (body := create_body (v_fat32 v1) sfn A_DIRECTORY c).
  set (post := create_post (v_fat32 v1) sfn A_DIRECTORY c).
  pose proof (create_body_none (v_fat32 v1) sfn A_DIRECTORY c) as Bn. fold body in Bn.
  assert (Bs : forall blk t x, no_faults t -> cache_ok t -> free_in (s_disk t) blk = Some x ->
                 exists r t', body blk t = (Ok (Some r), t') /\ post blk x t r t')
    by (intros blk0 t0 x; exact (create_body_some (v_fat32 v1) sfn A_DIRECTORY c blk0 t0 x)).
  (* the common end of the two failures: t differs from s6 by reads only; cluster c is released *)
  assert (Hfail : forall t, write_new_directory_entry vi parent sfn A_DIRECTORY c s6 = (Err NotEnoughSpace, t) ->
            s_disk t = s_disk s6 -> alloc_pre t vi v1 fsz -> s_vols t = s_vols s6 ->
            exists r s' tg sl, mkdir_rest vi parent sfn c s6 = (r, s') /\
              rest_shape fsz v hs parent pbl s c (s_disk s6) (s_disk s') tg sl).
  { intros t Ewn Hd Hpret Hvt.
    assert (Hcht : chain_of (s_disk t) v1 c (walk_fuel v1) = Some [c])
      by (rewrite Hd; apply (chain_at_geo _ v v1 c [c] G); exact Hnew6).
    pose proof Hpret as (Hstt & _).
    destruct (free_cluster_chain_effect vi v1 fsz t c [] (walk_fuel v1) FL1 Hstt Hcht) as (s' & Efree & Heff).
    pose proof (fr_free _ _ _ _ _ _ _ Heff) as Ff. rewrite Hd in Ff. apply (fr_geo v1 v fsz _ _ _ _ G') in Ff.
    assert (Vf : val_ok v fsz (s_disk s) (s_disk s6) -> val_ok v fsz (s_disk s) (s_disk s')).
    { intros H6. apply (val_free vi v v1 fsz t c [] s' _ G); [rewrite Hd; exact H6|exact Heff]. }
    exists (Err NotEnoughSpace), s', [], None. split.
    { unfold mkdir_rest. rewrite (bind_ok _ _ _ _ _ (try_err _ _ _ _ Ewn)).
      rewrite (bind_ok _ _ _ _ _ Efree). reflexivity. }
    split; [exact Vf|].
    exists [c], []. split; [exact Ff|]. split; [intros x []|]. split; [intros x []|]. split.
    - intros x [<-|[]]. left. reflexivity.
    - split; [intros j []|]. intros j off b E. discriminate E. }
  unfold dir_blocks in Hbl. destruct (negb (v_fat32 v) && (parent =? CL_ROOT)) eqn:Eroot.
  - (* the fixed root directory of a FAT16 volume is full *)
    apply andb_true_iff in Eroot. destruct Eroot as [H16 Hdc]. apply negb_true_iff in H16.
    apply N.eqb_eq in Hdc. subst parent. inversion Hbl; subst pbl. clear Hbl.
    assert (H16' : v_fat32 v1 = false) by (rewrite G32; exact H16).
    pose proof (walk_dir_root16_stop dirent N free_in body post Bn Bs vi v1 true Hvok1 H16'
                  (N.to_nat (v_clusters v1) + 3) s6 Hvi6 Hnf6 Hc6) as Hw.
    rewrite Groot, Hstop6 in Hw. destruct Hw as (s7 & Ewalk & Hrd7).
    assert (Ewn : write_new_directory_entry vi CL_ROOT sfn A_DIRECTORY c s6 = (Err NotEnoughSpace, s7)).
    { rewrite write_new_is. rewrite (bind_ok _ _ _ _ _ (get_vol_some vi v1 s6 Hvi6)).
      fold body. unfold dir_first_cluster, walk_fuel. rewrite H16'. cbn [andb].
      replace (N.to_nat (v_clusters v1) + 4)%nat with (S (N.to_nat (v_clusters v1) + 3)) by lia.
      rewrite (bind_ok _ _ _ _ _ Ewalk). reflexivity. }
    pose proof Hrd7 as ((Hd7 & Hc7 & Hnf7 & Hm7) & _).
    apply (Hfail s7 Ewn Hd7).
    + exact (alloc_pre_ro vi v1 fsz s6 s7 Hpre6 (proj1 Hrd7)).
    + exact (proj1 Hm7).
  - (* the parent is a cluster chain: it has to grow *)
    destruct (chain_of (s_disk s) v (dir_first_cluster v parent) (walk_fuel v)) as [pch|] eqn:Hch; [|discriminate].
    inversion Hbl; subst pbl. clear Hbl.
    set (pc := dir_first_cluster v parent) in *.
    assert (Hpc : In pc hs) by exact (Hhead eq_refl).
    assert (Hch6 : chain_at (s_disk s6) v pc pch) by exact (Hkeep pc pch Hpc Hch).
    assert (Hch61 : chain_of (s_disk s6) v1 pc (walk_fuel v1) = Some pch)
      by (apply (chain_at_geo _ v v1 pc pch G); exact Hch6).
    assert (Hstop61 : stop_at N free_in (s_disk s6) (flat_map (cluster_blocks v1) pch) = None).
    { replace (flat_map (cluster_blocks v1) pch) with (flat_map (cluster_blocks v) pch); [exact Hstop6|].
      apply flat_map_ext. intros x. symmetry. apply Gcb. }
    destruct (walk_dir_chain_grow dirent N free_in body post Bn Bs vi v1 Hvok1 (walk_fuel v1) pc s6 pch
                Hvi6 Hnf6 Hc6 Hch61 Hstop61) as (s7 & Hrd7 & Ewalk).
    pose proof Hrd7 as ((Hd7 & Hc7 & Hnf7 & Hm7) & _).
    pose proof (alloc_pre_ro vi v1 fsz s6 s7 Hpre6 (proj1 Hrd7)) as Hpre7.
    destruct (chain_of_head _ _ _ _ _ Hch) as (_ & _ & l' & El).
    assert (Hne : pch <> []) by (rewrite El; discriminate).
    destruct (exists_last Hne) as (pre & p & Esplit).
    assert (Elast : last pch pc = p) by (rewrite Esplit; apply last_last).
    rewrite Elast in Ewalk.
    assert (Hpin : In p pch) by (rewrite Esplit; apply in_or_app; right; left; reflexivity).
    pose proof (chain_of_range _ _ _ _ _ Hch) as Rg. rewrite Forall_forall in Rg. destruct (Rg p Hpin) as (P1 & P2).
    assert (Hprev : forall q, Some p = Some q -> q < v_clusters v1 + 2)
      by (intros q E; inversion E; subst q; rewrite Gcl; exact P2).
    destruct (alloc_cluster_total vi v1 fsz (Some p) true s7 Hpre7 Hprev)
      as (o & s8 & Hal & [(-> & Hnone & Hd8 & Hm8 & T8 & Hst8)|(c' & -> & Heff)]).
    + (* no free cluster is left *)
      assert (Ewn : write_new_directory_entry vi parent sfn A_DIRECTORY c s6 = (Err NotEnoughSpace, s8)).
      { rewrite write_new_is. rewrite (bind_ok _ _ _ _ _ (get_vol_some vi v1 s6 Hvi6)).
        rewrite Gdfc. fold pc body.
        assert (E : walk_dir (walk_fuel v1) vi pc true body s6 = (Err NotEnoughSpace, s8))
          by (rewrite Ewalk; exact (bind_err _ _ _ _ _ Hal)).
        exact (bind_err _ _ _ _ _ E). }
      apply (Hfail s8 Ewn).
      * rewrite Hd8. exact Hd7.
      * split; [exact Hst8|split; assumption].
      * rewrite (proj1 Hm8). exact (proj1 Hm7).
    + (* the parent grows by the zeroed cluster c' *)
      destruct (ae_range _ _ _ _ _ _ _ _ Heff) as (R1 & R2 & R3). rewrite Gcl in R2. rewrite Gfg in R3.
      assert (Hpnz : fat_get (s_disk s7) v 0 p <> 0).
      { rewrite Hd7. destruct (chain_at_mem _ _ _ _ p Hch6 Hpin) as (_ & _ & Z & _). exact Z. }
      destruct (alloc_vol_explicit vi v1 fsz (Some p) true s7 c' s8 Hpre7 Heff) as (v2 & Evols8 & G12 & Hpre8).
      pose proof (geo_eq_trans _ _ _ G G12) as G2.
      destruct (geo_facts v v2 G2) as (Gspc2 & G322 & Gcl2 & Gwf2 & Gcfb2 & Gcb2 & Gfg2 & Genc2 & _ & _ & _ & Gfat2 & _).
      pose proof Hpre8 as ((Hnf8 & Hc8 & Hvi8 & _) & FL2 & Hh2). pose proof (fl_vol v2 fsz FL2) as Hvok2.
      pose proof (chain_length _ _ _ _ _ Hch) as Hlen.
      assert (Hk : exists k', (walk_fuel v1 - length pch)%nat = S k').
      { exists (walk_fuel v1 - length pch - 1)%nat. rewrite Gwf. unfold walk_fuel. lia. }
      destruct Hk as (k' & Ek). rewrite Ek in Ewalk.
      pose proof (PrBounds.pl_spc v total fsz L) as Hspc.
      set (nb := cluster_first_block v c').
      assert (Hz8 : forall k, k < v_spc v -> disk_get (s_disk s8) (nb + k) = zero_block).
      { intros k Hk. unfold nb. rewrite <- Gcfb. apply (ae_zero _ _ _ _ _ _ _ _ Heff eq_refl). rewrite Gspc. exact Hk. }
      assert (Hnb8 : disk_get (s_disk s8) nb = zero_block) by (rewrite <- (N.add_0_r nb); apply Hz8; lia).
      assert (Hnew8 : fat_get (s_disk s8) v1 0 c' = enc v1 CL_EOF).
      { apply (ae_new _ _ _ _ _ _ _ _ Heff). intros E. injection E as E. apply Hpnz. rewrite E. exact R3. }
      assert (Hcs2 : chain_of (s_disk s8) v2 c' (S k') = Some [c']).
      { rewrite (chain_of_geo _ v1 v2 G12). apply (PrWrite.chain_single _ _ _ k'); [exact R1|rewrite Gcl; exact R2|].
        rewrite fat_entry_get. exact Hnew8. }
      assert (Est : stop_at N free_in (s_disk s8) (flat_map (cluster_blocks v2) [c']) = Some (nb, 0)).
      { cbn [flat_map]. rewrite app_nil_r, Gcb2, (PrBounds.cluster_blocks_cons v c' Hspc). fold nb.
        unfold stop_at. cbn [first_some]. unfold free_in at 1. rewrite Hnb8.
        replace (free_slot 16 zero_block 0) with (Some 0) by (vm_compute; reflexivity). reflexivity. }
      pose proof (walk_dir_chain_stop dirent N free_in body post Bn Bs vi v2 true Hvok2 (S k') c' s8 [c']
                    Hvi8 Hnf8 Hc8 Hcs2) as Hw.
      rewrite Est in Hw. destruct Hw as (s0 & r & s' & Erun & Hrd0 & HQ).
      pose proof Hrd0 as ((Hd0 & Hc0 & Hnf0 & Hm0) & _).
      unfold post, create_post in HQ. cbv zeta in HQ.
      destruct HQ as (Er & Hd' & Hc' & Hnf' & Hclk' & Htab' & l & Htr & Hl).
      assert (Eclk0 : s_clock s0 = s_clock s + 1).
      { destruct (tabs8_alloc _ _ _ _ _ _ _ _ Heff) as (_ & Eclk78).
        destruct Hm0 as (_ & _ & _ & _ & E0 & _). destruct Hm7 as (_ & _ & _ & _ & E7 & _). congruence. }
      set (tm := clock_ts (s_clock s + 1)).
      set (bytes := ser_bytes (v_fat32 v) (mk_dirent sfn tm tm A_DIRECTORY c 0 nb 0)).
      set (newb := set_bytes zero_block 0 bytes).
      assert (Hd0' : s_disk s' = disk_set (s_disk s0) nb newb).
      { rewrite Hd'. unfold put_entry. cbn [e_offset]. change (0 * 32) with 0.
        rewrite Hd0 at 2. rewrite Hnb8, Eclk0, G32. reflexivity. }
      assert (Ewn : write_new_directory_entry vi parent sfn A_DIRECTORY c s6 = (Ok r, s')).
      { rewrite write_new_is. rewrite (bind_ok _ _ _ _ _ (get_vol_some vi v1 s6 Hvi6)). rewrite Gdfc. fold pc body.
        assert (E : walk_dir (walk_fuel v1) vi pc true body s6 = (Ok (Some r), s'))
          by (rewrite Ewalk, (bind_ok _ _ _ _ _ Hal); exact Erun).
        rewrite (bind_ok _ _ _ _ _ E). reflexivity. }
      assert (Hlb : length bytes = 32%nat) by (unfold bytes; apply ser_bytes_length; exact Hname).
      pose proof (PrBounds.C04_cluster_block_in_data v c' R1 R2) as Fd'. rewrite Forall_forall in Fd'.
      assert (Hnbin : In nb (cluster_blocks v c'))
        by (rewrite (PrBounds.cluster_blocks_cons v c' Hspc); left; reflexivity).
      (* c' was free before make_dir: it is free after the prefix and is not c *)
      assert (Hcc : c' <> c).
      { intros ->. destruct (chain_at_mem _ _ _ _ c Hnew6 (or_introl eq_refl)) as (_ & _ & Z & _).
        apply Z. rewrite <- Hd7. exact R3. }
      assert (Hfree' : free_cl (s_disk s) v c').
      { split; [exact R1|]. split; [exact R2|]. rewrite <- (Hfat c' R2 Hcc), <- Hd7. exact R3. }
      (* the frames: the allocation of c', then the entry *)
      pose proof (fr_alloc vi v1 fsz (Some p) true s7 c' s8 FL1 Hprev Heff) as Fa. cbn [prev_list] in Fa.
      apply (fr_geo v1 v fsz _ _ _ _ G') in Fa. rewrite Hd7, Gcb in Fa.
      assert (F8' : fr v fsz [] [nb] (s_disk s8) (s_disk s')).
      { rewrite Hd0', Hd0. apply fr_set. exact (PrGlobalOpen2.cluster_block_off_fat fsz v c' nb FL R1 Hnbin). }
      exists (Ok tt), s', [pc], (Some (nb, 0, bytes)). split.
      { unfold mkdir_rest. rewrite (bind_ok _ _ _ _ _ (try_ok _ _ _ _ Ewn)). reflexivity. }
      split.
      { intros H6. apply (val_same v fsz _ (s_disk s8) _ [nb]); [|exact F8'].
        apply (val_alloc vi v v1 fsz (Some p) true s7 c' s8 _ G); [rewrite Hd7; exact H6|exact Heff|exact Hfree'|].
        intros E. injection E as E. apply Hpnz. rewrite E. exact R3. }
      exists ([c'; p] ++ []), (cluster_blocks v c' ++ [nb]). split; [exact (fr_trans v fsz _ _ _ _ _ _ _ Fa F8')|].
      split; [intros x [<-|[]]; exact Hpc|]. split; [intros x [<-|[]]; reflexivity|]. split.
      { intros x [<-|[<-|[]]]; right; [right; exact Hfree'|left].
        cbn [flat_map]. rewrite app_nil_r, (chain_l_at _ _ _ _ Hch). exact Hpin. }
      split.
      { intros j Hj. left. exists c'. split; [exact Hfree'|].
        apply in_app_or in Hj. destruct Hj as [Hj|[<-|[]]]; [exact Hj|exact Hnbin]. }
      intros j off b E. injection E as <- <- <-. split; [exact Hlb|]. split; [left; exact (Fd' nb Hnbin)|].
      split; [clear; lia|]. right. exists c'. split; [exact Hfree'|]. split; [reflexivity|]. split; [reflexivity|].
      rewrite Hd0'. apply disk_get_set_same.
Qed.

(* ================================================================== 4. make_dir, every outcome *)
Theorem ff_make_dir fsz total v hs parent sfn pbl s :
  s_vols s = [v] ->
  alloc_pre s 0 v fsz -> PrBounds.part_layout v total fsz -> clusters_fit v -> blocks_wf (s_disk s) ->
  fat_wf (s_disk s) v hs ->
  dir_blocks (s_disk s) v parent = Some pbl ->
  (negb (v_fat32 v) && (parent =? CL_ROOT) = false -> In (dir_first_cluster v parent) hs) ->
  length sfn = 11%nat ->
  exists r s' tg sl, make_dir 0 parent sfn A_DIRECTORY s = (r, s') /\
    call_frame fsz v hs (s_disk s) (s_disk s') tg [] sl /\
    (forall x, In x tg -> x = dir_first_cluster v parent) /\
    (forall j off b, sl = Some (j, off, b) -> length b = 32%nat /\
       ((exists sl0, find nv (slots_of (s_disk s) pbl) = Some (j, off, sl0)) \/
        (exists c2, free_cl (s_disk s) v c2 /\ j = cluster_first_block v c2 /\ off = 0))).
Proof.
  intros Ev Hpre L Hfit Hbw W Hbl Hhead Hname.
  assert (Hprev0 : forall p, @None N = Some p -> p < v_clusters v + 2) by (intros p Ep; discriminate Ep).
  pose proof Hpre as (_ & FL & _).
  destruct (alloc_cluster_total 0 v fsz None false s Hpre Hprev0)
    as (o & s1 & Hal & [(-> & Hnone & Hd1 & Hm1 & T1 & Hst1)|(c & -> & Heff)]).
  - (* no free cluster *)
    exists (Err NotEnoughSpace), s1, [], None.
    split; [unfold make_dir; exact (bind_err _ _ _ _ _ Hal)|]. split; [apply call_frame_same; exact Hd1|].
    split; [intros x []|intros j off b E; discriminate E].
  - destruct (ff_mkdir_prefix fsz total v hs parent sfn s c s1 Ev Hfit Hpre L Hbw W Hal)
      as (s6 & v1 & Erun & PX & Ev6 & F06 & V06).
    destruct (ff_mkdir_rest fsz total v hs parent sfn pbl s c s6 v1 L Hfit Hbl Hhead Hname PX Ev6)
      as (r & s' & tg & sl & Erest & (V6 & F & B & F6 & Htg & Htgd & HF & HB & Hsl)).
    rewrite Erest in Erun.
    destruct (mk_range _ _ _ _ _ _ (px_cluster _ _ _ _ _ _ _ _ _ PX)) as (C1 & C2 & C3).
    assert (Hfree : free_cl (s_disk s) v c) by (repeat split; assumption).
    exists r, s', tg, sl. split; [exact Erun|]. split; [|split; [exact Htgd|]].
    + split; [exact (V6 V06)|].
      exists ([c] ++ F), (cluster_blocks v c ++ B). split; [exact (fr_trans v fsz _ _ _ _ _ _ _ F06 F6)|].
      split; [exact Htg|]. split; [intros x []|]. split.
      { intros x Hx. cbn [app] in Hx. destruct Hx as [<-|Hx]; [right; exact Hfree|].
        destruct (HF x Hx) as [->|[H|H]]; [right; exact Hfree|left; exact H|right; exact H]. }
      split.
      { intros j Hj. apply in_app_or in Hj. destruct Hj as [Hj|Hj].
        - right. left. exists c. split; [exact Hfree|exact Hj].
        - destruct (HB j Hj) as [H|H]; [right; left; exact H|right; right; left; exact H]. }
      intros j off b E. destruct (Hsl j off b E) as (Hlb & Hdir & Hoff & Hcase).
      split; [exact Hdir|]. split; [rewrite Hlb; change (N.of_nat 32) with 32; exact Hoff|].
      destruct Hcase as [(Hd & _)|(c2 & Hf2 & -> & -> & Hd)].
      * left. exact Hd.
      * right. split; [|exact Hd]. exists c2. split; [exact Hf2|].
        rewrite (PrBounds.cluster_blocks_cons v c2 (PrBounds.pl_spc v total fsz L)). left. reflexivity.
    + intros j off b E. destruct (Hsl j off b E) as (Hlb & _ & _ & Hcase). split; [exact Hlb|].
      destruct Hcase as [(_ & H)|(c2 & Hf2 & E1 & E2 & _)]; [left; exact H|right; exists c2; split; [exact Hf2|split; assumption]].
Qed.

(* ================================================================== 5. step (Mkdir d name) *)
Theorem step_frame_Mkdir fsz vid d name : step_frame fsz vid (Mkdir d name).
Proof.
  intros s r s' vi v bl rch T Hat _ Hknown Hs.
  assert (Hinv : fs_inv fsz vid s) by (exists vi, v, bl, rch, T; exact Hat).
  pose proof (fs_inv_lock fsz vid s Hinv) as Hl.
  cbn [step] in Hs.
  destruct (mkd_facts _ _ _ _ _ _ _ _ Hat) as (_ & Hnf & Hc & Ev & Evi & Hv0 & Hv & FL & _ & _ & _ & _).
  subst vi.
  assert (Hnone : s_disk s' = s_disk s ->
            exists tg wch sl, call_frame fsz v (heads v T ++ pend_of s v) (s_disk s) (s_disk s') tg wch sl /\
                              op_owns s v (Mkdir d name) tg wch sl).
  { intros E. exists [], [], None. split; [apply call_frame_same; exact E|]. cbn [op_owns].
    split; [reflexivity|]. split; [intros x []|intros j off b E0; discriminate E0]. }
  assert (Hrefuse : forall e, make_dir_in_dir d name s = (Err e, s) ->
            exists tg wch sl, call_frame fsz v (heads v T ++ pend_of s v) (s_disk s) (s_disk s') tg wch sl /\
                              op_owns s v (Mkdir d name) tg wch sl).
  { intros e E. rewrite (PrHandles.lift_err _ _ _ _ _ E) in Hs. injection Hs as <- <-. apply Hnone. reflexivity. }
  destruct (find_idx (fun x => d_id x =? d) (s_dirs s) 0) as [di|] eqn:Efind.
  2:{ (* a stale directory handle *)
    assert (Hno : PrHandles.no_dir d s) by (intros x Hx; apply N.eqb_neq; exact (find_idx_none_inv _ _ _ Efind x Hx)).
    destruct (PrHandles.C08_stale_dir_handle d s Hl Hno) as (_ & _ & _ & _ & _ & E & _). specialize (E name). cbn [step] in E.
    rewrite E in Hs. injection Hs as <- <-. apply Hnone. reflexivity. }
  destruct (find_idx_nth _ _ _ _ Efind) as (dd & Hdd & Hddp). rewrite Nat.sub_0_r in Hdd.
  assert (Hddid : d_id dd = d) by (apply N.eqb_eq; exact Hddp).
  assert (H1 : get_dir_by_id d s = (Ok di, s)) by (rewrite PrHandles.get_dir_by_id_eq, Efind; reflexivity).
  assert (H2 : get_dir di s = (Ok dd, s)) by (rewrite PrHandles.get_dir_eq, Hdd; reflexivity).
  destruct (is_full (s_dirs s) (s_maxd s)) eqn:Hfull.
  { apply (Hrefuse TooManyOpenDirs).
    unfold make_dir_in_dir. rewrite (PrHandles.locked_free _ s Hl), PrHandles.bind_get, Hfull. reflexivity. }
  assert (H3 : get_volume_by_id (d_vol dd) s = if v_id v =? d_vol dd then (Ok 0%nat, s) else (Err BadHandle, s)).
  { rewrite PrHandles.get_volume_by_id_eq, Ev. cbn [find_idx]. destruct (v_id v =? d_vol dd); reflexivity. }
  destruct (N.eqb_spec (v_id v) (d_vol dd)) as [Evol|Nvol].
  2:{ apply (Hrefuse BadHandle).
    unfold make_dir_in_dir. rewrite (PrHandles.locked_free _ s Hl), PrHandles.bind_get, Hfull.
    rewrite (bind_ok _ _ _ _ _ H1), (bind_ok _ _ _ _ _ H2). apply bind_err. exact H3. }
  assert (Hres : PrModes.resolves s d di dd 0 v).
  { split; [exact Hl|]. split; [exact H1|]. split; [exact H2|]. split; [exact H3|].
    rewrite PrHandles.get_vol_eq, Hv0. reflexivity. }
  assert (Hdir : mkd_is_dir T (d_cluster dd)).
  { pose proof (fi_dirs _ _ _ _ _ _ _ _ Hat) as Hd. rewrite Forall_forall in Hd.
    exact (Hd dd (nth_error_In _ _ Hdd) (eq_sym Evol)). }
  destruct (sfn_of_str name) as [sfn|] eqn:Hsfn.
  2:{ apply (Hrefuse FilenameError).
      unfold make_dir_in_dir. rewrite (PrHandles.locked_free _ s Hl), PrHandles.bind_get, Hfull.
      rewrite (bind_ok _ _ _ _ _ H1), (bind_ok _ _ _ _ _ H2), (bind_ok _ _ _ _ _ H3), Hsfn. reflexivity. }
  destruct (PrModes.C07_mkdir_refusals s d di dd 0%nat v name sfn Hres Hfull Hsfn) as (Rdot & Rfound).
  destruct (PrModes.dot_name sfn) eqn:Hdot.
  { apply (Hrefuse DirAlreadyExists). exact (Rdot eq_refl). }
  specialize (Rfound eq_refl).
  (* the lookup *)
  destruct (mkd_ctx _ _ _ _ _ _ _ _ (d_cluster dd) Hat Hdir) as (pbl & pp & Hbl & Hok & Hnd & Hcls & Hrange & Hhead & Hwhere).
  destruct (C06_find 0 v (d_cluster dd) sfn s pbl Hv0 Hv Hnf Hc Hbl) as (s1 & Hfind & Hro).
  pose proof (mkd_ro _ _ _ _ _ _ _ _ _ Hat Hro) as Hat1.
  destruct Hro as (Hd1 & Hc1 & Hnf1 & Hm1). pose proof Hm1 as (M1 & _).
  destruct (find (t_matches sfn) (live_in_blocks (s_disk s) pbl)) as [t|] eqn:Ematch.
  { (* the name exists *)
    destruct (Rfound _ _ _ Hfind eq_refl) as (E & _).
    rewrite (PrHandles.lift_err _ _ _ _ _ E) in Hs. injection Hs as <- <-. apply Hnone. exact Hd1. }
  (* NotFound: make_dir runs in the state after the lookup *)
  assert (Erun : make_dir_in_dir d name s = make_dir 0 (d_cluster dd) sfn A_DIRECTORY s1).
  { unfold make_dir_in_dir. rewrite (PrHandles.locked_free _ s Hl), PrHandles.bind_get, Hfull.
    rewrite (bind_ok _ _ _ _ _ H1), (bind_ok _ _ _ _ _ H2), (bind_ok _ _ _ _ _ H3), Hsfn.
    unfold PrModes.dot_name in Hdot. rewrite Hdot. unfold bind at 1, try. rewrite Hfind. reflexivity. }
  destruct (mkd_sfn_of_str_wf name sfn Hsfn) as (Hlen & Hge).
  destruct (mkd_facts _ _ _ _ _ _ _ _ Hat1) as (_ & _ & _ & Ev1 & _ & _ & _ & _ & Hwf1 & _ & Hpre1 & Hfit1).
  assert (Hbl0 : dir_blocks (s_disk s) v (d_cluster dd) = Some pbl) by exact Hbl.
  rewrite <- Hd1 in Hbl.
  assert (Ehs : iv_hs s1 v T = heads v T ++ pend_of s v).
  { unfold iv_hs, pend_of. rewrite Hd1. destruct Hm1 as (_ & _ & -> & _). reflexivity. }
  assert (Hhead1 : negb (v_fat32 v) && (d_cluster dd =? CL_ROOT) = false -> In (dir_first_cluster v (d_cluster dd)) (iv_hs s1 v T)).
  { intros E. rewrite Ehs. exact (Hhead E). }
  destruct (ff_make_dir fsz (v_nblocks v) v (iv_hs s1 v T) (d_cluster dd) sfn pbl s1 Ev1 Hpre1
              (fi_layout _ _ _ _ _ _ _ _ Hat1) Hfit1 Hwf1 (iv_wf _ _ _ _ _ _ _ _ Hat1) Hbl Hhead1 Hlen)
    as (r0 & s2 & tg & sl & Hmk & Hcf & Htg & Hsl).
  unfold lift, bind in Hs. rewrite Erun, Hmk in Hs.
  assert (Es : s' = s2) by (destruct r0; injection Hs as _ <-; reflexivity). subst s'.
  rewrite Ehs, Hd1 in Hcf. rewrite Hd1 in Hsl.
  exists tg, [], sl. split; [exact Hcf|]. cbn [op_owns]. split; [reflexivity|]. split.
  - intros x Hx. exists dd. split; [exact (nth_error_In _ _ Hdd)|]. split; [exact Hddid|]. split; [symmetry; exact Evol|].
    exact (Htg x Hx).
  - intros j off b E. destruct (Hsl j off b E) as (Hlb & Hcase). split; [exact Hlb|].
    destruct Hcase as [(sl0 & Hf)|H]; [left|right; exact H].
    exists dd, pbl, sl0. split; [exact (nth_error_In _ _ Hdd)|]. split; [exact Hddid|]. split; [symmetry; exact Evol|].
    split; [exact Hbl0|exact Hf].
Qed.

Print Assumptions step_frame_Delete.
Print Assumptions step_frame_Mkdir.
