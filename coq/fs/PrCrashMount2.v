(* C10, first sentence: "If the device stops accepting writes after any block write of any
   operation, THE MEDIUM MOUNTS, and no live directory entry or chain refers to ...".
   PrCrashAll.C10_history gives the crash invariant for every crashed medium,
   PrCrashDef6.crash_region_history that block 0 and the boot sector are never written,
   PrGlobalMount the record a later mount computes (relabel).  Here the remaining gap: a fresh
   manager's OpenVol SUCCEEDS on every crashed medium.  (Family of part 1: PrCrashMount.v;
   examples: PrCrashMount3.v.)
   1  W_crash: a run whose logged writes to block I are signed leaves a signed block at I on
      every crashed medium
   2  fs_inv_J: the invariant J of PrCrashMount at a state of the global invariant (FAT32)
   3  sig_crash_run (any state with J, any calls but a top-level OpenVol, ANY outcome, device
      faults included) and info_sig_crash_history (hypotheses of PrCrashAll.C10_history): the
      information sector is signed between the calls and on every crashed medium of every call
   4  the mount path reads three blocks: parse_volume_sig / mount_sig3 / mount_info_sig (the
      signatures hold after a successful mount: the code checked them), parse_volume_transfer,
      mount_depends (same block 0, same boot sector, signed information sector => OpenVol
      succeeds again with the same record up to handle, free count, hint), mount_depends_iff
   5  C10_crashed_medium_mounts, C10_medium_between_calls_mounts
   What is used about the mounting manager: nothing open, lock free, no armed device fault
   (FsMgr.init_state with an empty fault list), room for one volume (0 < mv': with mv' = 0 OpenVol
   answers TooManyOpenVolumes on any medium, PrCrashMount3.no_room_refused).
   Not needed and not proved: that every block of a crashed medium has 512 bytes (the mount reads
   three blocks with get8, total on lists; Sg carries the length of the information sector).
   Build order: after PrCrashMount, PrGlobalMount, PrCrashAll, PrCrashDef6. *)
From Coq Require Import NArith ZArith List Bool Lia Arith ZifyClasses ZifyInst Zify FMapPositive Permutation.
From SdFs Require Import FsTypes FsBase FsFat FsMgr FsLemmas PrBase PrFat PrAlloc PrDir PrSeek PrAllocEffect
  PrRw PrWrite PrFileSeq PrMulti PrEntry PrChain PrCount PrWf PrOpenClose.
From SdFs Require PrModes PrHandles PrCrash PrBounds PrOrder.
From SdFs Require Import PrGlobalDef.
From SdFs Require PrMountLayout PrGlobal PrGlobalWrite PrCrashDef PrCrashDef2 PrCrashDef6 PrCrashAll PrGlobalMount.
From SdFs Require Import PrCrashMount.
Import ListNotations.
Open Scope N_scope.
Local Arguments N.mul : simpl never.
Local Arguments N.add : simpl never.
Local Arguments N.sub : simpl never.
Local Arguments N.div : simpl never.
Local Arguments N.modulo : simpl never.
Local Arguments N.land : simpl never.
Local Arguments N.lor : simpl never.
Local Ltac Zify.zify_post_hook ::= Z.to_euclidean_division_equations.


(* ================================================================== 1. from the write log to the crashed media *)
Lemma dwr_In i b : forall new, In (i, b) (dwr new) -> In (DWrite i b) new.
Proof.
  induction new as [|c new IH]; intros H; [destruct H|].
  destruct c as [j|j x|j|j]; cbn [dwr] in H; try (right; exact (IH H)).
  destruct H as [H|H]; [left; inversion H; reflexivity|right; exact (IH H)].
Qed.

Lemma apply_ws_Sg I : forall ws d, Sg (disk_get d I) -> (forall b, In (I, b) ws -> Sg b) ->
  Sg (disk_get (apply_ws ws d) I).
Proof.
  induction ws as [|[i b] ws IH]; intros d Hd Hw; [exact Hd|].
  rewrite PrCrash.apply_ws_cons. cbn [fst snd]. apply IH.
  - destruct (N.eq_dec i I) as [->|Hne]; [rewrite disk_get_set_same; apply Hw; left; reflexivity|].
    rewrite disk_get_set_other by exact Hne. exact Hd.
  - intros x Hx. apply Hw. right. exact Hx.
Qed.

(* every crashed medium of a run whose writes to I are signed holds a signed block at I *)
Lemma W_crash I s s' d' : Sg (disk_get (s_disk s) I) -> W I s s' -> PrCrashDef.crash_disks s s' d' ->
  Sg (disk_get d' I).
Proof.
  intros Hd (new & Et & Hw) (k & _ & ->). rewrite (PrCrashDef.step_writes_ext s s' new Et).
  unfold PrCrash.prefix_disk. apply apply_ws_Sg; [exact Hd|].
  intros b Hb. apply PrCrash.firstn_In in Hb. apply in_rev in Hb. exact (Hw b (dwr_In _ _ _ Hb)).
Qed.

(* ================================================================== 2. the invariant J at a state of the global invariant *)
Lemma layout_vgood v total fsz : PrBounds.part_layout v total fsz -> v_fat32 v = true -> vgood (v_info v) v.
Proof.
  intros L E32. destruct (PrBounds.pl_info _ _ _ L E32) as (I1 & I2).
  pose proof (PrBounds.pl_root _ _ _ L) as R. rewrite E32 in R. unfold PrBounds.fats_end, PrBounds.fat1_start in R.
  pose proof (PrBounds.pl_fat1 _ _ _ L) as F1.
  split; [exact E32|]. split; [reflexivity|]. split; [exact I2|]. split.
  - destruct (v_second_fat v) as [sf|]; [specialize (F1 sf eq_refl)|]; lia.
  - intros sf Hsf. specialize (F1 sf Hsf). lia.
Qed.

Lemma fs_inv_J fsz vid s vi v bl rch T : fs_inv_at fsz vid s vi v bl rch T -> v_fat32 v = true ->
  info_sig (s_disk s) v -> J (v_info v) s.
Proof.
  intros Hat E32 Hsig. unfold info_sig in Hsig. rewrite E32 in Hsig.
  pose proof (fi_layout _ _ _ _ _ _ _ _ Hat) as L.
  destruct (fi_vol _ _ _ _ _ _ _ _ Hat) as (_ & ((_ & Hc & _ & _) & _ & _) & _).
  constructor.
  - exact Hsig.
  - intros Ht. rewrite (Hc _ Ht). exact Hsig.
  - rewrite (fi_single _ _ _ _ _ _ _ _ Hat). constructor; [|constructor]. exact (layout_vgood v _ fsz L E32).
  - rewrite Forall_forall. intros f Hf.
    destruct (PrGlobalWrite.gw_file_slot fsz vid s vi v bl rch T Hat f Hf) as (e0 & ch0 & i & _ & _ & _ & _ & _ & _ & Hin & _).
    pose proof (PrGlobalWrite.gw_dir_block_in_dir fsz vid s vi v bl rch T Hat _ Hin) as Hd.
    destruct (PrBounds.pl_info _ _ _ L E32) as (_ & I2).
    pose proof (layout_vgood v _ fsz L E32) as (_ & _ & _ & G4 & _).
    unfold fgood, egood. destruct Hd as [(D1 & _)|(D0 & _)]; [lia|congruence].
Qed.

(* ================================================================== 3. the signatures over runs of API calls *)
Fixpoint no_mount (ops : list op) : Prop :=
  match ops with [] => True | o :: r => is_mount o = false /\ no_mount r end.

Lemma known_no_mount ops : Forall op_known_ok ops -> no_mount ops.
Proof.
  induction 1 as [|o r Ho _ IH]; [exact Logic.I|]. split; [|exact IH].
  destruct Ho as ((_ & Hs) & _). destruct o; try reflexivity. destruct Hs.
Qed.

Lemma J_step I o s : is_mount o = false -> J I s -> J I (snd (step o s)) /\ W I s (snd (step o s)).
Proof.
  intros Hm HJ. destruct (step o s) as [r s'] eqn:E. cbn [snd].
  destruct (proj1 (sg_step I o) Hm s r s' E HJ Logic.I) as (A & B & _). split; assumption.
Qed.

Lemma J_run I : forall ops s, no_mount ops -> J I s -> J I (snd (run_ops ops s)).
Proof.
  induction ops as [|o r IH]; intros s Hn HJ; [exact HJ|].
  destruct Hn as (Ho & Hr). cbn [run_ops]. destruct (step o s) as [x s1] eqn:E.
  pose proof (proj1 (J_step I o s Ho HJ)) as J1. rewrite E in J1. cbn [snd] in J1.
  specialize (IH s1 Hr J1). destruct (run_ops r s1) as [rs s']. exact IH.
Qed.

(* the general form: any state with J (no global invariant needed), any calls but a top-level
   OpenVol, any outcomes: between the calls and on every crashed medium of the next call the
   block I is a signed 512-byte block *)
Theorem sig_crash_run I ops1 o s : J I s -> no_mount (ops1 ++ [o]) ->
  let s1 := snd (run_ops ops1 s) in
  Sg (disk_get (s_disk s1) I) /\
  forall d', PrCrashDef.crash_disks s1 (snd (step o s1)) d' -> Sg (disk_get d' I).
Proof.
  intros HJ Hn s1.
  assert (Hn1 : no_mount ops1 /\ is_mount o = false).
  { clear -Hn. induction ops1 as [|a r IH]; cbn [app no_mount] in *; [tauto|].
    destruct Hn as (A & B). destruct (IH B) as (C & D). tauto. }
  destruct Hn1 as (Hn1 & Ho).
  pose proof (J_run I ops1 s Hn1 HJ) as J1. fold s1 in J1.
  split; [exact (J_disk _ _ J1)|]. intros d' Hd.
  destruct (J_step I o s1 Ho J1) as (_ & Hw). exact (W_crash I s1 _ d' (J_disk _ _ J1) Hw Hd).
Qed.

(* the information-sector signatures on every crashed medium of every call of every history
   (hypotheses as in PrCrashAll.C10_history) *)
Theorem info_sig_crash_history fsz vid ops1 o ops2 s age v :
  fs_inv fsz vid s -> PrHandles.handles_ok age s ->
  age + N.of_nat (length (ops1 ++ o :: ops2)) < U32 - 1 -> Forall op_known_ok (ops1 ++ o :: ops2) ->
  s_vols s = [v] -> info_sig (s_disk s) v ->
  let s1 := snd (run_ops ops1 s) in
  info_sig (s_disk s1) v /\
  forall d', PrCrashDef.crash_disks s1 (snd (step o s1)) d' -> info_sig d' v.
Proof.
  intros Hinv _ _ Hops Ev Hsig s1. unfold info_sig in *.
  destruct (v_fat32 v) eqn:E32; [|split; [exact Logic.I|intros; exact Logic.I]].
  destruct Hinv as (vi & v0 & bl & rch & T & Hat).
  pose proof (fi_single _ _ _ _ _ _ _ _ Hat) as Ev0. rewrite Ev in Ev0. injection Ev0 as <-.
  assert (HJ : J (v_info v) s) by (apply (fs_inv_J fsz vid s vi v bl rch T Hat E32); unfold info_sig; rewrite E32; exact Hsig).
  apply (sig_crash_run (v_info v) ops1 o s HJ). apply known_no_mount.
  rewrite Forall_forall in *. intros x Hx. apply Hops. apply in_app_or in Hx. apply in_or_app.
  destruct Hx as [Hx|[<-|[]]]; [left; exact Hx|right; left; reflexivity].
Qed.

(* ================================================================== 4. the mount path reads three blocks *)
Local Tactic Notation "ibind" hyp(H) "as" ident(a) ident(s1) ident(H1) :=
  apply PrOrder.bind_inv_ok in H; destruct H as (a & s1 & H1 & H).

(* steps whose outcome does not depend on the state *)
Definition pure_m {A} (m : M A) : Prop := forall s r s', m s = (r, s') -> s' = s /\ forall t, m t = (r, t).

Lemma pure_bpb_create b : pure_m (bpb_create b).
Proof.
  unfold pure_m, bpb_create, fail, ret. cbv zeta. intros s r s'.
  repeat match goal with |- context [if ?c then _ else _] => destruct c end;
    intros H; inversion H; split; intros; reflexivity.
Qed.
Lemma pure_add32 a b : pure_m (add32 a b).
Proof. unfold pure_m, add32, ret, panic. intros s r s'. destruct (a + b <? U32); intros H; inversion H; split; intros; reflexivity. Qed.
Lemma pure_mul32 a b : pure_m (mul32 a b).
Proof. unfold pure_m, mul32, ret, panic. intros s r s'. destruct (a * b <? U32); intros H; inversion H; split; intros; reflexivity. Qed.
Lemma pure_second (c : bool) a b :
  pure_m (if c then x <- add32 a b ;; ret (Some x) else ret None).
Proof.
  unfold pure_m, bind, add32, ret, panic. intros s r s'. destruct c; [destruct (a + b <? U32)|];
    intros H; inversion H; split; intros; reflexivity.
Qed.

(* what the mount code checked: the signatures of the information sector *)
Lemma parse_volume_sig id idx lba nb s v s' : no_faults s -> cache_ok s ->
  parse_volume id idx lba nb s = (Ok v, s') -> v_fat32 v = true -> sig3 (disk_get (s_disk s) (v_info v)).
Proof.
  intros Hnf Hc H E32. unfold parse_volume in H.
  destruct (cache_read_spec lba s Hnf Hc) as (t & Er & Dt & _ & _ & Ct & Ft & _).
  rewrite (bind_ok _ _ _ _ _ Er) in H. set (b := disk_get (s_disk s) lba) in *.
  ibind H as p u Hb. destruct p as [cc f32]. destruct (pure_bpb_create b _ _ _ Hb) as (-> & _).
  cbv beta iota in H.
  destruct (U32 <=? lba + bpb_total_blocks b); [exfalso; exact (PrMountLayout.fail_inv _ _ _ _ H)|].
  destruct ((le16 b 14 =? 0) || (get8 b 16 =? 0)); [exfalso; exact (PrMountLayout.fail_inv _ _ _ _ H)|].
  destruct (bpb_fat_size b * 512 <? (cc + 2) * (if f32 then 4 else 2)); [exfalso; exact (PrMountLayout.fail_inv _ _ _ _ H)|].
  ibind H as second u Hs. destruct (pure_second _ _ _ _ _ _ Hs) as (-> & _).
  destruct f32.
  - ibind H as nf u Hm. destruct (pure_mul32 _ _ _ _ _ Hm) as (-> & _).
    ibind H as fd u Ha. destruct (pure_add32 _ _ _ _ _ Ha) as (-> & _).
    destruct (268435445 <? cc); [exfalso; exact (PrMountLayout.fail_inv _ _ _ _ H)|].
    destruct ((le16 b 48 =? 0) || (le16 b 14 <=? le16 b 48)); [exfalso; exact (PrMountLayout.fail_inv _ _ _ _ H)|].
    ibind H as ia u Hia. destruct (pure_add32 _ _ _ _ _ Hia) as (-> & _).
    destruct (cache_read_spec ia t Ft Ct) as (t2 & Er2 & _).
    rewrite (bind_ok _ _ _ _ _ Er2) in H. rewrite Dt in H.
    destruct (N.eqb_spec (le32 (disk_get (s_disk s) ia) 0) 1096897106) as [A|A]; [|exfalso; exact (PrMountLayout.fail_inv _ _ _ _ H)].
    destruct (N.eqb_spec (le32 (disk_get (s_disk s) ia) 484) 1631679090) as [B|B]; [|exfalso; exact (PrMountLayout.fail_inv _ _ _ _ H)].
    destruct (N.eqb_spec (le32 (disk_get (s_disk s) ia) 508) 2857697280) as [C|C]; [|exfalso; exact (PrMountLayout.fail_inv _ _ _ _ H)].
    cbn [negb] in H. apply PrMountLayout.ret_inv in H. destruct H as [-> ->].
    cbn [v_info set_v_next_free set_v_free]. split; [exact A|split; [exact B|exact C]].
  - destruct (negb (le16 b 11 =? 512)); [exfalso; exact (PrMountLayout.fail_inv _ _ _ _ H)|].
    ibind H as nf u Hm. ibind H as fr u2 Ha. ibind H as fd u3 Ha2.
    apply PrMountLayout.ret_inv in H. destruct H as [-> ->]. discriminate E32.
Qed.

(* parse_volume on another device state that holds the same boot sector and a signed
   information sector: it succeeds too, with the same record up to free count and hint *)
Lemma parse_volume_transfer id idx lba nb s1 v s1' s2 :
  no_faults s1 -> cache_ok s1 -> no_faults s2 -> cache_ok s2 ->
  parse_volume id idx lba nb s1 = (Ok v, s1') ->
  disk_get (s_disk s2) lba = disk_get (s_disk s1) lba ->
  (v_fat32 v = true -> sig3 (disk_get (s_disk s2) (v_info v))) ->
  exists v' s2', parse_volume id idx lba nb s2 = (Ok v', s2') /\ geo_eq v v'.
Proof.
  intros F1 C1 F2 C2 H Hag Hsig. unfold parse_volume in H |- *.
  destruct (cache_read_spec lba s1 F1 C1) as (t1 & Er1 & D1 & _ & _ & Ct1 & Ft1 & _).
  destruct (cache_read_spec lba s2 F2 C2) as (t2 & Er2 & D2 & _ & _ & Ct2 & Ft2 & _).
  rewrite (bind_ok _ _ _ _ _ Er1) in H. rewrite (bind_ok _ _ _ _ _ Er2). rewrite Hag.
  set (b := disk_get (s_disk s1) lba) in *.
  ibind H as p u Hb. destruct p as [cc f32]. destruct (pure_bpb_create b _ _ _ Hb) as (-> & Hb2).
  rewrite (bind_ok _ _ _ _ _ (Hb2 t2)). cbv beta iota in H |- *.
  destruct (U32 <=? lba + bpb_total_blocks b); [exfalso; exact (PrMountLayout.fail_inv _ _ _ _ H)|].
  destruct ((le16 b 14 =? 0) || (get8 b 16 =? 0)); [exfalso; exact (PrMountLayout.fail_inv _ _ _ _ H)|].
  destruct (bpb_fat_size b * 512 <? (cc + 2) * (if f32 then 4 else 2)); [exfalso; exact (PrMountLayout.fail_inv _ _ _ _ H)|].
  ibind H as second u Hs. destruct (pure_second _ _ _ _ _ _ Hs) as (-> & Hs2).
  rewrite (bind_ok _ _ _ _ _ (Hs2 t2)).
  destruct f32.
  - ibind H as nf u Hm. destruct (pure_mul32 _ _ _ _ _ Hm) as (-> & Hm2). rewrite (bind_ok _ _ _ _ _ (Hm2 t2)).
    ibind H as fd u Ha. destruct (pure_add32 _ _ _ _ _ Ha) as (-> & Ha2). rewrite (bind_ok _ _ _ _ _ (Ha2 t2)).
    destruct (268435445 <? cc); [exfalso; exact (PrMountLayout.fail_inv _ _ _ _ H)|].
    destruct ((le16 b 48 =? 0) || (le16 b 14 <=? le16 b 48)); [exfalso; exact (PrMountLayout.fail_inv _ _ _ _ H)|].
    ibind H as ia u Hia. destruct (pure_add32 _ _ _ _ _ Hia) as (-> & Hia2). rewrite (bind_ok _ _ _ _ _ (Hia2 t2)).
    destruct (cache_read_spec ia t1 Ft1 Ct1) as (w1 & Ew1 & _).
    destruct (cache_read_spec ia t2 Ft2 Ct2) as (w2 & Ew2 & _).
    rewrite (bind_ok _ _ _ _ _ Ew1) in H. rewrite (bind_ok _ _ _ _ _ Ew2). rewrite D2.
    destruct (negb (le32 (disk_get (s_disk t1) ia) 0 =? 1096897106)); [exfalso; exact (PrMountLayout.fail_inv _ _ _ _ H)|].
    destruct (negb (le32 (disk_get (s_disk t1) ia) 484 =? 1631679090)); [exfalso; exact (PrMountLayout.fail_inv _ _ _ _ H)|].
    destruct (negb (le32 (disk_get (s_disk t1) ia) 508 =? 2857697280)); [exfalso; exact (PrMountLayout.fail_inv _ _ _ _ H)|].
    apply PrMountLayout.ret_inv in H. destruct H as [-> ->].
    cbn [v_fat32 v_info set_v_next_free set_v_free] in Hsig. destruct (Hsig eq_refl) as (A & B & C).
    rewrite A, B, C. cbn [N.eqb Pos.eqb negb].
    eexists. eexists. split; [reflexivity|].
    eexists. eexists. reflexivity.
  - destruct (negb (le16 b 11 =? 512)); [exfalso; exact (PrMountLayout.fail_inv _ _ _ _ H)|].
    ibind H as nf u Hm. destruct (pure_mul32 _ _ _ _ _ Hm) as (-> & Hm2). rewrite (bind_ok _ _ _ _ _ (Hm2 t2)).
    ibind H as fr u Ha. destruct (pure_add32 _ _ _ _ _ Ha) as (-> & Ha2). rewrite (bind_ok _ _ _ _ _ (Ha2 t2)).
    ibind H as fd u Ha3. destruct (pure_add32 _ _ _ _ _ Ha3) as (-> & Ha4). rewrite (bind_ok _ _ _ _ _ (Ha4 t2)).
    apply PrMountLayout.ret_inv in H. destruct H as [-> ->].
    eexists. eexists. split; [reflexivity|]. apply geo_eq_refl.
Qed.

(* mount_depends: OpenVol reads block 0, the boot sector of the partition entry and - FAT32 - the
   information sector, nothing else.  If a manager with nothing open mounts partition idx of a
   medium, then so does every manager with nothing open (any handle counter, room for a volume)
   on a medium that holds the same block 0, the same boot sector, and - FAT32 - an information
   sector with the three signatures; the record is the same up to handle, free count and hint *)
Theorem mount_depends idx sa vid sa' v sb :
  PrGlobalMount.fresh_mgr sa -> PrGlobalMount.fresh_mgr sb -> 0 < s_maxv sb ->
  step (OpenVol idx) sa = (Ok (RHandle vid), sa') -> s_vols sa' = [v] ->
  disk_get (s_disk sb) 0 = disk_get (s_disk sa) 0 ->
  disk_get (s_disk sb) (v_lba v) = disk_get (s_disk sa) (v_lba v) ->
  (v_fat32 v = true -> sig3 (disk_get (s_disk sb) (v_info v))) ->
  exists sb' v', step (OpenVol idx) sb = (Ok (RHandle (s_next_id sb)), sb') /\ s_vols sb' = [v'] /\
    geo_eq (set_v_id v (s_next_id sb)) v' /\ PrGlobalMount.relabel v v' /\ s_disk sb' = s_disk sb.
Proof.
  intros Fa Fb Hmax E Ev H0 Hl Hsig.
  destruct (PrGlobalMount.mount_run idx sa vid sa' Fa E) as
    (v0 & Ev0 & _ & _ & _ & _ & _ & _ & _ & _ & _ & Elba & _).
  rewrite Ev in Ev0. injection Ev0 as <-.
  destruct Fa as (Va & _ & _ & La & Fa & Ca). pose proof Fb as (Vb & _ & _ & Lb & Fb' & Cb).
  cbn [step] in E. apply PrHandles.lift_ok_inv in E. destruct E as (id & E & Er). injection Er as ->.
  assert (G : exists sb' v', open_raw_volume idx sb = (Ok (s_next_id sb), sb') /\ s_vols sb' = [v'] /\
                             geo_eq (set_v_id v (s_next_id sb)) v').
  { unfold open_raw_volume, locked in E |- *.
    unfold bind at 1 in E. unfold get at 1 in E. rewrite La in E.
    unfold bind at 1 in E. unfold get at 1 in E. rewrite Va in E.
    unfold bind at 1. unfold get at 1. rewrite Lb.
    unfold bind at 1. unfold get at 1. rewrite Vb.
    assert (Hfull : is_full (@nil vol) (s_maxv sb) = false).
    { unfold is_full. cbn [length]. apply N.leb_gt. exact Hmax. }
    rewrite Hfull. cbn [existsb] in E |- *.
    destruct (is_full [] (s_maxv sa)); [exfalso; exact (PrMountLayout.fail_inv _ _ _ _ E)|].
    destruct (cache_read_spec 0 sa Fa Ca) as (t1 & Er1 & D1 & _ & _ & Ct1 & Ft1 & M1 & _).
    destruct (cache_read_spec 0 sb Fb' Cb) as (t2 & Er2 & D2 & _ & _ & Ct2 & Ft2 & M2 & _).
    rewrite (bind_ok _ _ _ _ _ Er1) in E. rewrite (bind_ok _ _ _ _ _ Er2). rewrite H0.
    set (b := disk_get (s_disk sa) 0) in *.
    destruct (negb (le16 b 510 =? 43605)); [exfalso; exact (PrMountLayout.fail_inv _ _ _ _ E)|].
    destruct (4 <=? idx); [exfalso; exact (PrMountLayout.fail_inv _ _ _ _ E)|].
    cbv zeta in E |- *.
    destruct (negb (N.land (get8 b (446 + 16 * idx)) 127 =? 0)); [exfalso; exact (PrMountLayout.fail_inv _ _ _ _ E)|].
    destruct (negb (partition_type_ok (get8 b (446 + 16 * idx + 4)))); [exfalso; exact (PrMountLayout.fail_inv _ _ _ _ E)|].
    ibind E as w u1 Hp. ibind E as id' u2 Hg. ibind E as x u3 Hmod.
    apply PrMountLayout.ret_inv in E. destruct E as [-> ->].
    apply PrMountLayout.generate_inv in Hg. destruct Hg as [-> ->].
    unfold modify in Hmod. inversion Hmod; subst u3. clear Hmod.
    destruct (PrMountLayout.parse_volume_inv _ _ _ _ _ _ _ Hp) as (_ & _ & _ & _ & Pv & Pn & _).
    cbn [s_vols set_s_vols set_s_next_id] in Ev.
    rewrite Pv, (proj1 M1), Va in Ev. cbn [app] in Ev. injection Ev as Ev.
    unfold PrMountLayout.mbr_start in Elba. fold b in Elba.
    assert (Elw : v_lba w = le32 b (446 + 16 * idx + 8)) by (rewrite <- Elba, <- Ev; reflexivity).
    destruct (parse_volume_transfer 0 idx _ _ t1 w u1 t2 Ft1 Ct1 Ft2 Ct2 Hp) as (w' & u1' & Hp' & G).
    { rewrite D1, D2. rewrite <- Elba. exact Hl. }
    { rewrite D2. intros E32. rewrite <- Ev in Hsig. exact (Hsig E32). }
    rewrite (bind_ok _ _ _ _ _ Hp').
    destruct (PrMountLayout.parse_volume_inv _ _ _ _ _ _ _ Hp') as (_ & _ & _ & _ & Pv' & Pn' & _).
    unfold generate, bind, get, modify, ret. cbn [s_vols set_s_vols set_s_next_id].
    rewrite Pn', (proj1 (proj2 (proj2 (proj2 M2)))). rewrite Pv', (proj1 M2), Vb. cbn [app].
    eexists. eexists. split; [reflexivity|]. split; [reflexivity|].
    rewrite <- Ev. destruct G as (a & c & ->). exists a, c. reflexivity. }
  destruct G as (sb' & v' & Eb & Evb & G).
  exists sb', v'. split; [cbn [step]; unfold lift; rewrite (bind_ok _ _ _ _ _ Eb); reflexivity|].
  split; [exact Evb|]. split; [exact G|]. split; [exists (s_next_id sb); exact G|].
  pose proof (PrGlobalMount.rd_open_raw_volume idx sb _ sb' Eb Fb' Cb) as (Md & _). exact Md.
Qed.

(* (a) the signatures hold after a successful mount: the mount code checked them *)
Theorem mount_sig3 idx s0 vid s1 v : PrGlobalMount.fresh_mgr s0 ->
  step (OpenVol idx) s0 = (Ok (RHandle vid), s1) -> s_vols s1 = [v] -> v_fat32 v = true ->
  sig3 (disk_get (s_disk s0) (v_info v)).
Proof.
  intros F E Ev E32.
  destruct F as (Va & _ & _ & La & Fa & Ca).
  cbn [step] in E. apply PrHandles.lift_ok_inv in E. destruct E as (id & E & Er). injection Er as ->.
  unfold open_raw_volume, locked in E.
  unfold bind at 1 in E. unfold get at 1 in E. rewrite La in E.
  unfold bind at 1 in E. unfold get at 1 in E. rewrite Va in E. cbn [existsb] in E.
  destruct (is_full [] (s_maxv s0)); [exfalso; exact (PrMountLayout.fail_inv _ _ _ _ E)|].
  destruct (cache_read_spec 0 s0 Fa Ca) as (t1 & Er1 & D1 & _ & _ & Ct1 & Ft1 & M1 & _).
  rewrite (bind_ok _ _ _ _ _ Er1) in E. set (b := disk_get (s_disk s0) 0) in *.
  destruct (negb (le16 b 510 =? 43605)); [exfalso; exact (PrMountLayout.fail_inv _ _ _ _ E)|].
  destruct (4 <=? idx); [exfalso; exact (PrMountLayout.fail_inv _ _ _ _ E)|].
  cbv zeta in E.
  destruct (negb (N.land (get8 b (446 + 16 * idx)) 127 =? 0)); [exfalso; exact (PrMountLayout.fail_inv _ _ _ _ E)|].
  destruct (negb (partition_type_ok (get8 b (446 + 16 * idx + 4)))); [exfalso; exact (PrMountLayout.fail_inv _ _ _ _ E)|].
  ibind E as w u1 Hp. ibind E as id' u2 Hg. ibind E as x u3 Hmod.
  apply PrMountLayout.ret_inv in E. destruct E as [-> ->].
  apply PrMountLayout.generate_inv in Hg. destruct Hg as [-> ->].
  unfold modify in Hmod. inversion Hmod; subst u3. clear Hmod.
  destruct (PrMountLayout.parse_volume_inv _ _ _ _ _ _ _ Hp) as (_ & _ & _ & _ & Pv & _).
  cbn [s_vols set_s_vols set_s_next_id] in Ev. rewrite Pv, (proj1 M1), Va in Ev. cbn [app] in Ev. injection Ev as Ev.
  assert (E32w : v_fat32 w = true) by (rewrite <- Ev in E32; exact E32).
  pose proof (parse_volume_sig _ _ _ _ _ _ _ Ft1 Ct1 Hp E32w) as S3. rewrite D1 in S3.
  rewrite <- Ev. exact S3.
Qed.

Theorem mount_info_sig idx s0 vid s1 v : PrGlobalMount.fresh_mgr s0 -> blocks_wf (s_disk s0) ->
  step (OpenVol idx) s0 = (Ok (RHandle vid), s1) -> s_vols s1 = [v] -> info_sig (s_disk s1) v.
Proof.
  intros F Hwf E Ev.
  destruct (PrGlobalMount.mount_run idx s0 vid s1 F E) as (v0 & Ev0 & _ & _ & _ & Ed & _).
  rewrite Ed. unfold info_sig. destruct (v_fat32 v) eqn:E32; [|exact Logic.I]. split; [apply Hwf|].
  exact (mount_sig3 idx s0 vid s1 v F E Ev E32).
Qed.

(* a manager without room for a volume refuses *)
Lemma mount_needs_room idx s vid s' : PrGlobalMount.fresh_mgr s ->
  step (OpenVol idx) s = (Ok (RHandle vid), s') -> 0 < s_maxv s.
Proof.
  intros (Va & _ & _ & La & _) E.
  cbn [step] in E. apply PrHandles.lift_ok_inv in E. destruct E as (id & E & _).
  unfold open_raw_volume, locked in E.
  unfold bind at 1 in E. unfold get at 1 in E. rewrite La in E.
  unfold bind at 1 in E. unfold get at 1 in E. rewrite Va in E.
  unfold is_full in E. cbn [length] in E.
  destruct (N.leb_spec (s_maxv s) (N.of_nat 0)) as [H|H]; [exfalso; exact (PrMountLayout.fail_inv _ _ _ _ E)|exact H].
Qed.

(* the information sector a mount of partition entry idx of d would read *)
Definition info_block (d : disk) (idx : N) : N :=
  let lba := PrMountLayout.mbr_start (disk_get d 0) idx in lba + le16 (disk_get d lba) 48.

Lemma mount_info_block idx s0 vid s1 v : PrGlobalMount.fresh_mgr s0 ->
  step (OpenVol idx) s0 = (Ok (RHandle vid), s1) -> s_vols s1 = [v] ->
  v_lba v = PrMountLayout.mbr_start (disk_get (s_disk s0) 0) idx /\
  (v_fat32 v = true -> v_info v = info_block (s_disk s0) idx).
Proof.
  intros F E Ev.
  destruct (PrGlobalMount.mount_run idx s0 vid s1 F E) as
    (v0 & Ev0 & _ & _ & _ & _ & _ & _ & _ & _ & _ & Elba & _ & MF).
  rewrite Ev in Ev0. injection Ev0 as <-. split; [exact Elba|]. intros E32.
  destruct (PrMountLayout.mf_32 _ _ _ _ _ _ MF E32) as (_ & _ & Ei & _).
  unfold info_block. cbv zeta. rewrite <- Elba. exact Ei.
Qed.

Lemma mount_depends_dir idx d d' off mv md mf vid s1 :
  disk_get d' 0 = disk_get d 0 ->
  disk_get d' (PrMountLayout.mbr_start (disk_get d 0) idx) = disk_get d (PrMountLayout.mbr_start (disk_get d 0) idx) ->
  (sig3 (disk_get d (info_block d idx)) -> sig3 (disk_get d' (info_block d idx))) ->
  step (OpenVol idx) (init_state d off mv md mf []) = (Ok (RHandle vid), s1) ->
  exists v s1' v', s_vols s1 = [v] /\
    step (OpenVol idx) (init_state d' off mv md mf []) = (Ok (RHandle vid), s1') /\ s_vols s1' = [v'] /\ geo_eq v v'.
Proof.
  intros H0 Hl Hs E. pose proof (PrGlobalMount.fresh_init d off mv md mf) as F.
  destruct (PrGlobalMount.mount_run idx _ vid s1 F E) as (v & Ev & <- & Evid & _).
  destruct (mount_info_block idx _ _ s1 v F E Ev) as (Elba & Einfo). cbn [s_disk init_state] in Elba, Einfo.
  pose proof (mount_needs_room idx _ _ s1 F E) as Hroom. cbn [s_maxv init_state] in Hroom.
  destruct (mount_depends idx _ _ s1 v (init_state d' off mv md mf []) F (PrGlobalMount.fresh_init d' off mv md mf)
              Hroom E Ev) as (s1' & v' & E' & Ev' & G & _).
  - exact H0.
  - cbn [s_disk init_state]. rewrite Elba. exact Hl.
  - cbn [s_disk init_state]. intros E32. rewrite (Einfo E32). apply Hs. rewrite <- (Einfo E32).
    exact (mount_sig3 idx _ _ s1 v F E Ev E32).
  - cbn [s_next_id init_state] in E', G, Evid. exists v, s1', v'. split; [exact Ev|].
    split; [rewrite Evid; exact E'|]. split; [exact Ev'|].
    replace (set_v_id v off) with v in G; [exact G|]. rewrite <- Evid. destruct v; reflexivity.
Qed.

(* the "iff" form: two media that agree on block 0, on the boot sector of partition entry idx,
   and on WHETHER the block at the information-sector position carries the three signatures:
   a fresh manager (same limits, same handle offset) mounts the one iff it mounts the other, and
   the two records differ in free count and hint only *)
Theorem mount_depends_iff idx d d' off mv md mf vid :
  disk_get d' 0 = disk_get d 0 ->
  disk_get d' (PrMountLayout.mbr_start (disk_get d 0) idx) = disk_get d (PrMountLayout.mbr_start (disk_get d 0) idx) ->
  (sig3 (disk_get d' (info_block d idx)) <-> sig3 (disk_get d (info_block d idx))) ->
  ((exists s1, step (OpenVol idx) (init_state d off mv md mf []) = (Ok (RHandle vid), s1)) <->
   (exists s1', step (OpenVol idx) (init_state d' off mv md mf []) = (Ok (RHandle vid), s1'))) /\
  forall s1 s1' v v', step (OpenVol idx) (init_state d off mv md mf []) = (Ok (RHandle vid), s1) ->
    step (OpenVol idx) (init_state d' off mv md mf []) = (Ok (RHandle vid), s1') ->
    s_vols s1 = [v] -> s_vols s1' = [v'] -> geo_eq v v'.
Proof.
  intros H0 Hl Hs.
  assert (Eib : info_block d' idx = info_block d idx).
  { unfold info_block. cbv zeta. rewrite H0, Hl. reflexivity. }
  split; [split|].
  - intros (s1 & E). destruct (mount_depends_dir idx d d' off mv md mf vid s1 H0 Hl (proj2 Hs) E) as (_ & s1' & _ & _ & E' & _).
    exists s1'. exact E'.
  - intros (s1' & E').
    destruct (mount_depends_dir idx d' d off mv md mf vid s1') as (_ & s1 & _ & _ & E & _); [| | |exact E'|].
    + symmetry. exact H0.
    + rewrite H0. symmetry. exact Hl.
    + rewrite Eib. exact (proj1 Hs).
    + exists s1. exact E.
  - intros s1 s1' v v' E E' Ev Ev'.
    destruct (mount_depends_dir idx d d' off mv md mf vid s1 H0 Hl (proj2 Hs) E) as (w & t & w' & Ew & Et & Ew' & G).
    rewrite E' in Et. injection Et as <-. rewrite Ev in Ew. injection Ew as <-. rewrite Ev' in Ew'. injection Ew' as <-.
    exact G.
Qed.

(* ================================================================== 5. C10, first sentence *)
(* A medium accepted by the decider is mounted by a fresh manager; any history of API calls
   follows; the device stops accepting writes after any block write of any call (d' ranges over
   the medium before the call, the media after each of its writes, the medium after the call).
   Then ANY fresh manager (any handle offset, any table sizes with room for one volume) mounts the
   same partition of d', the record it computes is the old one up to handle, free count and
   hint, and d' is crash-sound for that record (PrCrashDef.crash_inv: the tree over the raw
   medium with unique names and correct dot entries, every referenced chain in range, acyclic,
   terminated, never through free / bad / reserved entries, disjoint from every other; residue:
   lost chains and a size not yet updated). *)
Theorem C10_crashed_medium_mounts_gen depth fsz idx age s0 vid s1 v ops1 o ops2 :
  PrGlobalMount.mounted_ok depth fsz idx age s0 vid s1 v ->
  age + 1 + N.of_nat (length (ops1 ++ o :: ops2)) < U32 - 1 -> Forall op_known_ok (ops1 ++ o :: ops2) ->
  let sa := snd (run_ops (OpenVol idx :: ops1) s0) in
  forall d', PrCrashDef.crash_disks sa (snd (step o sa)) d' ->
  forall sb, PrGlobalMount.fresh_mgr sb -> s_disk sb = d' -> 0 < s_maxv sb ->
  exists sb' v', step (OpenVol idx) sb = (Ok (RHandle (s_next_id sb)), sb') /\
    s_vols sb' = [v'] /\ s_disk sb' = d' /\ PrGlobalMount.relabel v v' /\
    info_sig d' v' /\ PrCrashDef.crash_inv fsz v' d'.
Proof.
  intros M Hage1 Hops sa d' Hd sb Fb Edb Hmax.
  destruct (PrGlobalMount.mounted_start _ _ _ _ _ _ _ _ M) as (Hinv & Hh).
  pose proof (PrGlobalMount.mo_open _ _ _ _ _ _ _ _ M) as E.
  pose proof (PrGlobalMount.mo_vol _ _ _ _ _ _ _ _ M) as Ev.
  pose proof (PrGlobalMount.mo_fresh _ _ _ _ _ _ _ _ M) as F0.
  assert (Esa : sa = snd (run_ops ops1 s1)).
  { unfold sa. rewrite (PrGlobalMount.run_ops_mount idx ops1 _ vid s1 E). reflexivity. }
  rewrite Esa in Hd.
  destruct (PrGlobalMount.mount_run idx _ vid s1 F0 E) as (v0 & Ev0 & _ & _ & _ & Ed & _).
  destruct (PrCrashAll.C10_history fsz vid ops1 o ops2 s1 (age + 1) v Hinv Hh Hage1 Hops Ev) as (_ & Hc).
  destruct (PrCrashDef6.crash_region_history fsz vid ops1 o ops2 s1 (age + 1) v Hinv Hh Hage1 Hops Ev d' Hd)
    as (_ & B0 & Bl).
  assert (Hs1 : info_sig (s_disk s1) v).
  { apply (mount_info_sig idx _ vid s1 v F0); [exact (PrGlobalMount.mo_wf _ _ _ _ _ _ _ _ M)|exact E|exact Ev]. }
  destruct (info_sig_crash_history fsz vid ops1 o ops2 s1 (age + 1) v Hinv Hh Hage1 Hops Ev Hs1) as (_ & Hsig).
  specialize (Hsig d' Hd). specialize (Hc d' Hd).
  destruct (mount_depends idx _ vid s1 v sb F0 Fb Hmax E Ev) as (s' & v' & Es & Evs & G & R & Eds).
  - rewrite Edb, B0, Ed. reflexivity.
  - rewrite Edb, Bl, Ed. reflexivity.
  - rewrite Edb. intros E32. unfold info_sig in Hsig. rewrite E32 in Hsig. exact (proj2 Hsig).
  - exists s', v'. split; [exact Es|]. split; [exact Evs|].
    split; [rewrite Eds; exact Edb|]. split; [exact R|]. split.
    + destruct G as (a & c & ->). exact Hsig.
    + exact (PrGlobalMount.crash_inv_relabel fsz v v' d' R Hc).
Qed.

(* ... as asked: from FsMgr.init_state on a medium accepted by the decider; the mounting manager
   is FsMgr.init_state on the crashed medium, with any handle offset and any limits with room
   for a volume *)
Theorem C10_crashed_medium_mounts depth fsz d off mv md mf idx vid s1 v ops1 o ops2 :
  blocks_wf d -> off < U32 ->
  step (OpenVol idx) (init_state d off mv md mf []) = (Ok (RHandle vid), s1) -> s_vols s1 = [v] ->
  fs_inv_b depth fsz (s_disk s1) v [] = true ->
  1 + N.of_nat (length (ops1 ++ o :: ops2)) < U32 - 1 -> Forall op_known_ok (ops1 ++ o :: ops2) ->
  let sa := snd (run_ops (OpenVol idx :: ops1) (init_state d off mv md mf [])) in
  forall d', PrCrashDef.crash_disks sa (snd (step o sa)) d' ->
  forall off' mv' md' mf', 0 < mv' ->
  exists s' v', step (OpenVol idx) (init_state d' off' mv' md' mf' []) = (Ok (RHandle off'), s') /\
    s_vols s' = [v'] /\ s_disk s' = d' /\ PrGlobalMount.relabel v v' /\
    info_sig d' v' /\ PrCrashDef.crash_inv fsz v' d'.
Proof.
  intros Hwf Hoff E Ev Hb Hage Hops sa d' Hd off' mv' md' mf' Hmax.
  pose proof (PrGlobalMount.mounted_ok_init depth fsz d off mv md mf idx vid s1 v Hwf Hoff E Ev Hb) as M.
  assert (Hage1 : 0 + 1 + N.of_nat (length (ops1 ++ o :: ops2)) < U32 - 1) by lia.
  exact (C10_crashed_medium_mounts_gen depth fsz idx 0 _ vid s1 v ops1 o ops2 M Hage1 Hops d' Hd
           (init_state d' off' mv' md' mf' []) (PrGlobalMount.fresh_init d' off' mv' md' mf') eq_refl Hmax).
Qed.

(* ... in particular the medium BETWEEN the calls and the medium after the whole history *)
Corollary C10_medium_between_calls_mounts depth fsz d off mv md mf idx vid s1 v ops :
  blocks_wf d -> off < U32 ->
  step (OpenVol idx) (init_state d off mv md mf []) = (Ok (RHandle vid), s1) -> s_vols s1 = [v] ->
  fs_inv_b depth fsz (s_disk s1) v [] = true ->
  1 + N.of_nat (length ops) + 1 < U32 - 1 -> Forall op_known_ok ops ->
  let d' := s_disk (snd (run_ops (OpenVol idx :: ops) (init_state d off mv md mf []))) in
  forall off' mv' md' mf', 0 < mv' ->
  exists s' v', step (OpenVol idx) (init_state d' off' mv' md' mf' []) = (Ok (RHandle off'), s') /\
    s_vols s' = [v'] /\ s_disk s' = d' /\ PrGlobalMount.relabel v v' /\
    info_sig d' v' /\ PrCrashDef.crash_inv fsz v' d'.
Proof.
  intros Hwf Hoff E Ev Hb Hage Hops d'.
  apply (C10_crashed_medium_mounts depth fsz d off mv md mf idx vid s1 v ops HasOpen [] Hwf Hoff E Ev Hb).
  - rewrite app_length. cbn [length]. rewrite Nat2N.inj_add. cbn. lia.
  - apply Forall_app. split; [exact Hops|]. constructor; [|constructor]. repeat split.
  - apply PrCrashDef.crash_disks_old.
Qed.

(* ================================================================== assumptions *)
Print Assumptions sig_crash_run.
Print Assumptions info_sig_crash_history.
Print Assumptions parse_volume_transfer.
Print Assumptions mount_depends.
Print Assumptions mount_depends_iff.
Print Assumptions mount_info_sig.
Print Assumptions C10_crashed_medium_mounts_gen.
Print Assumptions C10_crashed_medium_mounts.
Print Assumptions C10_medium_between_calls_mounts.
