(* PROOFS: the whole-history theorems of the base alphabet [op] lifted to the extended alphabet [xop]
   (FsExt.v), part 1:
     0  every extended operation ends in the state of ONE base operation (xbase), up to the table of
        open directories (change_dir closes the old handle afterwards)
     a  C16 (FAT mirroring, truthful free count, hint range): C16x_history, C16x_history_flush
     b  C10 / C09 (crashed media, flushed files stay): C10x_history, C09x_history, C10x_region_history
   Scope and guard: PrExt2.xop_scope_ok / xop_guard / xops_guard. *)
From Coq Require Import NArith ZArith List Bool Lia Arith FMapPositive Permutation.
From SdFs Require Import FsTypes FsBase FsFat FsMgr FsExt FsLemmas PrBase PrFat PrAlloc PrDir PrChain PrCount PrWf PrOpenClose.
From SdFs Require PrHandles PrOrder PrBounds PrSeek PrModes.
From SdFs Require Import PrGlobalDef PrGlobalOpen PrGlobal.
From SdFs Require Import PrExt PrExt2.
From SdFs Require Import PrC16Def.
From SdFs Require PrC16Write PrC16.
From SdFs Require Import PrCrash PrCrashDef PrCrashDef2 PrCrashDef4.
From SdFs Require PrCrashAll PrCrashDef6.
Import ListNotations.
Open Scope N_scope.
Local Arguments N.mul : simpl never.
Local Arguments N.add : simpl never.
Local Arguments N.sub : simpl never.

(* ================================================================== 0. the base operation of an extended operation *)
(* the base call whose state change the extended operation performs *)
Definition xbase (o : xop) : op :=
  match o with
  | XOp o' => o'
  | XIterLfn d _ => Iter d None
  | XDropFile f => CloseFile f
  | XDropDir d => CloseDir d
  | XDropVol v => CloseVol v
  | XChangeDir d name => OpenDir d name
  | XWEof f => Eof f
  | XWLength f => Length f
  | XWOffset f => Offset f
  end.

Lemma xbase_known o : xop_scope_ok o -> op_known_ok (xbase o).
Proof.
  destruct o; cbn [xop_scope_ok xbase]; intros H; try exact H; try (repeat split; exact I).
  - destruct H.
  - split; [split; exact I|exact H].
Qed.

Lemma set_dirs_id s : set_s_dirs s (s_dirs s) = s.
Proof. destruct s. reflexivity. Qed.

Lemma mgr_iterate_ret_state {R} (a : R) d s : snd (mgr_iterate d (ret a) s) = snd (mgr_iterate d (ret tt) s).
Proof.
  destruct (s_lock s) eqn:Hl.
  - unfold mgr_iterate. rewrite !(PrHandles.locked_held _ s Hl). reflexivity.
  - rewrite (proj1 (PrHandles.C08_iterate_holds_lock _ d (ret a) s Hl)),
            (proj1 (PrHandles.C08_iterate_holds_lock _ d (ret tt) s Hl)).
    destruct (PrHandles.iter_listing d s) as [[[|e0 sh]|e| |] s1]; reflexivity.
Qed.

Lemma mgr_iterate_lfn_state d n s : snd (mgr_iterate_lfn d n s) = snd (mgr_iterate d (ret tt) s).
Proof.
  destruct (s_lock s) eqn:Hl.
  - rewrite (mgr_iterate_lfn_locked d n s Hl). unfold mgr_iterate. rewrite (PrHandles.locked_held _ s Hl). reflexivity.
  - rewrite (mgr_iterate_lfn_eq d n s Hl), (mgr_iterate_plain_eq d s Hl).
    destruct (raw_listing d s) as [[raw|e| |] s1]; cbn [lfn_outcome]; try reflexivity.
    destruct (lfn_fold raw LfnModel.Waiting (lfn_buf n)); reflexivity.
Qed.

Lemma bind_ret_state {A B} (m : M A) (f : A -> B) s : snd ((a <- m ;; ret (f a)) s) = snd (m s).
Proof. unfold bind. destruct (m s) as [[a|e| |] s1]; reflexivity. Qed.

Lemma discard_state {A} (r : outcome A * st) : snd (discard r) = snd r.
Proof. destruct r as [[a|e| |] s1]; reflexivity. Qed.

(* THE REDUCTION.  From EVERY state, every extended operation ends in the state its base operation
   ends in, except that change_dir (after a successful open_dir) has also removed the old handle from
   the table of open directories; nothing else differs: medium, cache, device log, volume and file
   tables, counter, clock, lock *)
Theorem xstep_state : forall o s, exists l, snd (xstep o s) = set_s_dirs (snd (step (xbase o) s)) l.
Proof.
  intros o s.
  destruct o as [o|d n|f|d|v|d name|f|f|f]; cbn [xstep xbase]; rewrite xlift_run; cbn [snd step].
  - exists (s_dirs (snd (step o s))). rewrite set_dirs_id. reflexivity.
  - rewrite bind_ret_state, mgr_iterate_ret_state, mgr_iterate_lfn_state.
    eexists. rewrite set_dirs_id. reflexivity.
  - rewrite drop_file_is_close, discard_state, lift_run. cbn [snd]. eexists. rewrite set_dirs_id. reflexivity.
  - rewrite drop_dir_is_close, discard_state, lift_run. cbn [snd]. eexists. rewrite set_dirs_id. reflexivity.
  - rewrite drop_volume_is_close, discard_state, lift_run. cbn [snd]. eexists. rewrite set_dirs_id. reflexivity.
  - rewrite change_dir_eq, lift_run. cbn [snd].
    destruct (open_dir d name s) as [[h|e| |] s1] eqn:E; cbn [snd];
      try (eexists; rewrite set_dirs_id; reflexivity).
    destruct (change_dir_unwrap_safe _ _ _ _ _ E) as (i & Ec). rewrite Ec. cbn [snd]. eexists. reflexivity.
  - unfold w_is_eof. rewrite expect_state, lift_run. cbn [snd]. eexists. rewrite set_dirs_id. reflexivity.
  - unfold w_length. rewrite expect_state, lift_run. cbn [snd]. eexists. rewrite set_dirs_id. reflexivity.
  - unfold w_offset. rewrite expect_state, lift_run. cbn [snd]. eexists. rewrite set_dirs_id. reflexivity.
Qed.

(* the generic replay of the history induction: a relation between the state before and the state
   after a call that every base operation establishes, that does not look at the table of open
   directories on the right, ... *)
Section XPres.
  Variables (fsz vid : N) (P : st -> Prop).
  Hypothesis Hbase : forall o s r s', fs_inv fsz vid s -> id_fresh s -> op_known_ok o -> step o s = (r, s') -> P s -> P s'.
  Hypothesis Hdirs : forall s l, P s -> P (set_s_dirs s l).

  Lemma xstep_pres o s r s' : fs_inv fsz vid s -> id_fresh s -> xop_scope_ok o -> xstep o s = (r, s') -> P s -> P s'.
  Proof.
    intros Hinv Hid Ho E HP. destruct (xstep_state o s) as (l & El). rewrite E in El. cbn [snd] in El. subst s'.
    apply Hdirs. destruct (step (xbase o) s) as [r1 s1] eqn:E1. cbn [snd].
    exact (Hbase (xbase o) s r1 s1 Hinv Hid (xbase_known o Ho) E1 HP).
  Qed.

  (* ... holds after every history of the extended alphabet (with fs_inv and handles_ok along the way) *)
  Theorem xhistory_pres : forall ops s age, fs_inv fsz vid s -> PrHandles.handles_ok age s ->
    age + N.of_nat (length ops) < U32 - 1 -> Forall xop_scope_ok ops -> xops_guard ops s -> P s ->
    let s' := snd (xrun_ops ops s) in
    fs_inv fsz vid s' /\ PrHandles.handles_ok (age + N.of_nat (length ops)) s' /\ P s'.
  Proof.
    induction ops as [|o rest IH]; intros s age Hinv Hh Hage Hops Hg HP.
    - cbn [xrun_ops snd length]. rewrite N.add_0_r. auto.
    - cbv zeta. cbn [xrun_ops]. destruct (xstep o s) as [r s1] eqn:Es.
      inversion Hops as [|? ? Ho Hrest]; subst. cbn [length] in Hage |- *.
      cbn [xops_guard] in Hg. rewrite Es in Hg. destruct Hg as (Hg0 & Hg1). cbn [snd] in Hg1.
      assert (Ha1 : age < U32) by (unfold U32 in *; lia).
      assert (Ha2 : age < U32 - 1) by (unfold U32 in *; lia).
      assert (Ha3 : age + 1 + N.of_nat (length rest) < U32 - 1).
      { rewrite Nat2N.inj_succ in Hage. unfold U32 in *. lia. }
      pose proof (handles_ok_fresh age s Ha1 Hh) as Hid.
      destruct (all_xsteps_ok fsz vid o s r s1 Hinv Hid Ho Hg0 Es) as (_ & _ & Hinv1 & _).
      pose proof (C08x_handles_ok_step age o s Ha2 (xscope_remount o Ho) Hh) as Hh1.
      rewrite Es in Hh1. cbn [snd] in Hh1.
      specialize (IH s1 (age + 1) Hinv1 Hh1 Ha3 Hrest Hg1 (xstep_pres o s r s1 Hinv Hid Ho Es HP)).
      cbv zeta in IH. destruct (xrun_ops rest s1) as [rs s']. cbn [snd] in *.
      replace (age + N.of_nat (S (length rest))) with (age + 1 + N.of_nat (length rest)) by lia.
      exact IH.
  Qed.
End XPres.

(* ================================================================== a. C16 *)
(* the per-operation obligation, for the extended alphabet *)
Definition xstep_c16 (fsz vid : N) (o : xop) : Prop :=
  forall s r s', fs_inv fsz vid s -> id_fresh s -> xop_scope_ok o -> xop_guard o s -> xstep o s = (r, s') ->
    (mirror_inv fsz s -> mirror_inv fsz s') /\
    (truthful_inv s -> truthful_inv s') /\
    (unknown_inv s -> unknown_inv s') /\
    (hint_inv s -> hint_inv s').

Theorem all_xsteps_c16 fsz vid : forall o, xstep_c16 fsz vid o.
Proof.
  intros o s r s' Hinv Hid Ho _ E.
  destruct (xstep_state o s) as (l & El). rewrite E in El. cbn [snd] in El. subst s'.
  destruct (step (xbase o) s) as [r1 s1] eqn:E1. cbn [snd].
  exact (PrC16.all_steps_c16 fsz vid (xbase o) s r1 s1 Hinv Hid (xbase_known o Ho) E1).
Qed.

(* after any history of extended API calls: every FAT copy identical to the first; a truthful free
   count still truthful, an unknown one still unknown; the hint unknown or in range *)
Theorem C16x_history fsz vid ops s age :
  fs_inv fsz vid s -> PrHandles.handles_ok age s ->
  age + N.of_nat (length ops) < U32 - 1 -> Forall xop_scope_ok ops -> xops_guard ops s ->
  let s' := snd (xrun_ops ops s) in
  (mirror_inv fsz s -> mirror_inv fsz s') /\
  (truthful_inv s -> truthful_inv s') /\
  (unknown_inv s -> unknown_inv s') /\
  (hint_inv s -> hint_inv s').
Proof.
  intros Hinv Hh Hage Hops Hg. cbv zeta.
  pose proof (PrC16.all_steps_c16 fsz vid) as Hall.
  split; [|split; [|split]]; intros H0.
  - refine (proj2 (proj2 (xhistory_pres fsz vid (mirror_inv fsz) _ _ ops s age Hinv Hh Hage Hops Hg H0))).
    + intros o s0 r s1 A B C D. exact (proj1 (Hall o s0 r s1 A B C D)).
    + intros s0 l H. exact H.
  - refine (proj2 (proj2 (xhistory_pres fsz vid truthful_inv _ _ ops s age Hinv Hh Hage Hops Hg H0))).
    + intros o s0 r s1 A B C D. exact (proj1 (proj2 (Hall o s0 r s1 A B C D))).
    + intros s0 l H. exact H.
  - refine (proj2 (proj2 (xhistory_pres fsz vid unknown_inv _ _ ops s age Hinv Hh Hage Hops Hg H0))).
    + intros o s0 r s1 A B C D. exact (proj1 (proj2 (proj2 (Hall o s0 r s1 A B C D)))).
    + intros s0 l H. exact H.
  - refine (proj2 (proj2 (xhistory_pres fsz vid hint_inv _ _ ops s age Hinv Hh Hage Hops Hg H0))).
    + intros o s0 r s1 A B C D. exact (proj2 (proj2 (proj2 (Hall o s0 r s1 A B C D)))).
    + intros s0 l H. exact H.
Qed.

(* ... and a Flush / CloseFile / DROP of a dirty file after any such history stores exactly the
   in-memory record in the FAT32 information sector.  For the drop the result says nothing (it is
   always Ok ()); the premise is that the close inside succeeded. *)
Theorem C16x_history_flush fsz vid ops s age o h r s2 :
  fs_inv fsz vid s -> PrHandles.handles_ok age s ->
  age + N.of_nat (length ops) + 1 < U32 - 1 -> Forall xop_scope_ok ops -> xops_guard ops s ->
  let s1 := snd (xrun_ops ops s) in
  (o = Flush h \/ o = CloseFile h) -> step o s1 = (Ok r, s2) ->
  (exists f, In f (s_files s1) /\ f_id f = h /\ f_dirty f = true) ->
  hint_inv s ->
  (o = Flush h -> xstep (XOp (Flush h)) s1 = (Ok (XR r), s2)) /\
  (o = CloseFile h -> xstep (XOp (CloseFile h)) s1 = (Ok (XR r), s2) /\ xstep (XDropFile h) s1 = (Ok (XR RUnit), s2)) /\
  (truthful_inv s ->
     info_matches s2 /\
     forall v, In v (s_vols s2) -> v_fat32 v = true ->
       le32 (disk_get (s_disk s2) (v_info v)) 488 = N.of_nat (free_entries (s_disk s2) v)) /\
  (unknown_inv s ->
     info_matches s2 /\
     forall v, In v (s_vols s2) -> v_fat32 v = true ->
       le32 (disk_get (s_disk s2) (v_info v)) 488 = le32 (disk_get (s_disk s1) (v_info v)) 488).
Proof.
  intros Hinv Hh Hage Hops Hg s1 Ho Hs Hex Hhint.
  assert (Hage' : age + N.of_nat (length ops) < U32 - 1) by (clear - Hage; lia).
  destruct (xhistory_pres fsz vid (fun _ => True) (fun _ _ _ _ _ _ _ _ _ => I) (fun _ _ _ => I) ops s age Hinv Hh Hage' Hops Hg I)
    as (Hinv1 & Hh1 & _). fold s1 in Hinv1, Hh1.
  destruct (C16x_history fsz vid ops s age Hinv Hh Hage' Hops Hg) as (_ & Ht & Hu & Hhi). fold s1 in Ht, Hu, Hhi.
  (* the last call, as a one-call base history from s1 *)
  assert (Hage1 : age + N.of_nat (length ops) + N.of_nat (length (@nil op)) + 1 < U32 - 1) by (cbn [length]; lia).
  pose proof (PrC16.C16_history_flush fsz vid [] s1 (age + N.of_nat (length ops)) o h r s2 Hinv1 Hh1 Hage1 (Forall_nil _)) as HF.
  cbv zeta in HF. cbn [run_ops snd] in HF. specialize (HF Ho Hs Hex (Hhi Hhint)). destruct HF as (HF1 & HF2).
  split; [|split; [|split]].
  - intros ->. cbn [xstep]. rewrite xlift_run, Hs. reflexivity.
  - intros ->. split; [cbn [xstep]; rewrite xlift_run, Hs; reflexivity|].
    cbn [xstep]. rewrite xlift_run, drop_file_is_close. cbn [step] in Hs. rewrite lift_run in Hs.
    destruct (close_file h s1) as [[u|e| |] sx]; cbn [fst snd omap] in Hs; try discriminate.
    injection Hs as _ <-. reflexivity.
  - intros T0. exact (HF1 (Ht T0)).
  - intros U0. exact (HF2 (Hu U0)).
Qed.

(* ================================================================== b. C10 / C09 *)
Lemma crash_disks_dirs s s1 l d' : crash_disks s (set_s_dirs s1 l) d' <-> crash_disks s s1 d'.
Proof. reflexivity. Qed.

(* every crashed medium of an extended call is a crashed medium of its base call *)
Lemma xcrash_disks_base o s d' : crash_disks s (snd (xstep o s)) d' <-> crash_disks s (snd (step (xbase o) s)) d'.
Proof. destruct (xstep_state o s) as (l & ->). apply crash_disks_dirs. Qed.

Definition xstep_crash (fsz vid : N) (o : xop) : Prop :=
  forall s r s', fs_inv fsz vid s -> id_fresh s -> xop_scope_ok o -> xop_guard o s -> xstep o s = (r, s') ->
    forall v d', s_vols s = [v] -> crash_disks s s' d' -> crash_inv fsz v d'.

Theorem all_xsteps_crash fsz vid : forall o, xstep_crash fsz vid o.
Proof.
  intros o s r s' Hinv Hid Ho _ E v d' Ev Hd.
  assert (Hd1 : crash_disks s (snd (xstep o s)) d') by (rewrite E; exact Hd).
  apply xcrash_disks_base in Hd1. destruct (step (xbase o) s) as [r1 s1] eqn:E1. cbn [snd] in Hd1.
  exact (PrCrashAll.all_steps_crash fsz vid (xbase o) s r1 s1 Hinv Hid (xbase_known o Ho) E1 v d' Ev Hd1).
Qed.

(* what "the file itself is modified, truncated or deleted" means for an extended call: the drop of a
   handle on it counts (it flushes); the listing, change_dir, the File questions never target a file *)
Definition xop_targets (s : st) (v : vol) (o : xop) (e : dirent) : Prop := op_targets s v (xbase o) e.

Definition xstep_keeps_flushed (fsz vid : N) (o : xop) : Prop :=
  forall s r s', fs_inv fsz vid s -> id_fresh s -> xop_scope_ok o -> xop_guard o s -> xstep o s = (r, s') ->
    forall v path e bytes, s_vols s = [v] -> file_on_medium (s_disk s) v path e bytes ->
      ~ xop_targets s v o e ->
      forall d', crash_disks s s' d' -> file_on_medium d' v path e bytes.

Theorem all_xsteps_keep fsz vid : forall o, xstep_keeps_flushed fsz vid o.
Proof.
  intros o s r s' Hinv Hid Ho _ E v path e bytes Ev Hf Hnt d' Hd.
  assert (Hd1 : crash_disks s (snd (xstep o s)) d') by (rewrite E; exact Hd).
  apply xcrash_disks_base in Hd1. destruct (step (xbase o) s) as [r1 s1] eqn:E1. cbn [snd] in Hd1.
  exact (PrCrashAll.all_steps_keep fsz vid (xbase o) s r1 s1 Hinv Hid (xbase_known o Ho) E1 v path e bytes Ev Hf Hnt d' Hd1).
Qed.

Lemma xcrash_disks_final o s : crash_disks s (snd (xstep o s)) (s_disk (snd (xstep o s))).
Proof.
  destruct (xstep_state o s) as (l & El). rewrite El. apply crash_disks_dirs. cbn [s_disk set_s_dirs].
  destruct (step (xbase o) s) as [r1 s1] eqn:E1. cbn [snd]. exact (crash_disks_final (xbase o) s r1 s1 E1).
Qed.

Lemma xops_guard_mid ops1 : forall o ops2 s, xops_guard (ops1 ++ o :: ops2) s ->
  xops_guard ops1 s /\ xop_guard o (snd (xrun_ops ops1 s)).
Proof.
  induction ops1 as [|o1 rest IH]; intros o ops2 s H; cbn [app xops_guard xrun_ops] in *.
  - cbn [snd]. split; [exact I|exact (proj1 H)].
  - destruct H as (H1 & H2). destruct (IH o ops2 _ H2) as (A & B).
    destruct (xstep o1 s) as [r1 s1]. cbn [snd] in *. destruct (xrun_ops rest s1) as [rs sb]. cbn [snd] in *.
    split; [split; assumption|exact B].
Qed.

(* C10 over histories of the extended alphabet: the medium between calls and the medium after EVERY
   prefix of the block writes of EVERY call satisfies the crash invariant *)
Theorem C10x_history fsz vid ops1 o ops2 s age v :
  fs_inv fsz vid s -> PrHandles.handles_ok age s ->
  age + N.of_nat (length (ops1 ++ o :: ops2)) < U32 - 1 -> Forall xop_scope_ok (ops1 ++ o :: ops2) ->
  xops_guard (ops1 ++ o :: ops2) s ->
  s_vols s = [v] ->
  let s1 := snd (xrun_ops ops1 s) in
  crash_inv fsz v (s_disk s1) /\
  forall d', crash_disks s1 (snd (xstep o s1)) d' -> crash_inv fsz v d'.
Proof.
  revert o ops2 s age v. induction ops1 as [|o1 rest IH]; intros o ops2 s age v Hinv Hh Hage Hops Hg Ev s1.
  - subst s1. cbn [xrun_ops snd]. split; [exact (fs_inv_crash fsz vid s v Hinv Ev)|].
    intros d' Hd. destruct (xstep o s) as [r s2] eqn:Es. cbn [snd] in Hd.
    cbn [app] in Hops, Hage, Hg. inversion Hops as [|? ? Ho _]; subst.
    assert (Ha1 : age < U32) by (cbn [length] in Hage; unfold U32 in *; lia).
    exact (all_xsteps_crash fsz vid o s r s2 Hinv (handles_ok_fresh age s Ha1 Hh) Ho (proj1 Hg) Es v d' Ev Hd).
  - subst s1. cbn [xrun_ops app] in *. destruct (xstep o1 s) as [r1 sa] eqn:Es.
    inversion Hops as [|? ? Ho1 Hrest]; subst. cbn [length] in Hage.
    cbn [xops_guard] in Hg. rewrite Es in Hg. destruct Hg as (Hg0 & Hg1). cbn [snd] in Hg1.
    assert (Ha1 : age < U32) by (unfold U32 in *; lia).
    assert (Ha2 : age < U32 - 1) by (unfold U32 in *; lia).
    assert (Ha3 : age + 1 + N.of_nat (length (rest ++ o :: ops2)) < U32 - 1).
    { rewrite Nat2N.inj_succ in Hage. unfold U32 in *. lia. }
    destruct (all_xsteps_ok fsz vid o1 s r1 sa Hinv (handles_ok_fresh age s Ha1 Hh) Ho1 Hg0 Es) as (_ & _ & Hinv1 & Hgeo1 & _).
    pose proof (C08x_handles_ok_step age o1 s Ha2 (xscope_remount o1 Ho1) Hh) as Hh1.
    rewrite Es in Hh1. cbn [snd] in Hh1.
    destruct Hgeo1 as (v0 & va & Ev0 & Eva & G). rewrite Ev in Ev0. injection Ev0 as <-.
    specialize (IH o ops2 sa (age + 1) va Hinv1 Hh1 Ha3 Hrest Hg1 Eva).
    destruct (xrun_ops rest sa) as [rs sb]. cbn [snd] in *.
    pose proof (geo_eq_sym _ _ G) as G'. destruct IH as (I1 & I2).
    split; [exact (crash_inv_geo fsz va v _ G' I1)|].
    intros d' Hd. exact (crash_inv_geo fsz va v _ G' (I2 d' Hd)).
Qed.

Lemma xop_targets_geo s v w o e : geo_eq v w -> xop_targets s w o e -> xop_targets s v o e.
Proof. unfold xop_targets. apply op_targets_geo. Qed.

(* C09 over histories of the extended alphabet: a file that is on the medium stays on the medium -
   same path, same entry, exactly the same bytes - between calls and on every crashed medium of every
   later call, as long as no call targets that file *)
Theorem C09x_history fsz vid ops1 o ops2 s age v path e bytes :
  fs_inv fsz vid s -> PrHandles.handles_ok age s ->
  age + N.of_nat (length (ops1 ++ o :: ops2)) < U32 - 1 -> Forall xop_scope_ok (ops1 ++ o :: ops2) ->
  xops_guard (ops1 ++ o :: ops2) s ->
  s_vols s = [v] -> file_on_medium (s_disk s) v path e bytes ->
  (forall pre o' post, ops1 ++ [o] = pre ++ o' :: post -> ~ xop_targets (snd (xrun_ops pre s)) v o' e) ->
  let s1 := snd (xrun_ops ops1 s) in
  file_on_medium (s_disk s1) v path e bytes /\
  forall d', crash_disks s1 (snd (xstep o s1)) d' -> file_on_medium d' v path e bytes.
Proof.
  revert o ops2 s age v path e bytes.
  induction ops1 as [|o1 rest IH]; intros o ops2 s age v path e bytes Hinv Hh Hage Hops Hg Ev Hf Hnt s1.
  - subst s1. cbn [xrun_ops snd]. split; [exact Hf|].
    intros d' Hd. destruct (xstep o s) as [r s2] eqn:Es. cbn [snd] in Hd.
    cbn [app] in Hops, Hage, Hg. inversion Hops as [|? ? Ho _]; subst.
    assert (Ha1 : age < U32) by (cbn [length] in Hage; unfold U32 in *; lia).
    apply (all_xsteps_keep fsz vid o s r s2 Hinv (handles_ok_fresh age s Ha1 Hh) Ho (proj1 Hg) Es v path e bytes Ev Hf); [|exact Hd].
    exact (Hnt [] o [] eq_refl).
  - subst s1. cbn [xrun_ops app] in *. destruct (xstep o1 s) as [r1 sa] eqn:Es.
    inversion Hops as [|? ? Ho1 Hrest]; subst. cbn [length] in Hage.
    cbn [xops_guard] in Hg. rewrite Es in Hg. destruct Hg as (Hg0 & Hg1). cbn [snd] in Hg1.
    assert (Ha1 : age < U32) by (unfold U32 in *; lia).
    assert (Ha2 : age < U32 - 1) by (unfold U32 in *; lia).
    assert (Ha3 : age + 1 + N.of_nat (length (rest ++ o :: ops2)) < U32 - 1).
    { rewrite Nat2N.inj_succ in Hage. unfold U32 in *. lia. }
    pose proof (handles_ok_fresh age s Ha1 Hh) as Hfresh.
    destruct (all_xsteps_ok fsz vid o1 s r1 sa Hinv Hfresh Ho1 Hg0 Es) as (_ & _ & Hinv1 & Hgeo1 & _).
    pose proof (C08x_handles_ok_step age o1 s Ha2 (xscope_remount o1 Ho1) Hh) as Hh1.
    rewrite Es in Hh1. cbn [snd] in Hh1.
    destruct Hgeo1 as (v0 & va & Ev0 & Eva & G). rewrite Ev in Ev0. injection Ev0 as <-.
    pose proof (geo_eq_sym _ _ G) as G'.
    assert (Hf1 : file_on_medium (s_disk sa) v path e bytes).
    { apply (all_xsteps_keep fsz vid o1 s r1 sa Hinv Hfresh Ho1 Hg0 Es v path e bytes Ev Hf).
      - exact (Hnt [] o1 (rest ++ [o]) eq_refl).
      - pose proof (xcrash_disks_final o1 s) as K. rewrite Es in K. exact K. }
    specialize (IH o ops2 sa (age + 1) va path e bytes Hinv1 Hh1 Ha3 Hrest Hg1 Eva (file_on_medium_geo _ v va _ _ _ G Hf1)).
    assert (Hnt1 : forall pre o' post, rest ++ [o] = pre ++ o' :: post -> ~ xop_targets (snd (xrun_ops pre sa)) va o' e).
    { intros pre o' post E Ht. apply (Hnt (o1 :: pre) o' post); [cbn [app]; rewrite E; reflexivity|].
      cbn [xrun_ops]. rewrite Es. destruct (xrun_ops pre sa) as [rs sb]. cbn [snd] in *.
      exact (xop_targets_geo sb v va o' e G Ht). }
    specialize (IH Hnt1). destruct (xrun_ops rest sa) as [rs sb]. cbn [snd] in *. destruct IH as (I1 & I2).
    split; [exact (file_on_medium_geo _ va v _ _ _ G' I1)|].
    intros d' Hd. exact (file_on_medium_geo _ va v _ _ _ G' (I2 d' Hd)).
Qed.

(* ---- the crashed media never differ from the START medium outside the regions of the volume ---- *)
Lemma traced_xstep o s : traced s (snd (xstep o s)).
Proof.
  destruct (xstep_state o s) as (l & ->). destruct (step (xbase o) s) as [r1 s1] eqn:E1. cbn [snd].
  exact (traced_step (xbase o) s r1 s1 E1).
Qed.

Lemma traced_xrun_ops : forall ops s, traced s (snd (xrun_ops ops s)).
Proof.
  induction ops as [|o rest IH]; intros s; cbn [xrun_ops]; [apply traced_refl|].
  pose proof (traced_xstep o s) as T0. destruct (xstep o s) as [r s1]. cbn [snd] in T0. specialize (IH s1).
  destruct (xrun_ops rest s1) as [rs s']. cbn [snd] in *. exact (traced_trans _ _ _ T0 IH).
Qed.

Lemma xrun_ops_snoc : forall ops1 o s, snd (xrun_ops (ops1 ++ [o]) s) = snd (xstep o (snd (xrun_ops ops1 s))).
Proof. intros ops1 o s. rewrite xrun_ops_app. cbn [snd xrun_ops]. destruct (xstep o _) as [r s1]. reflexivity. Qed.

Lemma xops_guard_snoc ops1 : forall o ops2 s, xops_guard (ops1 ++ o :: ops2) s -> xops_guard (ops1 ++ [o]) s.
Proof.
  induction ops1 as [|o1 rest IH]; intros o ops2 s H; cbn [app xops_guard] in *.
  - split; [exact (proj1 H)|exact I].
  - split; [exact (proj1 H)|exact (IH _ _ _ (proj2 H))].
Qed.

Theorem C10x_region_history fsz vid ops1 o ops2 s age v :
  fs_inv fsz vid s -> PrHandles.handles_ok age s ->
  age + N.of_nat (length (ops1 ++ o :: ops2)) < U32 - 1 -> Forall xop_scope_ok (ops1 ++ o :: ops2) ->
  xops_guard (ops1 ++ o :: ops2) s ->
  s_vols s = [v] ->
  let s1 := snd (xrun_ops ops1 s) in
  forall d', crash_disks s1 (snd (xstep o s1)) d' ->
    (forall j, ~ PrBounds.in_region v fsz j -> disk_get d' j = disk_get (s_disk s) j) /\
    disk_get d' 0 = disk_get (s_disk s) 0 /\ disk_get d' (v_lba v) = disk_get (s_disk s) (v_lba v).
Proof.
  intros Hinv Hh Hage Hops Hg Ev s1 d' Hd.
  assert (Hage1 : age + N.of_nat (length (ops1 ++ [o])) < U32 - 1).
  { rewrite app_length in *. cbn [length] in *. rewrite Nat2N.inj_add in *. lia. }
  assert (Hops1 : Forall xop_scope_ok (ops1 ++ [o])).
  { rewrite Forall_forall in *. intros x Hx. apply Hops. apply in_app_or in Hx. apply in_or_app.
    destruct Hx as [Hx|[<-|[]]]; [left; exact Hx|right; left; reflexivity]. }
  destruct (C04x_history fsz vid (ops1 ++ [o]) s age Hinv Hh Hage1 Hops1 (xops_guard_snoc _ _ _ _ Hg)) as (ws & Ht & Hws).
  rewrite xrun_ops_snoc in Ht. fold s1 in Ht.
  assert (T1 : traced s s1) by (subst s1; apply traced_xrun_ops).
  assert (T2 : traced s1 (snd (xstep o s1))) by apply traced_xstep.
  pose proof (crash_disks_right s s1 _ d' T1 T2 Hd) as Hd0.
  assert (Hout : forall j, ~ PrBounds.in_region v fsz j -> disk_get d' j = disk_get (s_disk s) j).
  { apply (PrCrashDef6.crash_untouched (PrBounds.in_region v fsz) s _ ws Ht); [|exact Hd0].
    apply Hws. rewrite Ev. left. reflexivity. }
  split; [exact Hout|].
  destruct Hinv as (vi & v0 & bl & rch & T & Hat).
  pose proof (fi_single _ _ _ _ _ _ _ _ Hat) as Ev0. rewrite Ev in Ev0. injection Ev0 as <-.
  pose proof (fi_layout _ _ _ _ _ _ _ _ Hat) as L.
  split; apply Hout; intros Hr;
    destruct (PrBounds.C04_regions_not_outside v (v_nblocks v) fsz _ L Hr) as (A & B & _); congruence.
Qed.

Print Assumptions xstep_state.
Print Assumptions all_xsteps_c16.
Print Assumptions C16x_history.
Print Assumptions C16x_history_flush.
Print Assumptions all_xsteps_crash.
Print Assumptions all_xsteps_keep.
Print Assumptions C10x_history.
Print Assumptions C09x_history.
Print Assumptions C10x_region_history.
